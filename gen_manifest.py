#!/usr/bin/env python3
"""Writes MANIFEST.json from checks.py (single source of truth for what is claimed)."""
import json, os, sys
ROOT = os.path.dirname(os.path.abspath(__file__))
sys.path.insert(0, ROOT)
from checks import PROPS, NOT_APPLICABLE, HOOK_COMMITS
ids = [json.loads(l)["id"] for l in open(os.path.join(ROOT, "properties.jsonl"))]
checks = []
for pid in ids:
    if pid not in PROPS:
        continue
    c = PROPS[pid]
    checks.append(dict(
        property_id=pid,
        quick_cmd=f"./check {pid} --tier quick",
        thorough_cmd=f"./check {pid} --tier thorough",
        evidence_file=f"evidence/{pid}.json",
        replay_cmd_template=f"./check {pid} --replay {{path}}",
        engine="lean4-proof+correspondence",
        level_claimed=dict(category=c.get("level", "proof"), text=c["level_text"], design_ref=c.get("design_ref", f"DESIGN.md §7 {pid}")),
        level_note=c["level_note"],
        technique=c["technique"],
    ))
na = [dict(property_id=p, reason=NOT_APPLICABLE[p]) for p in ids if p not in PROPS]
for p in ids:
    assert p in PROPS or p in NOT_APPLICABLE, p
m = dict(
    version=1,
    setup_cmd="./setup.sh",
    hooks=dict(guard="verif", enable="go build -tags verif (the harness module under /verif/harness replaces the canopy module with /repo)",
               baseline_off_cmd="for m in . plugin/go plugin/go/tutorial; do (cd /repo/$m && go test -vet=off -count=1 -timeout 25m ./...); done",
               source_commits=HOOK_COMMITS, add_only=True),
    engines=[dict(name="lean4-proof+correspondence", path="check",
                  serves_properties=[c["property_id"] for c in checks],
                  kind_free_text="Lean 4 theorems about executable models (lean/Canopy), models regenerated (harness/cmd/facts) or tied by a differential correspondence run against the real Go code (harness/cmd/drive vs lean/Driver)")],
    checks=checks,
    not_applicable=na,
    notes="See DESIGN.md. known_findings.json lists confirmed defects recorded rather than repaired.",
)
json.dump(m, open(os.path.join(ROOT, "MANIFEST.json"), "w"), indent=1)
print(f"MANIFEST.json: {len(checks)} checks, {len(na)} not claimed")
