// Package drv is the shared plumbing of the correspondence harness: every property driver runs
// the REAL canopy code in-process and records, per operation, one op line (fed to the Lean driver)
// and one canonical result line (compared with the Lean driver's output), plus measured coverage.
package drv

import (
	"bufio"
	"crypto/sha256"
	"encoding/hex"
	"encoding/json"
	"flag"
	"fmt"
	"math/rand"
	"os"
	"path/filepath"
	"sort"
	"strings"
)

type OracleFailure struct {
	Signature string `json:"signature"` // stable classification, matched against known_findings.json
	Desc      string `json:"desc"`
	Case      string `json:"case"`
	Replay    any    `json:"replay"` // concrete failing input / history
}

type Out struct {
	Dir        string
	Seed       int64
	Tier       string
	Search     bool
	Rng        *rand.Rand
	ops, impl  *bufio.Writer
	fo, fi     *os.File
	NOps       int
	NCases     int
	Hist       map[string]int
	nontrivial map[[8]byte]struct{}
	Failures   []OracleFailure
	Samples    []string
	Extra      map[string]any
	curCase    string
}

func New(dir string, seed int64, tier string) (*Out, error) {
	if err := os.MkdirAll(dir, 0o755); err != nil {
		return nil, err
	}
	fo, err := os.Create(filepath.Join(dir, "ops.txt"))
	if err != nil {
		return nil, err
	}
	fi, err := os.Create(filepath.Join(dir, "impl.txt"))
	if err != nil {
		return nil, err
	}
	return &Out{Dir: dir, Seed: seed, Tier: tier, Rng: rand.New(rand.NewSource(seed)),
		ops: bufio.NewWriterSize(fo, 1<<20), impl: bufio.NewWriterSize(fi, 1<<20), fo: fo, fi: fi,
		Failures: []OracleFailure{}, Samples: []string{}, Hist: map[string]int{}, nontrivial: map[[8]byte]struct{}{}, Extra: map[string]any{}}, nil
}

// Case starts a new case; the marker is echoed by the Lean driver so both streams stay aligned.
func (o *Out) Case(id string) {
	o.NCases++
	o.curCase = id
	fmt.Fprintf(o.ops, "# case %s\n", id)
	fmt.Fprintf(o.impl, "# case %s\n", id)
}

func (o *Out) CurCase() string { return o.curCase }

// Op records one operation and what the implementation answered.
func (o *Out) Op(op, result string) {
	if strings.ContainsAny(op, "\n\r") || strings.ContainsAny(result, "\n\r") {
		panic("drv: newline in op/result")
	}
	o.NOps++
	fmt.Fprintln(o.ops, op)
	fmt.Fprintln(o.impl, result)
}

func (o *Out) Count(kind string) { o.Hist[kind]++ }

// Nontrivial registers a canonical description of a non-trivial evaluation (counted distinct).
func (o *Out) Nontrivial(desc string) {
	h := sha256.Sum256([]byte(desc))
	var k [8]byte
	copy(k[:], h[:8])
	o.nontrivial[k] = struct{}{}
}

func (o *Out) Sample(s string) {
	if len(o.Samples) < 12 {
		if len(s) > 300 {
			s = s[:300] + "…"
		}
		o.Samples = append(o.Samples, s)
	}
}

// Fail records that the property's executable oracle failed ON THE IMPLEMENTATION.
func (o *Out) Fail(sig, desc string, replay any) {
	o.Failures = append(o.Failures, OracleFailure{Signature: sig, Desc: desc, Case: o.curCase, Replay: replay})
}

func (o *Out) Close() error {
	o.ops.Flush()
	o.impl.Flush()
	o.fo.Close()
	o.fi.Close()
	keys := make([]string, 0, len(o.Hist))
	for k := range o.Hist {
		keys = append(keys, k)
	}
	sort.Strings(keys)
	st := map[string]any{
		"seed": o.Seed, "tier": o.Tier, "ops": o.NOps, "cases": o.NCases,
		"distinct_nontrivial": len(o.nontrivial), "histogram": o.Hist,
		"oracle_failures": o.Failures, "samples": o.Samples, "extra": o.Extra,
	}
	bz, _ := json.MarshalIndent(st, "", " ")
	return os.WriteFile(filepath.Join(o.Dir, "stats.json"), bz, 0o644)
}

func Hex(b []byte) string {
	if len(b) == 0 {
		return "-"
	}
	return hex.EncodeToString(b)
}

// Uint64 draws from a boundary-heavy distribution.
func Uint64(r *rand.Rand) uint64 {
	switch r.Intn(10) {
	case 0:
		return 0
	case 1:
		return 1
	case 2:
		return uint64(r.Intn(300))
	case 3:
		return ^uint64(0)
	case 4:
		return ^uint64(0) - uint64(r.Intn(3))
	case 5:
		return uint64(1) << uint(r.Intn(64))
	case 6:
		return (uint64(1) << uint(r.Intn(64))) - 1
	default:
		return r.Uint64()
	}
}

// Bytes draws a byte string of the given length with embedded length-like bytes and 0xFF runs.
func Bytes(r *rand.Rand, n int) []byte {
	b := make([]byte, n)
	mode := r.Intn(5)
	for i := range b {
		switch mode {
		case 0:
			b[i] = 0xFF
		case 1:
			b[i] = 0
		case 2:
			b[i] = byte(r.Intn(4))
		case 3:
			b[i] = byte(n)
		default:
			b[i] = byte(r.Intn(256))
		}
	}
	return b
}

// Recover runs f and maps a panic to ("panic", true).
func Recover(f func() string) (res string) {
	defer func() {
		if r := recover(); r != nil {
			res = "panic"
		}
	}()
	return f()
}

// Main is the entry point shared by every per-property driver binary (harness/cmd/cNN):
//
//	cNN -seed N -tier quick|thorough [-search] -out DIR
func Main(prop string, run func(o *Out)) {
	seed := flag.Int64("seed", 1, "PRNG seed (VERIF_SEED)")
	tier := flag.String("tier", "quick", "quick|thorough")
	out := flag.String("out", "", "output directory")
	search := flag.Bool("search", false, "an obligation broke: bias generators towards finding a failing input")
	flag.Parse()
	if *out == "" {
		fmt.Fprintf(os.Stderr, "usage: %s -seed N -tier quick|thorough [-search] -out DIR\n", prop)
		os.Exit(2)
	}
	o, err := New(*out, *seed, *tier)
	if err != nil {
		panic(err)
	}
	o.Search = *search
	run(o)
	if err := o.Close(); err != nil {
		panic(err)
	}
}
