package c18

import (
	"fmt"
	"time"

	"github.com/canopy-network/canopy/lib"
	"github.com/canopy-network/canopy/p2p"

	"verifharness/c17"
	"verifharness/drv"
)

// splitSweep — permanent scenario `near-limit-split`: the REAL p2p.split, at the real constants, on
// message lengths around the packet boundary, around 256 full chunks (255,987,200 bytes: the largest
// message that fits in maxChunksPerPacket packets) and around maxMessageSize — through the hook
// p2p.VerifSplitLens, which runs split on a zero buffer that is never touched (split only slices).
//
// Oracle (independent of the model): the chunks add up to the whole message, none is larger than
// maxDataChunkSize, there are ⌈len/chunk⌉ of them. Since Send marks the LAST chunk EOF, a split that
// loses a tail makes the receiver deliver a truncated message (and accept an over-limit one).
// Signature C18:received-differs-from-sent:near-limit-message.
func splitSweep(o *drv.Out) {
	o.Case("near-limit-split")
	ch, mm, mc := p2p.VerifMuxLimits()
	if ch != chunk || mm != maxMsg {
		o.Fail("C18:limits-differ-from-harness-constants", fmt.Sprint(ch, mm, mc), nil)
	}
	full := mc * ch // 255,987,200
	sizes := []int{0, 1, ch - 1, ch, ch + 1, 2*ch - 1, 2 * ch, 2*ch + 1, 17*ch + 5, 255 * ch, 255*ch + 1,
		full - 1, full, full + 1, full + ch, mm - 1, mm, mm + 1, mm + ch, 300000000}
	p2p.VerifSplitLens(300000000) // the shared zero buffer is allocated once, at its largest
	t0 := time.Now()
	defer func() { o.Extra["c18_split_sweep_s"] = time.Since(t0).Seconds() }()
	for _, n := range sizes {
		lens := p2p.VerifSplitLens(n)
		sum, mx := 0, 0
		for _, l := range lens {
			sum += l
			mx = max(mx, l)
		}
		first, last := 0, 0
		if len(lens) > 0 {
			first, last = lens[0], lens[len(lens)-1]
		}
		o.Op(fmt.Sprintf("split-lens %d", n), fmt.Sprintf("%d sum=%d first=%d last=%d max=%d", len(lens), sum, first, last, mx))
		o.Count("op:split-lens")
		want := 1
		if n > 0 {
			want = (n + ch - 1) / ch
		}
		if sum != n || mx > ch || len(lens) != want {
			what := "truncated"
			if n > mm {
				what = "an over-limit message accepted as its first bytes instead of closing the connection"
			}
			o.Fail("C18:received-differs-from-sent:near-limit-message",
				fmt.Sprintf("split of a %d-byte message (limit %d, chunk %d): %d chunks carrying %d bytes, expected %d chunks carrying %d; Send marks the last chunk EOF, so the receiver delivers the first %d bytes as the whole message (%s)", n, mm, ch, len(lens), sum, want, n, sum, what),
				map[string]any{"message_bytes": n, "chunks": len(lens), "bytes_in_chunks": sum, "expected_chunks": want, "last_chunk": last})
		}
		if n > ch {
			o.Nontrivial(fmt.Sprintf("split %d", n))
		}
	}
}

// nearLimitSend (THOROUGH tier): the same sizes end to end through the real MultiConn.Send into a
// hand-driven receiver that counts what arrives on the wire (packets, bytes, EOF position).
func nearLimitSend(o *drv.Out, base string) {
	ch, mm, mc := p2p.VerifMuxLimits()
	buf := make([]byte, mm) // one shared zero buffer
	for _, n := range []int{mc*ch + 1, mm} {
		o.Case(fmt.Sprintf("near-limit-send-%d", n))
		a := newNode(base)
		idM, _ := newKey()
		ca, cm, _, _ := c17.NewDuplex("A", "M")
		var conn *p2p.MultiConn
		done := make(chan struct{})
		go func() { conn, _ = a.NewConnection(ca, info(idM.PublicKey().Bytes())); close(done) }()
		x, err := c17.KeySwap(cm, nil, 2*time.Second)
		if err == nil {
			_, _, err = x.Authenticate(idM, a.meta(), 2*time.Second)
		}
		<-done
		if err != nil || conn == nil {
			o.Count("near-limit-send:connect-failed")
			continue
		}
		go conn.Send(lib.Topic(1), buf[:n])
		pk, sum, eofAt := 0, 0, -1
		deadline := time.Now().Add(120 * time.Second)
		for time.Now().Before(deadline) {
			bz, err := c17.RecvLP(x)
			if err != nil {
				break
			}
			env := new(p2p.Envelope)
			if lib.Unmarshal(bz, env) != nil {
				continue
			}
			m, e := lib.FromAny(env.Payload)
			if e != nil {
				continue
			}
			p, ok := m.(*p2p.Packet)
			if !ok {
				continue
			}
			if p.StreamId == lib.Topic_HEARTBEAT {
				if string(p.Bytes) == "ping" { // keep the sender's liveness window open
					a2, _ := lib.NewAny(&p2p.Packet{StreamId: lib.Topic_HEARTBEAT, Eof: true, Bytes: []byte("pong")})
					ebz, _ := lib.Marshal(&p2p.Envelope{Payload: a2})
					_ = c17.SendLP(x, ebz)
				}
				continue
			}
			pk++
			sum += len(p.Bytes)
			if p.Eof {
				eofAt = pk
				break
			}
		}
		conn.Stop()
		a.Stop()
		cm.Close()
		want := (n + ch - 1) / ch
		if sum != n || pk != want || eofAt != want {
			o.Fail("C18:received-differs-from-sent:near-limit-message",
				fmt.Sprintf("MultiConn.Send of %d bytes put %d packets with %d bytes on the wire, EOF on packet %d; expected %d packets, %d bytes", n, pk, sum, eofAt, want, n),
				map[string]any{"message_bytes": n, "packets": pk, "bytes": sum})
		}
		o.Count("near-limit-send:done")
		o.Nontrivial(fmt.Sprintf("near-limit-send %d", n))
	}
}
