package c18

import (
	"bytes"
	"fmt"
	"strings"
	"sync"
	"time"

	"github.com/canopy-network/canopy/lib"

	"verifharness/c17"
	"verifharness/drv"
)

// partialEnqueue (THOROUGH tier; DESIGN §8-F8): reproduces on the real MultiConn the history
// `sendPartial T A 1; send T B` of Props/C18 `partial_enqueue_merges`.
//
// How the real code gets there with its PRODUCTION timeouts (write deadline ≤ 5 s, queueSendTimeout
// 10 s): the link is slow (one small packet per 1.5 s, every write well inside the write deadline),
// every stream's send queue is full, and the send loop's `select` picks uniformly among the seven
// ready queues. `Send(T, A)` with two packets gets its first packet in when T is picked once, then
// waits 10 s for T to be picked again; with 6-7 picks in 10 s that fails with probability ≈ 0.36 and
// `queueSends` returns false, leaving A's first packet (no EOF) queued. Several independent
// connections run in parallel so that one of them gets there in the first round.
func partialEnqueue(o *drv.Out, base string) {
	o.Case("partial-enqueue")
	const T = 3
	const pairs = 16
	const delay = 1500 * time.Millisecond
	msgA := Pattern(65, chunk+8) // two packets: chunk bytes, then 8 bytes + EOF
	msgB := Pattern(66, 16)
	type outcome struct {
		tornDown bool // A ended the connection because of the partial enqueue (the repaired code)
		okB      bool
		sendA    bool
		elapsed  time.Duration
		last     []byte
		died     bool
		unknown  [][]byte
		fillerOK bool
	}
	attempt := func() outcome {
		var oc outcome
		l, err := connect(base)
		if err != nil {
			oc.died = true
			return oc
		}
		defer l.close()
		// B's application drains its inboxes continuously
		stop := make(chan struct{})
		var mu sync.Mutex
		got := map[int][][]byte{}
		var dwg sync.WaitGroup
		for t := 0; t < 6; t++ {
			dwg.Add(1)
			go func(t int) {
				defer dwg.Done()
				for {
					select {
					case m := <-l.b.Inbox(lib.Topic(t)):
						mu.Lock()
						got[t] = append(got[t], m.Message)
						mu.Unlock()
					case <-stop:
						return
					}
				}
			}(t)
		}
		// slow link A -> B: one item in flight, each delivered after `delay`
		l.ab.With(func(p *c17.Pipe) { p.Cap, p.Delay = 1, delay })
		var wg sync.WaitGroup
		for t := 0; t < 6; t++ {
			wg.Add(1)
			go func(t int) {
				defer wg.Done()
				for i := 0; i < 1000; i++ {
					l.mc.Send(lib.Topic(t), []byte{byte(t)})
				}
			}(t)
		}
		wg.Wait()
		t0 := time.Now()
		oc.sendA = l.mc.Send(T, msgA)
		oc.elapsed = time.Since(t0)
		// the link recovers
		l.ab.With(func(p *c17.Pipe) { p.Cap, p.Delay = 0, 0 })
		for _, line := range l.a.log.Lines() {
			if strings.Contains(line, "short write") {
				oc.tornDown = true
			}
		}
		oc.okB = l.mc.Send(T, msgB)
		deadline := time.Now().Add(60 * time.Second)
		for time.Now().Before(deadline) {
			mu.Lock()
			n := len(got[T])
			var last []byte
			if n > 0 {
				last = got[T][n-1]
			}
			mu.Unlock()
			if n > 0 && len(last) >= len(msgB) && bytes.Equal(last[len(last)-len(msgB):], msgB) {
				oc.last = last
				break
			}
			closed := false
			l.ab.With(func(p *c17.Pipe) { closed = p.Closed && len(p.Items) == 0 })
			if closed {
				time.Sleep(300 * time.Millisecond) // let the receiver finish what it already read
				break
			}
			time.Sleep(20 * time.Millisecond)
		}
		close(stop)
		dwg.Wait()
		if !oc.tornDown && (!oc.okB || oc.last == nil) {
			oc.died = true
			return oc
		}
		mu.Lock()
		for _, m := range got[T] {
			if !(len(m) == 1 && m[0] == T) && !bytes.Equal(m, msgA) && !bytes.Equal(m, msgB) {
				oc.unknown = append(oc.unknown, m)
			}
		}
		mu.Unlock()
		return oc
	}
	for round := 0; round < 3; round++ {
		res := make([]outcome, pairs)
		var wg sync.WaitGroup
		for i := range res {
			wg.Add(1)
			go func(i int) { defer wg.Done(); res[i] = attempt() }(i)
		}
		wg.Wait()
		for _, oc := range res {
			switch {
			case oc.died:
				o.Count("f8:attempt-connection-died")
			case oc.sendA:
				o.Count("f8:attempt-A-fully-enqueued")
			case len(oc.unknown) > 0:
				o.Count("f8:attempt-merged")
			case oc.tornDown:
				o.Count("f8:attempt-partial-then-connection-ended")
			default:
				o.Count("f8:attempt-A-failed-cleanly")
			}
		}
		// the repaired behaviour: a partial enqueue ends the connection, B is refused, nothing unknown arrives
		for _, oc := range res {
			if oc.died || oc.sendA || !oc.tornDown || len(oc.unknown) > 0 {
				continue
			}
			if oc.okB {
				o.Fail("C18:send-accepted-after-partial-enqueue", "Send on the same stream returned true after a partial enqueue had ended the connection", nil)
			}
			o.Op(fmt.Sprintf("send-partial %d 65 %d 1", T, len(msgA)), "fail 1")
			o.Op(fmt.Sprintf("send %d 66 %d", T, len(msgB)), map[bool]string{true: "ok 1", false: "refused"}[oc.okB])
			o.Op("deliver-all", "open")
			o.Op(fmt.Sprintf("inbox %d", T), "0")
			o.Nontrivial("partial-enqueue ended the connection")
			o.Sample(fmt.Sprintf("partial-enqueue: Send(topic %d, 2 packets) returned false after %.1fs with one packet queued; the connection was ended (short write); Send(B) refused; nothing but the filler messages reached the inbox", T, oc.elapsed.Seconds()))
			return
		}
		for _, oc := range res {
			if oc.died || oc.sendA || len(oc.unknown) == 0 {
				continue
			}
			merged := oc.unknown[0]
			want := append(append([]byte(nil), msgA[:chunk]...), msgB...)
			desc := fmt.Sprintf("Send(topic %d, A: %d bytes = 2 packets) returned false after %.1fs on a slow link with full queues; then Send(topic %d, B: %d bytes) returned true; the receiver's inbox got ONE message of %d bytes = first packet of A ‖ B (exact match: %v) — a message nobody sent, A was reported as failed",
				T, len(msgA), oc.elapsed.Seconds(), T, len(msgB), len(merged), bytes.Equal(merged, want))
			o.Fail("C18:partial-enqueue-merges-messages", desc, map[string]any{
				"topic": T, "A": fmt.Sprintf("Pattern(65,%d)", len(msgA)), "B": "Pattern(66,16)", "merged": showMsg(merged),
				"link":          "in-memory duplex, A->B one item in flight, 1.5 s per item while queues are full; production timeouts (p2p.WriteTimeout as set by p2p.New, queueSendTimeout 10 s)",
				"model_witness": "Canopy.C18.partial_enqueue_merges"})
			// the same history through the model: A cut after 1 packet, then B whole
			o.Op(fmt.Sprintf("send-partial %d 65 %d 1", T, len(msgA)), "fail 1")
			o.Op(fmt.Sprintf("send %d 66 %d", T, len(msgB)), "ok 1")
			o.Op(fmt.Sprintf("wire %d %d", T, T), fmt.Sprintf("wire 2 %d", func() uint64 {
				h := uint64(14695981039346656037)
				h = mix(mix(mix(mix(h, T), 0), chunk), fnv(msgA[:chunk]))
				return mix(mix(mix(mix(h, T), 1), uint64(len(msgB))), fnv(msgB))
			}()))
			o.Op("deliver-all", "open")
			o.Op(fmt.Sprintf("inbox %d", T), "1 "+showMsg(merged))
			o.Nontrivial("partial-enqueue reproduced")
			o.Sample("partial-enqueue: " + desc)
			return
		}
	}
	o.Count("f8:not-reproduced-this-run")
}
