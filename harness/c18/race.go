package c18

import (
	"context"
	"fmt"
	"os"
	"os/exec"
	"path/filepath"
	"regexp"
	"strings"
	"time"

	"verifharness/drv"
)

// raceRun (THOROUGH tier, supporting evidence ONLY — a test, not a proof): builds this very driver
// with the Go race detector and runs the concurrent-sender and hand-driven-receiver scenarios once.
// "None of this involves a data race" is not expressible in the Lean model; a clean run says that no
// race was OBSERVED on these schedules, nothing more. A reported race whose stack goes through
// canopy/p2p is a concrete counterexample and is reported as an oracle failure.
func raceRun(o *drv.Out) {
	wd, _ := os.Getwd() // the check runs drivers from /verif/harness
	if _, err := os.Stat(filepath.Join(wd, "go.mod")); err != nil {
		o.Extra["race_detector"] = "skipped: not started from the harness module directory"
		return
	}
	bin := filepath.Join(wd, "bin", "c18race")
	// the first race-instrumented build of the whole dependency tree is slow (minutes); it has a budget
	ctx, cancel := context.WithTimeout(context.Background(), 15*time.Minute)
	defer cancel()
	build := exec.CommandContext(ctx, "go", "build", "-race", "-tags", "verif", "-o", bin, "./cmd/c18")
	build.Dir = wd
	build.Env = append(os.Environ(), "GOFLAGS=-mod=mod", "GOPROXY=off", "CGO_ENABLED=1")
	if out, err := build.CombinedOutput(); err != nil {
		if ctx.Err() != nil {
			o.Extra["race_detector"] = "skipped (build budget): go build -race did not finish within 15 min"
		} else {
			o.Extra["race_detector"] = "skipped: race build failed: " + tail(string(out), 400)
		}
		o.Count("race-detector:skipped")
		return
	}
	dir := filepath.Join(o.Dir, "race")
	run := exec.Command(bin, "-seed", fmt.Sprint(o.Seed), "-tier", "race", "-out", dir)
	run.Dir = wd
	run.Env = append(os.Environ(), "GORACE=halt_on_error=0")
	out, err := run.CombinedOutput()
	reports := strings.Split(string(out), "WARNING: DATA RACE")
	n := len(reports) - 1
	bySig := map[string]string{}
	for _, r := range reports[1:] {
		if i := strings.Index(r, "=================="); i >= 0 {
			r = r[:i]
		}
		if sig := raceSignature(r); sig != "" {
			if _, seen := bySig[sig]; !seen {
				bySig[sig] = r
			}
		}
	}
	sigs := []string{}
	for sig := range bySig {
		sigs = append(sigs, sig)
	}
	o.Extra["race_detector"] = map[string]any{
		"what":    "go build -race of the C18 driver; concurrent senders over all topics through a recording relay + hand-driven packet scripts against real MultiConns; supporting evidence only (a test, not a proof)",
		"reports": n, "signatures_through_canopy_p2p": sigs, "exit_error": fmt.Sprint(err),
	}
	o.Count(fmt.Sprintf("race-detector:reports=%d", n))
	for sig, r := range bySig {
		o.Fail(sig, "the Go race detector reported a data race with canopy/p2p frames on both access stacks or on the accessing goroutines", tail(r, 3000))
	}
}

var p2pFrame = regexp.MustCompile(`canopy/p2p\.\(?\*?([A-Za-z0-9_]+)\)?\.([A-Za-z0-9_]+)`)

// raceSignature classifies one report by the innermost canopy/p2p function of each of the two
// conflicting accesses. The pair fixed by /repo commit 3ca164a (Stream.handlePacket vs Stream.cleanup on
// msgAssembler) keeps the plain signature; every other pair gets its own.
func raceSignature(report string) string {
	// the two access stacks are the first two blank-line separated blocks
	blocks := strings.Split(strings.TrimSpace(report), "\n\n")
	var fns []string
	for _, b := range blocks {
		if len(fns) == 2 {
			break
		}
		if !(strings.Contains(b, " at 0x") && strings.Contains(b, "by goroutine")) && !strings.Contains(b, "by main goroutine") {
			continue
		}
		m := p2pFrame.FindStringSubmatch(b)
		if m == nil {
			fns = append(fns, "")
			continue
		}
		fns = append(fns, m[1]+"."+m[2])
	}
	if len(fns) < 2 || (fns[0] == "" && fns[1] == "") {
		return "" // no canopy/p2p code on either access: not about the property (harness or library code)
	}
	pair := fns[0] + "+" + fns[1]
	switch {
	case pair == "Stream.handlePacket+Stream.cleanup" || pair == "Stream.cleanup+Stream.handlePacket":
		return "C18:data-race-detected"
	case strings.Contains(pair, "Stream.queueSend") && strings.Contains(pair, "Stream.cleanup"):
		return "C18:data-race-detected:sendQueue-after-close"
	}
	return "C18:data-race-detected:" + pair
}

func tail(s string, n int) string {
	if len(s) > n {
		return s[len(s)-n:]
	}
	return s
}
