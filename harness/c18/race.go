package c18

import (
	"fmt"
	"os"
	"os/exec"
	"path/filepath"
	"strings"

	"verifharness/drv"
)

// raceRun (THOROUGH tier, supporting evidence ONLY — a test, not a proof): builds this very driver
// with the Go race detector and runs the concurrent-sender and hand-driven-receiver scenarios once.
// "None of this involves a data race" is not expressible in the Lean model; a clean run says that no
// race was OBSERVED on these schedules, nothing more. A reported race whose stack goes through
// canopy/p2p is a concrete counterexample and is reported as an oracle failure.
func raceRun(o *drv.Out) {
	wd, _ := os.Getwd() // the check runs drivers from /verif/harness
	if _, err := os.Stat(filepath.Join(wd, "go.mod")); err != nil {
		o.Extra["race_detector"] = "skipped: not started from the harness module directory"
		return
	}
	bin := filepath.Join(wd, "bin", "c18race")
	build := exec.Command("go", "build", "-race", "-tags", "verif", "-o", bin, "./cmd/c18")
	build.Dir = wd
	build.Env = append(os.Environ(), "GOFLAGS=-mod=mod", "GOPROXY=off", "CGO_ENABLED=1")
	if out, err := build.CombinedOutput(); err != nil {
		o.Extra["race_detector"] = "skipped: race build failed: " + tail(string(out), 400)
		return
	}
	dir := filepath.Join(o.Dir, "race")
	run := exec.Command(bin, "-seed", fmt.Sprint(o.Seed), "-tier", "race", "-out", dir)
	run.Dir = wd
	run.Env = append(os.Environ(), "GORACE=halt_on_error=0")
	out, err := run.CombinedOutput()
	reports := strings.Split(string(out), "WARNING: DATA RACE")
	n, inP2P := len(reports)-1, 0
	first := ""
	for _, r := range reports[1:] {
		if i := strings.Index(r, "=================="); i >= 0 {
			r = r[:i]
		}
		if strings.Contains(r, "canopy/p2p.") {
			inP2P++
			if first == "" {
				first = r
			}
		}
	}
	o.Extra["race_detector"] = map[string]any{
		"what":    "go build -race of the C18 driver; concurrent senders over all topics through a recording relay + hand-driven packet scripts against real MultiConns; supporting evidence only (a test, not a proof)",
		"reports": n, "reports_through_canopy_p2p": inP2P, "exit_error": fmt.Sprint(err),
	}
	o.Count(fmt.Sprintf("race-detector:reports=%d", n))
	if inP2P > 0 {
		o.Fail("C18:data-race-detected", "the Go race detector reported a data race with canopy/p2p frames on the stack", tail(first, 3000))
	}
}

func tail(s string, n int) string {
	if len(s) > n {
		return s[len(s)-n:]
	}
	return s
}
