package c18

import (
	"bytes"
	"fmt"
	"sort"
	"strings"
	"sync"
	"time"

	"github.com/canopy-network/canopy/lib"

	"verifharness/c17"
	"verifharness/drv"
)

const (
	chunk  = 999950    // maxDataChunkSize (cross-checked against the compiled code by the packet counts below)
	maxMsg = 256000000 // maxMessageSize
)

// Pattern is shared with the Lean driver (Driver.C18.pattern).
func Pattern(seed, n int) []byte {
	b := make([]byte, n)
	for i := range b {
		b[i] = byte((seed + i*13 + i/255) % 256)
	}
	return b
}

func fnv(b []byte) uint64 {
	h := uint64(14695981039346656037)
	for _, x := range b {
		h = (h ^ uint64(x)) * 1099511628211
	}
	return h
}
func mix(h, x uint64) uint64 { return (h ^ x) * 1099511628211 }

func showMsg(b []byte) string { return fmt.Sprintf("%d:%d", len(b), fnv(b)) }

type sent struct {
	topic, seed, n int
}

// MarshalJSON: replays list every planned message as Pattern(seed, n) on its topic with its len:fnv64.
func (m sent) MarshalJSON() ([]byte, error) {
	return []byte(fmt.Sprintf(`{"topic":%d,"payload":"Pattern(%d,%d)","len_fnv64":"%s"}`, m.topic, m.seed, m.n, showMsg(Pattern(m.seed, m.n)))), nil
}

// Run is the C18 driver.
func Run(o *drv.Out) {
	base := o.Dir + "/nodes"
	if o.Tier == "race" {
		// reduced scenario for the binary built with -race (started by the thorough run, see race.go)
		tappedCases(o, base)
		concurrentSmallAndLarge(o, base)
		interleavedTopicsFirstLarge(o, base)
		malformedFrameCases(o, base)
		rawCases(o, base)
		return
	}
	consts(o)
	// the permanent scenarios first: when they fail, theirs is the specific signature to report
	t0 := time.Now()
	splitSweep(o)
	dialAttribution(o, base)
	malformedFrameCases(o, base)
	slowConsumerCases(o, base)
	interleavedTopicsFirstLarge(o, base)
	concurrentSmallAndLarge(o, base)
	o.Extra["c18_interleave_s"] = time.Since(t0).Seconds()
	t0 = time.Now()
	tappedCases(o, base)
	o.Extra["c18_tapped_s"] = time.Since(t0).Seconds()
	t0 = time.Now()
	rawCases(o, base)
	o.Extra["c18_raw_s"] = time.Since(t0).Seconds()
	t0 = time.Now()
	overLimitCases(o, base)
	o.Extra["c18_overlimit_s"] = time.Since(t0).Seconds()
	if o.Tier == "thorough" {
		nearLimitSend(o, base)
		partialEnqueue(o, base)
		raceRun(o)
	}
}

func consts(o *drv.Out) {
	o.Case("constants")
	o.Op("const maxDataChunkSize", fmt.Sprint(chunk))
	o.Op("const maxMessageSize", fmt.Sprint(maxMsg))
}

var sizesSmall = []int{0, 1, 2, 100, 4096, 65536}
var sizesEdge = []int{chunk - 1, chunk, chunk + 1, 2*chunk - 1, 2 * chunk, 2*chunk + 1, 3*chunk + 7}

// drainInbox empties B's inbox of a topic and checks the attribution of every message.
func drainInbox(o *drv.Out, l *node, topic int, want []byte, replay any) [][]byte {
	var out [][]byte
	for {
		select {
		case m := <-l.Inbox(lib.Topic(topic)):
			out = append(out, m.Message)
			// ORACLE: attributed to the AUTHENTICATED peer, not to what the caller of AddPeer claimed
			if m.Sender == nil || m.Sender.Address == nil || !bytes.Equal(m.Sender.Address.PublicKey, want) {
				o.Fail("C18:message-not-attributed-to-authenticated-sender", fmt.Sprintf("topic %d", topic), replay)
			}
		default:
			return out
		}
	}
}

// tappedCases: concurrent senders over all topics on a real MultiConn; a relay in the middle records
// the wire order of the packets; a real MultiConn receives. The model is fed the per-topic send order
// and the observed schedule and must predict the same packets and the same inbox contents.
func tappedCases(o *drv.Out, base string) {
	n := 14
	if o.Tier == "thorough" {
		n = 60
	}
	for c := 0; c < n; c++ {
		o.Case(fmt.Sprintf("tapped-%d", c))
		l, err := connectTapped(base)
		if err != nil {
			panic(err)
		}
		// plan: per topic a list of messages; several goroutines per topic in some cases
		plan := map[int][]sent{}
		ntopics := 1 + o.Rng.Intn(6)
		big, maxBig := 0, 1
		if o.Tier == "thorough" {
			maxBig = 3
		}
		for t := 0; t < ntopics; t++ {
			k := 1 + o.Rng.Intn(5)
			for i := 0; i < k; i++ {
				sz := sizesSmall[o.Rng.Intn(len(sizesSmall))]
				if o.Rng.Intn(3) == 0 && big < maxBig && (o.Tier == "thorough" || c%2 == 0) {
					sz = sizesEdge[o.Rng.Intn(len(sizesEdge))]
					big++
				} else if o.Rng.Intn(4) == 0 {
					sz = o.Rng.Intn(200000)
				}
				plan[t] = append(plan[t], sent{t, (t*37 + i*5 + c) % 256, sz})
			}
		}
		multi := c%3 == 2 // several concurrent senders on the SAME topic
		var wg sync.WaitGroup
		total := 0
		var failed sync.Map
		for t, msgs := range plan {
			total += len(msgs)
			if multi {
				for _, m := range msgs {
					wg.Add(1)
					go func(m sent) {
						defer wg.Done()
						if !l.mc.Send(lib.Topic(m.topic), Pattern(m.seed, m.n)) {
							failed.Store(m, true)
						}
					}(m)
				}
			} else {
				wg.Add(1)
				go func(t int, msgs []sent) {
					defer wg.Done()
					for _, m := range msgs {
						if !l.mc.Send(lib.Topic(t), Pattern(m.seed, m.n)) {
							failed.Store(m, true)
						}
					}
				}(t, msgs)
			}
		}
		wg.Wait()
		// wait until B has everything (or give up)
		got := map[int][][]byte{}
		deadline := time.Now().Add(20 * time.Second)
		have := 0
		for have < total && time.Now().Before(deadline) {
			for t := 0; t < 6; t++ {
				ms := drainInbox(o, l.b, t, l.peerOfB, c)
				got[t] = append(got[t], ms...)
				have += len(ms)
			}
			if have < total {
				time.Sleep(2 * time.Millisecond)
			}
		}
		time.Sleep(20 * time.Millisecond) // anything spurious still to come?
		for t := 0; t < 6; t++ {
			got[t] = append(got[t], drainInbox(o, l.b, t, l.peerOfB, c)...)
		}
		pkts := l.tap.packets()
		l.close()

		// per-topic send order: as planned (one sender per topic) or as the tap saw the messages complete
		order := map[int][]sent{}
		if !multi {
			order = plan
		} else {
			asm := map[int][]byte{}
			for _, p := range pkts {
				t := int(p.Topic)
				asm[t] = append(asm[t], p.Bytes...)
				if p.Eof {
					found := false
					for _, m := range plan[t] {
						if m.n == len(asm[t]) && bytes.Equal(Pattern(m.seed, m.n), asm[t]) {
							order[t] = append(order[t], m)
							found = true
							break
						}
					}
					if !found {
						// ORACLE: a message on the wire that nobody sent (interleaved / merged packets)
						o.Fail("C18:wire-message-not-sent", fmt.Sprintf("topic %d len %d", t, len(asm[t])), plan)
						order[t] = append(order[t], sent{t, 0, len(asm[t])})
					}
					asm[t] = nil
				}
			}
		}
		topics := make([]int, 0, len(order))
		for t := range order {
			topics = append(topics, t)
		}
		sort.Ints(topics)
		desc := ""
		for _, t := range topics {
			for _, m := range order[t] {
				// packets of this message on the wire, counted by the tap
				o.Op(fmt.Sprintf("send %d %d %d", t, m.seed, m.n), fmt.Sprintf("ok %d", (func() int {
					if m.n == 0 {
						return 1
					}
					return (m.n + chunk - 1) / chunk
				})()))
				desc += fmt.Sprintf("%d:%d ", t, m.n)
				o.Count("op:send")
				switch {
				case m.n > chunk:
					o.Count("send:multi-packet")
				case m.n == chunk:
					o.Count("send:exactly-one-packet")
				case m.n == 0:
					o.Count("send:empty")
				default:
					o.Count("send:single-packet")
				}
			}
		}
		var sched []string
		h := uint64(14695981039346656037)
		for _, p := range pkts {
			sched = append(sched, fmt.Sprint(p.Topic))
			e := uint64(0)
			if p.Eof {
				e = 1
			}
			h = mix(mix(mix(mix(h, uint64(p.Topic)), e), uint64(len(p.Bytes))), fnv(p.Bytes))
		}
		o.Op("wire "+strings.Join(sched, " "), fmt.Sprintf("wire %d %d", len(pkts), h))
		o.Op("deliver-all", "open")
		for t := 0; t < 6; t++ {
			res := fmt.Sprint(len(got[t]))
			for _, m := range got[t] {
				res += " " + showMsg(m)
			}
			o.Op(fmt.Sprintf("inbox %d", t), res)
			// ORACLE (independent of the model): what arrived on t is exactly what was sent on t, whole
			var want []string
			for _, m := range plan[t] {
				want = append(want, showMsg(Pattern(m.seed, m.n)))
			}
			var have []string
			for _, m := range got[t] {
				have = append(have, showMsg(m))
			}
			sort.Strings(want)
			sort.Strings(have)
			if strings.Join(want, ",") != strings.Join(have, ",") {
				o.Fail("C18:received-differs-from-sent", fmt.Sprintf("topic %d: sent %v received %v", t, want, have), plan)
			}
		}
		failed.Range(func(k, v any) bool {
			o.Fail("C18:send-failed-on-healthy-link", fmt.Sprint(k), plan)
			return true
		})
		interleaved := 0
		for i := 1; i < len(pkts); i++ {
			if pkts[i].Topic != pkts[i-1].Topic {
				interleaved++
			}
		}
		o.Count(fmt.Sprintf("schedule:topic-switches>=%d", min(interleaved/5*5, 20)))
		if multi {
			o.Count("case:multi-sender-per-topic")
		}
		if len(pkts) > total || interleaved > 0 {
			o.Nontrivial("tapped " + desc)
		}
		if c < 3 {
			o.Sample(fmt.Sprintf("tapped: sends %s| schedule %s", desc, strings.Join(sched, " ")))
		}
	}
}

// rawCases: a hand-driven key holder feeds crafted packet sequences to a real receiver; after every
// packet a ping/pong barrier makes the receiver's reaction observable.
func rawCases(o *drv.Out, base string) {
	type pk struct {
		t    int
		eof  bool
		seed int
		n    int
	}
	scripted := [][]pk{
		{{0, false, 1, 10}, {1, false, 2, 10}, {0, true, 3, 5}, {1, true, 4, 0}}, // interleaved partial messages
		{{2, true, 1, 0}, {2, true, 2, 1}, {2, false, 3, 0}, {2, true, 4, 0}},    // empty packets
		{{3, false, 1, 7}, {99, true, 2, 3}, {3, true, 3, 1}},                    // Topic_INVALID closes
		{{3, false, 1, 7}, {100, true, 2, 3}, {3, true, 3, 1}},                   // beyond the enum closes
		{{50, false, 1, 9}, {50, true, 2, 9}, {0, true, 3, 4}},                   // stream without inbox: dropped, stays open
		{{7, true, 1, 3}, {98, true, 2, 3}, {5, true, 3, 3}},                     // edges of the phantom stream range
		{{6, false, 1, 4}, {6, true, 2, 4}, {4, true, 3, 4}},                     // heartbeat topic with unknown payloads: ignored
		{{0, false, 1, chunk}, {0, false, 2, chunk}, {0, true, 3, 17}},
		{{2, false, 1, chunk}, {4, true, 2, 50}, {5, false, 3, 7}, {2, true, 4, 9}, {5, true, 5, 1}}, // first message of a fresh stream is multi-packet, other topics in between           // full-size packets
	}
	n := 25
	if o.Tier == "thorough" {
		n = 150
	}
	for c := 0; c < len(scripted)+n; c++ {
		o.Case(fmt.Sprintf("raw-%d", c))
		var script []pk
		if c < len(scripted) {
			script = scripted[c]
		} else {
			for i := 0; i < 3+o.Rng.Intn(12); i++ {
				t := o.Rng.Intn(6)
				switch o.Rng.Intn(12) {
				case 0:
					t = 6
				case 1:
					t = 7 + o.Rng.Intn(92)
				case 2:
					if o.Rng.Intn(3) == 0 {
						t = 99 + o.Rng.Intn(3)
					}
				}
				sz := o.Rng.Intn(64)
				if o.Rng.Intn(6) == 0 {
					sz = o.Rng.Intn(70000)
				}
				script = append(script, pk{t, o.Rng.Intn(3) > 0, o.Rng.Intn(256), sz})
			}
		}
		r, err := connectRaw(base)
		if err != nil {
			panic(err)
		}
		closed := false
		desc := ""
		// reference (independent of the Lean model): what each stream must have assembled so far
		ref := map[int][]byte{}
		for _, p := range script {
			op := fmt.Sprintf("pkt %d %d %d %d", p.t, b2i(p.eof), p.seed, p.n)
			desc += op + "; "
			res := ""
			if closed {
				_ = r.sendPacket(int32(p.t), p.eof, Pattern(p.seed, p.n))
				res = "ignored-closed"
			} else {
				_ = r.sendPacket(int32(p.t), p.eof, Pattern(p.seed, p.n))
				alive := r.barrier()
				var whole []byte
				if p.t != 6 && p.t < 99 {
					ref[p.t] = append(ref[p.t], Pattern(p.seed, p.n)...)
					if p.eof {
						whole, ref[p.t] = ref[p.t], nil
					}
				}
				var delivered []string
				for t := 0; t < 7; t++ {
					for _, m := range drainInbox(o, r.b, t, r.idM.PublicKey().Bytes(), desc) {
						delivered = append(delivered, fmt.Sprintf("deliver %d %s", t, showMsg(m)))
						// ORACLE: a delivered message is exactly the concatenation of the packets sent on ITS topic since that topic's last EOF
						if t != p.t || !p.eof || showMsg(m) != showMsg(whole) {
							o.Fail("C18:received-differs-from-sent:raw-packets", fmt.Sprintf("after %s: topic %d delivered %s, its packets add up to %s", op, t, showMsg(m), showMsg(whole)), desc)
						}
					}
				}
				switch {
				case !alive:
					closed = true
					res = "close:" + closeReason(r.b.log.Lines())
					if len(delivered) > 0 {
						// ORACLE: the packet that closes the connection delivers nothing
						o.Fail("C18:delivery-together-with-close", strings.Join(delivered, ","), desc)
					}
				case len(delivered) == 1:
					res = delivered[0]
				case len(delivered) == 0:
					res = "ok"
				default:
					res = "multi " + strings.Join(delivered, ",")
				}
			}
			o.Op(op, res)
			o.Count("op:pkt")
			o.Count("pkt:" + strings.SplitN(res, " ", 2)[0])
		}
		r.close()
		o.Nontrivial("raw " + desc)
		if c < 2 {
			o.Sample("raw: " + desc)
		}
	}
	// undecodable / foreign traffic: closes without touching any stream
	for i, kind := range []string{"garbage-envelope", "unknown-payload-type", "oversized-length-prefix", "non-packet-message"} {
		o.Case("malformed-" + kind)
		r, err := connectRaw(base)
		if err != nil {
			panic(err)
		}
		_ = r.sendPacket(2, false, Pattern(1, 33)) // a partial message is pending when the malformed item arrives
		if !r.barrier() {
			panic("barrier")
		}
		o.Op("pkt 2 0 1 33", "ok")
		switch kind {
		case "garbage-envelope":
			_ = c17.SendLP(r.x, drv.Bytes(o.Rng, 50+i))
		case "unknown-payload-type":
			_ = c17.SendLP(r.x, []byte{0x0a, 0x0d, 0x0a, 0x07, 'x', '/', 'n', 'o', 'n', 'e', 'x', 0x12, 0x02, 0x08, 0x01})
		case "oversized-length-prefix":
			_, _ = r.x.Write([]byte{0x7f, 0xff, 0xff, 0xff, 1, 2, 3})
		case "non-packet-message":
			_ = r.sendEnvelope(&lib.PeerMeta{ChainId: 5})
		}
		alive := r.barrier()
		res := "ok"
		if !alive {
			res = "close:malformed"
		} else {
			o.Fail("C18:malformed-traffic-keeps-connection-open", kind, nil)
		}
		n := 0
		for t := 0; t < 7; t++ {
			n += len(drainInbox(o, r.b, t, r.idM.PublicKey().Bytes(), kind))
		}
		if n > 0 {
			o.Fail("C18:malformed-traffic-delivers-data", kind, nil)
		}
		o.Op("malformed "+kind, res)
		o.Count("malformed:" + kind)
		o.Nontrivial("malformed " + kind)
		r.close()
	}
}

func b2i(b bool) int {
	if b {
		return 1
	}
	return 0
}

func closeReason(lines []string) string {
	for _, l := range lines {
		switch {
		case strings.Contains(l, "max message size"):
			return "max-size"
		case strings.Contains(l, "bad stream"):
			return "bad-stream"
		}
	}
	return "other"
}

// overLimitCases: traffic around the message limit, too large for the model to materialise: the
// model side runs its length-only simulation (`lens`).
func overLimitCases(o *drv.Out, base string) {
	type step struct {
		n   int
		eof bool
	}
	full := func(k int) []step {
		var s []step
		for i := 0; i < k; i++ {
			s = append(s, step{chunk, false})
		}
		return s
	}
	cases := [][]step{
		append(full(256), step{maxMsg - 256*chunk, true}),                                // exactly the limit: delivered
		append(full(256), step{maxMsg - 256*chunk + 1, true}),                            // one byte over: closes, nothing delivered
		append(append(full(3), step{5, true}), append(full(256), step{chunk, false})...), // a small message, then an endless one
	}
	if o.Tier == "quick" {
		cases = cases[1:2]
	}
	// First touch of fresh memory is very slow on some virtual machines (seconds per 100 MB); the
	// receiver then spends more than its 3-second liveness window inside ONE append of the growing
	// assembler and drops the peer for a reason unrelated to the limit. Touch the memory beforehand.
	{
		var warm [][]byte
		nwarm := 10
		if o.Tier == "thorough" {
			nwarm = 14
		}
		for i := 0; i < nwarm; i++ {
			b := make([]byte, 64<<20)
			for j := 0; j < len(b); j += 4096 {
				b[j] = 1
			}
			warm = append(warm, b)
		}
		warm = nil
		_ = warm
	}
	for i, c := range cases {
		o.Case(fmt.Sprintf("overlimit-%d", i))
		op, res := "", ""
		// the receiver's own 3-second liveness rule kills the connection when handling ONE packet takes
		// longer than that (huge re-allocations of the assembler on a loaded machine): such a run says
		// nothing about the limit and is repeated
		for attempt := 0; attempt < 3; attempt++ {
			r, err := connectRaw(base)
			if err != nil {
				panic(err)
			}
			op = "lens 1"
			buf := Pattern(7, chunk)
			alive := true
			for _, s := range c {
				op += fmt.Sprintf(" %d %d", s.n, b2i(s.eof))
				if alive {
					if r.sendPacket(1, s.eof, buf[:s.n]) != nil {
						alive = false
					}
				}
			}
			if alive {
				alive = r.barrierT(90 * time.Second)
			}
			var lens []string
			for _, m := range drainInbox(o, r.b, 1, r.idM.PublicKey().Bytes(), op) {
				lens = append(lens, fmt.Sprint(len(m)))
			}
			res = "open"
			reason := ""
			if !alive {
				reason = closeReason(r.b.log.Lines())
				res = "close:" + reason
			}
			res += fmt.Sprintf(" %d", len(lens))
			if len(lens) > 0 {
				res += " " + strings.Join(lens, " ")
			}
			r.close()
			if reason != "other" {
				break
			}
			o.Count("overlimit:attempt-killed-by-liveness-timeout")
			res = ""
		}
		if res == "" {
			o.Count("overlimit:inconclusive")
			continue
		}
		total := 0
		for _, s := range c {
			total += s.n
		}
		o.Op(op, res)
		o.Count("overlimit:" + strings.SplitN(res, " ", 2)[0])
		o.Nontrivial(fmt.Sprintf("overlimit %d", i))
		o.Sample(fmt.Sprintf("overlimit: %d packets, %d bytes -> %s", len(c), total, res))
	}
}
