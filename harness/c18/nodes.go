// Package c18 is the correspondence driver for C18 (multiplexed peer messaging): real p2p.P2P nodes
// with real MultiConns (created by the real handshake) over the in-memory duplex of package c17.
package c18

import (
	"fmt"
	"os"
	"path/filepath"
	"sync"
	"sync/atomic"
	"time"

	"github.com/canopy-network/canopy/lib"
	"github.com/canopy-network/canopy/lib/crypto"
	"github.com/canopy-network/canopy/p2p"
	"google.golang.org/protobuf/proto"

	"verifharness/c17"
)

// capLog keeps the lines a node logs (the real code reports a failed Send only in its log).
type capLog struct {
	mu    sync.Mutex
	lines []string
}

func (l *capLog) add(f string, a ...any) {
	l.mu.Lock()
	if len(l.lines) < 5000 {
		l.lines = append(l.lines, fmt.Sprintf(f, a...))
	}
	l.mu.Unlock()
}
func (l *capLog) Debug(string)              {}
func (l *capLog) Info(string)               {}
func (l *capLog) Warn(m string)             { l.add("%s", m) }
func (l *capLog) Error(m string)            { l.add("%s", m) }
func (l *capLog) Fatal(m string)            { panic("fatal: " + m) }
func (l *capLog) Print(string)              {}
func (l *capLog) Debugf(string, ...any)     {}
func (l *capLog) Infof(string, ...any)      {}
func (l *capLog) Warnf(f string, a ...any)  { l.add(f, a...) }
func (l *capLog) Errorf(f string, a ...any) { l.add(f, a...) }
func (l *capLog) Fatalf(f string, a ...any) { panic("fatal: " + fmt.Sprintf(f, a...)) }
func (l *capLog) Printf(f string, a ...any) {}
func (l *capLog) Lines() []string {
	l.mu.Lock()
	defer l.mu.Unlock()
	return append([]string(nil), l.lines...)
}

type node struct {
	*p2p.P2P
	priv crypto.PrivateKeyI
	pub  []byte
	log  *capLog
}

var nodeSeq int
var nodeMu sync.Mutex

func newNode(base string) *node {
	nodeMu.Lock()
	nodeSeq++
	n := nodeSeq
	nodeMu.Unlock()
	priv, _ := crypto.NewBLS12381PrivateKey()
	cfg := lib.DefaultConfig()
	cfg.ChainId = lib.CanopyChainId
	cfg.ListenAddress = ":0"
	cfg.DataDirPath = filepath.Join(base, fmt.Sprintf("node%d", n))
	if err := os.MkdirAll(cfg.DataDirPath, 0o700); err != nil {
		panic(err)
	}
	l := &capLog{}
	return &node{P2P: p2p.New(priv, 1, nil, cfg, l), priv: priv, pub: priv.PublicKey().Bytes(), log: l}
}

func (n *node) meta() *lib.PeerMeta {
	c := lib.DefaultConfig()
	return &lib.PeerMeta{NetworkId: c.NetworkID, ChainId: lib.CanopyChainId}
}

func info(pub []byte) *lib.PeerInfo {
	return &lib.PeerInfo{Address: &lib.PeerAddress{PublicKey: pub, NetAddress: "mem:1", PeerMeta: &lib.PeerMeta{ChainId: lib.CanopyChainId}}}
}

// link is a real sender connection (A side, *MultiConn obtained from the exported NewConnection) and
// a real receiver node B that registered the peer through the production path AddPeer.
type link struct {
	a, b     *node
	mc       *p2p.MultiConn
	ab, ba   *c17.Pipe // the two directions between A and its neighbour
	peerOfB  []byte    // the identity B authenticated (A, or the tap M)
	tap      *tap
	closeFns []func()
}

func (l *link) close() {
	if l.mc != nil {
		l.mc.Stop()
	}
	l.b.Stop()
	l.a.Stop()
	for _, f := range l.closeFns {
		f()
	}
}

// connect: A --- B directly.
func connect(base string) (*link, error) {
	a, b := newNode(base), newNode(base)
	ca, cb, ab, ba := c17.NewDuplex("A", "B")
	l := &link{a: a, b: b, ab: ab, ba: ba, peerOfB: a.pub}
	var wg sync.WaitGroup
	var ea, eb lib.ErrorI
	wg.Add(2)
	go func() { defer wg.Done(); l.mc, ea = a.NewConnection(ca, info(b.pub)) }()
	// B is told a WRONG public key for the inbound peer: the authenticated one must replace it
	go func() {
		defer wg.Done()
		eb = b.AddPeer(cb, info([]byte("claimed-but-unauthenticated-key")), false, false)
	}()
	wg.Wait()
	if ea != nil || eb != nil {
		return nil, fmt.Errorf("connect: %v %v", ea, eb)
	}
	return l, nil
}

// tapped packet as seen in clear by the relay
type tapPkt struct {
	Topic int32
	Eof   bool
	Bytes []byte
}

// tap is a relay that authenticated as ITSELF to both ends (two handshakes back to back): it reads
// every length-prefixed envelope in clear, records the packets of the A->B direction in wire order
// and forwards everything unchanged.
type tap struct {
	mu   sync.Mutex
	pkts []tapPkt
	id   crypto.PrivateKeyI
	// hold mode, see pump
	hold                atomic.Bool
	holdTopic           int32
	firstSeen, released bool
	sawFirst            chan struct{}
}

func (t *tap) packets() []tapPkt {
	t.mu.Lock()
	defer t.mu.Unlock()
	return append([]tapPkt(nil), t.pkts...)
}

func (t *tap) pump(from, to *c17.Raw, record bool) {
	var held [][]byte // envelopes of the held topic waiting for a packet of another topic to overtake them
	var heldPkts []tapPkt
	for {
		bz, err := c17.RecvLP(from)
		if err != nil {
			return
		}
		var pkt *tapPkt
		if record {
			env := new(p2p.Envelope)
			if lib.Unmarshal(bz, env) == nil {
				if m, e := lib.FromAny(env.Payload); e == nil {
					if p, ok := m.(*p2p.Packet); ok && p.StreamId != lib.Topic_HEARTBEAT {
						pkt = &tapPkt{int32(p.StreamId), p.Eof, append([]byte(nil), p.Bytes...)}
					}
				}
			}
		}
		// hold mode (scenario interleaved-topics-first-large-message): after the FIRST packet of a
		// multi-packet message on holdTopic has gone through, the following packets of that topic are
		// kept back until a packet of ANOTHER message topic has overtaken them. Per-topic order is
		// untouched; only the interleaving of topics on the wire changes.
		if pkt != nil && t.hold.Load() {
			switch {
			case pkt.Topic == t.holdTopic && !t.firstSeen && !pkt.Eof:
				t.firstSeen = true
				if t.sawFirst != nil {
					close(t.sawFirst)
				}
			case pkt.Topic == t.holdTopic && t.firstSeen && !t.released:
				held = append(held, bz)
				heldPkts = append(heldPkts, *pkt)
				continue
			case pkt.Topic != t.holdTopic && t.firstSeen && !t.released:
				t.released = true
				t.record(*pkt)
				if err = c17.SendLP(to, bz); err != nil {
					return
				}
				for i, h := range held {
					t.record(heldPkts[i])
					if err = c17.SendLP(to, h); err != nil {
						return
					}
				}
				held, heldPkts = nil, nil
				continue
			}
		}
		if pkt != nil {
			t.record(*pkt)
		}
		if err = c17.SendLP(to, bz); err != nil {
			return
		}
	}
}

func (t *tap) record(p tapPkt) {
	t.mu.Lock()
	t.pkts = append(t.pkts, p)
	t.mu.Unlock()
}

// connectTapped: A --- M --- B.
func connectTapped(base string) (*link, error) {
	a, b := newNode(base), newNode(base)
	idM, _ := crypto.NewBLS12381PrivateKey()
	ca, ma, ab, ba := c17.NewDuplex("A", "Ma")
	mb, cb, _, _ := c17.NewDuplex("Mb", "B")
	l := &link{a: a, b: b, ab: ab, ba: ba, peerOfB: idM.PublicKey().Bytes(), tap: &tap{id: idM}}
	var wg sync.WaitGroup
	var ea, eb lib.ErrorI
	var xa, xb *c17.Raw
	var e1, e2 error
	wg.Add(4)
	go func() { defer wg.Done(); l.mc, ea = a.NewConnection(ca, info(idM.PublicKey().Bytes())) }()
	go func() {
		defer wg.Done()
		eb = b.AddPeer(cb, info([]byte("claimed-but-unauthenticated-key")), false, false)
	}()
	go func() {
		defer wg.Done()
		if xa, e1 = c17.KeySwap(ma, nil, 2*time.Second); e1 == nil {
			_, _, e1 = xa.Authenticate(idM, a.meta(), 2*time.Second)
		}
	}()
	go func() {
		defer wg.Done()
		if xb, e2 = c17.KeySwap(mb, nil, 2*time.Second); e2 == nil {
			_, _, e2 = xb.Authenticate(idM, a.meta(), 2*time.Second)
		}
	}()
	wg.Wait()
	if ea != nil || eb != nil || e1 != nil || e2 != nil {
		return nil, fmt.Errorf("connectTapped: %v %v %v %v", ea, eb, e1, e2)
	}
	go l.tap.pump(xa, xb, true)
	go l.tap.pump(xb, xa, false)
	l.closeFns = append(l.closeFns, func() { ma.Close(); mb.Close() })
	return l, nil
}

// rawLink: a hand-driven peer M (holding the session keys after an honest handshake as itself)
// against the real receiver B.
type rawLink struct {
	b     *node
	x     *c17.Raw
	conn  *c17.MemConn
	mb    *c17.Pipe
	idM   crypto.PrivateKeyI
	pongs chan struct{}
	dead  chan struct{}
}

func connectRaw(base string) (*rawLink, error) {
	b := newNode(base)
	idM, _ := crypto.NewBLS12381PrivateKey()
	cm, cb, mb, _ := c17.NewDuplex("M", "B")
	var eb lib.ErrorI
	done := make(chan struct{})
	go func() { eb = b.AddPeer(cb, info([]byte("claimed-but-unauthenticated-key")), false, false); close(done) }()
	x, err := c17.KeySwap(cm, nil, 2*time.Second)
	if err == nil {
		_, _, err = x.Authenticate(idM, b.meta(), 2*time.Second)
	}
	<-done
	if err != nil || eb != nil {
		return nil, fmt.Errorf("connectRaw: %v %v", err, eb)
	}
	r := &rawLink{b: b, x: x, conn: cm, mb: mb, idM: idM, pongs: make(chan struct{}, 1024), dead: make(chan struct{})}
	// reader: answers B's pings, reports pongs, notices the close
	go func() {
		defer close(r.dead)
		for {
			bz, err := c17.RecvLP(x)
			if err != nil {
				return
			}
			env := new(p2p.Envelope)
			if lib.Unmarshal(bz, env) != nil {
				continue
			}
			m, e := lib.FromAny(env.Payload)
			if e != nil {
				continue
			}
			if p, ok := m.(*p2p.Packet); ok && p.StreamId == lib.Topic_HEARTBEAT && string(p.Bytes) == "pong" {
				select {
				case r.pongs <- struct{}{}:
				default:
				}
			}
		}
	}()
	return r, nil
}

var sendMu sync.Mutex

func (r *rawLink) sendEnvelope(m proto.Message) error {
	a, e := lib.NewAny(m)
	if e != nil {
		return e
	}
	bz, e := lib.Marshal(&p2p.Envelope{Payload: a})
	if e != nil {
		return e
	}
	return c17.SendLP(r.x, bz)
}

func (r *rawLink) sendPacket(topic int32, eof bool, bz []byte) error {
	return r.sendEnvelope(&p2p.Packet{StreamId: lib.Topic(topic), Eof: eof, Bytes: bz})
}

// barrier: B's receive loop is sequential, so when the pong to a ping sent now comes back, every
// packet sent before it has been handled. Returns false when the connection died instead.
func (r *rawLink) barrier() bool { return r.barrierT(10 * time.Second) }

func (r *rawLink) barrierT(d time.Duration) bool {
	for len(r.pongs) > 0 {
		<-r.pongs
	}
	if err := r.sendPacket(int32(lib.Topic_HEARTBEAT), true, []byte("ping")); err != nil {
		return false
	}
	select {
	case <-r.pongs:
		return true
	case <-r.dead:
		return false
	case <-time.After(d):
		return false
	}
}

func (r *rawLink) close() {
	r.conn.Close()
	r.b.Stop()
}

func newKey() (crypto.PrivateKeyI, error) { return crypto.NewBLS12381PrivateKey() }
