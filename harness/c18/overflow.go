package c18

import (
	"fmt"
	"strings"
	"time"

	"github.com/canopy-network/canopy/lib"

	"verifharness/drv"
)

// slowConsumerCases — permanent scenario `slow-consumer-inbox-overflow`.
//
// The receiving application stops reading one topic. The peer sends 1000 one-packet messages on it: the
// topic's inbox (maxInboxQueueSize) is now full. It sends a few more (one of them in two packets): the
// receive service drops them ("Dropping newest message" — the documented behaviour; the property allows
// "or not at all"). Then the application drains the inbox and the peer sends again on the same topic.
//
// Oracle (independent of the model): every message the application ever takes out of the inbox is
// byte-identical to a message sent on that topic, and the delivered ones keep the order in which they
// were sent — in particular the first message after the overflow arrives as itself, not as
// <dropped>‖<next>. Signature C18:received-differs-from-sent:after-inbox-overflow.
//
// Two senders: a hand-driven key holder (frame level) and a real MultiConn (`Send`), each against a
// real receiver registered through AddPeer. The receiver-side history (one op per packet) is the same
// for both and is replayed through the model.
func slowConsumerCases(o *drv.Out, base string) {
	const cap = 1000 // maxInboxQueueSize (cross-checked: the real inbox channel is full at that length)
	fill := func(i int) []byte { return Pattern(i%251, 1+i%7) }
	for vi, variant := range []string{"raw-sender", "real-sender"} {
		T := 1 + vi
		o.Case("slow-consumer-inbox-overflow-" + variant)
		var nodeB *node
		var send func(t int, eof bool, bz []byte) // one packet on the wire
		var sync func() bool                      // returns when the receiver has handled everything sent so far
		var closeAll func()
		var peer []byte
		var ops []string
		if variant == "raw-sender" {
			r, err := connectRaw(base)
			if err != nil {
				panic(err)
			}
			nodeB, peer, closeAll = r.b, r.idM.PublicKey().Bytes(), r.close
			send = func(t int, eof bool, bz []byte) { _ = r.sendPacket(int32(t), eof, bz) }
			sync = r.barrier
		} else {
			l, err := connect(base)
			if err != nil {
				panic(err)
			}
			nodeB, peer, closeAll = l.b, l.peerOfB, l.close
			send = func(t int, eof bool, bz []byte) {
				if !eof {
					panic("real sender sends whole messages")
				}
				if !l.mc.Send(lib.Topic(t), bz) {
					o.Fail("C18:send-failed-on-healthy-link", "slow-consumer", nil)
				}
			}
			// nothing to wait on at the sender: the receiver's state is observed below (inbox length, drop log, arrival)
			sync = func() bool { return true }
		}
		drops := func() int {
			k := 0
			for _, l := range nodeB.log.Lines() {
				if strings.Contains(l, "Dropping newest message") {
					k++
				}
			}
			return k
		}
		waitFor := func(cond func() bool) bool {
			for t0 := time.Now(); time.Since(t0) < 20*time.Second; time.Sleep(time.Millisecond) {
				if cond() {
					return true
				}
			}
			return false
		}
		var sent [][]byte // every whole message sent on T, in order
		fail := func(desc string) {
			o.Fail("C18:received-differs-from-sent:after-inbox-overflow", variant+": "+desc, ops)
		}
		// ---- 1. fill the inbox
		for i := 0; i < cap; i++ {
			send(T, true, fill(i))
			sent = append(sent, fill(i))
		}
		if !sync() || !waitFor(func() bool { return len(nodeB.Inbox(lib.Topic(T))) == cap }) {
			fail("the inbox did not fill up")
		}
		n := len(nodeB.Inbox(lib.Topic(T)))
		o.Op(fmt.Sprintf("fill %d %d", T, cap), fmt.Sprintf("inbox-len %d", n))
		ops = append(ops, fmt.Sprintf("fill topic %d with %d one-packet messages -> inbox length %d", T, cap, n))
		// ---- 2. overflow: these are dropped
		type ex struct {
			eof     bool
			seed, n int
		}
		extra := []ex{{true, 200, 9}, {true, 201, 30}}
		if variant == "raw-sender" {
			extra = append(extra, ex{false, 202, 5}, ex{true, 203, 6}) // a two-packet message, dropped at its EOF
		}
		var part []byte
		nDropped := 0
		for _, e := range extra {
			send(T, e.eof, Pattern(e.seed, e.n))
			part = append(part, Pattern(e.seed, e.n)...)
			if e.eof {
				sent = append(sent, part)
				part = nil
			}
			alive := sync()
			if e.eof {
				nDropped++
				alive = alive && waitFor(func() bool { return drops() >= nDropped }) // the receive service logged the drop
			}
			res := "ok"
			if k := len(nodeB.Inbox(lib.Topic(T))); k != cap || !alive {
				res = fmt.Sprintf("unexpected inbox-len %d alive %v", k, alive)
			}
			op := fmt.Sprintf("pkt %d %d %d %d", T, b2i(e.eof), e.seed, e.n)
			o.Op(op, res)
			ops = append(ops, op+" (inbox full) -> "+res)
		}
		// ---- 3. the application wakes up and drains the topic
		var got [][]byte
		got = append(got, drainInbox(o, nodeB, T, peer, ops)...)
		res := fmt.Sprint(len(got))
		for _, m := range got {
			res += " " + showMsg(m)
		}
		o.Op(fmt.Sprintf("inbox %d", T), res)
		ops = append(ops, fmt.Sprintf("application drains topic %d: %d messages", T, len(got)))
		// ---- 4. traffic resumes on the same topic
		for _, e := range []ex{{true, 210, 12}, {true, 211, 0}, {true, 212, 40}} {
			send(T, true, Pattern(e.seed, e.n))
			sent = append(sent, Pattern(e.seed, e.n))
			sync()
			waitFor(func() bool { return len(nodeB.Inbox(lib.Topic(T))) > 0 })
			ms := drainInbox(o, nodeB, T, peer, ops)
			got = append(got, ms...)
			res := "ok"
			switch {
			case len(ms) == 1:
				res = fmt.Sprintf("deliver %d %s", T, showMsg(ms[0]))
			case len(ms) > 1:
				res = fmt.Sprintf("multi %d", len(ms))
			}
			op := fmt.Sprintf("pkt %d 1 %d %d", T, e.seed, e.n)
			o.Op(op, res)
			ops = append(ops, op+" (after the drain) -> "+res+"   [sent "+showMsg(Pattern(e.seed, e.n))+"]")
		}
		closeAll()
		// ---- oracle: delivered is a subsequence of sent, byte-identical
		j := 0
		for gi, m := range got {
			for j < len(sent) && showMsg(sent[j]) != showMsg(m) {
				j++
			}
			if j == len(sent) {
				fail(fmt.Sprintf("delivered message #%d (%s) is not one of the messages sent on topic %d after the previously delivered one; %d delivered, %d sent (1000 to fill the inbox, %d while it was full, 3 after the application drained it)", gi, showMsg(m), T, len(got), len(sent), len(sent)-cap-3))
				break
			}
			j++
		}
		if len(got) < cap+3 {
			fail(fmt.Sprintf("only %d messages delivered: the %d that fit in the inbox and the 3 sent after the drain must all arrive", len(got), cap))
		}
		o.Count("slow-consumer:" + variant)
		o.Nontrivial("slow-consumer " + variant)
		o.Sample("slow-consumer-inbox-overflow " + variant + ": " + strings.Join(ops[len(ops)-4:], "; "))
	}
}
