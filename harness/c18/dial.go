package c18

import (
	"bytes"
	"fmt"
	"net"
	"sort"
	"strings"
	"time"

	"github.com/canopy-network/canopy/lib"
	"github.com/canopy-network/canopy/lib/crypto"

	"verifharness/drv"
)

// dialAttribution — permanent node-level scenario `dial-attribution`: two real p2p.P2P instances over
// loopback TCP. B listens (the real ListenForInboundPeers), A dials B's address with the real P2P.Dial,
// carrying in the dialed PeerAddress (i) B's key, (ii) a WRONG key, (iii) no key, each strict and
// non-strict. Then B sends on every topic to A (the real SendTo).
//
// Oracle (independent of the model): every message A's inbox delivers carries
// Sender.Address.PublicKey == the key B authenticated with in the handshake
// (C18:sender-not-authenticated-identity:<mode>); A's peer set holds the peer under that key and under
// no other (C18:peer-registered-under-unauthenticated-key:<mode>); a strict dial whose key is not the
// authenticated one is refused (C18:strict-dial-accepts-other-identity:<mode>).
func dialAttribution(o *drv.Out, base string) {
	wrong, _ := crypto.NewBLS12381PrivateKey()
	W := wrong.PublicKey().Bytes()
	for _, mode := range []string{"wrong-loose", "nokey-loose", "right-loose", "right-strict", "wrong-strict", "nokey-strict"} {
		o.Case("dial-attribution-" + mode)
		a, b := newNode(base), newNode(base)
		// a free loopback port for B's listener
		ln, err := net.Listen("tcp", "127.0.0.1:0")
		if err != nil {
			o.Count("dial:no-loopback")
			return
		}
		addr := ln.Addr().String()
		ln.Close()
		go b.ListenForInboundPeers(&lib.PeerAddress{NetAddress: addr})
		var key []byte
		switch strings.SplitN(mode, "-", 2)[0] {
		case "right":
			key = b.pub
		case "wrong":
			key = W
		}
		strict := strings.HasSuffix(mode, "-strict")
		var derr lib.ErrorI
		for t0 := time.Now(); time.Since(t0) < 5*time.Second; time.Sleep(20 * time.Millisecond) {
			derr = a.Dial(&lib.PeerAddress{PublicKey: key, NetAddress: addr, PeerMeta: &lib.PeerMeta{ChainId: lib.CanopyChainId}}, false, strict)
			if derr == nil || derr.Code() != lib.CodeFailedDial {
				break
			}
		}
		name := func(k []byte) string {
			switch {
			case bytes.Equal(k, b.pub):
				return "B"
			case bytes.Equal(k, W):
				return "W"
			case len(k) == 0:
				return "none"
			}
			return "?"
		}
		res := ""
		mustRefuse := strict && !bytes.Equal(key, b.pub)
		if derr != nil {
			res = "refused"
			if !mustRefuse {
				o.Fail("C18:honest-dial-refused:"+mode, derr.Error(), mode)
			}
			if a.PeerSet.Has(b.pub) || (len(key) > 0 && a.PeerSet.Has(key)) {
				o.Fail("C18:peer-registered-after-refused-dial:"+mode, "", mode)
			}
		} else {
			if mustRefuse {
				o.Fail("C18:strict-dial-accepts-other-identity:"+mode, fmt.Sprintf("dialed key %s, authenticated key B, strictPublicKey=true, Dial returned nil", name(key)), mode)
			}
			// B has A as an inbound peer under A's authenticated key; it sends on every topic
			for t0 := time.Now(); !b.PeerSet.Has(a.pub) && time.Since(t0) < 5*time.Second; {
				time.Sleep(5 * time.Millisecond)
			}
			for t := 0; t < 6; t++ {
				if e := b.SendTo(a.pub, lib.Topic(t), &crypto.ProtoPubKey{Pubkey: Pattern(40+t, 100+t)}); e != nil {
					o.Fail("C18:send-failed-on-healthy-link", e.Error(), mode)
				}
			}
			senders := map[string]bool{}
			got := 0
			for t := 0; t < 6; t++ {
				select {
				case m := <-a.Inbox(lib.Topic(t)):
					got++
					var k []byte
					if m.Sender != nil && m.Sender.Address != nil {
						k = m.Sender.Address.PublicKey
					}
					senders[name(k)] = true
					want, _ := lib.Marshal(&crypto.ProtoPubKey{Pubkey: Pattern(40+t, 100+t)})
					if !bytes.Equal(m.Message, want) {
						o.Fail("C18:received-differs-from-sent", fmt.Sprintf("dial-attribution topic %d", t), mode)
					}
					// ORACLE: the sender tag is the identity proven in the handshake, whatever key was dialed
					if !bytes.Equal(k, b.pub) {
						o.Fail("C18:sender-not-authenticated-identity:"+mode,
							fmt.Sprintf("A dialed %s with key %s (strictPublicKey=%v); the remote authenticated as B; the message on topic %d is delivered with Sender.Address.PublicKey = %s", addr, name(key), strict, t, name(k)),
							map[string]any{"mode": mode, "dialed_key": lib.BytesToString(key), "authenticated_key": lib.BytesToString(b.pub), "sender_key_on_message": lib.BytesToString(k), "topic": t})
					}
				case <-time.After(5 * time.Second):
					o.Fail("C18:message-lost-on-healthy-link", fmt.Sprintf("dial-attribution topic %d", t), mode)
				}
			}
			var ss []string
			for s := range senders {
				ss = append(ss, s)
			}
			sort.Strings(ss)
			reg := "none"
			switch {
			case a.PeerSet.Has(b.pub):
				reg = "B"
			case len(key) > 0 && a.PeerSet.Has(key):
				reg = name(key)
			}
			if reg != "B" || (len(key) > 0 && !bytes.Equal(key, b.pub) && a.PeerSet.Has(key)) {
				o.Fail("C18:peer-registered-under-unauthenticated-key:"+mode, fmt.Sprintf("dialed key %s, authenticated key B, peer set entry under %s", name(key), reg), mode)
			}
			res = fmt.Sprintf("ok sender=%s registered=%s", strings.Join(ss, "+"), reg)
			_ = got
		}
		o.Op("dial "+mode, res)
		o.Count("dial:" + mode + ":" + strings.SplitN(res, " ", 2)[0])
		o.Nontrivial("dial " + mode)
		o.Sample("dial-attribution " + mode + " -> " + res)
		a.Stop()
		b.Stop()
	}
}
