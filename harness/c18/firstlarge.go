package c18

import (
	"fmt"
	"strings"
	"sync"
	"time"

	"github.com/canopy-network/canopy/lib"

	"verifharness/drv"
)

// interleavedTopicsFirstLarge — permanent scenario `interleaved-topics-first-large-message`.
//
// On a FRESH connection pair (fresh streams, assemblers never grown) the very first traffic on topic A
// is a three-packet message, while senders on all five other topics push single-packet messages. The
// recording relay lets A's first packet through, tells the other senders to go, and keeps A's
// following packets back until a packet of another topic has overtaken them, so the receiver sees
// A[0], B…, A[1], A[2]: another stream's packet is handled while A's assembler holds a partial message.
// Repeated with every topic as A, each time on a new connection.
//
// Oracle (independent of the model): per topic, exactly the messages sent, byte-identical (length and
// content hash), in order. Signature C18:received-differs-from-sent:cross-topic-assembler.
func interleavedTopicsFirstLarge(o *drv.Out, base string) {
	for A := 0; A < 6; A++ {
		o.Case(fmt.Sprintf("interleaved-topics-first-large-message-%d", A))
		l, err := connectTapped(base)
		if err != nil {
			panic(err)
		}
		l.tap.holdTopic, l.tap.sawFirst = int32(A), make(chan struct{})
		l.tap.hold.Store(true)
		plan := map[int][]sent{A: {{A, 200 + A, 2*chunk + 9 + A}}}
		for t := 0; t < 6; t++ {
			if t != A {
				plan[t] = []sent{{t, 10 + t, 64 + t}, {t, 20 + t, 4096 + 3*t}}
			}
		}
		var wg sync.WaitGroup
		failed := false
		var fmu sync.Mutex
		send := func(m sent) {
			if !l.mc.Send(lib.Topic(m.topic), Pattern(m.seed, m.n)) {
				fmu.Lock()
				failed = true
				fmu.Unlock()
			}
		}
		wg.Add(1)
		go func() { defer wg.Done(); send(plan[A][0]) }()
		for t := 0; t < 6; t++ {
			if t == A {
				continue
			}
			wg.Add(1)
			go func(t int) {
				defer wg.Done()
				select {
				case <-l.tap.sawFirst:
				case <-time.After(10 * time.Second):
				}
				for _, m := range plan[t] {
					send(m)
				}
			}(t)
		}
		wg.Wait()
		got := map[int][][]byte{}
		total, have := 11, 0
		for t0 := time.Now(); have < total && time.Since(t0) < 20*time.Second; {
			for t := 0; t < 6; t++ {
				ms := drainInbox(o, l.b, t, l.peerOfB, A)
				got[t] = append(got[t], ms...)
				have += len(ms)
			}
			if have < total {
				time.Sleep(2 * time.Millisecond)
			}
		}
		time.Sleep(20 * time.Millisecond)
		for t := 0; t < 6; t++ {
			got[t] = append(got[t], drainInbox(o, l.b, t, l.peerOfB, A)...)
		}
		pkts := l.tap.packets()
		l.close()

		// did another topic really get between A's packets?
		between, inA := 0, false
		var sched []string
		for _, p := range pkts {
			sched = append(sched, fmt.Sprint(p.Topic))
			if int(p.Topic) == A {
				inA = !p.Eof
			} else if inA {
				between++
			}
		}
		if between > 0 {
			o.Count("first-large:other-topic-between-packets")
		} else {
			o.Count("first-large:NOT-interleaved")
		}
		// ---- oracle
		for t := 0; t < 6; t++ {
			var want, have []string
			for _, m := range plan[t] {
				want = append(want, showMsg(Pattern(m.seed, m.n)))
			}
			for _, m := range got[t] {
				have = append(have, showMsg(m))
			}
			if strings.Join(want, ",") != strings.Join(have, ",") {
				o.Fail("C18:received-differs-from-sent:cross-topic-assembler",
					fmt.Sprintf("fresh connection, first message on topic %d has 3 packets, packets of other topics in between (%d): topic %d sent [%s] received [%s] (len:fnv64)", A, between, t, strings.Join(want, " "), strings.Join(have, " ")),
					map[string]any{"topic_A": A, "wire_order_topics": strings.Join(sched, " "), "sent": plan, "topic": t, "sent_len_hash": want, "received_len_hash": have})
			}
		}
		if failed {
			o.Fail("C18:send-failed-on-healthy-link", "interleaved-topics-first-large-message", plan)
		}
		// ---- the same history through the model
		for t := 0; t < 6; t++ {
			for _, m := range plan[t] {
				np := 1
				if m.n > chunk {
					np = (m.n + chunk - 1) / chunk
				}
				o.Op(fmt.Sprintf("send %d %d %d", t, m.seed, m.n), fmt.Sprintf("ok %d", np))
			}
		}
		h := uint64(14695981039346656037)
		for _, p := range pkts {
			e := uint64(0)
			if p.Eof {
				e = 1
			}
			h = mix(mix(mix(mix(h, uint64(p.Topic)), e), uint64(len(p.Bytes))), fnv(p.Bytes))
		}
		o.Op("wire "+strings.Join(sched, " "), fmt.Sprintf("wire %d %d", len(pkts), h))
		o.Op("deliver-all", "open")
		for t := 0; t < 6; t++ {
			res := fmt.Sprint(len(got[t]))
			for _, m := range got[t] {
				res += " " + showMsg(m)
			}
			o.Op(fmt.Sprintf("inbox %d", t), res)
		}
		o.Nontrivial(fmt.Sprintf("first-large A=%d %s", A, strings.Join(sched, "")))
		if A == 0 {
			o.Sample(fmt.Sprintf("interleaved-topics-first-large-message: A=%d wire topics %s", A, strings.Join(sched, " ")))
		}
	}
}
