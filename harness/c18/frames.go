package c18

import (
	"fmt"
	"strings"

	"github.com/canopy-network/canopy/lib"
	"github.com/canopy-network/canopy/p2p"
	"google.golang.org/protobuf/types/known/anypb"

	"verifharness/c17"
	"verifharness/drv"
)

// malformedFrameCases — permanent family `malformed-frame`, at the FRAME level (below MultiConn.Send):
// a hand-driven authenticated sender (real handshake, then hand-written length-prefixed frames on the
// encrypted wire) interleaves honest packets with one malformed frame of every kind at every position:
// before any packet, between the packets of a multi-packet message, after an EOF.
//
// Oracle (independent of the model, a reference assembler in the harness): every delivered message is
// exactly the concatenation of the honest packets of its topic since that topic's last EOF, delivered
// once (C18:received-differs-from-sent:malformed-frame:<kind>); every malformed frame ends the
// connection (C18:malformed-frame-tolerated:<kind>); nothing is delivered after it.
func malformedFrameCases(o *drv.Out, base string) {
	kinds := []string{"zero-length", "len1-garbage", "len2-garbage", "len3-garbage", "garbage-envelope", "unknown-payload-type",
		"empty-any-payload", "non-packet-message", "over-limit-length", "max-uint32-length", "truncated-frame"}
	positions := []string{"start", "mid", "after-eof", "after-two"}
	type pk struct {
		t    int
		eof  bool
		seed int
		n    int
	}
	for _, kind := range kinds {
		for pi, pos := range positions {
			o.Case(fmt.Sprintf("malformed-frame-%s-%s", kind, pos))
			r, err := connectRaw(base)
			if err != nil {
				panic(err)
			}
			topic := (pi + len(kind)) % 6
			var before, after []pk
			switch pos {
			case "start":
				after = []pk{{topic, true, 3, 20}}
			case "mid":
				before = []pk{{topic, false, 1, 33}}
				after = []pk{{topic, true, 2, 7}}
			case "after-eof":
				before = []pk{{topic, true, 1, 20}}
				after = []pk{{topic, true, 2, 9}, {(topic + 1) % 6, true, 4, 5}}
			case "after-two":
				before = []pk{{topic, false, 1, 12}, {(topic + 1) % 6, true, 5, 6}, {topic, false, 6, 3}}
				after = []pk{{topic, true, 2, 4}}
			}
			ref := map[int][]byte{}
			closed := false
			var ops []string
			step := func(op string, send func(), isPkt *pk) {
				res := ""
				if closed {
					send()
					res = "ignored-closed"
				} else {
					send()
					alive := r.barrier()
					var whole []byte
					if isPkt != nil {
						ref[isPkt.t] = append(ref[isPkt.t], Pattern(isPkt.seed, isPkt.n)...)
						if isPkt.eof {
							whole, ref[isPkt.t] = ref[isPkt.t], nil
						}
					}
					var delivered []string
					for t := 0; t < 7; t++ {
						for _, m := range drainInbox(o, r.b, t, r.idM.PublicKey().Bytes(), ops) {
							delivered = append(delivered, fmt.Sprintf("deliver %d %s", t, showMsg(m)))
							// ORACLE: only what the honest packets of that topic add up to, and only when its EOF packet was just sent
							if isPkt == nil || t != isPkt.t || !isPkt.eof || showMsg(m) != showMsg(whole) {
								o.Fail("C18:received-differs-from-sent:malformed-frame:"+kind,
									fmt.Sprintf("position %s, after %q: topic %d delivered %s; the honest packets of that step add up to %s", pos, op, t, showMsg(m), showMsg(whole)),
									append(append([]string(nil), ops...), op))
							}
						}
					}
					switch {
					case !alive:
						closed = true
						res = "close:" + closeReason(r.b.log.Lines())
						if isPkt == nil {
							res = "close:malformed"
						}
					case len(delivered) == 1:
						res = delivered[0]
					case len(delivered) == 0:
						res = "ok"
					default:
						res = "multi " + strings.Join(delivered, ",")
					}
					if isPkt == nil && alive {
						// ORACLE: a frame that is not a well-formed Envelope{Packet} ends the connection
						o.Fail("C18:malformed-frame-tolerated:"+kind, fmt.Sprintf("position %s: the connection is still open after the malformed frame", pos), append(append([]string(nil), ops...), op))
					}
				}
				ops = append(ops, op+" -> "+res)
				o.Op(op, res)
			}
			sendPk := func(p pk) {
				p2 := p
				step(fmt.Sprintf("pkt %d %d %d %d", p.t, b2i(p.eof), p.seed, p.n), func() { _ = r.sendPacket(int32(p.t), p.eof, Pattern(p.seed, p.n)) }, &p2)
			}
			for _, p := range before {
				sendPk(p)
			}
			step("malformed "+kind, func() {
				switch kind {
				case "zero-length":
					_, _ = r.x.Write([]byte{0, 0, 0, 0})
				case "len1-garbage":
					_, _ = r.x.Write([]byte{0, 0, 0, 1, 0xff})
				case "len2-garbage":
					_, _ = r.x.Write([]byte{0, 0, 0, 2, 0x0a, 0x7f})
				case "len3-garbage":
					_, _ = r.x.Write([]byte{0, 0, 0, 3, 0xff, 0xff, 0xff})
				case "garbage-envelope":
					g := drv.Bytes(o.Rng, 60)
					g[0] = 0xff // never a valid field tag
					_ = c17.SendLP(r.x, g)
				case "unknown-payload-type":
					_ = c17.SendLP(r.x, []byte{0x0a, 0x0d, 0x0a, 0x07, 'x', '/', 'n', 'o', 'n', 'e', 'x', 0x12, 0x02, 0x08, 0x01})
				case "empty-any-payload":
					bz, _ := lib.Marshal(&p2p.Envelope{Payload: &anypb.Any{}})
					if len(bz) == 0 {
						bz = []byte{0x0a, 0x00}
					}
					_ = c17.SendLP(r.x, bz)
				case "non-packet-message":
					_ = r.sendEnvelope(&lib.PeerMeta{ChainId: 5})
				case "over-limit-length":
					_, _ = r.x.Write([]byte{0x00, 0x0f, 0x42, 0x41, 1, 2, 3}) // maxPacketSize + 1
				case "max-uint32-length":
					_, _ = r.x.Write([]byte{0xff, 0xff, 0xff, 0xff})
				case "truncated-frame":
					_, _ = r.x.Write([]byte{0, 0, 0, 100, 1, 2, 3, 4, 5})
					r.conn.Close() // the stream ends inside the announced frame
				}
			}, nil)
			for _, p := range after {
				sendPk(p)
			}
			r.close()
			o.Count("malformed-frame:" + kind)
			o.Nontrivial("malformed-frame " + kind + " " + pos)
			if pos == "mid" && kind == "zero-length" {
				o.Sample("malformed-frame zero-length mid: " + strings.Join(ops, "; "))
			}
		}
	}
}
