package c18

import (
	"bytes"
	"fmt"
	"strings"
	"sync"
	"sync/atomic"
	"time"

	"github.com/canopy-network/canopy/lib"

	"verifharness/c17"
	"verifharness/drv"
)

// concurrentSmallAndLarge — permanent scenario `concurrent-small-and-large-same-topic`.
//
// Two goroutines send on the SAME topic of the same real MultiConn: F sends one-packet messages as
// fast as it can, L sends a few three-packet messages. The link (through the recording relay) is slow
// — one small packet per 20 ms — so the stream's send queue (1000 packets) is full and every enqueue,
// including each packet of a large message, has to wait for a slot: L blocks in the middle of its
// messages while F is competing for the same slots. What keeps L's packets contiguous is the stream
// mutex held by queueSends for the whole message. The large packets are only ENQUEUED during the slow
// phase (they sit ~1000 packets deep); the link is released before they reach the wire.
//
// Oracle (independent of the model): every message delivered on the topic was sent, whole, exactly
// once, and each sender's messages arrive in that sender's order. Signature
// C18:received-differs-from-sent:interleaved-senders; the replay lists what was sent and the packets
// (length, EOF) in wire order as the relay saw them.
func concurrentSmallAndLarge(o *drv.Out, base string) {
	reps := 3
	if o.Tier == "thorough" {
		reps = 8
	}
	if o.Tier == "race" {
		reps = 1
	}
	const T = 2
	for rep := 0; rep < reps; rep++ {
		o.Case(fmt.Sprintf("concurrent-small-and-large-same-topic-%d", rep))
		l, err := connectTapped(base)
		if err != nil {
			panic(err)
		}
		// the receiving application drains its inbox all the time (the inbox holds 1000 messages)
		stop := make(chan struct{})
		var mu sync.Mutex
		var got [][]byte
		var dwg sync.WaitGroup
		dwg.Add(1)
		go func() {
			defer dwg.Done()
			for {
				select {
				case m := <-l.b.Inbox(lib.Topic(T)):
					mu.Lock()
					got = append(got, m.Message)
					mu.Unlock()
					if !bytes.Equal(m.Sender.Address.PublicKey, l.peerOfB) {
						o.Fail("C18:message-not-attributed-to-authenticated-sender", "concurrent-small-and-large", nil)
					}
				case <-stop:
					return
				}
			}
		}()
		l.ab.With(func(p *c17.Pipe) { p.Cap, p.Delay = 1, 20*time.Millisecond })
		// F: one-packet messages, each unique (sequence number in the first two bytes, length varies)
		small := func(i int) []byte {
			b := Pattern(i%251, 3+(i*7)%90)
			b[0], b[1], b[2] = 'F', byte(i>>8), byte(i)
			return b
		}
		large := func(i int) []byte {
			b := Pattern(100+i, 2*chunk+1+i*17) // three packets
			b[0], b[1] = 'L', byte(i)
			return b
		}
		var nSmall int64
		var stopF int32
		var failed int32
		var wg sync.WaitGroup
		wg.Add(1)
		go func() {
			defer wg.Done()
			for i := 0; i < 1600 && atomic.LoadInt32(&stopF) == 0; i++ {
				if !l.mc.Send(lib.Topic(T), small(i)) {
					atomic.AddInt32(&failed, 1)
					return
				}
				atomic.AddInt64(&nSmall, 1)
			}
		}()
		// wait until the queue is full (F has pushed a full queue's worth and is now waiting for slots)
		for t0 := time.Now(); atomic.LoadInt64(&nSmall) < 1000 && time.Since(t0) < 10*time.Second; {
			time.Sleep(time.Millisecond)
		}
		nLarge := 3
		for i := 0; i < nLarge; i++ {
			if !l.mc.Send(lib.Topic(T), large(i)) {
				atomic.AddInt32(&failed, 1)
			}
		}
		atomic.StoreInt32(&stopF, 1)
		wg.Wait()
		ns := int(atomic.LoadInt64(&nSmall))
		// the link recovers; everything drains
		l.ab.With(func(p *c17.Pipe) { p.Cap, p.Delay = 0, 0 })
		total := ns + nLarge
		for t0 := time.Now(); time.Since(t0) < 60*time.Second; {
			mu.Lock()
			n := len(got)
			mu.Unlock()
			if n >= total {
				break
			}
			time.Sleep(5 * time.Millisecond)
		}
		time.Sleep(50 * time.Millisecond) // anything spurious still to come?
		close(stop)
		dwg.Wait()
		pkts := l.tap.packets()
		l.close()

		// ---- oracle
		want := map[string]int{} // message -> index within its sender
		for i := 0; i < ns; i++ {
			want["F"+showMsg(small(i))] = i
		}
		for i := 0; i < nLarge; i++ {
			want["L"+showMsg(large(i))] = i
		}
		seen := map[string]bool{}
		lastF, lastL := -1, -1
		var problems []string
		for _, m := range got {
			key := keyOf(m)
			idx, ok := want[key]
			switch {
			case !ok:
				problems = append(problems, "foreign "+showMsg(m))
			case seen[key]:
				problems = append(problems, "duplicate "+showMsg(m))
			case m[0] == 'F' && idx < lastF, m[0] == 'L' && idx < lastL:
				problems = append(problems, "out-of-sender-order "+showMsg(m))
			}
			if ok {
				seen[key] = true
				if m[0] == 'F' {
					lastF = idx
				} else {
					lastL = idx
				}
			}
		}
		if len(seen) != total {
			problems = append(problems, fmt.Sprintf("missing %d of %d sent messages", total-len(seen), total))
		}
		if atomic.LoadInt32(&failed) > 0 {
			problems = append(problems, "a Send returned false")
		}
		// how the large messages sat on the wire: gaps between their packets?
		var wireDesc []string
		for _, p := range pkts {
			if len(p.Bytes) >= 1000 || !p.Eof {
				wireDesc = append(wireDesc, fmt.Sprintf("%d%s", len(p.Bytes), map[bool]string{true: "eof", false: ""}[p.Eof]))
			} else if n := len(wireDesc); n > 0 && strings.HasPrefix(wireDesc[n-1], "small×") {
				var k int
				fmt.Sscanf(wireDesc[n-1], "small×%d", &k)
				wireDesc[n-1] = fmt.Sprintf("small×%d", k+1)
			} else {
				wireDesc = append(wireDesc, "small×1")
			}
		}
		if len(problems) > 0 {
			if len(problems) > 12 {
				problems = append(problems[:12], fmt.Sprintf("… %d more", len(problems)-12))
			}
			var sentL []string
			for i := 0; i < nLarge; i++ {
				sentL = append(sentL, showMsg(large(i)))
			}
			o.Fail("C18:received-differs-from-sent:interleaved-senders",
				fmt.Sprintf("topic %d, two concurrent senders (one-packet messages / three-packet messages), send queue full: %s", T, strings.Join(problems, "; ")),
				map[string]any{"sent_large": sentL, "sent_small": fmt.Sprintf("%d messages small(i)=Pattern(i%%251,3+(i*7)%%90) tagged 'F',i", ns),
					"wire_order_len_eof": wireDesc, "received": func() []string {
						var r []string
						for _, m := range got {
							if len(m) >= 1000 {
								r = append(r, showMsg(m))
							}
						}
						return r
					}(), "note": "received lists only messages of 1000 bytes or more"})
		}

		// ---- the same history through the model: per-topic enqueue order as the relay saw the messages
		// complete, then the observed schedule (all packets of the one topic), then the inbox
		asm := []byte{}
		for _, p := range pkts {
			asm = append(asm, p.Bytes...)
			if !p.Eof {
				continue
			}
			if idx, ok := want[keyOf(asm)]; ok {
				// the model regenerates the payload from (kind, index)
				kind := 0
				if asm[0] == 'L' {
					kind = 1
				}
				np := 1
				if len(asm) > chunk {
					np = (len(asm) + chunk - 1) / chunk
				}
				o.Op(fmt.Sprintf("send-tagged %d %d %d", T, kind, idx), fmt.Sprintf("ok %d", np))
			} else {
				o.Op(fmt.Sprintf("send-foreign %d %d", T, len(asm)), "never-sent")
			}
			asm = asm[:0]
		}
		h := uint64(14695981039346656037)
		for _, p := range pkts {
			e := uint64(0)
			if p.Eof {
				e = 1
			}
			h = mix(mix(mix(mix(h, uint64(p.Topic)), e), uint64(len(p.Bytes))), fnv(p.Bytes))
		}
		o.Op(fmt.Sprintf("wire-n %d %d", T, len(pkts)), fmt.Sprintf("wire %d %d", len(pkts), h))
		o.Op(fmt.Sprintf("deliver-all-draining %d", T), "open")
		res := fmt.Sprint(len(got))
		hh := uint64(14695981039346656037)
		for _, m := range got {
			hh = mix(mix(hh, uint64(len(m))), fnv(m))
		}
		o.Op(fmt.Sprintf("inbox-hash %d", T), fmt.Sprintf("%s %d", res, hh))
		o.Count("interleave:repetitions")
		foreign := 0
		asm = asm[:0]
		for _, p := range pkts {
			asm = append(asm, p.Bytes...)
			if p.Eof {
				if _, ok := want[keyOf(asm)]; !ok {
					foreign++
				}
				asm = asm[:0]
			}
		}
		o.Count(fmt.Sprintf("interleave:wire-messages-nobody-sent=%d", foreign))
		o.Count(fmt.Sprintf("interleave:small-sends-while-large-sender-was-enqueuing>=%d", min((ns-1000)/5*5, 50)))
		o.Nontrivial(fmt.Sprintf("concurrent-small-and-large %d small %d", rep, ns))
		if rep == 0 {
			o.Sample(fmt.Sprintf("concurrent-small-and-large-same-topic: %d one-packet + %d three-packet messages, wire: %s", ns, nLarge, strings.Join(wireDesc, " ")))
		}
	}
}

// keyOf identifies a message of the scenario by its sender tag (first byte) and content.
func keyOf(m []byte) string {
	if len(m) == 0 {
		return ""
	}
	return string(m[0]) + showMsg(m)
}
