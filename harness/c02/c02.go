// Package c02 drives the finality gate (C02): the exact call sequence of controller.HandlePeerBlock's
// non-sync path — QuorumCertificate.CheckBasic, committee lookup, QuorumCertificate.Check, the
// partial-certificate test, CheckProposalBasic, the phase test — on real committees with real BLS
// aggregate signatures, for a valid (block, certificate) pair and for single- and multi-field
// deviations of it. (The call sequence itself is pinned by a generated fact; the end-to-end
// HandlePeerBlock run lives in the node harness.)
package c02

import (
	"bytes"
	"crypto/sha256"
	"fmt"
	"strings"

	"google.golang.org/protobuf/encoding/protowire"
	"google.golang.org/protobuf/proto"

	"github.com/canopy-network/canopy/lib"
	"github.com/canopy-network/canopy/lib/crypto"
	"github.com/drand/kyber"

	"verifharness/drv"
)

type member struct {
	key   crypto.PrivateKeyI
	power uint64
}

type committee struct {
	ms []member
	vs lib.ValidatorSet
}

func newCommittee(keys []crypto.PrivateKeyI, powers []uint64) *committee {
	c := &committee{}
	var cv []*lib.ConsensusValidator
	for i, p := range powers {
		c.ms = append(c.ms, member{keys[i], p})
		cv = append(cv, &lib.ConsensusValidator{PublicKey: keys[i].PublicKey().Bytes(), VotingPower: p})
	}
	vs, err := lib.NewValidatorSet(&lib.ConsensusValidators{ValidatorSet: cv})
	if err != nil {
		return nil
	}
	c.vs = vs
	return c
}

func h32(b byte) []byte { return bytes.Repeat([]byte{b}, 32) }

type node struct {
	height, net, chain uint64
	maxBlock           int
	committees         map[uint64]*committee // by root height
}

// the gate, exactly as HandlePeerBlock(syncing=false) sequences it
func gate(n *node, qc *lib.QuorumCertificate) (verdict string) {
	defer func() {
		if r := recover(); r != nil {
			verdict = "panic"
		}
	}()
	if err := qc.CheckBasic(); err != nil {
		return rej(err)
	}
	c, ok := n.committees[qc.Header.RootHeight]
	if !ok {
		return rej(lib.ErrNoValidators())
	}
	isPartial, err := qc.Check(c.vs, n.maxBlock, &lib.View{NetworkId: n.net, ChainId: n.chain}, false)
	if err != nil {
		return rej(err)
	}
	if isPartial {
		return rej(lib.ErrNoMaj23())
	}
	_, err = qc.CheckProposalBasic(n.height, n.net, n.chain)
	if err == nil && qc.Header.Phase != lib.Phase_PRECOMMIT_VOTE {
		return rej(lib.ErrWrongPhase())
	}
	if err != nil {
		return rej(err)
	}
	return "commit"
}

// error kinds the model abstracts into classes
var hdrCodes = map[string]bool{}
var resCodes = map[string]bool{}

func eid(e lib.ErrorI) string { return fmt.Sprintf("%s/%d", e.Module(), e.Code()) }

func init() {
	for _, e := range []lib.ErrorI{lib.ErrNilBlockHeader(), lib.ErrInvalidBlockProposerAddress(), lib.ErrWrongLengthBlockHash(),
		lib.ErrWrongLengthStateRoot(), lib.ErrWrongLengthTransactionRoot(), lib.ErrWrongLengthValidatorRoot(),
		lib.ErrWrongLengthNextValidatorRoot(), lib.ErrWrongLengthLastBlockHash(), lib.ErrNilBlockTime(), lib.ErrNilNetworkID()} {
		hdrCodes[eid(e)] = true
	}
	for _, e := range []lib.ErrorI{lib.ErrNilRewardRecipients(), lib.ErrPaymentRecipientsCount(), lib.ErrInvalidPercentAllocation(), lib.ErrEmptyChainId(), lib.ErrInvalidAddress()} {
		resCodes[eid(e)] = true
	}
}

func rej(e lib.ErrorI) string {
	if hdrCodes[eid(e)] {
		return "reject:hdr"
	}
	if resCodes[eid(e)] {
		return "reject:res"
	}
	return "reject:" + eid(e)
}

// ---- description of the case for the model ---------------------------------------------------

type part struct {
	key []byte
	pay string
}

type desc struct {
	hdr     string // "nil" or fields
	bh, rh  string
	pk      string
	blk     string
	res     string
	sig     string
	members string
}

func optHex(b []byte) string {
	if b == nil {
		return "nil"
	}
	return drv.Hex(b)
}

func viewStr(v *lib.View) string {
	if v == nil {
		return "nil"
	}
	return fmt.Sprintf("%d,%d,%d,%d,%d,%d", v.Height, v.Round, int(v.Phase), v.RootHeight, v.NetworkId, v.ChainId)
}

// payload descriptor: what exactly was signed
func payStr(v *lib.View, bh, rh, pk []byte) string {
	return viewStr(v) + "/" + drv.Hex(bh) + "/" + drv.Hex(rh) + "/" + drv.Hex(pk)
}

func bitsStr(bm []byte) string {
	var sb strings.Builder
	for _, b := range bm {
		for j := 0; j < 8; j++ {
			if b&(1<<uint(j)) != 0 {
				sb.WriteByte('1')
			} else {
				sb.WriteByte('0')
			}
		}
	}
	if sb.Len() == 0 {
		return "-"
	}
	return sb.String()
}

type scenario struct {
	n      *node
	qc     *lib.QuorumCertificate
	parts  []part // individual signatures inside the aggregate
	blkD   string
	resD   string
	notes  []string
	sigLen bool
}

func validHeader(height uint64, net uint32, prevQC *lib.QuorumCertificate) *lib.BlockHeader {
	h := &lib.BlockHeader{Height: height, NetworkId: net, Time: 1700000000000000, LastBlockHash: h32(1), StateRoot: h32(2),
		TransactionRoot: h32(3), ValidatorRoot: h32(4), NextValidatorRoot: h32(5), ProposerAddress: bytes.Repeat([]byte{7}, 20),
		LastQuorumCertificate: prevQC}
	return h
}

func validResults(chain uint64) *lib.CertificateResult {
	return &lib.CertificateResult{RewardRecipients: &lib.RewardRecipients{PaymentPercents: []*lib.PaymentPercents{{Address: bytes.Repeat([]byte{9}, 20), Percent: 100, ChainId: chain}}}}
}

// richResults: valid results with a random selection of the optional top-level fields populated
func richResults(r interface{ Intn(int) int }, chain uint64) *lib.CertificateResult {
	res := validResults(chain)
	if r.Intn(3) == 0 {
		res.SlashRecipients = &lib.SlashRecipients{DoubleSigners: []*lib.DoubleSigner{{Id: bytes.Repeat([]byte{7}, 48), Heights: []uint64{uint64(1 + r.Intn(5))}}}}
	}
	if r.Intn(3) == 0 {
		res.Orders = &lib.Orders{ResetOrders: [][]byte{bytes.Repeat([]byte{byte(1 + r.Intn(200))}, 20)}}
	}
	if r.Intn(3) == 0 {
		res.Checkpoint = &lib.Checkpoint{Height: uint64(1 + r.Intn(100)), BlockHash: h32(byte(r.Intn(200)))}
	}
	if r.Intn(4) == 0 {
		res.Retired = true
	}
	if r.Intn(3) == 0 {
		res.DexBatch = &lib.DexBatch{Committee: chain, Receipts: []uint64{uint64(r.Intn(9))}, LockedHeight: uint64(r.Intn(50))}
	}
	if r.Intn(3) == 0 {
		res.RootDexBatch = &lib.DexBatch{Committee: chain, Receipts: []uint64{uint64(r.Intn(9))}, LockedHeight: uint64(r.Intn(50))}
	}
	return res
}

// resDigest: the digest of carried results computed WITHOUT the library's CertificateResult.Hash()/lib.Marshal:
// sha-256 over the deterministic protobuf encoding of every field of the message
func resDigest(res *lib.CertificateResult) []byte {
	bz, err := proto.MarshalOptions{Deterministic: true}.Marshal(res)
	if err != nil {
		panic(err)
	}
	h := sha256.Sum256(bz)
	return h[:]
}

// alterResults returns a copy of res that differs from it in exactly one top-level field (still CheckBasic-valid)
func alterResults(res *lib.CertificateResult, k int, chain uint64) (*lib.CertificateResult, string) {
	out := proto.Clone(res).(*lib.CertificateResult)
	switch k % 9 {
	case 0:
		out.RewardRecipients.PaymentPercents[0].Address = bytes.Repeat([]byte{8}, 20)
		return out, "reward-recipients"
	case 1:
		if out.SlashRecipients == nil {
			out.SlashRecipients = &lib.SlashRecipients{DoubleSigners: []*lib.DoubleSigner{{Id: bytes.Repeat([]byte{6}, 48), Heights: []uint64{3}}}}
		} else {
			out.SlashRecipients = nil
		}
		return out, "slash-recipients"
	case 2:
		if out.Orders == nil {
			out.Orders = &lib.Orders{ResetOrders: [][]byte{bytes.Repeat([]byte{0xEE}, 20)}}
		} else {
			out.Orders.ResetOrders = append(out.Orders.ResetOrders, bytes.Repeat([]byte{0xEF}, 20))
		}
		return out, "orders"
	case 3:
		if out.Checkpoint == nil {
			out.Checkpoint = &lib.Checkpoint{Height: 5, BlockHash: h32(0x31)}
		} else {
			out.Checkpoint.Height++
		}
		return out, "checkpoint"
	case 4:
		out.Retired = !out.Retired
		return out, "retired"
	case 5:
		if out.DexBatch == nil {
			out.DexBatch = &lib.DexBatch{Committee: chain, Receipts: []uint64{1}}
		} else {
			out.DexBatch.LockedHeight++
		}
		return out, "dex-batch"
	case 6: // attached where the committee signed none / swapped where it signed one
		if out.RootDexBatch == nil {
			out.RootDexBatch = &lib.DexBatch{Committee: chain, Receipts: []uint64{1}}
		} else {
			out.RootDexBatch.Receipts = append(out.RootDexBatch.Receipts, 7)
		}
		return out, "root-dex-batch"
	case 7: // stripped / attached
		if out.RootDexBatch != nil {
			out.RootDexBatch = nil
		} else {
			out.RootDexBatch = &lib.DexBatch{Committee: chain + 1, LockedHeight: 9}
		}
		return out, "root-dex-batch"
	default:
		if out.DexBatch != nil {
			out.DexBatch = nil
		} else {
			out.DexBatch = &lib.DexBatch{Committee: chain, LockedHeight: 2}
		}
		return out, "dex-batch"
	}
}

// sign aggregates the signatures of the chosen member indices of committee c over the given payload
func sign(c *committee, idxs []int, payload []byte) (sig []byte, bitmap []byte) {
	// the signers' own multi-key: every member of the list, in list order - built here from the public keys and
	// NOT taken from the validator set under test (an aggregator is free to use any layout; only this one may verify)
	var pts []kyber.Point
	for _, m := range c.ms {
		pt, e := crypto.BytesToBLS12381Point(m.key.PublicKey().Bytes())
		if e != nil {
			panic(e)
		}
		pts = append(pts, pt)
	}
	mk, e := crypto.NewMultiBLSFromPoints(pts, nil)
	if e != nil {
		panic(e)
	}
	for _, i := range idxs {
		if err := mk.AddSigner(c.ms[i].key.Sign(payload), i); err != nil {
			panic(err)
		}
	}
	s, err := mk.AggregateSignatures()
	if err != nil {
		panic(err)
	}
	return s, mk.Bitmap()
}

func Run(o *drv.Out) {
	r := o.Rng
	ncases := 40
	if o.Tier == "thorough" {
		ncases = 400
	}
	var keys []crypto.PrivateKeyI
	for i := 0; i < 20; i++ {
		k, err := crypto.NewBLS12381PrivateKey()
		if err != nil {
			panic(err)
		}
		keys = append(keys, k)
	}
	for ci := 0; ci < ncases; ci++ {
		o.Case(fmt.Sprint(ci))
		// --- a committee at root height R and a different one at R+1
		sizes := []int{1, 2, 3, 4, 7, 8, 9, 15, 16, 17}
		nm := sizes[r.Intn(len(sizes))]
		powers := make([]uint64, nm)
		for i := range powers {
			switch r.Intn(4) {
			case 0:
				powers[i] = 10
			case 1:
				powers[i] = uint64(1 + r.Intn(5))
			default:
				powers[i] = uint64(1 + r.Intn(1000))
			}
		}
		// the first cases are small committees at the arithmetic edges of the threshold: total power
		// congruent to 0, 1 and 2 mod 3, where floor(2T/3)+1 and other plausible formulas differ
		// members without voting power stay in the list (and in the bitmap's index space)
		if nm > 1 && r.Intn(4) == 0 {
			for k := 0; k < 1+r.Intn(2); k++ {
				powers[r.Intn(nm)] = 0
			}
			var t uint64
			for _, p := range powers {
				t += p
			}
			if t == 0 {
				powers[r.Intn(nm)] = 1
			}
			o.Count("committee:zero-power-member")
		}
		if boundary := [][]uint64{{2, 2, 1}, {1, 1, 1}, {2, 1, 1}, {1, 1}, {3, 3, 2}, {5, 4, 3, 2}, {7, 7, 7, 1, 1}, {1}, {0, 70, 30}, {1, 0, 1, 0, 1}, {0, 0, 5, 0}}; ci < len(boundary) {
			powers = boundary[ci]
			nm = len(powers)
		}
		perm := r.Perm(len(keys))
		ks := make([]crypto.PrivateKeyI, nm)
		for i := range ks {
			ks[i] = keys[perm[i]]
		}
		com := newCommittee(ks, powers)
		// the other committee: same keys, different order and powers (so the same bitmap selects other members)
		ks2 := make([]crypto.PrivateKeyI, nm)
		pw2 := make([]uint64, nm)
		p2 := r.Perm(nm)
		for i := range ks2 {
			ks2[i] = ks[p2[i]]
			pw2[i] = uint64(1 + r.Intn(1000))
		}
		com2 := newCommittee(ks2, pw2)
		R := uint64(3 + r.Intn(5))
		height := uint64(2 + r.Intn(50))
		net, chain := uint64(1+r.Intn(3)), uint64(1+r.Intn(3))
		n := &node{height: height, net: net, chain: chain, maxBlock: 1000, committees: map[uint64]*committee{R: com, R + 1: com2}}
		var T uint64
		for _, p := range powers {
			T += p
		}
		maj := 2*T/3 + 1
		// greedy signer set reaching exactly the first prefix >= maj in a random order
		order := r.Perm(nm)
		base := func() ([]int, uint64) {
			var idxs []int
			var s uint64
			for _, i := range order {
				if s >= maj {
					break
				}
				idxs = append(idxs, i)
				s += powers[i]
			}
			return idxs, s
		}
		// --- variants of one valid pair
		nvar := 14
		for v := 0; v < nvar; v++ {
			prev := &lib.QuorumCertificate{Header: &lib.View{Height: height - 1, NetworkId: net, ChainId: chain, RootHeight: R, Phase: lib.Phase_PRECOMMIT_VOTE},
				BlockHash: h32(0xAA), ResultsHash: h32(0xBB), Signature: &lib.AggregateSignature{Signature: bytes.Repeat([]byte{1}, 96), Bitmap: []byte{1}}}
			hdr := validHeader(height, uint32(net), prev)
			blk := &lib.Block{BlockHeader: hdr, Transactions: [][]byte{bytes.Repeat([]byte{1}, 100)}}
			res := richResults(r, chain)
			view := &lib.View{Height: height, Round: uint64(r.Intn(3)), Phase: lib.Phase_PRECOMMIT_VOTE, RootHeight: R, NetworkId: net, ChainId: chain}
			idxs, _ := base()
			var notes []string
			blkHeaderOK, blkLastQC, blkLastQCNet, blkDecodes := true, true, true, true
			resOK := true
			signCom := com
			// deviations applied BEFORE signing (honest signers sign the deviated content: still "correctly bound")
			// and AFTER signing (re-targeting). Choose by variant.
			dev := r.Intn(31)
			dupHeader := false
			if v == 0 {
				dev = -1 // the valid pair itself
			}
			if v == 2 {
				dev = 26 // always: signed power exactly one unit below the threshold, when a subset reaches it
			}
			if v == 3 {
				dev = 27 // always: signed power exactly the threshold (must commit)
			}
			// exact: a signer subset whose power sums to exactly `want` (brute force for small committees)
			exact := func(want uint64) ([]int, bool) {
				if nm > 17 {
					return nil, false
				}
				for mask := 1; mask < 1<<uint(nm); mask++ {
					var s uint64
					for i := 0; i < nm; i++ {
						if mask&(1<<uint(i)) != 0 {
							s += powers[i]
						}
					}
					if s == want {
						var out []int
						for i := 0; i < nm; i++ {
							if mask&(1<<uint(i)) != 0 {
								out = append(out, i)
							}
						}
						return out, true
					}
				}
				return nil, false
			}
			if v == 6 {
				dev = 30 // always: a minority signs, padding bits make the raw popcount equal the committee size
			}
			if v == 5 {
				dev = 29 // always: aggregated under another key layout of the same members (bits name other members)
			}
			if v == 4 {
				dev = 28 // always: the carried results differ from the signed ones in exactly one field
			}
			if v == 1 {
				dev = 25 // always: the leader's PROPOSE_VOTE justification re-labelled as a commit certificate
			}
			pre := func() {
				switch dev {
				case 0, 30: // one unit short of the threshold (30: … and padding bits raised afterwards so the popcount equals the committee size)
					for len(idxs) > 0 {
						var s uint64
						for _, i := range idxs {
							s += powers[i]
						}
						if s < maj {
							break
						}
						idxs = idxs[:len(idxs)-1]
					}
					notes = append(notes, "partial")
				case 1:
					view.Phase = lib.Phase(r.Intn(9))
					notes = append(notes, "phase")
				case 26:
					if sub, ok := exact(maj - 1); ok && maj > 1 {
						idxs = sub
						notes = append(notes, "exactly-one-below-threshold")
					} else {
						notes = append(notes, "no-subset-one-below-threshold")
					}
				case 27:
					if sub, ok := exact(maj); ok {
						idxs = sub
						notes = append(notes, "exactly-at-threshold")
					} else {
						notes = append(notes, "no-subset-at-threshold")
					}
				case 25:
					// the honest +2/3 PROPOSE_VOTE certificate every replica sees as the justification of the
					// leader's PRECOMMIT message; applyPost re-labels it PRECOMMIT_VOTE after signing
					view.Phase = lib.Phase_PROPOSE_VOTE
					notes = append(notes, "relabel-phase")
				case 29:
					// the aggregator's layout: the committee list with the zero-power members (or, if there is none,
					// one random member) left out, or two neighbours swapped; signers are chosen in that layout so that
					// the SAME bit positions, read in the committee's own index space, add up to the threshold
					if nm < 2 {
						notes = append(notes, "foreign-layout-impossible")
						break
					}
					var lay []int
					switch r.Intn(3) {
					case 0, 1:
						drop := map[int]bool{}
						for i, p := range powers {
							if p == 0 {
								drop[i] = true
							}
						}
						if len(drop) == 0 {
							drop[r.Intn(nm)] = true
						}
						for i := 0; i < nm; i++ {
							if !drop[i] {
								lay = append(lay, i)
							}
						}
						notes = append(notes, "foreign-layout:dropped-members")
					default:
						for i := 0; i < nm; i++ {
							lay = append(lay, i)
						}
						k := r.Intn(nm - 1)
						lay[k], lay[k+1] = lay[k+1], lay[k]
						notes = append(notes, "foreign-layout:swapped-neighbours")
					}
					sub := &committee{}
					for _, i := range lay {
						sub.ms = append(sub.ms, com.ms[i])
					}
					signCom = sub
					// positions (in the foreign layout) whose committee-space powers reach the threshold
					idxs = nil
					var s uint64
					for pos := range lay {
						if s >= maj {
							break
						}
						idxs = append(idxs, pos)
						s += powers[pos]
					}
				case 2:
					hdr.ProposerAddress = hdr.ProposerAddress[:19]
					blkHeaderOK = false
					notes = append(notes, "blk-header")
				case 3:
					hdr.NetworkId = uint32(net + 1)
					notes = append(notes, "blk-net")
				case 4:
					hdr.Height = height + uint64(r.Intn(3)) - 1
					view.Height = hdr.Height
					notes = append(notes, "blk-height")
				case 5:
					blk.Transactions = [][]byte{bytes.Repeat([]byte{1}, 2000)}
					notes = append(notes, "oversize")
				case 6:
					res.RewardRecipients.PaymentPercents = nil
					resOK = false
					notes = append(notes, "res-basic")
				case 7:
					view.RootHeight = R + 1 // signed by the committee of R, checked against the committee of R+1
					notes = append(notes, "other-committee")
				case 8:
					view.RootHeight = R + 2
					notes = append(notes, "no-committee")
				case 24: // non-canonical block bytes carrying TWO header fields (decoded block = the second one)
					dupHeader = true
					notes = append(notes, "dup-header")
				case 9:
					if r.Intn(2) == 0 {
						prev.Header.ChainId = chain + 1
						blkLastQC = false
						notes = append(notes, "lastqc-chain")
					} else {
						prev.Header.NetworkId = net + 1
						blkLastQCNet = false
						notes = append(notes, "lastqc-net")
					}
				}
			}
			pre()
			hdr.SetHash()
			blockBytes, _ := lib.Marshal(blk)
			decodedHash := append([]byte{}, hdr.Hash...) // hash of the header a decoder of blockBytes ends up with
			if dupHeader {
				h1, _ := lib.Marshal(hdr)
				alt := proto.Clone(hdr).(*lib.BlockHeader)
				alt.StateRoot = h32(0x66)
				alt.SetHash()
				h2, _ := lib.Marshal(alt)
				var bz []byte
				bz = protowire.AppendTag(bz, 1, protowire.BytesType)
				bz = protowire.AppendBytes(bz, h1)
				bz = protowire.AppendTag(bz, 1, protowire.BytesType)
				bz = protowire.AppendBytes(bz, h2)
				for _, t := range blk.Transactions {
					bz = protowire.AppendTag(bz, 2, protowire.BytesType)
					bz = protowire.AppendBytes(bz, t)
				}
				blockBytes = bz
				decodedHash = append([]byte{}, alt.Hash...)
			}
			qc := &lib.QuorumCertificate{Header: view, Block: blockBytes, BlockHash: append([]byte{}, hdr.Hash...), Results: res, ResultsHash: res.Hash()}
			signedPay := payStr(qc.Header, qc.BlockHash, qc.ResultsHash, qc.ProposerKey)
			sigBz, bitmap := sign(signCom, idxs, qc.SignBytes())
			qc.Signature = &lib.AggregateSignature{Signature: sigBz, Bitmap: bitmap}
			var parts []part
			for _, i := range idxs {
				parts = append(parts, part{signCom.ms[i].key.PublicKey().Bytes(), signedPay})
			}
			sigLenOK := true
			applyPost(dev, qc, keys, nm, net, chain, &notes, &sigLenOK, r)
			// occasionally a second, independent deviation (multi-field)
			if dev >= 0 && r.Intn(4) == 0 {
				applyPost(10+r.Intn(7), qc, keys, nm, net, chain, &notes, &sigLenOK, r)
			}
			// node-side deviation
			nn := *n
			if r.Intn(8) == 0 {
				nn.height = height + uint64(r.Intn(3)) - 1
				notes = append(notes, "node-height")
			}
			// --- describe for the model
			var d desc
			d.hdr = viewStr(qc.Header)
			d.bh, d.rh, d.pk = optHex(qc.BlockHash), optHex(qc.ResultsHash), optHex(qc.ProposerKey)
			if qc.Block == nil {
				d.blk = "nil"
			} else {
				txs := 0
				for _, t := range blk.Transactions {
					txs += len(t)
				}
				d.blk = fmt.Sprintf("%d,%d,%d,%d,%d,%d,%s,%s,%d,%d", b2i(blkDecodes), b2i(blkHeaderOK), b2i(blkLastQCNet), b2i(blkLastQC), hdr.NetworkId, hdr.Height,
					drv.Hex(hdr.Hash), drv.Hex(decodedHash), txs, len(blockBytes))
			}
			if qc.Results == nil {
				d.res = "nil"
			} else {
				d.res = fmt.Sprintf("%d,%s", b2i(resOK), drv.Hex(resDigest(qc.Results)))
			}
			var ps []string
			for _, p := range parts {
				ps = append(ps, drv.Hex(p.key)+"@"+p.pay)
			}
			pstr := strings.Join(ps, ";")
			if pstr == "" {
				pstr = "-"
			}
			var grp []string
			for _, m := range signCom.ms {
				grp = append(grp, drv.Hex(m.key.PublicKey().Bytes()))
			}
			d.sig = fmt.Sprintf("%d|%s|%s|%s", b2i(sigLenOK), bitsStr(qc.Signature.Bitmap), pstr, strings.Join(grp, ","))
			var coms []string
			for rh, c := range nn.committees {
				var ms []string
				for _, m := range c.ms {
					ms = append(ms, fmt.Sprintf("%s:%d", drv.Hex(m.key.PublicKey().Bytes()), m.power))
				}
				coms = append(coms, fmt.Sprintf("%d=%s", rh, strings.Join(ms, ",")))
			}
			if coms[0] > coms[1] {
				coms[0], coms[1] = coms[1], coms[0]
			}
			op := fmt.Sprintf("gate node=%d,%d,%d,%d hdr=%s bh=%s rh=%s pk=%s blk=%s res=%s sig=%s coms=%s",
				nn.height, nn.net, nn.chain, nn.maxBlock, d.hdr, d.bh, d.rh, d.pk, d.blk, d.res, d.sig, strings.Join(coms, "+"))
			verdict := gate(&nn, qc)
			o.Op(op, verdict)
			tag := strings.Join(notes, "+")
			if tag == "" {
				tag = "valid"
			}
			for _, nt := range strings.Split(tag, "+") {
				o.Count("dev:" + nt)
			}
			if strings.Contains(tag, "+") {
				o.Count("dev:multi-field")
			}
			o.Count("verdict:" + verdict)
			o.Nontrivial(op)
			if ci == 0 && v < 3 {
				o.Sample(tag + " -> " + verdict)
			}
			// ---- oracle on the implementation, independent of the model: a commit verdict must be backed by
			// real signatures of >= floor(2T/3)+1 of the committee at the certificate's root height over exactly
			// this certificate's sign bytes, for this network/chain/height, in PRECOMMIT_VOTE.
			if verdict == "commit" {
				c := nn.committees[qc.Header.RootHeight]
				sb := qc.SignBytes()
				var pw, tot uint64
				for i, m := range c.ms {
					tot += m.power
					if qc.Signature.Bitmap[i/8]&(1<<uint(i%8)) != 0 {
						// did this member really sign these bytes? (individual signatures are deterministic)
						signed := false
						for _, p := range parts {
							if bytes.Equal(p.key, m.key.PublicKey().Bytes()) && p.pay == payStr(qc.Header, qc.BlockHash, qc.ResultsHash, qc.ProposerKey) {
								signed = true
							}
						}
						if !signed {
							o.Fail("C02:commit-with-unsigned-signer", "a selected signer never signed this certificate's payload", map[string]any{"op": op})
						}
						pw += m.power
					}
				}
				_ = sb
				if pw < 2*tot/3+1 {
					o.Fail("C02:commit-below-threshold", fmt.Sprintf("signed power %d of %d", pw, tot), map[string]any{"op": op})
				}
				if qc.Header.Phase != lib.Phase_PRECOMMIT_VOTE || qc.Header.NetworkId != nn.net || qc.Header.ChainId != nn.chain || qc.Header.Height != nn.height {
					o.Fail("C02:commit-wrongly-bound", "commit for another phase/network/chain/height", map[string]any{"op": op})
				}
				if !bytes.Equal(qc.BlockHash, decodedHash) || !bytes.Equal(qc.ResultsHash, resDigest(qc.Results)) {
					o.Fail("C02:commit-hash-mismatch", "certificate hashes do not name the carried block/results", map[string]any{"op": op})
				}
			}
			if verdict == "panic" {
				o.Fail("C02:gate-panic", "the gate panicked", map[string]any{"op": op})
			}
			// two-step sequence: the SAME certificate (same signature bytes) that was just checked is offered again
			// with every member's bit set — nothing learned from the first check (caches) may make it pass
			if (dev == 0 || dev == -1) && qc.Signature != nil && len(qc.Signature.Bitmap) == (nm+7)/8 {
				for i := 0; i < nm; i++ {
					qc.Signature.Bitmap[i/8] |= 1 << uint(i%8)
				}
				d.sig = fmt.Sprintf("%d|%s|%s|%s", b2i(sigLenOK), bitsStr(qc.Signature.Bitmap), pstr, strings.Join(grp, ","))
				op2 := fmt.Sprintf("gate node=%d,%d,%d,%d hdr=%s bh=%s rh=%s pk=%s blk=%s res=%s sig=%s coms=%s",
					nn.height, nn.net, nn.chain, nn.maxBlock, d.hdr, d.bh, d.rh, d.pk, d.blk, d.res, d.sig, strings.Join(coms, "+"))
				v2 := gate(&nn, qc)
				o.Op(op2, v2)
				o.Count("dev:recheck-all-bits-set")
				o.Count("verdict:" + v2)
				if v2 == "commit" && len(idxs) < nm {
					o.Fail("C02:commit-with-unsigned-signer", "a certificate re-offered with unsigned signer bits set was committed", map[string]any{"op": op2, "first": op})
				}
			}
		}
	}
}

// applyPost applies a deviation AFTER the honest signatures were produced (re-targeting, bitmap edits, truncation)
func applyPost(dev int, qc *lib.QuorumCertificate, keys []crypto.PrivateKeyI, nm int, net, chain uint64, notes *[]string, sigLenOK *bool, r interface{ Intn(int) int }) {
	switch dev {
	case 10:
		qc.Header.Round++
		*notes = append(*notes, "retarget-round")
	case 11:
		qc.Header.Height++
		*notes = append(*notes, "retarget-height")
	case 12:
		qc.Header.ChainId = chain + 1
		*notes = append(*notes, "retarget-chain")
	case 13:
		qc.Header.NetworkId = net + 1
		*notes = append(*notes, "retarget-net")
	case 14:
		qc.ResultsHash = h32(0x77)
		*notes = append(*notes, "retarget-results-hash")
	case 15:
		qc.BlockHash = h32(0x78)
		*notes = append(*notes, "retarget-block-hash")
	case 16:
		qc.ProposerKey = keys[0].PublicKey().Bytes()
		*notes = append(*notes, "retarget-proposer")
	case 17: // padding bits set: all of them, one of them, or as many as there are non-signers (popcount = committee size)
		if nm%8 != 0 && len(qc.Signature.Bitmap)*8 > nm {
			switch r.Intn(3) {
			case 0:
				for b := nm; b < len(qc.Signature.Bitmap)*8; b++ {
					qc.Signature.Bitmap[b/8] |= 1 << uint(b%8)
				}
				*notes = append(*notes, "padding")
			case 1:
				b := nm + r.Intn(len(qc.Signature.Bitmap)*8-nm)
				qc.Signature.Bitmap[b/8] |= 1 << uint(b%8)
				*notes = append(*notes, "padding-one-bit")
			default:
				set := 0
				for b := 0; b < nm; b++ {
					if qc.Signature.Bitmap[b/8]&(1<<uint(b%8)) != 0 {
						set++
					}
				}
				for b := nm; b < len(qc.Signature.Bitmap)*8 && set < nm; b++ {
					qc.Signature.Bitmap[b/8] |= 1 << uint(b%8)
					set++
				}
				*notes = append(*notes, "padding-popcount")
			}
		}
	case 18: // claim one more signer than signed
		for i := 0; i < nm; i++ {
			if qc.Signature.Bitmap[i/8]&(1<<uint(i%8)) == 0 {
				qc.Signature.Bitmap[i/8] |= 1 << uint(i%8)
				*notes = append(*notes, "forged-extra-bit")
				break
			}
		}
	case 19:
		qc.Signature.Bitmap = append(qc.Signature.Bitmap, 0)
		*notes = append(*notes, "bitmap-len")
	case 20:
		if *sigLenOK {
			qc.Signature.Signature = qc.Signature.Signature[:95]
			*sigLenOK = false
			*notes = append(*notes, "sig-len")
		}
	case 21:
		qc.Results = nil
		*notes = append(*notes, "nil-results")
	case 22:
		qc.Block = nil
		*notes = append(*notes, "nil-block")
	case 23:
		qc.Header.Phase = lib.Phase(r.Intn(9))
		*notes = append(*notes, "retarget-phase")
	case 25:
		qc.Header.Phase = lib.Phase_PRECOMMIT_VOTE
	case 30:
		if len(qc.Signature.Bitmap)*8 > nm {
			set := 0
			for b := 0; b < nm; b++ {
				if qc.Signature.Bitmap[b/8]&(1<<uint(b%8)) != 0 {
					set++
				}
			}
			for b := nm; b < len(qc.Signature.Bitmap)*8 && set < nm; b++ {
				qc.Signature.Bitmap[b/8] |= 1 << uint(b%8)
				set++
			}
			*notes = append(*notes, "padding-popcount")
		}
	case 28:
		if qc.Results != nil {
			var what string
			qc.Results, what = alterResults(qc.Results, r.Intn(9), chain)
			*notes = append(*notes, "results-swapped:"+what)
		}
	}
}

func b2i(b bool) int {
	if b {
		return 1
	}
	return 0
}
