package c02

import (
	"bytes"
	"fmt"
	"strings"

	"github.com/canopy-network/canopy/lib"
	"google.golang.org/protobuf/proto"

	"verifharness/drv"
	nodeh "verifharness/node"
)

// RunE2E drives the REAL controller.HandlePeerBlock (non-sync) on real nodes of the node harness: node A
// proposes a block from its mempool, certificates are built with real BLS signatures of chosen validators,
// deviated, and handed to node B. Every message B must refuse is offered first (and B's height and state
// must not move); the valid certificate is offered last and must commit. Same op-line format and model as
// the library-level run.
func RunE2E(o *drv.Out) {
	r := o.Rng
	nets := 2
	heights := 3
	if o.Tier == "thorough" {
		nets, heights = 8, 5
	}
	for ni := 0; ni < nets; ni++ {
		nv := []int{4, 5, 7, 9}[r.Intn(4)]
		stakes := make([]uint64, nv)
		for i := range stakes {
			stakes[i] = uint64(1_000_000 * (1 + r.Intn(5)))
		}
		net := nodeh.NewNetwork(o.Seed*1000+int64(ni), nv, stakes, 4)
		a, b := net.NewNode(0), net.NewNode(1)
		for h := 0; h < heights; h++ {
			o.Case(fmt.Sprintf("e2e-%d-%d", ni, h))
			created := a.Height()
			for k := 0; k < 1+r.Intn(3); k++ {
				_ = a.Submit(net.SendTx(net.AcctKeys[k%len(net.AcctKeys)], net.FreshAddr(h*10+k), uint64(1+r.Intn(1000)), 10000, created, fmt.Sprint(h, k)))
			}
			block, results, rc, err := a.Propose()
			if err != nil {
				panic(err)
			}
			vs := a.Committee()
			var total uint64
			powers := make([]uint64, len(vs.ValidatorSet.ValidatorSet))
			for i, m := range vs.ValidatorSet.ValidatorSet {
				powers[i] = m.VotingPower
				total += m.VotingPower
			}
			maj := 2*total/3 + 1
			// signer indices are validator numbers; committee index may differ (sorted by stake)
			order := r.Perm(nv)
			quorum := func(short bool) []int {
				var idxs []int
				var s uint64
				for _, vi := range order {
					_, ci, e := vs.GetValidatorAndIdx(net.ValKeys[vi].PublicKey().Bytes())
					if e != nil {
						continue
					}
					if s >= maj {
						break
					}
					idxs = append(idxs, vi)
					s += powers[ci]
				}
				if short {
					idxs = idxs[:len(idxs)-1]
				}
				return idxs
			}
			type variant struct {
				name    string
				signers []int
				phase   lib.Phase
				post    func(qc *lib.QuorumCertificate)
			}
			// applied BEFORE signing: the signers honestly sign the deviated content. +2/3 of this very committee
			// signed the certificate — for ANOTHER chain / network / height (validators commonly sit on several
			// committees with one key): binding the certificate to this chain is the gate's job
			pre := map[string]func(q *lib.QuorumCertificate){
				"signed-for-other-chain":   func(q *lib.QuorumCertificate) { q.Header.ChainId++ },
				"signed-for-other-network": func(q *lib.QuorumCertificate) { q.Header.NetworkId++ },
				"signed-for-other-height":  func(q *lib.QuorumCertificate) { q.Header.Height++ },
				// identifiers that agree with the node's in the low 32 bits only (ids are uint64 in the view,
				// uint32 in block headers: a narrowing comparison would let these through)
				"signed-for-network-high-bits": func(q *lib.QuorumCertificate) { q.Header.NetworkId += 1 << 32 },
				"signed-for-chain-high-bits":   func(q *lib.QuorumCertificate) { q.Header.ChainId += 1 << 32 },
				"signed-for-chain-bit-16":      func(q *lib.QuorumCertificate) { q.Header.ChainId += 1 << 16 },
			}
			pv := lib.Phase_PRECOMMIT_VOTE
			variants := []variant{
				{"partial", quorum(true), pv, nil},
				{"phase", quorum(false), lib.Phase_PROPOSE_VOTE, nil},
				{"retarget-round", quorum(false), pv, func(q *lib.QuorumCertificate) { q.Header.Round++ }},
				{"retarget-height", quorum(false), pv, func(q *lib.QuorumCertificate) { q.Header.Height++ }},
				{"retarget-chain", quorum(false), pv, func(q *lib.QuorumCertificate) { q.Header.ChainId++ }},
				{"retarget-net", quorum(false), pv, func(q *lib.QuorumCertificate) { q.Header.NetworkId++ }},
				{"retarget-results-hash", quorum(false), pv, func(q *lib.QuorumCertificate) { q.ResultsHash = h32(0x77) }},
				{"retarget-block-hash", quorum(false), pv, func(q *lib.QuorumCertificate) { q.BlockHash = h32(0x78) }},
				{"retarget-proposer", quorum(false), pv, func(q *lib.QuorumCertificate) { q.ProposerKey = net.ValKeys[1].PublicKey().Bytes() }},
				{"forged-all-bits", quorum(true), pv, func(q *lib.QuorumCertificate) {
					for i := 0; i < len(powers); i++ {
						q.Signature.Bitmap[i/8] |= 1 << uint(i%8)
					}
				}},
				{"padding", quorum(true), pv, func(q *lib.QuorumCertificate) {
					for i := len(powers); i < len(q.Signature.Bitmap)*8; i++ {
						q.Signature.Bitmap[i/8] |= 1 << uint(i%8)
					}
				}},
				// as many padding bits as there are non-signers: the raw popcount of the bitmap equals the committee size
				{"padding-popcount", quorum(true), pv, func(q *lib.QuorumCertificate) {
					set := 0
					for i := 0; i < len(powers); i++ {
						if q.Signature.Bitmap[i/8]&(1<<uint(i%8)) != 0 {
							set++
						}
					}
					for i := len(powers); i < len(q.Signature.Bitmap)*8 && set < len(powers); i++ {
						q.Signature.Bitmap[i/8] |= 1 << uint(i%8)
						set++
					}
				}},
				{"bitmap-len", quorum(false), pv, func(q *lib.QuorumCertificate) { q.Signature.Bitmap = append(q.Signature.Bitmap, 0) }},
				{"nil-results", quorum(false), pv, func(q *lib.QuorumCertificate) { q.Results = nil }},
				{"signed-for-other-chain", quorum(false), pv, nil},
				{"signed-for-other-network", quorum(false), pv, nil},
				{"signed-for-other-height", quorum(false), pv, nil},
				{"signed-for-network-high-bits", quorum(false), pv, nil},
				{"signed-for-chain-high-bits", quorum(false), pv, nil},
				{"signed-for-chain-bit-16", quorum(false), pv, nil},
				{"valid", quorum(false), pv, nil}, // last: commits
			}
			for _, v := range variants {
				qc := net.Certify(vs, block, results, v.signers, v.phase, rc, a.Key)
				if f := pre[v.name]; f != nil {
					f(qc)
					qc.Signature = net.Aggregate(vs, qc.SignBytes(), v.signers)
				}
				signedPay := payStr(qc.Header, qc.BlockHash, qc.ResultsHash, qc.ProposerKey)
				var parts []string
				for _, vi := range v.signers {
					parts = append(parts, drv.Hex(net.ValKeys[vi].PublicKey().Bytes())+"@"+signedPay)
				}
				pstr := strings.Join(parts, ";")
				if pstr == "" {
					pstr = "-"
				}
				qc = proto.Clone(qc).(*lib.QuorumCertificate)
				if v.post != nil {
					v.post(qc)
				}
				// describe for the model
				blk := new(lib.Block)
				_ = lib.Unmarshal(block, blk)
				txs := 0
				for _, t := range blk.Transactions {
					txs += len(t)
				}
				bh, _ := new(lib.Block).BytesToBlockHash(block)
				blkD := fmt.Sprintf("1,1,1,1,%d,%d,%s,%s,%d,%d", blk.BlockHeader.NetworkId, blk.BlockHeader.Height, drv.Hex(bh), drv.Hex(blk.BlockHeader.Hash), txs, len(block))
				resD := "nil"
				if qc.Results != nil {
					resD = "1," + drv.Hex(results.Hash())
				}
				var grp, ms []string
				for _, m := range vs.ValidatorSet.ValidatorSet {
					grp = append(grp, drv.Hex(m.PublicKey))
					ms = append(ms, fmt.Sprintf("%s:%d", drv.Hex(m.PublicKey), m.VotingPower))
				}
				sigD := fmt.Sprintf("1|%s|%s|%s", bitsStr(qc.Signature.Bitmap), pstr, strings.Join(grp, ","))
				op := fmt.Sprintf("gate node=%d,%d,%d,%d hdr=%s bh=%s rh=%s pk=%s blk=%s res=%s sig=%s coms=%d=%s",
					b.Height(), nodeh.NetworkId, nodeh.ChainId, b.MaxBlockSize(), viewStr(qc.Header), optHex(qc.BlockHash), optHex(qc.ResultsHash),
					optHex(qc.ProposerKey), blkD, resD, sigD, qc.Header.RootHeight, strings.Join(ms, ","))
				hBefore, dBefore := b.Height(), b.StateDigest()
				e := b.HandlePeerBlock(qc, false)
				verdict := "commit"
				if e != nil {
					verdict = "reject:" + nodeh.ErrCode(e)
				}
				o.Op(op, verdict)
				o.Count("e2e:" + v.name)
				o.Count("e2e-verdict:" + verdict)
				o.Nontrivial(op)
				// oracle (independent of the model)
				if v.name != "valid" {
					if e == nil {
						o.Fail("C02:e2e-deviated-certificate-committed:"+v.name, "HandlePeerBlock committed a deviated certificate", map[string]any{"op": op})
					} else if b.Height() != hBefore || b.StateDigest() != dBefore {
						o.Fail("C02:e2e-rejected-block-changed-state", "a refused peer block moved the node's height or state", map[string]any{"op": op})
					}
				} else {
					if e != nil {
						o.Fail("C02:e2e-valid-certificate-refused", "a correctly certified block was refused: "+nodeh.ErrCode(e), map[string]any{"op": op})
					} else if b.Height() != hBefore+1 || !bytes.Equal(b.BlockHash(hBefore), qc.BlockHash) {
						o.Fail("C02:e2e-commit-not-recorded", "commit verdict but the block is not the recorded block of that height", map[string]any{"op": op})
					}
				}
			}
			// keep A in step: it commits its own block by replay
			qcA := net.Certify(vs, block, results, quorum(false), pv, rc, a.Key)
			if e := a.HandlePeerBlock(qcA, false); e != nil {
				panic(e)
			}
		}
		net.Close()
	}
}
