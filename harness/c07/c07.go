// Package c07 drives property C07 (transaction and block atomicity) on real controllers.
//
// Part 1 — failing transactions leave no trace. Node A proposes from a mempool M whose transactions
// fail at every position and at different points (rejected by the pre-check; failing at the fee
// deduction; failing after the fee deduction at the first transfer; non-send kinds). Node A2, on the
// same prefix, proposes from exactly the transactions A kept. Metamorphic oracle: the two blocks give
// the same state root, transaction root, validator roots, events and full state scan
// (`C07:failed-tx-left-trace`); a replica validates A's block. The mechanism model (Canopy.Atomic, with
// the real send handler) is run on the same transaction list, sizes and balances and must name the
// same included / failed / oversize transactions and the same balances (`apply` lines).
//
// Part 2 — rejected proposals and peer blocks change nothing. A replica is handed proposals and peer
// blocks that are rejected at each stage (stateless checks, certificate checks, last-certificate
// check, a failing / duplicate / oversize transaction after earlier writes, header mismatch after a
// full execution, certificate-result mismatch); after each one its committed state, height, working
// view and working root must be what they were, and the honest block must still validate and commit
// to the proposer's state (`C07:rejected-block-changed-state`).
//
// Op lines: the vocabulary of harness/execdrv (errors canonicalised to `rejected`), plus
//
//	apply allow=<0|1> max=<n> | <k>:<bal> ... | <tx> ; <tx> ...   ->  inc=.. fail=.. over=.. | <k>=<bal> ...
//	   <tx> = s <from> <to> <amount> <fee> <size>   send
//	        | x <from> <fee> <size>                 any kind that deducts its fee and then fails
//	        | p <size>                              any kind the pre-check rejects
//	<node> observe                                  ->  height=<h> state=<digest of the working view>
//	<node> badcert <blk>                            ->  rejected (certificate-level rejection of a peer block)
package c07

import (
	"bytes"
	"encoding/hex"
	"fmt"
	"math"
	"math/rand"
	"slices"
	"strings"

	"github.com/canopy-network/canopy/fsm"
	"github.com/canopy-network/canopy/lib"
	"github.com/canopy-network/canopy/lib/crypto"
	"verifharness/drv"
	"verifharness/execdrv"
	"verifharness/node"
)

const minFee = 10000

// Run is the driver entry point.
func Run(o *drv.Out) {
	execdrv.Property = "C07"
	execdrv.Guard(o, func() { corpusOversize(o) })
	nCases, nHeights := 5, 4
	if o.Tier == "thorough" || o.Search {
		nCases, nHeights = 14, 7
	}
	for ci := 0; ci < nCases; ci++ {
		execdrv.Guard(o, func() { failedTxCase(o, ci, nHeights) })
	}
	execdrv.Guard(o, func() { closeOrderCase(o) })
	execdrv.Guard(o, func() { governanceAfterRejectedProposal(o) })
	indexVariants := 3
	if o.Tier == "thorough" || o.Search {
		indexVariants = 10
	}
	for v := 0; v <= indexVariants; v++ {
		execdrv.Guard(o, func() { indexWritingCase(o, v) })
	}
	for v := 0; v < 3; v++ {
		execdrv.Guard(o, func() { failedEventsCase(o, v) })
	}
	execdrv.Guard(o, func() { slashThenFailCase(o) })
	execdrv.Guard(o, func() { paramCacheCases(o) })
	nRej := 3
	if o.Tier == "thorough" || o.Search {
		nRej = 8
	}
	for ci := 0; ci < nRej; ci++ {
		execdrv.Guard(o, func() { rejectCase(o, ci) })
	}
}

// ---- part 1 ----------------------------------------------------------------------------------

// spec is one generated transaction with its model description.
type spec struct {
	kind  string
	bytes []byte
	model string // model line fragment without the size: "s f t amt fee" | "x f fee" | "p"
}

type world struct {
	net   *node.Network
	rng   *rand.Rand
	keys  []crypto.PrivateKeyI // tracked accounts (model key = index)
	fresh int
}

func (w *world) key(i int) []byte { return node.Addr(w.keys[i]) }

// gen makes the mempool content of one height; fees are distinct so that the execution order (fee
// descending) is the order of the returned slice.
func (w *world) gen(h uint64, n int, bal map[int]uint64) []spec {
	var out []spec
	fee := uint64(minFee + 10*n + 50)
	next := func() uint64 { fee -= 10; return fee }
	nk := len(w.keys)
	for i := 0; i < n; i++ {
		f := w.rng.Intn(nk)
		t := w.rng.Intn(nk)
		for t == f {
			t = w.rng.Intn(nk)
		}
		fe := next()
		switch k := w.rng.Intn(12); {
		case k < 5: // a send that succeeds if the balance allows (often it does)
			amt := uint64(1 + w.rng.Intn(40000))
			out = append(out, spec{"send", w.net.SendTx(w.keys[f], w.key(t), amt, fe, h, ""), fmt.Sprintf("s %d %d %d %d", f, t, amt, fe)})
		case k == 5: // more than the sender can have: fails after the fee deduction
			amt := uint64(1) << 50
			out = append(out, spec{"send-fail-amount", w.net.SendTx(w.keys[f], w.key(t), amt, fe, h, ""), fmt.Sprintf("s %d %d %d %d", f, t, amt, fe)})
		case k == 6: // the whole balance: fee deduction succeeds, the transfer lacks exactly the fee
			amt := bal[f]
			if amt == 0 {
				amt = 7
			}
			out = append(out, spec{"send-fail-after-fee", w.net.SendTx(w.keys[f], w.key(t), amt, fe, h, ""), fmt.Sprintf("s %d %d %d %d", f, t, amt, fe)})
		case k == 7: // fee below the minimum: rejected by the pre-check
			out = append(out, spec{"lowfee", w.net.SendTx(w.keys[f], w.key(t), 5, 3, h, ""), "p"})
			fee += 10
		case k == 8: // bad signature: rejected by the batch verification of the pre-check
			out = append(out, spec{"badsig", node.CorruptSignature(w.net.SendTx(w.keys[f], w.key(t), 5, fe, h, "")), "p"})
		case k == 9: // a stake the account cannot afford: fee deducted, then the handler fails
			w.fresh++
			out = append(out, spec{"stake-insufficient", w.net.StakeTx(w.keys[f], ghostBLS(w.net, w.fresh), w.key(f), 1<<55, fe, h, true), fmt.Sprintf("x %d %d", f, fe)})
		case k == 10: // an order the account cannot afford: fee deducted, then the escrow transfer fails
			out = append(out, spec{"createorder-insufficient", w.net.Tx(w.keys[f], &fsm.MessageCreateOrder{ChainId: node.ChainId, AmountForSale: 1 << 55, RequestedAmount: 1 << 40,
				SellerReceiveAddress: w.key(f), SellersSendAddress: w.key(f)}, fe, h, ""), fmt.Sprintf("x %d %d", f, fe)})
		default: // unstake of something that is not a validator: rejected by the pre-check (no authorized signer)
			out = append(out, spec{"unstake-unknown", w.net.UnstakeTx(w.keys[f], w.key(f), fe, h), "p"})
		}
	}
	return out
}

func ghostBLS(n *node.Network, i int) []byte { return n.GhostBLSPublicKey(i) }

func failedTxCase(o *drv.Out, ci, nHeights int) {
	rng := rand.New(rand.NewSource(o.Rng.Int63()))
	nVal := []int{4, 1, 6}[ci%3]
	small := ci%2 == 1
	opts := node.Options{}
	if small {
		opts.BlockSize = lib.MaxBlockHeaderSize + 6_000 // about 25 sends fit
	}
	nTracked := 8
	// tracked accounts with small, distinct balances so that fee and amount failures occur
	opts.MutateGenesis = func(g *fsm.GenesisState) {
		for i := 0; i < nTracked; i++ {
			g.Accounts[len(g.Accounts)-1-i].Amount = []uint64{5_000, 15_000, 60_000, 25_000, 300_000, 12_000, 1_000_000, 40_000}[i]
		}
	}
	net := node.NewNetwork(o.Seed*9000+int64(ci), nVal, nil, 24, opts)
	defer net.Close()
	o.Case(fmt.Sprintf("failed-tx-%d-v%d-small%v", ci, nVal, small))
	c := execdrv.NewChain(o, net, rng, []int{16, 2, 7})
	c.CanonErrors = true
	w := &world{net: net, rng: rng}
	for i := 0; i < nTracked; i++ {
		w.keys = append(w.keys, net.AcctKeys[len(net.AcctKeys)-1-i])
	}
	A, A2, B := c.NewNode("A", 0), c.NewNode("A2", 0), c.NewNode("B", 1%nVal)
	for hi := 0; hi < nHeights; hi++ {
		h := A.Height()
		bal := map[int]uint64{}
		for i := range w.keys {
			bal[i] = A.Balance(w.key(i))
		}
		specs := w.gen(h, []int{6, 14, 70, 9}[(hi+ci)%4], bal)
		for _, s := range specs {
			if err := A.Submit(s.bytes); err != nil {
				o.Count("submit-rejected:" + node.ErrCode(err))
			}
			o.Count("tx:" + s.kind)
		}
		order := A.MempoolOrder()
		maxSize := A.MaxBlockSize()
		pre := A.StateDigest()
		p, ok := c.Propose(A, nil, "produce")
		if !ok {
			o.Fail("C07:proposer-failed", "ProduceProposal failed", map[string]any{"case": o.CurCase(), "height": h})
			return
		}
		blk := new(lib.Block)
		_ = lib.Unmarshal(p.Block, blk)
		// classify what really happened to each transaction, in execution order
		inBlock := map[string]bool{}
		for _, tx := range blk.Transactions {
			inBlock[string(tx)] = true
		}
		left := map[string]bool{}
		for _, tx := range A.MempoolOrder() {
			left[string(tx)] = true
		}
		byBytes := map[string]spec{}
		for _, s := range specs {
			byBytes[string(s.bytes)] = s
		}
		var inc, fail, over, frags []string
		for i, tx := range order {
			s := byBytes[string(tx)]
			frags = append(frags, fmt.Sprintf("%s %d", s.model, len(tx)))
			switch {
			case inBlock[string(tx)]:
				inc = append(inc, fmt.Sprint(i))
			case left[string(tx)]:
				over = append(over, fmt.Sprint(i))
			default:
				fail = append(fail, fmt.Sprint(i))
				o.Count("failed-at:" + position(i, len(order)))
			}
		}
		if len(over) > 0 {
			o.Count("blocks-with-oversize-remainder")
		}
		// leader flow on A, replica on B
		c.Hold = true
		okA := c.Validate(A, p)
		if okA {
			eventsOfSuccessfulOnly(o, A, h, p, fmt.Sprintf("mempool with %d failing and %d oversize transactions", len(fail), len(over)))
			c.Commit(A, p, false)
		}
		post := A.StateDigest()
		o.Op(fmt.Sprintf("def %d %s %s %s %s", h, pre, p.ID, post, p.Obs), "def")
		c.Release()
		if !okA || !c.Validate(B, p) {
			o.Fail("C07:failed-tx-left-trace", fmt.Sprintf("height %d: the block built from a mempool with failing transactions is rejected (proposer accepts: %v)", h, okA),
				map[string]any{"case": o.CurCase(), "height": h, "block": hex.EncodeToString(p.Block), "failed": fail, "oversize": over})
			return
		}
		c.Commit(B, p, false)
		// the model's answer for the same list
		var bals, balsAfter []string
		for i := range w.keys {
			bals = append(bals, fmt.Sprintf("%d:%d", i, bal[i]))
			balsAfter = append(balsAfter, fmt.Sprintf("%d=%d", i, A.Balance(w.key(i))))
		}
		o.Op(fmt.Sprintf("apply allow=1 max=%d | %s | %s", maxSize, strings.Join(bals, " "), strings.Join(frags, " ; ")),
			fmt.Sprintf("inc=%s fail=%s over=%s | %s", strings.Join(inc, ","), strings.Join(fail, ","), strings.Join(over, ","), strings.Join(balsAfter, " ")))
		// metamorphic: the same block minus everything that did not make it
		for _, tx := range blk.Transactions {
			if err := A2.Submit(tx); err != nil {
				panic(err)
			}
		}
		p2, ok2 := c.Propose(A2, nil, "produce")
		if !ok2 {
			return
		}
		blk2 := new(lib.Block)
		_ = lib.Unmarshal(p2.Block, blk2)
		c.Hold = true
		pre2 := A2.StateDigest()
		ok2 = c.Validate(A2, p2)
		if ok2 {
			c.Commit(A2, p2, false)
		}
		o.Op(fmt.Sprintf("def %d %s %s %s %s", h, pre2, p2.ID, A2.StateDigest(), p2.Obs), "def")
		c.Release()
		same := ok2 && len(blk2.Transactions) == len(blk.Transactions)
		for i := 0; same && i < len(blk.Transactions); i++ {
			same = bytes.Equal(blk.Transactions[i], blk2.Transactions[i])
		}
		h1, h2 := blk.BlockHeader, blk2.BlockHeader
		diff := []string{}
		if !same {
			diff = append(diff, "transaction lists")
		}
		if !bytes.Equal(h1.StateRoot, h2.StateRoot) {
			diff = append(diff, "state root")
		}
		if !bytes.Equal(h1.TransactionRoot, h2.TransactionRoot) {
			diff = append(diff, "transaction root")
		}
		if !bytes.Equal(h1.ValidatorRoot, h2.ValidatorRoot) || !bytes.Equal(h1.NextValidatorRoot, h2.NextValidatorRoot) {
			diff = append(diff, "validator roots")
		}
		if h1.NumTxs != h2.NumTxs || h1.TotalTxs != h2.TotalTxs {
			diff = append(diff, "counters")
		}
		if d := node.DiffDumps(A.StateDump(), A2.StateDump()); len(d) != 0 {
			diff = append(diff, fmt.Sprintf("full state scan (%d keys, first: %s)", len(d), d[0]))
		}
		if strings.Join(A.BlockEvents(h), ",") != strings.Join(A2.BlockEvents(h), ",") {
			diff = append(diff, "events")
		}
		o.Count("metamorphic-compared")
		if len(diff) != 0 {
			sig := "C07:failed-tx-left-trace"
			if len(over) > 0 && len(fail) == 0 {
				sig = "C07:oversize-remainder-left-trace"
			}
			o.Fail(sig, fmt.Sprintf("height %d: block built next to %d failing and %d oversize transactions differs from the block built from its %d transactions alone in: %s", h, len(fail), len(over), len(inc), strings.Join(diff, "; ")),
				map[string]any{"case": o.CurCase(), "height": h, "block_with_failing_neighbours": hex.EncodeToString(p.Block), "block_alone": hex.EncodeToString(p2.Block), "failed_positions": fail, "oversize_positions": over})
			return
		}
		if len(fail) > 0 {
			o.Nontrivial(fmt.Sprintf("%s|%d|%s|%s", o.CurCase(), hi, strings.Join(fail, ","), strings.Join(over, ",")))
		}
		if hi == 0 {
			o.Sample(fmt.Sprintf("%s h=%d executed=%d included=%v failed=%v oversize=%v", o.CurCase(), h, len(order), inc, fail, over))
		}
		// the remainder stays in A's mempool; drop it so that the next height starts from a known list
		if A.MempoolCount() > 0 && !c.Restart(A) {
			return
		}
	}
}

// eventsOfSuccessfulOnly: the events of the block result the proposer's mempool cached with its proposal
// (ApplyBlock over the whole mempool: failing and oversize transactions executed and rolled back) must
// be the events of executing exactly the block's transactions (what Validate computed on the same node).
// Call after c.Propose(A, ...) and a successful c.Validate(A, p).
func eventsOfSuccessfulOnly(o *drv.Out, A *node.Node, h uint64, p *execdrv.Proposal, what string) bool {
	prop, ok1 := A.ProposalEvents()
	val, ok2 := A.CachedResultEvents()
	if !ok1 || !ok2 {
		return true
	}
	o.Count("events-compared")
	if strings.Join(prop, ",") == strings.Join(val, ",") {
		return true
	}
	blk := cloneBlock(p.Block)
	in := map[string]bool{}
	for _, tx := range blk.Transactions {
		in[crypto.HashString(tx)] = true
	}
	var foreign []string
	for _, hx := range prop {
		bz, _ := hex.DecodeString(hx)
		e := new(lib.Event)
		if lib.Unmarshal(bz, e) == nil && e.Reference != "" && !in[e.Reference] && len(e.Reference) == 64 {
			foreign = append(foreign, fmt.Sprintf("%s referring to transaction %s", e.EventType, e.Reference[:16]))
		}
	}
	o.Fail("C07:failed-tx-left-trace:events",
		fmt.Sprintf("height %d, %s: the block result the proposer built next to the failing transactions has the events %v; executing exactly the block's %d transactions gives %v; events of transactions that are not in the block: %v",
			h, what, node.DescribeEvents(prop), len(blk.Transactions), node.DescribeEvents(val), foreign),
		map[string]any{"case": o.CurCase(), "height": h, "block": hex.EncodeToString(p.Block), "proposal_events": prop, "events_of_the_block_alone": val})
	return false
}

// failedEventsCase: scenario "failed-last-tx-emitted-events". A certificate-results transaction of
// the nested chain 2 whose handler EMITS AN EVENT AND THEN FAILS, as the last transaction the
// proposer's mempool executes (the mempool orders certificate results FIRST, so nothing else of that
// mempool may reach ApplyTransaction: the mempool of height 2 holds nothing else that passes the pre-check):
// HandleCommitteeSwaps locks a sell order of the root chain's order book (order-book-lock event), then
//
//	variant 0: HandleCheckpoint rejects a checkpoint height not above the most recent one
//	variant 1: HandleByzantine rejects double-sign evidence that is already indexed
//	variant 2: as 0, but a failing send with a forged signature follows it in the mempool (it never
//	           reaches ApplyTransaction, so the certificate results stay the last executed transaction)
//
//	h1: create-order (sell order on committee 2) + certificate results (nested height 1): checkpoint 100, evidence {validator 0, height 1}
//	h2: the failing certificate results (nested height 2) carrying the lock order, alone (variants 0, 1)
//	    or followed by a forged-signature send (variant 2): the block is empty
//	h3: send + the same lock order in certificate results that succeed (checkpoint 150): control, the
//	    block's events contain the order-book-lock event
//	h4: send only
//
// At every height: the events of the proposer's cached proposal == the events of executing exactly the
// block's transactions == the events of the block the reference node A2 builds from those transactions
// alone; the events of the NEXT block agree too (nothing stayed in the tracker).
func failedEventsCase(o *drv.Out, variant int) {
	o.Case(fmt.Sprintf("failed-last-tx-emitted-events~v%d", variant))
	rng := rand.New(rand.NewSource(59 + int64(variant)))
	const nested = node.ChainId + 1
	net := node.NewNetwork(25+int64(variant), 4, nil, 12, node.Options{MutateGenesis: func(g *fsm.GenesisState) {
		for _, v := range g.Validators {
			v.Committees = []uint64{node.ChainId, nested}
		}
		g.Pools = append(g.Pools, &fsm.Pool{Id: nested, Amount: 1})
	}})
	defer net.Close()
	c := execdrv.NewChain(o, net, rng, []int{16, 2})
	c.CanonErrors = true
	A, A2, B := c.NewNode("A", 0), c.NewNode("A2", 0), c.NewNode("B", 1)
	rewards := func() *lib.RewardRecipients {
		return &lib.RewardRecipients{PaymentPercents: []*lib.PaymentPercents{{Address: net.FreshAddr(1), Percent: 100, ChainId: nested}}}
	}
	evidence := &lib.SlashRecipients{DoubleSigners: []*lib.DoubleSigner{{Id: net.ValKeys[0].PublicKey().Bytes(), Heights: []uint64{1}}}}
	var orderId []byte
	lock := func() *lib.Orders {
		return &lib.Orders{LockOrders: []*lib.LockOrder{{OrderId: orderId, ChainId: nested, BuyerReceiveAddress: net.FreshAddr(71), BuyerSendAddress: net.FreshAddr(72), BuyerChainDeadline: 1000}}}
	}
	signers := []int{0, 1, 2, 3}
	for hi := 0; hi < 4; hi++ {
		h := A.Height()
		txs := [][]byte{net.SendTx(net.AcctKeys[hi], net.FreshAddr(600+hi), 1000, minFee+5000, h, "")}
		wantIncluded, what := 1, "ordinary block"
		if hi == 1 {
			txs, wantIncluded = nil, 0
		}
		switch hi {
		case 0:
			order := net.CreateOrderTx(net.AcctKeys[4], nested, 2_000_000_000, 5, net.FreshAddr(70), minFee+4000, h)
			orderId = node.OrderId(order)
			txs = append(txs, order, net.CertificateResultsTx(A, nested, 1, h-1, 0, signers,
				&lib.CertificateResult{RewardRecipients: rewards(), SlashRecipients: evidence, Checkpoint: &lib.Checkpoint{Height: 100, BlockHash: net.FreshAddr(100)}}, h))
			wantIncluded = 3
		case 1:
			res := &lib.CertificateResult{RewardRecipients: rewards(), Orders: lock()}
			if variant == 1 {
				res.SlashRecipients, what = evidence, "mempool = certificate results that lock a sell order (order-book-lock event) and then fail on double-sign evidence already indexed"
			} else {
				res.Checkpoint, what = &lib.Checkpoint{Height: 50, BlockHash: net.FreshAddr(50)}, "mempool = certificate results that lock a sell order (order-book-lock event) and then fail on a checkpoint height not above the most recent one"
			}
			txs = append(txs, net.CertificateResultsTx(A, nested, 2, h-1, 0, signers, res, h))
			if variant == 2 {
				txs = append(txs, node.CorruptSignature(net.SendTx(net.AcctKeys[5], net.FreshAddr(650), 5, minFee, h, "")))
				what += ", then a send with a forged signature"
			}
		case 2:
			txs = append(txs, net.CertificateResultsTx(A, nested, 3, h-1, 0, signers,
				&lib.CertificateResult{RewardRecipients: rewards(), Orders: lock(), Checkpoint: &lib.Checkpoint{Height: 150, BlockHash: net.FreshAddr(150)}}, h))
			wantIncluded, what = 2, "control: the same lock order in certificate results that succeed"
		}
		for _, tx := range txs {
			if err := A.Submit(tx); err != nil {
				panic(err)
			}
		}
		pre := A.StateDigest()
		p, ok := c.Propose(A, nil, "produce")
		if !ok {
			return
		}
		blk := cloneBlock(p.Block)
		c.Hold = true
		okA := c.Validate(A, p)
		evOK := !okA || eventsOfSuccessfulOnly(o, A, h, p, what)
		if okA {
			c.Commit(A, p, false)
		}
		o.Op(fmt.Sprintf("def %d %s %s %s %s", h, pre, p.ID, A.StateDigest(), p.Obs), "def")
		c.Release()
		if !okA || !c.Validate(B, p) {
			o.Fail("C07:failed-tx-left-trace", fmt.Sprintf("height %d (%s): the block is rejected (proposer accepts: %v)", h, what, okA), map[string]any{"case": o.CurCase(), "height": h, "block": hex.EncodeToString(p.Block)})
			return
		}
		c.Commit(B, p, false)
		// the reference: the block A2 builds from the block's transactions alone
		for _, tx := range blk.Transactions {
			if err := A2.Submit(tx); err != nil {
				panic(err)
			}
		}
		p2, ok2 := c.Propose(A2, nil, "produce")
		if !ok2 {
			return
		}
		c.Hold = true
		pre2 := A2.StateDigest()
		if ok2 = c.Validate(A2, p2); ok2 {
			c.Commit(A2, p2, false)
		}
		o.Op(fmt.Sprintf("def %d %s %s %s %s", h, pre2, p2.ID, A2.StateDigest(), p2.Obs), "def")
		c.Release()
		evA, evA2, evB := A.BlockEvents(h), A2.BlockEvents(h), B.BlockEvents(h)
		o.Count("events-compared")
		if !ok2 || strings.Join(evA, ",") != strings.Join(evA2, ",") || strings.Join(evA, ",") != strings.Join(evB, ",") {
			o.Fail("C07:failed-tx-left-trace:events",
				fmt.Sprintf("height %d (%s): the stored block events are %v on the proposer, %v on the replica, %v for the block built from its %d transactions alone (accepted: %v)", h, what, node.DescribeEvents(evA), node.DescribeEvents(evB), node.DescribeEvents(evA2), len(blk.Transactions), ok2),
				map[string]any{"case": o.CurCase(), "height": h, "block": hex.EncodeToString(p.Block)})
			return
		}
		if d := node.DiffDumps(A.StateDump(), A2.StateDump()); len(d) != 0 {
			o.Fail("C07:failed-tx-left-trace", fmt.Sprintf("height %d (%s): full state scan differs from the block built from its transactions alone (%d keys, first: %s)", h, what, len(d), d[0]), map[string]any{"case": o.CurCase(), "height": h, "block": hex.EncodeToString(p.Block)})
			return
		}
		if !evOK {
			return
		}
		hasLock := false
		for _, d := range node.DescribeEvents(evA) {
			hasLock = hasLock || strings.HasPrefix(d, string(lib.EventTypeOrderBookLock))
		}
		if len(blk.Transactions) != wantIncluded || hasLock != (hi == 2) {
			o.Fail("C07:scenario-expectation-differs:failed-last-tx-emitted-events",
				fmt.Sprintf("height %d (%s): expected %d transactions included and order-book-lock event present=%v; the block has %d of %d, events %v", h, what, wantIncluded, hi == 2, len(blk.Transactions), len(txs), node.DescribeEvents(evA)),
				map[string]any{"case": o.CurCase(), "height": h, "block": hex.EncodeToString(p.Block)})
			return
		}
		o.Nontrivial(fmt.Sprintf("%s|%d", o.CurCase(), hi))
	}
	o.Sample(o.CurCase() + ": certificate results that emit an order-book-lock event and then fail as the last executed transaction leave no event in the proposal, the block or the next block; the same lock order in succeeding certificate results does")
}

// governanceAfterRejectedProposal: scenario "governance-block-after-rejected-proposal". A proposal
// rejected at any stage leaves the node unchanged, including the governance-proposal mode of its two
// state machines: ValidateProposal puts both into the strict mode of proposal validation (APPROVE_LIST /
// REJECT_ALL) and must put both back to ACCEPT_ALL however it returns, because a block that +2/3
// committed is executed in ACCEPT_ALL (HandlePeerBlock -> CommitCertificate). One height per stateless
// rejection stage (nil block, undecodable block, certificate/block height mismatch, block-hash
// mismatch, nil results, wrong network id): the proposer builds a block with an approved changeParameter
// transaction; the approve list is emptied (the replica's local list does not name it); the replica
// rejects a malformed proposal for that height, its modes are compared, and then it handles the
// committed block as a peer block, which must commit to the proposer's state.
func governanceAfterRejectedProposal(o *drv.Out) {
	o.Case("governance-block-after-rejected-proposal")
	rng := rand.New(rand.NewSource(64))
	net := execdrv.ParamNetwork(90, false)
	defer net.Close()
	c := execdrv.NewChain(o, net, rng, []int{16, 2})
	c.CanonErrors = true
	A, B := c.NewNode("A", 0), c.NewNode("B", 1)
	stages := []string{"nil-block", "undecodable-block", "certificate-block-height-mismatch", "block-hash-mismatch", "nil-results", "wrong-network-id"}
	for hi, stage := range stages {
		h := A.Height()
		gov := net.ChangeParamTx(net.AcctKeys[1], fsm.ParamSpaceFee, fsm.ParamSendFee, uint64(10000+hi+1), h, h+5, 20000, h)
		net.ApproveProposals(gov)
		txs := []node.MixTx{{Kind: "send", Bytes: net.SendTx(net.AcctKeys[0], net.FreshAddr(400+hi), 1000, 30000, h, ""), Expect: true},
			{Kind: "change-parameter", Bytes: gov, Expect: true}, {Kind: "send", Bytes: net.SendTx(net.AcctKeys[2], net.FreshAddr(450+hi), 1000, 15000, h, ""), Expect: true}}
		pre := A.StateDigest()
		p, ok := c.Propose(A, txs, "produce")
		if !ok {
			return
		}
		c.Hold = true
		okA := c.Validate(A, p)
		if okA {
			c.Commit(A, p, false)
		}
		post := A.StateDigest()
		o.Op(fmt.Sprintf("def %d %s %s %s %s", h, pre, p.ID, post, p.Obs), "def")
		c.Release()
		if !okA || p.NTx != 3 {
			o.Fail("C07:scenario-expectation-differs:governance-block-after-rejected-proposal", fmt.Sprintf("height %d: the proposer accepts its block: %v; %d of 3 transactions included (the approved changeParameter among them)", h, okA, p.NTx), map[string]any{"case": o.CurCase(), "height": h, "block": hex.EncodeToString(p.Block)})
			return
		}
		net.ApproveProposals() // the replica's local list does not name the proposal
		bad := &lib.QuorumCertificate{Header: p.PropQC.Header, Results: p.PropQC.Results, ResultsHash: p.PropQC.ResultsHash, Block: p.PropQC.Block,
			BlockHash: p.PropQC.BlockHash, ProposerKey: p.PropQC.ProposerKey, Signature: p.PropQC.Signature}
		switch stage {
		case "nil-block":
			bad.Block = nil
		case "undecodable-block":
			bad.Block = []byte{0xff, 0xff, 0xff}
		case "certificate-block-height-mismatch":
			v := p.PropQC.Header
			bad.Header = &lib.View{NetworkId: v.NetworkId, ChainId: v.ChainId, Height: v.Height + 1, RootHeight: v.RootHeight, Round: v.Round, Phase: v.Phase}
		case "block-hash-mismatch":
			bad.BlockHash = append([]byte{}, p.PropQC.BlockHash...)
			bad.BlockHash[0] ^= 1
		case "nil-results":
			bad.Results = nil
		case "wrong-network-id":
			blk := cloneBlock(p.Block)
			blk.BlockHeader.NetworkId++
			bad.Block, _ = lib.Marshal(blk)
		}
		before := observe(c, B)
		_, err := B.Validate(bad, p.RC)
		o.Count("reject-stage:validate:stateless:" + stage)
		if err == nil {
			o.Fail("C07:invalid-block-accepted", fmt.Sprintf("height %d: a proposal with %s validates", h, stage), map[string]any{"case": o.CurCase(), "stage": stage})
			return
		}
		after := observe(c, B)
		drift := after != before
		if drift {
			o.Fail("C07:rejected-block-changed-state:proposal-vote-config",
				fmt.Sprintf("height %d: a proposal rejected at the stateless stage (%s: %s) left the replica at height %d state %s with governance-proposal mode %q; before: height %d state %s mode %q", h, stage, node.ErrCode(err), after.height, after.state, after.cfg, before.height, before.state, before.cfg),
				map[string]any{"case": o.CurCase(), "height": h, "stage": stage, "block": hex.EncodeToString(p.Block)})
		}
		// the committed block arrives as a peer block (the replica never validated it: commit by replay)
		got := c.Commit(B, p, false)
		if want := fmt.Sprintf("ok state=%s obs=%s", post, p.Obs); got != want {
			o.Fail("C07:rejected-block-changed-state:proposal-vote-config:valid-block-refused",
				fmt.Sprintf("height %d: after the proposal rejected at the stateless stage (%s) the replica handles the committed block (3 transactions, one of them a changeParameter its local approve list does not name) as %q; expected %q (governance-proposal mode after the rejection: %q)", h, stage, got, want, after.cfg),
				map[string]any{"case": o.CurCase(), "height": h, "stage": stage, "block": hex.EncodeToString(p.Block), "governance_tx": hex.EncodeToString(gov)})
			return
		}
		if drift {
			return
		}
		o.Nontrivial(fmt.Sprintf("%s|%s", o.CurCase(), stage))
	}
	if !execdrv.SameDump(A.StateDump(), B.StateDump()) {
		o.Fail("C07:rejected-block-changed-state", "full state scans differ after the rejected proposals", map[string]any{"case": o.CurCase()})
		return
	}
	o.Sample("governance-block-after-rejected-proposal: six stateless rejection stages, each followed by a committed block with a changeParameter the replica's approve list does not name: modes unchanged, block committed")
}

// closeOrderCase: scenario "close-order-instruction-all-or-nothing". The instructions inside the
// certificate results of a nested chain (lock / reset / close order) are executed by HandleCommitteeSwaps,
// which only LOGS an instruction's error: the surrounding certificate-results transaction succeeds and
// its nested store is flushed. "A failed operation leaves no trace" for such an instruction: a close
// order either does all of (escrow pool -AmountForSale, buyer +AmountForSale, order deleted,
// order-book-swap event) or none of it.
//
// Sell orders of committee 2 with AmountForSale != RequestedAmount in both directions (3e9 for 1e9,
// 2e9 for 5e9), locked to one buyer receive account by certificate results. The genesis gives that
// buyer account 2^64-1 minus everything else (total supply exactly 2^64-1); the block rewards minted
// afterwards (1e15 per block) let the proposer top it up to the integer edges around
// MaxUint64-AmountForSale and MaxUint64-RequestedAmount (-1, exact, +1). At each edge one order is
// closed by certificate results and the four effects are compared.
func closeOrderCase(o *drv.Out) {
	o.Case("close-order-instruction-all-or-nothing")
	rng := rand.New(rand.NewSource(62))
	const nested = node.ChainId + 1
	escrow := uint64(nested) + uint64(fsm.EscrowPoolAddend)
	var buyer crypto.PrivateKeyI
	net := node.NewNetwork(28, 4, nil, 6, node.Options{AccountBalance: 50_000_000_000, TokensPerBlock: 1_000_000_000_000_000, MutateGenesis: func(g *fsm.GenesisState) {
		total := uint64(0)
		for _, v := range g.Validators {
			v.Committees = []uint64{node.ChainId, nested}
			total += v.StakedAmount
		}
		g.Validators[0].Compound = false // the proposer's rewards go to its account
		g.Pools = append(g.Pools, &fsm.Pool{Id: nested, Amount: 1})
		for _, p := range g.Pools {
			total += p.Amount
		}
		// the last funded account is the buyer: everything the others do not hold
		for _, a := range g.Accounts[:len(g.Accounts)-1] {
			total += a.Amount
		}
		g.Accounts[len(g.Accounts)-1].Amount = math.MaxUint64 - total
	}})
	defer net.Close()
	buyer = net.AcctKeys[len(net.AcctKeys)-1]
	buyerAddr := node.Addr(buyer)
	c := execdrv.NewChain(o, net, rng, []int{16, 2})
	c.CanonErrors = true
	A, B := c.NewNode("A", 0), c.NewNode("B", 1)
	signers := []int{0, 1, 2, 3}
	nestedHeight := uint64(0)
	certTx := func(h uint64, orders *lib.Orders) []byte {
		nestedHeight++
		return net.CertificateResultsTx(A, nested, nestedHeight, h-1, 0, signers, &lib.CertificateResult{
			RewardRecipients: &lib.RewardRecipients{PaymentPercents: []*lib.PaymentPercents{{Address: net.FreshAddr(1), Percent: 100, ChainId: nested}}}, Orders: orders}, h)
	}
	// one block on A and B; false when it does not go through
	block := func(what string, txs ...[]byte) (uint64, bool) {
		h := A.Height()
		for _, tx := range txs {
			if err := A.Submit(tx); err != nil {
				panic(err)
			}
		}
		pre := A.StateDigest()
		p, ok := c.Propose(A, nil, "produce")
		if !ok {
			return h, false
		}
		c.Hold = true
		okA := c.Validate(A, p)
		if okA {
			c.Commit(A, p, false)
		}
		o.Op(fmt.Sprintf("def %d %s %s %s %s", h, pre, p.ID, A.StateDigest(), p.Obs), "def")
		c.Release()
		if !okA || !c.Validate(B, p) || p.NTx != len(txs) {
			o.Fail("C07:scenario-expectation-differs:close-order-instruction-all-or-nothing", fmt.Sprintf("height %d (%s): block accepted by the proposer: %v, %d of %d transactions included", h, what, okA, p.NTx, len(txs)), map[string]any{"case": o.CurCase(), "height": h, "block": hex.EncodeToString(p.Block)})
			return h, false
		}
		c.Commit(B, p, false)
		return h, true
	}
	type spec struct{ sale, requested uint64 }
	dirs := []spec{{3_000_000_000, 1_000_000_000}, {2_000_000_000, 5_000_000_000}}
	// the edges of the buyer balance, ascending per direction, with the order direction closed there
	type edge struct {
		dir   int
		below uint64 // buyer balance = MaxUint64 - below + plus - minus
		plus  uint64
		minus uint64
	}
	var edges []edge
	for d, sp := range dirs {
		lo, hi := sp.sale, sp.requested
		edges = append(edges,
			edge{d, lo, 0, 1}, edge{d, lo, 0, 0}, edge{d, lo, 1, 0},
			edge{d, hi, 0, 1}, edge{d, hi, 0, 0}, edge{d, hi, 1, 0})
	}
	// h1: the sell orders (one per edge), h2: all of them locked to the buyer account
	var ids [][]byte
	var creates [][]byte
	for i, e := range edges {
		tx := net.CreateOrderTx(net.AcctKeys[i%4], nested, dirs[e.dir].sale, dirs[e.dir].requested, net.FreshAddr(800+i), minFee+uint64(100*(20-i)), A.Height())
		creates, ids = append(creates, tx), append(ids, node.OrderId(tx))
	}
	if _, ok := block("create the sell orders", creates...); !ok {
		return
	}
	var locks []*lib.LockOrder
	for _, id := range ids {
		locks = append(locks, &lib.LockOrder{OrderId: id, ChainId: nested, BuyerReceiveAddress: buyerAddr, BuyerSendAddress: net.FreshAddr(72), BuyerChainDeadline: 100000})
	}
	if _, ok := block("lock the sell orders to the buyer account", certTx(A.Height(), &lib.Orders{LockOrders: locks})); !ok {
		return
	}
	for i, e := range edges {
		sp := dirs[e.dir]
		target := math.MaxUint64 - e.below + e.plus - e.minus
		// bring the buyer account to the edge: the proposer (whose account receives the minted rewards) tops it up, or the buyer sends the surplus away
		for tries := 0; A.Balance(buyerAddr) != target && tries < 3; tries++ {
			cur, h := A.Balance(buyerAddr), A.Height()
			var tx []byte
			if cur < target {
				tx = net.SendTx(net.ValKeys[0], buyerAddr, target-cur, minFee, h, "")
			} else {
				tx = net.SendTx(buyer, net.FreshAddr(880+i), cur-target-minFee, minFee, h, "")
			}
			if _, ok := block(fmt.Sprintf("move the buyer balance from %d to the edge %d; the proposer's account holds %d", cur, target, A.Balance(node.Addr(net.ValKeys[0]))), tx); !ok {
				return
			}
		}
		where := fmt.Sprintf("order %d for %d, buyer receive balance MaxUint64-%d+%d-%d", sp.sale, sp.requested, e.below, e.plus, e.minus)
		if A.Balance(buyerAddr) != target {
			o.Fail("C07:scenario-expectation-differs:close-order-instruction-all-or-nothing", fmt.Sprintf("%s: the buyer balance is %d, the edge %d was not reached", where, A.Balance(buyerAddr), target), map[string]any{"case": o.CurCase()})
			return
		}
		escrow0, buyer0, order0 := A.PoolAmount(escrow), A.Balance(buyerAddr), A.Order(nested, ids[i])
		h, ok := block("close order by certificate results: "+where, certTx(A.Height(), &lib.Orders{CloseOrders: [][]byte{ids[i]}}))
		if !ok {
			return
		}
		escrow1, buyer1, order1 := A.PoolAmount(escrow), A.Balance(buyerAddr), A.Order(nested, ids[i])
		swapEvent := false
		for _, d := range node.DescribeEvents(A.BlockEvents(h)) {
			swapEvent = swapEvent || strings.HasPrefix(d, string(lib.EventTypeOrderBookSwap))
		}
		effects := []bool{escrow0-escrow1 == sp.sale, buyer1-buyer0 == sp.sale, order0 != nil && order1 == nil, swapEvent}
		none := escrow1 == escrow0 && buyer1 == buyer0 && order1 != nil && !swapEvent
		all := effects[0] && effects[1] && effects[2] && effects[3]
		o.Count("close-instructions-compared")
		desc := fmt.Sprintf("escrow pool %d -> %d (AmountForSale %d), buyer %d -> %d, order on the book before/after: %v/%v, order-book-swap event: %v", escrow0, escrow1, sp.sale, buyer0, buyer1, order0 != nil, order1 != nil, swapEvent)
		if !all && !none {
			o.Fail("C07:failed-instruction-left-trace:close-order",
				fmt.Sprintf("height %d, %s: the close-order instruction of a successful certificate-results transaction is partially executed: %s", h, where, desc),
				map[string]any{"case": o.CurCase(), "height": h, "order_id": hex.EncodeToString(ids[i]), "amount_for_sale": sp.sale, "requested_amount": sp.requested, "buyer_balance_before": buyer0,
					"escrow_before": escrow0, "escrow_after": escrow1, "buyer_balance_after": buyer1, "order_deleted": order1 == nil, "swap_event": swapEvent})
			return
		}
		if expect := target <= math.MaxUint64-sp.sale; all != expect { // the transfer fits the buyer account or it does not
			o.Fail("C07:scenario-expectation-differs:close-order-instruction-all-or-nothing", fmt.Sprintf("height %d, %s: close executed: %v, expected %v (%s)", h, where, all, expect, desc), map[string]any{"case": o.CurCase(), "height": h})
			return
		}
		if d := node.DiffDumps(A.StateDump(), B.StateDump()); len(d) != 0 {
			o.Fail("C07:failed-instruction-left-trace:close-order", fmt.Sprintf("height %d, %s: proposer's and replica's state differ (%d keys, first %s)", h, where, len(d), d[0]), map[string]any{"case": o.CurCase(), "height": h})
			return
		}
		o.Count(fmt.Sprintf("close-order-edge:executed=%v", all))
		o.Nontrivial(fmt.Sprintf("%s|%d", o.CurCase(), i))
	}
	o.Sample(fmt.Sprintf("close-order-instruction-all-or-nothing: %d close instructions at the buyer-balance edges MaxUint64-AmountForSale / MaxUint64-RequestedAmount (-1, 0, +1), both order directions: each all-or-nothing", len(edges)))
}

// indexWritingCase: transactions whose handlers write to the INDEXER (the property names state,
// events, indexes and in-memory trackers): certificate results of a nested chain carrying a
// checkpoint and double-sign evidence (HandleCheckpoint -> IndexCheckpoint, HandleDoubleSigners ->
// IndexDoubleSigner) and the governance change cons.resetCommittee (DeleteCheckpointsForChain).
// After every block the index content reachable through the public read API (all checkpoints and the
// most recent one per chain, every indexed double signer) on the node that executed the block through
// ApplyTransactions (per-transaction nested stores) must equal the content a plain reference reaches
// by running the handlers of exactly the block's transactions, in order, directly on an un-nested
// working state machine of a node with the same prefix.
//
//	h2: certificate results of chain 2 (nested height 1): checkpoint (100, hash), evidence {validator 0, height 1}
//	h3: certificate results (nested height 2): checkpoint (200, hash'); a second certificate (nested
//	    height 3) replaying the SAME evidence -> must fail and not be in the block
//	h4: changeParameter cons.resetCommittee = 2 -> the checkpoints of chain 2 are gone
//
// variant > 0: the same comparison on generated blocks: every height carries 1-3 index-writing
// transactions drawn from {checkpoint (fresh or stale height), evidence (fresh or replayed), checkpoint
// and evidence, resetCommittee}; no expectation on which of them succeed.
func indexWritingCase(o *drv.Out, variant int) {
	name := "index-writing-transactions"
	if variant > 0 {
		name = fmt.Sprintf("index-writing-transactions~r%d", variant)
	}
	o.Case(name)
	rng := rand.New(rand.NewSource(57 + int64(variant)*7919 + o.Seed*104729))
	const nested = node.ChainId + 1
	net := node.NewNetwork(23, 4, nil, 12, node.Options{ProposalVoteWindow: true, MutateGenesis: func(g *fsm.GenesisState) {
		for _, v := range g.Validators {
			v.Committees = []uint64{node.ChainId, nested}
		}
		g.Pools = append(g.Pools, &fsm.Pool{Id: nested, Amount: 1})
	}})
	defer net.Close()
	c := execdrv.NewChain(o, net, rng, []int{16, 2})
	c.CanonErrors = true
	A, B, Ref := c.NewNode("A", 0), c.NewNode("B", 1), c.NewNode("Ref", -1)
	rewards := func() *lib.RewardRecipients {
		return &lib.RewardRecipients{PaymentPercents: []*lib.PaymentPercents{{Address: net.FreshAddr(1), Percent: 100, ChainId: nested}}}
	}
	evidence := &lib.SlashRecipients{DoubleSigners: []*lib.DoubleSigner{{Id: net.ValKeys[0].PublicKey().Bytes(), Heights: []uint64{1}}}}
	probeHeights := []uint64{99, 101}
	cp := func(height uint64) *lib.Checkpoint {
		if !slices.Contains(probeHeights, height) {
			probeHeights = append(probeHeights, height)
		}
		return &lib.Checkpoint{Height: height, BlockHash: net.FreshAddr(int(height))}
	}
	var valAddrs [][]byte
	for _, k := range net.ValKeys {
		valAddrs = append(valAddrs, k.PublicKey().Address().Bytes())
	}
	// point reads see the pending writes of the un-nested reference too (its iterators do not)
	points := func(nd *node.Node) []string {
		return nd.IndexPoints([]uint64{node.ChainId, nested}, probeHeights, valAddrs, []uint64{1, 2, 3, 4, 5, 6, 7, 8})
	}
	nestedHeight, nextCp, usedEvidence := uint64(0), uint64(100), [][2]int{}
	generated := func(h uint64) (txs [][]byte) {
		for k := 1 + rng.Intn(3); k > 0; k-- {
			res := &lib.CertificateResult{RewardRecipients: rewards()}
			action := rng.Intn(6)
			if action == 5 && h > 2 {
				gov := net.ChangeParamTx(net.AcctKeys[1+rng.Intn(3)], fsm.ParamSpaceCons, fsm.ParamResetCommittee, nested, h, h+5, minFee, h)
				net.ApproveProposals(gov)
				txs = append(txs, gov)
				continue
			}
			if action == 0 || action == 2 || action == 5 { // fresh checkpoint
				res.Checkpoint = cp(nextCp)
				nextCp += uint64(1 + rng.Intn(100))
			}
			if action == 1 { // stale or repeated checkpoint height
				res.Checkpoint = cp(nextCp - uint64(1+rng.Intn(100)))
			}
			if action == 2 || action == 3 { // fresh evidence
				ev := [2]int{rng.Intn(len(net.ValKeys)), 1 + rng.Intn(int(h)-1)}
				usedEvidence = append(usedEvidence, ev)
				res.SlashRecipients = &lib.SlashRecipients{DoubleSigners: []*lib.DoubleSigner{{Id: net.ValKeys[ev[0]].PublicKey().Bytes(), Heights: []uint64{uint64(ev[1])}}}}
			}
			if action == 4 && len(usedEvidence) > 0 { // replayed evidence
				ev := usedEvidence[rng.Intn(len(usedEvidence))]
				res.SlashRecipients = &lib.SlashRecipients{DoubleSigners: []*lib.DoubleSigner{{Id: net.ValKeys[ev[0]].PublicKey().Bytes(), Heights: []uint64{uint64(ev[1])}}}}
			}
			nestedHeight++
			txs = append(txs, net.CertificateResultsTx(A, nested, nestedHeight, h-1, 0, []int{0, 1, 2, 3}, res, h))
		}
		return
	}
	heights := 4
	if variant > 0 {
		heights = 6
	}
	for hi := 0; hi < heights; hi++ {
		h := A.Height()
		txs := [][]byte{net.SendTx(net.AcctKeys[hi], net.FreshAddr(500+hi), 1000, minFee, h, "")}
		wantIncluded, wantDropped := 1, 0
		if variant > 0 && hi > 0 {
			txs = append(txs, generated(h)...)
		}
		switch hi + 100*variant {
		case 1:
			txs = append(txs, net.CertificateResultsTx(A, nested, 1, h-1, 0, []int{0, 1, 2, 3},
				&lib.CertificateResult{RewardRecipients: rewards(), SlashRecipients: evidence, Checkpoint: cp(100)}, h))
			wantIncluded = 2
		case 2:
			txs = append(txs, net.CertificateResultsTx(A, nested, 2, h-1, 0, []int{0, 1, 2, 3},
				&lib.CertificateResult{RewardRecipients: rewards(), Checkpoint: cp(200)}, h))
			txs = append(txs, net.CertificateResultsTx(A, nested, 3, h-1, 0, []int{0, 1, 2, 3},
				&lib.CertificateResult{RewardRecipients: rewards(), SlashRecipients: evidence}, h))
			wantIncluded, wantDropped = 2, 1
		case 3:
			gov := net.ChangeParamTx(net.AcctKeys[1], fsm.ParamSpaceCons, fsm.ParamResetCommittee, nested, h, h+5, minFee, h)
			net.ApproveProposals(gov)
			txs = append(txs, gov)
			wantIncluded = 2
		}
		for _, tx := range txs {
			if err := A.Submit(tx); err != nil {
				panic(err)
			}
		}
		pre := A.StateDigest()
		p, ok := c.Propose(A, nil, "produce")
		if !ok {
			return
		}
		blk := cloneBlock(p.Block)
		// the plain reference: handlers of exactly the block's transactions on an un-nested working state
		var refIndex []string
		failedAt, rerr := Ref.ApplyUnnested(blk.Transactions, func() { refIndex = points(Ref) })
		c.Hold = true
		okA := c.Validate(A, p)
		if okA {
			eventsOfSuccessfulOnly(o, A, h, p, "index-writing transactions")
			c.Commit(A, p, false)
		}
		o.Op(fmt.Sprintf("def %d %s %s %s %s", h, pre, p.ID, A.StateDigest(), p.Obs), "def")
		c.Release()
		if !okA {
			o.Fail("C07:failed-tx-left-trace", fmt.Sprintf("height %d: the proposer rejects its own block", h), map[string]any{"case": o.CurCase(), "block": hex.EncodeToString(p.Block)})
			return
		}
		okB := c.Validate(B, p)
		if okB {
			c.Commit(B, p, false)
		}
		c.Commit(Ref, p, false)
		gotIndex, listed := points(A), A.IndexDump(node.ChainId, nested)
		o.Count("index-compared")
		var diff []string
		if rerr != nil {
			diff = append(diff, fmt.Sprintf("the plain reference rejects transaction %d of the block (%s) which the block execution accepted", failedAt, node.ErrCode(rerr)))
		} else if strings.Join(gotIndex, "\n") != strings.Join(refIndex, "\n") {
			diff = append(diff, fmt.Sprintf("index after the block: %v; index after the handlers of its %d transactions on an un-nested store: %v", gotIndex, len(blk.Transactions), refIndex))
		}
		if bIndex := points(B); okB && strings.Join(bIndex, "\n") != strings.Join(gotIndex, "\n") {
			diff = append(diff, fmt.Sprintf("proposer's and replica's index differ: %v vs %v", gotIndex, bIndex))
		}
		// the committed index as its iterators list it (all checkpoints, all double signers) is the same content
		var listedCore []string
		for _, l := range listed {
			if !strings.HasPrefix(l, "most-recent-checkpoint") {
				listedCore = append(listedCore, l)
			}
		}
		if strings.Join(listedCore, "\n") != strings.Join(gotIndex, "\n") {
			diff = append(diff, fmt.Sprintf("committed index by point reads %v, by iteration %v", gotIndex, listedCore))
		}
		if len(diff) != 0 {
			o.Fail("C07:successful-tx-partially-applied:index",
				fmt.Sprintf("height %d: the index writes of the block's successful transactions are not what their sequential application gives: %s", h, strings.Join(diff, "; ")),
				map[string]any{"case": o.CurCase(), "height": h, "block": hex.EncodeToString(p.Block), "index_after_block": gotIndex, "index_listed_after_block": listed, "index_of_plain_reference": refIndex})
			return
		}
		if variant > 0 {
			o.Count(fmt.Sprintf("generated-index-block:included=%d/dropped=%d", len(blk.Transactions)-1, len(txs)-len(blk.Transactions)))
			if len(gotIndex) != 0 {
				o.Nontrivial(fmt.Sprintf("%s|%d", o.CurCase(), hi))
			}
			continue
		}
		if len(blk.Transactions) != wantIncluded || len(txs)-len(blk.Transactions) != wantDropped || !okB {
			o.Fail("C07:scenario-expectation-differs:index-writing-transactions",
				fmt.Sprintf("height %d: expected %d transactions included and %d dropped (replayed evidence), the block has %d of %d; replica accepts: %v", h, wantIncluded, wantDropped, len(blk.Transactions), len(txs), okB),
				map[string]any{"case": o.CurCase(), "height": h, "block": hex.EncodeToString(p.Block), "index_after_block": gotIndex})
			return
		}
		o.Count(fmt.Sprintf("index-entries-after-h%d:%d", h, len(gotIndex)))
		o.Nontrivial(fmt.Sprintf("%s|%d", o.CurCase(), hi))
	}
	o.Sample("index-writing-transactions: checkpoints and double-signer index after each block == handlers of its transactions on an un-nested store; replayed evidence rejected; resetCommittee prunes the checkpoints")
}

// slashThenFailCase: a transaction that changes the in-memory slash tracker and THEN fails.
//
// Root chain with protocol version 2 (committee-scoped slashing, per-block slash tracker), four
// validators staked for committees 1 and 2, non-sign slash 10 %, per-block cap 15 %. An earlier block
// carries double-sign evidence against validator 0 (so that evidence is indexed). The block at
// height 5 (end of a non-sign window) is proposed from, in this order:
//
//	a1      certificateResults of chain 2 (nested height 2) that validator 3 did not sign
//	        -> its non-sign counter for chain 2 is 1 > MaxNonSign (0 here); nothing is slashed yet
//	tx1     certificateResults (nested height 3) with the STALE evidence: the window settlement slashes
//	        validator 3 (tracker entry, stake, pause), then HandleDoubleSigners rejects -> tx1 FAILS
//	tx2     the same certificate without the evidence: succeeds and settles the window for real
//
// The block must equal the block built from a1, tx2 alone: validator 3 slashed 10 %, still a
// member of committee 2. If tx1's tracker entry survives its failure, tx2 slashes only the 5 % left
// under the cap and ejects the validator from the committee.
func slashThenFailCase(o *drv.Out) {
	o.Case("failing-after-slash-certificate-results")
	rng := rand.New(rand.NewSource(48))
	const nested = node.ChainId + 1
	opts := node.Options{MutateGenesis: func(g *fsm.GenesisState) {
		g.Params.Consensus.ProtocolVersion = fsm.NewProtocolVersion(0, 2)
		g.Params.Validator.NonSignSlashPercentage = 10
		g.Params.Validator.MaxNonSign = 0 // one missed certificate in a window is slashed at its end
		for _, v := range g.Validators {
			v.Committees = []uint64{node.ChainId, nested}
		}
		g.Pools = append(g.Pools, &fsm.Pool{Id: nested, Amount: 1})
	}}
	net := node.NewNetwork(21, 4, nil, 12, opts)
	defer net.Close()
	c := execdrv.NewChain(o, net, rng, []int{16, 2})
	c.CanonErrors = true
	A, A2, B := c.NewNode("A", 0), c.NewNode("A2", 0), c.NewNode("B", 1)
	rewards := func() *lib.RewardRecipients {
		return &lib.RewardRecipients{PaymentPercents: []*lib.PaymentPercents{{Address: net.FreshAddr(1), Percent: 100, ChainId: nested}}}
	}
	evidence := &lib.SlashRecipients{DoubleSigners: []*lib.DoubleSigner{{Id: net.ValKeys[0].PublicKey().Bytes(), Heights: []uint64{1}}}}
	stake3 := func(nd *node.Node) (uint64, []uint64) {
		v, err := nd.C.FSM.GetValidator(crypto.NewAddress(node.Addr(net.ValKeys[3])))
		if err != nil || v == nil {
			return 0, nil
		}
		return v.StakedAmount, v.Committees
	}
	// one height on every node: A proposes from txs, everybody commits A's block
	all := func(txs [][]byte) *execdrv.Proposal {
		for _, tx := range txs {
			if err := A.Submit(tx); err != nil {
				panic(err)
			}
		}
		h := A.Height()
		pre := A.StateDigest()
		p, ok := c.Propose(A, nil, "produce")
		if !ok {
			return nil
		}
		c.Hold = true
		okA := c.Validate(A, p)
		if okA {
			c.Commit(A, p, false)
		}
		o.Op(fmt.Sprintf("def %d %s %s %s %s", h, pre, p.ID, A.StateDigest(), p.Obs), "def")
		c.Release()
		if !okA {
			return nil
		}
		c.Commit(A2, p, false)
		c.Validate(B, p)
		c.Commit(B, p, false)
		return p
	}
	for A.Height() < 5 {
		h := A.Height()
		txs := [][]byte{net.SendTx(net.AcctKeys[0], net.FreshAddr(int(h)+100), 1000, minFee, h, "")}
		if h == 3 {
			// the evidence is processed (validator 0 slashed for chain 2) and indexed here
			txs = append(txs, net.CertificateResultsTx(A, nested, 1, h-1, 0, []int{0, 1, 2, 3},
				&lib.CertificateResult{RewardRecipients: rewards(), SlashRecipients: evidence}, h))
		}
		p := all(txs)
		if p == nil || (h == 3 && p.NTx != 2) {
			o.Fail("C07:scenario-expectation-differs:slash-then-fail", fmt.Sprintf("prefix height %d did not include what it should", h), map[string]any{"case": o.CurCase()})
			return
		}
	}
	before, _ := stake3(A)
	h := A.Height()
	// NOTE: every settlement at a window end (the own chain's in BeginBlock, and each certificateResults
	// transaction's) deletes ALL non-signer records, so a counter can only be seen by the settlement of the
	// very next transaction: a1 records the miss, tx1 / tx2 settle it (MaxNonSign = 0).
	txs := [][]byte{net.CertificateResultsTx(A, nested, 2, h-1, 0, []int{0, 1, 2}, &lib.CertificateResult{RewardRecipients: rewards()}, h)}
	tx1 := net.CertificateResultsTx(A, nested, 3, h-1, 0, []int{0, 1, 2}, &lib.CertificateResult{RewardRecipients: rewards(), SlashRecipients: evidence}, h)
	tx2 := net.CertificateResultsTx(A, nested, 3, h-1, 0, []int{0, 1, 2}, &lib.CertificateResult{RewardRecipients: rewards()}, h)
	txs = append(txs, tx1, tx2)
	for _, tx := range txs {
		if err := A.Submit(tx); err != nil {
			panic(err)
		}
	}
	pre := A.StateDigest()
	p, ok := c.Propose(A, nil, "produce")
	if !ok {
		return
	}
	blk := cloneBlock(p.Block)
	has := func(tx []byte) bool {
		for _, t := range blk.Transactions {
			if bytes.Equal(t, tx) {
				return true
			}
		}
		return false
	}
	if len(blk.Transactions) != 2 || has(tx1) || !has(tx2) {
		o.Fail("C07:scenario-expectation-differs:slash-then-fail", fmt.Sprintf("height %d: expected a1 and tx2 included and tx1 failing; block has %d txs, tx1 included=%v, tx2 included=%v", h, len(blk.Transactions), has(tx1), has(tx2)),
			map[string]any{"case": o.CurCase()})
		return
	}
	c.Hold = true
	okA := c.Validate(A, p)
	if okA {
		c.Commit(A, p, false)
	}
	o.Op(fmt.Sprintf("def %d %s %s %s %s", h, pre, p.ID, A.StateDigest(), p.Obs), "def")
	c.Release()
	okB := okA && c.Validate(B, p)
	// the block alone
	for _, tx := range blk.Transactions {
		if err := A2.Submit(tx); err != nil {
			panic(err)
		}
	}
	pre2 := A2.StateDigest()
	p2, ok2 := c.Propose(A2, nil, "produce")
	if !ok2 {
		return
	}
	blk2 := cloneBlock(p2.Block)
	c.Hold = true
	if c.Validate(A2, p2) {
		c.Commit(A2, p2, false)
	}
	o.Op(fmt.Sprintf("def %d %s %s %s %s", h, pre2, p2.ID, A2.StateDigest(), p2.Obs), "def")
	c.Release()
	sWith, cWith := stake3(A)
	sAlone, cAlone := stake3(A2)
	var diff []string
	if !okA || !okB {
		diff = append(diff, fmt.Sprintf("the block is rejected (proposer accepts: %v, replica accepts: %v)", okA, okB))
	}
	if !bytes.Equal(blk.BlockHeader.StateRoot, blk2.BlockHeader.StateRoot) {
		diff = append(diff, "state root")
	}
	if !bytes.Equal(blk.BlockHeader.TransactionRoot, blk2.BlockHeader.TransactionRoot) {
		diff = append(diff, "transaction root")
	}
	if !bytes.Equal(blk.BlockHeader.NextValidatorRoot, blk2.BlockHeader.NextValidatorRoot) {
		diff = append(diff, "validator root")
	}
	if sWith != sAlone || fmt.Sprint(cWith) != fmt.Sprint(cAlone) {
		diff = append(diff, fmt.Sprintf("slashed validator: stake %d committees %v next to the failing transaction, stake %d committees %v alone (before the block: %d)", sWith, cWith, sAlone, cAlone, before))
	}
	if d := node.DiffDumps(A.StateDump(), A2.StateDump()); okA && len(d) != 0 {
		diff = append(diff, fmt.Sprintf("full state scan (%d keys, first: %s)", len(d), d[0]))
	}
	if strings.Join(A.BlockEvents(h), ",") != strings.Join(A2.BlockEvents(h), ",") && okA {
		diff = append(diff, "events")
	}
	o.Count("metamorphic-compared")
	o.Count(fmt.Sprintf("slash-then-fail:validator3-stake:%d->%d", before, sAlone))
	if len(diff) != 0 {
		o.Fail("C07:failed-tx-left-trace",
			fmt.Sprintf("height %d: a certificateResults transaction that slashes a non-signer and then fails on stale double-sign evidence leaves a trace: the block built next to it differs from the block of its successful transactions alone in: %s", h, strings.Join(diff, "; ")),
			map[string]any{"case": o.CurCase(), "height": h, "failing_tx": hex.EncodeToString(tx1), "successful_tx": hex.EncodeToString(tx2),
				"block_next_to_failing_tx": hex.EncodeToString(p.Block), "block_alone": hex.EncodeToString(p2.Block)})
		return
	}
	if sAlone >= before {
		o.Fail("C07:scenario-expectation-differs:slash-then-fail", fmt.Sprintf("validator 3 was not slashed by the window settlement (stake %d -> %d)", before, sAlone), map[string]any{"case": o.CurCase()})
		return
	}
	o.Nontrivial(o.CurCase())
	o.Sample(fmt.Sprintf("%s: tx1 slashes validator 3 and then fails; block == block without it: validator 3 stake %d -> %d, committees %v", o.CurCase(), before, sAlone, cAlone))
}

// paramCacheCases: family "failed-param-change-then-dependent-tx" (see harness/execdrv/govern.go).
// For every variant: height 1 is a small block everywhere; at height 2 node A proposes from a mempool
// holding the governance transaction (which fails after editing the cached parameters, or succeeds
// inside the dropped oversize remainder) and the dependent transaction; A2 proposes from exactly the
// transactions A kept; B validates A's block. Block next to the governance transaction == block alone.
func paramCacheCases(o *drv.Out) {
	variants := execdrv.ParamVariants
	rounds := 1
	if o.Tier == "thorough" || o.Search {
		rounds = 3
	}
	for r := 0; r < rounds; r++ {
		for vi, v := range variants {
			paramCacheCase(o, v, 2+(vi+r)%3, int64(100*r+vi))
		}
	}
}

func paramCacheCase(o *drv.Out, v execdrv.ParamVariant, val int, seed int64) {
	o.Case(fmt.Sprintf("failed-param-change-then-dependent-tx:%s:val%d:%d", v.Name, val, seed))
	rng := rand.New(rand.NewSource(50 + seed))
	net := execdrv.ParamNetwork(30+seed, v.Remainder)
	defer net.Close()
	c := execdrv.NewChain(o, net, rng, []int{16, 2})
	c.CanonErrors = true
	A, A2, B := c.NewNode("A", 0), c.NewNode("A2", 0), c.NewNode("B", 1)
	// height 1 on every node
	{
		h := A.Height()
		pre := A.StateDigest()
		p, ok := c.Propose(A, []node.MixTx{{Kind: "send", Bytes: net.SendTx(net.AcctKeys[0], net.FreshAddr(7), 1000, minFee, h, "")}}, "produce")
		if !ok {
			return
		}
		c.Hold = true
		okA := c.Validate(A, p)
		if okA {
			c.Commit(A, p, false)
		}
		o.Op(fmt.Sprintf("def %d %s %s %s %s", h, pre, p.ID, A.StateDigest(), p.Obs), "def")
		c.Release()
		if !okA {
			return
		}
		c.Commit(A2, p, false)
		c.Commit(B, p, false)
	}
	h := A.Height()
	txs, gov := c.ParamMempool(v, h, val, 1000)
	for _, tx := range txs {
		if err := A.Submit(tx); err != nil {
			panic(err)
		}
	}
	pre := A.StateDigest()
	p, ok := c.Propose(A, nil, "produce")
	if !ok {
		return
	}
	blk := cloneBlock(p.Block)
	for _, tx := range blk.Transactions {
		if bytes.Equal(tx, gov) {
			o.Fail("C07:scenario-expectation-differs:param-change", "the governance transaction was included in the block (it should fail after the edit, or be in the remainder)", map[string]any{"case": o.CurCase()})
			return
		}
	}
	if !v.Remainder && len(blk.Transactions) != len(txs)-1 {
		o.Fail("C07:scenario-expectation-differs:param-change", fmt.Sprintf("expected every transaction but the governance one in the block: %d of %d", len(blk.Transactions), len(txs)), map[string]any{"case": o.CurCase()})
		return
	}
	c.Hold = true
	okA := c.Validate(A, p)
	if okA {
		c.Commit(A, p, false)
	}
	o.Op(fmt.Sprintf("def %d %s %s %s %s", h, pre, p.ID, A.StateDigest(), p.Obs), "def")
	c.Release()
	okB := okA && c.Validate(B, p)
	for _, tx := range blk.Transactions {
		if err := A2.Submit(tx); err != nil {
			panic(err)
		}
	}
	pre2 := A2.StateDigest()
	p2, ok2 := c.Propose(A2, nil, "produce")
	if !ok2 {
		return
	}
	blk2 := cloneBlock(p2.Block)
	c.Hold = true
	if c.Validate(A2, p2) {
		c.Commit(A2, p2, false)
	}
	o.Op(fmt.Sprintf("def %d %s %s %s %s", h, pre2, p2.ID, A2.StateDigest(), p2.Obs), "def")
	c.Release()
	var diff []string
	if !okA || !okB {
		diff = append(diff, fmt.Sprintf("the block is rejected (proposer accepts: %v, replica accepts: %v)", okA, okB))
	}
	if !bytes.Equal(blk.BlockHeader.StateRoot, blk2.BlockHeader.StateRoot) {
		diff = append(diff, "state root")
	}
	if !bytes.Equal(blk.BlockHeader.TransactionRoot, blk2.BlockHeader.TransactionRoot) || len(blk.Transactions) != len(blk2.Transactions) {
		diff = append(diff, "transaction root")
	}
	if !bytes.Equal(blk.BlockHeader.NextValidatorRoot, blk2.BlockHeader.NextValidatorRoot) {
		diff = append(diff, "validator root")
	}
	if okA {
		if d := node.DiffDumps(A.StateDump(), A2.StateDump()); len(d) != 0 {
			diff = append(diff, fmt.Sprintf("full state scan (%d keys, first: %s)", len(d), d[0]))
		}
		if strings.Join(A.BlockEvents(h), ",") != strings.Join(A2.BlockEvents(h), ",") {
			diff = append(diff, "events")
		}
	}
	o.Count("metamorphic-compared")
	o.Count("param-variant:" + v.Name)
	if len(diff) != 0 {
		o.Fail("C07:failed-tx-left-trace:param-cache",
			fmt.Sprintf("height %d: %s, followed by %s on validator %d: the block built next to it differs from the block of its successful transactions alone in: %s", h, v.Describe(), v.Dependent, val, strings.Join(diff, "; ")),
			map[string]any{"case": o.CurCase(), "height": h, "governance_tx": hex.EncodeToString(gov), "block_next_to_it": hex.EncodeToString(p.Block), "block_alone": hex.EncodeToString(p2.Block)})
		return
	}
	o.Nontrivial(o.CurCase())
	if seed == 0 {
		o.Sample(fmt.Sprintf("%s: block == block without the governance transaction (%d txs)", o.CurCase(), len(blk.Transactions)))
	}
}

func position(i, n int) string {
	switch {
	case i == 0:
		return "first"
	case i == n-1:
		return "last"
	}
	return "middle"
}

// corpusOversize: the permanent witness of the (repaired) oversize-remainder defect, C07 view: the
// state the proposer computed its header from must be the state of the block alone.
func corpusOversize(o *drv.Out) {
	o.Case("corpus-oversize-remainder")
	rng := rand.New(rand.NewSource(45))
	net := node.NewNetwork(7, 4, nil, 20, node.Options{BlockSize: lib.MaxBlockHeaderSize + 24_000})
	defer net.Close()
	c := execdrv.NewChain(o, net, rng, []int{16, 3})
	c.CanonErrors = true
	A, A2 := c.NewNode("A", 0), c.NewNode("A2", 0)
	for hi, n := range []int{1, 200} {
		h := A.Height()
		for i := 0; i < n; i++ {
			_ = A.Submit(net.SendTx(net.AcctKeys[i%10], net.FreshAddr(hi*1000+i), 1000, 10000, h, ""))
		}
		pre := A.StateDigest()
		p, ok := c.Propose(A, nil, "produce")
		if !ok {
			return
		}
		remainder := A.MempoolCount() - p.NTx
		proposerState := A.MempoolStateDump()
		blk := new(lib.Block)
		_ = lib.Unmarshal(p.Block, blk)
		for _, tx := range blk.Transactions {
			_ = A2.Submit(tx)
		}
		p2, ok2 := c.Propose(A2, nil, "produce")
		if !ok2 {
			return
		}
		aloneState := A2.MempoolStateDump()
		diff := node.DiffDumps(proposerState, aloneState)
		c.Hold = true
		okA := c.Validate(A, p)
		if okA {
			c.Commit(A, p, false)
		}
		o.Op(fmt.Sprintf("def %d %s %s %s %s", h, pre, p.ID, A.StateDigest(), p.Obs), "def")
		c.Release()
		if len(diff) != 0 || !okA {
			o.Fail("C07:oversize-remainder-left-trace",
				fmt.Sprintf("height %d: %d valid transactions beyond the %d that fit; the state the proposer computed the header from differs from the state of the block alone in %d keys; proposer accepts own block: %v", h, remainder, p.NTx, len(diff), okA),
				map[string]any{"case": o.CurCase(), "height": h, "included": p.NTx, "remainder": remainder, "differing_keys(with remainder|alone)": diff, "block": hex.EncodeToString(p.Block)})
			return
		}
		c.Hold = true
		pre2 := A2.StateDigest()
		if c.Validate(A2, p2) {
			c.Commit(A2, p2, false)
		}
		o.Op(fmt.Sprintf("def %d %s %s %s %s", h, pre2, p2.ID, A2.StateDigest(), p2.Obs), "def")
		c.Release()
		o.Count(fmt.Sprintf("corpus-oversize:%d-sends:included=%d:remainder=%d", n, p.NTx, remainder))
		if A.MempoolCount() > 0 && !c.Restart(A) {
			return
		}
	}
}

// ---- part 2 ----------------------------------------------------------------------------------

type observation struct {
	height uint64
	state  string // digest of the full scan of the FSM's working view
	cfg    string // governance-proposal mode of both state machines (not part of the op line)
}

func observe(c *execdrv.Chain, nd *node.Node) observation {
	ob := observation{nd.Height(), nd.StateDigest(), nd.VoteConfigs()}
	c.O.Op(c.Names[nd]+" observe", fmt.Sprintf("height=%d state=%s", ob.height, ob.state))
	return ob
}

// recertify signs a (mutated) block and results with every validator, for a phase.
func recertify(c *execdrv.Chain, vs lib.ValidatorSet, proposer *node.Node, blk *lib.Block, results *lib.CertificateResult, rc uint64, rehash bool, tag string) *execdrv.Proposal {
	if rehash {
		if _, err := blk.BlockHeader.SetHash(); err != nil {
			panic(err)
		}
	}
	bz, err := lib.Marshal(blk)
	if err != nil {
		panic(err)
	}
	hb, _ := lib.Marshal(blk.BlockHeader)
	p := &execdrv.Proposal{ID: hex.EncodeToString(blk.BlockHeader.Hash)[:16] + tag, Block: bz, Results: results, RC: rc, NTx: len(blk.Transactions),
		Obs: execdrv.Dig(hb, execdrv.ResBytes(results))}
	p.PropQC = c.Net.Certify(vs, bz, results, c.Net.AllSigners(), lib.Phase_PROPOSE, rc, proposer.Key)
	p.QC = c.Net.Certify(vs, bz, results, c.Net.AllSigners(), lib.Phase_PRECOMMIT_VOTE, rc, proposer.Key)
	return p
}

func cloneBlock(b []byte) *lib.Block {
	blk := new(lib.Block)
	if err := lib.Unmarshal(b, blk); err != nil {
		panic(err)
	}
	return blk
}

func rejectCase(o *drv.Out, ci int) {
	rng := rand.New(rand.NewSource(o.Rng.Int63()))
	nVal := []int{4, 7, 1}[ci%3]
	net := node.NewNetwork(o.Seed*9500+int64(ci), nVal, nil, 30, node.Options{BlockSize: lib.MaxBlockHeaderSize + 8_000})
	defer net.Close()
	o.Case(fmt.Sprintf("rejected-blocks-%d-v%d", ci, nVal))
	c := execdrv.NewChain(o, net, rng, []int{16, 2})
	c.CanonErrors = true
	A, B := c.NewNode("A", 0), c.NewNode("B", 1%nVal)
	var prev *execdrv.Proposal
	for hi := 0; hi < 3; hi++ {
		h := A.Height()
		pre := A.StateDigest()
		txs := c.Mix.Mix(node.MixOpts{Height: h, Sends: 8 + rng.Intn(8), Failing: 2, ValOps: hi == 1})
		p, ok := c.Propose(A, txs, "produce")
		if !ok {
			return
		}
		vs := A.Committee()
		c.Hold = true
		if !c.Validate(A, p) {
			c.Release()
			return
		}
		c.Commit(A, p, false)
		post := A.StateDigest()
		o.Op(fmt.Sprintf("def %d %s %s %s %s", h, pre, p.ID, post, p.Obs), "def")
		c.Release()
		before := observe(c, B)
		check := func(stage string, via string, bad *execdrv.Proposal) {
			var res string
			switch via {
			case "validate":
				if c.Validate(B, bad) {
					res = "ok"
				} else {
					res = "rejected"
				}
			case "commit":
				res = c.Commit(B, bad, false)
			case "sync":
				res = c.Commit(B, bad, true)
			}
			o.Count("reject-stage:" + via + ":" + stage)
			if strings.HasPrefix(res, "ok") {
				o.Fail("C07:invalid-block-accepted", fmt.Sprintf("height %d: %s via %s accepted", h, stage, via), map[string]any{"case": o.CurCase(), "stage": stage, "block": hex.EncodeToString(bad.Block)})
				return
			}
			after := observe(c, B)
			if after != before && after.height == before.height && after.state == before.state {
				o.Fail("C07:rejected-block-changed-state:proposal-vote-config", fmt.Sprintf("height %d: a %s rejected at stage %q left the node's governance-proposal mode at %q, before it was %q", h, via, stage, after.cfg, before.cfg),
					map[string]any{"case": o.CurCase(), "stage": stage, "via": via, "block": hex.EncodeToString(bad.Block)})
			} else if after != before {
				o.Fail("C07:rejected-block-changed-state", fmt.Sprintf("height %d: a %s rejected at stage %q left the node at %+v, before it was %+v", h, via, stage, after, before),
					map[string]any{"case": o.CurCase(), "stage": stage, "via": via, "block": hex.EncodeToString(bad.Block)})
			}
			o.Nontrivial(fmt.Sprintf("%s|%d|%s|%s", o.CurCase(), hi, via, stage))
		}
		// every variant gets its own name: variants that keep the header (other transactions, other
		// results, stale hash field) would otherwise share the honest block's hash
		nvar := 0
		mut := func(f func(blk *lib.Block, res *lib.CertificateResult) *lib.CertificateResult, rehash bool) *execdrv.Proposal {
			blk := cloneBlock(p.Block)
			res := p.Results
			if r := f(blk, res); r != nil {
				res = r
			}
			nvar++
			return recertify(c, vs, A, blk, res, p.RC, rehash, fmt.Sprintf("~v%d", nvar))
		}
		declare := func(bad *execdrv.Proposal, computes string) {
			// what executing the bad block gives is irrelevant as long as it is not what the block claims
			o.Op(fmt.Sprintf("def %d %s %s ?post-%s %s %s", h, pre, bad.ID, bad.ID, computes, bad.Obs), "def")
		}
		for _, via := range []string{"validate", "commit", "sync"} {
			// header mismatch after a full execution
			bad := mut(func(b *lib.Block, _ *lib.CertificateResult) *lib.CertificateResult {
				b.BlockHeader.StateRoot[3] ^= 0x40
				return nil
			}, true)
			declare(bad, "?obs-"+bad.ID)
			check("wrong-state-root", via, bad)
			bad = mut(func(b *lib.Block, _ *lib.CertificateResult) *lib.CertificateResult {
				b.BlockHeader.TotalTxs += 1
				return nil
			}, true)
			declare(bad, "?obs-"+bad.ID)
			check("wrong-counter", via, bad)
			// a transaction dropped from the block: transaction root and state differ
			if p.NTx > 1 {
				bad = mut(func(b *lib.Block, _ *lib.CertificateResult) *lib.CertificateResult {
					b.Transactions = b.Transactions[:len(b.Transactions)-1]
					return nil
				}, true)
				declare(bad, "?obs-"+bad.ID)
				check("transaction-dropped", via, bad)
			}
			// a failing transaction after successful ones: rejected after the whole block ran
			bad = mut(func(b *lib.Block, _ *lib.CertificateResult) *lib.CertificateResult {
				b.Transactions = append(b.Transactions, net.SendTx(net.AcctKeys[0], net.FreshAddr(424242), 1<<60, minFee, h, ""))
				return nil
			}, true)
			check("failing-transaction-inside", via, bad)
			// the same transaction twice: rejected in the middle of the sequential pass, after writes
			if p.NTx > 0 {
				bad = mut(func(b *lib.Block, _ *lib.CertificateResult) *lib.CertificateResult {
					b.Transactions = append(b.Transactions, b.Transactions[0])
					return nil
				}, true)
				check("duplicate-transaction-inside", via, bad)
			}
			// more than fits: rejected in the middle of the sequential pass, after writes
			bad = mut(func(b *lib.Block, _ *lib.CertificateResult) *lib.CertificateResult {
				for i := 0; i < 60; i++ {
					b.Transactions = append(b.Transactions, net.SendTx(net.AcctKeys[1+i%8], net.FreshAddr(500000+i), 77, minFee, h, ""))
				}
				return nil
			}, true)
			check("oversize-block", via, bad)
			// stateless rejections
			bad = mut(func(b *lib.Block, _ *lib.CertificateResult) *lib.CertificateResult {
				b.BlockHeader.StateRoot[0] ^= 1
				return nil
			}, false)
			check("block-hash-mismatch", via, bad)
			bad = mut(func(b *lib.Block, _ *lib.CertificateResult) *lib.CertificateResult {
				b.BlockHeader.Height += 1
				return nil
			}, true)
			check("future-height", via, bad)
			if prev != nil {
				check("old-height", via, prev)
			}
			if h > 1 {
				bad = mut(func(b *lib.Block, _ *lib.CertificateResult) *lib.CertificateResult {
					b.BlockHeader.LastQuorumCertificate.BlockHash[0] ^= 1
					return nil
				}, true)
				check("wrong-last-certificate", via, bad)
			}
			if via == "validate" {
				// certificate results that are not what the block produces
				bad = mut(func(_ *lib.Block, r *lib.CertificateResult) *lib.CertificateResult {
					cp := &lib.CertificateResult{RewardRecipients: &lib.RewardRecipients{PaymentPercents: []*lib.PaymentPercents{{Address: net.FreshAddr(1), Percent: 100, ChainId: node.ChainId}}},
						SlashRecipients: r.SlashRecipients, Orders: r.Orders, Checkpoint: r.Checkpoint, Retired: r.Retired}
					return cp
				}, false)
				declare(bad, p.Obs)
				check("certificate-results-mismatch", via, bad)
			}
			if via == "commit" {
				// certificate-level rejections of a peer block
				partial := *p
				partial.ID = p.ID
				partial.QC = c.Net.Certify(vs, p.Block, p.Results, []int{0}, lib.Phase_PRECOMMIT_VOTE, p.RC, A.Key)
				if nVal >= 4 {
					checkQC(c, o, B, &partial, "no-two-thirds-majority", before, h)
				}
				wrongPhase := *p
				wrongPhase.QC = p.PropQC
				checkQC(c, o, B, &wrongPhase, "wrong-phase", before, h)
				badSig := *p
				sigBz := append([]byte{}, p.QC.Signature.Signature...)
				sigBz[10] ^= 1
				badSig.QC = &lib.QuorumCertificate{Header: p.QC.Header, Results: p.QC.Results, ResultsHash: p.QC.ResultsHash, Block: p.QC.Block,
					BlockHash: p.QC.BlockHash, ProposerKey: p.QC.ProposerKey, Signature: &lib.AggregateSignature{Signature: sigBz, Bitmap: p.QC.Signature.Bitmap}}
				checkQC(c, o, B, &badSig, "bad-aggregate-signature", before, h)
			}
		}
		// after all of that the honest block still validates and commits to the proposer's state
		if !c.Validate(B, p) {
			o.Fail("C07:rejected-block-changed-state", fmt.Sprintf("height %d: after the rejected blocks the honest proposal no longer validates", h), map[string]any{"case": o.CurCase()})
			return
		}
		got := c.Commit(B, p, false)
		if want := fmt.Sprintf("ok state=%s obs=%s", post, p.Obs); got != want {
			o.Fail("C07:rejected-block-changed-state", fmt.Sprintf("height %d: after the rejected blocks the honest block commits to %q, proposer %q", h, got, want), map[string]any{"case": o.CurCase()})
			return
		}
		if !execdrv.SameDump(A.StateDump(), B.StateDump()) {
			o.Fail("C07:rejected-block-changed-state", "full state scans differ after rejected blocks", map[string]any{"case": o.CurCase(), "height": h})
			return
		}
		prev = p
	}
	o.Sample(fmt.Sprintf("%s: 3 heights, every rejection stage via validate / peer block / sync, node unchanged each time", o.CurCase()))
}

// checkQC hands B a peer block whose certificate is bad; these are rejected before any execution.
func checkQC(c *execdrv.Chain, o *drv.Out, B *node.Node, bad *execdrv.Proposal, stage string, before observation, h uint64) {
	err := B.HandlePeerBlock(bad.QC, false)
	res := "rejected"
	if err == nil {
		res = "ok"
	}
	// the model knows certificates only through the block: a certificate-level rejection is a no-op line
	o.Op(fmt.Sprintf("%s badcert %s", c.Names[B], bad.ID), res)
	o.Count("reject-stage:commit:" + stage)
	if err == nil {
		o.Fail("C07:invalid-block-accepted", fmt.Sprintf("height %d: peer block with %s accepted", h, stage), map[string]any{"case": o.CurCase(), "stage": stage})
		return
	}
	if after := observe(c, B); after != before {
		o.Fail("C07:rejected-block-changed-state", fmt.Sprintf("height %d: a peer block rejected at stage %q left the node at %+v, before it was %+v", h, stage, after, before),
			map[string]any{"case": o.CurCase(), "stage": stage})
	}
}
