package c20

import (
	"fmt"
	"math/big"
	"math/rand"

	"github.com/canopy-network/canopy/fsm"
	"github.com/canopy-network/canopy/lib"

	"verifharness/drv"
)

// u64 draws boundary-heavy values: small, near powers of two, near 2^64, near square roots.
func u64(r *rand.Rand) uint64 {
	switch r.Intn(12) {
	case 0:
		return uint64(r.Intn(4))
	case 1:
		return uint64(r.Intn(2000))
	case 2:
		return ^uint64(0) - uint64(r.Intn(4))
	case 3:
		return (uint64(1) << uint(r.Intn(64))) + uint64(r.Intn(3)) - 1
	case 4:
		return uint64(1)<<32 + uint64(r.Intn(5)) - 2
	case 5:
		return uint64(r.Int63n(1 << 20))
	case 6:
		return uint64(r.Int63n(1 << 40))
	case 7:
		return 990 * uint64(r.Intn(1000))
	default:
		return drv.Uint64(r)
	}
}

func safeDY(x, y, dx uint64) (res string, dy uint64, ok bool) {
	defer func() {
		if r := recover(); r != nil {
			res, ok = "panic", false
		}
	}()
	dy = fsm.SafeComputeDY(x, y, dx)
	return fmt.Sprint(dy), dy, true
}

// arith is the pure differential stream of the AMM arithmetic: the real functions against the generated
// Lean definitions, plus the property itself evaluated on the real outputs with exact integers.
func arith(o *drv.Out, n int) {
	o.Case("arith")
	r := o.Rng
	big64 := func(v uint64) *big.Int { return new(big.Int).SetUint64(v) }
	// the witnesses named in Props/C20.lean, on the real functions
	for _, t := range [][3]uint64{{0, 1000, 5}, {0, 7, 0}, {1000, 1000, 100}} {
		res, _, _ := safeDY(t[0], t[1], t[2])
		o.Op(fmt.Sprintf("dy %d %d %d", t[0], t[1], t[2]), res)
	}
	o.Op("muldiv 18446744073709551615 4 2", fmt.Sprint(lib.SafeMulDiv(18446744073709551615, 4, 2)))
	if v, err := fsm.VerifLiquidityDepositPoints(100, 100, 100, 100); err == nil {
		o.Op("ldp 100 100 100 100", fmt.Sprint(v))
	}
	for i := 0; i < n; i++ {
		switch k := r.Intn(10); {
		case k < 4:
			x, y, dx := u64(r), u64(r), u64(r)
			if r.Intn(6) == 0 {
				dx = x // same magnitude
			}
			if r.Intn(50) == 0 {
				x, dx = 0, 0 // the panic point
			}
			op := fmt.Sprintf("dy %d %d %d", x, y, dx)
			res, dy, ok := safeDY(x, y, dx)
			o.Op(op, res)
			o.Count("arith:dy")
			if !ok {
				o.Count("arith:dy:panic")
				continue
			}
			o.Nontrivial(op)
			if x > 0 && y > 0 {
				// a swap never pays out the whole reserve and never lowers the product of the reserves
				if dy >= y {
					o.Fail("C20:swap-pays-reserve", fmt.Sprintf("SafeComputeDY(%d,%d,%d)=%d >= y", x, y, dx, dy), map[string]any{"op": op})
				}
				k0 := new(big.Int).Mul(big64(x), big64(y))
				k1 := new(big.Int).Mul(new(big.Int).Add(big64(x), big64(dx)), new(big.Int).Sub(big64(y), big64(dy)))
				if k1.Cmp(k0) < 0 {
					o.Fail("C20:swap-lowers-product", fmt.Sprintf("SafeComputeDY(%d,%d,%d)=%d: (x+dX)(y-dY) < xy", x, y, dx, dy), map[string]any{"op": op})
				}
				if dy > 0 {
					o.Count("arith:dy:pays")
				}
			}
		case k < 6:
			a, b, c := u64(r), u64(r), u64(r)
			if r.Intn(4) == 0 {
				b = uint64(r.Intn(101))
				c = 100
			}
			if r.Intn(4) == 0 && c != 0 {
				b = c - uint64(r.Intn(3))%c // b <= c: a pro-rata share
			}
			op := fmt.Sprintf("muldiv %d %d %d", a, b, c)
			v := lib.SafeMulDiv(a, b, c)
			o.Op(op, fmt.Sprint(v))
			o.Count("arith:muldiv")
			o.Nontrivial(op)
			if c != 0 {
				exact := new(big.Int).Div(new(big.Int).Mul(big64(a), big64(b)), big64(c))
				if big64(v).Cmp(exact) > 0 {
					o.Fail("C20:muldiv-exceeds-share", fmt.Sprintf("SafeMulDiv(%d,%d,%d)=%d > a*b/c", a, b, c, v), map[string]any{"op": op})
				}
				if !exact.IsUint64() {
					o.Count("arith:muldiv:truncated")
				}
			}
		case k < 7:
			x, y := u64(r), u64(r)
			if r.Intn(3) == 0 {
				y = x + uint64(r.Intn(3)) - 1
			}
			op := fmt.Sprintf("sqrtp %d %d", x, y)
			o.Op(op, fmt.Sprint(lib.SqrtProductUint64(x, y)))
			o.Count("arith:sqrtp")
			o.Nontrivial(op)
		case k < 8:
			a, b := u64(r), u64(r)
			if r.Intn(3) == 0 {
				b = ^uint64(0) - a + uint64(r.Intn(3)) - 1
			}
			op := fmt.Sprintf("add %d %d", a, b)
			s, ov := lib.AddUint64(a, b)
			bit := 0
			if ov {
				bit = 1
			}
			o.Op(op, fmt.Sprintf("%d %d", s, bit))
			o.Count("arith:add")
			o.Nontrivial(op)
		default:
			l, x, y, a := u64(r), u64(r), u64(r), u64(r)
			if r.Intn(5) == 0 {
				a = 0
			}
			if r.Intn(5) == 0 {
				l = 0
			}
			if r.Intn(4) == 0 {
				l = lib.SqrtProductUint64(x, y)
			}
			op := fmt.Sprintf("ldp %d %d %d %d", l, x, y, a)
			v, err := fsm.VerifLiquidityDepositPoints(l, x, y, a)
			if err != nil {
				o.Op(op, status(err))
				o.Count("arith:ldp:err")
			} else {
				o.Op(op, fmt.Sprint(v))
				o.Count("arith:ldp:ok")
				// points never come from nothing
				if (a == 0 || l == 0) && v != 0 {
					o.Fail("C20:points-from-nothing", fmt.Sprintf("liquidityDepositPoints(%d,%d,%d,%d)=%d", l, x, y, a, v), map[string]any{"op": op})
				}
			}
			o.Nontrivial(op)
		}
	}
}
