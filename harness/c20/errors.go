package c20

import (
	"fmt"

	"github.com/canopy-network/canopy/fsm"
	"github.com/canopy-network/canopy/lib"
)

// errNames maps (module, code) of a real lib.ErrorI to the constructor name the Lean model uses.
var errNames = map[string]string{}

func init() {
	reg := func(name string, e lib.ErrorI) { errNames[fmt.Sprintf("%s/%d", e.Module(), e.Code())] = name }
	reg("InvalidChainId", fsm.ErrInvalidChainId())
	reg("InvalidOpcode", fsm.ErrInvalidOpcode())
	reg("InvalidAmount", fsm.ErrInvalidAmount())
	reg("AddressEmpty", fsm.ErrAddressEmpty())
	reg("AddressSize", fsm.ErrAddressSize())
	reg("MinimumOrderSize", fsm.ErrMinimumOrderSize())
	reg("InsufficientFunds", fsm.ErrInsufficientFunds())
	reg("InvalidLockOrder", fsm.ErrInvalidLockOrder())
	reg("InvalidLiquidityPool", fsm.ErrInvalidLiquidityPool())
	reg("MaxDexBatchSize", fsm.ErrMaxDexBatchSize())
	reg("RemotePoolSizeDebit", fsm.ErrRemotePoolSizeDebit())
	reg("OrderNotFound", lib.ErrOrderNotFound())
	reg("OrderLocked", lib.ErrOrderLocked())
	reg("PointHolderNotFound", lib.ErrPointHolderNotFound())
	reg("ZeroLiquidityPool", lib.ErrZeroLiquidityPool())
	reg("NilBlock", lib.ErrNilBlock())
	reg("InvalidPercentAllocation", lib.ErrInvalidPercentAllocation())
	reg("InvalidArgument", lib.ErrInvalidArgument())
	reg("InvalidAddress", lib.ErrInvalidAddress())
	reg("TooManyDexDeposits", lib.ErrTooManyDexDeposits())
	reg("TooManyDexWithdraws", lib.ErrTooManyDexWithdraws())
	reg("TooManyDexOrders", lib.ErrTooManyDexOrders())
	reg("TooManyDexReceipts", lib.ErrTooManyDexReceipts())
	reg("TooManyLiquidityProviders", lib.ErrTooManyLiquidityProviders())
	reg("InvalidBlockHash", lib.ErrInvalidBlockHash())
}

// status renders what the real code answered: ok, err:<Name> (or err:<module>/<code> when unnamed).
func status(e lib.ErrorI) string {
	if e == nil {
		return "ok"
	}
	k := fmt.Sprintf("%s/%d", e.Module(), e.Code())
	if n, ok := errNames[k]; ok {
		return "err:" + n
	}
	return "err:" + k
}
