// Package c20 drives the REAL order-book / escrow / DEX code of /repo/fsm (property C20) and emits the
// operation lines the Lean model (lean/Driver/C20.lean) replays.
package c20

import (
	"encoding/json"
	"fmt"
	"os"
	"path/filepath"

	"github.com/canopy-network/canopy/fsm"
	"github.com/canopy-network/canopy/lib"
	"github.com/canopy-network/canopy/store"
)

// Env is one real fsm.StateMachine over an in-memory store.
type Env struct {
	SM    *fsm.StateMachine
	Store lib.StoreI
	dir   string
}

// NewEnv builds a real state machine the way the node does (fsm.New on a fresh store reads genesis.json),
// with Config.ChainId = self, consensus parameter RootChainId = root and MinimumOrderSize = minOrder.
func NewEnv(self, root, minOrder uint64) (*Env, error) {
	dir, err := os.MkdirTemp("", "c20-")
	if err != nil {
		return nil, err
	}
	log := lib.NewNullLogger()
	cfg := lib.DefaultConfig()
	cfg.DataDirPath = dir
	cfg.ChainId = self
	params := fsm.DefaultParams()
	params.Consensus.RootChainId = root
	params.Validator.MinimumOrderSize = minOrder
	gen := &fsm.GenesisState{Time: 1, Params: params}
	bz, err := json.Marshal(gen)
	if err != nil {
		return nil, err
	}
	if err = os.WriteFile(filepath.Join(dir, lib.GenesisFilePath), bz, 0o644); err != nil {
		return nil, err
	}
	db, e := store.NewStoreInMemory(log)
	if e != nil {
		return nil, fmt.Errorf("store: %s", e.Error())
	}
	sm, e := fsm.New(cfg, db, nil, nil, log)
	if e != nil {
		return nil, fmt.Errorf("fsm.New: %s", e.Error())
	}
	return &Env{SM: sm, Store: db, dir: dir}, nil
}

func (e *Env) Close() {
	if s, ok := e.Store.(interface{ Close() lib.ErrorI }); ok {
		_ = s.Close()
	}
	os.RemoveAll(e.dir)
}
