package c20

import (
	"crypto/sha256"
	"encoding/hex"
	"fmt"
	"math/big"
	"sort"
	"strings"

	"github.com/canopy-network/canopy/fsm"
	"github.com/canopy-network/canopy/lib"
	"github.com/canopy-network/canopy/lib/crypto"
)

func hx(b []byte) string {
	if len(b) == 0 {
		return "-"
	}
	return hex.EncodeToString(b)
}

func unhx(s string) []byte {
	if s == "-" {
		return nil
	}
	b, err := hex.DecodeString(s)
	if err != nil {
		panic(err)
	}
	return b
}

// Apply runs one operation of the real code the way ApplyTransactions runs a transaction: inside a store
// transaction that is flushed on success and dropped on error (caches reset). A panic is reported as such.
func (e *Env) Apply(f func() lib.ErrorI) (st string) {
	cur := e.SM.Store().(lib.StoreI)
	txn, err := e.SM.TxnWrap()
	if err != nil {
		return "err:txnwrap"
	}
	var ferr lib.ErrorI
	panicked := ""
	func() {
		defer func() {
			if r := recover(); r != nil {
				panicked = fmt.Sprint(r)
			}
		}()
		ferr = f()
	}()
	if panicked != "" || ferr != nil {
		e.SM.SetStore(cur)
	} else {
		if fe := txn.Flush(); fe != nil {
			e.SM.SetStore(cur)
			e.SM.ResetCaches()
			return "err:flush"
		}
		e.SM.SetStore(cur)
	}
	// every operation is its own cache epoch (ResetCaches is what the node does between blocks and after a
	// failed transaction); the model mirrors it with `normalize`
	e.SM.ResetCaches()
	if panicked != "" {
		return "panic"
	}
	return status(ferr)
}

func showPointsFull(pts []*lib.PoolPoints) string {
	var s []string
	for _, p := range pts {
		s = append(s, fmt.Sprintf("%s=%d", hx(p.Address), p.Points))
	}
	return strings.Join(s, ",")
}

// showPoints: long tables are dumped as #<count>:<sha256 of the full text>
func showPoints(pts []*lib.PoolPoints) string {
	if len(pts) > 64 {
		h := sha256.Sum256([]byte(showPointsFull(pts)))
		return fmt.Sprintf("#%d:%x", len(pts), h)
	}
	return showPointsFull(pts)
}

// abbrevList: long lists are dumped as #<count>:<sha256 of the full text>
func abbrevList(l []string) string {
	if len(l) > 64 {
		h := sha256.Sum256([]byte(strings.Join(l, ",")))
		return fmt.Sprintf("#%d:%x", len(l), h)
	}
	return strings.Join(l, ",")
}

// DumpBatch is ShowBatch with long order/deposit/withdrawal lists abbreviated (state dumps only).
func DumpBatch(b *lib.DexBatch) string { return showBatch(b, abbrevList) }

// ShowBatch is the canonical text of a lib.DexBatch (the wire form of a batch on op lines: always in full).
func ShowBatch(b *lib.DexBatch) string {
	return showBatch(b, func(l []string) string { return strings.Join(l, ",") })
}

func showBatch(b *lib.DexBatch, join func([]string) string) string {
	var o, d, w, r []string
	for _, x := range b.Orders {
		o = append(o, fmt.Sprintf("%d:%d:%s:%s", x.AmountForSale, x.RequestedAmount, hx(x.Address), hx(x.OrderId)))
	}
	for _, x := range b.Deposits {
		d = append(d, fmt.Sprintf("%d:%s:%s", x.Amount, hx(x.Address), hx(x.OrderId)))
	}
	for _, x := range b.Withdrawals {
		w = append(w, fmt.Sprintf("%d:%s:%s", x.Percent, hx(x.Address), hx(x.OrderId)))
	}
	for _, x := range b.Receipts {
		r = append(r, fmt.Sprint(x))
	}
	lf := "0"
	if b.LivenessFallback {
		lf = "1"
	}
	return fmt.Sprintf("{c=%d;rh=%s;o=%s;d=%s;w=%s;ps=%d;cps=%d;pp=%s;tp=%d;r=%s;lh=%d;lf=%s}",
		b.Committee, hx(b.ReceiptHash), join(o), join(d), join(w),
		b.PoolSize, b.CounterPoolSize, showPoints(b.PoolPoints), b.TotalPoolPoints, strings.Join(r, ","), b.LockedHeight, lf)
}

// Snapshot is the state read back from the real store (never from the FSM caches).
type Snapshot struct {
	Height   uint64
	Accounts []*fsm.Account
	Pools    []*fsm.Pool
	Books    []*lib.OrderBook
	Next     map[uint64]*lib.DexBatch
	Locked   map[uint64]*lib.DexBatch
}

func (e *Env) Snapshot(chains []uint64) (*Snapshot, error) {
	e.SM.ResetCaches()
	s := &Snapshot{Height: e.SM.Height(), Next: map[uint64]*lib.DexBatch{}, Locked: map[uint64]*lib.DexBatch{}}
	var err lib.ErrorI
	if s.Accounts, err = e.SM.GetAccounts(); err != nil {
		return nil, err
	}
	if s.Pools, err = e.SM.GetPools(); err != nil {
		return nil, err
	}
	ob, err := e.SM.GetOrderBooks()
	if err != nil {
		return nil, err
	}
	s.Books = ob.OrderBooks
	for _, c := range chains {
		for _, locked := range []bool{false, true} {
			k := fsm.KeyForNextBatch(c)
			if locked {
				k = fsm.KeyForLockedBatch(c)
			}
			bz, err := e.SM.Get(k)
			if err != nil {
				return nil, err
			}
			if bz == nil {
				continue
			}
			b := new(lib.DexBatch)
			if err = lib.Unmarshal(bz, b); err != nil {
				return nil, err
			}
			if locked {
				s.Locked[c] = b
			} else {
				s.Next[c] = b
			}
		}
	}
	e.SM.ResetCaches()
	return s, nil
}

func (s *Snapshot) Dump() string {
	var a, p, o, n, l []string
	accts := append([]*fsm.Account{}, s.Accounts...)
	sort.Slice(accts, func(i, j int) bool { return string(accts[i].Address) < string(accts[j].Address) })
	for _, x := range accts {
		if x.Amount != 0 {
			a = append(a, fmt.Sprintf("%s=%d", hx(x.Address), x.Amount))
		}
	}
	pools := append([]*fsm.Pool{}, s.Pools...)
	sort.Slice(pools, func(i, j int) bool { return pools[i].Id < pools[j].Id })
	for _, x := range pools {
		if x.Amount != 0 {
			p = append(p, fmt.Sprintf("%d=%d:%d:(%s)", x.Id, x.Amount, x.TotalPoolPoints, showPoints(x.Points)))
		}
	}
	books := append([]*lib.OrderBook{}, s.Books...)
	sort.Slice(books, func(i, j int) bool { return books[i].ChainId < books[j].ChainId })
	for _, b := range books {
		ords := append([]*lib.SellOrder{}, b.Orders...)
		sort.Slice(ords, func(i, j int) bool { return string(ords[i].Id) < string(ords[j].Id) })
		for _, x := range ords {
			o = append(o, fmt.Sprintf("%d/%s=%s:%d:%d:%d:%s:%s:%s:%s:%s:%d", b.ChainId, hx(x.Id), hx(x.Id), x.Committee, x.AmountForSale,
				x.RequestedAmount, hx(x.SellersSendAddress), hx(x.SellerReceiveAddress), hx(x.Data), hx(x.BuyerReceiveAddress),
				hx(x.BuyerSendAddress), x.BuyerChainDeadline))
		}
	}
	keys := func(m map[uint64]*lib.DexBatch) []uint64 {
		var ks []uint64
		for k := range m {
			ks = append(ks, k)
		}
		sort.Slice(ks, func(i, j int) bool { return ks[i] < ks[j] })
		return ks
	}
	for _, k := range keys(s.Next) {
		n = append(n, fmt.Sprintf("%d=%s", k, DumpBatch(s.Next[k])))
	}
	for _, k := range keys(s.Locked) {
		l = append(l, fmt.Sprintf("%d=%s", k, DumpBatch(s.Locked[k])))
	}
	return fmt.Sprintf("H=%d A[%s] P[%s] O[%s] N[%s] L[%s]", s.Height, strings.Join(a, ","), strings.Join(p, ","),
		strings.Join(o, ","), strings.Join(n, ","), strings.Join(l, ","))
}

func (s *Snapshot) pool(id uint64) *fsm.Pool {
	for _, p := range s.Pools {
		if p.Id == id {
			return p
		}
	}
	return &fsm.Pool{Id: id}
}

// Total is the sum of every account and pool balance (exact).
func (s *Snapshot) Total() *big.Int {
	t := new(big.Int)
	for _, a := range s.Accounts {
		t.Add(t, new(big.Int).SetUint64(a.Amount))
	}
	for _, p := range s.Pools {
		t.Add(t, new(big.Int).SetUint64(p.Amount))
	}
	return t
}

func (s *Snapshot) accountsTotal() *big.Int {
	t := new(big.Int)
	for _, a := range s.Accounts {
		t.Add(t, new(big.Int).SetUint64(a.Amount))
	}
	return t
}

func (s *Snapshot) openOrders(chain uint64) (sum *big.Int, n int) {
	sum = new(big.Int)
	for _, b := range s.Books {
		if b.ChainId == chain {
			for _, o := range b.Orders {
				sum.Add(sum, new(big.Int).SetUint64(o.AmountForSale))
				n++
			}
		}
	}
	return
}

func (s *Snapshot) pending(chain uint64) *big.Int {
	sum := new(big.Int)
	for _, b := range []*lib.DexBatch{s.Next[chain], s.Locked[chain]} {
		if b == nil {
			continue
		}
		for _, o := range b.Orders {
			sum.Add(sum, new(big.Int).SetUint64(o.AmountForSale))
		}
		for _, d := range b.Deposits {
			sum.Add(sum, new(big.Int).SetUint64(d.Amount))
		}
	}
	return sum
}

func addr(b []byte) crypto.AddressI { return crypto.NewAddress(b) }
