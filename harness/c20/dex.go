package c20

import (
	"crypto/sha256"
	"fmt"
	"math/big"

	"github.com/canopy-network/canopy/fsm"
	"github.com/canopy-network/canopy/lib"
	"github.com/canopy-network/canopy/store"
	"google.golang.org/protobuf/proto"

	"verifharness/drv"
)

func init() {
	e := lib.ErrNonNilPoolPoints()
	errNames[fmt.Sprintf("%s/%d", e.Module(), e.Code())] = "NonNilPoolPoints"
}

func (w *world) setpool(env string, id, amount, total uint64, pts []*lib.PoolPoints) {
	p := showPointsFull(pts)
	if p == "" {
		p = "-"
	}
	w.step(env, fmt.Sprintf("setpool %d %d %d %s", id, amount, total, p), amount, func(sm *fsm.StateMachine) lib.ErrorI {
		return sm.SetPool(&fsm.Pool{Id: id, Amount: amount, Points: pts, TotalPoolPoints: total})
	})
}

func (w *world) limit(env string, chain uint64, a []byte, amount, requested uint64, id []byte) string {
	op := fmt.Sprintf("limit %d %d %d %s %s", chain, amount, requested, hx(a), hx(id))
	st, _ := w.step(env, op, 0, func(sm *fsm.StateMachine) lib.ErrorI {
		msg := &fsm.MessageDexLimitOrder{ChainId: chain, AmountForSale: amount, RequestedAmount: requested, Address: a}
		if err := msg.Check(); err != nil {
			return err
		}
		msg.OrderId = id
		return sm.HandleMessage(msg)
	})
	return st
}

func (w *world) deposit(env string, chain uint64, a []byte, amount uint64, id []byte) string {
	op := fmt.Sprintf("deposit %d %d %s %s", chain, amount, hx(a), hx(id))
	st, _ := w.step(env, op, 0, func(sm *fsm.StateMachine) lib.ErrorI {
		msg := &fsm.MessageDexLiquidityDeposit{ChainId: chain, Amount: amount, Address: a}
		if err := msg.Check(); err != nil {
			return err
		}
		msg.OrderId = id
		return sm.HandleMessage(msg)
	})
	return st
}

func (w *world) withdraw(env string, chain uint64, a []byte, percent uint64, id []byte) string {
	op := fmt.Sprintf("withdraw %d %d %s %s", chain, percent, hx(a), hx(id))
	st, _ := w.step(env, op, 0, func(sm *fsm.StateMachine) lib.ErrorI {
		msg := &fsm.MessageDexLiquidityWithdraw{ChainId: chain, Percent: percent, Address: a}
		if err := msg.Check(); err != nil {
			return err
		}
		msg.OrderId = id
		return sm.HandleMessage(msg)
	})
	return st
}

func (w *world) blockHash() []byte {
	if w.r.Intn(30) == 0 {
		return nil
	}
	h := sha256.Sum256([]byte(fmt.Sprintf("%s/%d", w.o.CurCase(), w.r.Int63())))
	return h[:]
}

// dexbatch: the certificate-result entry point. The block at height-1 (whose hash shuffles the orders) is
// indexed first; the batch goes through DexBatch.CheckBasic as CertificateResult.CheckBasic does.
func (w *world) dexbatch(env string, chain uint64, nested bool, b *lib.DexBatch) (string, *Snapshot, *Snapshot) {
	e := w.envs[env]
	bh := w.blockHash()
	bs, nb := "nil", "0"
	if b != nil {
		bs = ShowBatch(b)
	}
	if nested {
		nb = "1"
	}
	op := fmt.Sprintf("dexbatch %d %s %s %s", chain, nb, hx(bh), bs)
	h := e.SM.Height() - 1
	if h < 1 {
		h = 1
	}
	store.VerifPurgeBlockCache()
	if err := e.Store.IndexBlock(&lib.BlockResult{BlockHeader: &lib.BlockHeader{Height: h, Hash: bh}}); err != nil {
		panic(err)
	}
	before, _ := e.Snapshot(w.chains)
	st, after := w.step(env, op, 0, func(sm *fsm.StateMachine) lib.ErrorI {
		var in *lib.DexBatch
		if b != nil {
			in = proto.Clone(b).(*lib.DexBatch)
			if err := in.CheckBasic(); err != nil {
				return err
			}
			if !nested && in.PoolPoints != nil {
				return lib.ErrNonNilPoolPoints()
			}
		}
		res := &lib.CertificateResult{}
		if nested {
			res.RootDexBatch = in
			sm.SetRootDexCache(in)
		} else {
			res.DexBatch = in
		}
		return sm.HandleDexBatch(chain, res, nested)
	})
	store.VerifPurgeBlockCache()
	// coverage, from the real state only
	if st == "ok" {
		target := chain
		if nested {
			target, _ = e.SM.GetRootChainId()
		}
		lb, la := before.Locked[target], after.Locked[target]
		switch {
		case before.Dump() == after.Dump():
			w.o.Count("dexbatch:no-change")
		case lb != nil && !lb.IsEmpty() && (la == nil || la.LockedHeight != lb.LockedHeight || len(la.Orders) != len(lb.Orders)):
			w.o.Count("dexbatch:receipts-applied")
		default:
			w.o.Count("dexbatch:rotated-only")
		}
		pb, pa := before.pool(target+liquidityAdd), after.pool(target+liquidityAdd)
		if pa.TotalPoolPoints > pb.TotalPoolPoints {
			w.o.Count("dexbatch:points-minted")
		}
		if pa.TotalPoolPoints < pb.TotalPoolPoints {
			w.o.Count("dexbatch:points-burned")
		}
		if b != nil && b.LivenessFallback {
			w.o.Count("dexbatch:fallback-executed")
		}
	}
	return st, before, after
}

func (w *world) endblock(env string) {
	w.step(env, "endblock", 0, func(sm *fsm.StateMachine) lib.ErrorI {
		if err := sm.IncludeSameBlockDex(); err != nil {
			return err
		}
		sm.VerifSetHeight(sm.Height() + 1) // the next block
		return nil
	})
}

// swapOracle: when no receipts phase ran (our locked batch was empty), the orders of the remote batch were
// executed against x0 = remote.PoolSize, y0 = our liquidity pool: the pool is never drained and the product
// of the reserves never decreases. Receipts are read back from the real locked batch.
func (w *world) swapOracle(env string, chain uint64, remote *lib.DexBatch, before, after *Snapshot, op string) {
	if remote == nil || len(remote.Orders) == 0 {
		return
	}
	if lb := before.Locked[chain]; lb != nil && !lb.IsEmpty() {
		return
	}
	nl := after.Locked[chain]
	if nl == nil || len(nl.Receipts) != len(remote.Orders) {
		return
	}
	x0 := new(big.Int).SetUint64(remote.PoolSize)
	y0 := new(big.Int).SetUint64(before.pool(chain + liquidityAdd).Amount)
	x, paid := new(big.Int).Set(x0), new(big.Int)
	for i, r := range nl.Receipts {
		if r != 0 {
			x.Add(x, new(big.Int).SetUint64(remote.Orders[i].AmountForSale))
			paid.Add(paid, new(big.Int).SetUint64(r))
			w.o.Count("dex:order-filled")
		} else {
			w.o.Count("dex:order-failed")
		}
	}
	if paid.Cmp(y0) >= 0 {
		w.o.Fail("C20:swap-drains-reserve", fmt.Sprintf("env %s chain %d %q: paid %s of reserve %s", env, chain, op, paid, y0), w.replay())
	}
	k0 := new(big.Int).Mul(x0, y0)
	k1 := new(big.Int).Mul(x, new(big.Int).Sub(y0, paid))
	if k1.Cmp(k0) < 0 {
		w.o.Fail("C20:batch-lowers-product", fmt.Sprintf("env %s chain %d %q: x*y %s -> %s", env, chain, op, k0, k1), w.replay())
	}
}

// ---------------------------------------------------------------------------------------------
// generators

var dead = fsm.VerifDeadAddress()

func (w *world) percent() uint64 {
	switch w.r.Intn(6) {
	case 0:
		return 100
	case 1:
		return 1
	case 2:
		return uint64(w.r.Intn(103)) // incl. 0, 101, 102 (rejected)
	default:
		return uint64(1 + w.r.Intn(100))
	}
}

func (w *world) userOp(env string, counter uint64) {
	c := counter
	if w.r.Intn(40) == 0 {
		c = w.chain()
	}
	a := w.addr()
	if w.r.Intn(40) == 0 {
		a = drv.Bytes(w.r, 19)
	}
	switch k := w.r.Intn(10); {
	case k < 5:
		amt := w.amount()
		req := uint64(0)
		switch w.r.Intn(4) {
		case 0:
			req = 1
		case 1:
			req = w.amount()
		default:
			req = amt/2 + uint64(w.r.Intn(3)) // near a fair price for balanced pools
		}
		w.limit(env, c, a, amt, req, w.freshID())
	case k < 8:
		w.deposit(env, c, a, w.amount(), w.freshID())
	default:
		w.withdraw(env, c, a, w.percent(), w.freshID())
	}
}

// pipeCase: two real state machines — the root chain R (chain 1) and a nested chain N (chain 2, root 1) —
// exchanging their locked batches the way the controller does, with users trading on both sides.
func (w *world) pipeCase(blocks int) {
	w.chains = []uint64{1, 2}
	w.initEnv("R", 1, 1, 0, 2)
	w.initEnv("N", 2, 1, 0, 2)
	var poolR, poolN uint64
	switch w.r.Intn(5) {
	case 0:
		poolR, poolN = 1, 1
	case 1:
		poolR, poolN = uint64(1+w.r.Intn(1000)), uint64(1+w.r.Intn(1000))
	case 2:
		poolR, poolN = 1<<62, 1<<61
	case 3:
		poolR, poolN = w.amount()|1, w.amount()|1
	default:
		poolR, poolN = uint64(1_000_000+w.r.Intn(1_000_000)), uint64(1_000_000+w.r.Intn(1_000_000))
	}
	// each chain's supply stays below 2^64
	for _, env := range []string{"R", "N"} {
		budget := ^uint64(0) - (1 << 63)
		for i, a := range w.addrs {
			n := uint64(w.r.Int63n(1 << 45))
			if i == 0 {
				n = budget / 2
			}
			if i == 1 {
				n = uint64(w.r.Int63n(1 << 60))
			}
			w.fund(env, a, n)
		}
	}
	w.setpool("R", 2+liquidityAdd, poolR, 0, nil)
	w.setpool("N", 1+liquidityAdd, poolN, 0, nil)
	stallR := 0
	for b := 0; b < blocks; b++ {
		for i := w.r.Intn(5); i > 0; i-- {
			w.userOp("R", 2)
		}
		for i := w.r.Intn(5); i > 0; i-- {
			w.userOp("N", 1)
		}
		// nested chain, begin block: the root chain's locked batch for us (with points only for the fallback)
		nlb, _ := w.envs["N"].SM.GetDexBatch(1, true)
		lf := nlb != nil && !nlb.IsEmpty() && stallR > 3 && w.r.Intn(3) == 0
		rb, err := w.envs["R"].SM.GetDexBatch(2, true, lf)
		if err != nil {
			panic(err)
		}
		w.envs["R"].SM.ResetCaches()
		w.envs["N"].SM.ResetCaches()
		rb.LivenessFallback = lf
		if lf {
			w.o.Count("pipe:liveness-fallback")
			stallR = 0
		}
		_, before, after := w.dexbatch("N", 1, true, rb)
		w.swapOracle("N", 1, rb, before, after, "N dexbatch")
		// root chain: certificate result of the nested chain carrying its locked batch for the root
		if stallR > 0 || w.r.Intn(12) == 0 {
			if stallR == 0 {
				stallR = 1 + w.r.Intn(8)
			}
			stallR++
			if stallR > 9 {
				stallR = 0
			}
		} else {
			nb, err := w.envs["N"].SM.GetDexBatch(1, true)
			if err != nil {
				panic(err)
			}
			w.envs["N"].SM.ResetCaches()
			var in *lib.DexBatch
			if !nb.IsEmpty() || w.r.Intn(4) == 0 {
				in = nb.Copy()
			}
			_, before, after := w.dexbatch("R", 2, false, in)
			w.swapOracle("R", 2, in, before, after, "R dexbatch")
		}
		w.endblock("R")
		w.endblock("N")
	}
}

// fuzzCase: one state machine fed arbitrary (not necessarily honest) remote batches.
func (w *world) fuzzCase(n int) {
	w.chains = []uint64{2, 3}
	w.initEnv("R", 1, 2, 0, 2) // root chain id 2: a `nested` call works on chain 2
	for i, a := range w.addrs {
		amt := uint64(w.r.Int63n(1 << 50))
		if i == 0 {
			amt = 1 << 61
		}
		w.fund("R", a, amt) // Σ funds + pools < 2^64, as the supply of a real chain
	}
	for _, c := range w.chains {
		var pts []*lib.PoolPoints
		var tot uint64
		if w.r.Intn(2) == 0 {
			pts = append(pts, &lib.PoolPoints{Address: dead, Points: uint64(1 + w.r.Intn(1000))})
			for _, a := range w.addrs[:w.r.Intn(4)] {
				pts = append(pts, &lib.PoolPoints{Address: a, Points: uint64(1 + w.r.Intn(1000))})
			}
			for _, p := range pts {
				tot += p.Points
			}
		}
		w.setpool("R", c+liquidityAdd, (w.amount()>>2)|1, tot, pts)
	}
	for i := 0; i < n; i++ {
		c := w.chains[w.r.Intn(len(w.chains))]
		switch k := w.r.Intn(10); {
		case k < 5:
			w.userOp("R", c)
		case k < 9:
			b := w.randomRemote("R", c)
			nested := c == 2 && w.r.Intn(2) == 0
			if !nested && b != nil && w.r.Intn(4) != 0 {
				b.PoolPoints, b.TotalPoolPoints = nil, 0
			}
			_, before, after := w.dexbatch("R", c, nested, b)
			w.swapOracle("R", c, b, before, after, "R dexbatch")
		default:
			w.endblock("R")
		}
	}
}

func (w *world) randomRemote(env string, c uint64) *lib.DexBatch {
	if w.r.Intn(25) == 0 {
		return nil
	}
	e := w.envs[env]
	b := &lib.DexBatch{Committee: uint64(w.r.Intn(4)), PoolSize: w.amount(), LockedHeight: uint64(w.r.Intn(50))}
	if w.r.Intn(12) == 0 {
		b.PoolSize = 0
	}
	lb, _ := e.SM.GetDexBatch(c, true)
	e.SM.ResetCaches()
	// receipts for our locked batch: matching hash most of the time
	if lb != nil && !lb.IsEmpty() {
		if w.r.Intn(5) != 0 {
			b.ReceiptHash = lb.Hash()
		} else {
			b.ReceiptHash = drv.Bytes(w.r, 32)
		}
		nrec := len(lb.Orders)
		if w.r.Intn(10) == 0 {
			nrec += w.r.Intn(3) - 1
		}
		for i := 0; i < nrec; i++ {
			switch w.r.Intn(3) {
			case 0:
				b.Receipts = append(b.Receipts, 0)
			case 1:
				b.Receipts = append(b.Receipts, uint64(1+w.r.Intn(1000)))
			default:
				b.Receipts = append(b.Receipts, w.amount())
			}
		}
	} else if w.r.Intn(3) == 0 {
		b.ReceiptHash = drv.Bytes(w.r, 32)
	}
	for i := w.r.Intn(5); i > 0; i-- {
		amt := w.amount()
		b.Orders = append(b.Orders, &lib.DexLimitOrder{AmountForSale: amt, RequestedAmount: []uint64{0, 1, amt / 2, w.amount()}[w.r.Intn(4)], Address: w.addr(), OrderId: w.freshID()})
	}
	for i := w.r.Intn(3); i > 0; i-- {
		b.Deposits = append(b.Deposits, &lib.DexLiquidityDeposit{Amount: w.amount(), Address: w.addr(), OrderId: w.freshID()})
	}
	for i := w.r.Intn(3); i > 0; i-- {
		b.Withdrawals = append(b.Withdrawals, &lib.DexLiquidityWithdraw{Percent: w.percent(), Address: w.addr(), OrderId: w.freshID()})
	}
	if w.r.Intn(15) == 0 {
		b.LivenessFallback = true
		var tot uint64
		for _, a := range w.addrs[:w.r.Intn(3)] {
			p := uint64(1 + w.r.Intn(1000))
			b.PoolPoints = append(b.PoolPoints, &lib.PoolPoints{Address: a, Points: p})
			tot += p
		}
		b.TotalPoolPoints = tot
	}
	return b
}

// cappedCase: a liquidity pool one slot below MaxLiquidityProviders (5000); batches that bring several new
// providers exercise handleCappedBatchDeposit: incumbents first, newcomers ranked by amount (ties by hash),
// the free slot, eviction of the lowest holder, rejection (with refund on the local side).
func (w *world) cappedCase(rounds int) {
	w.chains = []uint64{2}
	w.initEnv("R", 1, 1, 0, 2)
	for i, a := range w.addrs {
		amt := uint64(w.r.Int63n(1 << 50))
		if i == 0 {
			amt = 1 << 60
		}
		w.fund("R", a, amt)
	}
	nLP := lib.MaxLiquidityProviders - 2 - w.r.Intn(3) // table of 4998..5000 entries with the two incumbents below
	pts := []*lib.PoolPoints{{Address: dead, Points: uint64(1 + w.r.Intn(1_000_000))}}
	tot := pts[0].Points
	base := uint64(1 + w.r.Intn(5000))
	for i := 1; i < nLP; i++ {
		a := make([]byte, 20)
		a[0] = 0xC0
		a[18], a[19] = byte(i>>8), byte(i)
		p := base + uint64(w.r.Intn(3000))
		if w.r.Intn(10) == 0 {
			p = base // ties for the lowest
		}
		pts = append(pts, &lib.PoolPoints{Address: a, Points: p})
		tot += p
	}
	// some of the case's ordinary users are incumbents
	for _, a := range w.addrs[:2] {
		p := uint64(1 + w.r.Intn(100_000))
		pts = append(pts, &lib.PoolPoints{Address: a, Points: p})
		tot += p
	}
	pool := uint64(1_000_000 + w.r.Int63n(1<<40))
	w.setpool("R", 2+liquidityAdd, pool, tot, pts)
	newAddr := func(k int) []byte {
		a := make([]byte, 20)
		a[0] = 0xE0
		a[19] = byte(k)
		return a
	}
	// the newcomers of the local rounds need funds on this chain
	for k := 0; k < 12; k++ {
		w.fund("R", newAddr(100+k), uint64(1<<40))
	}
	nn := 0
	for r := 0; r < rounds; r++ {
		if w.r.Intn(2) == 0 {
			// remote side: deposits arrive in the counter chain's batch (no token movement here)
			b := &lib.DexBatch{Committee: 1, PoolSize: uint64(1_000_000 + w.r.Int63n(1<<40)), ReceiptHash: drv.Bytes(w.r, 32)}
			lb, _ := w.envs["R"].SM.GetDexBatch(2, true)
			w.envs["R"].SM.ResetCaches()
			if lb != nil && !lb.IsEmpty() {
				b.ReceiptHash = lb.Hash()
				for range lb.Orders {
					b.Receipts = append(b.Receipts, 0)
				}
			}
			for i := 1 + w.r.Intn(5); i > 0; i-- {
				var a []byte
				switch w.r.Intn(5) {
				case 0:
					a = w.addr()
				case 1:
					a = pts[1+w.r.Intn(len(pts)-1)].Address
				default:
					nn++
					a = newAddr(nn % 40)
				}
				amt := uint64(1 + w.r.Int63n(1<<uint(10+w.r.Intn(30))))
				if w.r.Intn(8) == 0 {
					amt = 0
				}
				b.Deposits = append(b.Deposits, &lib.DexLiquidityDeposit{Amount: amt, Address: a, OrderId: w.freshID()})
				if w.r.Intn(3) == 0 { // split deposit of the same provider
					b.Deposits = append(b.Deposits, &lib.DexLiquidityDeposit{Amount: amt/2 + 1, Address: a, OrderId: w.freshID()})
				}
			}
			w.cappedBatch(b)
			w.o.Count("capped:remote-deposit-batch")
		} else {
			// local side (this chain is the origin): providers-to-be deposit here, often in several pieces; the
			// batch locks; the counter chain answers with the matching receipt hash; handleBatchDeposit(local=true)
			// then admits, evicts for, or rejects-and-refunds each newcomer against the full table
			if lb, _ := w.envs["R"].SM.GetDexBatch(2, true); lb != nil && !lb.IsEmpty() {
				// flush an outstanding locked batch first
				w.envs["R"].SM.ResetCaches()
				b := &lib.DexBatch{Committee: 1, PoolSize: uint64(1_000_000 + w.r.Int63n(1<<40)), ReceiptHash: lb.Hash()}
				for range lb.Orders {
					b.Receipts = append(b.Receipts, 0)
				}
				w.cappedBatch(b)
			}
			w.envs["R"].SM.ResetCaches()
			for i := 2 + w.r.Intn(4); i > 0; i-- {
				a := newAddr(100 + w.r.Intn(12))
				if w.r.Intn(5) == 0 {
					a = w.addr()
				}
				var amt uint64
				switch w.r.Intn(3) {
				case 0:
					amt = uint64(1 + w.r.Intn(2000)) // worth no points against this pool: rejected when the table is full
				case 1:
					amt = uint64(1 + w.r.Int63n(1<<38)) // enough to out-rank the lowest holder
				default:
					amt = uint64(1 + w.r.Int63n(1<<uint(10+w.r.Intn(28))))
				}
				w.deposit("R", 2, a, amt, w.freshID())
				for k := w.r.Intn(3); k > 0; k-- { // the same provider again, in the same batch
					w.deposit("R", 2, a, amt/uint64(1+w.r.Intn(3))+1, w.freshID())
				}
			}
			w.dexbatch("R", 2, false, &lib.DexBatch{Committee: 1, PoolSize: uint64(1_000_000 + w.r.Int63n(1<<40))}) // locks the batch
			lb, _ := w.envs["R"].SM.GetDexBatch(2, true)
			w.envs["R"].SM.ResetCaches()
			if lb != nil && !lb.IsEmpty() {
				b := &lib.DexBatch{Committee: 1, PoolSize: uint64(1_000_000 + w.r.Int63n(1<<40)), ReceiptHash: lb.Hash()}
				w.cappedBatch(b) // the batch that was outstanding is answered; ours (if it waited in next) locks now
				w.o.Count("capped:local-deposit-batch")
				if lb2, _ := w.envs["R"].SM.GetDexBatch(2, true); lb2 != nil && len(lb2.Deposits) > 0 {
					w.envs["R"].SM.ResetCaches()
					w.cappedBatch(&lib.DexBatch{Committee: 1, PoolSize: uint64(1_000_000 + w.r.Int63n(1<<40)), ReceiptHash: lb2.Hash()})
				}
				w.envs["R"].SM.ResetCaches()
			}
		}
		if w.r.Intn(3) == 0 {
			w.endblock("R")
		}
	}
}

// cappedCoverage classifies, from the real state only, what a deposit batch did to the provider table.
func (w *world) cappedCoverage(before, after *Snapshot, deps []*lib.DexLiquidityDeposit) {
	pb, pa := before.pool(2+liquidityAdd), after.pool(2+liquidityAdd)
	has := func(p *fsm.Pool, a []byte) bool {
		for _, x := range p.Points {
			if string(x.Address) == string(a) {
				return true
			}
		}
		return false
	}
	if len(pa.Points) == lib.MaxLiquidityProviders {
		w.o.Count("capped:table-full")
	}
	for _, x := range pb.Points {
		if !has(pa, x.Address) {
			w.o.Count("capped:provider-evicted")
		}
	}
	seen := map[string]bool{}
	for _, d := range deps {
		if seen[string(d.Address)] || d.Amount == 0 {
			continue
		}
		seen[string(d.Address)] = true
		switch {
		case !has(pb, d.Address) && has(pa, d.Address):
			w.o.Count("capped:newcomer-admitted")
		case !has(pb, d.Address) && !has(pa, d.Address):
			w.o.Count("capped:newcomer-rejected")
		}
	}
}

// cappedBatch runs one certificate batch and classifies what it did to remote and to local (locked) deposits.
func (w *world) cappedBatch(b *lib.DexBatch) {
	_, before, after := w.dexbatch("R", 2, false, b)
	if b != nil && len(b.Deposits) > 0 {
		w.cappedCoverage(before, after, b.Deposits)
	}
	if lb := before.Locked[2]; lb != nil && len(lb.Deposits) > 0 {
		w.cappedCoverage(before, after, lb.Deposits)
		w.cappedLocalCoverage(before, after, lb.Deposits)
	}
}

// cappedLocalCoverage: the origin-chain scenario a refund bug would hide in — the table is full, a provider who is
// not in it deposited in two or more pieces in one locked batch, and was rejected (so the whole aggregated amount
// must come back from the holding pool).
func (w *world) cappedLocalCoverage(before, after *Snapshot, deps []*lib.DexLiquidityDeposit) {
	pb, pa := before.pool(2+liquidityAdd), after.pool(2+liquidityAdd)
	has := func(p *fsm.Pool, a []byte) bool {
		for _, x := range p.Points {
			if string(x.Address) == string(a) {
				return true
			}
		}
		return false
	}
	if before.Locked[2] == nil || after.Locked[2] != nil && len(after.Locked[2].Deposits) == len(deps) && after.Locked[2].LockedHeight == before.Locked[2].LockedHeight {
		return // receipts were not applied
	}
	w.o.Count("capped:local-receipts-applied")
	pieces := map[string]int{}
	for _, d := range deps {
		if d.Amount != 0 {
			pieces[string(d.Address)]++
		}
	}
	for a, n := range pieces {
		if has(pb, []byte(a)) {
			continue
		}
		full := len(pa.Points) >= lib.MaxLiquidityProviders
		switch {
		case !has(pa, []byte(a)) && n >= 2 && full:
			w.o.Count("capped:local-split-newcomer-rejected-at-full-table")
		case !has(pa, []byte(a)) && full:
			w.o.Count("capped:local-single-newcomer-rejected-at-full-table")
		case has(pa, []byte(a)) && n >= 2:
			w.o.Count("capped:local-split-newcomer-admitted")
		}
	}
}

// seednext is a set-up operation (like fund/setpool): it stores a next batch directly and mints its pending amounts
// into the holding pool, so that a case can start with a batch near MaxDepositsPerDexBatch / MaxOrdersPerDexBatch.
func (w *world) seednext(env string, chain uint64, b *lib.DexBatch) {
	var pend uint64
	for _, o := range b.Orders {
		pend += o.AmountForSale
	}
	for _, d := range b.Deposits {
		pend += d.Amount
	}
	w.step(env, fmt.Sprintf("seednext %d %s", chain, ShowBatch(b)), pend, func(sm *fsm.StateMachine) lib.ErrorI {
		if err := sm.PoolAdd(chain+holdingAdd, pend); err != nil {
			return err
		}
		return sm.SetDexBatch(fsm.KeyForNextBatch(chain), proto.Clone(b).(*lib.DexBatch))
	})
}

// sameCapCase: IncludeSameBlockDex at the per-batch caps. A batch with almost MaxDepositsPerDexBatch deposits (and
// sometimes almost MaxOrdersPerDexBatch orders) is locked in this block; more deposits/orders arrive in the same
// block than still fit; at the end of the block only a prefix may move into the locked batch and the surplus must
// stay queued in next (its tokens stay in the holding pool and stay accounted for). Then the locked batch is
// settled through the receipts path with its ~5000 deposits.
func (w *world) sameCapCase(target bool) {
	w.chains = []uint64{2}
	w.initEnv("R", 1, 1, 0, 2)
	for i, a := range w.addrs {
		amt := uint64(w.r.Int63n(1 << 50))
		if i == 0 {
			amt = 1 << 60
		}
		w.fund("R", a, amt)
	}
	pool := uint64(1_000_000_000 + w.r.Int63n(1<<40))
	w.setpool("R", 2+liquidityAdd, pool, 20, []*lib.PoolPoints{{Address: dead, Points: 10}, {Address: w.addrs[0], Points: 10}})
	// the seeded next batch
	nDep := lib.MaxDepositsPerDexBatch - w.r.Intn(4)
	nOrd := 0
	switch w.r.Intn(3) {
	case 0:
		nOrd = lib.MaxOrdersPerDexBatch - w.r.Intn(3)
	case 1:
		nOrd = w.r.Intn(3)
	}
	if target { // the scenario itself, whatever the seed: 2 free deposit slots, 5 same-block deposits, no order overflow
		nDep, nOrd = lib.MaxDepositsPerDexBatch-2, 1
	}
	b := &lib.DexBatch{Committee: 2, PoolSize: pool}
	for i := 0; i < nDep; i++ {
		b.Deposits = append(b.Deposits, &lib.DexLiquidityDeposit{Address: w.addrs[i%len(w.addrs)], Amount: uint64(1 + w.r.Intn(1000)), OrderId: w.freshID()})
	}
	for i := 0; i < nOrd; i++ {
		b.Orders = append(b.Orders, &lib.DexLimitOrder{Address: w.addrs[i%len(w.addrs)], AmountForSale: uint64(1 + w.r.Intn(1000)), RequestedAmount: 1, OrderId: w.freshID()})
	}
	w.seednext("R", 2, b)
	// the batch locks in this block
	w.dexbatch("R", 2, false, &lib.DexBatch{Committee: 1, PoolSize: uint64(1_000_000 + w.r.Int63n(1<<40))})
	// same-block arrivals: more deposits than still fit; orders/withdrawals all fit or are absent
	kd := 1 + w.r.Intn(7)
	if target {
		kd = 5
	}
	for i := 0; i < kd; i++ {
		w.deposit("R", 2, w.addr(), uint64(1+w.r.Intn(5000)), w.freshID())
	}
	ko := 0
	if nOrd < lib.MaxOrdersPerDexBatch-8 && w.r.Intn(2) == 0 {
		ko = 1 + w.r.Intn(3)
	}
	if nOrd >= lib.MaxOrdersPerDexBatch-3 && w.r.Intn(2) == 0 {
		ko = 1 + w.r.Intn(5) // orders overflow too
	}
	for i := 0; i < ko; i++ {
		w.limit("R", 2, w.addr(), uint64(1+w.r.Intn(5000)), 1, w.freshID())
	}
	if w.r.Intn(2) == 0 {
		w.withdraw("R", 2, w.addrs[0], uint64(1+w.r.Intn(50)), w.freshID())
	}
	e := w.envs["R"]
	before, _ := e.Snapshot(w.chains)
	w.endblock("R")
	after, _ := e.Snapshot(w.chains)
	if lb, la := before.Locked[2], after.Locked[2]; lb != nil && la != nil {
		moved := len(la.Deposits) - len(lb.Deposits)
		left := 0
		if after.Next[2] != nil {
			left = len(after.Next[2].Deposits)
		}
		switch {
		case len(la.Deposits) == lib.MaxDepositsPerDexBatch && moved < kd && (after.Next[2] == nil || len(after.Next[2].Orders) == 0 && len(after.Next[2].Withdrawals) == 0):
			w.o.Count("samecap:deposits-overflow-orders-and-withdrawals-all-moved")
		case len(la.Deposits) == lib.MaxDepositsPerDexBatch && moved < kd:
			w.o.Count("samecap:deposits-overflow-other-lists-overflow-too")
		case moved == kd:
			w.o.Count("samecap:all-deposits-fit")
		}
		if left > 0 {
			w.o.Count("samecap:surplus-deposits-stay-in-next")
		}
	}
	// the next block: the counter chain answers; the ~5000 deposits are settled; the surplus rotates
	lb, _ := e.SM.GetDexBatch(2, true)
	e.SM.ResetCaches()
	if lb != nil && !lb.IsEmpty() {
		r := &lib.DexBatch{Committee: 1, PoolSize: uint64(1_000_000 + w.r.Int63n(1<<40)), ReceiptHash: lb.Hash()}
		for range lb.Orders {
			if w.r.Intn(2) == 0 {
				r.Receipts = append(r.Receipts, 0)
			} else {
				r.Receipts = append(r.Receipts, uint64(1+w.r.Intn(100)))
			}
		}
		w.dexbatch("R", 2, false, r)
	}
	w.endblock("R")
}

// bigBatchCase: remote batches of more than 256 limit orders (the repository's own tests stop at 255) with deliberately
// repeated (address, amountForSale, requestedAmount) contents at distances 1, 255, 256, 257, 512 and random. The
// payouts of HandleDexBatchOrders go through a map keyed by the per-order hash key (block hash, index, content
// without order id): every order must be paid what ITS OWN execution produced, at most once, and only if it was
// among the ≤ 250 orders settled in the block. Checked on the real state: settled ≤ cap; the counter-reserve ledger
// (CounterPoolSize of the rotated batch) moved by exactly the inputs of the paid orders; every account gained exactly
// the receipts of its orders; and — with a withdrawal in the batch, which rewrites the pool from the AMM ledger —
// Σ receipts = ledger debit (token conservation).
func (w *world) bigBatchCase(k, maxN int) {
	w.tag = ":order-key-collision"
	w.chains = []uint64{2}
	w.initEnv("R", 1, 1, 0, 2)
	lp := w.addrs[0]
	pool := uint64(1_000_000_000 + w.r.Int63n(1<<42))
	w.setpool("R", 2+liquidityAdd, pool, 20, []*lib.PoolPoints{{Address: dead, Points: 10}, {Address: lp, Points: 10}})
	n := 257 + w.r.Intn(maxN-256)
	if k%5 == 0 {
		n = 513 + w.r.Intn(90) // room for distance 512
	}
	traders := w.addrs[1:]
	mk := func() *lib.DexLimitOrder {
		req := uint64(1)
		if w.r.Intn(12) == 0 {
			req = 1 << 60 // fails its limit
		}
		return &lib.DexLimitOrder{Address: traders[w.r.Intn(len(traders))], AmountForSale: uint64(1000 + w.r.Intn(200_000)), RequestedAmount: req}
	}
	b := &lib.DexBatch{Committee: 1, PoolSize: uint64(1_000_000_000 + w.r.Int63n(1<<42)), ReceiptHash: drv.Bytes(w.r, 32)}
	switch k % 3 {
	case 0: // all orders have one content
		o := mk()
		o.RequestedAmount = 1
		for i := 0; i < n; i++ {
			b.Orders = append(b.Orders, &lib.DexLimitOrder{Address: o.Address, AmountForSale: o.AmountForSale, RequestedAmount: o.RequestedAmount})
		}
	case 1: // random contents with planted copies at the critical distances
		for i := 0; i < n; i++ {
			b.Orders = append(b.Orders, mk())
		}
		for _, d := range []int{1, 255, 256, 257, 512, 256, 256, 1 + w.r.Intn(n-1)} {
			for r := 0; r < 6; r++ {
				if i := w.r.Intn(n); i+d < n {
					src := b.Orders[i]
					b.Orders[i+d] = &lib.DexLimitOrder{Address: src.Address, AmountForSale: src.AmountForSale, RequestedAmount: src.RequestedAmount}
				}
			}
		}
	default: // a handful of contents, repeated at random distances
		var kinds []*lib.DexLimitOrder
		for i := 0; i < 2+w.r.Intn(3); i++ {
			kinds = append(kinds, mk())
		}
		for i := 0; i < n; i++ {
			src := kinds[w.r.Intn(len(kinds))]
			b.Orders = append(b.Orders, &lib.DexLimitOrder{Address: src.Address, AmountForSale: src.AmountForSale, RequestedAmount: src.RequestedAmount})
		}
	}
	for _, o := range b.Orders {
		o.OrderId = w.freshID()
	}
	withdraw := k%2 == 0
	if withdraw {
		b.Withdrawals = []*lib.DexLiquidityWithdraw{{Address: lp, Percent: uint64(1 + w.r.Intn(60)), OrderId: w.freshID()}}
	}
	st, before, after := w.dexbatch("R", 2, false, b)
	if st != "ok" {
		w.o.Count("bigbatch:" + st)
		return
	}
	nl := after.Locked[2]
	if nl == nil || len(nl.Receipts) != len(b.Orders) {
		w.o.Fail("C20:receipts-misaligned"+w.tag, fmt.Sprintf("%d orders, receipts %v", len(b.Orders), nl), w.replay())
		return
	}
	settled := 0
	inputs := new(big.Int)
	gain := map[string]*big.Int{}
	for i, r := range nl.Receipts {
		if r != 0 {
			settled++
			inputs.Add(inputs, new(big.Int).SetUint64(b.Orders[i].AmountForSale))
			a := string(b.Orders[i].Address)
			if gain[a] == nil {
				gain[a] = new(big.Int)
			}
			gain[a].Add(gain[a], new(big.Int).SetUint64(r))
		}
	}
	w.o.Count(fmt.Sprintf("bigbatch:orders>256:settled=%v", settled == lib.MaxOrdersSettledPerBlock))
	if settled > lib.MaxOrdersSettledPerBlock {
		w.o.Fail("C20:settled-exceeds-cap"+w.tag, fmt.Sprintf("%d orders paid in one block (cap %d), batch of %d", settled, lib.MaxOrdersSettledPerBlock, len(b.Orders)), w.replay())
	}
	if !withdraw {
		// the counter-reserve ledger moved by exactly the inputs of the orders that were paid
		dx := new(big.Int).Sub(new(big.Int).SetUint64(nl.CounterPoolSize), new(big.Int).SetUint64(b.PoolSize))
		if dx.Cmp(inputs) != 0 {
			w.o.Fail("C20:paid-without-ledger-update"+w.tag, fmt.Sprintf("counter reserve moved by %s, inputs of the %d paid orders %s", dx, settled, inputs), w.replay())
		}
	}
	bal := func(s *Snapshot, a string) *big.Int {
		for _, x := range s.Accounts {
			if string(x.Address) == a {
				return new(big.Int).SetUint64(x.Amount)
			}
		}
		return new(big.Int)
	}
	for _, t := range traders {
		g := gain[string(t)]
		if g == nil {
			g = new(big.Int)
		}
		if d := new(big.Int).Sub(bal(after, string(t)), bal(before, string(t))); d.Cmp(g) != 0 {
			w.o.Fail("C20:account-gain-ne-receipts"+w.tag, fmt.Sprintf("account %x gained %s, its receipts sum to %s", t, d, g), w.replay())
		}
	}
}

// lfMatchCase: on the nested chain, a root batch that carries BOTH the liveness-fallback flag and the receipts for our
// locked batch (matching hash), while a second batch of other users is already queued in next (its tokens sit in the
// same holding pool). The locked batch must be settled exactly once — refunded by the fallback, not also by receipts —
// and the queued batch's escrow must stay untouched and accounted for.
func (w *world) lfMatchCase() {
	w.tag = ":fallback-with-receipts"
	w.chains = []uint64{1}
	w.initEnv("N", 2, 1, 0, 2)
	for i, a := range w.addrs {
		amt := uint64(1_000_000 + w.r.Int63n(1<<40))
		if i == 0 {
			amt = 1 << 50
		}
		w.fund("N", a, amt)
	}
	w.setpool("N", 1+liquidityAdd, uint64(1_000_000+w.r.Int63n(1<<36)), 20, []*lib.PoolPoints{{Address: dead, Points: 10}, {Address: w.addrs[0], Points: 10}})
	user := func(n int) {
		for i := 0; i < n; i++ {
			if w.r.Intn(3) == 0 {
				w.deposit("N", 1, w.addr(), uint64(1+w.r.Intn(100_000)), w.freshID())
			} else {
				w.limit("N", 1, w.addr(), uint64(1+w.r.Intn(100_000)), 1, w.freshID())
			}
		}
	}
	user(2 + w.r.Intn(4))
	w.dexbatch("N", 1, true, &lib.DexBatch{Committee: 2, PoolSize: uint64(1_000_000 + w.r.Int63n(1<<36))}) // locks batch A
	user(1 + w.r.Intn(4))                                                                                   // batch B waits in next
	if w.r.Intn(2) == 0 {
		w.endblock("N")
	}
	e := w.envs["N"]
	lb, _ := e.SM.GetDexBatch(1, true)
	e.SM.ResetCaches()
	if lb == nil || lb.IsEmpty() {
		return
	}
	r := &lib.DexBatch{Committee: 2, PoolSize: uint64(1_000_000 + w.r.Int63n(1<<36)), ReceiptHash: lb.Hash(), LivenessFallback: true,
		PoolPoints: []*lib.PoolPoints{{Address: dead, Points: 7}, {Address: w.addrs[1], Points: 5}}, TotalPoolPoints: 12}
	for range lb.Orders {
		if w.r.Intn(2) == 0 {
			r.Receipts = append(r.Receipts, 0)
		} else {
			r.Receipts = append(r.Receipts, uint64(1+w.r.Intn(1000)))
		}
	}
	if w.r.Intn(5) == 0 {
		r.ReceiptHash = drv.Bytes(w.r, 32) // the ordinary fallback: no receipts arrived
	}
	w.dexbatch("N", 1, true, r)
	w.o.Count("lfmatch:fallback-with-receipts")
	w.endblock("N")
	// the queued batch is now locked; settle it normally
	if lb2, _ := e.SM.GetDexBatch(1, true); lb2 != nil && !lb2.IsEmpty() {
		e.SM.ResetCaches()
		r2 := &lib.DexBatch{Committee: 2, PoolSize: uint64(1_000_000 + w.r.Int63n(1<<36)), ReceiptHash: lb2.Hash()}
		for range lb2.Orders {
			r2.Receipts = append(r2.Receipts, uint64(w.r.Intn(2)*(1+w.r.Intn(1000))))
		}
		w.dexbatch("N", 1, true, r2)
	}
	e.SM.ResetCaches()
}
