package c20

import (
	"bytes"
	"fmt"
	"math/big"

	"github.com/canopy-network/canopy/fsm"
	"github.com/canopy-network/canopy/lib"
	"github.com/canopy-network/canopy/lib/crypto"

	"verifharness/drv"
)

// txIDProbe checks, on the real transaction path (CheckTx + ApplyTransaction), what a sell order's id is
// derived from. The id is the first 20 bytes of tx.GetHash(), i.e. of the hash of the RE-MARSHALLED
// transaction, while replay protection (CheckReplay, the same-block de-duplicator) keys on the hash of the
// RAW bytes. A second, byte-different encoding of the same signed create-order therefore passes replay
// protection, verifies (the signature is over the re-marshalled form), gets the SAME order id, overwrites
// the order and credits escrow a second time: the escrow pool exceeds the open orders.
func txIDProbe(o *drv.Out) {
	o.Case("txid-probe")
	e, err := NewEnv(1, 1, 0)
	if err != nil {
		panic(err)
	}
	defer e.Close()
	e.SM.VerifSetHeight(3)
	pk, kerr := crypto.StringToBLS12381PrivateKey("01553a101301cd7019b78ffa1186842dd93923e563b8ae22e2ab33ae889b23ee")
	if kerr != nil {
		panic(kerr)
	}
	seller := pk.PublicKey().Address()
	const amount, chain = uint64(5_000_000), uint64(2)
	feeParams, perr := e.SM.GetParamsFee()
	if perr != nil {
		panic(perr)
	}
	fee := feeParams.CreateOrderFee
	if st := e.Apply(func() lib.ErrorI { return e.SM.AccountAdd(seller, 3*amount+3*fee) }); st != "ok" {
		panic(st)
	}
	msg := &fsm.MessageCreateOrder{ChainId: chain, AmountForSale: amount, RequestedAmount: 7, SellerReceiveAddress: []byte{1, 2, 3},
		SellersSendAddress: seller.Bytes()}
	a, aerr := lib.NewAny(msg)
	if aerr != nil {
		panic(aerr)
	}
	tx := &lib.Transaction{MessageType: msg.Name(), Msg: a, CreatedHeight: 3, Time: 1_700_000_000_000_000, Fee: fee, NetworkId: uint64(e.SM.NetworkID), ChainId: 1}
	if serr := tx.Sign(pk); serr != nil {
		panic(serr)
	}
	raw1, merr := lib.Marshal(tx)
	if merr != nil {
		panic(merr)
	}
	// the same transaction, encoded with an explicit zero `nonce` field (field 10, varint 0) appended
	raw2 := append(append([]byte{}, raw1...), 0x50, 0x00)
	h1, h2 := crypto.HashString(raw1), crypto.HashString(raw2)
	steps := []string{fmt.Sprintf("tx1 raw=%x hash=%s", raw1, h1), fmt.Sprintf("tx2 = tx1 ++ 5000 hash=%s", h2)}
	var id1, id2 []byte
	st1 := e.Apply(func() lib.ErrorI {
		res, _, err := e.SM.ApplyTransaction(0, raw1, h1, nil)
		if err != nil {
			return err
		}
		// the block that contains tx1 is indexed, as at commit
		return e.Store.IndexBlock(&lib.BlockResult{BlockHeader: &lib.BlockHeader{Height: 3, Hash: bytes.Repeat([]byte{3}, 32)}, Transactions: []*lib.TxResult{res}})
	})
	s1, _ := e.Snapshot([]uint64{chain})
	for _, b := range s1.Books {
		for _, ord := range b.Orders {
			id1 = ord.Id
		}
	}
	e.SM.VerifSetHeight(4)
	// identical bytes are rejected as a replay
	stDup := e.Apply(func() lib.ErrorI { _, _, err := e.SM.ApplyTransaction(0, raw1, h1, nil); return err })
	st2 := e.Apply(func() lib.ErrorI { _, _, err := e.SM.ApplyTransaction(0, raw2, h2, nil); return err })
	s2, _ := e.Snapshot([]uint64{chain})
	n := 0
	for _, b := range s2.Books {
		for _, ord := range b.Orders {
			id2 = ord.Id
			n++
		}
	}
	canon, _ := tx.GetHash()
	steps = append(steps, fmt.Sprintf("apply tx1: %s; order id %x", st1, id1), fmt.Sprintf("apply tx1 again (same bytes): %s", stDup),
		fmt.Sprintf("apply tx2: %s; orders in book: %d, id %x", st2, n, id2), fmt.Sprintf("canonical tx hash[:20] = %x", canon[:20]))
	o.Count("txid-probe:tx1:" + st1)
	o.Count("txid-probe:identical-bytes:" + stDup)
	o.Count("txid-probe:reencoded:" + st2)
	o.Extra["order_id_source"] = "first 20 bytes of SHA-256 of the RE-MARSHALLED transaction (tx.GetHash()), not of the raw bytes that replay protection hashes"
	sum, _ := s2.openOrders(chain)
	esc := new(big.Int).SetUint64(s2.pool(chain + escrowAdd).Amount)
	o.Extra["txid_probe"] = steps
	if st1 == "ok" && st2 == "ok" && bytes.Equal(id1, id2) && esc.Cmp(sum) != 0 {
		o.Fail("C20:escrow-ne-open-orders:reencoded-create-order-shares-id",
			fmt.Sprintf("two byte-different encodings of one signed create-order were both executed (hashes %s, %s), both got order id %x; the book holds %d order worth %s while the escrow pool holds %s", h1[:16], h2[:16], id1, n, sum, esc),
			map[string]any{"steps": steps})
	}
}

// subsidyTxProbe: the same through the real transaction path (CheckTx: CheckMessage -> msg.Check, fee, signature; then
// HandleMessage): a signed MessageSubsidy whose ChainId is chain 2's escrow pool id was ACCEPTED and credited that pool before
// /repo eca9d8a; it must now be refused (regression: fails with the finding's signature if it is accepted again).
func subsidyTxProbe(o *drv.Out) {
	o.Case("subsidy-tx-probe")
	e, err := NewEnv(1, 1, 0)
	if err != nil {
		panic(err)
	}
	defer e.Close()
	e.SM.VerifSetHeight(3)
	pk, kerr := crypto.StringToBLS12381PrivateKey("01553a101301cd7019b78ffa1186842dd93923e563b8ae22e2ab33ae889b23ee")
	if kerr != nil {
		panic(kerr)
	}
	sender := pk.PublicKey().Address()
	feeParams, perr := e.SM.GetParamsFee()
	if perr != nil {
		panic(perr)
	}
	fee := feeParams.SubsidyFee
	if st := e.Apply(func() lib.ErrorI { return e.SM.AccountAdd(sender, 1_000_000+fee) }); st != "ok" {
		panic(st)
	}
	const chain = uint64(2)
	msg := &fsm.MessageSubsidy{Address: sender.Bytes(), ChainId: chain + escrowAdd, Amount: 777}
	a, aerr := lib.NewAny(msg)
	if aerr != nil {
		panic(aerr)
	}
	tx := &lib.Transaction{MessageType: msg.Name(), Msg: a, CreatedHeight: 3, Time: 1_700_000_000_000_001, Fee: fee, NetworkId: uint64(e.SM.NetworkID), ChainId: 1}
	if serr := tx.Sign(pk); serr != nil {
		panic(serr)
	}
	raw, merr := lib.Marshal(tx)
	if merr != nil {
		panic(merr)
	}
	st := e.Apply(func() lib.ErrorI { _, _, err := e.SM.ApplyTransaction(0, raw, crypto.HashString(raw), nil); return err })
	snap, _ := e.Snapshot([]uint64{chain})
	sum, _ := snap.openOrders(chain)
	esc := snap.pool(chain + escrowAdd).Amount
	o.Count("subsidy-tx-probe:ApplyTransaction:" + st)
	o.Extra["subsidy_tx_probe"] = fmt.Sprintf("signed MessageSubsidy{ChainId: %d (= chain %d + EscrowPoolAddend), Amount: 777} through ApplyTransaction: %s; escrow pool of chain %d now %d, open sell orders %s", chain+escrowAdd, chain, st, chain, esc, sum)
	if st == "ok" && new(big.Int).SetUint64(esc).Cmp(sum) != 0 {
		o.Fail("C20:escrow-ne-open-orders:subsidy-to-pool-id", fmt.Sprintf("a signed MessageSubsidy with ChainId = %d (chain %d's escrow pool id) was accepted by ApplyTransaction: escrow pool %d, open sell orders %s", chain+escrowAdd, chain, esc, sum),
			map[string]any{"tx": fmt.Sprintf("%x", raw), "steps": []string{"fund sender", "ApplyTransaction(signed MessageSubsidy{ChainId: 65537, Amount: 777})"}})
	}
}
