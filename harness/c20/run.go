package c20

import (
	"fmt"
	"math/big"
	"math/rand"
	"strings"

	"github.com/canopy-network/canopy/fsm"
	"github.com/canopy-network/canopy/lib"

	"verifharness/drv"
)

const (
	escrowAdd    = uint64(65535)
	holdingAdd   = uint64(16383)
	liquidityAdd = uint64(32767)
)

// world is one case: one or two real state machines, the op history (the replay), and the oracle.
type world struct {
	o      *drv.Out
	r      *rand.Rand
	envs   map[string]*Env
	chains []uint64 // chain ids whose pools/batches are scanned
	addrs  [][]byte
	ids    [][]byte
	idChain map[string]uint64 // chain an id was created on
	hist   []string
	freshN int
	// property oracle bookkeeping (per env)
	lastK map[string]*big.Int
	// witness cases run inputs the theorems exclude by hypothesis; the oracle is then replaced by an expectation
	noOracle bool
	// honest: every batch in this case comes from real state machines (pipe-*); provider tables must then never
	// be erased while the pool holds funds
	honest bool
	// tag is appended to the escrow oracle's signature in families that aim at one mechanism (e.g. ":close-overflow")
	tag string
}

func (w *world) close() {
	for _, e := range w.envs {
		e.Close()
	}
}

func (w *world) record(env, op, st string) *Snapshot {
	e := w.envs[env]
	snap, err := e.Snapshot(w.chains)
	if err != nil {
		panic(fmt.Sprintf("snapshot: %v", err))
	}
	line := env + " " + op
	w.hist = append(w.hist, line)
	w.o.Op(line, st+" "+snap.Dump())
	w.o.Count("op:" + strings.SplitN(op, " ", 2)[0])
	w.o.Count("result:" + strings.SplitN(op, " ", 2)[0] + ":" + st)
	w.o.Nontrivial(line + "|" + st)
	return snap
}

func (w *world) replay() any {
	h := w.hist
	if len(h) > 400 {
		h = h[len(h)-400:]
	}
	return map[string]any{"ops": append([]string{}, h...)}
}

// ---------------------------------------------------------------------------------------------
// property oracle, evaluated on the real state only

func (w *world) oracle(env string, before, after *Snapshot, op string, minted *big.Int) {
	if w.noOracle {
		return
	}
	for _, c := range w.chains {
		// escrow pool = Σ open sell orders of the chain
		sum, _ := after.openOrders(c)
		esc := new(big.Int).SetUint64(after.pool(c + escrowAdd).Amount)
		if esc.Cmp(sum) != 0 {
			w.o.Fail("C20:escrow-ne-open-orders"+w.tag, fmt.Sprintf("env %s chain %d after %q: escrow pool %s, open orders %s", env, c, op, esc, sum), w.replay())
		}
		// holding pool = Σ pending DEX orders and deposits (next ∪ locked)
		hold := new(big.Int).SetUint64(after.pool(c + holdingAdd).Amount)
		if pend := after.pending(c); hold.Cmp(pend) != 0 {
			w.o.Fail("C20:holding-ne-pending"+w.tag, fmt.Sprintf("env %s chain %d after %q: holding pool %s, pending %s", env, c, op, hold, pend), w.replay())
		}
		// Σ points = total
		lp := after.pool(c + liquidityAdd)
		ps := new(big.Int)
		for _, p := range lp.Points {
			ps.Add(ps, new(big.Int).SetUint64(p.Points))
		}
		if bp := before.pool(c + liquidityAdd); w.honest && bp.TotalPoolPoints != 0 && lp.TotalPoolPoints == 0 && lp.Amount != 0 {
			w.o.Fail("C20:provider-points-erased-pool-funded", fmt.Sprintf("env %s chain %d after %q: %d providers with %d points before, none after, pool still holds %d", env, c, op, len(bp.Points), bp.TotalPoolPoints, lp.Amount), w.replay())
		}
		if ps.Cmp(new(big.Int).SetUint64(lp.TotalPoolPoints)) != 0 {
			w.o.Fail("C20:points-sum-ne-total", fmt.Sprintf("env %s chain %d after %q: Σ points %s, total %d", env, c, op, ps, lp.TotalPoolPoints), w.replay())
		}
	}
	// conservation (exact integers; the sum may exceed 2^64 in boundary cases, nothing here wraps): these operations only move tokens
	want := new(big.Int).Add(before.Total(), minted)
	if after.Total().Cmp(want) != 0 {
		sig := "C20:tokens-not-conserved"
		if w.tag == ":order-key-collision" {
			// in the bigbatch family the remote batch carries a withdrawal, so the pool is rewritten from the AMM ledger:
			// tokens are conserved exactly when Σ receipts paid out = what the ledger was debited
			sig = "C20:receipts-ne-ledger-debit" + w.tag
		}
		w.o.Fail(sig, fmt.Sprintf("env %s op %q: total %s -> %s (minted %s)", env, op, before.Total(), after.Total(), minted), w.replay())
	}
}

// ---------------------------------------------------------------------------------------------
// generators

func (w *world) amount() uint64 {
	switch w.r.Intn(8) {
	case 0:
		return 1
	case 1:
		return uint64(w.r.Intn(1000))
	case 2:
		return uint64(1) << uint(w.r.Intn(64))
	case 3:
		return uint64(w.r.Int63n(1_000_000_000))
	case 4:
		return drv.Uint64(w.r)
	default:
		return uint64(w.r.Int63n(1 << 40))
	}
}

func (w *world) addr() []byte { return w.addrs[w.r.Intn(len(w.addrs))] }

func (w *world) chain() uint64 {
	if w.r.Intn(40) == 0 {
		return []uint64{0, 16384, 131071, 70000}[w.r.Intn(4)]
	}
	return w.chains[w.r.Intn(len(w.chains))]
}

// freshID is what the transaction hash gives a new order: an id nobody used before in this case.
func (w *world) freshID() []byte {
	w.freshN++
	h := lib.MemHash([]byte(fmt.Sprintf("%s/%d", w.o.CurCase(), w.freshN)))
	id := make([]byte, 20)
	for i := range id {
		id[i] = byte(h >> (uint(i%8) * 8))
	}
	id[19] = byte(w.freshN)
	id[18] = byte(w.freshN >> 8)
	w.ids = append(w.ids, id)
	return id
}

func (w *world) knownID() []byte {
	if len(w.ids) == 0 || w.r.Intn(15) == 0 {
		b := make([]byte, 20)
		w.r.Read(b)
		return b
	}
	// recent ids are likelier to be live
	n := len(w.ids)
	if w.r.Intn(2) == 0 && n > 4 {
		return w.ids[n-1-w.r.Intn(4)]
	}
	return w.ids[w.r.Intn(n)]
}

func (w *world) extAddr() []byte {
	switch w.r.Intn(12) {
	case 0:
		return nil
	case 1:
		return drv.Bytes(w.r, 256)
	case 2:
		return drv.Bytes(w.r, 255)
	default:
		return drv.Bytes(w.r, 1+w.r.Intn(40))
	}
}

func (w *world) data() []byte {
	switch w.r.Intn(10) {
	case 0:
		return drv.Bytes(w.r, 101)
	case 1:
		return drv.Bytes(w.r, 100)
	case 2, 3:
		return drv.Bytes(w.r, w.r.Intn(30))
	default:
		return nil
	}
}

// ---------------------------------------------------------------------------------------------
// operations on the real state machine

func (w *world) initEnv(name string, self, root, minOrder, height uint64) {
	e, err := NewEnv(self, root, minOrder)
	if err != nil {
		panic(err)
	}
	e.SM.VerifSetHeight(height)
	w.envs[name] = e
	snap, err2 := e.Snapshot(w.chains)
	if err2 != nil {
		panic(err2)
	}
	line := fmt.Sprintf("%s init %d %d %d %d", name, self, root, minOrder, height)
	w.hist = append(w.hist, line)
	w.o.Op(line, "ok "+snap.Dump())
}

func (w *world) step(env, op string, minted uint64, f func(sm *fsm.StateMachine) lib.ErrorI) (string, *Snapshot) {
	e := w.envs[env]
	before, err := e.Snapshot(w.chains)
	if err != nil {
		panic(err)
	}
	st := e.Apply(func() lib.ErrorI { return f(e.SM) })
	after := w.record(env, op, st)
	m := new(big.Int)
	if st == "ok" {
		m.SetUint64(minted)
	}
	w.oracle(env, before, after, op, m)
	return st, after
}

func (w *world) fund(env string, a []byte, n uint64) {
	w.step(env, fmt.Sprintf("fund %s %d", hx(a), n), n, func(sm *fsm.StateMachine) lib.ErrorI { return sm.AccountAdd(addr(a), n) })
}

func (w *world) create(env string, chain uint64, id, seller []byte, amount, requested uint64, recv, data []byte) string {
	op := fmt.Sprintf("create %d %s %s %d %d %s %s", chain, hx(id), hx(seller), amount, requested, hx(recv), hx(data))
	st, _ := w.step(env, op, 0, func(sm *fsm.StateMachine) lib.ErrorI {
		msg := &fsm.MessageCreateOrder{ChainId: chain, Data: data, AmountForSale: amount, RequestedAmount: requested,
			SellerReceiveAddress: recv, SellersSendAddress: seller}
		if err := msg.Check(); err != nil {
			return err
		}
		msg.OrderId = id // PopulateSpecialMessageFields: first 20 bytes of the transaction hash
		return sm.HandleMessage(msg)
	})
	return st
}

func (w *world) edit(env string, chain uint64, id []byte, amount, requested uint64, recv, data []byte) {
	op := fmt.Sprintf("edit %d %s %d %d %s %s", chain, hx(id), amount, requested, hx(recv), hx(data))
	w.step(env, op, 0, func(sm *fsm.StateMachine) lib.ErrorI {
		msg := &fsm.MessageEditOrder{OrderId: id, ChainId: chain, Data: data, AmountForSale: amount, RequestedAmount: requested, SellerReceiveAddress: recv}
		if err := msg.Check(); err != nil {
			return err
		}
		if _, err := sm.GetAuthorizedSignersFor(msg); err != nil {
			return err
		}
		return sm.HandleMessage(msg)
	})
}

func (w *world) del(env string, chain uint64, id []byte) {
	op := fmt.Sprintf("delete %d %s", chain, hx(id))
	w.step(env, op, 0, func(sm *fsm.StateMachine) lib.ErrorI {
		msg := &fsm.MessageDeleteOrder{OrderId: id, ChainId: chain}
		if err := msg.Check(); err != nil {
			return err
		}
		if _, err := sm.GetAuthorizedSignersFor(msg); err != nil {
			return err
		}
		return sm.HandleMessage(msg)
	})
}

func (w *world) swaps(env string, chain uint64, ords *lib.Orders) {
	var l, r, c []string
	for _, x := range ords.LockOrders {
		if x == nil {
			l = append(l, "nil")
		} else {
			l = append(l, fmt.Sprintf("%s:%s:%s:%d", hx(x.OrderId), hx(x.BuyerReceiveAddress), hx(x.BuyerSendAddress), x.BuyerChainDeadline))
		}
	}
	for _, x := range ords.ResetOrders {
		r = append(r, hx(x))
	}
	for _, x := range ords.CloseOrders {
		c = append(c, hx(x))
	}
	op := fmt.Sprintf("swaps %d L=%s R=%s C=%s", chain, strings.Join(l, ","), strings.Join(r, ","), strings.Join(c, ","))
	e := w.envs[env]
	before, _ := e.Snapshot(w.chains)
	_, after := w.step(env, op, 0, func(sm *fsm.StateMachine) lib.ErrorI {
		sm.HandleCommitteeSwaps(ords, chain)
		return nil
	})
	// closing pays exactly the escrowed amount exactly once: what left the book = what left escrow = what accounts gained
	bs, bn := before.openOrders(chain)
	as, an := after.openOrders(chain)
	gone := new(big.Int).Sub(bs, as)
	escDelta := new(big.Int).Sub(new(big.Int).SetUint64(before.pool(chain+escrowAdd).Amount), new(big.Int).SetUint64(after.pool(chain+escrowAdd).Amount))
	gain := new(big.Int).Sub(after.accountsTotal(), before.accountsTotal())
	if !w.noOracle && (gone.Cmp(escDelta) != 0 || gone.Cmp(gain) != 0) {
		w.o.Fail("C20:close-not-exact", fmt.Sprintf("env %s chain %d %q: orders removed %d worth %s, escrow paid %s, accounts gained %s", env, chain, op, bn-an, gone, escDelta, gain), w.replay())
	}
	if bn != an {
		w.o.Count("swaps:closed-orders")
	}
}

// chainOf: mostly the chain the order lives on, sometimes another one
func (w *world) chainOf(id []byte) uint64 {
	if c, ok := w.idChain[string(id)]; ok && w.r.Intn(8) != 0 {
		return c
	}
	return w.chain()
}

// idOn: an id created on the chain (live or already gone), sometimes any id
func (w *world) idOn(ch uint64) []byte {
	for try := 0; try < 6; try++ {
		id := w.knownID()
		if w.idChain[string(id)] == ch {
			return id
		}
	}
	return w.knownID()
}

func (w *world) randomOrders(ch uint64) *lib.Orders {
	ords := &lib.Orders{}
	nl, nr, nc := w.r.Intn(4), w.r.Intn(3), w.r.Intn(4)
	for i := 0; i < nl; i++ {
		if w.r.Intn(25) == 0 {
			ords.LockOrders = append(ords.LockOrders, nil)
			continue
		}
		recv := w.addr()
		if w.r.Intn(20) == 0 {
			recv = nil // a lock that names no buyer leaves the order open
		}
		ords.LockOrders = append(ords.LockOrders, &lib.LockOrder{OrderId: w.idOn(ch), BuyerReceiveAddress: recv,
			BuyerSendAddress: drv.Bytes(w.r, 1+w.r.Intn(30)), BuyerChainDeadline: w.amount()})
	}
	for i := 0; i < nr; i++ {
		ords.ResetOrders = append(ords.ResetOrders, w.idOn(ch))
	}
	for i := 0; i < nc; i++ {
		ords.CloseOrders = append(ords.CloseOrders, w.idOn(ch))
	}
	// duplicates and conflicts inside one certificate
	if w.r.Intn(3) == 0 && len(ords.CloseOrders) > 0 {
		ords.CloseOrders = append(ords.CloseOrders, ords.CloseOrders[0])
	}
	if w.r.Intn(3) == 0 && len(ords.CloseOrders) > 0 {
		ords.ResetOrders = append(ords.ResetOrders, ords.CloseOrders[w.r.Intn(len(ords.CloseOrders))])
	}
	if w.r.Intn(3) == 0 && len(ords.LockOrders) > 0 && ords.LockOrders[0] != nil {
		ords.CloseOrders = append(ords.CloseOrders, ords.LockOrders[0].OrderId)
		if w.r.Intn(2) == 0 {
			ords.LockOrders = append(ords.LockOrders, &lib.LockOrder{OrderId: ords.LockOrders[0].OrderId, BuyerReceiveAddress: w.addr(),
				BuyerSendAddress: []byte{1}, BuyerChainDeadline: 9})
		}
	}
	if w.r.Intn(4) == 0 && len(ords.ResetOrders) > 0 {
		ords.ResetOrders = append(ords.ResetOrders, ords.ResetOrders[0])
	}
	return ords
}

// sellOrderCase: random create/edit/delete and certificate instructions on one chain.
func (w *world) sellOrderCase(n int) {
	minOrder := []uint64{0, 0, 1, 1000}[w.r.Intn(4)]
	w.initEnv("R", 1, 1, minOrder, 2)
	// fund: the sum of everything minted stays below 2^64 (as the supply of a real chain does)
	budget := ^uint64(0)
	for i, a := range w.addrs {
		var n uint64
		switch {
		case i == 0:
			n = budget / 2
		case i == 1:
			n = budget / 4
		default:
			n = uint64(w.r.Int63n(1 << 50))
		}
		w.fund("R", a, n)
	}
	for i := 0; i < n; i++ {
		switch k := w.r.Intn(20); {
		case k < 7:
			amt := w.amount()
			ch := w.chain()
			if w.r.Intn(3) == 0 {
				amt = minOrder + uint64(w.r.Intn(3))
				if minOrder > 0 && w.r.Intn(2) == 0 {
					amt = minOrder - 1
				}
			}
			id := w.freshID()
			w.idChain[string(id)] = ch
			w.create("R", ch, id, w.pickSeller(), amt, w.amount(), w.extAddr(), w.data())
		case k < 10:
			id := w.knownID()
			w.edit("R", w.chainOf(id), id, w.amount(), w.amount(), w.extAddr(), w.data())
		case k < 12:
			id := w.knownID()
			w.del("R", w.chainOf(id), id)
		default:
			ch := w.chain()
			w.swaps("R", ch, w.randomOrders(ch))
		}
	}
}

func (w *world) pickSeller() []byte {
	switch w.r.Intn(30) {
	case 0:
		return nil
	case 1:
		return drv.Bytes(w.r, 19)
	}
	return w.addr()
}

func newWorld(o *drv.Out, id string) *world {
	o.Case(id)
	w := &world{o: o, r: o.Rng, envs: map[string]*Env{}, chains: []uint64{2, 3, 16383}, lastK: map[string]*big.Int{}, idChain: map[string]uint64{}}
	for i := 0; i < 6; i++ {
		a := make([]byte, 20)
		for j := range a {
			a[j] = byte(0xA0 + i)
		}
		a[19] = byte(i)
		w.addrs = append(w.addrs, a)
	}
	return w
}

func (w *world) subsidy(env string, a []byte, poolID, amount uint64, opcode []byte) string {
	op := fmt.Sprintf("subsidy %s %d %d %s", hx(a), poolID, amount, hx(opcode))
	st, _ := w.step(env, op, 0, func(sm *fsm.StateMachine) lib.ErrorI {
		msg := &fsm.MessageSubsidy{Address: a, ChainId: poolID, Amount: amount, Opcode: opcode}
		if err := msg.Check(); err != nil {
			return err
		}
		return sm.HandleMessage(msg)
	})
	return st
}

// subsidyCase (regression for the finding repaired in /repo eca9d8a: MessageSubsidy.Check did not validate ChainId while
// HandleMessageSubsidy credits pools[ChainId]; the pool-id forms must now answer InvalidChainId). The family
// sends subsidies to every pool-id form of a chain that has open sell orders and pending DEX operations (x, x+Escrow,
// x+Holding, x+Liquidity), to MaxChainId and just above, to the DAO pool, to the chain's own fee pool and to 2^64-1, and
// evaluates the identities of C20 on the real state after each one.
func (w *world) subsidyCase(k int) {
	w.tag = ":subsidy-to-pool-id"
	w.chains = []uint64{2, 3}
	w.initEnv("R", 1, 1, 0, 2)
	a, b := w.addrs[0], w.addrs[1]
	w.fund("R", a, 1_000_000)
	w.fund("R", b, 1_000_000)
	x := w.chains[k%2]
	id1, id2 := w.freshID(), w.freshID()
	w.create("R", x, id1, a, uint64(100+w.r.Intn(1000)), 7, []byte{9}, nil)
	w.create("R", x, id2, b, uint64(100+w.r.Intn(1000)), 7, []byte{9}, nil)
	w.setpool("R", x+liquidityAdd, 50_000, 20, []*lib.PoolPoints{{Address: dead, Points: 10}, {Address: a, Points: 10}})
	w.limit("R", x, a, uint64(10+w.r.Intn(500)), 1, w.freshID())
	w.deposit("R", x, b, uint64(10+w.r.Intn(500)), w.freshID())
	ids := []uint64{x, x + escrowAdd, x + holdingAdd, x + liquidityAdd, 16383, 16384, 16383 + escrowAdd, 131071, 1, ^uint64(0), 0}
	w.r.Shuffle(len(ids), func(i, j int) { ids[i], ids[j] = ids[j], ids[i] })
	for _, id := range ids {
		st := w.subsidy("R", w.addrs[w.r.Intn(2)], id, uint64(1+w.r.Intn(1000)), nil)
		switch {
		case id == x+escrowAdd || id == x+holdingAdd:
			w.o.Count("subsidy:to-escrow-or-holding-pool:" + st)
		case id == x+liquidityAdd:
			w.o.Count("subsidy:to-liquidity-pool:" + st)
		default:
			w.o.Count("subsidy:other-id:" + st)
		}
	}
	// the surplus cannot be taken out again by the order/DEX operations
	w.del("R", x, id1)
	w.swaps("R", x, &lib.Orders{LockOrders: []*lib.LockOrder{{OrderId: id2, BuyerReceiveAddress: a, BuyerSendAddress: []byte{1}, BuyerChainDeadline: 9}}, CloseOrders: [][]byte{id2}})
	w.subsidy("R", a, x, 1, drv.Bytes(w.r, 101)) // opcode too long: the one thing Check rejects
	w.subsidy("R", drv.Bytes(w.r, 19), x, 1, nil)
}

// closeOverflowCase: CloseOrder runs inside HandleCommitteeSwaps, which swallows errors and never rolls back, so its
// up-front check `buyer balance > MaxUint64 - AmountForSale` is the only thing that keeps a close atomic. The family
// puts the buyer's balance on every boundary of that check — and on the boundaries one would get by comparing with
// RequestedAmount instead — for orders with AmountForSale above, below and equal to RequestedAmount, repeats the close
// instruction (inside one certificate and in a later one), and then lets another seller of the same chain delete
// his order (which needs the escrow that backs it to be still there).
func (w *world) closeOverflowCase(k int) {
	w.tag = ":close-overflow"
	w.chains = []uint64{2}
	const max = ^uint64(0)
	pairs := [][2]uint64{{1000, 10}, {10, 1000}, {500, 500}, {uint64(2 + w.r.Intn(100000)), uint64(1 + w.r.Intn(100000))}, {1 << 40, 3}}
	pr := pairs[k%len(pairs)]
	a, rq := pr[0], pr[1]
	var bal uint64
	switch (k / len(pairs)) % 9 {
	case 0:
		bal = max
	case 1:
		bal = max - a - 1
	case 2:
		bal = max - a // the largest balance the credit still fits
	case 3:
		bal = max - a + 1 // the smallest balance the credit overflows
	case 4:
		bal = max - rq - 1
	case 5:
		bal = max - rq
	case 6:
		bal = max - rq + 1
	case 7:
		bal = max - (a+rq)/2 // strictly between the two bounds when they differ
	default:
		bal = max - uint64(w.r.Int63n(int64(a+rq)+2))
	}
	seller, other, buyer := w.addrs[0], w.addrs[1], w.addrs[2]
	w.initEnv("R", 1, 1, 0, 2)
	w.fund("R", seller, a+5)
	w.fund("R", other, 3*a+7)
	id, id2, id3 := w.freshID(), w.freshID(), w.freshID()
	w.create("R", 2, id, seller, a, rq, []byte{9}, nil)
	w.create("R", 2, id2, other, a, rq+1, []byte{8}, nil)
	w.create("R", 2, id3, other, 2*a, 1, []byte{7}, nil)
	w.swaps("R", 2, &lib.Orders{LockOrders: []*lib.LockOrder{{OrderId: id, BuyerReceiveAddress: buyer, BuyerSendAddress: []byte{1}, BuyerChainDeadline: 9}}})
	w.fund("R", buyer, bal) // the buyer's receive account sits on the boundary
	before, _ := w.envs["R"].Snapshot(w.chains)
	w.swaps("R", 2, &lib.Orders{CloseOrders: [][]byte{id}})
	after, _ := w.envs["R"].Snapshot(w.chains)
	_, nb := before.openOrders(2)
	_, na := after.openOrders(2)
	switch {
	case nb == na && bal > max-a && bal <= max-rq:
		w.o.Count("close-overflow:rejected-between-the-two-bounds")
	case nb == na:
		w.o.Count("close-overflow:rejected")
	default:
		w.o.Count("close-overflow:paid")
	}
	w.swaps("R", 2, &lib.Orders{CloseOrders: [][]byte{id, id}}) // repeated, also inside one certificate
	w.swaps("R", 2, &lib.Orders{CloseOrders: [][]byte{id}, ResetOrders: [][]byte{id2}})
	w.del("R", 2, id2) // the other seller's escrow must still be there
	w.del("R", 2, id3)
	w.del("R", 2, id) // locked (if still open): refused
}

// witnessCase runs, on the real handlers, the two points the hypotheses of escrow_eq exclude (theorems
// escrow_breaks_on_reused_id and escrow_wraps_beyond_uint64): the model must agree with the real code there too,
// and the real state must show exactly the predicted breakage.
func witnessCase(o *drv.Out) {
	w := newWorld(o, "witness-escrow")
	w.noOracle = true
	w.chains = []uint64{2}
	a := w.addrs[0]
	id1, id2 := make([]byte, 20), make([]byte, 20)
	for i := range id1 {
		id1[i], id2[i] = 1, 2
	}
	check := func(what string, wantEscrow, wantOrders string) {
		snap, _ := w.envs["R"].Snapshot(w.chains)
		sum, _ := snap.openOrders(2)
		esc := fmt.Sprint(snap.pool(2 + escrowAdd).Amount)
		if esc != wantEscrow || sum.String() != wantOrders {
			o.Fail("C20:witness-mismatch:"+what, fmt.Sprintf("real code: escrow %s (expected %s), open orders %s (expected %s)", esc, wantEscrow, sum, wantOrders), w.replay())
		} else {
			o.Count("witness:" + what + ":reproduced-on-real-code")
		}
	}
	w.initEnv("R", 1, 1, 0, 2)
	w.fund("R", a, 1000)
	w.create("R", 2, id1, a, 300, 7, []byte{9}, nil)
	w.create("R", 2, id1, a, 300, 7, []byte{9}, nil) // same id again: overwrites, escrow credited twice
	check("reused-id", "600", "300")
	w.close()
	w = newWorld(o, "witness-wrap")
	w.noOracle = true
	w.chains = []uint64{2}
	w.initEnv("R", 1, 1, 0, 2)
	w.fund("R", a, ^uint64(0))
	w.create("R", 2, id1, a, ^uint64(0), 7, []byte{9}, nil)
	w.fund("R", a, 2) // more than 2^64 tokens now exist
	w.create("R", 2, id2, a, 2, 7, []byte{9}, nil)
	check("uint64-wrap", "1", "18446744073709551617")
	w.close()
}

// witnessRootFallback: HandleDexBatch executes the liveness fallback for ANY batch that carries the flag, also on
// the root chain (isNested = false), where CertificateResult.CheckBasic forces PoolPoints == nil: the root chain's
// provider table is replaced by the empty table while the pool keeps its balance (theorem
// root_fallback_erases_provider_table). Needs a certificate signed by the nested chain's committee with
// DexBatch.LivenessFallback = true, which the honest controller never produces.
func witnessRootFallback(o *drv.Out) {
	w := newWorld(o, "witness-root-fallback")
	w.noOracle = true
	w.chains = []uint64{2}
	a := w.addrs[0]
	w.initEnv("R", 1, 1, 0, 2)
	w.fund("R", a, 1000)
	w.setpool("R", 2+liquidityAdd, 1000, 20, []*lib.PoolPoints{{Address: dead, Points: 10}, {Address: a, Points: 10}})
	st, _, after := w.dexbatch("R", 2, false, &lib.DexBatch{Committee: 1, PoolSize: 500, LivenessFallback: true})
	lp := after.pool(2 + liquidityAdd)
	st2 := w.withdraw("R", 2, a, 100, w.freshID())
	if st == "ok" && lp.Amount == 1000 && len(lp.Points) == 0 && lp.TotalPoolPoints == 0 && st2 == "err:PointHolderNotFound" {
		o.Count("witness:root-fallback-erases-provider-table:reproduced-on-real-code")
	} else {
		o.Count(fmt.Sprintf("witness:root-fallback:not-reproduced:%s:%d:%d:%s", st, lp.Amount, len(lp.Points), st2))
	}
	w.close()
}

// Run is the entry point of the C20 driver.
func Run(o *drv.Out) {
	nSell, lenSell, nArith := 40, 60, 200_000
	nPipe, lenPipe, nFuzz, lenFuzz := 30, 40, 40, 80
	if o.Tier == "thorough" {
		nSell, lenSell, nArith = 300, 120, 3_000_000
		nPipe, lenPipe, nFuzz, lenFuzz = 300, 80, 400, 150
	}
	arith(o, nArith)
	txIDProbe(o)
	witnessCase(o)
	witnessRootFallback(o)
	for i := 0; i < nSell; i++ {
		w := newWorld(o, fmt.Sprintf("sell-%d", i))
		w.sellOrderCase(lenSell)
		if i < 2 {
			o.Sample(strings.Join(w.hist[len(w.hist)-3:], " ; "))
		}
		w.close()
	}
	for i := 0; i < nPipe; i++ {
		w := newWorld(o, fmt.Sprintf("pipe-%d", i))
		w.honest = true
		w.pipeCase(lenPipe)
		if i < 2 {
			o.Sample(strings.Join(w.hist[len(w.hist)-3:], " ; "))
		}
		w.close()
	}
	nCap := 2
	if o.Tier == "thorough" {
		nCap = 12
	}
	for i := 0; i < nCap; i++ {
		w := newWorld(o, fmt.Sprintf("capped-%d", i))
		w.cappedCase(12)
		w.close()
	}
	nLF := 12
	if o.Tier == "thorough" {
		nLF = 80
	}
	for i := 0; i < nLF; i++ {
		w := newWorld(o, fmt.Sprintf("lfmatch-%d", i))
		w.lfMatchCase()
		w.close()
	}
	nSub := 4
	if o.Tier == "thorough" {
		nSub = 20
	}
	for i := 0; i < nSub; i++ {
		w := newWorld(o, fmt.Sprintf("subsidy-%d", i))
		w.subsidyCase(i)
		w.close()
	}
	nClose := 45
	if o.Tier == "thorough" {
		nClose = 180
	}
	for i := 0; i < nClose; i++ {
		w := newWorld(o, fmt.Sprintf("closeovf-%d", i))
		w.closeOverflowCase(i)
		w.close()
	}
	nBig, maxBig := 10, 600
	if o.Tier == "thorough" {
		nBig, maxBig = 40, 3000
	}
	for i := 0; i < nBig; i++ {
		w := newWorld(o, fmt.Sprintf("bigbatch-%d", i))
		w.bigBatchCase(i, maxBig)
		w.close()
	}
	nSame := 2
	if o.Tier == "thorough" {
		nSame = 8
	}
	for i := 0; i < nSame; i++ {
		w := newWorld(o, fmt.Sprintf("samecap-%d", i))
		w.sameCapCase(i == 0)
		w.close()
	}
	for i := 0; i < nFuzz; i++ {
		w := newWorld(o, fmt.Sprintf("fuzz-%d", i))
		w.fuzzCase(lenFuzz)
		w.close()
	}
	subsidyTxProbe(o)
}
