package execdrv

import (
	"fmt"

	"github.com/canopy-network/canopy/fsm"
	"github.com/canopy-network/canopy/lib"
	"verifharness/node"
)

// Scenario family "failed-param-change-then-dependent-tx" (C03, C07).
//
// GetParamsVal / GetParamsFee return the cached parameter object; UpdateParam edits that object in
// place (SetUint64 assigns the field and THEN runs Check()) and SetParams* put it into the cache before
// the store write. A changeParameter transaction that passes CheckTx and ApproveProposal but fails in
// the handler after the edit relies on the failure branch of ApplyTransactions (ResetCaches) to get
// the edited object out of the cache; a successful one in the dropped oversize remainder relies on the
// reset after the loop. Otherwise a later transaction of the block, or EndBlock, runs with parameters
// that exist in no store.
//
// Only the validator space can fail after the edit (FeeParams.Check accepts everything and nothing
// after SetParamsFee can fail), so the fee space appears as a SUCCESSFUL change in the oversize
// remainder followed by nothing that reads it, and as a successful change inside the block.

// ParamVariant is one member of the family.
type ParamVariant struct {
	Name      string
	Space     string
	Key       string
	Value     uint64 // rejected by ValidatorParams.Check() after it was assigned (or valid, when Remainder)
	Dependent string // "unstake" | "pause" | "reward" (EndBlock pays a non-compounding validator)
	Remainder bool   // the change is valid but sits in the oversize remainder of the mempool
}

// ParamVariants: which parameter, which dependent effect.
var ParamVariants = []ParamVariant{
	{Name: "unstakingBlocks=0;unstake", Space: fsm.ParamSpaceVal, Key: fsm.ParamUnstakingBlocks, Value: 0, Dependent: "unstake"},
	{Name: "maxPauseBlocks=0;pause", Space: fsm.ParamSpaceVal, Key: fsm.ParamMaxPauseBlocks, Value: 0, Dependent: "pause"},
	{Name: "earlyWithdrawalPenalty=101;end-block-reward", Space: fsm.ParamSpaceVal, Key: fsm.ParamEarlyWithdrawalPenalty, Value: 101, Dependent: "reward"},
	{Name: "remainder:earlyWithdrawalPenalty=90;end-block-reward", Space: fsm.ParamSpaceVal, Key: fsm.ParamEarlyWithdrawalPenalty, Value: 90, Dependent: "reward", Remainder: true},
	{Name: "remainder:fee.sendFee=77777;nothing-reads-it", Space: fsm.ParamSpaceFee, Key: fsm.ParamSendFee, Value: 77777, Dependent: "reward", Remainder: true},
}

// ParamNetwork: five validators (validator 0, the proposer, does not compound: EndBlock pays its
// reward out minus the early-withdrawal penalty), every node inside the proposal vote window.
func ParamNetwork(seed int64, remainder bool) *node.Network {
	opts := node.Options{ProposalVoteWindow: true, MutateGenesis: func(g *fsm.GenesisState) { g.Validators[0].Compound = false }}
	if remainder {
		opts.BlockSize = lib.MaxBlockHeaderSize + 3_000 // 13 sends fit
	}
	return node.NewNetwork(seed, 5, nil, 24, opts)
}

// ParamMempool returns the mempool content of one height for a variant, in execution order (fees
// descending): some sends, the governance transaction, the dependent transaction, more sends. The
// governance transaction is entered into the network's approve list. val is the validator the
// dependent transaction acts on (2..4).
func (c *Chain) ParamMempool(v ParamVariant, h uint64, val int, base int) (txs [][]byte, gov []byte) {
	n := c.Net
	fee := uint64(20000)
	next := func() uint64 { fee -= 100; return fee }
	send := func(i int) []byte {
		k := n.AcctKeys[(i*4)%20] // ed25519 accounts
		if i%4 == 3 {
			k = n.AcctKeys[0]
		}
		return n.SendTx(k, n.FreshAddr(base+i), 1000, next(), h, "")
	}
	nBefore := 2
	if v.Remainder {
		nBefore = 16 // more than the 13 that fit: the governance transaction lands in the remainder
	}
	for i := 0; i < nBefore; i++ {
		txs = append(txs, send(i))
	}
	gov = n.ChangeParamTx(n.AcctKeys[1], v.Space, v.Key, v.Value, h, h+5, next(), h)
	n.ApproveProposals(gov)
	txs = append(txs, gov)
	vk := n.ValKeys[val]
	switch v.Dependent {
	case "unstake":
		txs = append(txs, n.UnstakeTx(vk, node.Addr(vk), next(), h))
	case "pause":
		txs = append(txs, n.PauseTx(vk, node.Addr(vk), next(), h))
	}
	txs = append(txs, send(100), send(101))
	return
}

// Describe is used in failure texts.
func (v ParamVariant) Describe() string {
	if v.Remainder {
		return fmt.Sprintf("a valid changeParameter %s.%s=%d in the dropped oversize remainder", v.Space, v.Key, v.Value)
	}
	return fmt.Sprintf("a changeParameter %s.%s=%d that passes CheckTx and the approve list and fails in the handler after the cached object was edited", v.Space, v.Key, v.Value)
}
