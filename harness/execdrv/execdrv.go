// Package execdrv holds what the C03, C11 and C07 drivers share: a chain of real nodes
// (harness/node), the op-line vocabulary of the execution-path model (lean/Driver/C03) and the
// canonical observables (digests of header bytes, certificate results, full state scans).
//
// Op lines:
//
//	def <h> <pre> <blk> <post> <obs> [<claim>]  applyBlock(<pre>, <blk>) = (<post>, <obs>); block height <h>; what the block claims
//	<node> new <genesis>              a node holding only the genesis (state digest <genesis>)
//	<node> produce <blk|-> gmp=<k>    leader path on the mempool copy (ProduceProposal)
//	<node> validate <blk> gmp=<k>     replica path (ValidateProposal + BFT bookkeeping)
//	<node> commit <blk> gmp=<k> cert=<v>  HandlePeerBlock(syncing=false): cached result on hash match, else replay;
//	                                      <v> names the version (signer bitmap) of the commit certificate delivered
//	<node> sync <blk> gmp=<k> cert=<v>    HandlePeerBlock(syncing=true)
//	<node> interrupt                  BFT round interrupt (drop cached result, reset FSM)
//	<node> restart                    close + purge process caches + reopen
package execdrv

import (
	"crypto/sha256"
	"encoding/hex"
	"fmt"
	"math/rand"
	"runtime"
	"strings"

	"github.com/canopy-network/canopy/lib"
	"github.com/canopy-network/canopy/lib/crypto"
	"verifharness/drv"
	"verifharness/node"
)

// NewChain wires a chain of nodes of one network to a driver output.
func NewChain(o *drv.Out, net *node.Network, rng *rand.Rand, gmps []int) *Chain {
	return &Chain{O: o, Net: net, Rng: rng, Mix: net.NewMixer(rng), Names: map[*node.Node]string{}, Gmps: gmps}
}

// Version returns the proposal with another valid version of its commit certificate: the same
// payload signed by the given signers (see node.Network signer indices).
func (c *Chain) Version(p *Proposal, signers []int) *Proposal {
	q := *p
	q.QC = c.Net.Certify(p.VS, p.Block, p.Results, signers, lib.Phase_PRECOMMIT_VOTE, p.RC, p.Proposer)
	q.CertVersion = hex.EncodeToString(q.QC.Signature.Bitmap)
	return &q
}

// Quorum picks a signer set with +2/3 of the committee's power: every known key signs except those
// dropped, in the given preference order, as long as the threshold still holds.
func (c *Chain) Quorum(vs lib.ValidatorSet, dropOrder []int) []int {
	all := c.Net.AllSigners()
	keep := map[int]bool{}
	for _, i := range all {
		keep[i] = true
	}
	cur := func() (out []int) {
		for _, i := range all {
			if keep[i] {
				out = append(out, i)
			}
		}
		return
	}
	for _, d := range dropOrder {
		if !keep[d] {
			continue
		}
		keep[d] = false
		if signed, need := c.Net.SignedPower(vs, cur()); signed < need {
			keep[d] = true
		}
	}
	return cur()
}

// RandomQuorum is Quorum with a seeded random drop order (at most maxDrop signers are tried).
func (c *Chain) RandomQuorum(vs lib.ValidatorSet, maxDrop int) []int {
	all := c.Net.AllSigners()
	order := c.Rng.Perm(len(all))
	var drop []int
	for _, k := range order {
		if len(drop) >= maxDrop {
			break
		}
		drop = append(drop, all[k])
	}
	return c.Quorum(vs, drop)
}

func (c *Chain) errText(err lib.ErrorI) string {
	if c.CanonErrors {
		return "rejected"
	}
	return "err:" + node.ErrCode(err)
}

// SameDump compares two full state scans.
func SameDump(a, b []node.KV) bool {
	if len(a) != len(b) {
		return false
	}
	for i := range a {
		if a[i] != b[i] {
			return false
		}
	}
	return true
}

func Dig(parts ...[]byte) string {
	h := sha256.New()
	for _, p := range parts {
		fmt.Fprintf(h, "%d:", len(p))
		h.Write(p)
	}
	return hex.EncodeToString(h.Sum(nil))[:20]
}

type Proposal struct {
	ID      string // block hash (short)
	Block   []byte
	Results *lib.CertificateResult
	RC      uint64
	PropQC  *lib.QuorumCertificate
	QC      *lib.QuorumCertificate
	Obs     string
	NTx     int
	// VS is the committee that certifies the block; Proposer the proposing node's key
	VS       lib.ValidatorSet
	Proposer crypto.PrivateKeyI
	// CertVersion names the signer set of QC (hex of the signer bitmap): many valid +2/3 versions of
	// one certificate exist, and which one a node stored for height h-1 must not matter at height h
	CertVersion string
}

type Chain struct {
	O     *drv.Out
	Net   *node.Network
	Mix   *node.Mixer
	Rng   *rand.Rand
	Names map[*node.Node]string
	Gmps  []int
	gi    int
	Hold  bool
	// Broken: nodes whose restart failed
	Broken map[*node.Node]bool
	// LastCert: the version of the commit certificate each node stored for its last committed height
	LastCert map[*node.Node]string
	// CanonErrors: write every error as `rejected` (drivers whose model does not distinguish error codes)
	CanonErrors bool
	held        [][2]string
}

// op records an operation; while hold is set the lines are kept back (the proposer's own lines
// must follow the `def` line that can only be written once its post-state is known).
func (c *Chain) Op(op, res string) {
	if c.Hold {
		c.held = append(c.held, [2]string{op, res})
		return
	}
	c.O.Op(op, res)
}

func (c *Chain) Release() {
	c.Hold = false
	for _, l := range c.held {
		c.O.Op(l[0], l[1])
	}
	c.held = nil
}

func (c *Chain) Gmp() int {
	k := c.Gmps[c.gi%len(c.Gmps)]
	c.gi++
	runtime.GOMAXPROCS(k)
	return k
}

func (c *Chain) NewNode(name string, val int) *node.Node {
	nd := c.Net.NewNode(val)
	c.Names[nd] = name
	c.Op(name+" new "+nd.StateDigest(), "ok state="+nd.StateDigest())
	return nd
}

func ResBytes(r *lib.CertificateResult) []byte {
	bz, _ := lib.Marshal(r)
	return bz
}

// observed is what a node reports for a committed height: header bytes and archived results.
func Observed(nd *node.Node, h uint64) string {
	hd := nd.Header(h)
	if hd == nil {
		return "none"
	}
	hb, _ := lib.Marshal(hd)
	qc, err := nd.QCByHeight(h)
	if err != nil || qc == nil {
		return "noqc"
	}
	return Dig(hb, ResBytes(qc.Results))
}

// propose fills the node's mempool and runs the leader path.
func (c *Chain) Propose(nd *node.Node, txs []node.MixTx, opName string) (*Proposal, bool) {
	return c.ProposeVDF(nd, txs, opName, nil)
}

// ProposeVDF is Propose with a VDF result handed to ProduceProposal (nil = none).
func (c *Chain) ProposeVDF(nd *node.Node, txs []node.MixTx, opName string, vdf *crypto.VDF) (*Proposal, bool) {
	name := c.Names[nd]
	for _, tx := range txs {
		if err := nd.Submit(tx.Bytes); err != nil {
			c.O.Count("submit-rejected:" + node.ErrCode(err))
		} else {
			c.O.Count("submit:" + tx.Kind)
		}
	}
	k := c.Gmp()
	block, results, rc, err := nd.ProposeVDF(vdf)
	if err != nil {
		c.Op(fmt.Sprintf("%s %s - gmp=%d", name, opName, k), "err:"+node.ErrCode(err))
		return nil, false
	}
	blk := new(lib.Block)
	if e := lib.Unmarshal(block, blk); e != nil {
		panic(node.RealCodeError{Where: "unmarshal of the block ProduceProposal returned", Err: e.Error()})
	}
	// whatever the mempool held and whatever was executed and discarded before: a transaction whose
	// signature does not verify is never part of a block an honest node builds
	if bad := node.InvalidSignatureTxs(blk.Transactions); len(bad) != 0 {
		c.O.Fail(Property+":invalid-signature-tx-included",
			fmt.Sprintf("height %d: the block built by %s contains %d transaction(s) whose signature does not verify (positions %v of %d)", blk.BlockHeader.Height, name, len(bad), bad, len(blk.Transactions)),
			map[string]any{"case": c.O.CurCase(), "block": hex.EncodeToString(block), "tx": hex.EncodeToString(blk.Transactions[bad[0]])})
	}
	vs := nd.Committee()
	hb, _ := lib.Marshal(blk.BlockHeader)
	p := &Proposal{ID: hex.EncodeToString(blk.BlockHeader.Hash)[:16], Block: block, Results: results, RC: rc, NTx: len(blk.Transactions),
		Obs: Dig(hb, ResBytes(results))}
	// the harness must be able to certify the block: every committee member's key is known to it
	if signed, need := c.Net.SignedPower(vs, c.Net.AllSigners()); signed < need {
		panic(fmt.Sprintf("harness: cannot build a +2/3 certificate at height %d: signed power %d, threshold %d (a committee member's key is unknown to the harness)", blk.BlockHeader.Height, signed, need))
	}
	p.VS, p.Proposer = vs, nd.Key
	p.PropQC = c.Net.Certify(vs, block, results, c.Net.AllSigners(), lib.Phase_PROPOSE, rc, nd.Key)
	p.QC = c.Net.Certify(vs, block, results, c.Net.AllSigners(), lib.Phase_PRECOMMIT_VOTE, rc, nd.Key)
	p.CertVersion = hex.EncodeToString(p.QC.Signature.Bitmap)
	c.Op(fmt.Sprintf("%s %s %s gmp=%d", name, opName, p.ID, k), "ok")
	c.O.Count(fmt.Sprintf("block-txs:%s", Bucket(p.NTx)))
	return p, true
}

func Bucket(n int) string {
	switch {
	case n == 0:
		return "0"
	case n <= 2:
		return "1-2"
	case n <= 15:
		return "3-15"
	case n <= 100:
		return "16-100"
	case n <= 400:
		return "101-400"
	}
	return ">400"
}

func (c *Chain) Validate(nd *node.Node, p *Proposal) bool {
	k := c.Gmp()
	_, err := nd.Validate(p.PropQC, p.RC)
	res := "ok"
	if err != nil {
		res = c.errText(err)
	}
	c.Op(fmt.Sprintf("%s validate %s gmp=%d", c.Names[nd], p.ID, k), res)
	c.O.Count("path:validate")
	return err == nil
}

func (c *Chain) Commit(nd *node.Node, p *Proposal, syncing bool) string {
	k := c.Gmp()
	h := nd.Height()
	op := "commit"
	if syncing {
		op = "sync"
	}
	cached := nd.CachedBlockHash() != "" && nd.CachedBlockHash()[:16] == p.ID
	err := nd.HandlePeerBlock(p.QC, syncing)
	res := ""
	if err != nil {
		res = c.errText(err)
	} else {
		res = fmt.Sprintf("ok state=%s obs=%s", nd.StateDigest(), Observed(nd, h))
	}
	c.Op(fmt.Sprintf("%s %s %s gmp=%d cert=%s", c.Names[nd], op, p.ID, k, p.CertVersion), res)
	if err == nil {
		if c.LastCert == nil {
			c.LastCert = map[*node.Node]string{}
		}
		c.LastCert[nd] = p.CertVersion
	}
	switch {
	case syncing:
		c.O.Count("path:sync")
	case cached:
		c.O.Count("path:commit-cached")
	default:
		c.O.Count("path:commit-replay")
	}
	return res
}

func (c *Chain) Interrupt(nd *node.Node) {
	nd.RoundInterrupt()
	c.Op(c.Names[nd]+" interrupt", "ok")
}

// Restart closes and reopens the node (process restart). When the real code cannot come back up — the
// store does not open, the state machine or controller cannot be rebuilt from it, or the mempool
// proposal cannot be rebuilt at the committed height — that is an execution-path failure: it is
// reported as <Property>:restart-path-fails:<stage> with the history position, the node is marked
// broken (drivers skip it from then on) and false is returned.
func (c *Chain) Restart(nd *node.Node) bool {
	h := uint64(0)
	if !nd.Dead() {
		h = nd.Height()
	}
	stage, err := nd.Reopen()
	c.O.Count("path:restart")
	if err != nil {
		c.Op(c.Names[nd]+" restart", "err:"+stage+":"+node.ErrCode(err))
		if c.Broken == nil {
			c.Broken = map[*node.Node]bool{}
		}
		c.Broken[nd] = true
		c.O.Fail(Property+":restart-path-fails:"+stage,
			fmt.Sprintf("node %s, restarted (reopen #%d) at committed height %d, cannot come back up: stage %q fails with %s: %s — a node that never restarted holds the same prefix without error",
				c.Names[nd], nd.Opens, h, stage, node.ErrCode(err), strings.Join(strings.Fields(err.Error()), " ")),
			map[string]any{"case": c.O.CurCase(), "seed": c.O.Seed, "node": c.Names[nd], "height": h, "stage": stage, "error": err.Error(),
				"history": "see the case's op lines up to this restart (ops.txt)"})
		return false
	}
	c.Op(c.Names[nd]+" restart", "ok state="+nd.StateDigest())
	return true
}

// Property is the property id the running driver reports failures under (set by the driver's Run).
var Property = "C03"

// Guard runs one case and turns a real-code error the harness could not route (node.RealCodeError:
// the real code failed where an honest run cannot fail) into an oracle failure instead of a crash.
func Guard(o *drv.Out, f func()) {
	defer func() {
		if r := recover(); r != nil {
			if e, ok := r.(node.RealCodeError); ok {
				where := strings.Map(func(r rune) rune {
					if r == ' ' || r == '(' || r == ')' || r == ':' {
						return '-'
					}
					return r
				}, e.Where)
				o.Fail(Property+":real-code-error:"+where, fmt.Sprintf("the real code fails where an honest run cannot fail: %s: %s", e.Where, e.Err),
					map[string]any{"case": o.CurCase(), "seed": o.Seed, "where": e.Where, "error": e.Err})
				return
			}
			panic(r)
		}
	}()
	f()
}
