// Package c12 — staking bookkeeping and non-wedging: the same real-FSM chains as C04 with a generator
// biased towards staking life-cycle operations, slashes and deferred actions; the oracle checks
// tallies, marker/validator agreement and that empty blocks apply at every pending future height.
package c12

import (
	"fmt"

	"verifharness/drv"
	"verifharness/ledger"
)

func Run(o *drv.Out) {
	chains, blocks := 150, 12
	if o.Tier == "thorough" {
		chains, blocks = 1200, 20
	} else if o.Search {
		// an obligation broke and the first pass found no failing input: three more seeds of about 2.5x the quick
		// size each (the full thorough size made the search phase take several minutes)
		chains, blocks = 360, 14
	}
	ledger.Scenarios(o, "C12")
	for i := 0; i < chains; i++ {
		o.Case(fmt.Sprintf("chain-%d", i))
		g := ledger.RandomGenesis(o.Rng)
		c, ok := ledger.NewChain(o, "C12", g)
		if !ok {
			o.Count("genesis.rejected")
			continue
		}
		o.Count("genesis.ok")
		c.StakingBias = true
		for b := 0; b < blocks; b++ {
			c.RandomBlock(o.Rng)
		}
		c.Finish()
	}
}
