// Package c04 — token supply conservation: random chains on the real fsm.StateMachine, compared
// operation by operation with the Lean ledger model, with the supply identity evaluated on the real state.
package c04

import (
	"fmt"

	"verifharness/drv"
	"verifharness/ledger"
)

func Run(o *drv.Out) {
	chains, blocks := 150, 12
	if o.Tier == "thorough" {
		chains, blocks = 1200, 20
	} else if o.Search {
		// an obligation broke and the first pass found no failing input: three more seeds of about 2.5x the quick
		// size each (the full thorough size made the search phase take several minutes)
		chains, blocks = 360, 14
	}
	ledger.Scenarios(o, "C04")
	for i := 0; i < chains; i++ {
		o.Case(fmt.Sprintf("chain-%d", i))
		g := ledger.RandomGenesis(o.Rng)
		dex := i%8 == 7 // every 8th chain ends with counter-chain DEX batches (oracle-only: C20 models the DEX)
		if dex {
			g.AddPool(2+ledger.LiquidityPoolAddend, uint64(1_000_000_000+o.Rng.Int63n(1<<40)))
		}
		eth := i%8 == 3 // every 8th chain ends with blocks carrying RLP.V2 (Ethereum-signed) sends, oracle-only
		if eth {
			for _, k := range ledger.EthKeys {
				g.Accounts = append(g.Accounts, ledger.GenAcc{Addr: k.Addr, Amount: uint64(1_000_000 + o.Rng.Int63n(1<<36))})
			}
		}
		c, ok := ledger.NewChain(o, "C04", g)
		if !ok {
			o.Count("genesis.rejected")
			continue
		}
		o.Count("genesis.ok")
		for b := 0; b < blocks; b++ {
			c.RandomBlock(o.Rng)
		}
		if eth {
			for b := 0; b < 4; b++ {
				c.RandomEthBlock(o.Rng)
			}
		}
		if dex && !c.NearMax {
			c.RandomDexBatches(o.Rng)
		}
		c.Finish()
	}
}
