package main

import (
	"verifharness/c15"
	"verifharness/drv"
)

func main() { drv.Main("C15", c15.Run) }
