package main

import (
	"verifharness/c02"
	"verifharness/drv"
)

func main() {
	drv.Main("C02", func(o *drv.Out) {
		c02.Run(o)
		c02.RunE2E(o)
	})
}
