package main

import (
	"verifharness/c02"
	"verifharness/drv"
)

func main() { drv.Main("C02", c02.Run) }
