package main

import (
	"verifharness/c10"
	"verifharness/drv"
)

func main() { drv.Main("C10", c10.Run) }
