package main

import (
	"verifharness/c09"
	"verifharness/drv"
)

func main() { drv.Main("C09", c09.Run) }
