package main

import (
	"os"
	"runtime/pprof"
)

func init() {
	if p := os.Getenv("VERIF_PROF"); p != "" {
		f, _ := os.Create(p)
		pprof.StartCPUProfile(f)
		go func() {}()
		stopProf = func() { pprof.StopCPUProfile(); f.Close() }
	}
}

var stopProf = func() {}
