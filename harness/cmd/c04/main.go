package main

import (
	"verifharness/c04"
	"verifharness/drv"
)

func main() { drv.Main("C04", c04.Run) }
