package main

import (
	"fmt"

	"github.com/canopy-network/canopy/lib"
	"github.com/canopy-network/canopy/lib/crypto"
	"github.com/canopy-network/canopy/store"
)

func hashOf(s string) []byte { return crypto.Hash([]byte(s)) }

func main() {
	store.VerifPurgeBlockCache()
	cfg := lib.DefaultConfig()
	cfg.StoreConfig.LSSCompactionInterval = 0
	cfg.StoreConfig.IndexByAccount = false
	sI, _ := store.NewStoreInMemory(lib.NewNullLogger(), cfg)
	s := sI.(*store.Store)
	h := hashOf("tx")
	tx := &lib.TxResult{Sender: h[:20], Recipient: h[:20], MessageType: "send", Height: 1, Index: 0,
		Transaction: &lib.Transaction{MessageType: "send", Signature: &lib.Signature{PublicKey: h, Signature: h}, CreatedHeight: 1, Time: 1, Fee: 1, NetworkId: 1, ChainId: 1},
		TxHash: lib.BytesToString(h)}
	s.Set([]byte{1, 1}, []byte("x"))
	s.IndexBlock(&lib.BlockResult{BlockHeader: &lib.BlockHeader{Height: 1, Hash: hashOf("b1"), NetworkId: 1}, Transactions: []*lib.TxResult{tx}})
	store.VerifPurgeBlockCache() // eviction between IndexBlock and Commit
	b, _ := s.GetBlockByHeight(1) // the store object reads its own pending height
	fmt.Println("live before commit: txs =", len(b.Transactions))
	s.Commit()
	b, _ = s.GetBlockByHeight(1)
	fmt.Println("live after commit: txs =", len(b.Transactions))
	ro, _ := s.NewReadOnly(1)
	b, _ = ro.GetBlockByHeight(1)
	fmt.Println("ro@1 after commit: txs =", len(b.Transactions))
	store.VerifPurgeBlockCache()
	b, _ = s.GetBlockByHeight(1)
	fmt.Println("after purge: txs =", len(b.Transactions))
}
