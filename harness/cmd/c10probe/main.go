package main

import (
	"fmt"

	"github.com/canopy-network/canopy/lib"
	"github.com/canopy-network/canopy/lib/crypto"
	"github.com/canopy-network/canopy/store"
)

func hashOf(s string) []byte { return crypto.Hash([]byte(s)) }

func newStore() *store.Store {
	cfg := lib.DefaultConfig()
	cfg.StoreConfig.LSSCompactionInterval = 0
	sI, err := store.NewStoreInMemory(lib.NewNullLogger(), cfg)
	if err != nil {
		panic(err)
	}
	return sI.(*store.Store)
}

func blk(h uint64, tag string, txs ...*lib.TxResult) *lib.BlockResult {
	return &lib.BlockResult{BlockHeader: &lib.BlockHeader{Height: h, Hash: hashOf(tag), NetworkId: 1}, Transactions: txs}
}

func show(name string, s lib.RIndexerI, h uint64) {
	b, err := s.GetBlockByHeight(h)
	if err != nil {
		fmt.Println(name, "err", err)
		return
	}
	fmt.Printf("%s: GetBlockByHeight(%d) -> height=%d hash=%x txs=%d\n", name, h, b.BlockHeader.GetHeight(), b.BlockHeader.GetHash(), len(b.Transactions))
}

func commitBlock(s *store.Store, h uint64, tag string) {
	s.Set([]byte{1, byte(h)}, []byte(tag))
	if err := s.IndexBlock(blk(h, tag)); err != nil {
		panic(err)
	}
	if _, err := s.Commit(); err != nil {
		panic(err)
	}
}

func main() {
	store.VerifPurgeBlockCache()
	fmt.Println("--- (c) IndexBlock then abandon (Reset): uncommitted block visible")
	s := newStore()
	commitBlock(s, 1, "b1")
	s.IndexBlock(blk(2, "b2-abandoned"))
	s.Reset() // commit abandoned
	show("live", s, 2)
	fmt.Println("version:", s.Version())
	ro, _ := s.NewReadOnly(1)
	show("ro@1", ro, 2)
	ro.Discard()
	commitBlock(s, 2, "b2-real")
	show("live after real commit", s, 2)

	fmt.Println("--- (b) read-only view at v=1 sees block 2 (height > v) through the cache")
	ro, _ = s.NewReadOnly(1)
	show("ro@1", ro, 2)
	store.VerifPurgeBlockCache()
	show("ro@1 (cache purged)", ro, 2)
	fmt.Println("--- (a) ... and that miss poisoned the cache: the live store now gets an empty block 2")
	show("live", s, 2)
	ro.Discard()
	store.VerifPurgeBlockCache()
	show("live (cache purged)", s, 2)

	fmt.Println("--- (a') without the purge hook: 64 reads of other heights evict, then a historical view poisons")
	for i := uint64(1000); i < 1064; i++ {
		s.GetBlockByHeight(i)
	}
	ro, _ = s.NewReadOnly(1)
	show("ro@1", ro, 2)
	show("live", s, 2)
	ro.Discard()

	fmt.Println("--- (d) header-only read caches a block without its transactions")
	store.VerifPurgeBlockCache()
	s3 := newStore()
	tx := &lib.TxResult{Sender: hashOf("s")[:20], Recipient: hashOf("r")[:20], MessageType: "send", Height: 1, Index: 0,
		Transaction: &lib.Transaction{MessageType: "send", Signature: &lib.Signature{PublicKey: hashOf("pk"), Signature: hashOf("sig")}, CreatedHeight: 1, Time: 1, Fee: 1, NetworkId: 1, ChainId: 1},
		TxHash: lib.BytesToString(hashOf("tx1"))}
	s3.Set([]byte{1, 1}, []byte("x"))
	if err := s3.IndexBlock(blk(1, "d1", tx)); err != nil {
		fmt.Println("IndexBlock err", err)
	}
	s3.Commit()
	show("s3 (from IndexBlock cache)", s3, 1)
	store.VerifPurgeBlockCache()
	hb, _ := s3.GetBlockHeaderByHeight(1)
	fmt.Println("header read txs:", len(hb.Transactions))
	show("s3 after header-only read", s3, 1)
	store.VerifPurgeBlockCache()
	show("s3 (cache purged)", s3, 1)

	fmt.Println("--- (f) a second Store (another database) in the same process")
	store.VerifPurgeBlockCache()
	s2 := newStore()
	show("s  (db A)", s, 1)
	show("s2 (db B, empty)", s2, 1)
}
