package main

import (
	"fmt"

	"github.com/canopy-network/canopy/lib"
	"verifharness/node"
)

func main() {
	net := node.NewNetwork(7, 4, nil, 20)
	defer net.Close()
	a, x := net.NewNode(0), net.NewNode(1)
	step := func(n int) (*lib.QuorumCertificate, *lib.QuorumCertificate, uint64, []byte) {
		for i := 0; i < n; i++ {
			a.Submit(net.SendTx(net.AcctKeys[i%10], net.FreshAddr(int(a.Height())*100+i), 1000, 10000, a.Height(), ""))
		}
		block, results, rc, err := a.Propose()
		if err != nil {
			panic(err)
		}
		vs := a.Committee()
		return net.Certify(vs, block, results, net.AllSigners(), lib.Phase_PROPOSE, rc, a.Key),
			net.Certify(vs, block, results, net.AllSigners(), lib.Phase_PRECOMMIT_VOTE, rc, a.Key), rc, block
	}
	// height 1 everywhere
	_, qc1, _, _ := step(3)
	fmt.Println("h1", a.HandlePeerBlock(qc1, false), x.HandlePeerBlock(qc1, false))
	// height 2: x validates the proposal (BFT caches the result), then lags and starts syncing
	prop, qc2, rc, block := step(4)
	_, err := x.Validate(prop, rc)
	fmt.Println("x validate:", err, "cached:", x.CachedBlockHash()[:16])
	fmt.Println("a commit h2:", a.HandlePeerBlock(qc2, false))
	// a peer serves garbage for height 2 (no signatures are checked while syncing below a checkpoint)
	blk := new(lib.Block)
	lib.Unmarshal(block, blk)
	blk.BlockHeader.StateRoot[0] ^= 1
	blk.BlockHeader.SetHash()
	gb, _ := lib.Marshal(blk)
	garbage := &lib.QuorumCertificate{Header: qc2.Header, Results: qc2.Results, ResultsHash: qc2.ResultsHash, Block: gb, BlockHash: blk.BlockHeader.Hash, ProposerKey: qc2.ProposerKey, Signature: qc2.Signature}
	fmt.Println("x sync garbage:", x.HandlePeerBlock(garbage, true))
	fmt.Println("x cached still:", x.CachedBlockHash()[:16])
	// an honest peer serves the real block
	fmt.Println("x sync real h2:", x.HandlePeerBlock(qc2, true))
	fmt.Println("heights", a.Height(), x.Height(), "headers equal:", a.HeaderBytes(2) == x.HeaderBytes(2), "state equal:", a.StateDigest() == x.StateDigest())
	fmt.Println(" a state", a.StateDigest(), "\n x state", x.StateDigest())
	// the next block
	_, qc3, _, _ := step(2)
	fmt.Println("a commit h3:", a.HandlePeerBlock(qc3, false))
	fmt.Println("x sync h3:", x.HandlePeerBlock(qc3, true))
}
