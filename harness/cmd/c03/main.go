package main

import (
	"verifharness/c03"
	"verifharness/drv"
)

func main() { drv.Main("C03", c03.Run) }
