package main

import (
	"verifharness/c14"
	"verifharness/drv"
)

func main() { drv.Main("C14", c14.Run) }
