package main

import (
	"verifharness/c20"
	"verifharness/drv"
)

func main() { drv.Main("C20", c20.Run) }
