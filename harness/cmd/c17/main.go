package main

import (
	"verifharness/c17"
	"verifharness/drv"
)

func main() { drv.Main("C17", c17.Run) }
