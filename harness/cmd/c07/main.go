package main

import (
	"verifharness/c07"
	"verifharness/drv"
)

func main() { drv.Main("C07", c07.Run) }
