package main

import (
	"os"

	"verifharness/c08"
	"verifharness/drv"
)

func main() {
	if len(os.Args) > 1 && os.Args[1] == "child" {
		c08.ChildMain(os.Args[2:])
		return
	}
	drv.Main("C08", c08.Run)
}
