package main

import (
	"verifharness/c08"
	"verifharness/drv"
)

func main() { drv.Main("C08", c08.Run) }
