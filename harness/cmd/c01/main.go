package main

import (
	"verifharness/c01"
	"verifharness/drv"
)

func main() { drv.Main("C01", c01.Run) }
