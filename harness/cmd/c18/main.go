package main

import (
	"verifharness/c18"
	"verifharness/drv"
)

func main() { drv.Main("C18", c18.Run) }
