package main

import (
	"fmt"
	"go/ast"
	"path/filepath"
	"strings"

	g "verifharness/gotolean"
)

func init() {
	register("Mux", genMux)
	externalConsts["time.Second"] = 1000000000
}

// genMux: limits of p2p/conn.go, the topic enum of lib/peer.pb.go, and the normalised source of the
// functions the hand model of C18 follows (split, Send, queueSends, queueSend, handlePacket, the
// send loop's select, the receive loop's dispatch, NewStreams).
func genMux() (string, error) {
	var b strings.Builder
	b.WriteString("namespace Canopy.Gen.Mux\n\n")
	cf, err := g.ParseFile(filepath.Join(*repo, "p2p/conn.go"))
	if err != nil {
		return "", err
	}
	env := evalConsts(cf)
	for _, n := range []string{"maxChunksPerPacket", "maxDataChunkSize", "maxPacketSize", "packetHeaderSize", "maxMessageSize", "maxInboxQueueSize", "maxStreamSendQueueSize"} {
		v, err := needConst(env, "p2p/conn.go", n)
		if err != nil {
			return "", err
		}
		fmt.Fprintf(&b, "def %s : Nat := %d\n", n, v)
	}
	v, err := needConst(env, "p2p/conn.go", "queueSendTimeout")
	if err != nil {
		return "", err
	}
	fmt.Fprintf(&b, "def queueSendTimeoutMs : Nat := %d\n", v/1000000)
	pf, err := g.ParseFile(filepath.Join(*repo, "lib/peer.pb.go"))
	if err != nil {
		return "", err
	}
	tenv := evalConsts(pf)
	var topics []string
	for _, n := range []string{"Topic_CONSENSUS", "Topic_BLOCK", "Topic_BLOCK_REQUEST", "Topic_TX", "Topic_PEERS_RESPONSE", "Topic_PEERS_REQUEST", "Topic_HEARTBEAT", "Topic_INVALID"} {
		v, err := needConst(tenv, "lib/peer.pb.go", n)
		if err != nil {
			return "", err
		}
		fmt.Fprintf(&b, "def %s : Nat := %d\n", strings.ToLower(n[:1])+n[1:], v)
		topics = append(topics, fmt.Sprintf("(%q, %d)", n, v))
	}
	fmt.Fprintf(&b, "def topicTable : List (String × Nat) := [%s]\n", strings.Join(topics, ", "))
	for _, fn := range []struct{ recv, name string }{{"", "split"}, {"MultiConn", "Send"}, {"Stream", "queueSends"}, {"Stream", "queueSend"}, {"Stream", "handlePacket"}} {
		fd := cf.FindFunc(fn.recv, fn.name)
		if fd == nil {
			return "", fmt.Errorf("p2p/conn.go: %s not found", fn.name)
		}
		fmt.Fprintf(&b, "def src_%s : String := %q\n", fn.name, g.StmtsText(fd.Body.List))
	}
	// does a partly enqueued message end the connection? Recognised shape:
	//   queueSends has two bool results and returns `false, i > 0` from inside its range loop;
	//   Send, inside `if !ok { … }`, has `if partial { c.Error(…) }`.
	qs := cf.FindFunc("Stream", "queueSends")
	sd := cf.FindFunc("MultiConn", "Send")
	tears, tearSrc := false, ""
	reportsPartial := false
	if qs.Type.Results != nil && qs.Type.Results.NumFields() == 2 {
		ast.Inspect(qs.Body, func(n ast.Node) bool {
			if rs, ok := n.(*ast.RangeStmt); ok && g.ExprText(rs.Key) == "i" {
				ast.Inspect(rs.Body, func(m ast.Node) bool {
					if r, ok := m.(*ast.ReturnStmt); ok && len(r.Results) == 2 && g.ExprText(r.Results[0]) == "false" && g.ExprText(r.Results[1]) == "i > 0" {
						reportsPartial = true
					}
					return true
				})
			}
			return true
		})
	}
	if reportsPartial {
		usesSecond := false
		ast.Inspect(sd.Body, func(n ast.Node) bool {
			if as, ok := n.(*ast.AssignStmt); ok && len(as.Lhs) == 2 && len(as.Rhs) == 1 && g.ExprText(as.Lhs[0]) == "ok" && g.ExprText(as.Lhs[1]) == "partial" && strings.HasPrefix(g.ExprText(as.Rhs[0]), "stream.queueSends(") {
				usesSecond = true
			}
			return true
		})
		for _, st := range sd.Body.List {
			outer, ok := st.(*ast.IfStmt)
			if !ok || g.ExprText(outer.Cond) != "!ok" || !usesSecond {
				continue
			}
			for _, in := range outer.Body.List {
				inner, ok := in.(*ast.IfStmt)
				if !ok || g.ExprText(inner.Cond) != "partial" || inner.Else != nil || len(inner.Body.List) == 0 {
					continue
				}
				if es, ok := inner.Body.List[0].(*ast.ExprStmt); ok && strings.HasPrefix(g.ExprText(es.X), "c.Error(") {
					tears, tearSrc = true, g.StmtText(inner)
				}
			}
		}
	}
	fmt.Fprintf(&b, "/-- a message of which only a prefix could be enqueued ends the connection (`Send`: `if partial { c.Error(…) }`) -/\ndef partialEnqueueTearsDown : Bool := %v\ndef src_partialTeardown : String := %q\n", tears, tearSrc)
	// is the enqueue of a whole message atomic w.r.t. every other enqueue on the same stream?
	// Recognised shape: in queueSends nothing but `defer …` precedes `s.mu.Lock(); defer s.mu.Unlock()`, every
	// queueSend call of the function comes after them; and every OTHER caller of queueSend in p2p/conn.go
	// addresses the heartbeat stream (`stream, ok := c.streams[heartbeatTopic]`), which carries no multi-packet messages.
	underMutex := false
	{
		locked, early := false, false
		for i, st := range qs.Body.List {
			txt := g.StmtText(st)
			if _, isDefer := st.(*ast.DeferStmt); isDefer && !locked && txt != "defer s.mu.Unlock()" {
				continue
			}
			if !locked {
				if txt == "s.mu.Lock()" && i+1 < len(qs.Body.List) && g.StmtText(qs.Body.List[i+1]) == "defer s.mu.Unlock()" {
					locked = true
					continue
				}
				early = true // some statement runs before the lock is taken
				break
			}
		}
		others := true
		for _, d := range cf.AST.Decls {
			fd, ok := d.(*ast.FuncDecl)
			if !ok || fd.Body == nil || fd.Name.Name == "queueSends" || fd.Name.Name == "queueSend" {
				continue
			}
			body := g.StmtsText(fd.Body.List)
			if strings.Contains(body, ".queueSend(") && !(strings.Contains(body, "stream, ok := c.streams[heartbeatTopic]") && strings.Count(body, ".queueSend(") == strings.Count(body, "stream.queueSend(")) {
				others = false
			}
		}
		underMutex = locked && !early && others
	}
	fmt.Fprintf(&b, "/-- all packets of a message are enqueued under the stream mutex, and no other enqueue path on a message stream bypasses it (only the heartbeat stream is fed directly) -/\ndef enqueueUnderStreamMutex : Bool := %v\n", underMutex)
	// the select of the send loop: which queues it serves
	ss := cf.FindFunc("MultiConn", "startSendService")
	if ss == nil {
		return "", fmt.Errorf("p2p/conn.go: startSendService not found")
	}
	var served []string
	ast.Inspect(ss.Body, func(n ast.Node) bool {
		if cc, ok := n.(*ast.CommClause); ok && cc.Comm != nil {
			served = append(served, g.StmtText(cc.Comm))
		}
		return true
	})
	fmt.Fprintf(&b, "def sendLoopCases : List String := [%s]\n", quoteList(served))
	rs := cf.FindFunc("MultiConn", "startReceiveService")
	if rs == nil {
		return "", fmt.Errorf("p2p/conn.go: startReceiveService not found")
	}
	var dispatch string
	ast.Inspect(rs.Body, func(n ast.Node) bool {
		if ts, ok := n.(*ast.TypeSwitchStmt); ok {
			dispatch = g.StmtText(ts)
		}
		return true
	})
	fmt.Fprintf(&b, "def src_receiveDispatch : String := %q\n", dispatch)
	rl := cf.FindFunc("", "receiveLengthPrefixed")
	if rl == nil {
		return "", fmt.Errorf("p2p/conn.go: receiveLengthPrefixed not found")
	}
	fmt.Fprintf(&b, "def src_receiveLengthPrefixed : String := %q\n", g.StmtsText(rl.Body.List))
	wf := cf.FindFunc("MultiConn", "waitForAndHandleWireBytes")
	if wf == nil {
		return "", fmt.Errorf("p2p/conn.go: waitForAndHandleWireBytes not found")
	}
	fmt.Fprintf(&b, "def src_waitForAndHandleWireBytes : String := %q\n", g.StmtsText(wf.Body.List))
	p2f, err := g.ParseFile(filepath.Join(*repo, "p2p/p2p.go"))
	if err != nil {
		return "", err
	}
	ns := p2f.FindFunc("P2P", "NewStreams")
	if ns == nil {
		return "", fmt.Errorf("p2p/p2p.go: NewStreams not found")
	}
	fmt.Fprintf(&b, "def src_NewStreams : String := %q\n", g.StmtsText(ns.Body.List))
	// every Stream gets its OWN message assembler: in each `Stream{…}` literal of NewStreams the field
	// msgAssembler is a make(…) call (a fresh allocation), not a slice of some variable shared by the streams
	nStreams, fresh := 0, 0
	ast.Inspect(ns.Body, func(n ast.Node) bool {
		cl, ok := n.(*ast.CompositeLit)
		if !ok || g.ExprText(cl.Type) != "Stream" {
			return true
		}
		nStreams++
		for _, el := range cl.Elts {
			if kv, ok := el.(*ast.KeyValueExpr); ok && g.ExprText(kv.Key) == "msgAssembler" {
				if c, ok := kv.Value.(*ast.CallExpr); ok && g.ExprText(c.Fun) == "make" {
					fresh++
				}
			}
		}
		return true
	})
	fmt.Fprintf(&b, "/-- every stream of a connection has its own message assembler (a fresh `make` per `Stream{…}` in NewStreams) -/\ndef assemblerPerStream : Bool := %v\n", nStreams > 0 && fresh == nStreams)
	// which key does AddPeer record as the peer's identity (PeerInfo.Address.PublicKey — the Sender of every
	// delivered message and the PeerSet key)? Recognised shape: every assignment `info.Address = &lib.PeerAddress{…}`
	// in AddPeer has `PublicKey: connection.Address.PublicKey` (the key the handshake authenticated), and there is one.
	ap := p2f.FindFunc("P2P", "AddPeer")
	if ap == nil {
		return "", fmt.Errorf("p2p/p2p.go: AddPeer not found")
	}
	nAssign, nAuth := 0, 0
	ast.Inspect(ap.Body, func(n ast.Node) bool {
		as, ok := n.(*ast.AssignStmt)
		if !ok || len(as.Lhs) != 1 || len(as.Rhs) != 1 {
			return true
		}
		lhs := g.ExprText(as.Lhs[0])
		if lhs != "info.Address" && lhs != "info.Address.PublicKey" {
			return true
		}
		nAssign++
		rhs := g.ExprText(as.Rhs[0])
		if lhs == "info.Address.PublicKey" && rhs == "connection.Address.PublicKey" {
			nAuth++
		}
		if lhs == "info.Address" && strings.HasPrefix(rhs, "&lib.PeerAddress{") && strings.Contains(rhs, "PublicKey: connection.Address.PublicKey,") {
			nAuth++
		}
		return true
	})
	fmt.Fprintf(&b, "/-- AddPeer records the handshake-authenticated key (`connection.Address.PublicKey`) as the peer's identity on every path -/\ndef attributionIsAuthenticatedKey : Bool := %v\n", nAssign > 0 && nAssign == nAuth)
	strictSrc := ""
	ast.Inspect(ap.Body, func(n ast.Node) bool {
		if is, ok := n.(*ast.IfStmt); ok && strings.Contains(g.ExprText(is.Cond), "strictPublicKey") {
			strictSrc = g.StmtText(is)
		}
		return true
	})
	fmt.Fprintf(&b, "def src_strictKeyCheck : String := %q\n", strictSrc)
	nw := p2f.FindFunc("", "New")
	if nw == nil {
		return "", fmt.Errorf("p2p/p2p.go: New not found")
	}
	var chanLoop string
	ast.Inspect(nw.Body, func(n ast.Node) bool {
		if fs, ok := n.(*ast.ForStmt); ok && strings.Contains(g.StmtText(fs), "channels[i]") {
			chanLoop = g.StmtText(fs)
		}
		return true
	})
	fmt.Fprintf(&b, "def src_inboxChannels : String := %q\n", chanLoop)
	b.WriteString("end Canopy.Gen.Mux\n")
	return b.String(), nil
}
