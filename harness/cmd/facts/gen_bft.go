package main

import (
	"fmt"
	"go/ast"
	"go/token"
	"path/filepath"
	"regexp"
	"strings"

	g "verifharness/gotolean"
)

func init() { register("Bft", genBft) }

// genBft regenerates lean/Canopy/Gen/Bft.lean: the decision functions of the BFT vote/lock/commit
// core that the agreement proof (C01) is stated over.
//
//	lib/consensus.go     View.Less, View.Equals, the MinimumMaj23 expression of NewValidatorSet,
//	                     the partial-QC comparison of AggregateSignature.Check
//	lib/certificate.go   the conditions of CheckHighQC that follow x.Check
//	bft/bft.go           SafeNode (whole decision + the comparison of its LIVENESS branch),
//	                     the lock assignment of StartPrecommitVotePhase (fact)
//	bft/msg.go           the PRECOMMIT/COMMIT branch of CheckProposerMessage and the pure helpers it calls
//	bft/vote.go          the HighQC replacement condition of handleHighQCVDFAndEvidence, the +2/3 test of GetMajorityVote
//
// uint64 fields of View are rendered as Nat: they are only compared, never computed with. The
// threshold arithmetic is rendered in UInt64 because wrap-around is what its theorem is about.
func genBft() (string, error) {
	var b strings.Builder
	b.WriteString("namespace Canopy.Gen.Bft\n\n")
	cons, err := g.ParseFile(filepath.Join(*repo, "lib/consensus.go"))
	if err != nil {
		return "", err
	}
	cert, err := g.ParseFile(filepath.Join(*repo, "lib/certificate.go"))
	if err != nil {
		return "", err
	}
	pb, err := g.ParseFile(filepath.Join(*repo, "lib/consensus.pb.go"))
	if err != nil {
		return "", err
	}
	bftF, err := g.ParseFile(filepath.Join(*repo, "bft/bft.go"))
	if err != nil {
		return "", err
	}
	msgF, err := g.ParseFile(filepath.Join(*repo, "bft/msg.go"))
	if err != nil {
		return "", err
	}
	voteF, err := g.ParseFile(filepath.Join(*repo, "bft/vote.go"))
	if err != nil {
		return "", err
	}

	// ---- View structure and Phase constants (lib/consensus.pb.go)
	fields, err := bftStructFields(pb, "View")
	if err != nil {
		return "", err
	}
	b.WriteString("/-- lib.View (fields from lib/consensus.pb.go); uint64 as Nat (compared only), Phase as its enum number -/\nstructure View where\n")
	for _, f := range fields {
		fmt.Fprintf(&b, "  %s : Nat\n", f)
	}
	b.WriteString("deriving DecidableEq, Repr\n\n")
	phases, err := bftEnumConsts(pb, "Phase")
	if err != nil {
		return "", err
	}
	idents := map[string]string{}
	for _, p := range phases {
		fmt.Fprintf(&b, "def %s : Nat := %d\n", bftLowerFirst(p.name), p.val)
		idents[p.name] = bftLowerFirst(p.name)
		idents["lib."+p.name] = bftLowerFirst(p.name)
	}
	// the aliases of bft/bft.go: Election = lib.Phase_ELECTION ...
	for _, d := range bftF.AST.Decls {
		gd, ok := d.(*ast.GenDecl)
		if !ok || gd.Tok != token.CONST {
			continue
		}
		for _, sp := range gd.Specs {
			vs := sp.(*ast.ValueSpec)
			for i, n := range vs.Names {
				if i < len(vs.Values) {
					if t, ok := idents[g.ExprText(vs.Values[i])]; ok {
						idents[n.Name] = t
					}
				}
			}
		}
	}
	b.WriteString("\n")

	// ---- View.Less / View.Equals
	viewCfg := func() g.Config {
		return g.Config{
			Types:        map[string]string{"*View": "(Option View)", "bool": "Bool", "*lib.View": "View"},
			Idents:       bftCopyMap(idents),
			Calls:        map[string]func([]string) (string, error){},
			RecvType:     "(Option View)",
			OptionParams: map[string]bool{"x": true, "v": true},
		}
	}
	for _, name := range []string{"Less", "Equals"} {
		fd := cons.FindFunc("View", name)
		if fd == nil {
			return "", fmt.Errorf("lib/consensus.go: View.%s not found", name)
		}
		tr := &g.Translator{Cfg: viewCfg()}
		txt, err := tr.Func(fd, "View."+name)
		if err != nil {
			return "", err
		}
		fmt.Fprintf(&b, "/-- lib/consensus.go (*View).%s; nil pointer = none -/\n%s\n", name, txt)
	}

	// ---- threshold (lib/consensus.go NewValidatorSet, AggregateSignature.Check; bft/vote.go GetMajorityVote)
	nvs := cons.FindFunc("", "NewValidatorSet")
	if nvs == nil {
		return "", fmt.Errorf("NewValidatorSet not found")
	}
	var majExpr ast.Expr
	majVar := ""
	ast.Inspect(nvs.Body, func(n ast.Node) bool {
		if kv, ok := n.(*ast.KeyValueExpr); ok && g.ExprText(kv.Key) == "MinimumMaj23" {
			majVar = g.ExprText(kv.Value)
		}
		return true
	})
	ast.Inspect(nvs.Body, func(n ast.Node) bool {
		if as, ok := n.(*ast.AssignStmt); ok && len(as.Lhs) == 1 && len(as.Rhs) == 1 && g.ExprText(as.Lhs[0]) == majVar && as.Tok == token.DEFINE {
			majExpr = as.Rhs[0]
		}
		return true
	})
	if majExpr == nil {
		return "", fmt.Errorf("NewValidatorSet: the expression assigned to MinimumMaj23 (via %q) not found", majVar)
	}
	u64 := &g.Translator{Cfg: g.Config{Idents: map[string]string{}, Calls: map[string]func([]string) (string, error){}}}
	me, err := u64.Expr(majExpr)
	if err != nil {
		return "", fmt.Errorf("MinimumMaj23 expression: %v", err)
	}
	fmt.Fprintf(&b, "/-- lib/consensus.go NewValidatorSet: `%s := %s` (uint64 arithmetic) -/\ndef minimumMaj23 (totalPower : UInt64) : UInt64 := %s\n", majVar, g.ExprText(majExpr), me)
	fmt.Fprintf(&b, "def src_minimumMaj23 : String := %q\n", g.ExprText(majExpr))
	tpVar := ""
	ast.Inspect(nvs.Body, func(n ast.Node) bool {
		if kv, ok := n.(*ast.KeyValueExpr); ok && g.ExprText(kv.Key) == "TotalPower" {
			tpVar = g.ExprText(kv.Value)
		}
		return true
	})
	fmt.Fprintf(&b, "def src_totalPowerField : String := %q\n", tpVar)
	// +2/3 test of GetMajorityVote
	gmv := voteF.FindFunc("BFT", "GetMajorityVote")
	if gmv == nil {
		return "", fmt.Errorf("GetMajorityVote not found")
	}
	var has23 ast.Expr
	ast.Inspect(gmv.Body, func(n ast.Node) bool {
		if as, ok := n.(*ast.AssignStmt); ok && len(as.Lhs) == 1 && g.ExprText(as.Lhs[0]) == "has23maj" {
			has23 = as.Rhs[0]
		}
		return true
	})
	if has23 == nil {
		return "", fmt.Errorf("GetMajorityVote: has23maj not found")
	}
	thr := &g.Translator{Cfg: g.Config{Idents: map[string]string{"voteSet.TotalVotedPower": "voted", "b.ValidatorSet.MinimumMaj23": "minMaj23", "totalSignedPower": "voted", "vs.MinimumMaj23": "minMaj23"}, Calls: map[string]func([]string) (string, error){}}}
	he, err := thr.Expr(has23)
	if err != nil {
		return "", fmt.Errorf("has23maj: %v", err)
	}
	fmt.Fprintf(&b, "/-- bft/vote.go GetMajorityVote: `%s` -/\ndef hasMaj23 (voted minMaj23 : UInt64) : Bool := %s\n", g.ExprText(has23), he)
	asc := cons.FindFunc("AggregateSignature", "Check")
	if asc == nil {
		return "", fmt.Errorf("AggregateSignature.Check not found")
	}
	var partial ast.Expr
	var partialInit ast.Stmt
	for _, st := range asc.Body.List {
		if is, ok := st.(*ast.IfStmt); ok && strings.Contains(g.StmtsText(is.Body.List), "return true, nil") {
			partial, partialInit = is.Cond, is.Init
		}
	}
	if partial == nil {
		return "", fmt.Errorf("AggregateSignature.Check: partial-QC branch not found")
	}
	thr.Cfg.Idents["vs.TotalPower"] = "totalPower" // available to the test, so that a re-derived threshold still translates
	pe, err := thr.Expr(partial)
	if err != nil {
		return "", fmt.Errorf("partial QC: %v", err)
	}
	if partialInit != nil { // `if f := ...; cond`
		lets, err := thr.InitLets(partialInit, "")
		if err != nil {
			return "", fmt.Errorf("partial QC: %v", err)
		}
		pe = "(" + strings.ReplaceAll(strings.TrimSpace(lets), "\n", "; ") + "; " + pe + ")"
	}
	fmt.Fprintf(&b, "/-- lib/consensus.go AggregateSignature.Check: `if %s { return true, nil }` (isPartialQC); minMaj23 = vs.MinimumMaj23,\n    totalPower = vs.TotalPower -/\ndef isPartialQC (voted minMaj23 totalPower : UInt64) : Bool := %s\n\n", g.ExprText(partial), pe)

	// ---- CheckHighQC: the conditions after x.Check
	chq := cert.FindFunc("QuorumCertificate", "CheckHighQC")
	if chq == nil {
		return "", fmt.Errorf("CheckHighQC not found")
	}
	if len(chq.Body.List) < 3 || !strings.HasPrefix(g.StmtText(chq.Body.List[0]), "isPartialQC, err := x.Check(vs, maxBlockSize, view, false)") ||
		g.StmtText(chq.Body.List[1]) != "if err != nil { return err }" {
		return "", fmt.Errorf("CheckHighQC: unexpected prologue: %s", g.StmtsText(chq.Body.List[:2]))
	}
	hqIdents := bftCopyMap(idents)
	hqIdents["x.Header"] = "x"
	hqTr := &g.Translator{Cfg: g.Config{Idents: hqIdents, Calls: map[string]func([]string) (string, error){}}}
	hqBody, err := hqTr.Stmts(chq.Body.List[2:], "lib.ErrorI", "  ")
	if err != nil {
		return "", fmt.Errorf("CheckHighQC: %v", err)
	}
	fmt.Fprintf(&b, "/-- lib/certificate.go CheckHighQC after `x.Check(vs, maxBlockSize, view, false)` succeeded (signature valid; isPartialQC = below +2/3).\n    none = accepted, some e = rejected with error constructor e -/\ndef checkHighQCPost (isPartialQC : Bool) (x view : View) (lastRootHeightUpdated : Nat) : Option String :=\n%s\n\n", hqBody)

	// ---- SafeNode
	sn := bftF.FindFunc("BFT", "SafeNode")
	if sn == nil {
		return "", fmt.Errorf("SafeNode not found")
	}
	b.WriteString(`/-- what SafeNode reads: presence of the message parts, the hashes it compares (abstract ids: equal ids = equal
    bytes), the header of the lock and of the justification -/
structure SafeNodeIn where
  hasMsg : Bool
  hasQc : Bool
  hasHighQc : Bool
  proposalBlockHash : Nat    -- b.BlockToHash(msg.Qc.Block)
  proposalResultsHash : Nat  -- msg.Qc.Results.Hash()
  highBlockHash : Nat        -- msg.HighQc.BlockHash
  highResultsHash : Nat      -- msg.HighQc.ResultsHash
  lockBlockHash : Nat        -- b.HighQC.BlockHash
  lockResultsHash : Nat      -- b.HighQC.ResultsHash
  lock : View                -- b.HighQC.Header
  msgHigh : View             -- msg.HighQc.Header
deriving Repr

`)
	less := func(recv string, args []string) (string, error) {
		if len(args) != 1 {
			return "", fmt.Errorf("Less with %d args", len(args))
		}
		return fmt.Sprintf("(View.Less (some %s) (some %s))", recv, args[0]), nil
	}
	equals := func(recv string, args []string) (string, error) {
		if len(args) != 1 {
			return "", fmt.Errorf("Equals with %d args", len(args))
		}
		return fmt.Sprintf("(View.Equals (some %s) (some %s))", recv, args[0]), nil
	}
	bytesEq := func(args []string) (string, error) {
		if len(args) != 2 {
			return "", fmt.Errorf("bytes.Equal with %d args", len(args))
		}
		return fmt.Sprintf("(decide (%s = %s))", args[0], args[1]), nil
	}
	snIdents := bftCopyMap(idents)
	for k, v := range map[string]string{
		"msg == nil": "(!s.hasMsg)", "msg.Qc == nil": "(!s.hasQc)", "msg.HighQc == nil": "(!s.hasHighQc)",
		"b.BlockToHash(msg.Qc.Block)": "s.proposalBlockHash", "msg.Qc.Results.Hash()": "s.proposalResultsHash",
		"msg.HighQc.BlockHash": "s.highBlockHash", "msg.HighQc.ResultsHash": "s.highResultsHash",
		"b.HighQC.BlockHash": "s.lockBlockHash", "b.HighQC.ResultsHash": "s.lockResultsHash",
		"b.HighQC.Header": "s.lock", "msg.HighQc.Header": "s.msgHigh",
	} {
		snIdents[k] = v
	}
	isLog := func(src string) bool { return strings.HasPrefix(src, "b.log.") }
	snTr := &g.Translator{Cfg: g.Config{Idents: snIdents, DropStmt: isLog,
		Calls:   map[string]func([]string) (string, error){"bytes.Equal": bytesEq},
		Methods: map[string]func(string, []string) (string, error){"Less": less, "Equals": equals}}}
	snBody, err := snTr.Stmts(sn.Body.List, "lib.ErrorI", "  ")
	if err != nil {
		return "", fmt.Errorf("SafeNode: %v", err)
	}
	fmt.Fprintf(&b, "/-- bft/bft.go (*BFT).SafeNode, whole decision; none = nil (vote), some e = error constructor e (round interrupt) -/\ndef safeNode (s : SafeNodeIn) : Option String :=\n%s\n\n", snBody)
	// the accepting branches: `if c { ...; return nil }`
	var accepting []*ast.IfStmt
	for _, st := range sn.Body.List {
		if is, ok := st.(*ast.IfStmt); ok && is.Else == nil && len(is.Body.List) > 0 {
			if g.StmtText(is.Body.List[len(is.Body.List)-1]) == "return nil" {
				accepting = append(accepting, is)
			}
		}
	}
	if len(accepting) == 0 {
		return "", fmt.Errorf("SafeNode: no accepting branch found")
	}
	live := accepting[len(accepting)-1]
	unIdents := bftCopyMap(idents)
	unIdents["b.HighQC.Header"] = "lock"
	unIdents["msg.HighQc.Header"] = "msgHigh"
	unTr := &g.Translator{Cfg: g.Config{Idents: unIdents, Calls: map[string]func([]string) (string, error){},
		Methods: map[string]func(string, []string) (string, error){"Less": less, "Equals": equals}}}
	ue, err := unTr.Expr(live.Cond)
	if err != nil {
		return "", fmt.Errorf("SafeNode LIVENESS condition %q: %v", g.ExprText(live.Cond), err)
	}
	if live.Init != nil { // `if a, b := x, y; cond`
		lets, err := unTr.InitLets(live.Init, "")
		if err != nil {
			return "", fmt.Errorf("SafeNode LIVENESS branch: %v", err)
		}
		ue = "(" + strings.ReplaceAll(strings.TrimSpace(lets), "\n", "; ") + "; " + ue + ")"
	}
	fmt.Fprintf(&b, "/-- the condition of SafeNode's last accepting branch (LIVENESS): `%s` -/\ndef safeNodeUnlock (lock msgHigh : View) : Bool := %s\n", g.ExprText(live.Cond), ue)
	fmt.Fprintf(&b, "def src_SafeNode_liveness : String := %q\n", g.ExprText(live.Cond))
	var accSrc []string
	for _, a := range accepting {
		accSrc = append(accSrc, fmt.Sprintf("%q", g.ExprText(a.Cond)))
	}
	fmt.Fprintf(&b, "/-- conditions of all accepting branches of SafeNode, in order (SAFETY first, LIVENESS last) -/\ndef src_SafeNode_accepting : List String := [%s]\n", strings.Join(accSrc, ", "))
	var rej []string
	for _, st := range sn.Body.List {
		if is, ok := st.(*ast.IfStmt); ok && !bftContainsIf(accepting, is) {
			rej = append(rej, fmt.Sprintf("%q", g.StmtText(is)))
		}
	}
	fmt.Fprintf(&b, "/-- rejecting checks of SafeNode (missing justification; hash-justification `HighQc` must certify the proposed block and results) -/\ndef src_SafeNode_rejecting : List String := [%s]\n", strings.Join(rej, ", "))
	fmt.Fprintf(&b, "def src_SafeNode : String := %q\n\n", bftNormLogs(g.StmtsText(sn.Body.List)))

	// ---- the call site: StartProposeVotePhase calls SafeNode iff locked
	spv := bftF.FindFunc("BFT", "StartProposeVotePhase")
	if spv == nil {
		return "", fmt.Errorf("StartProposeVotePhase not found")
	}
	callSite := ""
	for _, st := range spv.Body.List {
		if is, ok := st.(*ast.IfStmt); ok && strings.Contains(g.StmtText(is), "b.SafeNode(msg)") {
			callSite = g.StmtText(&ast.IfStmt{Cond: is.Cond, Body: &ast.BlockStmt{List: bftDropStmts(is.Body.List, isLog)}})
		}
	}
	fmt.Fprintf(&b, "def src_StartProposeVotePhase_safeNodeCall : String := %q\n", bftNormLogs(callSite))

	// ---- lock assignment in StartPrecommitVotePhase
	spc := bftF.FindFunc("BFT", "StartPrecommitVotePhase")
	if spc == nil {
		return "", fmt.Errorf("StartPrecommitVotePhase not found")
	}
	var lockStmts []string
	for _, st := range bftDropStmts(spc.Body.List, isLog) {
		t := g.StmtText(st)
		if strings.HasPrefix(t, "b.HighQC") || strings.HasPrefix(t, "msg := ") || strings.Contains(t, "CheckProposerAndProposal") {
			lockStmts = append(lockStmts, fmt.Sprintf("%q", bftNormLogs(t)))
		}
	}
	fmt.Fprintf(&b, "/-- StartPrecommitVotePhase: where the message comes from, what is checked, what becomes the lock -/\ndef src_StartPrecommitVotePhase_lock : List String := [%s]\n", strings.Join(lockStmts, ", "))
	gp := bftFindFuncAnyFile([]*g.File{bftF}, "BFT", "GetProposal")
	_ = gp
	propF, err := g.ParseFile(filepath.Join(*repo, "bft/prop.go"))
	if err != nil {
		return "", err
	}
	for _, fn := range []string{"GetProposal", "getProposal"} {
		if fd := propF.FindFunc("BFT", fn); fd != nil {
			fmt.Fprintf(&b, "def src_%s : String := %q\n", fn, g.StmtsText(fd.Body.List))
		} else {
			return "", fmt.Errorf("bft/prop.go: %s not found", fn)
		}
	}
	b.WriteString("\n")

	// ---- CheckProposerMessage: the PRECOMMIT/COMMIT branch
	cpm := msgF.FindFunc("BFT", "CheckProposerMessage")
	if cpm == nil {
		return "", fmt.Errorf("CheckProposerMessage not found")
	}
	var elseList, proposeList []ast.Stmt
	var rootCheck string
	for _, st := range cpm.Body.List {
		is, ok := st.(*ast.IfStmt)
		if !ok {
			continue
		}
		if g.ExprText(is.Cond) == "x.Header.Phase == Propose" {
			proposeList = is.Body.List
			if blk, ok := is.Else.(*ast.BlockStmt); ok {
				elseList = blk.List
			}
		}
		if g.ExprText(is.Cond) == "x.Qc.Header.RootHeight != p.rootHeight" && strings.Contains(g.StmtsText(is.Body.List), "ErrWrongRootHeight") {
			rootCheck = g.StmtText(is)
		}
	}
	if elseList == nil {
		return "", fmt.Errorf("CheckProposerMessage: `if x.Header.Phase == Propose {...} else {...}` not found")
	}
	// which committee each certificate of a leader message is verified against: the one of the certificate's OWN root height
	var committeeFacts []string
	ast.Inspect(cpm.Body, func(n ast.Node) bool {
		is, ok := n.(*ast.IfStmt)
		if !ok {
			return true
		}
		for _, st := range is.Body.List {
			if as, ok := st.(*ast.AssignStmt); ok && len(as.Rhs) == 1 && strings.HasPrefix(g.ExprText(as.Rhs[0]), "b.LoadCommittee(") {
				committeeFacts = append(committeeFacts, fmt.Sprintf("%q", "if "+g.ExprText(is.Cond)+" { "+g.StmtText(as)+" }"))
			}
		}
		return true
	})
	fmt.Fprintf(&b, "/-- bft/msg.go CheckProposerMessage: when and with which arguments another committee is loaded (Qc first, HighQc second) -/\ndef src_CheckProposerMessage_committees : List String := [%s]\n", strings.Join(committeeFacts, ", "))
	var hqCommittee string
	if hhf := voteF.FindFunc("BFT", "handleHighQCVDFAndEvidence"); hhf != nil {
		ast.Inspect(hhf.Body, func(n ast.Node) bool {
			if as, ok := n.(*ast.AssignStmt); ok && len(as.Rhs) == 1 && strings.Contains(g.ExprText(as.Rhs[0]), "LoadCommittee(") {
				hqCommittee = g.StmtText(as)
			}
			return true
		})
	}
	fmt.Fprintf(&b, "/-- bft/vote.go handleHighQCVDFAndEvidence: the committee a reported lock is verified against -/\ndef src_handleHighQC_committee : String := %q\n\n", hqCommittee)
	// pure helpers over views declared in bft/msg.go that the branch calls
	helperCalls := map[string]func([]string) (string, error){"bytes.Equal": bytesEq}
	var helperTxt []string
	for _, st := range append(append([]ast.Stmt{}, elseList...), proposeList...) {
		ast.Inspect(st, func(n ast.Node) bool {
			ce, ok := n.(*ast.CallExpr)
			if !ok {
				return true
			}
			id, ok := ce.Fun.(*ast.Ident)
			if !ok {
				return true
			}
			fd := msgF.FindFunc("", id.Name)
			if fd == nil || helperCalls[id.Name] != nil {
				return true
			}
			htr := &g.Translator{Cfg: g.Config{Types: map[string]string{"*lib.View": "View", "bool": "Bool"}, Idents: bftCopyMap(idents),
				Calls: map[string]func([]string) (string, error){}, Methods: map[string]func(string, []string) (string, error){"Less": less, "Equals": equals}}}
			txt, err := htr.Func(fd, id.Name)
			if err != nil {
				return true // stays outside Calls: the branch translation below reports it
			}
			helperTxt = append(helperTxt, fmt.Sprintf("/-- bft/msg.go %s (unfolded by simp: proofs about `leaderMsgChecks` do not name the helpers it calls) -/\n@[simp] %s", id.Name, txt))
			helperCalls[id.Name] = g.App(id.Name)
			return true
		})
	}
	for _, h := range helperTxt {
		b.WriteString(h + "\n")
	}
	elIdents := bftCopyMap(idents)
	for k, v := range map[string]string{
		"x.Qc.Header": "qc", "x.Header": "hdr", "p.blockHash == nil": "(!hasSaved)", "p.resultsHash == nil": "(!hasSaved)",
		"x.Qc.BlockHash": "qcBlockHash", "x.Qc.ResultsHash": "qcResultsHash", "p.blockHash": "savedBlockHash", "p.resultsHash": "savedResultsHash",
		"x.Signature.PublicKey": "sender", "p.proposerKey": "proposerKey", "x.Qc.ProposerKey": "qcProposer",
		"x.Qc.Block == nil": "(!hasBlock)", "x.Qc.Results == nil": "(!hasResults)",
	} {
		elIdents[k] = v
	}
	elTr := &g.Translator{Cfg: g.Config{Idents: elIdents, Calls: helperCalls, LastResultOnly: true,
		Methods: map[string]func(string, []string) (string, error){"Less": less, "Equals": equals}}}
	// the branch falls through to the function's final bare `return` (nil error)
	elBody, err := elTr.Stmts(append(append([]ast.Stmt{}, elseList...), &ast.ReturnStmt{Results: []ast.Expr{ast.NewIdent("nil")}}), "lib.ErrorI", "  ")
	if err != nil {
		return "", fmt.Errorf("CheckProposerMessage PRECOMMIT/COMMIT branch: %v", err)
	}
	fmt.Fprintf(&b, `/-- bft/msg.go CheckProposerMessage, the branch for PRECOMMIT and COMMIT leader messages (after the certificate's
    signature and +2/3 were checked): qc = x.Qc.Header, hdr = x.Header, hasSaved = the replica holds a block for this
    round (p.blockHash/p.resultsHash non-nil), hashes and public keys as abstract ids (sender = x.Signature.PublicKey,
    proposerKey = the leader the replica follows in this round, 0 = none yet). none = accepted -/
def leaderMsgChecks (qc hdr : View) (sender proposerKey : Nat) (hasSaved : Bool) (qcBlockHash qcResultsHash savedBlockHash savedResultsHash : Nat) : Option String :=
%s

`, elBody)
	prBody, err := elTr.Stmts(append(append([]ast.Stmt{}, proposeList...), &ast.ReturnStmt{Results: []ast.Expr{ast.NewIdent("nil")}}), "lib.ErrorI", "  ")
	if err != nil {
		return "", fmt.Errorf("CheckProposerMessage PROPOSE branch: %v", err)
	}
	fmt.Fprintf(&b, `/-- bft/msg.go CheckProposerMessage, the branch for PROPOSE messages: qc = x.Qc.Header (the ELECTION_VOTE certificate),
    qcProposer = x.Qc.ProposerKey, hasBlock/hasResults = x.Qc.Block/x.Qc.Results non-nil. none = accepted -/
def proposeMsgChecks (qc hdr : View) (sender qcProposer : Nat) (hasBlock hasResults : Bool) : Option String :=
%s

`, prBody)
	var prSrc []string
	for _, st := range proposeList {
		prSrc = append(prSrc, fmt.Sprintf("%q", g.StmtText(st)))
	}
	fmt.Fprintf(&b, "def src_CheckProposerMessage_proposeBranch : List String := [%s]\n", strings.Join(prSrc, ", "))
	// the header checks that precede the branch: wrong root height of the certificate, wrong height of the
	// message, certificate older than the committee's last update
	var preSrc []string
	type hc struct{ cond, name, params string }
	for _, want := range []hc{
		{"x.Qc.Header.RootHeight != p.rootHeight", "leaderMsgWrongRoot", "(qc : View) (rootHeight : Nat)"},
		{"x.Header.Height != p.height", "leaderMsgWrongHeight", "(hdr : View) (height : Nat)"},
		{"x.Qc.Header.Height < p.cHeightUpdated", "leaderMsgQcTooOld", "(qc : View) (cHeightUpdated : Nat)"}} {
		ce, src := "false", "(check absent from the source)"
		for _, st := range cpm.Body.List {
			is, ok := st.(*ast.IfStmt)
			if !ok || g.ExprText(is.Cond) != want.cond || !strings.Contains(g.StmtsText(is.Body.List), "return false, lib.Err") {
				continue
			}
			preTr := &g.Translator{Cfg: g.Config{Idents: map[string]string{"x.Qc.Header": "qc", "x.Header": "hdr", "p.rootHeight": "rootHeight", "p.height": "height", "p.cHeightUpdated": "cHeightUpdated"},
				Calls: map[string]func([]string) (string, error){}}}
			var err error
			if ce, err = preTr.Expr(is.Cond); err != nil {
				return "", fmt.Errorf("CheckProposerMessage header check %q: %v", want.cond, err)
			}
			src = g.StmtText(is)
			preSrc = append(preSrc, fmt.Sprintf("%q", src))
		}
		fmt.Fprintf(&b, "/-- bft/msg.go CheckProposerMessage: `%s` -/\ndef %s %s : Bool := %s\n", src, want.name, want.params, ce)
	}
	fmt.Fprintf(&b, `/-- the header checks on a non-partial PROPOSE/PRECOMMIT/COMMIT message that precede the phase-specific branch
    (true = rejected): the certificate is from the replica's root height, the message is for the replica's height, the
    certificate is not older than the committee's last update -/
def leaderMsgHeaderRejected (qc hdr : View) (rootHeight height cHeightUpdated : Nat) : Bool :=
  leaderMsgWrongRoot qc rootHeight || leaderMsgWrongHeight hdr height || leaderMsgQcTooOld qc cHeightUpdated
def src_CheckProposerMessage_headerChecks : List String := [%s]

`, strings.Join(preSrc, ", "))
	var elSrc []string
	for _, st := range elseList {
		elSrc = append(elSrc, fmt.Sprintf("%q", g.StmtText(st)))
	}
	fmt.Fprintf(&b, "def src_CheckProposerMessage_leaderBranch : List String := [%s]\n", strings.Join(elSrc, ", "))
	fmt.Fprintf(&b, "/-- the certificate of a non-partial leader message must be from the replica's own root height -/\ndef src_CheckProposerMessage_rootCheck : String := %q\n", rootCheck)
	// order fact: the view-binding check precedes the hash comparisons
	bind, hash, snd := -1, -1, -1
	for i, st := range elseList {
		t := g.StmtText(st)
		if snd < 0 && strings.Contains(t, "bytes.Equal(x.Signature.PublicKey, p.proposerKey)") {
			snd = i
		}
		if bind < 0 && regexp.MustCompile(`^if !\w+\(x\.Qc\.Header, x\.Header\) \{ return false, `).MatchString(t) {
			bind = i
		}
		if hash < 0 && strings.Contains(t, "bytes.Equal(x.Qc.BlockHash, p.blockHash)") {
			hash = i
		}
	}
	fmt.Fprintf(&b, "/-- positions in the branch of the view-binding check and of the first hash comparison (-1 = absent) -/\ndef leaderBranch_bindIndex : Int := %d\ndef leaderBranch_hashIndex : Int := %d\n/-- position of the check that the sender is the leader the replica follows (-1 = absent) -/\ndef leaderBranch_senderIndex : Int := %d\n\n", bind, hash, snd)
	fmt.Fprintf(&b, "def src_validateMessageParams_proposerKey : Bool := %v\n", strings.Contains(g.StmtsText(msgF.FindFunc("BFT", "GetValidateMessageParams").Body.List), "proposerKey: b.ProposerKey"))

	// ---- handleHighQCVDFAndEvidence: when a received HighQc replaces b.HighQC
	hh := voteF.FindFunc("BFT", "handleHighQCVDFAndEvidence")
	if hh == nil {
		return "", fmt.Errorf("handleHighQCVDFAndEvidence not found")
	}
	var adopt *ast.IfStmt
	ast.Inspect(hh.Body, func(n ast.Node) bool {
		if is, ok := n.(*ast.IfStmt); ok && strings.Contains(g.StmtsText(is.Body.List), "b.HighQC = vote.HighQc") && !strings.Contains(g.ExprText(is.Cond), "vote.HighQc != nil") &&
			!strings.Contains(g.ExprText(is.Cond), "ElectionVote") {
			adopt = is
		}
		return true
	})
	if adopt == nil {
		return "", fmt.Errorf("handleHighQCVDFAndEvidence: the branch assigning b.HighQC not found")
	}
	adIdents := bftCopyMap(idents)
	adIdents["b.HighQC == nil"] = "(!hasLock)"
	adIdents["b.HighQC.Header"] = "lock"
	adIdents["vote.HighQc.Header"] = "new"
	adIdents["vote.Qc.Header"] = "voteHdr" // the ELECTION_VOTE's own header: available to the condition, so that a change that
	// compares against it still translates and the obligation about the comparison is what breaks
	adTr := &g.Translator{Cfg: g.Config{Idents: adIdents, Calls: map[string]func([]string) (string, error){},
		Methods: map[string]func(string, []string) (string, error){"Less": less, "Equals": equals}}}
	ae, err := adTr.Expr(adopt.Cond)
	if err != nil {
		return "", fmt.Errorf("HighQC replacement condition %q: %v", g.ExprText(adopt.Cond), err)
	}
	fmt.Fprintf(&b, "/-- bft/vote.go handleHighQCVDFAndEvidence: `if %s { b.HighQC = vote.HighQc ... }` -/\ndef adoptHigher (hasLock : Bool) (lock new voteHdr : View) : Bool := %s\n", g.ExprText(adopt.Cond), ae)
	fmt.Fprintf(&b, "def src_adoptHigher_body : String := %q\n", g.StmtsText(bftDropStmts(adopt.Body.List, isLog)))

	// ---- handleHighQCVDFAndEvidence: who processes the payload of an ELECTION_VOTE, and the lock must carry its proposal
	var evBranch []ast.Stmt
	for _, st := range hh.Body.List {
		if is, ok := st.(*ast.IfStmt); ok && g.ExprText(is.Cond) == "vote.Qc.Header.Phase == ElectionVote" {
			evBranch = is.Body.List
		}
	}
	gateExpr, gateSrc, gateIdx := "false", "(guard absent from the source)", -1
	missExpr, missSrc, missIdx := "false", "(check absent from the source)", -1
	evIdents := bftCopyMap(idents)
	for k, v := range map[string]string{"bytes.Equal(vote.Qc.ProposerKey, b.PublicKey)": "namesSelf", "vote.Qc.Header.Round": "voteRound", "b.Round": "round", "b.Phase": "phase",
		"vote.HighQc.Block == nil": "(!hasBlock)", "vote.HighQc.Results == nil": "(!hasResults)"} {
		evIdents[k] = v
	}
	evCalls := map[string]func([]string) (string, error){}
	for i, st := range evBranch {
		is, ok := st.(*ast.IfStmt)
		if !ok {
			continue
		}
		// the gate: `if !<pure predicate>(...) { return nil }`
		if un, ok := is.Cond.(*ast.UnaryExpr); ok && g.StmtsText(is.Body.List) == "return nil" {
			if ce, ok := un.X.(*ast.CallExpr); ok {
				if id, ok := ce.Fun.(*ast.Ident); ok {
					if fd := voteF.FindFunc("", id.Name); fd != nil {
						htr := &g.Translator{Cfg: g.Config{Types: map[string]string{"bool": "Bool", "uint64": "Nat", "Phase": "Nat"}, Idents: bftCopyMap(idents), Calls: map[string]func([]string) (string, error){}}}
						txt, err := htr.Func(fd, id.Name)
						if err != nil {
							return "", fmt.Errorf("bft/vote.go %s: %v", id.Name, err)
						}
						fmt.Fprintf(&b, "/-- bft/vote.go %s -/\n@[simp] %s\n", id.Name, txt)
						evCalls[id.Name] = g.App(id.Name)
						gtr := &g.Translator{Cfg: g.Config{Idents: evIdents, Calls: evCalls}}
						if gateExpr, err = gtr.Expr(is.Cond); err != nil {
							return "", fmt.Errorf("election vote gate %q: %v", g.ExprText(is.Cond), err)
						}
						gateSrc, gateIdx = g.StmtText(is), i
					}
				}
			}
		}
		if g.ExprText(is.Cond) == "vote.HighQc != nil" {
			for j, in := range is.Body.List {
				if iis, ok := in.(*ast.IfStmt); ok && strings.Contains(g.ExprText(iis.Cond), "vote.HighQc.Block == nil") {
					gtr := &g.Translator{Cfg: g.Config{Idents: evIdents, Calls: evCalls}}
					var err error
					if missExpr, err = gtr.Expr(iis.Cond); err != nil {
						return "", fmt.Errorf("HighQc proposal check %q: %v", g.ExprText(iis.Cond), err)
					}
					missSrc, missIdx = g.StmtText(iis), j
				}
			}
		}
	}
	fmt.Fprintf(&b, `/-- bft/vote.go handleHighQCVDFAndEvidence, ELECTION_VOTE branch, statement %d: `+"`%s`"+` (true = the payload — lock, VDF, evidence — is
    ignored and the vote only counted). namesSelf = bytes.Equal(vote.Qc.ProposerKey, b.PublicKey) -/
def electionVoteIgnored (namesSelf : Bool) (voteRound round phase : Nat) : Bool := %s
def electionVoteGate_index : Int := %d
/-- statement %d inside `+"`if vote.HighQc != nil`: `%s`"+` (true = rejected: the lock does not carry its proposal) -/
def highQcMissingProposal (hasBlock hasResults : Bool) : Bool := %s
def highQcProposalCheck_index : Int := %d

`, gateIdx, gateSrc, gateExpr, gateIdx, missIdx, missSrc, missExpr, missIdx)

	// ---- NewHeight / NewRound (facts: what a reset keeps)
	for _, fn := range []string{"NewHeight", "NewRound"} {
		fd := bftF.FindFunc("BFT", fn)
		if fd == nil {
			return "", fmt.Errorf("bft/bft.go: %s not found", fn)
		}
		fmt.Fprintf(&b, "def src_%s : String := %q\n", fn, g.StmtsText(bftDropStmts(fd.Body.List, isLog)))
		var stmts []string
		for _, st := range bftDropStmts(fd.Body.List, isLog) {
			stmts = append(stmts, fmt.Sprintf("%q", g.StmtText(st)))
		}
		fmt.Fprintf(&b, "/-- the top-level statements of %s, in order -/\ndef src_%s_stmts : List String := [%s]\n", fn, fn, strings.Join(stmts, ", "))
	}
	// ---- StartElectionVotePhase (fact: the frame of the phase that forwards the lock — what it calls, what it assigns)
	{
		fd := bftF.FindFunc("BFT", "StartElectionVotePhase")
		if fd == nil {
			return "", fmt.Errorf("bft/bft.go: StartElectionVotePhase not found")
		}
		var calls, assigns, fwd []string
		seen := map[string]bool{}
		add := func(l *[]string, kind, x string) {
			if !seen[kind+x] {
				seen[kind+x] = true
				*l = append(*l, fmt.Sprintf("%q", x))
			}
		}
		ast.Inspect(fd.Body, func(n ast.Node) bool {
			switch x := n.(type) {
			case *ast.CallExpr:
				if f := g.ExprText(x.Fun); !strings.HasPrefix(f, "b.log.") {
					add(&calls, "c", f)
				} else {
					return false
				}
			case *ast.AssignStmt:
				for _, l := range x.Lhs {
					add(&assigns, "a", g.ExprText(l))
				}
			case *ast.IncDecStmt:
				add(&assigns, "a", g.ExprText(x.X))
			case *ast.KeyValueExpr:
				if k, ok := x.Key.(*ast.Ident); ok && k.Name == "HighQc" {
					add(&fwd, "f", g.ExprText(x.Value))
				}
			}
			return true
		})
		fmt.Fprintf(&b, "/-- every function or method StartElectionVotePhase calls (logging aside), in order of first appearance -/\ndef src_StartElectionVotePhase_calls : List String := [%s]\n", strings.Join(calls, ", "))
		fmt.Fprintf(&b, "/-- every left-hand side StartElectionVotePhase assigns -/\ndef src_StartElectionVotePhase_assigns : List String := [%s]\n", strings.Join(assigns, ", "))
		fmt.Fprintf(&b, "/-- what the ELECTION_VOTE carries as `HighQc` -/\ndef src_StartElectionVotePhase_highQc : List String := [%s]\n", strings.Join(fwd, ", "))
	}
	// ---- liveness (C15): pacemaker threshold, wait-time arithmetic
	utilF, err := g.ParseFile(filepath.Join(*repo, "lib/util.go"))
	if err != nil {
		return "", err
	}
	rp := utilF.FindFunc("", "Uint64ReducePercentage")
	if rp == nil {
		return "", fmt.Errorf("lib/util.go: Uint64ReducePercentage not found")
	}
	rpTr := &g.Translator{Cfg: g.Config{Types: map[string]string{"uint64": "UInt64"}, Idents: map[string]string{}, Calls: map[string]func([]string) (string, error){}}}
	rpTxt, err := rpTr.Func(rp, "uint64ReducePercentage")
	if err != nil {
		return "", err
	}
	fmt.Fprintf(&b, "\n/-- lib/util.go Uint64ReducePercentage (uint64 arithmetic) -/\n%s\n", rpTxt)
	pm := bftF.FindFunc("BFT", "Pacemaker")
	if pm == nil {
		return "", fmt.Errorf("Pacemaker not found")
	}
	var pmCond ast.Expr
	var pmJump string
	ast.Inspect(pm.Body, func(n ast.Node) bool {
		if is, ok := n.(*ast.IfStmt); ok {
			if strings.HasPrefix(g.ExprText(is.Cond), "totalVotedPower >= ") {
				pmCond = is.Cond
			}
			if strings.Contains(g.ExprText(is.Cond), "pacemakerRound > b.Round") {
				pmJump = g.StmtText(&ast.IfStmt{Cond: is.Cond, Body: &ast.BlockStmt{List: bftDropStmts(is.Body.List, isLog)}})
			}
		}
		return true
	})
	if pmCond == nil {
		return "", fmt.Errorf("Pacemaker: the threshold comparison `totalVotedPower >= ...` not found")
	}
	pmTr := &g.Translator{Cfg: g.Config{Idents: map[string]string{"b.ValidatorSet.MinimumMaj23": "minMaj23", "b.ValidatorSet.TotalPower": "totalPower"},
		Calls: map[string]func([]string) (string, error){"lib.Uint64ReducePercentage": g.App("uint64ReducePercentage")}}}
	pe2, err := pmTr.Expr(pmCond)
	if err != nil {
		return "", fmt.Errorf("Pacemaker threshold %q: %v", g.ExprText(pmCond), err)
	}
	fmt.Fprintf(&b, "/-- bft/bft.go Pacemaker: `if %s { pacemakerRound = vote.Qc.Header.Round; break }` (votes visited from the highest claimed round down) -/\ndef pacemakerReached (totalVotedPower minMaj23 totalPower : UInt64) : Bool := %s\n", g.ExprText(pmCond), pe2)
	fmt.Fprintf(&b, "def src_Pacemaker_threshold : String := %q\ndef src_Pacemaker_jump : String := %q\n", g.ExprText(pmCond), pmJump)
	fmt.Fprintf(&b, "def src_Pacemaker : String := %q\n", bftNormLogs(g.StmtsText(pm.Body.List)))
	ri := bftF.FindFunc("BFT", "RoundInterrupt")
	if ri == nil {
		return "", fmt.Errorf("RoundInterrupt not found")
	}
	fmt.Fprintf(&b, "def src_RoundInterrupt : String := %q\n", bftNormLogs(g.StmtsText(ri.Body.List)))
	// waitTime(sleepTimeMS, round): milliseconds as Nat (time.Duration(...) * time.Millisecond is the unit conversion)
	wt := bftF.FindFunc("BFT", "waitTime")
	if wt == nil || len(wt.Body.List) != 1 {
		return "", fmt.Errorf("waitTime not found or not a single return")
	}
	wtTr := &g.Translator{Cfg: g.Config{Idents: map[string]string{"time.Millisecond": "1"}, Calls: map[string]func([]string) (string, error){
		"time.Duration": func(a []string) (string, error) { return a[0], nil }}}}
	we, err := wtTr.Expr(wt.Body.List[0].(*ast.ReturnStmt).Results[0])
	if err != nil {
		return "", fmt.Errorf("waitTime: %v", err)
	}
	fmt.Fprintf(&b, "/-- bft/bft.go waitTime, in milliseconds (Nat: no wrap-around; see C15.waitTime_fits for when the uint64/Duration arithmetic agrees) -/\ndef waitTime (sleepTimeMS round : Nat) : Nat := %s\ndef src_waitTime : String := %q\n", we, g.StmtsText(wt.Body.List))
	// WaitTime: which configuration value each phase waits for
	WT := bftF.FindFunc("BFT", "WaitTime")
	if WT == nil {
		return "", fmt.Errorf("WaitTime not found")
	}
	var wtRows []string
	ast.Inspect(WT.Body, func(n ast.Node) bool {
		cc, ok := n.(*ast.CaseClause)
		if !ok || len(cc.List) != 1 || len(cc.Body) == 0 {
			return true
		}
		ph, ok := idents[g.ExprText(cc.List[0])]
		if !ok {
			return true
		}
		wtRows = append(wtRows, fmt.Sprintf("(%s, %q)", ph, strings.TrimPrefix(g.StmtText(cc.Body[len(cc.Body)-1]), "waitTime = ")))
		return true
	})
	fmt.Fprintf(&b, "/-- bft/bft.go WaitTime: phase -> the expression assigned to the wait time -/\ndef waitTimeTable : List (Nat × String) := [%s]\n", strings.Join(wtRows, ", "))
	// msLeftInRound: switch on the phase, each case returns a sum of phase waits
	ml := bftF.FindFunc("BFT", "msLeftInRound")
	if ml == nil {
		return "", fmt.Errorf("msLeftInRound not found")
	}
	mlIdents := map[string]string{}
	var mlDefs []string
	for _, st := range ml.Body.List {
		as, ok := st.(*ast.AssignStmt)
		if !ok || len(as.Lhs) != 1 {
			continue
		}
		rhs := g.ExprText(as.Rhs[0]) // b.WaitTime(Election, b.Round).Milliseconds()
		m := regexp.MustCompile(`^b\.WaitTime\((\w+), b\.Round\)\.Milliseconds\(\)$`).FindStringSubmatch(rhs)
		if m == nil {
			return "", fmt.Errorf("msLeftInRound: unexpected definition %s", g.StmtText(st))
		}
		ph, ok := idents[m[1]]
		if !ok {
			return "", fmt.Errorf("msLeftInRound: unknown phase %s", m[1])
		}
		mlIdents[g.ExprText(as.Lhs[0])] = fmt.Sprintf("(w %s)", ph)
		mlDefs = append(mlDefs, fmt.Sprintf("(%q, %s)", g.ExprText(as.Lhs[0]), ph))
	}
	mlTr := &g.Translator{Cfg: g.Config{Idents: mlIdents, Calls: map[string]func([]string) (string, error){"int": func(a []string) (string, error) { return a[0], nil }}}}
	var mlBody strings.Builder
	found := false
	for _, st := range ml.Body.List {
		sw, ok := st.(*ast.SwitchStmt)
		if !ok || g.ExprText(sw.Tag) != "b.Phase" {
			continue
		}
		found = true
		def := "0"
		for _, c := range sw.Body.List {
			cc := c.(*ast.CaseClause)
			if len(cc.Body) != 1 {
				return "", fmt.Errorf("msLeftInRound: case with %d statements", len(cc.Body))
			}
			rs, ok := cc.Body[0].(*ast.ReturnStmt)
			if !ok || len(rs.Results) != 1 {
				return "", fmt.Errorf("msLeftInRound: case body is not a single return")
			}
			e, err := mlTr.Expr(rs.Results[0])
			if err != nil {
				return "", fmt.Errorf("msLeftInRound: %v", err)
			}
			if cc.List == nil {
				def = e
				continue
			}
			for _, l := range cc.List {
				ph, ok := idents[g.ExprText(l)]
				if !ok {
					return "", fmt.Errorf("msLeftInRound: unknown phase %s", g.ExprText(l))
				}
				fmt.Fprintf(&mlBody, "  if phase = %s then %s else\n", ph, e)
			}
		}
		fmt.Fprintf(&mlBody, "  %s\n", def)
	}
	if !found {
		return "", fmt.Errorf("msLeftInRound: switch b.Phase not found")
	}
	fmt.Fprintf(&b, "/-- bft/bft.go msLeftInRound: `w p` = WaitTime(p, b.Round) in milliseconds; what RoundInterrupt waits for -/\ndef msLeftInRound (phase : Nat) (w : Nat → Nat) : Nat :=\n%s", mlBody.String())
	fmt.Fprintf(&b, "def msLeftInRound_terms : List (String × Nat) := [%s]\n", strings.Join(mlDefs, ", "))
	b.WriteString("\nend Canopy.Gen.Bft\n")
	return b.String(), nil
}

func bftFindFuncAnyFile(fs []*g.File, recv, name string) *ast.FuncDecl {
	for _, f := range fs {
		if fd := f.FindFunc(recv, name); fd != nil {
			return fd
		}
	}
	return nil
}

func bftContainsIf(l []*ast.IfStmt, x *ast.IfStmt) bool {
	for _, y := range l {
		if y == x {
			return true
		}
	}
	return false
}

func bftDropStmts(list []ast.Stmt, drop func(string) bool) []ast.Stmt {
	var out []ast.Stmt
	for _, s := range list {
		if drop(g.StmtText(s)) {
			continue
		}
		out = append(out, s)
	}
	return out
}

var bftLogRe = regexp.MustCompile(`b\.log\.\w+\([^;{}]*\)(; )?`)

// bftNormLogs removes logging calls from normalised source text (log wording is not a fact).
func bftNormLogs(s string) string { return strings.TrimSpace(bftLogRe.ReplaceAllString(s, "")) }

func bftCopyMap(m map[string]string) map[string]string {
	o := map[string]string{}
	for k, v := range m {
		o[k] = v
	}
	return o
}

func bftLowerFirst(s string) string {
	if s == "" {
		return s
	}
	return strings.ToLower(s[:1]) + s[1:]
}

// bftStructFields returns the exported proto fields of a generated struct, in declaration order.
func bftStructFields(f *g.File, name string) ([]string, error) {
	for _, d := range f.AST.Decls {
		gd, ok := d.(*ast.GenDecl)
		if !ok || gd.Tok != token.TYPE {
			continue
		}
		for _, sp := range gd.Specs {
			ts := sp.(*ast.TypeSpec)
			st, ok := ts.Type.(*ast.StructType)
			if !ok || ts.Name.Name != name {
				continue
			}
			var out []string
			for _, fl := range st.Fields.List {
				if fl.Tag == nil || !strings.Contains(fl.Tag.Value, "protobuf:") {
					continue
				}
				for _, n := range fl.Names {
					out = append(out, n.Name)
				}
			}
			return out, nil
		}
	}
	return nil, fmt.Errorf("struct %s not found", name)
}

type bftEnumConst struct {
	name string
	val  int
}

func bftEnumConsts(f *g.File, typ string) ([]bftEnumConst, error) {
	var out []bftEnumConst
	for _, d := range f.AST.Decls {
		gd, ok := d.(*ast.GenDecl)
		if !ok || gd.Tok != token.CONST {
			continue
		}
		for _, sp := range gd.Specs {
			vs := sp.(*ast.ValueSpec)
			if vs.Type == nil || g.ExprText(vs.Type) != typ {
				continue
			}
			for i, n := range vs.Names {
				if i < len(vs.Values) {
					var v int
					if _, err := fmt.Sscanf(g.ExprText(vs.Values[i]), "%d", &v); err == nil {
						out = append(out, bftEnumConst{n.Name, v})
					}
				}
			}
		}
	}
	if len(out) == 0 {
		return nil, fmt.Errorf("no constants of type %s", typ)
	}
	return out, nil
}
