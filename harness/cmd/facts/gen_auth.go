package main

import (
	"fmt"
	"go/ast"
	"path/filepath"
	"strings"

	g "verifharness/gotolean"
)

func init() { register("Auth", genAuth) }

// genAuth regenerates the authorization table (C05) from the source:
//
//   - for every case of the type switch in fsm.GetAuthorizedSignersFor: the message type and the
//     expressions that yield the authorized signer addresses (local variables are inlined, so
//     `address, e := s.pubKeyBytesToAddress(x.PublicKey) … return [][]byte{address, x.OutputAddress}`
//     becomes ["s.pubKeyBytesToAddress(x.PublicKey)", "x.OutputAddress"]);
//   - the kinds enumerated by HandleMessage, GetFeeForMessageName and GetAuthorizedSignersFor
//     (as Go type names; fee constants are mapped through the Name() methods);
//   - the assignments of PopulateSpecialMessageFields and how CheckTx feeds it;
//   - the normalised bodies of GetAuthorizedSignersForValidator, of the tail of CheckSignature
//     (address derivation and matching) and of BLS12381MultiPublicKey.VerifyBytes;
//   - per handler, the address expressions passed to AccountSub (who is debited), the expression
//     ApplyTransaction passes to AccountDeductFees, and the fields GetSignBytes copies.
//
// Expectations about these facts are hand-written theorems in Props/C05.lean (closed by `decide`).
func genAuth() (string, error) {
	var b strings.Builder
	b.WriteString("namespace Canopy.Gen.Auth\n\n")
	q := func(s string) string { return fmt.Sprintf("%q", s) }
	emitList := func(name, doc string, items []string) {
		qs := make([]string, len(items))
		for i, s := range items {
			qs[i] = q(s)
		}
		fmt.Fprintf(&b, "/-- %s -/\ndef %s : List String := [%s]\n\n", doc, name, strings.Join(qs, ",\n  "))
	}
	emitPairs := func(name, doc string, items [][2]string) {
		qs := make([]string, len(items))
		for i, s := range items {
			qs[i] = "(" + q(s[0]) + ", " + q(s[1]) + ")"
		}
		fmt.Fprintf(&b, "/-- %s -/\ndef %s : List (String × String) := [%s]\n\n", doc, name, strings.Join(qs, ",\n  "))
	}
	emitMulti := func(name, doc string, keys []string, vals [][]string) {
		qs := make([]string, len(keys))
		for i, k := range keys {
			vs := make([]string, len(vals[i]))
			for j, v := range vals[i] {
				vs[j] = q(v)
			}
			qs[i] = "(" + q(k) + ", [" + strings.Join(vs, ", ") + "])"
		}
		fmt.Fprintf(&b, "/-- %s -/\ndef %s : List (String × List String) := [%s]\n\n", doc, name, strings.Join(qs, ",\n  "))
	}
	emitStr := func(name, doc, s string) {
		fmt.Fprintf(&b, "/-- %s -/\ndef %s : String := %s\n\n", doc, name, q(s))
	}

	msgF, err := g.ParseFile(filepath.Join(*repo, "fsm/message.go"))
	if err != nil {
		return "", err
	}
	helpF, err := g.ParseFile(filepath.Join(*repo, "fsm/message_helpers.go"))
	if err != nil {
		return "", err
	}
	txF, err := g.ParseFile(filepath.Join(*repo, "fsm/transaction.go"))
	if err != nil {
		return "", err
	}
	valF, err := g.ParseFile(filepath.Join(*repo, "fsm/validator.go"))
	if err != nil {
		return "", err
	}
	libTxF, err := g.ParseFile(filepath.Join(*repo, "lib/tx.go"))
	if err != nil {
		return "", err
	}
	blsF, err := g.ParseFile(filepath.Join(*repo, "lib/crypto/bls.go"))
	if err != nil {
		return "", err
	}
	ethF, err := g.ParseFile(filepath.Join(*repo, "fsm/ethereum.go"))
	if err != nil {
		return "", err
	}

	// ---- helper: the single (type) switch of a function -------------------------------------------
	typeSwitchOf := func(fd *ast.FuncDecl) *ast.TypeSwitchStmt {
		var ts *ast.TypeSwitchStmt
		n := 0
		ast.Inspect(fd.Body, func(nd ast.Node) bool {
			if s, ok := nd.(*ast.TypeSwitchStmt); ok {
				ts = s
				n++
			}
			return true
		})
		if n != 1 {
			return nil
		}
		return ts
	}
	typeName := func(e ast.Expr) string { return strings.TrimPrefix(g.ExprText(e), "*") }

	// ---- GetAuthorizedSignersFor ------------------------------------------------------------------
	fd := msgF.FindFunc("StateMachine", "GetAuthorizedSignersFor")
	if fd == nil {
		return "", fmt.Errorf("fsm/message.go: GetAuthorizedSignersFor not found")
	}
	ts := typeSwitchOf(fd)
	if ts == nil {
		return "", fmt.Errorf("GetAuthorizedSignersFor: expected exactly one type switch")
	}
	var authKinds []string
	var authBodies [][2]string
	var authSigners [][]string
	var authDefault string
	for _, st := range ts.Body.List {
		cc := st.(*ast.CaseClause)
		if cc.List == nil {
			authDefault = g.StmtsText(cc.Body)
			continue
		}
		if len(cc.List) != 1 {
			return "", fmt.Errorf("GetAuthorizedSignersFor: case with %d types", len(cc.List))
		}
		kind := typeName(cc.List[0])
		// inline `v, e := <call>` definitions into the final return
		defs := map[string]string{}
		var signers []string
		for i, s := range cc.Body {
			switch v := s.(type) {
			case *ast.AssignStmt:
				if len(v.Lhs) == 2 && len(v.Rhs) == 1 {
					defs[g.ExprText(v.Lhs[0])] = g.ExprText(v.Rhs[0])
					continue
				}
				return "", fmt.Errorf("GetAuthorizedSignersFor/%s: unexpected assignment %q", kind, g.StmtText(s))
			case *ast.IfStmt:
				// only the error propagation `if e != nil { return nil, e }` is allowed
				if t := g.StmtText(v); t != "if e != nil { return nil, e }" {
					return "", fmt.Errorf("GetAuthorizedSignersFor/%s: unexpected branch %q", kind, t)
				}
				continue
			case *ast.ReturnStmt:
				if i != len(cc.Body)-1 {
					return "", fmt.Errorf("GetAuthorizedSignersFor/%s: return is not last", kind)
				}
				switch len(v.Results) {
				case 1: // delegating call
					signers = []string{g.ExprText(v.Results[0])}
				case 2:
					cl, ok := v.Results[0].(*ast.CompositeLit)
					if !ok || g.ExprText(cl.Type) != "[][]byte" || g.ExprText(v.Results[1]) != "nil" {
						return "", fmt.Errorf("GetAuthorizedSignersFor/%s: unexpected return %q", kind, g.StmtText(s))
					}
					for _, el := range cl.Elts {
						t := g.ExprText(el)
						// inline a local (`address`) or the root of a selector (`order.SellersSendAddress`)
						root, rest := t, ""
						if i := strings.Index(t, "."); i >= 0 {
							root, rest = t[:i], t[i:]
						}
						if d, ok := defs[root]; ok {
							t = d + rest
						}
						signers = append(signers, t)
					}
				default:
					return "", fmt.Errorf("GetAuthorizedSignersFor/%s: unexpected return arity", kind)
				}
			default:
				return "", fmt.Errorf("GetAuthorizedSignersFor/%s: unexpected statement %q", kind, g.StmtText(s))
			}
		}
		if signers == nil {
			return "", fmt.Errorf("GetAuthorizedSignersFor/%s: no return found", kind)
		}
		authKinds = append(authKinds, kind)
		authBodies = append(authBodies, [2]string{kind, g.StmtsText(cc.Body)})
		authSigners = append(authSigners, signers)
	}
	emitPairs("authTable", "GetAuthorizedSignersFor: (message type, normalised body of its case), source order", authBodies)
	emitMulti("authSigners", "GetAuthorizedSignersFor: (message type, expressions yielding the authorized signer addresses; locals inlined)", authKinds, authSigners)
	emitStr("authDefault", "GetAuthorizedSignersFor: the default case", authDefault)
	emitList("authKinds", "message types enumerated by GetAuthorizedSignersFor", authKinds)

	// ---- HandleMessage ----------------------------------------------------------------------------
	hm := msgF.FindFunc("StateMachine", "HandleMessage")
	if hm == nil {
		return "", fmt.Errorf("HandleMessage not found")
	}
	hts := typeSwitchOf(hm)
	if hts == nil {
		return "", fmt.Errorf("HandleMessage: expected exactly one type switch")
	}
	var handleKinds []string
	var handlers [][2]string
	for _, st := range hts.Body.List {
		cc := st.(*ast.CaseClause)
		if cc.List == nil {
			continue
		}
		if len(cc.List) != 1 || len(cc.Body) != 1 {
			return "", fmt.Errorf("HandleMessage: unexpected case shape")
		}
		kind := typeName(cc.List[0])
		ret, ok := cc.Body[0].(*ast.ReturnStmt)
		if !ok || len(ret.Results) != 1 {
			return "", fmt.Errorf("HandleMessage/%s: expected `return s.Handler(x)`", kind)
		}
		call, ok := ret.Results[0].(*ast.CallExpr)
		if !ok {
			return "", fmt.Errorf("HandleMessage/%s: expected a call", kind)
		}
		handleKinds = append(handleKinds, kind)
		handlers = append(handlers, [2]string{kind, strings.TrimPrefix(g.ExprText(call.Fun), "s.")})
	}
	emitList("handleKinds", "message types enumerated by HandleMessage", handleKinds)
	emitPairs("handlers", "HandleMessage: (message type, handler method)", handlers)

	// ---- Name() methods and name constants -> fee switch ------------------------------------------
	nameConst := map[string]string{} // const name -> type
	var msgNames [][2]string
	for _, d := range helpF.AST.Decls {
		f, ok := d.(*ast.FuncDecl)
		if !ok || f.Name.Name != "Name" || f.Recv == nil || len(f.Body.List) != 1 {
			continue
		}
		ret, ok := f.Body.List[0].(*ast.ReturnStmt)
		if !ok || len(ret.Results) != 1 {
			continue
		}
		tn := typeName(f.Recv.List[0].Type)
		nameConst[g.ExprText(ret.Results[0])] = tn
	}
	constVal := map[string]string{}
	for _, d := range helpF.AST.Decls {
		gd, ok := d.(*ast.GenDecl)
		if !ok {
			continue
		}
		for _, sp := range gd.Specs {
			vs, ok := sp.(*ast.ValueSpec)
			if !ok {
				continue
			}
			for i, n := range vs.Names {
				if i < len(vs.Values) {
					if bl, ok := vs.Values[i].(*ast.BasicLit); ok {
						constVal[n.Name] = strings.Trim(bl.Value, "\"")
					}
				}
			}
		}
	}
	gf := msgF.FindFunc("StateMachine", "GetFeeForMessageName")
	if gf == nil {
		return "", fmt.Errorf("GetFeeForMessageName not found")
	}
	var feeKinds []string
	var feeFields [][2]string
	nsw := 0
	var ferr error
	ast.Inspect(gf.Body, func(nd ast.Node) bool {
		sw, ok := nd.(*ast.SwitchStmt)
		if !ok {
			return true
		}
		nsw++
		for _, st := range sw.Body.List {
			cc := st.(*ast.CaseClause)
			if cc.List == nil {
				continue
			}
			for _, e := range cc.List {
				c := g.ExprText(e)
				tn, ok := nameConst[c]
				if !ok {
					ferr = fmt.Errorf("GetFeeForMessageName: case %s is not the Name() of a message type", c)
					return false
				}
				feeKinds = append(feeKinds, tn)
				feeFields = append(feeFields, [2]string{tn, g.StmtsText(cc.Body)})
			}
		}
		return true
	})
	if ferr != nil {
		return "", ferr
	}
	if nsw != 1 {
		return "", fmt.Errorf("GetFeeForMessageName: expected one switch, found %d", nsw)
	}
	emitList("feeKinds", "message types (via their Name() constant) enumerated by GetFeeForMessageName", feeKinds)
	emitPairs("feeTable", "GetFeeForMessageName: (message type, body of its case)", feeFields)
	for _, k := range handleKinds {
		for c, tn := range nameConst {
			if tn == k {
				msgNames = append(msgNames, [2]string{k, constVal[c]})
			}
		}
	}
	emitPairs("messageNames", "(message type, value of its Name())", msgNames)

	// ---- PopulateSpecialMessageFields -------------------------------------------------------------
	pf := txF.FindFunc("StateMachine", "PopulateSpecialMessageFields")
	if pf == nil {
		return "", fmt.Errorf("PopulateSpecialMessageFields not found")
	}
	var params []string
	for _, p := range pf.Type.Params.List {
		for _, n := range p.Names {
			params = append(params, n.Name)
		}
	}
	emitList("populateParams", "parameter names of PopulateSpecialMessageFields", params)
	pts := typeSwitchOf(pf)
	if pts == nil {
		return "", fmt.Errorf("PopulateSpecialMessageFields: expected one type switch")
	}
	var pop [][2]string
	for _, st := range pts.Body.List {
		cc := st.(*ast.CaseClause)
		if cc.List == nil {
			pop = append(pop, [2]string{"default", g.StmtsText(cc.Body)})
			continue
		}
		for _, e := range cc.List {
			pop = append(pop, [2]string{typeName(e), g.StmtsText(cc.Body)})
		}
	}
	emitPairs("populate", "PopulateSpecialMessageFields: (message type, assignments)", pop)

	// ---- CheckTx: where the signer comes from and the order of the checks ------------------------
	ct := txF.FindFunc("StateMachine", "CheckTx")
	if ct == nil {
		return "", fmt.Errorf("CheckTx not found")
	}
	var checkTxCalls []string
	var senderDef, populateCall, authDef string
	ast.Inspect(ct.Body, func(nd ast.Node) bool {
		switch v := nd.(type) {
		case *ast.AssignStmt:
			t := g.StmtText(v)
			if len(v.Lhs) >= 1 && g.ExprText(v.Lhs[0]) == "sender" {
				senderDef = t
			}
			if len(v.Lhs) >= 1 && g.ExprText(v.Lhs[0]) == "authorizedSigners" && strings.Contains(t, "GetAuthorizedSignersFor") {
				authDef = t
			}
		case *ast.CallExpr:
			f := g.ExprText(v.Fun)
			if strings.HasPrefix(f, "s.Metrics") || strings.HasPrefix(f, "time.") || strings.HasPrefix(f, "errors.") {
				return true
			}
			if strings.HasPrefix(f, "s.") || strings.HasPrefix(f, "tx.") || strings.HasPrefix(f, "lib.") {
				checkTxCalls = append(checkTxCalls, f)
			}
			if f == "s.PopulateSpecialMessageFields" {
				populateCall = g.ExprText(v)
			}
		}
		return true
	})
	emitList("checkTxCalls", "calls made by CheckTx in source order (metrics/time dropped)", checkTxCalls)
	emitStr("checkTxSender", "CheckTx: definition of `sender`", senderDef)
	emitStr("checkTxAuthorized", "CheckTx: definition of `authorizedSigners` on the non-plugin path", authDef)
	emitStr("checkTxPopulate", "CheckTx: the call of PopulateSpecialMessageFields", populateCall)

	// ---- CheckSignature ---------------------------------------------------------------------------
	cs := txF.FindFunc("StateMachine", "CheckSignature")
	if cs == nil {
		return "", fmt.Errorf("CheckSignature not found")
	}
	var csStmts []string
	for _, st := range cs.Body.List {
		csStmts = append(csStmts, g.StmtText(st))
	}
	emitList("checkSignature", "top-level statements of CheckSignature (normalised)", csStmts)
	// the guard "a multisig transaction must name at least one signer" and where it sits: after the key
	// is decoded, before anything is verified
	guard, guardAt, decodeAt, verifyAt := "", -1, -1, -1
	for i, t := range csStmts {
		switch {
		case strings.HasPrefix(t, "publicKey, e := crypto.NewPublicKeyFromBytes("):
			decodeAt = i
		case strings.HasPrefix(t, "if ") && strings.Contains(t, "EnabledSignerCount() == 0") && guardAt < 0:
			guard, guardAt = t, i
		case strings.HasPrefix(t, "if ") && strings.Contains(t, ".VerifyBytes(") && verifyAt < 0:
			verifyAt = i
		}
	}
	emitStr("multisigSignerGuard", "CheckSignature: the statement that refuses a multisig key with no enabled signer (empty when absent)", guard)
	fmt.Fprintf(&b, "/-- the guard is present, after the key is decoded and before any verification -/\ndef multisigSignerGuardInPlace : Bool := %v\n\n",
		guardAt >= 0 && decodeAt >= 0 && verifyAt >= 0 && decodeAt < guardAt && guardAt < verifyAt)

	// ---- ApplyTransaction: fee payer --------------------------------------------------------------
	at := txF.FindFunc("StateMachine", "ApplyTransaction")
	if at == nil {
		return "", fmt.Errorf("ApplyTransaction not found")
	}
	var feeCall, handleCall string
	var applyOrder []string
	ast.Inspect(at.Body, func(nd ast.Node) bool {
		if c, ok := nd.(*ast.CallExpr); ok {
			switch g.ExprText(c.Fun) {
			case "s.AccountDeductFees":
				feeCall = g.ExprText(c)
				applyOrder = append(applyOrder, "AccountDeductFees")
			case "s.HandleMessage":
				handleCall = g.ExprText(c)
				applyOrder = append(applyOrder, "HandleMessage")
			case "s.CheckTx":
				applyOrder = append(applyOrder, "CheckTx")
			}
		}
		return true
	})
	emitStr("applyFeeCall", "ApplyTransaction: the fee deduction", feeCall)
	emitStr("applyHandleCall", "ApplyTransaction: the handler call", handleCall)
	emitList("applyOrder", "ApplyTransaction: order of CheckTx / AccountDeductFees / HandleMessage", applyOrder)

	// ---- handlers: who is debited (AccountSub), who is credited (AccountAdd), pools ---------------
	var hk []string
	var subs, adds, psubs [][]string
	for _, h := range handlers {
		hf := msgF.FindFunc("StateMachine", h[1])
		if hf == nil {
			return "", fmt.Errorf("handler %s not found", h[1])
		}
		locals := map[string]string{}
		var s1, a1, p1 []string
		ast.Inspect(hf.Body, func(nd ast.Node) bool {
			switch v := nd.(type) {
			case *ast.AssignStmt:
				if len(v.Lhs) == 1 && len(v.Rhs) == 1 && v.Tok.String() == ":=" {
					locals[g.ExprText(v.Lhs[0])] = g.ExprText(v.Rhs[0])
				}
			case *ast.CallExpr:
				f := g.ExprText(v.Fun)
				arg := func() string {
					if len(v.Args) == 0 {
						return ""
					}
					t := g.ExprText(v.Args[0])
					if d, ok := locals[t]; ok {
						t = d
					}
					return t
				}
				switch f {
				case "s.AccountSub":
					s1 = append(s1, arg())
				case "s.AccountAdd", "s.AccountAddWithVesting":
					a1 = append(a1, arg())
				case "s.PoolSub":
					p1 = append(p1, arg())
				}
			}
			return true
		})
		hk = append(hk, h[0])
		subs = append(subs, s1)
		adds = append(adds, a1)
		psubs = append(psubs, p1)
	}
	emitMulti("handlerAccountSub", "per message type: first argument of every AccountSub call in its handler (locals inlined)", hk, subs)
	emitMulti("handlerAccountAdd", "per message type: first argument of every AccountAdd call in its handler (locals inlined)", hk, adds)
	emitMulti("handlerPoolSub", "per message type: first argument of every PoolSub call in its handler", hk, psubs)
	// the output-change rule of edit-stake
	var editGuard string
	if hf := msgF.FindFunc("StateMachine", "HandleMessageEditStake"); hf != nil {
		ast.Inspect(hf.Body, func(nd ast.Node) bool {
			if s, ok := nd.(*ast.IfStmt); ok && strings.Contains(g.ExprText(s.Cond), "msg.Signer") {
				editGuard = g.StmtText(s)
			}
			return true
		})
	}
	emitStr("editStakeOutputGuard", "HandleMessageEditStake: the guard on changing the output address", editGuard)

	// ---- GetAuthorizedSignersForValidator ----------------------------------------------------------
	gv := valF.FindFunc("StateMachine", "GetAuthorizedSignersForValidator")
	if gv == nil {
		return "", fmt.Errorf("GetAuthorizedSignersForValidator not found")
	}
	emitStr("validatorSigners", "normalised body of GetAuthorizedSignersForValidator", g.StmtsText(gv.Body.List))
	pk := valF.FindFunc("StateMachine", "pubKeyBytesToAddress")
	if pk == nil {
		return "", fmt.Errorf("pubKeyBytesToAddress not found")
	}
	emitStr("pubKeyBytesToAddress", "normalised body of pubKeyBytesToAddress", g.StmtsText(pk.Body.List))

	// ---- lib.Transaction.GetSignBytes / Sign -------------------------------------------------------
	sb := libTxF.FindFunc("Transaction", "GetSignBytes")
	if sb == nil {
		return "", fmt.Errorf("GetSignBytes not found")
	}
	var signFields [][2]string
	ast.Inspect(sb.Body, func(nd ast.Node) bool {
		if cl, ok := nd.(*ast.CompositeLit); ok && g.ExprText(cl.Type) == "Transaction" {
			for _, el := range cl.Elts {
				if kv, ok := el.(*ast.KeyValueExpr); ok {
					signFields = append(signFields, [2]string{g.ExprText(kv.Key), g.ExprText(kv.Value)})
				}
			}
		}
		return true
	})
	emitPairs("signBytesFields", "GetSignBytes: (field, value) of the Transaction literal that is marshalled", signFields)
	// the fields of the generated struct lib.Transaction (exported ones)
	pbF, err := g.ParseFile(filepath.Join(*repo, "lib/tx.pb.go"))
	if err != nil {
		return "", err
	}
	var txFields []string
	for _, d := range pbF.AST.Decls {
		gd, ok := d.(*ast.GenDecl)
		if !ok {
			continue
		}
		for _, sp := range gd.Specs {
			tsp, ok := sp.(*ast.TypeSpec)
			if !ok || tsp.Name.Name != "Transaction" {
				continue
			}
			if st, ok := tsp.Type.(*ast.StructType); ok {
				for _, f := range st.Fields.List {
					for _, n := range f.Names {
						if ast.IsExported(n.Name) {
							txFields = append(txFields, n.Name)
						}
					}
				}
			}
		}
	}
	if len(txFields) == 0 {
		return "", fmt.Errorf("lib/tx.pb.go: struct Transaction not found")
	}
	emitList("transactionFields", "exported fields of the generated struct lib.Transaction", txFields)
	sg := libTxF.FindFunc("Transaction", "Sign")
	if sg == nil {
		return "", fmt.Errorf("Transaction.Sign not found")
	}
	emitStr("signBody", "normalised body of Transaction.Sign", g.StmtsText(sg.Body.List))

	// ---- BLS multi-key verification ---------------------------------------------------------------
	mv := blsF.FindFunc("BLS12381MultiPublicKey", "VerifyBytes")
	if mv == nil {
		return "", fmt.Errorf("BLS12381MultiPublicKey.VerifyBytes not found")
	}
	emitStr("multiVerify", "normalised body of BLS12381MultiPublicKey.VerifyBytes", g.StmtsText(mv.Body.List))
	ma := blsF.FindFunc("BLS12381MultiPublicKey", "Address")
	if ma == nil {
		return "", fmt.Errorf("BLS12381MultiPublicKey.Address not found")
	}
	emitStr("multiAddress", "normalised body of BLS12381MultiPublicKey.Address", g.StmtsText(ma.Body.List))
	// the decode-time guards of a serialized multi key
	md := blsF.FindFunc("", "NewMultiBLSFromPublicKey")
	if md == nil {
		return "", fmt.Errorf("NewMultiBLSFromPublicKey not found")
	}
	var guards []string
	ast.Inspect(md.Body, func(nd ast.Node) bool {
		if s, ok := nd.(*ast.IfStmt); ok {
			c := g.ExprText(s.Cond)
			if strings.Contains(c, "mpk.") || strings.Contains(c, "exists") {
				guards = append(guards, c)
			}
		}
		return true
	})
	emitList("multiDecodeGuards", "NewMultiBLSFromPublicKey: rejection conditions on the decoded key", guards)

	// ---- RLP: the wrapper must re-derive to the identical transaction ------------------------------
	vr := ethF.FindFunc("StateMachine", "VerifyRLPBytes")
	if vr == nil {
		return "", fmt.Errorf("VerifyRLPBytes not found")
	}
	emitStr("verifyRLP", "normalised body of VerifyRLPBytes", g.StmtsText(vr.Body.List))

	// ---- batch verifier: every tuple of a lane is verified ------------------------------------------
	// ApplyTransactions trusts the result of BatchVerifier.Verify (its second pass uses a no-op
	// verifier), so verifyAll must reach the verification of every key type of its lane.
	kbF, err := g.ParseFile(filepath.Join(*repo, "lib/crypto/key_batch.go"))
	if err != nil {
		return "", err
	}
	va := kbF.FindFunc("BatchVerifier", "verifyAll")
	if va == nil {
		return "", fmt.Errorf("BatchVerifier.verifyAll not found")
	}
	var shape []string
	var closure string
	for _, st := range va.Body.List {
		switch v := st.(type) {
		case *ast.AssignStmt:
			if len(v.Rhs) == 1 {
				if fl, ok := v.Rhs[0].(*ast.FuncLit); ok {
					shape = append(shape, g.ExprText(v.Lhs[0])+" := func")
					closure = g.StmtsText(fl.Body.List)
					continue
				}
			}
			shape = append(shape, g.StmtText(st))
		case *ast.IfStmt:
			shape = append(shape, "if "+g.ExprText(v.Cond)+" {…}")
		default:
			shape = append(shape, g.StmtText(st))
		}
	}
	// return statements of verifyAll itself (not of the closure) other than its last statement
	early := 0
	var walk func(n ast.Node, top bool)
	walk = func(n ast.Node, top bool) {
		ast.Inspect(n, func(nd ast.Node) bool {
			switch nd.(type) {
			case *ast.FuncLit:
				return false
			case *ast.ReturnStmt:
				early++
			}
			return true
		})
	}
	for i, st := range va.Body.List {
		if _, isRet := st.(*ast.ReturnStmt); isRet && i == len(va.Body.List)-1 {
			continue
		}
		walk(st, true)
	}
	// the ed25519 lane: tuples are written into the signature cache only on the branch where the batch
	// equation held (the fallback closure caches what it verified one by one)
	ed25519Lane, batchDecision := "", ""
	cacheOnlyAfterSuccess := false
	for _, st := range va.Body.List {
		is, ok := st.(*ast.IfStmt)
		if !ok || !strings.Contains(g.ExprText(is.Cond), "b.ed25519[idx]") {
			continue
		}
		ed25519Lane = g.StmtText(is)
		total, inElse := 0, 0
		ast.Inspect(is, func(nd ast.Node) bool {
			if c, ok := nd.(*ast.CallExpr); ok && g.ExprText(c.Fun) == "SignatureCache.Set" {
				total++
			}
			if d, ok := nd.(*ast.IfStmt); ok && strings.Contains(g.ExprText(d.Cond), "VerifyBatchOnly") && strings.HasPrefix(g.ExprText(d.Cond), "!") {
				batchDecision = g.StmtText(d)
				if d.Else != nil {
					ast.Inspect(d.Else, func(x ast.Node) bool {
						if c, ok := x.(*ast.CallExpr); ok && g.ExprText(c.Fun) == "SignatureCache.Set" {
							inElse++
						}
						return true
					})
				}
			}
			return true
		})
		cacheOnlyAfterSuccess = batchDecision != "" && total == inElse && total > 0
	}
	emitStr("ed25519LaneSource", "BatchVerifier.verifyAll: the ed25519 block (normalised)", ed25519Lane)
	emitStr("ed25519BatchDecision", "BatchVerifier.verifyAll: the statement deciding on the batch equation", batchDecision)
	fmt.Fprintf(&b, "/-- every SignatureCache.Set of the ed25519 block sits in the else-branch of `if !verifier.VerifyBatchOnly(…)` -/\ndef ed25519CacheOnlyAfterSuccess : Bool := %v\n\n", cacheOnlyAfterSuccess)
	emitList("verifyAllShape", "BatchVerifier.verifyAll: top-level statements (closure and if-bodies elided)", shape)
	emitStr("verifyAllClosure", "BatchVerifier.verifyAll: body of the one-by-one closure verifyBatch", closure)
	fmt.Fprintf(&b, "/-- return statements of verifyAll (outside the closure) other than its final one -/\ndef verifyAllEarlyReturns : Nat := %d\n\n", early)
	// the signature-cache key: the three byte strings in full
	kf := kbF.FindFunc("BatchTuple", "Key")
	if kf == nil {
		return "", fmt.Errorf("BatchTuple.Key not found")
	}
	emitStr("cacheKeySource", "normalised body of BatchTuple.Key()", g.StmtsText(kf.Body.List))
	cc := kbF.FindFunc("", "CheckCache")
	if cc == nil {
		return "", fmt.Errorf("CheckCache not found")
	}
	emitStr("checkCacheSource", "normalised body of CheckCache()", g.StmtsText(cc.Body.List))
	ad := kbF.FindFunc("BatchVerifier", "Add")
	if ad == nil {
		return "", fmt.Errorf("BatchVerifier.Add not found")
	}
	var lanes [][2]string
	ast.Inspect(ad.Body, func(nd ast.Node) bool {
		if ts, ok := nd.(*ast.TypeSwitchStmt); ok {
			for _, st := range ts.Body.List {
				cc := st.(*ast.CaseClause)
				var ts2 []string
				for _, e := range cc.List {
					ts2 = append(ts2, g.ExprText(e))
				}
				k := strings.Join(ts2, ", ")
				if cc.List == nil {
					k = "default"
				}
				lanes = append(lanes, [2]string{k, g.StmtsText(cc.Body)})
			}
		}
		return true
	})
	emitPairs("batchAddLanes", "BatchVerifier.Add: (key types, what is done with the tuple)", lanes)
	// ApplyTransactions: the execution pass does not verify again
	stF, err := g.ParseFile(filepath.Join(*repo, "fsm/state.go"))
	if err != nil {
		return "", err
	}
	atx := stF.FindFunc("StateMachine", "ApplyTransactions")
	if atx == nil {
		return "", fmt.Errorf("ApplyTransactions not found")
	}
	var batchUses []string
	ast.Inspect(atx.Body, func(nd ast.Node) bool {
		if c, ok := nd.(*ast.CallExpr); ok {
			t := g.ExprText(c)
			if strings.Contains(t, "BatchVerifier") || strings.Contains(t, "batchVerifier") {
				if !strings.HasPrefix(t, "batchVerifier.Count") {
					batchUses = append(batchUses, t)
				}
			}
		}
		return true
	})
	emitList("applyTransactionsBatchUses", "ApplyTransactions: every call that involves a batch verifier, source order", batchUses)
	// first pass: the bookkeeping that maps batch indices back to transactions runs for EVERY transaction,
	// whatever CheckTx answered (CheckSignature queues the signature before it can still fail, e.g. as
	// unauthorized): no continue / break / return between the CheckTx call and the bookkeeping loop
	var firstPass []string
	unconditional := false
	for _, st := range atx.Body.List {
		rs, ok := st.(*ast.RangeStmt)
		if !ok || !strings.Contains(g.StmtText(rs), "s.CheckTx(") || !strings.Contains(g.StmtText(rs), "batchToTxIdx = append") {
			continue
		}
		checkAt, bookAt := -1, -1
		for i, bs := range rs.Body.List {
			t := g.StmtText(bs)
			if strings.Contains(t, "s.Metrics") || strings.Contains(t, "time.") {
				continue
			}
			firstPass = append(firstPass, t)
			if strings.Contains(t, "s.CheckTx(") && checkAt < 0 {
				checkAt = i
			}
			if _, isFor := bs.(*ast.ForStmt); isFor && strings.Contains(t, "batchToTxIdx = append") {
				bookAt = i
			}
		}
		if checkAt >= 0 && bookAt > checkAt {
			jumps := 0
			for _, bs := range rs.Body.List[checkAt : bookAt+1] {
				ast.Inspect(bs, func(nd ast.Node) bool {
					switch nd.(type) {
					case *ast.BranchStmt, *ast.ReturnStmt:
						jumps++
					case *ast.FuncLit:
						return false
					}
					return true
				})
			}
			unconditional = jumps == 0
		}
		break
	}
	emitList("applyTransactionsFirstPass", "ApplyTransactions: body of the first (check) pass, metrics dropped", firstPass)
	fmt.Fprintf(&b, "/-- no continue/break/return between the CheckTx call and the batchToTxIdx bookkeeping loop -/\ndef firstPassBookkeepingUnconditional : Bool := %v\n\n", unconditional)

	b.WriteString("end Canopy.Gen.Auth\n")
	return b.String(), nil
}
