package main

import (
	"fmt"
	"go/ast"
	"go/token"
	"path/filepath"
	"strconv"
	"strings"

	g "verifharness/gotolean"
)

func init() { register("Transport", genTransport) }

// externalConsts: constants of third-party modules referenced by the const blocks we evaluate.
// They are cross-checked by the correspondence run (the Go driver prints the compiled values of the
// exported constants and the observable packet/frame boundaries).
var externalConsts = map[string]int64{
	"chacha20poly1305.KeySize":   32,
	"chacha20poly1305.NonceSize": 12,
	"units.MB":                   1000000, // alecthomas/units: MB = Megabyte (MetricBytes, 10^6)
}

// evalConsts evaluates every integer constant of the file's const blocks (idents, literals,
// + - * /, parentheses, integer conversions, the external table). Unknown constructs are skipped.
func evalConsts(f *g.File) map[string]int64 {
	env := map[string]int64{}
	var eval func(e ast.Expr) (int64, bool)
	eval = func(e ast.Expr) (int64, bool) {
		switch v := e.(type) {
		case *ast.BasicLit:
			if v.Kind != token.INT {
				return 0, false
			}
			n, err := strconv.ParseInt(v.Value, 0, 64)
			return n, err == nil
		case *ast.Ident:
			n, ok := env[v.Name]
			return n, ok
		case *ast.SelectorExpr:
			n, ok := externalConsts[g.ExprText(v)]
			return n, ok
		case *ast.ParenExpr:
			return eval(v.X)
		case *ast.CallExpr:
			switch g.ExprText(v.Fun) {
			case "uint32", "uint64", "int", "int64", "uint":
				if len(v.Args) == 1 {
					return eval(v.Args[0])
				}
			}
			return 0, false
		case *ast.BinaryExpr:
			a, ok1 := eval(v.X)
			b, ok2 := eval(v.Y)
			if !ok1 || !ok2 {
				return 0, false
			}
			switch v.Op {
			case token.ADD:
				return a + b, true
			case token.SUB:
				return a - b, true
			case token.MUL:
				return a * b, true
			case token.QUO:
				if b == 0 {
					return 0, false
				}
				return a / b, true
			}
		}
		return 0, false
	}
	// const blocks may refer forward: iterate to a fixed point
	for pass := 0; pass < 8; pass++ {
		for _, d := range f.AST.Decls {
			gd, ok := d.(*ast.GenDecl)
			if !ok || gd.Tok != token.CONST {
				continue
			}
			for _, s := range gd.Specs {
				vs := s.(*ast.ValueSpec)
				for i, n := range vs.Names {
					if i < len(vs.Values) {
						if v, ok := eval(vs.Values[i]); ok {
							env[n.Name] = v
						}
					}
				}
			}
		}
	}
	return env
}

func needConst(env map[string]int64, file, name string) (int64, error) {
	v, ok := env[name]
	if !ok {
		return 0, fmt.Errorf("%s: constant %s not found or not evaluable", file, name)
	}
	return v, nil
}

func lowerFirst(s string) string { return strings.ToLower(s[:1]) + s[1:] }

// genTransport: frame-size constants of lib/crypto/aead.go, the nonce increment of p2p/encrypt.go
// rendered as a Lean function, and the normalised source of the functions the hand model follows
// (Write's chunking loop, Read, checkUnread, holdUnread, the key assignment, NewHandshake).
func genTransport() (string, error) {
	var b strings.Builder
	b.WriteString("import Canopy.Model.Bytes\nnamespace Canopy.Gen.Transport\nopen Canopy\n\n")
	af, err := g.ParseFile(filepath.Join(*repo, "lib/crypto/aead.go"))
	if err != nil {
		return "", err
	}
	env := evalConsts(af)
	for _, n := range []string{"LengthHeaderSize", "MaxDataSize", "ChallengeSize", "Poly1305TagSize", "FrameSize", "EncryptedFrameSize", "AEADKeySize", "AEADNonceSize", "HKDFSize"} {
		v, err := needConst(env, "lib/crypto/aead.go", n)
		if err != nil {
			return "", err
		}
		fmt.Fprintf(&b, "def %s : Nat := %d\n", lowerFirst(n), v)
	}
	// key assignment in HKDFSecretsAndChallenge: the condition of the if that orders the two secrets
	hk := af.FindFunc("", "HKDFSecretsAndChallenge")
	if hk == nil {
		return "", fmt.Errorf("lib/crypto/aead.go: HKDFSecretsAndChallenge not found")
	}
	var assign string
	ast.Inspect(hk.Body, func(n ast.Node) bool {
		if is, ok := n.(*ast.IfStmt); ok && strings.Contains(g.ExprText(is.Cond), "bytes.Compare") {
			assign = g.StmtText(is)
		}
		return true
	})
	if assign == "" {
		return "", fmt.Errorf("HKDFSecretsAndChallenge: key-assignment comparison not found")
	}
	fmt.Fprintf(&b, "def src_keyAssign : String := %q\n", assign)
	// the HKDF input: only the DH secret (no salt, no info) — the challenge is a function of the secret alone
	var hkdfCall string
	ast.Inspect(hk.Body, func(n ast.Node) bool {
		if c, ok := n.(*ast.CallExpr); ok && g.ExprText(c.Fun) == "hkdf.New" {
			hkdfCall = g.ExprText(c)
		}
		return true
	})
	fmt.Fprintf(&b, "def src_hkdfCall : String := %q\n", hkdfCall)

	ef, err := g.ParseFile(filepath.Join(*repo, "p2p/encrypt.go"))
	if err != nil {
		return "", err
	}
	// incrementNonce, rendered over the 64-bit counter stored little-endian at nonce[4:]
	inc := ef.FindFunc("", "incrementNonce")
	if inc == nil {
		return "", fmt.Errorf("p2p/encrypt.go: incrementNonce not found")
	}
	lean, err := renderIncrementNonce(inc)
	if err != nil {
		return "", err
	}
	b.WriteString(lean)
	fmt.Fprintf(&b, "def src_incrementNonce : String := %q\n", g.StmtsText(inc.Body.List))
	for _, fn := range []struct{ recv, name string }{{"EncryptedConn", "Write"}, {"EncryptedConn", "Read"}, {"EncryptedConn", "checkUnread"}, {"EncryptedConn", "holdUnread"}, {"", "NewHandshake"}, {"", "newInternalState"}} {
		fd := ef.FindFunc(fn.recv, fn.name)
		if fd == nil {
			return "", fmt.Errorf("p2p/encrypt.go: %s not found", fn.name)
		}
		fmt.Fprintf(&b, "def src_%s : String := %q\n", fn.name, g.StmtsText(fd.Body.List))
	}
	// does NewHandshake refuse a peer that presents OUR OWN identity key? (reflection guard)
	// Recognised shape: a top-level `if` after the signatureSwap statement and before the statement
	// that sets encryptedConn.Address, whose condition is a bytes.Equal of peerSig.PublicKey with
	// privateKey.PublicKey().Bytes() (either order) and whose body returns a non-nil error.
	nh := ef.FindFunc("", "NewHandshake")
	own, ownSrc, seenSwap, pastChecks := false, "", false, false
	var core []string
	for _, s := range nh.Body.List {
		txt := g.StmtText(s)
		core = append(core, txt)
		if strings.Contains(txt, "signatureSwap(") {
			seenSwap = true
			continue
		}
		if strings.HasPrefix(txt, "encryptedConn.Address =") {
			pastChecks = true
		}
		is, ok := s.(*ast.IfStmt)
		if !ok || !seenSwap || pastChecks || is.Else != nil {
			continue
		}
		cond := strings.ReplaceAll(g.ExprText(is.Cond), " ", "")
		if cond != "bytes.Equal(peerSig.PublicKey,privateKey.PublicKey().Bytes())" && cond != "bytes.Equal(privateKey.PublicKey().Bytes(),peerSig.PublicKey)" {
			continue
		}
		if len(is.Body.List) == 0 {
			continue
		}
		ret, ok := is.Body.List[len(is.Body.List)-1].(*ast.ReturnStmt)
		if !ok || len(ret.Results) != 2 || g.ExprText(ret.Results[0]) != "nil" || g.ExprText(ret.Results[1]) == "nil" {
			continue
		}
		own, ownSrc = true, txt
		core = core[:len(core)-1]
	}
	// NewHandshake without the reflection guard: the statement sequence `Party.finish` follows
	fmt.Fprintf(&b, "def src_NewHandshake_core : String := %q\n", strings.Join(core, "; "))
	// does the session continue on the SAME EncryptedConn (and therefore with the nonce counters) that
	// carried the encrypted part of the handshake? Recognised shape: exactly one `encryptedConn = &EncryptedConn{…}`,
	// exactly two newInternalState(…) calls (receive, send), no other composite literal of EncryptedConn,
	// and the function ends with a bare `return` of the named result.
	nConn, nState := 0, 0
	ast.Inspect(nh.Body, func(n ast.Node) bool {
		switch v := n.(type) {
		case *ast.CompositeLit:
			if g.ExprText(v.Type) == "EncryptedConn" {
				nConn++
			}
		case *ast.CallExpr:
			if g.ExprText(v.Fun) == "newInternalState" {
				nState++
			}
		}
		return true
	})
	bare := false
	if r, ok := nh.Body.List[len(nh.Body.List)-1].(*ast.ReturnStmt); ok && len(r.Results) == 0 {
		bare = true
	}
	named := nh.Type.Results != nil && len(nh.Type.Results.List) > 0 && len(nh.Type.Results.List[0].Names) == 1 && nh.Type.Results.List[0].Names[0].Name == "encryptedConn"
	keeps := nConn == 1 && nState == 2 && bare && named
	fmt.Fprintf(&b, "/-- the session runs on the same EncryptedConn object — same AEAD states, nonce counters NOT restarted — as the encrypted part of the handshake -/\ndef sessionKeepsHandshakeState : Bool := %v\n/-- encrypted handshake messages per direction before the session starts (signature swap, meta swap) -/\ndef handshakeFrames : Nat := %d\n", keeps, strings.Count(g.StmtsText(nh.Body.List), "Swap(encryptedConn,")-1)
	fmt.Fprintf(&b, "/-- NewHandshake refuses a peer signature whose public key equals our own (reflection guard) -/\ndef rejectsOwnKey : Bool := %v\ndef src_ownKeyCheck : String := %q\n", own, ownSrc)
	// the signature cache every VerifyBytes (hence the handshake's challenge check) consults: its key and lookup
	kb, err := g.ParseFile(filepath.Join(*repo, "lib/crypto/key_batch.go"))
	if err != nil {
		return "", err
	}
	kf, cc := kb.FindFunc("BatchTuple", "Key"), kb.FindFunc("", "CheckCache")
	if kf == nil || cc == nil {
		return "", fmt.Errorf("lib/crypto/key_batch.go: BatchTuple.Key / CheckCache not found")
	}
	fmt.Fprintf(&b, "def src_sigCacheKey : String := %q\ndef src_checkCache : String := %q\n", g.StmtsText(kf.Body.List), g.StmtsText(cc.Body.List))
	b.WriteString("end Canopy.Gen.Transport\n")
	return b.String(), nil
}

// renderIncrementNonce accepts exactly the shape
//
//	counter := binary.LittleEndian.Uint64(nonce[OFF:]); [if counter == math.MaxUint64 { counter = K }]; counter++ | counter += K; binary.LittleEndian.PutUint64(nonce[OFF:], counter)
//
// and renders the statements between load and store as a Lean function on UInt64.
func renderIncrementNonce(fd *ast.FuncDecl) (string, error) {
	st := fd.Body.List
	if len(st) < 3 {
		return "", fmt.Errorf("incrementNonce: unexpected shape")
	}
	first, last := g.StmtText(st[0]), g.StmtText(st[len(st)-1])
	var off int
	if _, err := fmt.Sscanf(first, "counter := binary.LittleEndian.Uint64(nonce[%d:])", &off); err != nil {
		return "", fmt.Errorf("incrementNonce: load statement outside the subset: %s", first)
	}
	if last != fmt.Sprintf("binary.LittleEndian.PutUint64(nonce[%d:], counter)", off) {
		return "", fmt.Errorf("incrementNonce: store statement outside the subset: %s", last)
	}
	var body strings.Builder
	lit := func(e ast.Expr) (string, bool) {
		switch g.ExprText(e) {
		case "math.MaxUint64":
			return "18446744073709551615", true
		case "math.MaxInt64":
			return "9223372036854775807", true
		case "math.MaxUint32":
			return "4294967295", true
		case "math.MaxInt32":
			return "2147483647", true
		case "math.MaxUint16":
			return "65535", true
		}
		if bl, ok := e.(*ast.BasicLit); ok && bl.Kind == token.INT {
			return bl.Value, true
		}
		return "", false
	}
	for _, s := range st[1 : len(st)-1] {
		switch v := s.(type) {
		case *ast.IncDecStmt:
			if g.ExprText(v.X) != "counter" {
				return "", fmt.Errorf("incrementNonce: %s", g.StmtText(s))
			}
			if v.Tok == token.INC {
				body.WriteString("  let counter := counter + 1\n")
			} else {
				body.WriteString("  let counter := counter - 1\n")
			}
		case *ast.IfStmt:
			be, ok := v.Cond.(*ast.BinaryExpr)
			if !ok || v.Init != nil || v.Else != nil || len(v.Body.List) != 1 || g.ExprText(be.X) != "counter" || be.Op != token.EQL {
				return "", fmt.Errorf("incrementNonce: if outside the subset: %s", g.StmtText(s))
			}
			rhs, ok := lit(be.Y)
			as, ok2 := v.Body.List[0].(*ast.AssignStmt)
			if !ok || !ok2 || as.Tok != token.ASSIGN || len(as.Lhs) != 1 || g.ExprText(as.Lhs[0]) != "counter" {
				return "", fmt.Errorf("incrementNonce: if outside the subset: %s", g.StmtText(s))
			}
			val, ok := lit(as.Rhs[0])
			if !ok {
				return "", fmt.Errorf("incrementNonce: if outside the subset: %s", g.StmtText(s))
			}
			fmt.Fprintf(&body, "  let counter := if counter == %s then %s else counter\n", rhs, val)
		default:
			return "", fmt.Errorf("incrementNonce: statement outside the subset: %s", g.StmtText(s))
		}
	}
	return fmt.Sprintf("/-- `p2p.incrementNonce` on the little-endian 64-bit counter held at nonce[%d:] (translated) -/\ndef nonceCounterOffset : Nat := %d\ndef incrementNonce (counter : UInt64) : UInt64 :=\n%s  counter\n", off, off, body.String()), nil
}
