package main

import (
	"fmt"
	"go/ast"
	"go/token"
	"path/filepath"
	"strings"

	g "verifharness/gotolean"
)

func init() { register("Evidence", genEvidence) }

// genEvidence ties the C14 model (lean/Canopy/Model/Evidence.lean) to the source:
//
//   - translated (gotolean): lib.(*View).Equals over the model's own View record; the slash-tracker
//     conditions and the stake arithmetic of fsm.SlashValidator; the arithmetic of
//     fsm.LoadMinimumEvidenceHeight; the phase constants the evidence checks compare with.
//   - normalised source (comments and logging dropped) of the functions the hand model transcribes
//     statement by statement: DoubleSignEvidence.CheckBasic / Check, BFT.ProcessDSE, BFT.AddDSE,
//     BFT.ValidateByzantineEvidence, AggregateSignature.GetDoubleSigners, StateMachine.HandleDoubleSigners,
//     SlashValidators, the tracker accessors, the double-signer index accessors — pinned by `rfl`
//     theorems in Props/C14.lean, so a change of order or of a condition breaks an obligation;
//   - the wiring of the expiry bound: which height ProcessDSE hands to LoadMinimumEvidenceHeight and
//     at which state the RPC endpoint evaluates it.
func genEvidence() (string, error) {
	var b strings.Builder
	b.WriteString("import Canopy.Model.Gate\nnamespace Canopy.Gen.Evidence\nopen Canopy Canopy.Gate\n\n")

	cons, err := g.ParseFile(filepath.Join(*repo, "lib/consensus.go"))
	if err != nil {
		return "", err
	}
	// ---- View.Equals over Gate.View (lower-case field names of the hand model)
	idents := map[string]string{}
	for _, v := range []string{"x", "v"} {
		for goF, leanF := range map[string]string{"Height": "height", "RootHeight": "rootHeight", "ChainId": "chainId", "NetworkId": "networkId", "Round": "round", "Phase": "phase"} {
			idents[v+"."+goF] = v + "." + leanF
		}
	}
	eq := cons.FindFunc("View", "Equals")
	if eq == nil {
		return "", fmt.Errorf("lib/consensus.go: View.Equals not found")
	}
	tr := &g.Translator{Cfg: g.Config{
		Types:        map[string]string{"*View": "(Option View)", "bool": "Bool"},
		Idents:       idents,
		Calls:        map[string]func([]string) (string, error){},
		RecvType:     "(Option View)",
		OptionParams: map[string]bool{"x": true, "v": true},
	}}
	txt, err := tr.Func(eq, "viewEquals")
	if err != nil {
		return "", err
	}
	b.WriteString("/-- lib/consensus.go (*View).Equals; nil pointer = none -/\n" + txt + "\n")

	// ---- phase constants
	pb, err := g.ParseFile(filepath.Join(*repo, "lib/consensus.pb.go"))
	if err != nil {
		return "", err
	}
	phases := map[string]string{}
	for _, d := range pb.AST.Decls {
		gd, ok := d.(*ast.GenDecl)
		if !ok || gd.Tok != token.CONST {
			continue
		}
		for _, s := range gd.Specs {
			vs := s.(*ast.ValueSpec)
			if len(vs.Names) == 1 && len(vs.Values) == 1 && strings.HasPrefix(vs.Names[0].Name, "Phase_") && evTypeText(vs.Type) == "Phase" {
				if bl, ok := vs.Values[0].(*ast.BasicLit); ok {
					phases[vs.Names[0].Name] = bl.Value
				}
			}
		}
	}
	bftGo, err := g.ParseFile(filepath.Join(*repo, "bft/bft.go"))
	if err != nil {
		return "", err
	}
	proposeSrc := ""
	for _, d := range bftGo.AST.Decls {
		gd, ok := d.(*ast.GenDecl)
		if !ok || gd.Tok != token.CONST {
			continue
		}
		for _, s := range gd.Specs {
			vs := s.(*ast.ValueSpec)
			if len(vs.Names) == 1 && len(vs.Values) == 1 && vs.Names[0].Name == "Propose" {
				proposeSrc = g.ExprText(vs.Values[0])
			}
		}
	}
	pv, ok := phases[strings.TrimPrefix(proposeSrc, "lib.")]
	if !ok {
		return "", fmt.Errorf("bft/bft.go: constant Propose (= %q) not resolvable to a lib.Phase value", proposeSrc)
	}
	ev, ok := phases["Phase_ELECTION_VOTE"]
	if !ok {
		return "", fmt.Errorf("lib/consensus.pb.go: Phase_ELECTION_VOTE not found")
	}
	fmt.Fprintf(&b, "/-- bft.Propose = %s -/\ndef phasePropose : Nat := %s\n/-- lib.Phase_ELECTION_VOTE (the phase whose sign bytes are the minified certificate) -/\ndef phaseElectionVote : Nat := %s\n\n", proposeSrc, pv, ev)

	// ---- fsm.SlashValidator: tracker conditions and stake arithmetic
	byz, err := g.ParseFile(filepath.Join(*repo, "fsm/byzantine.go"))
	if err != nil {
		return "", err
	}
	sv := byz.FindFunc("StateMachine", "SlashValidator")
	if sv == nil {
		return "", fmt.Errorf("fsm/byzantine.go: SlashValidator not found")
	}
	var scoped *ast.IfStmt
	var sw *ast.SwitchStmt
	for _, s := range sv.Body.List {
		switch v := s.(type) {
		case *ast.IfStmt:
			// `if committeeScoped := s.IsFeatureEnabled(2); committeeScoped {` or the flag hoisted before the `if`
			if (v.Init != nil && strings.Contains(g.StmtText(v.Init), "IsFeatureEnabled")) ||
				(scoped == nil && strings.Contains(g.StmtsText(v.Body.List), "GetTotalSlashPercent")) {
				scoped = v
			}
		case *ast.SwitchStmt:
			if v.Tag == nil && sw == nil {
				sw = v
			}
		}
	}
	if scoped == nil || sw == nil {
		return "", fmt.Errorf("SlashValidator: `if committeeScoped := s.IsFeatureEnabled(..); committeeScoped {` block or the stake switch not found")
	}
	str := &g.Translator{Cfg: g.Config{
		Idents: map[string]string{"p.MaxSlashPerCommittee": "maxSlash", "validator.StakedAmount": "stake"},
		Calls:  map[string]func([]string) (string, error){"lib.SafeMulDiv": g.App("safeMulDiv")},
	}}
	var capIfs []*ast.IfStmt
	var scopedSteps []string
	for _, s := range scoped.Body.List {
		t := g.StmtText(s)
		if strings.HasPrefix(t, "s.log.") {
			continue
		}
		if is, ok := s.(*ast.IfStmt); ok && strings.Contains(g.ExprText(is.Cond), "MaxSlashPerCommittee") {
			capIfs = append(capIfs, is)
		}
		scopedSteps = append(scopedSteps, evNormStmt(s, "", evDropLog)...)
	}
	if len(capIfs) != 2 {
		return "", fmt.Errorf("SlashValidator: expected two conditions on MaxSlashPerCommittee, found %d", len(capIfs))
	}
	if got := g.StmtsText(capIfs[0].Body.List); got != "return nil" {
		return "", fmt.Errorf("SlashValidator: first cap condition must `return nil`, has %q", got)
	}
	blocked, err := str.Expr(capIfs[0].Cond)
	if err != nil {
		return "", err
	}
	capped, err := str.Expr(capIfs[1].Cond)
	if err != nil {
		return "", err
	}
	as, ok := capIfs[1].Body.List[0].(*ast.AssignStmt)
	if !ok || len(as.Lhs) != 1 || g.ExprText(as.Lhs[0]) != "percent" || as.Tok != token.ASSIGN {
		return "", fmt.Errorf("SlashValidator: second cap condition must start with `percent = …`")
	}
	cp, err := str.Expr(as.Rhs[0])
	if err != nil {
		return "", err
	}
	b.WriteString("/-- lib.SafeMulDiv (math/big product and quotient, truncated by big.Int.Uint64) -/\n")
	b.WriteString("def safeMulDiv (a b c : UInt64) : UInt64 := if c == 0 then 0 else UInt64.ofNat (a.toNat * b.toNat / c.toNat)\n")
	fmt.Fprintf(&b, "def src_safeMulDiv : String := %q\n\n", evFuncText(filepath.Join(*repo, "lib/util.go"), "", "SafeMulDiv"))
	fmt.Fprintf(&b, "/-- fsm.SlashValidator (protocol v2): `if %s { return nil }` -/\ndef slashBlocked (slashTotal maxSlash : UInt64) : Bool := %s\n", g.ExprText(capIfs[0].Cond), blocked)
	fmt.Fprintf(&b, "/-- fsm.SlashValidator (protocol v2): `if %s { percent = …; eject from the committee }` (uint64 addition) -/\ndef slashCapped (slashTotal percent maxSlash : UInt64) : Bool := %s\n", g.ExprText(capIfs[1].Cond), capped)
	fmt.Fprintf(&b, "/-- the reduced percentage: `%s` -/\ndef cappedPercent (slashTotal maxSlash : UInt64) : UInt64 := %s\n\n", g.StmtText(as), cp)
	// the switch: case c1: stakeAfterSlash = e1 … default: stakeAfterSlash = en
	var arms []string
	var def string
	for _, c := range sw.Body.List {
		cc := c.(*ast.CaseClause)
		if len(cc.Body) != 1 {
			return "", fmt.Errorf("SlashValidator: stake switch arm with %d statements", len(cc.Body))
		}
		a, ok := cc.Body[0].(*ast.AssignStmt)
		if !ok || len(a.Lhs) != 1 || g.ExprText(a.Lhs[0]) != "stakeAfterSlash" {
			return "", fmt.Errorf("SlashValidator: stake switch arm is not `stakeAfterSlash = …`")
		}
		rhs, err := str.Expr(a.Rhs[0])
		if err != nil {
			return "", err
		}
		if cc.List == nil {
			def = rhs
			continue
		}
		if len(cc.List) != 1 {
			return "", fmt.Errorf("SlashValidator: stake switch case with %d expressions", len(cc.List))
		}
		cond, err := str.Expr(cc.List[0])
		if err != nil {
			return "", err
		}
		arms = append(arms, fmt.Sprintf("  if %s then %s else", cond, rhs))
	}
	if def == "" {
		return "", fmt.Errorf("SlashValidator: stake switch has no default arm")
	}
	fmt.Fprintf(&b, "/-- fsm.SlashValidator: `%s` -/\ndef stakeAfterSlash (stake percent : UInt64) : UInt64 :=\n%s\n  %s\n\n", g.StmtText(sw), strings.Join(arms, "\n"), def)
	scopedHead := "if " + g.ExprText(scoped.Cond) + " {"
	if scoped.Init != nil {
		scopedHead = "if " + g.StmtText(scoped.Init) + "; " + g.ExprText(scoped.Cond) + " {"
	}
	evWriteList(&b, "slashValidatorScoped", "the protocol-v2 block of fsm.SlashValidator, normalised", append([]string{scopedHead}, append(evIndent(scopedSteps), "}")...))
	// the whole function, one statement per line, and where in it the tracker is written relative to the first
	// state change and to the returns (every early return after a stake change must find the tracker updated)
	svLines := evNormBody(sv, evDropLog)
	evWriteList(&b, "slashValidator", "fsm.SlashValidator, normalised", svLines)
	addLine, mutLine := -1, -1
	var retLines []string
	for i, l := range svLines {
		t := strings.TrimSpace(l)
		if strings.HasPrefix(t, "s.slashTracker.AddSlash(") && addLine < 0 {
			addLine = i
		}
		if strings.Contains(t, "s.SubFromTotalSupply(") && mutLine < 0 {
			mutLine = i
		}
		if t == "return" || strings.HasPrefix(t, "return ") {
			retLines = append(retLines, fmt.Sprint(i))
		}
	}
	if addLine < 0 || mutLine < 0 {
		return "", fmt.Errorf("SlashValidator: s.slashTracker.AddSlash(..) or s.SubFromTotalSupply(..) not found")
	}
	fmt.Fprintf(&b, "/-- index in `slashValidator` of the (first) tracker update -/\ndef slashValidator_addSlashLine : Nat := %d\n", addLine)
	fmt.Fprintf(&b, "/-- index in `slashValidator` of the first state change (the burn from the total supply) -/\ndef slashValidator_firstChangeLine : Nat := %d\n", mutLine)
	fmt.Fprintf(&b, "/-- indices in `slashValidator` of all return statements -/\ndef slashValidator_returnLines : List Nat := [%s]\n\n", strings.Join(retLines, ", "))

	// ---- fsm.LoadMinimumEvidenceHeight arithmetic
	lm := byz.FindFunc("StateMachine", "LoadMinimumEvidenceHeight")
	if lm == nil {
		return "", fmt.Errorf("fsm/byzantine.go: LoadMinimumEvidenceHeight not found")
	}
	n := len(lm.Body.List)
	if n < 3 {
		return "", fmt.Errorf("LoadMinimumEvidenceHeight: unexpected shape")
	}
	ifs, ok1 := lm.Body.List[n-2].(*ast.IfStmt)
	ret, ok2 := lm.Body.List[n-1].(*ast.ReturnStmt)
	if !ok1 || !ok2 || len(ret.Results) != 2 || len(ifs.Body.List) != 1 {
		return "", fmt.Errorf("LoadMinimumEvidenceHeight: expected `if c { return a, nil }; return b, nil` at the end")
	}
	r0, ok := ifs.Body.List[0].(*ast.ReturnStmt)
	if !ok || len(r0.Results) != 2 || g.ExprText(r0.Results[1]) != "nil" || g.ExprText(ret.Results[1]) != "nil" {
		return "", fmt.Errorf("LoadMinimumEvidenceHeight: expected nil errors in the two final returns")
	}
	mtr := &g.Translator{Cfg: g.Config{Idents: map[string]string{}}}
	mc, err := mtr.Expr(ifs.Cond)
	if err != nil {
		return "", err
	}
	ma, err := mtr.Expr(r0.Results[0])
	if err != nil {
		return "", err
	}
	mb, err := mtr.Expr(ret.Results[0])
	if err != nil {
		return "", err
	}
	fmt.Fprintf(&b, "/-- fsm.LoadMinimumEvidenceHeight: `%s; %s` with height = the height of the state it is evaluated on -/\ndef minEvidenceHeight (height unstakingBlocks : UInt64) : UInt64 := if %s then %s else %s\n", g.StmtText(ifs), g.StmtText(ret), mc, ma, mb)
	evWriteList(&b, "loadMinimumEvidenceHeight", "fsm.LoadMinimumEvidenceHeight, normalised", evNormBody(lm, evDropLog))

	// ---- normalised sources
	evGo, err := g.ParseFile(filepath.Join(*repo, "bft/evidence.go"))
	if err != nil {
		return "", err
	}
	for _, it := range []struct{ recv, name, lean string }{
		{"DoubleSignEvidence", "CheckBasic", "dseCheckBasic"},
		{"DoubleSignEvidence", "Check", "dseCheck"},
		{"BFT", "ProcessDSE", "processDSE"},
		{"BFT", "AddDSE", "addDSE"},
		{"BFT", "ValidateByzantineEvidence", "validateByzantineEvidence"},
	} {
		fd := evGo.FindFunc(it.recv, it.name)
		if fd == nil {
			return "", fmt.Errorf("bft/evidence.go: %s.%s not found", it.recv, it.name)
		}
		evWriteList(&b, it.lean, "bft/evidence.go "+it.recv+"."+it.name+", normalised (comments and logging dropped)", evNormBody(fd, evDropLog))
	}
	gds := cons.FindFunc("AggregateSignature", "GetDoubleSigners")
	if gds == nil {
		return "", fmt.Errorf("lib/consensus.go: GetDoubleSigners not found")
	}
	evWriteList(&b, "getDoubleSigners", "lib/consensus.go AggregateSignature.GetDoubleSigners, normalised", evNormBody(gds, evDropLog))
	ah := cons.FindFunc("DoubleSigner", "AddHeight")
	if ah == nil {
		return "", fmt.Errorf("lib/consensus.go: DoubleSigner.AddHeight not found")
	}
	evWriteList(&b, "addHeight", "lib/consensus.go DoubleSigner.AddHeight, normalised", evNormBody(ah, evDropLog))
	cert, err := g.ParseFile(filepath.Join(*repo, "lib/certificate.go"))
	if err != nil {
		return "", err
	}
	sb := cert.FindFunc("QuorumCertificate", "SignBytes")
	if sb == nil {
		return "", fmt.Errorf("lib/certificate.go: SignBytes not found")
	}
	evWriteList(&b, "signBytes", "lib/certificate.go QuorumCertificate.SignBytes, normalised", evNormBody(sb, evDropLog))
	for _, it := range []struct{ name, lean string }{
		{"HandleDoubleSigners", "handleDoubleSigners"}, {"SlashValidators", "slashValidators"}, {"SlashDoubleSigners", "slashDoubleSigners"},
	} {
		fd := byz.FindFunc("StateMachine", it.name)
		if fd == nil {
			return "", fmt.Errorf("fsm/byzantine.go: %s not found", it.name)
		}
		evWriteList(&b, it.lean, "fsm/byzantine.go StateMachine."+it.name+", normalised", evNormBody(fd, evDropLog))
	}
	for _, it := range []struct{ name, lean string }{{"AddSlash", "trackerAddSlash"}, {"GetTotalSlashPercent", "trackerGetTotal"}} {
		fd := byz.FindFunc("SlashTracker", it.name)
		if fd == nil {
			return "", fmt.Errorf("fsm/byzantine.go: SlashTracker.%s not found", it.name)
		}
		evWriteList(&b, it.lean, "fsm/byzantine.go SlashTracker."+it.name+", normalised", evNormBody(fd, evDropLog))
	}
	ix, err := g.ParseFile(filepath.Join(*repo, "store/indexer.go"))
	if err != nil {
		return "", err
	}
	for _, it := range []struct{ name, lean string }{{"IsValidDoubleSigner", "indexerIsValidDoubleSigner"}, {"IndexDoubleSigner", "indexerIndexDoubleSigner"}, {"indexDoubleSignerByHeight", "indexerIndexByHeight"}} {
		fd := ix.FindFunc("Indexer", it.name)
		if fd == nil {
			return "", fmt.Errorf("store/indexer.go: Indexer.%s not found", it.name)
		}
		evWriteList(&b, it.lean, "store/indexer.go Indexer."+it.name+", normalised", evNormBody(fd, evDropLog))
	}
	// where the slash tracker is renewed (block boundary)
	st, err := g.ParseFile(filepath.Join(*repo, "fsm/state.go"))
	if err != nil {
		return "", err
	}
	rs := st.FindFunc("StateMachine", "Reset")
	if rs == nil {
		return "", fmt.Errorf("fsm/state.go: StateMachine.Reset not found")
	}
	evWriteList(&b, "fsmReset", "fsm/state.go StateMachine.Reset, normalised", evNormBody(rs, evDropLog))

	// ---- certificate results of a nested committee on the root chain: the stateless check of the message (which
	// must refuse ELECTION_VOTE certificates: their sign bytes do not cover the results), the handler, the guards
	mh, err := g.ParseFile(filepath.Join(*repo, "fsm/message_helpers.go"))
	if err != nil {
		return "", err
	}
	crc := mh.FindFunc("MessageCertificateResults", "Check")
	if crc == nil {
		return "", fmt.Errorf("fsm/message_helpers.go: MessageCertificateResults.Check not found")
	}
	evWriteList(&b, "certResultsCheck", "fsm/message_helpers.go MessageCertificateResults.Check, normalised", evNormBody(crc, evDropLog))
	dropTiming := func(src string) bool {
		// only simple statements: a compound statement that merely contains a timing line is kept (and opened)
		if strings.HasPrefix(src, "if ") || strings.HasPrefix(src, "for ") {
			return false
		}
		return evDropLog(src) || strings.Contains(src, "observeStage") || strings.Contains(src, "time.Now()")
	}
	msgGo, err := g.ParseFile(filepath.Join(*repo, "fsm/message.go"))
	if err != nil {
		return "", err
	}
	hm := msgGo.FindFunc("StateMachine", "HandleMessageCertificateResults")
	if hm == nil {
		return "", fmt.Errorf("fsm/message.go: HandleMessageCertificateResults not found")
	}
	evWriteList(&b, "handleMessageCertificateResults", "fsm/message.go StateMachine.HandleMessageCertificateResults, normalised (logging and stage timing dropped)", evNormBody(hm, dropTiming))
	autoGo, err := g.ParseFile(filepath.Join(*repo, "fsm/automatic.go"))
	if err != nil {
		return "", err
	}
	hcr := autoGo.FindFunc("StateMachine", "HandleCertificateResults")
	if hcr == nil {
		return "", fmt.Errorf("fsm/automatic.go: HandleCertificateResults not found")
	}
	evWriteList(&b, "handleCertificateResults", "fsm/automatic.go StateMachine.HandleCertificateResults, normalised (logging and stage timing dropped)", evNormBody(hcr, dropTiming))
	// the authorised signer of the transaction
	var authSrc string
	if ga := msgGo.FindFunc("StateMachine", "GetAuthorizedSignersFor"); ga != nil {
		ast.Inspect(ga.Body, func(nd ast.Node) bool {
			if cc, ok := nd.(*ast.CaseClause); ok && len(cc.List) == 1 && g.ExprText(cc.List[0]) == "*MessageCertificateResults" {
				authSrc = g.StmtsText(cc.Body)
			}
			return true
		})
	}
	fmt.Fprintf(&b, "/-- GetAuthorizedSignersFor, case *MessageCertificateResults -/\ndef src_certResultsAuthorizedSigner : String := %q\n", authSrc)
	// error ids of the state-machine constructors the model names ("<module>/<code>", constants live in lib/error.go)
	libErr, err := g.ParseFile(filepath.Join(*repo, "lib/error.go"))
	if err != nil {
		return "", err
	}
	consts := map[string]string{}
	for _, d := range libErr.AST.Decls {
		if gd, ok := d.(*ast.GenDecl); ok && gd.Tok == token.CONST {
			for _, sp := range gd.Specs {
				vs := sp.(*ast.ValueSpec)
				if len(vs.Names) == 1 && len(vs.Values) == 1 {
					if bl, ok := vs.Values[0].(*ast.BasicLit); ok {
						consts[vs.Names[0].Name] = strings.Trim(bl.Value, "\"")
					}
				}
			}
		}
	}
	fsmErr, err := g.ParseFile(filepath.Join(*repo, "fsm/error.go"))
	if err != nil {
		return "", err
	}
	for _, name := range []string{"ErrUnauthorizedTx", "ErrEmptyCertificateResults", "ErrInvalidCertificateResults"} {
		fd := fsmErr.FindFunc("", name)
		id := ""
		if fd != nil {
			ast.Inspect(fd.Body, func(nd ast.Node) bool {
				if c, ok := nd.(*ast.CallExpr); ok && len(c.Args) >= 2 && strings.HasSuffix(g.ExprText(c.Fun), "NewError") {
					code, ok1 := consts[strings.TrimPrefix(g.ExprText(c.Args[0]), "lib.")]
					mod, ok2 := consts[strings.TrimPrefix(g.ExprText(c.Args[1]), "lib.")]
					if ok1 && ok2 {
						id = mod + "/" + code
					}
				}
				return true
			})
		}
		if id == "" {
			return "", fmt.Errorf("fsm/error.go: %s not resolvable to module/code", name)
		}
		fmt.Fprintf(&b, "def fsm%s : String := %q\n", name, id)
	}
	b.WriteString("\n")

	// ---- the wiring of the expiry bound
	pd := evGo.FindFunc("BFT", "ProcessDSE")
	minArgs, chDef := "", ""
	ast.Inspect(pd.Body, func(nd ast.Node) bool {
		switch v := nd.(type) {
		case *ast.CallExpr:
			if g.ExprText(v.Fun) == "b.LoadMinimumEvidenceHeight" {
				var as []string
				for _, a := range v.Args {
					as = append(as, g.ExprText(a))
				}
				minArgs = strings.Join(as, ", ")
			}
		case *ast.AssignStmt:
			if len(v.Lhs) == 1 && g.ExprText(v.Lhs[0]) == "committeeHeight" && v.Tok == token.DEFINE {
				chDef = g.ExprText(v.Rhs[0])
			}
		}
		return true
	})
	if minArgs == "" || chDef == "" {
		return "", fmt.Errorf("ProcessDSE: call of b.LoadMinimumEvidenceHeight or definition of committeeHeight not found")
	}
	fmt.Fprintf(&b, "/-- ProcessDSE: arguments of `b.LoadMinimumEvidenceHeight(…)` -/\ndef processDSE_minHeightArgs : String := %q\n/-- ProcessDSE: `committeeHeight := …` -/\ndef processDSE_committeeHeight : String := %q\n", minArgs, chDef)
	fmt.Fprintf(&b, "/-- controller.LoadMinimumEvidenceHeight -/\ndef src_controllerLoadMin : String := %q\n", evFuncText(filepath.Join(*repo, "controller/controller.go"), "Controller", "LoadMinimumEvidenceHeight"))
	fmt.Fprintf(&b, "/-- rpc RCManager.GetMinimumEvidenceHeight: the last statement -/\ndef src_rcManagerGetMin : String := %q\n", evLastStmt(filepath.Join(*repo, "cmd/rpc/sock.go"), "RCManager", "GetMinimumEvidenceHeight"))
	fmt.Fprintf(&b, "/-- rpc Client.MinimumEvidenceHeight -/\ndef src_clientMin : String := %q\n", evFuncText(filepath.Join(*repo, "cmd/rpc/client.go"), "Client", "MinimumEvidenceHeight"))
	fmt.Fprintf(&b, "/-- rpc Server.MinimumEvidenceHeight (state = TimeMachine(requested height)) -/\ndef src_serverMin : String := %q\n", evFuncText(filepath.Join(*repo, "cmd/rpc/query.go"), "Server", "MinimumEvidenceHeight"))
	tm := st.FindFunc("StateMachine", "TimeMachine")
	if tm == nil || len(tm.Body.List) == 0 {
		return "", fmt.Errorf("fsm/state.go: TimeMachine not found")
	}
	fmt.Fprintf(&b, "/-- fsm.TimeMachine: how the requested height is clamped -/\ndef src_timeMachineClamp : String := %q\n", g.StmtText(tm.Body.List[0]))

	b.WriteString("\nend Canopy.Gen.Evidence\n")
	return b.String(), nil
}

func evTypeText(e ast.Expr) string {
	if e == nil {
		return ""
	}
	return g.ExprText(e)
}

func evDropLog(src string) bool {
	return strings.HasPrefix(src, "b.log.") || strings.HasPrefix(src, "s.log.") || strings.HasPrefix(src, "c.log.") || strings.HasPrefix(src, "defer lib.TimeTrack")
}

// evNormStmt renders one statement as lines, opening nested blocks (if / for / range / labelled) so that
// every guard sits on its own line.
func evNormStmt(s ast.Stmt, prefix string, drop func(string) bool) []string {
	if drop(g.StmtText(s)) {
		return nil
	}
	switch v := s.(type) {
	case *ast.IfStmt:
		head := "if "
		if v.Init != nil {
			head += g.StmtText(v.Init) + "; "
		}
		out := []string{prefix + head + g.ExprText(v.Cond) + " {"}
		for _, x := range v.Body.List {
			out = append(out, evNormStmt(x, prefix+"  ", drop)...)
		}
		switch e := v.Else.(type) {
		case nil:
			out = append(out, prefix+"}")
		case *ast.BlockStmt:
			out = append(out, prefix+"} else {")
			for _, x := range e.List {
				out = append(out, evNormStmt(x, prefix+"  ", drop)...)
			}
			out = append(out, prefix+"}")
		default:
			out = append(out, prefix+"} else "+g.StmtText(e))
		}
		return out
	case *ast.RangeStmt:
		k, val := "_", "_"
		if v.Key != nil {
			k = g.ExprText(v.Key)
		}
		if v.Value != nil {
			val = g.ExprText(v.Value)
		}
		out := []string{prefix + "for " + k + ", " + val + " " + v.Tok.String() + " range " + g.ExprText(v.X) + " {"}
		for _, x := range v.Body.List {
			out = append(out, evNormStmt(x, prefix+"  ", drop)...)
		}
		return append(out, prefix+"}")
	case *ast.LabeledStmt:
		return append([]string{prefix + v.Label.Name + ":"}, evNormStmt(v.Stmt, prefix, drop)...)
	case *ast.BranchStmt:
		t := v.Tok.String()
		if v.Label != nil {
			t += " " + v.Label.Name
		}
		return []string{prefix + t}
	}
	return []string{prefix + g.StmtText(s)}
}

func evNormBody(fd *ast.FuncDecl, drop func(string) bool) []string {
	var out []string
	for _, s := range fd.Body.List {
		out = append(out, evNormStmt(s, "", drop)...)
	}
	return out
}

func evIndent(xs []string) []string {
	out := make([]string, len(xs))
	for i, x := range xs {
		out[i] = "  " + x
	}
	return out
}

func evWriteList(b *strings.Builder, name, doc string, lines []string) {
	fmt.Fprintf(b, "/-- %s -/\ndef %s : List String := [\n", doc, name)
	for i, s := range lines {
		sep := ","
		if i == len(lines)-1 {
			sep = ""
		}
		fmt.Fprintf(b, "  %q%s\n", s, sep)
	}
	b.WriteString("]\n\n")
}

// evFuncText is the one-line normalised body of a function ("" when it is missing: the `rfl` theorem
// that pins it then fails, which is the broken obligation).
func evFuncText(path, recv, name string) string {
	f, err := g.ParseFile(path)
	if err != nil {
		return ""
	}
	fd := f.FindFunc(recv, name)
	if fd == nil || fd.Body == nil {
		return ""
	}
	var out []string
	for _, s := range fd.Body.List {
		if t := g.StmtText(s); !evDropLog(t) {
			out = append(out, t)
		}
	}
	return strings.Join(out, "; ")
}

func evLastStmt(path, recv, name string) string {
	f, err := g.ParseFile(path)
	if err != nil {
		return ""
	}
	fd := f.FindFunc(recv, name)
	if fd == nil || fd.Body == nil || len(fd.Body.List) == 0 {
		return ""
	}
	return g.StmtText(fd.Body.List[len(fd.Body.List)-1])
}
