package main

func moreGens() []gen { return nil }
