package main

import (
	"fmt"
	"go/ast"
	"path/filepath"
	"strings"

	g "verifharness/gotolean"
)

func init() { register("Committee", genCommittee) }

// genCommittee translates the two decision pieces of committee derivation that the C13/C02 theorems
// are stated about: the sort comparator inside fsm.getValidatorSet and the +2/3 threshold expression
// of lib.NewValidatorSet. Everything else of getValidatorSet (filter, limit, member construction) is
// a hand model tied by the correspondence run.
func genCommittee() (string, error) {
	var b strings.Builder
	b.WriteString("import Canopy.Model.Bytes\nnamespace Canopy.Gen.Committee\nopen Canopy\n\n")
	b.WriteString(`/-- the fields of fsm.Validator read by the comparator, with the Go field names -/
structure GoValidator where
  Address : Bytes
  StakedAmount : UInt64

/-- cmp.Compare on uint64 -/
def cmpU64 (x y : UInt64) : Int := if x < y then -1 else if y < x then 1 else 0
/-- bytes.Compare -/
def cmpBytes : Bytes → Bytes → Int
  | [], [] => 0
  | [], _ :: _ => -1
  | _ :: _, [] => 1
  | a :: as, b :: bs => if a < b then -1 else if b < a then 1 else cmpBytes as bs

`)
	// --- comparator
	vf, err := g.ParseFile(filepath.Join(*repo, "fsm/validator.go"))
	if err != nil {
		return "", err
	}
	fd := vf.FindFunc("StateMachine", "getValidatorSet")
	if fd == nil {
		return "", fmt.Errorf("fsm/validator.go: getValidatorSet not found")
	}
	var lit *ast.FuncLit
	var filterLit string
	var sortCalls int
	ast.Inspect(fd.Body, func(n ast.Node) bool {
		switch c := n.(type) {
		case *ast.CallExpr:
			if g.ExprText(c.Fun) == "slices.SortFunc" && len(c.Args) == 2 {
				sortCalls++
				if l, ok := c.Args[1].(*ast.FuncLit); ok {
					lit = l
				}
			}
		case *ast.CompositeLit:
			if g.ExprText(c.Type) == "lib.ValidatorFilters" {
				filterLit = g.ExprText(c)
			}
		}
		return true
	})
	if lit == nil || sortCalls != 1 {
		return "", fmt.Errorf("getValidatorSet: expected exactly one slices.SortFunc(_, func…) call, found %d", sortCalls)
	}
	tr := &g.Translator{Cfg: g.Config{
		Types: map[string]string{"*Validator": "GoValidator", "int": "Int"},
		Calls: map[string]func([]string) (string, error){
			"cmp.Compare":   g.App("cmpU64"),
			"bytes.Compare": g.App("cmpBytes"),
		},
		Idents: map[string]string{},
	}}
	cmpDecl := &ast.FuncDecl{Name: ast.NewIdent("sortCmp"), Type: lit.Type, Body: lit.Body}
	txt, err := tr.Func(cmpDecl, "sortCmp")
	if err != nil {
		return "", err
	}
	b.WriteString("/-- the comparator passed to slices.SortFunc in fsm.getValidatorSet (negative: a first) -/\n")
	b.WriteString(txt)
	fmt.Fprintf(&b, "\n/-- the filter literal used to select committee members -/\ndef filterLiteral : String := %q\n", filterLit)

	// --- threshold
	cf, err := g.ParseFile(filepath.Join(*repo, "lib/consensus.go"))
	if err != nil {
		return "", err
	}
	nv := cf.FindFunc("", "NewValidatorSet")
	if nv == nil {
		return "", fmt.Errorf("lib/consensus.go: NewValidatorSet not found")
	}
	var rhs ast.Expr
	var fieldSrc string
	ast.Inspect(nv.Body, func(n ast.Node) bool {
		switch s := n.(type) {
		case *ast.AssignStmt:
			if len(s.Lhs) == 1 && g.ExprText(s.Lhs[0]) == "minPowerFor23Maj" && len(s.Rhs) == 1 {
				rhs = s.Rhs[0]
			}
		case *ast.KeyValueExpr:
			if g.ExprText(s.Key) == "MinimumMaj23" {
				fieldSrc = g.ExprText(s.Value)
			}
		}
		return true
	})
	if rhs == nil || fieldSrc != "minPowerFor23Maj" {
		return "", fmt.Errorf("NewValidatorSet: `minPowerFor23Maj := …` feeding `MinimumMaj23:` not found (field source %q)", fieldSrc)
	}
	tr2 := &g.Translator{Cfg: g.Config{Idents: map[string]string{}}}
	e, err := tr2.Expr(rhs)
	if err != nil {
		return "", err
	}
	fmt.Fprintf(&b, "\n/-- `MinimumMaj23` of lib.NewValidatorSet, in the code's own uint64 arithmetic -/\ndef minPowerFor23Maj (totalPower : UInt64) : UInt64 := %s\n", e)
	// the comparison that decides partial vs full certificate
	var cmpSrc string
	ac := cf.FindFunc("AggregateSignature", "Check")
	if ac == nil {
		return "", fmt.Errorf("lib/consensus.go: AggregateSignature.Check not found")
	}
	ast.Inspect(ac.Body, func(n ast.Node) bool {
		if s, ok := n.(*ast.IfStmt); ok && strings.Contains(g.ExprText(s.Cond), "MinimumMaj23") {
			cmpSrc = g.ExprText(s.Cond) + " => " + g.StmtsText(s.Body.List)
		}
		return true
	})
	fmt.Fprintf(&b, "\n/-- the partial-certificate decision in AggregateSignature.Check -/\ndef partialDecision : String := %q\n", cmpSrc)
	b.WriteString("\nend Canopy.Gen.Committee\n")
	return b.String(), nil
}
