package main

import (
	"fmt"
	"go/ast"
	"path/filepath"
	"strings"

	g "verifharness/gotolean"
)

func init() { register("Committee", genCommittee) }

// genCommittee translates the decision pieces of committee derivation that the C13/C02 theorems
// are stated about: the sort comparator inside fsm.getValidatorSet and the +2/3 threshold expression
// of lib.NewValidatorSet. Everything else of getValidatorSet (filter, limit, member construction) is
// a hand model tied by the correspondence run.
func genCommittee() (string, error) {
	var b strings.Builder
	b.WriteString("import Canopy.Model.Bytes\nnamespace Canopy.Gen.Committee\nopen Canopy\n\n")
	b.WriteString(`/-- the fields of fsm.Validator read by the comparator, with the Go field names -/
structure GoValidator where
  Address : Bytes
  PublicKey : Bytes
  StakedAmount : UInt64
  Committees : List UInt64
  MaxPausedHeight : UInt64
  UnstakingHeight : UInt64
  Delegate : Bool

/-- lib.ValidatorFilters (FilterOption is an int enum) -/
structure GoFilters where
  Unstaking : Nat
  Paused : Nat
  Delegate : Nat
  Committee : UInt64

/-- cmp.Compare on uint64 -/
def cmpU64 (x y : UInt64) : Int := if x < y then -1 else if y < x then 1 else 0
/-- bytes.Compare -/
def cmpBytes : Bytes → Bytes → Int
  | [], [] => 0
  | [], _ :: _ => -1
  | _ :: _, [] => 1
  | a :: as, b :: bs => if a < b then -1 else if b < a then 1 else cmpBytes as bs

`)
	// --- comparator
	vf, err := g.ParseFile(filepath.Join(*repo, "fsm/validator.go"))
	if err != nil {
		return "", err
	}
	fd := vf.FindFunc("StateMachine", "getValidatorSet")
	if fd == nil {
		return "", fmt.Errorf("fsm/validator.go: getValidatorSet not found")
	}
	var lit *ast.FuncLit
	var filterLit string
	var sortCalls int
	ast.Inspect(fd.Body, func(n ast.Node) bool {
		switch c := n.(type) {
		case *ast.CallExpr:
			if g.ExprText(c.Fun) == "slices.SortFunc" && len(c.Args) == 2 {
				sortCalls++
				if l, ok := c.Args[1].(*ast.FuncLit); ok {
					lit = l
				}
			}
		case *ast.CompositeLit:
			if g.ExprText(c.Type) == "lib.ValidatorFilters" {
				filterLit = g.ExprText(c)
			}
		}
		return true
	})
	if lit == nil || sortCalls != 1 {
		return "", fmt.Errorf("getValidatorSet: expected exactly one slices.SortFunc(_, func…) call, found %d", sortCalls)
	}
	tr := &g.Translator{Cfg: g.Config{
		Types: map[string]string{"*Validator": "GoValidator", "int": "Int"},
		Calls: map[string]func([]string) (string, error){
			"cmp.Compare":   g.App("cmpU64"),
			"bytes.Compare": g.App("cmpBytes"),
		},
		Idents: map[string]string{},
	}}
	cmpDecl := &ast.FuncDecl{Name: ast.NewIdent("sortCmp"), Type: lit.Type, Body: lit.Body}
	txt, err := tr.Func(cmpDecl, "sortCmp")
	if err != nil {
		return "", err
	}
	b.WriteString("/-- the comparator passed to slices.SortFunc in fsm.getValidatorSet (negative: a first) -/\n")
	b.WriteString(txt)
	fmt.Fprintf(&b, "\n/-- the filter literal used to select committee members -/\ndef filterLiteral : String := %q\n", filterLit)
	if err := genFilterPieces(&b, vf, fd); err != nil {
		return "", err
	}

	// --- threshold
	cf, err := g.ParseFile(filepath.Join(*repo, "lib/consensus.go"))
	if err != nil {
		return "", err
	}
	nv := cf.FindFunc("", "NewValidatorSet")
	if nv == nil {
		return "", fmt.Errorf("lib/consensus.go: NewValidatorSet not found")
	}
	var rhs ast.Expr
	var fieldSrc string
	ast.Inspect(nv.Body, func(n ast.Node) bool {
		switch s := n.(type) {
		case *ast.AssignStmt:
			if len(s.Lhs) == 1 && g.ExprText(s.Lhs[0]) == "minPowerFor23Maj" && len(s.Rhs) == 1 {
				rhs = s.Rhs[0]
			}
		case *ast.KeyValueExpr:
			if g.ExprText(s.Key) == "MinimumMaj23" {
				fieldSrc = g.ExprText(s.Value)
			}
		}
		return true
	})
	if rhs == nil || fieldSrc != "minPowerFor23Maj" {
		return "", fmt.Errorf("NewValidatorSet: `minPowerFor23Maj := …` feeding `MinimumMaj23:` not found (field source %q)", fieldSrc)
	}
	tr2 := &g.Translator{Cfg: g.Config{Idents: map[string]string{}}}
	e, err := tr2.Expr(rhs)
	if err != nil {
		return "", err
	}
	fmt.Fprintf(&b, "\n/-- `MinimumMaj23` of lib.NewValidatorSet, in the code's own uint64 arithmetic -/\ndef minPowerFor23Maj (totalPower : UInt64) : UInt64 := %s\n", e)
	// the comparison that decides partial vs full certificate
	var cmpSrc string
	ac := cf.FindFunc("AggregateSignature", "Check")
	if ac == nil {
		return "", fmt.Errorf("lib/consensus.go: AggregateSignature.Check not found")
	}
	ast.Inspect(ac.Body, func(n ast.Node) bool {
		if s, ok := n.(*ast.IfStmt); ok && strings.Contains(g.ExprText(s.Cond), "MinimumMaj23") {
			cmpSrc = g.ExprText(s.Cond) + " => " + g.StmtsText(s.Body.List)
		}
		return true
	})
	fmt.Fprintf(&b, "\n/-- the partial-certificate decision in AggregateSignature.Check -/\ndef partialDecision : String := %q\n", cmpSrc)
	b.WriteString("\nend Canopy.Gen.Committee\n")
	return b.String(), nil
}


// genFilterPieces translates the rest of getValidatorSet's decision logic: the FilterOption constants,
// Validator.PassesFilter (tagless switches desugared to if-chains), the filter literal as a value, the
// choice of cap and delegate filter by `delegate`, the limit computation, the slice the members are
// built from, the member fields, and the normalised source of the statement that builds `filtered`.
func genFilterPieces(b *strings.Builder, vf *g.File, fd *ast.FuncDecl) error {
	// --- FilterOption constants (lib/consensus.go)
	cf, err := g.ParseFile(filepath.Join(*repo, "lib/consensus.go"))
	if err != nil {
		return err
	}
	opts := map[string]string{}
	for _, d := range cf.AST.Decls {
		gd, ok := d.(*ast.GenDecl)
		if !ok || gd.Tok.String() != "const" {
			continue
		}
		for _, sp := range gd.Specs {
			vs := sp.(*ast.ValueSpec)
			for i, n := range vs.Names {
				if strings.HasPrefix(n.Name, "FilterOption_") && i < len(vs.Values) {
					if lit, ok := vs.Values[i].(*ast.BasicLit); ok {
						opts[n.Name] = lit.Value
					}
				}
			}
		}
	}
	for _, n := range []string{"FilterOption_Off", "FilterOption_MustBe", "FilterOption_Exclude"} {
		v, ok := opts[n]
		if !ok {
			return fmt.Errorf("lib/consensus.go: constant %s with a literal value not found", n)
		}
		fmt.Fprintf(b, "\ndef %s : Nat := %s", n, v)
	}
	b.WriteString("\n")
	idents := map[string]string{
		"lib.FilterOption_Off": "FilterOption_Off", "lib.FilterOption_MustBe": "FilterOption_MustBe", "lib.FilterOption_Exclude": "FilterOption_Exclude",
	}
	// --- PassesFilter
	pf := vf.FindFunc("Validator", "PassesFilter")
	if pf == nil {
		return fmt.Errorf("fsm/validator.go: Validator.PassesFilter not found")
	}
	if _, ok := g.NamedResultNeverAssigned(pf); !ok {
		return fmt.Errorf("PassesFilter: expected one named result that is never assigned (bare return = false)")
	}
	body, err := g.Desugar(pf.Body.List, ast.NewIdent("false"))
	if err != nil {
		return fmt.Errorf("PassesFilter: %v", err)
	}
	trF := &g.Translator{Cfg: g.Config{
		Types:    map[string]string{"lib.ValidatorFilters": "GoFilters", "bool": "Bool"},
		RecvType: "GoValidator",
		Calls:    map[string]func([]string) (string, error){"slices.Contains": g.App("List.contains")},
		Idents:   idents,
	}}
	txt, err := trF.Func(&ast.FuncDecl{Recv: pf.Recv, Name: pf.Name, Type: pf.Type, Body: &ast.BlockStmt{List: body}}, "passesFilter")
	if err != nil {
		return err
	}
	b.WriteString("\n/-- fsm.Validator.PassesFilter (tagless switches rendered as if-chains; bare return = false) -/\n" + txt)

	// --- pieces of getValidatorSet
	var defStmt, setStmt *ast.AssignStmt // maxPerCommittee, delegateFilter := … ; if delegate { … = … }
	var setCond string
	var limDef *ast.AssignStmt
	var limIf *ast.IfStmt
	var filteredStmt *ast.AssignStmt
	var rangeSrc string
	var member *ast.CompositeLit
	var filterLit *ast.CompositeLit
	assigns := map[string]int{}
	isPair := func(a *ast.AssignStmt) bool {
		return len(a.Lhs) == 2 && g.ExprText(a.Lhs[0]) == "maxPerCommittee" && g.ExprText(a.Lhs[1]) == "delegateFilter" && len(a.Rhs) == 2
	}
	for _, st := range fd.Body.List {
		switch v := st.(type) {
		case *ast.AssignStmt:
			if isPair(v) && v.Tok.String() == ":=" {
				defStmt = v
			}
			if len(v.Lhs) == 1 && g.ExprText(v.Lhs[0]) == "limit" && v.Tok.String() == ":=" {
				limDef = v
			}
			if len(v.Lhs) == 1 && g.ExprText(v.Lhs[0]) == "filtered" && v.Tok.String() == ":=" {
				filteredStmt = v
			}
		case *ast.IfStmt:
			if len(v.Body.List) == 1 && v.Else == nil {
				if a, ok := v.Body.List[0].(*ast.AssignStmt); ok {
					if isPair(a) && a.Tok.String() == "=" {
						setStmt, setCond = a, g.ExprText(v.Cond)
					}
					if len(a.Lhs) == 1 && g.ExprText(a.Lhs[0]) == "limit" && a.Tok.String() == "=" {
						limIf = v
					}
				}
			}
		case *ast.RangeStmt:
			if strings.HasPrefix(g.ExprText(v.X), "filtered") {
				rangeSrc = g.ExprText(v.X)
			}
		}
	}
	ast.Inspect(fd.Body, func(n ast.Node) bool {
		switch v := n.(type) {
		case *ast.AssignStmt:
			for _, l := range v.Lhs {
				assigns[g.ExprText(l)]++
			}
		case *ast.CompositeLit:
			switch g.ExprText(v.Type) {
			case "lib.ConsensusValidator":
				member = v
			case "lib.ValidatorFilters":
				filterLit = v
			}
		}
		return true
	})
	if defStmt == nil || setStmt == nil || setCond != "delegate" || assigns["maxPerCommittee"] != 2 || assigns["delegateFilter"] != 2 {
		return fmt.Errorf("getValidatorSet: expected `maxPerCommittee, delegateFilter := a, b; if delegate { … = c, d }` and no other assignment to them")
	}
	if limDef == nil || limIf == nil || assigns["limit"] != 2 {
		return fmt.Errorf("getValidatorSet: expected `limit := …; if … { limit = … }` and no other assignment to limit")
	}
	if filteredStmt == nil || assigns["filtered"] != 1 || member == nil || filterLit == nil {
		return fmt.Errorf("getValidatorSet: expected one `filtered := …`, one lib.ConsensusValidator literal and one lib.ValidatorFilters literal")
	}
	trG := &g.Translator{Cfg: g.Config{
		Calls: map[string]func([]string) (string, error){"min": g.App("min"), "lib.FilterOption": g.App("")},
		Idents: map[string]string{
			"lib.FilterOption_Off": "FilterOption_Off", "lib.FilterOption_MustBe": "FilterOption_MustBe", "lib.FilterOption_Exclude": "FilterOption_Exclude",
			"p.MaxCommitteeSize": "MaxCommitteeSize", "p.MaximumDelegatesPerCommittee": "MaximumDelegatesPerCommittee",
			"uint64(len(filtered))": "n",
		},
	}}
	ex := func(e ast.Expr) (string, error) { return trG.Expr(e) }
	a0, err := ex(defStmt.Rhs[0])
	if err != nil {
		return err
	}
	a1, err := ex(defStmt.Rhs[1])
	if err != nil {
		return err
	}
	c0, err := ex(setStmt.Rhs[0])
	if err != nil {
		return err
	}
	c1, err := ex(setStmt.Rhs[1])
	if err != nil {
		return err
	}
	fmt.Fprintf(b, "\n/-- `maxPerCommittee` as getValidatorSet selects it -/\ndef selectCap (delegate : Bool) (MaxCommitteeSize MaximumDelegatesPerCommittee : UInt64) : UInt64 :=\n  if delegate then %s else %s\n", c0, a0)
	fmt.Fprintf(b, "\n/-- `delegateFilter` as getValidatorSet selects it -/\ndef selectDelegateFilter (delegate : Bool) : Nat :=\n  if delegate then %s else %s\n", c1, a1)
	// filter literal as a value
	fields := map[string]string{}
	for _, el := range filterLit.Elts {
		kv, ok := el.(*ast.KeyValueExpr)
		if !ok {
			return fmt.Errorf("ValidatorFilters literal: positional element")
		}
		val := kv.Value
		if c, ok := val.(*ast.CallExpr); ok && g.ExprText(c.Fun) == "lib.FilterOption" && len(c.Args) == 1 {
			val = c.Args[0] // a type conversion
		}
		x, err := ex(val)
		if err != nil {
			return err
		}
		fields[g.ExprText(kv.Key)] = x
	}
	get := func(k, dflt string) string {
		if v, ok := fields[k]; ok {
			return v
		}
		return dflt
	}
	fmt.Fprintf(b, "\n/-- the lib.ValidatorFilters literal passed to PassesFilter, as a value -/\ndef committeeFilter (delegateFilter : Nat) (chainId : UInt64) : GoFilters :=\n  { Unstaking := %s, Paused := %s, Delegate := %s, Committee := %s }\n",
		get("Unstaking", "FilterOption_Off"), get("Paused", "FilterOption_Off"), get("Delegate", "FilterOption_Off"), get("Committee", "0"))
	// limit
	limFn := &ast.FuncDecl{Name: ast.NewIdent("limitOf"), Type: &ast.FuncType{
		Params:  &ast.FieldList{List: []*ast.Field{{Names: []*ast.Ident{ast.NewIdent("n"), ast.NewIdent("maxPerCommittee")}, Type: ast.NewIdent("uint64")}}},
		Results: &ast.FieldList{List: []*ast.Field{{Type: ast.NewIdent("uint64")}}},
	}, Body: &ast.BlockStmt{List: []ast.Stmt{limDef, limIf, &ast.ReturnStmt{Results: []ast.Expr{ast.NewIdent("limit")}}}}}
	trG.Cfg.Types = map[string]string{"uint64": "UInt64"}
	ltxt, err := trG.Func(limFn, "limitOf")
	if err != nil {
		return err
	}
	b.WriteString("\n/-- the number of members taken: `limit` of getValidatorSet with n = uint64(len(filtered)) -/\n" + ltxt)
	fmt.Fprintf(b, "\n/-- the slice the members are built from -/\ndef memberRange : String := %q\n", rangeSrc)
	var mf []string
	for _, el := range member.Elts {
		if kv, ok := el.(*ast.KeyValueExpr); ok {
			mf = append(mf, fmt.Sprintf("(%q, %q)", g.ExprText(kv.Key), g.ExprText(kv.Value)))
		}
	}
	fmt.Fprintf(b, "\n/-- the fields of each lib.ConsensusValidator built from a filtered validator `v` -/\ndef memberFields : List (String × String) := [%s]\n", strings.Join(mf, ", "))
	// the statement that builds `filtered`, with the filter literal abstracted
	fs := strings.Replace(g.StmtText(filteredStmt), g.ExprText(filterLit), "<FILTER>", 1)
	// the historical lookup: LoadCommittee(chain, h) = GetCommitteeMembers on a read-only state machine of height h
	for _, fn := range []struct{ recv, name, lean string }{{"StateMachine", "LoadCommittee", "loadCommitteeSrc"}, {"StateMachine", "TimeMachine", "timeMachineSrc"}} {
		lines, err := normFunc("fsm/state.go", fn.recv, fn.name)
		if err != nil {
			return err
		}
		var keep []string
		for _, l := range lines {
			if strings.Contains(l, "observeStage") || strings.Contains(l, "time.Now()") || strings.Contains(l, ".Observe(") {
				continue // timing metrics
			}
			keep = append(keep, fmt.Sprintf("%q", l))
		}
		fmt.Fprintf(b, "\n/-- %s.%s, normalised (timing metrics dropped) -/\ndef %s : List String := [\n  %s\n]\n", fn.recv, fn.name, fn.lean, strings.Join(keep, ",\n  "))
	}
	fmt.Fprintf(b, "\n/-- normalised source of the statement that builds `filtered` (a fresh slice: the cached validator list is never filtered in place) -/\ndef filteredSrc : String := %q\n", fs)
	return nil
}
