package main

import (
	"fmt"
	"go/ast"
	"os"
	"path/filepath"
	"regexp"
	"sort"
	"strings"

	g "verifharness/gotolean"
)

func init() { register("Exec", genExec) }

// genExec extracts the structural facts the execution-path model (C03, C11) and the atomicity
// mechanism model (C07) assume: which statements ApplyTransactions runs on failure / on success /
// after the loop, which cache fields exist and which ResetCaches clears, what Reset does, and where
// the controller resets the FSM on each execution path. Facts are normalised source text
// (comment-free, whitespace-free of meaning, timing/metrics/log statements dropped); the expectations
// are hand-written theorems in Props/C03.lean, Props/C07.lean.
func genExec() (string, error) {
	var b strings.Builder
	b.WriteString("namespace Canopy.Gen.Exec\n\n")
	emit := func(name, doc string, items []string) {
		q := make([]string, len(items))
		for i, s := range items {
			q[i] = fmt.Sprintf("%q", s)
		}
		fmt.Fprintf(&b, "/-- %s -/\ndef %s : List String := [%s]\n\n", doc, name, strings.Join(q, ",\n  "))
	}
	state, err := g.ParseFile(filepath.Join(*repo, "fsm/state.go"))
	if err != nil {
		return "", err
	}
	// ---- cache struct and ResetCaches ----
	var cacheFields []string
	for _, d := range state.AST.Decls {
		gd, ok := d.(*ast.GenDecl)
		if !ok {
			continue
		}
		for _, sp := range gd.Specs {
			ts, ok := sp.(*ast.TypeSpec)
			if !ok || ts.Name.Name != "cache" {
				continue
			}
			st, ok := ts.Type.(*ast.StructType)
			if !ok {
				return "", fmt.Errorf("fsm.cache is not a struct")
			}
			for _, f := range st.Fields.List {
				for _, n := range f.Names {
					cacheFields = append(cacheFields, n.Name)
				}
			}
		}
	}
	if len(cacheFields) == 0 {
		return "", fmt.Errorf("type cache not found in fsm/state.go")
	}
	emit("cacheFields", "fields of fsm.cache (fsm/state.go), source order", cacheFields)
	rc := state.FindFunc("StateMachine", "ResetCaches")
	if rc == nil {
		return "", fmt.Errorf("ResetCaches not found")
	}
	var resetAssigns []string
	for _, st := range rc.Body.List {
		as, ok := st.(*ast.AssignStmt)
		if !ok || len(as.Lhs) != 1 {
			return "", fmt.Errorf("ResetCaches: unexpected statement %q", g.StmtText(st))
		}
		lhs := g.ExprText(as.Lhs[0])
		if !strings.HasPrefix(lhs, "s.cache.") {
			return "", fmt.Errorf("ResetCaches: assignment to %q", lhs)
		}
		resetAssigns = append(resetAssigns, strings.TrimPrefix(lhs, "s.cache."))
	}
	emit("resetCachesAssigns", "cache fields assigned by StateMachine.ResetCaches", resetAssigns)
	// every `<x>.cache.<field>` mentioned in non-test fsm sources outside ResetCaches/constructors
	used := map[string]bool{}
	re := regexp.MustCompile(`\.cache\.([A-Za-z_][A-Za-z0-9_]*)`)
	files, _ := filepath.Glob(filepath.Join(*repo, "fsm", "*.go"))
	for _, fn := range files {
		if strings.HasSuffix(fn, "_test.go") || strings.Contains(filepath.Base(fn), "verif_hooks") {
			continue
		}
		src, e := os.ReadFile(fn)
		if e != nil {
			return "", e
		}
		for _, m := range re.FindAllStringSubmatch(string(src), -1) {
			used[m[1]] = true
		}
	}
	var usedL []string
	for k := range used {
		usedL = append(usedL, k)
	}
	sort.Strings(usedL)
	emit("cacheFieldsUsed", "cache fields referenced as `.cache.<field>` anywhere in fsm/*.go (non-test)", usedL)
	rs := state.FindFunc("StateMachine", "Reset")
	if rs == nil {
		return "", fmt.Errorf("StateMachine.Reset not found")
	}
	emit("resetStmts", "statements of StateMachine.Reset", stmtList(rs.Body.List))

	// ---- ApplyTransactions ----
	at := state.FindFunc("StateMachine", "ApplyTransactions")
	if at == nil {
		return "", fmt.Errorf("ApplyTransactions not found")
	}
	var loops []*ast.RangeStmt
	var loopIdx []int
	for i, st := range at.Body.List {
		if r, ok := st.(*ast.RangeStmt); ok && g.ExprText(r.X) == "txs" {
			loops = append(loops, r)
			loopIdx = append(loopIdx, i)
		}
	}
	if len(loops) != 2 {
		return "", fmt.Errorf("ApplyTransactions: expected 2 loops over txs, found %d", len(loops))
	}
	emit("preCheckBody", "ApplyTransactions, first pass: body of the loop that runs CheckTx for every transaction", stmtList(loops[0].Body.List))
	// between the loops (batch verification, store pointer saved, deferred restore)
	emit("betweenPasses", "ApplyTransactions: statements between the two passes", stmtList(at.Body.List[loopIdx[0]+1:loopIdx[1]]))
	var failBranch, okBranch, overEnter, seqBody []string
	for _, st := range loops[1].Body.List {
		is, ok := st.(*ast.IfStmt)
		if ok && g.ExprText(is.Cond) == "e != nil" && is.Else != nil && strings.Contains(g.StmtsText(is.Body.List), "AddFailed") {
			failBranch = stmtList(is.Body.List)
			if eb, ok := is.Else.(*ast.BlockStmt); ok {
				okBranch = stmtList(eb.List)
			}
			seqBody = append(seqBody, "if e != nil { <failureBranch> } else { <successBranch> }")
			continue
		}
		if ok && strings.Contains(g.ExprText(is.Cond), "maxBlockSize") {
			overEnter = stmtList(is.Body.List)
			seqBody = append(seqBody, "if "+g.ExprText(is.Cond)+" { <oversizeEnter> }")
			continue
		}
		if t := g.StmtText(st); !noise(t) {
			seqBody = append(seqBody, t)
		}
	}
	if failBranch == nil || okBranch == nil {
		return "", fmt.Errorf("ApplyTransactions: failure/success branch not found")
	}
	emit("seqBody", "ApplyTransactions, sequential pass: loop body with the three anchored branches abstracted", seqBody)
	emit("failureBranch", "ApplyTransactions: statements executed when ApplyTransaction fails", failBranch)
	emit("successBranch", "ApplyTransactions: statements executed when ApplyTransaction succeeds", okBranch)
	emit("oversizeEnter", "ApplyTransactions: statements executed when the block first becomes oversize", overEnter)
	var after []string
	found := false
	for _, st := range at.Body.List[loopIdx[1]+1:] {
		t := g.StmtText(st)
		if strings.HasPrefix(t, "s.Metrics.UpdateLargestTxSize") {
			found = true
			break
		}
		after = append(after, t)
	}
	if !found {
		return "", fmt.Errorf("ApplyTransactions: metrics anchor after the loop not found")
	}
	emit("afterLoop", "ApplyTransactions: statements between the end of the sequential pass and the metrics update", after)

	// ---- ApplyTransaction: order of the effectful steps ----
	txf, err := g.ParseFile(filepath.Join(*repo, "fsm/transaction.go"))
	if err != nil {
		return "", err
	}
	atx := txf.FindFunc("StateMachine", "ApplyTransaction")
	if atx == nil {
		return "", fmt.Errorf("ApplyTransaction not found")
	}
	var calls []string
	ast.Inspect(atx.Body, func(n ast.Node) bool {
		if ce, ok := n.(*ast.CallExpr); ok {
			t := g.ExprText(ce.Fun)
			switch t {
			case "s.events.Refer", "s.CheckTx", "s.AccountDeductFees", "s.HandleMessage", "s.events.Reset", "s.SetAccount", "s.maybeFaucetTopUpForSendTx", "s.Plugin.DeliverTx":
				calls = append(calls, t)
			}
		}
		return true
	})
	emit("applyTransactionSteps", "ApplyTransaction: effectful calls in source order", calls)

	// ---- controller: where each path resets the FSM ----
	blk, err := g.ParseFile(filepath.Join(*repo, "controller/block.go"))
	if err != nil {
		return "", err
	}
	topDefers := func(fd *ast.FuncDecl) (out []string) {
		for _, st := range fd.Body.List {
			if d, ok := st.(*ast.DeferStmt); ok {
				out = append(out, g.ExprText(d.Call))
			}
		}
		return
	}
	pp := blk.FindFunc("Controller", "ProduceProposal")
	vp := blk.FindFunc("Controller", "ValidateProposal")
	cc := blk.FindFunc("Controller", "CommitCertificate")
	hp := blk.FindFunc("Controller", "HandlePeerBlock")
	if pp == nil || vp == nil || cc == nil || hp == nil {
		return "", fmt.Errorf("controller/block.go: anchors missing")
	}
	// the order in which ProduceProposal finalises the cached proposal: header hash first, then the
	// block result's header and the certificate results that quote the block hash (checkpoint)
	var finalise []string
	ast.Inspect(pp.Body, func(n ast.Node) bool {
		st, ok := n.(ast.Stmt)
		if !ok {
			return true
		}
		switch v := st.(type) {
		case *ast.IfStmt:
			if v.Init != nil && strings.HasPrefix(g.StmtText(v.Init), "_, err = p.Block.BlockHeader.SetHash()") {
				finalise = append(finalise, "SetHash")
			}
		case *ast.AssignStmt:
			t := g.StmtText(v)
			switch {
			case strings.HasPrefix(t, "blockBytes, err = lib.Marshal(p.Block)"):
				finalise = append(finalise, "Marshal(block)")
			case t == "p.BlockResult.BlockHeader = p.Block.BlockHeader":
				finalise = append(finalise, "BlockResult.BlockHeader = header")
			case strings.HasPrefix(t, "p.Block.BlockHeader.LastQuorumCertificate, p.Block.BlockHeader.Vdf ="):
				finalise = append(finalise, "header.LastQuorumCertificate, header.Vdf = ...")
			}
		case *ast.ExprStmt:
			t := g.StmtText(v)
			switch {
			case strings.HasPrefix(t, "c.CalculateSlashRecipients("):
				finalise = append(finalise, "CalculateSlashRecipients")
			case strings.HasPrefix(t, "c.CalculateCheckpoint(p.BlockResult"):
				finalise = append(finalise, "CalculateCheckpoint(BlockResult)")
			}
		}
		return true
	})
	// read-modify-write of the cached proposal's header inside ProduceProposal (compound assignments,
	// ++/--, or a plain assignment whose right-hand side reads the same header field): none may exist,
	// the cached proposal can be served to several ProduceProposal calls
	var rmw, headerAssigns []string
	ast.Inspect(pp.Body, func(n ast.Node) bool {
		switch v := n.(type) {
		case *ast.IncDecStmt:
			if strings.Contains(g.ExprText(v.X), "BlockHeader") {
				rmw = append(rmw, g.StmtText(v))
			}
		case *ast.AssignStmt:
			for i, l := range v.Lhs {
				lt := g.ExprText(l)
				if !strings.HasPrefix(lt, "p.Block.BlockHeader.") {
					continue
				}
				t := g.StmtText(v)
				if v.Tok.String() != "=" {
					rmw = append(rmw, t)
					continue
				}
				headerAssigns = append(headerAssigns, t)
				for j, r := range v.Rhs {
					if (len(v.Rhs) == 1 || i == j) && strings.Contains(g.ExprText(r), lt) {
						rmw = append(rmw, t)
					}
				}
			}
		}
		return true
	})
	emit("produceProposalHeaderReadModifyWrite", "ProduceProposal: statements that update a field of the cached proposal's header from its own previous value", rmw)
	emit("produceProposalHeaderAssigns", "ProduceProposal: plain assignments to fields of the cached proposal's header", dedupe(headerAssigns))
	emit("produceProposalFinalise", "ProduceProposal: order of the statements that patch the cached header, hash it, and finalise block result and certificate results", finalise)
	emit("produceProposalDefers", "ProduceProposal: top-level deferred calls", topDefers(pp))
	first := ""
	for _, st := range vp.Body.List {
		if t := g.StmtText(st); !noise(t) {
			first = t
			break
		}
	}
	emit("validateProposalFirst", "ValidateProposal: first non-logging statement", []string{first})
	// the governance-proposal mode switch of ValidateProposal and the statement right after it
	var modeScope []string
	for i, st := range vp.Body.List {
		if strings.Contains(g.StmtText(st), "c.SetFSMInConsensusModeForProposals()") {
			modeScope = append(modeScope, g.StmtText(st))
			for _, nx := range vp.Body.List[i+1:] {
				if t := g.StmtText(nx); !noise(t) {
					modeScope = append(modeScope, t)
					break
				}
			}
		}
	}
	emit("validateProposalModeScope", "ValidateProposal: the statement that puts both state machines into the strict governance-proposal mode, and the statement directly after it", modeScope)
	emit("validateProposalCalls", "ValidateProposal: controller/FSM calls in source order", callSeq(vp.Body, []string{"c.FSM.Reset", "c.resetFSM", "c.SetFSMInConsensusModeForProposals", "qc.CheckProposalBasic", "c.Consensus.ValidateByzantineEvidence", "c.ApplyAndValidateBlock", "c.NewCertificateResults", "qc.Results.Equals"}))
	emit("commitCertificateDefers", "CommitCertificate: top-level deferred calls (call text)", topDefers(cc))
	var replay []string
	for _, st := range cc.Body.List {
		if is, ok := st.(*ast.IfStmt); ok && g.ExprText(is.Cond) == "blockResult == nil" {
			replay = stmtList(is.Body.List)
		}
	}
	if replay == nil {
		return "", fmt.Errorf("CommitCertificate: `if blockResult == nil` not found")
	}
	emit("commitReplayBranch", "CommitCertificate: body of `if blockResult == nil`", replay)
	emit("commitCertificateCalls", "CommitCertificate: store/FSM calls in source order", callSeq(cc.Body, []string{"c.FSM.Reset", "c.resetFSM", "c.ApplyAndValidateBlock", "storeI.IndexQC", "storeI.IndexBlock", "storeI.Commit", "fsm.New", "c.FSM.Copy", "c.Mempool.CheckMempool", "c.Mempool.FSM.Reset", "c.Mempool.FSM.Discard"}))
	var cacheRule []string
	for i, st := range hp.Body.List {
		if strings.HasPrefix(g.StmtText(st), "result := c.Consensus.BlockResult") {
			for _, s2 := range hp.Body.List[i : i+3] {
				if t := g.StmtText(s2); !noise(t) {
					cacheRule = append(cacheRule, t)
				}
			}
		}
	}
	if len(cacheRule) != 3 {
		return "", fmt.Errorf("HandlePeerBlock: cached-result rule not found")
	}
	emit("handlePeerBlockCacheRule", "HandlePeerBlock: how the cached block result is chosen and used", cacheRule)
	aav := blk.FindFunc("Controller", "ApplyAndValidateBlock")
	if aav == nil {
		return "", fmt.Errorf("ApplyAndValidateBlock not found")
	}
	emit("applyAndValidateCalls", "ApplyAndValidateBlock: calls in source order", callSeq(aav.Body, []string{"c.CheckAndSetLastCertificate", "c.FSM.ApplyBlock", "lib.ErrFailedTransactions", "compare.SetHash", "bytes.Equal", "lib.ErrUnequalBlockHash"}))

	// ---- CheckAndSetLastCertificate: under which conditions the header's last certificate is written
	// ---- into the working store (IndexQC) before the block is applied
	casl := blk.FindFunc("Controller", "CheckAndSetLastCertificate")
	if casl == nil {
		return "", fmt.Errorf("CheckAndSetLastCertificate not found")
	}
	var indexSites []string
	var walk func(list []ast.Stmt, conds []string)
	walk = func(list []ast.Stmt, conds []string) {
		for _, st := range list {
			switch v := st.(type) {
			case *ast.IfStmt:
				// the statement `if err = X.IndexQC(...); err != nil {..}` itself is the write
				if v.Init != nil && strings.Contains(g.StmtText(v.Init), "IndexQC(candidate.LastQuorumCertificate)") {
					indexSites = append(indexSites, strings.Join(conds, " && ")+" => "+g.StmtText(v.Init))
				}
				walk(v.Body.List, append(append([]string{}, conds...), g.ExprText(v.Cond)))
				if eb, ok := v.Else.(*ast.BlockStmt); ok {
					walk(eb.List, append(append([]string{}, conds...), "!("+g.ExprText(v.Cond)+")"))
				}
			case *ast.BlockStmt:
				walk(v.List, conds)
			default:
				if strings.Contains(g.StmtText(st), "IndexQC(candidate.LastQuorumCertificate)") {
					indexSites = append(indexSites, strings.Join(conds, " && ")+" => "+g.StmtText(st))
				}
			}
		}
	}
	walk(casl.Body.List, nil)
	emit("lastCertIndexSites", "CheckAndSetLastCertificate: every write of the candidate header's LastQuorumCertificate into the working store, with the conjunction of the enclosing if-conditions (conditions => statement)", indexSites)
	emit("applyAndValidateFirst", "ApplyAndValidateBlock: first call (the last-certificate check-and-set precedes ApplyBlock)", callSeq(blk.FindFunc("Controller", "ApplyAndValidateBlock").Body, []string{"c.CheckAndSetLastCertificate", "c.FSM.ApplyBlock"}))

	// ---- bft: every write of the cached block result ----
	var writes []string
	bftFiles, _ := filepath.Glob(filepath.Join(*repo, "bft", "*.go"))
	sort.Strings(bftFiles)
	for _, fn := range bftFiles {
		if strings.HasSuffix(fn, "_test.go") || strings.Contains(filepath.Base(fn), "verif_hooks") {
			continue
		}
		f, e := g.ParseFile(fn)
		if e != nil {
			return "", e
		}
		for _, d := range f.AST.Decls {
			fd, ok := d.(*ast.FuncDecl)
			if !ok || fd.Body == nil {
				continue
			}
			ast.Inspect(fd.Body, func(n ast.Node) bool {
				if as, ok := n.(*ast.AssignStmt); ok {
					for _, l := range as.Lhs {
						if g.ExprText(l) == "b.BlockResult" {
							writes = append(writes, fd.Name.Name+": "+g.StmtText(as))
						}
					}
				}
				return true
			})
		}
	}
	emit("bftBlockResultWrites", "bft/*.go: every assignment to b.BlockResult (function: statement)", writes)

	// ---- every CheckMempool() call in controller/*.go with the mempool-FSM preparation before it,
	// ---- every reset of the controller FSM, and every caller of the resetFSM helper
	var cm, fsmResets, resetCallers []string
	var resetBody []string
	ctlFiles, _ := filepath.Glob(filepath.Join(*repo, "controller", "*.go"))
	sort.Strings(ctlFiles)
	for _, fn := range ctlFiles {
		if strings.HasSuffix(fn, "_test.go") || strings.Contains(filepath.Base(fn), "verif_hooks") {
			continue
		}
		f, e := g.ParseFile(fn)
		if e != nil {
			return "", e
		}
		for _, d := range f.AST.Decls {
			fd, ok := d.(*ast.FuncDecl)
			if !ok || fd.Body == nil {
				continue
			}
			if fd.Name.Name == "resetFSM" && fd.Recv != nil {
				resetBody = stmtList(fd.Body.List)
			}
			var prep []string
			ast.Inspect(fd.Body, func(n ast.Node) bool {
				if ds, ok := n.(*ast.DeferStmt); ok {
					switch g.ExprText(ds.Call.Fun) {
					case "c.FSM.Reset":
						fsmResets = append(fsmResets, fd.Name.Name+": defer c.FSM.Reset()")
						return false
					case "c.resetFSM":
						resetCallers = append(resetCallers, fd.Name.Name+": defer c.resetFSM()")
						return false
					}
				}
				ce, ok := n.(*ast.CallExpr)
				if !ok {
					return true
				}
				switch t := g.ExprText(ce.Fun); t {
				case "c.FSM.Reset":
					fsmResets = append(fsmResets, fd.Name.Name+": c.FSM.Reset()")
				case "c.resetFSM":
					resetCallers = append(resetCallers, fd.Name.Name+": c.resetFSM()")
				case "c.Mempool.FSM.Reset", "c.FSM.Copy", "fsm.New", "c.Mempool.FSM.Discard":
					prep = append(prep, t)
				case "c.Mempool.CheckMempool":
					cm = append(cm, fd.Name.Name+": "+strings.Join(prep, ", ")+" -> CheckMempool")
				}
				return true
			})
		}
	}
	emit("controllerFsmResets", "controller/*.go: every statement that resets the controller's FSM directly (function: statement)", fsmResets)
	emit("resetFSMBody", "Controller.resetFSM: statements (empty when the helper does not exist)", resetBody)
	emit("resetFSMCallers", "controller/*.go: every call of c.resetFSM (function: statement)", resetCallers)
	emit("checkMempoolCallers", "controller/*.go: every c.Mempool.CheckMempool() call with the mempool-FSM (re)initialisations that precede it in the same function", cm)
	// ---- the validator-list cache (cache.liveValidators): who fills it, and from where on a live FSM ----
	var lvReaders []string
	fsmFiles, _ := filepath.Glob(filepath.Join(*repo, "fsm", "*.go"))
	sort.Strings(fsmFiles)
	for _, fn := range fsmFiles {
		if strings.HasSuffix(fn, "_test.go") || strings.Contains(filepath.Base(fn), "verif_hooks") {
			continue
		}
		f, e := g.ParseFile(fn)
		if e != nil {
			return "", e
		}
		for _, d := range f.AST.Decls {
			fd, ok := d.(*ast.FuncDecl)
			if !ok || fd.Body == nil {
				continue
			}
			ast.Inspect(fd.Body, func(n ast.Node) bool {
				if ce, ok := n.(*ast.CallExpr); ok {
					switch g.ExprText(ce.Fun) {
					case "s.getCurrentValidators":
						lvReaders = append(lvReaders, fd.Name.Name+" -> getCurrentValidators")
					case "s.getValidatorSet":
						lvReaders = append(lvReaders, fd.Name.Name+" -> getValidatorSet")
					case "s.GetCommitteeMembers", "s.GetDelegates":
						lvReaders = append(lvReaders, fd.Name.Name+" -> "+strings.TrimPrefix(g.ExprText(ce.Fun), "s."))
					}
				}
				return true
			})
		}
	}
	emit("liveValidatorsReaders", "fsm/*.go: the call chain into getCurrentValidators on the receiver's own state (caller -> callee)", lvReaders)
	res, err := g.ParseFile(filepath.Join(*repo, "controller/result.go"))
	if err != nil {
		return "", err
	}
	var lottery []string
	if crr := res.FindFunc("Controller", "CalculateRewardRecipients"); crr != nil {
		for _, st := range crr.Body.List {
			is, ok := st.(*ast.IfStmt)
			if !ok || g.ExprText(is.Cond) != "!isOwnRoot" {
				continue
			}
			ast.Inspect(is.Body, func(n ast.Node) bool {
				if ce, ok := n.(*ast.CallExpr); ok && g.ExprText(ce.Fun) == "fsm.LotteryWinner" {
					lottery = append(lottery, "if !isOwnRoot: "+g.ExprText(ce))
				}
				return true
			})
		}
		ast.Inspect(crr.Body, func(n ast.Node) bool {
			if ce, ok := n.(*ast.CallExpr); ok && g.ExprText(ce.Fun) == "fsm.LotteryWinner" {
				lottery = append(lottery, "anywhere: "+g.ExprText(ce))
			}
			return true
		})
	}
	emit("liveLotteryCalls", "controller/result.go CalculateRewardRecipients: calls of fsm.LotteryWinner on the live state machine", lottery)
	// ---- lib/crypto/*.go: every write of the process-wide signature cache (SignatureCache.Set, and
	// ---- calls of the addToCache callback CheckCache hands out) with everything that encloses it
	var cacheWrites []string
	cryptoFiles, _ := filepath.Glob(filepath.Join(*repo, "lib", "crypto", "*.go"))
	sort.Strings(cryptoFiles)
	for _, fn := range cryptoFiles {
		if strings.HasSuffix(fn, "_test.go") || strings.Contains(filepath.Base(fn), "verif_hooks") {
			continue
		}
		f, e := g.ParseFile(fn)
		if e != nil {
			return "", e
		}
		var walkStmts func(list []ast.Stmt, ctx []string)
		var scan func(n ast.Node, ctx []string)
		scan = func(n ast.Node, ctx []string) {
			if n == nil {
				return
			}
			ast.Inspect(n, func(x ast.Node) bool {
				switch v := x.(type) {
				case *ast.FuncLit:
					walkStmts(v.Body.List, append(append([]string{}, ctx...), "func literal"))
					return false
				case *ast.CallExpr:
					if t := g.ExprText(v.Fun); t == "SignatureCache.Set" || t == "addToCache" {
						cacheWrites = append(cacheWrites, strings.Join(ctx, " / ")+" => "+g.ExprText(v))
					}
				}
				return true
			})
		}
		walkStmts = func(list []ast.Stmt, ctx []string) {
			with := func(c string) []string { return append(append([]string{}, ctx...), c) }
			for _, st := range list {
				switch v := st.(type) {
				case *ast.IfStmt:
					cond := g.ExprText(v.Cond)
					if v.Init != nil {
						scan(v.Init, ctx)
						cond = g.StmtText(v.Init) + "; " + cond
					}
					scan(v.Cond, ctx)
					walkStmts(v.Body.List, with("if "+cond))
					switch e := v.Else.(type) {
					case *ast.BlockStmt:
						walkStmts(e.List, with("else of if "+cond))
					case *ast.IfStmt:
						walkStmts([]ast.Stmt{e}, with("else of if "+cond))
					}
				case *ast.RangeStmt:
					hd := "for "
					if v.Key != nil {
						hd += g.ExprText(v.Key)
						if v.Value != nil {
							hd += ", " + g.ExprText(v.Value)
						}
						hd += " := "
					}
					walkStmts(v.Body.List, with(hd+"range "+g.ExprText(v.X)))
				case *ast.ForStmt:
					cond := ""
					if v.Cond != nil {
						cond = g.ExprText(v.Cond)
					}
					walkStmts(v.Body.List, with("for "+cond))
				case *ast.BlockStmt:
					walkStmts(v.List, ctx)
				case *ast.AssignStmt:
					for i, r := range v.Rhs {
						if fl, ok := r.(*ast.FuncLit); ok && i < len(v.Lhs) {
							walkStmts(fl.Body.List, with("func "+g.ExprText(v.Lhs[i])))
						} else {
							scan(r, ctx)
						}
					}
				default:
					scan(st, ctx)
				}
			}
		}
		for _, d := range f.AST.Decls {
			if fd, ok := d.(*ast.FuncDecl); ok && fd.Body != nil {
				name := fd.Name.Name
				if fd.Recv != nil && len(fd.Recv.List) == 1 {
					name = strings.TrimPrefix(g.ExprText(fd.Recv.List[0].Type), "*") + "." + name
				}
				walkStmts(fd.Body.List, []string{filepath.Base(fn) + " " + name})
			}
		}
	}
	emit("signatureCacheWrites", "lib/crypto/*.go: every write of the process-wide SignatureCache (SignatureCache.Set, calls of CheckCache's addToCache callback) with everything enclosing it: file function / func literal / if-conditions / loops => call", cacheWrites)
	b.WriteString("end Canopy.Gen.Exec\n")
	return b.String(), nil
}

func dedupe(in []string) (out []string) {
	seen := map[string]bool{}
	for _, s := range in {
		if !seen[s] {
			seen[s] = true
			out = append(out, s)
		}
	}
	return
}

// noise: statements with no bearing on state (timing, metrics, logging).
func noise(t string) bool {
	for _, k := range []string{"time.Now()", "time.Since(", ".Metrics.", ".Metrics !=", "c.log.", "s.log.", "m.log.", "Duration"} {
		if strings.Contains(t, k) {
			return true
		}
	}
	return false
}

func stmtList(list []ast.Stmt) (out []string) {
	for _, st := range list {
		if t := g.StmtText(st); t != "" && !noise(t) {
			out = append(out, t)
		}
	}
	return
}

// callSeq lists, in source order, the calls of a body whose callee text is in want.
func callSeq(body *ast.BlockStmt, want []string) (out []string) {
	w := map[string]bool{}
	for _, s := range want {
		w[s] = true
	}
	ast.Inspect(body, func(n ast.Node) bool {
		if ce, ok := n.(*ast.CallExpr); ok {
			if t := g.ExprText(ce.Fun); w[t] {
				out = append(out, t)
			}
		}
		return true
	})
	return
}
