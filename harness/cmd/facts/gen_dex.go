package main

import (
	"crypto/sha256"
	"encoding/hex"
	"fmt"
	"go/ast"
	"go/constant"
	"go/token"
	"path/filepath"
	"strings"

	g "verifharness/gotolean"
)

// Dex.lean (C20): the AMM arithmetic of fsm/dex.go + lib/util.go rendered in Nat (big.Int is
// unbounded), the pool-id addends and batch limits as constants, and normalised-source facts of the
// order/DEX handlers whose hand model lives in lean/Canopy/Model/Dex.lean.
func init() { register("Dex", genDex) }

// bigFunc translates a straight-line math/big function over uint64 parameters:
//
//	v := new(big.Int).SetUint64(p) | new(big.Int).Mul/Add/Div/Sqrt(a[, b]) | big.NewInt(k)
//	recv.Add/Mul/Div(a, b)                       (receiver re-assigned)
//	if <uint64 cond> { return <literal> }        (guard)
//	return <bigexpr>.Uint64()
//
// into `def name (params : Nat) : Option Nat` where `none` is the run-time panic of big.Int.Div on
// a zero divisor and `.Uint64()` is `% 2^64` (low 64 bits, as math/big implements it). Anything else
// is an error naming the construct.
type bigTr struct {
	b strings.Builder
}

const two64 = "18446744073709551616"

func bigIdent(s string) string {
	switch s {
	case "by", "end", "from", "at", "fun", "open", "in", "then", "else", "do", "let", "have", "show", "where", "with", "match", "if":
		return s + "'"
	}
	return s
}

// bigExpr renders a *big.Int-valued expression; div is set to the divisor text when the top-level
// operation is Div (the caller emits the zero-divisor guard first).
func bigExpr(e ast.Expr, top bool) (txt string, div string, err error) {
	switch v := e.(type) {
	case *ast.Ident:
		return bigIdent(v.Name), "", nil
	case *ast.CallExpr:
		fn := g.ExprText(v.Fun)
		if fn == "big.NewInt" && len(v.Args) == 1 {
			if bl, ok := v.Args[0].(*ast.BasicLit); ok && bl.Kind == token.INT {
				return strings.ReplaceAll(bl.Value, "_", ""), "", nil
			}
			return "", "", fmt.Errorf("big.NewInt of a non-literal: %s", g.ExprText(e))
		}
		sel, ok := v.Fun.(*ast.SelectorExpr)
		if !ok {
			return "", "", fmt.Errorf("call %s outside the big.Int subset", fn)
		}
		recv := g.ExprText(sel.X)
		if recv != "new(big.Int)" {
			return "", "", fmt.Errorf("big.Int method on %s (only new(big.Int) receivers in expressions)", recv)
		}
		return bigOp(sel.Sel.Name, v.Args, top)
	}
	return "", "", fmt.Errorf("expression outside the big.Int subset: %s", g.ExprText(e))
}

func bigOp(op string, args []ast.Expr, top bool) (string, string, error) {
	var as []string
	for _, a := range args {
		x, _, err := bigExpr(a, false)
		if err != nil {
			// SetUint64 takes a uint64 parameter
			if id, ok := a.(*ast.Ident); ok {
				x = bigIdent(id.Name)
			} else {
				return "", "", err
			}
		}
		as = append(as, x)
	}
	switch {
	case op == "SetUint64" && len(as) == 1:
		return as[0], "", nil
	case op == "Mul" && len(as) == 2:
		return "(" + as[0] + " * " + as[1] + ")", "", nil
	case op == "Add" && len(as) == 2:
		return "(" + as[0] + " + " + as[1] + ")", "", nil
	case op == "Sqrt" && len(as) == 1:
		return "(Nat.sqrt " + as[0] + ")", "", nil
	case op == "Div" && len(as) == 2:
		if !top {
			return "", "", fmt.Errorf("nested big.Int Div (zero-divisor guard cannot be hoisted)")
		}
		return "(" + as[0] + " / " + as[1] + ")", as[1], nil
	}
	return "", "", fmt.Errorf("big.Int.%s/%d outside the subset (Sub/Neg/Mod would need Int)", op, len(as))
}

func bigFunc(fd *ast.FuncDecl) (string, error) {
	var b strings.Builder
	var params []string
	for _, p := range fd.Type.Params.List {
		if g.ExprText(p.Type) != "uint64" {
			return "", fmt.Errorf("%s: parameter type %s", fd.Name.Name, g.ExprText(p.Type))
		}
		for _, n := range p.Names {
			params = append(params, bigIdent(n.Name))
		}
	}
	if fd.Type.Results == nil || len(fd.Type.Results.List) != 1 || g.ExprText(fd.Type.Results.List[0].Type) != "uint64" {
		return "", fmt.Errorf("%s: result must be a single uint64", fd.Name.Name)
	}
	fmt.Fprintf(&b, "def %s (%s : Nat) : Option Nat :=\n", fd.Name.Name, strings.Join(params, " "))
	guard := func(d string) {
		fmt.Fprintf(&b, "  if %s = 0 then none else -- big.Int.Div panics on a zero divisor\n", d)
	}
	for i, s := range fd.Body.List {
		last := i == len(fd.Body.List)-1
		switch v := s.(type) {
		case *ast.IfStmt:
			// guard: if a == 0 { return k }
			be, ok := v.Cond.(*ast.BinaryExpr)
			if !ok || v.Init != nil || v.Else != nil || be.Op != token.EQL || len(v.Body.List) != 1 {
				return "", fmt.Errorf("%s: if statement outside subset: %s", fd.Name.Name, g.StmtText(s))
			}
			l, lok := be.X.(*ast.Ident)
			r, rok := be.Y.(*ast.BasicLit)
			ret, retok := v.Body.List[0].(*ast.ReturnStmt)
			if !lok || !rok || !retok || len(ret.Results) != 1 {
				return "", fmt.Errorf("%s: if statement outside subset: %s", fd.Name.Name, g.StmtText(s))
			}
			rl, ok := ret.Results[0].(*ast.BasicLit)
			if !ok {
				return "", fmt.Errorf("%s: guard returns a non-literal", fd.Name.Name)
			}
			fmt.Fprintf(&b, "  if %s = %s then some %s else\n", bigIdent(l.Name), r.Value, rl.Value)
		case *ast.AssignStmt:
			if len(v.Lhs) != 1 || len(v.Rhs) != 1 || v.Tok != token.DEFINE {
				return "", fmt.Errorf("%s: assignment outside subset: %s", fd.Name.Name, g.StmtText(s))
			}
			e, d, err := bigExpr(v.Rhs[0], true)
			if err != nil {
				return "", fmt.Errorf("%s: %v", fd.Name.Name, err)
			}
			if d != "" {
				guard(d)
			}
			fmt.Fprintf(&b, "  let %s := %s\n", bigIdent(g.ExprText(v.Lhs[0])), e)
		case *ast.ExprStmt:
			c, ok := v.X.(*ast.CallExpr)
			if !ok {
				return "", fmt.Errorf("%s: statement outside subset: %s", fd.Name.Name, g.StmtText(s))
			}
			sel, ok := c.Fun.(*ast.SelectorExpr)
			if !ok {
				return "", fmt.Errorf("%s: statement outside subset: %s", fd.Name.Name, g.StmtText(s))
			}
			recv, ok := sel.X.(*ast.Ident)
			if !ok {
				return "", fmt.Errorf("%s: statement outside subset: %s", fd.Name.Name, g.StmtText(s))
			}
			e, d, err := bigOp(sel.Sel.Name, c.Args, true)
			if err != nil {
				return "", fmt.Errorf("%s: %v", fd.Name.Name, err)
			}
			if d != "" {
				guard(d)
			}
			fmt.Fprintf(&b, "  let %s := %s\n", bigIdent(recv.Name), e)
		case *ast.ReturnStmt:
			if !last || len(v.Results) != 1 {
				return "", fmt.Errorf("%s: return outside subset: %s", fd.Name.Name, g.StmtText(s))
			}
			c, ok := v.Results[0].(*ast.CallExpr)
			if !ok {
				return "", fmt.Errorf("%s: return outside subset: %s", fd.Name.Name, g.StmtText(s))
			}
			sel, ok := c.Fun.(*ast.SelectorExpr)
			if !ok || sel.Sel.Name != "Uint64" || len(c.Args) != 0 {
				return "", fmt.Errorf("%s: return must be <big>.Uint64(): %s", fd.Name.Name, g.StmtText(s))
			}
			e, d, err := bigExpr(sel.X, true)
			if err != nil {
				return "", fmt.Errorf("%s: %v", fd.Name.Name, err)
			}
			if d != "" {
				guard(d)
			}
			fmt.Fprintf(&b, "  some (%s %% %s) -- (*big.Int).Uint64(): low 64 bits\n", e, two64)
		default:
			return "", fmt.Errorf("%s: statement outside subset: %s", fd.Name.Name, g.StmtText(s))
		}
	}
	return b.String(), nil
}

// constEval evaluates the small constant expressions used for the pool addends and batch limits.
func constEval(e ast.Expr, env map[string]constant.Value) (constant.Value, error) {
	switch v := e.(type) {
	case *ast.BasicLit:
		if v.Kind == token.INT {
			return constant.MakeFromLiteral(v.Value, token.INT, 0), nil
		}
	case *ast.ParenExpr:
		return constEval(v.X, env)
	case *ast.Ident:
		if c, ok := env[v.Name]; ok {
			return c, nil
		}
	case *ast.SelectorExpr:
		switch g.ExprText(v) {
		case "math.MaxUint16":
			return constant.MakeInt64(65535), nil
		}
	case *ast.CallExpr:
		if fn := g.ExprText(v.Fun); (fn == "uint64" || fn == "int") && len(v.Args) == 1 {
			return constEval(v.Args[0], env)
		}
	case *ast.BinaryExpr:
		x, err := constEval(v.X, env)
		if err != nil {
			return nil, err
		}
		y, err := constEval(v.Y, env)
		if err != nil {
			return nil, err
		}
		switch v.Op {
		case token.MUL, token.ADD, token.SUB:
			return constant.BinaryOp(x, v.Op, y), nil
		case token.QUO:
			return constant.BinaryOp(x, token.QUO_ASSIGN, y), nil // integer division
		}
	}
	return nil, fmt.Errorf("constant expression outside subset: %s", g.ExprText(e))
}

func declValues(f *g.File, names []string) (map[string]string, error) {
	env := map[string]constant.Value{}
	out := map[string]string{}
	for _, d := range f.AST.Decls {
		gd, ok := d.(*ast.GenDecl)
		if !ok || (gd.Tok != token.VAR && gd.Tok != token.CONST) {
			continue
		}
		for _, s := range gd.Specs {
			vs := s.(*ast.ValueSpec)
			for i, n := range vs.Names {
				if i >= len(vs.Values) {
					continue
				}
				if c, err := constEval(vs.Values[i], env); err == nil {
					env[n.Name] = c
				}
			}
		}
	}
	for _, n := range names {
		c, ok := env[n]
		if !ok {
			return nil, fmt.Errorf("constant %s not found or not evaluable", n)
		}
		out[n] = c.ExactString()
	}
	return out, nil
}

func genDex() (string, error) {
	var b strings.Builder
	b.WriteString("namespace Canopy.Gen.Dex\n\n")
	b.WriteString("/-! uint64 parameters are rendered as `Nat`; callers supply values `< 2^64` (they come from Go `uint64`s).\n`Option`: `none` is the run-time panic of `(*big.Int).Div` on a zero divisor. -/\n\n")
	util, err := g.ParseFile(filepath.Join(*repo, "lib/util.go"))
	if err != nil {
		return "", err
	}
	dex, err := g.ParseFile(filepath.Join(*repo, "fsm/dex.go"))
	if err != nil {
		return "", err
	}
	type fn struct {
		f    *g.File
		name string
	}
	for _, x := range []fn{{util, "SafeMulDiv"}, {util, "SqrtProductUint64"}, {dex, "SafeComputeDY"}} {
		fd := x.f.FindFunc("", x.name)
		if fd == nil {
			return "", fmt.Errorf("%s not found", x.name)
		}
		txt, err := bigFunc(fd)
		if err != nil {
			return "", err
		}
		b.WriteString(txt + "\n")
	}
	// constants
	key, err := g.ParseFile(filepath.Join(*repo, "fsm/key.go"))
	if err != nil {
		return "", err
	}
	cert, err := g.ParseFile(filepath.Join(*repo, "lib/certificate.go"))
	if err != nil {
		return "", err
	}
	ks := []string{"MaxChainId", "HoldingPoolAddend", "LiquidityPoolAddend", "EscrowPoolAddend"}
	kv, err := declValues(key, ks)
	if err != nil {
		return "", err
	}
	for _, n := range ks {
		fmt.Fprintf(&b, "def %s : Nat := %s\n", n, kv[n])
	}
	cfgf, err := g.ParseFile(filepath.Join(*repo, "lib/config.go"))
	if err != nil {
		return "", err
	}
	rs := []string{"UnknownChainId", "DAOPoolID"}
	rv, err := declValues(cfgf, rs)
	if err != nil {
		return "", err
	}
	for _, n := range rs {
		fmt.Fprintf(&b, "def %s : Nat := %s\n", n, rv[n])
	}
	cs := []string{"MaxDepositsPerDexBatch", "MaxWithdrawsPerDexBatch", "MaxOrdersPerDexBatch", "MaxLiquidityProviders", "MaxOrdersSettledPerBlock"}
	cv, err := declValues(cert, cs)
	if err != nil {
		return "", err
	}
	for _, n := range cs {
		fmt.Fprintf(&b, "def %s : Nat := %s\n", n, cv[n])
	}
	b.WriteString("\n")
	// normalised-source facts: small arithmetic functions verbatim, handlers by digest
	type sf struct {
		path, recv, name string
		verbatim         bool
	}
	files := map[string]*g.File{"lib/util.go": util, "fsm/dex.go": dex}
	var digests []string
	for _, s := range []sf{
		{"lib/util.go", "", "AddUint64", true},
		{"fsm/dex.go", "", "liquidityDepositPoints", true},
		{"fsm/swap.go", "StateMachine", "HandleCommitteeSwaps", false},
		{"fsm/swap.go", "StateMachine", "LockOrder", false},
		{"fsm/swap.go", "StateMachine", "ResetOrder", false},
		{"fsm/swap.go", "StateMachine", "CloseOrder", false},
		{"fsm/message.go", "StateMachine", "HandleMessageCreateOrder", false},
		{"fsm/message.go", "StateMachine", "HandleMessageEditOrder", false},
		{"fsm/message.go", "StateMachine", "HandleMessageDeleteOrder", false},
		{"fsm/message.go", "StateMachine", "HandleMessageDexLimitOrder", false},
		{"fsm/message.go", "StateMachine", "HandleMessageDexLiquidityDeposit", false},
		{"fsm/message.go", "StateMachine", "HandleMessageDexLiquidityWithdraw", false},
		{"fsm/account.go", "StateMachine", "PoolAdd", false},
		{"fsm/account.go", "StateMachine", "PoolSub", false},
		{"fsm/account.go", "StateMachine", "SetPool", false},
		{"fsm/account.go", "StateMachine", "AccountAdd", false},
		{"fsm/account.go", "StateMachine", "AccountSub", false},
		{"fsm/account.go", "Pool", "AddPoints", false},
		{"fsm/account.go", "Pool", "GetPointsFor", false},
		{"fsm/dex.go", "StateMachine", "HandleDexBatch", false},
		{"fsm/dex.go", "StateMachine", "HandleRemoteDexBatch", false},
		{"fsm/dex.go", "StateMachine", "HandleReceiptsForOurLockedBatch", false},
		{"fsm/dex.go", "StateMachine", "HandleRemoteChainLockedBatch", false},
		{"fsm/dex.go", "StateMachine", "HandleOrderReceipts", false},
		{"fsm/dex.go", "StateMachine", "HandleDexBatchOrders", false},
		{"fsm/dex.go", "StateMachine", "handleBatchWithdraw", false},
		{"fsm/dex.go", "StateMachine", "handleBatchDeposit", false},
		{"fsm/dex.go", "StateMachine", "handleCappedBatchDeposit", false},
		{"fsm/dex.go", "StateMachine", "RotateDexBatches", false},
		{"fsm/dex.go", "StateMachine", "IncludeSameBlockDex", false},
		{"fsm/dex.go", "StateMachine", "HandleLivenessFallback", false},
		{"fsm/dex.go", "StateMachine", "GetDexBatch", false},
		{"lib/dex.go", "DexBatch", "Hash", false},
		{"lib/dex.go", "DexBatch", "Copy", false},
		{"lib/dex.go", "DexBatch", "IsEmpty", false},
		{"lib/dex.go", "DexBatch", "CopyOrders", false},
		{"lib/dex.go", "DexLimitOrderWithKey", "HashKey", true},
		{"fsm/message_helpers.go", "MessageSubsidy", "Check", true},
		{"fsm/message.go", "StateMachine", "HandleMessageSubsidy", true},
	} {
		f := files[s.path]
		if f == nil {
			if f, err = g.ParseFile(filepath.Join(*repo, s.path)); err != nil {
				return "", err
			}
			files[s.path] = f
		}
		fd := f.FindFunc(s.recv, s.name)
		if fd == nil {
			return "", fmt.Errorf("%s: %s.%s not found", s.path, s.recv, s.name)
		}
		src := g.StmtsText(fd.Body.List)
		if s.verbatim {
			nm := s.name
			if nm == "Check" {
				nm = s.recv + "_Check"
			}
			fmt.Fprintf(&b, "def src_%s : String := %q\n", nm, src)
		} else {
			h := sha256.Sum256([]byte(src))
			digests = append(digests, fmt.Sprintf("(%q, %q)", s.name, hex.EncodeToString(h[:8])))
		}
	}
	b.WriteString("\n/-- digest (first 8 bytes of SHA-256 of the comment-free, whitespace-normalised body) of every handler the\nhand model in `Canopy.Model.Dex` transcribes; `Canopy.C20.handlers_pinned` compares it with the digests the model was\nwritten against, so an edit to any of these bodies breaks an obligation until the model is re-read. -/\n")
	fmt.Fprintf(&b, "def handlerDigests : List (String × String) := [\n  %s]\n", strings.Join(digests, ",\n  "))
	b.WriteString("\nend Canopy.Gen.Dex\n")
	return b.String(), nil
}
