package main

import (
	"crypto/sha256"
	"encoding/hex"
	"fmt"
	"os"
	"path/filepath"
	"regexp"
	"strings"

	g "verifharness/gotolean"
)

func init() { register("LedgerFacts", genLedgerFacts) }

// genLedgerFacts (C04, C12): what the hand model `Canopy.Model.Ledger` takes from the source rather than
// from its author: the error identity (`module:code`) of every error constructor the model returns, the
// reserved ids / pool-id constants, and a digest of the body of every Go function the model
// transcribes (`Canopy.C04.handlers_pinned` compares them with the digests the model was written
// against, so an edit to one of these bodies breaks an obligation until the model is re-read).
func genLedgerFacts() (string, error) {
	var b strings.Builder
	b.WriteString("namespace Canopy.Gen.LedgerFacts\n\n")

	libErr, err := os.ReadFile(filepath.Join(*repo, "lib/error.go"))
	if err != nil {
		return "", err
	}
	fsmErr, err := os.ReadFile(filepath.Join(*repo, "fsm/error.go"))
	if err != nil {
		return "", err
	}
	codeRe := regexp.MustCompile(`(?m)^\s*(Code\w+)\s+ErrorCode\s*=\s*(\d+)`)
	modRe := regexp.MustCompile(`(?m)^\s*(\w+Module)\s+ErrorModule\s*=\s*"([^"]+)"`)
	// constant names are unique in package lib; the module is whatever the constructor passes
	modName := map[string]string{}
	for _, m := range modRe.FindAllSubmatch(libErr, -1) {
		modName[string(m[1])] = string(m[2])
	}
	codeNum := map[string]string{}
	for _, m := range codeRe.FindAllSubmatch(libErr, -1) {
		codeNum[string(m[1])] = string(m[2])
	}
	codeIn := func(module, code string) (string, bool) {
		n, ok := codeNum[code]
		_, okm := modName[module]
		return n, ok && okm
	}
	ctor := func(name string) (string, error) {
		re := regexp.MustCompile(`func ` + name + `\([^)]*\) (?:lib\.)?ErrorI \{\s*return (?:lib\.)?NewError\((?:lib\.)?(Code\w+), (?:lib\.)?(\w+Module)`)
		for _, src := range [][]byte{fsmErr, libErr} {
			if m := re.FindSubmatch(src); m != nil {
				num, ok := codeIn(string(m[2]), string(m[1]))
				if !ok {
					return "", fmt.Errorf("error code %s of %s not found in module %s", m[1], name, m[2])
				}
				return modName[string(m[2])] + ":" + num, nil
			}
		}
		return "", fmt.Errorf("error constructor %s not found", name)
	}
	for _, n := range []string{"ErrInsufficientFunds", "ErrInvalidAmount", "ErrInsufficientSupply", "ErrValidatorExists",
		"ErrValidatorNotExists", "ErrValidatorUnstaking", "ErrValidatorPaused", "ErrValidatorNotPaused",
		"ErrValidatorIsADelegate", "ErrStakeBelowMininum", "ErrUnauthorizedTx", "ErrTxFeeBelowStateLimit",
		"ErrInvalidNumCommittees", "ErrInvalidChainId", "ErrRejectProposal", "ErrNonSubsidizedCommittee",
		"ErrInvalidQCCommitteeHeight", "ErrInvalidQCRootChainHeight", "ErrInvalidDoubleSigner",
		"ErrInvalidDoubleSignHeights", "ErrInvalidPercentAllocation", "ErrInvalidParam", "ErrUnknownParam",
		"ErrUnknownParamSpace", "ErrInvalidArgument", "ErrInvalidBlockRange", "ErrInvalidAddress", "InvalidSellOrder", "ErrIncompatibleVesting", "ErrInvalidVesting"} {
		id, e := ctor(n)
		if e != nil {
			return "", e
		}
		lean := "err" + strings.TrimPrefix(n, "Err") // InvalidSellOrder has no Err prefix in the source
		if n == "ErrStakeBelowMininum" {
			lean = "errStakeBelowMinimum"
		}
		fmt.Fprintf(&b, "def %s : String := %q\n", lean, id)
	}

	// constants
	cfgSrc, err := os.ReadFile(filepath.Join(*repo, "lib/config.go"))
	if err != nil {
		return "", err
	}
	keySrc, err := os.ReadFile(filepath.Join(*repo, "fsm/key.go"))
	if err != nil {
		return "", err
	}
	if !regexp.MustCompile(`DAOPoolID\s*=\s*2\*math\.MaxUint16 \+ 1`).Match(cfgSrc) {
		return "", fmt.Errorf("lib/config.go: DAOPoolID is no longer 2*math.MaxUint16 + 1")
	}
	if !regexp.MustCompile(`UnknownChainId\s*=\s*uint64\(0\)`).Match(cfgSrc) {
		return "", fmt.Errorf("lib/config.go: UnknownChainId is no longer uint64(0)")
	}
	if !regexp.MustCompile(`MaxChainId\s*=\s*uint64\(math\.MaxUint16 / 4\)`).Match(keySrc) {
		return "", fmt.Errorf("fsm/key.go: MaxChainId is no longer math.MaxUint16 / 4")
	}
	if !regexp.MustCompile(`(?s)var ReservedIDs = \[\]uint64\{\s*lib\.UnknownChainId,\s*lib\.DAOPoolID,[^}]*\}`).Match(keySrc) {
		return "", fmt.Errorf("fsm/key.go: ReservedIDs is no longer {UnknownChainId, DAOPoolID}")
	}
	if !regexp.MustCompile(`EscrowPoolAddend\s*=\s*uint64\(4 \* math\.MaxUint16 / 4\)`).Match(keySrc) {
		return "", fmt.Errorf("fsm/key.go: EscrowPoolAddend is no longer 4 * math.MaxUint16 / 4")
	}
	b.WriteString("\ndef daoPoolId : Nat := 2 * 65535 + 1\ndef maxChainId : Nat := 65535 / 4\ndef reservedIds : List Nat := [0, daoPoolId]\ndef escrowPoolAddend : Nat := 4 * 65535 / 4\n")

	// digests of the transcribed function bodies
	type fn struct{ file, recv, name string }
	var digests []string
	for _, f := range []fn{
		{"fsm/account.go", "StateMachine", "SetAccount"}, {"fsm/account.go", "StateMachine", "SetAccounts"},
		{"fsm/account.go", "StateMachine", "AccountDeductFees"}, {"fsm/account.go", "StateMachine", "AccountAdd"},
		{"fsm/account.go", "StateMachine", "AccountSub"}, {"fsm/account.go", "StateMachine", "maybeFaucetTopUpForSendTx"},
		{"fsm/account.go", "StateMachine", "AccountVestedAmount"}, {"fsm/account.go", "StateMachine", "AccountLockedAmount"},
		{"fsm/account.go", "StateMachine", "AccountSpendableAmount"}, {"fsm/account.go", "StateMachine", "clearAccountVestingIfFullyVested"},
		{"fsm/account.go", "StateMachine", "ValidateAccountAddWithVesting"}, {"fsm/account.go", "StateMachine", "AccountAddWithVesting"},
		{"fsm/message_helpers.go", "MessageSend", "Check"}, {"fsm/message_helpers.go", "MessageSubsidy", "Check"},
		{"fsm/message_helpers.go", "", "checkChainId"},
		{"fsm/account.go", "StateMachine", "SetPool"}, {"fsm/account.go", "StateMachine", "SetPools"},
		{"fsm/account.go", "StateMachine", "MintToPool"}, {"fsm/account.go", "StateMachine", "MintToAccount"},
		{"fsm/account.go", "StateMachine", "PoolAdd"}, {"fsm/account.go", "StateMachine", "PoolSub"},
		{"fsm/account.go", "StateMachine", "AddToTotalSupply"}, {"fsm/account.go", "StateMachine", "AddToStakedSupply"},
		{"fsm/account.go", "StateMachine", "AddToDelegateSupply"}, {"fsm/account.go", "StateMachine", "SubFromTotalSupply"},
		{"fsm/account.go", "StateMachine", "SubFromStakedSupply"}, {"fsm/account.go", "StateMachine", "SubFromDelegateSupply"},
		{"fsm/account.go", "StateMachine", "addToSupplyPool"}, {"fsm/account.go", "StateMachine", "subFromSupplyPool"},
		{"fsm/account.go", "StateMachine", "executeOnSupplyPool"}, {"fsm/account.go", "", "FilterAndSortPool"},
		{"fsm/validator.go", "StateMachine", "SetValidators"}, {"fsm/validator.go", "StateMachine", "UpdateValidatorStake"},
		{"fsm/validator.go", "StateMachine", "DeleteValidator"}, {"fsm/validator.go", "StateMachine", "SetValidatorUnstaking"},
		{"fsm/validator.go", "StateMachine", "SetValidatorUnstakingIfBelowMinimum"},
		{"fsm/validator.go", "StateMachine", "DeleteFinishedUnstaking"}, {"fsm/validator.go", "StateMachine", "SetValidatorsPaused"},
		{"fsm/validator.go", "StateMachine", "SetValidatorPaused"}, {"fsm/validator.go", "StateMachine", "SetValidatorUnpaused"},
		{"fsm/validator.go", "StateMachine", "GetAuthorizedSignersForValidator"},
		{"fsm/committee.go", "StateMachine", "FundCommitteeRewardPools"}, {"fsm/committee.go", "StateMachine", "GetBlockMintStats"},
		{"fsm/committee.go", "StateMachine", "GetSubsidizedCommittees"}, {"fsm/committee.go", "StateMachine", "DistributeCommitteeRewards"},
		{"fsm/committee.go", "StateMachine", "DistributeCommitteeReward"}, {"fsm/committee.go", "StateMachine", "UpdateCommittees"},
		{"fsm/committee.go", "StateMachine", "SetCommittees"}, {"fsm/committee.go", "StateMachine", "DeleteCommittees"},
		{"fsm/committee.go", "StateMachine", "SetCommitteeMember"}, {"fsm/committee.go", "StateMachine", "DeleteCommitteeMember"},
		{"fsm/committee.go", "StateMachine", "UpdateDelegations"}, {"fsm/committee.go", "StateMachine", "SetDelegations"},
		{"fsm/committee.go", "StateMachine", "DeleteDelegations"}, {"fsm/committee.go", "StateMachine", "UpsertCommitteeData"},
		{"fsm/byzantine.go", "StateMachine", "HandleByzantine"}, {"fsm/byzantine.go", "StateMachine", "SlashAndResetNonSigners"},
		{"fsm/byzantine.go", "StateMachine", "IncrementNonSigners"}, {"fsm/byzantine.go", "StateMachine", "HandleDoubleSigners"},
		{"fsm/byzantine.go", "StateMachine", "ForceUnstakeValidator"}, {"fsm/byzantine.go", "StateMachine", "SlashValidators"},
		{"fsm/byzantine.go", "StateMachine", "SlashValidator"},
		{"fsm/message.go", "StateMachine", "HandleMessageSend"}, {"fsm/message.go", "StateMachine", "HandleMessageStake"},
		{"fsm/message.go", "StateMachine", "HandleMessageEditStake"}, {"fsm/message.go", "StateMachine", "HandleMessageUnstake"},
		{"fsm/message.go", "StateMachine", "HandleMessagePause"}, {"fsm/message.go", "StateMachine", "HandleMessageUnpause"},
		{"fsm/message.go", "StateMachine", "HandleMessageChangeParameter"}, {"fsm/message.go", "StateMachine", "HandleMessageDAOTransfer"},
		{"fsm/message.go", "StateMachine", "HandleMessageSubsidy"}, {"fsm/message.go", "StateMachine", "GetFeeForMessageName"},
		{"fsm/automatic.go", "StateMachine", "BeginBlock"}, {"fsm/automatic.go", "StateMachine", "EndBlock"},
		{"fsm/automatic.go", "StateMachine", "HandleCertificateResults"}, {"fsm/automatic.go", "StateMachine", "ForceUnstakeMaxPaused"},
		{"fsm/gov.go", "StateMachine", "ApproveProposal"}, {"fsm/gov.go", "StateMachine", "UpdateParam"},
		{"fsm/gov.go", "StateMachine", "ConformStateToParamUpdate"}, {"fsm/gov.go", "StateMachine", "IsFeatureEnabled"},
		{"fsm/gov_params.go", "ValidatorParams", "Check"}, {"fsm/gov.go", "StateMachine", "getParams"}, {"fsm/gov.go", "StateMachine", "setParams"},
		{"fsm/genesis.go", "StateMachine", "NewStateFromGenesis"}, {"fsm/swap.go", "StateMachine", "SetOrderBooks"}, {"fsm/genesis.go", "StateMachine", "ValidateGenesisState"},
		{"fsm/transaction.go", "StateMachine", "ApplyTransaction"},
		{"fsm/message_helpers.go", "", "checkCommittees"},
		{"lib/certificate.go", "CommitteeData", "Combine"}, {"lib/certificate.go", "CommitteeData", "addPercents"},
		{"lib/util.go", "", "Uint64PercentageDiv"}, {"lib/util.go", "", "Uint64ReducePercentage"}, {"lib/util.go", "", "SafeMulDiv"},
	} {
		pf, e := g.ParseFile(filepath.Join(*repo, f.file))
		if e != nil {
			return "", e
		}
		fd := pf.FindFunc(f.recv, f.name)
		if fd == nil || fd.Body == nil {
			return "", fmt.Errorf("%s: function %s.%s not found", f.file, f.recv, f.name)
		}
		h := sha256.Sum256([]byte(g.StmtsText(fd.Body.List)))
		digests = append(digests, fmt.Sprintf("(%q, %q)", strings.TrimPrefix(f.recv+"."+f.name, "."), hex.EncodeToString(h[:6])))
	}
	b.WriteString("\n/-- digest (first 6 bytes of SHA-256 of the comment-free, whitespace-normalised body) of every Go function the\nhand model `Canopy.Model.Ledger` transcribes -/\n")
	fmt.Fprintf(&b, "def handlerDigests : List (String × String) := [\n  %s]\n", strings.Join(digests, ",\n  "))
	// genesis de-duplication (C12 `genesis_dedup_pinned`, hypothesis of C04 `inv_genesis`): for each of the three record
	// lists `ValidateGenesisState` ranges over (and each validator's committee list), the key handed to a DeDuplicator and
	// the error returned on a repeat
	{
		pf, e := g.ParseFile(filepath.Join(*repo, "fsm/genesis.go"))
		if e != nil {
			return "", e
		}
		fd := pf.FindFunc("StateMachine", "ValidateGenesisState")
		if fd == nil || fd.Body == nil {
			return "", fmt.Errorf("fsm/genesis.go: ValidateGenesisState not found")
		}
		body := g.StmtsText(fd.Body.List)
		loopRe := regexp.MustCompile(`for _, (\w+) := range genesis\.(\w+) \{`)
		dupRe := regexp.MustCompile(`(?s)if found := \w+\.Found\((.*?)\); found \{\s*return (?:lib\.)?(\w+)\(\)`)
		locs := loopRe.FindAllStringSubmatchIndex(body, -1)
		var rows []string
		for i, l := range locs {
			list := body[l[4]:l[5]]
			if list != "Validators" && list != "Accounts" && list != "Pools" {
				continue
			}
			end := len(body)
			if i+1 < len(locs) {
				end = locs[i+1][0]
			}
			m := dupRe.FindStringSubmatch(body[l[1]:end])
			if m == nil {
				return "", fmt.Errorf("ValidateGenesisState: no duplicate rejection inside the loop over genesis.%s", list)
			}
			id, e := ctor(m[2])
			if e != nil {
				return "", e
			}
			rows = append(rows, fmt.Sprintf("(%q, %q, %q)", list, strings.Join(strings.Fields(m[1]), ""), id))
			if list == "Validators" {
				// the nested loop over the validator's own committee list (0262f16), inside the validator loop and after
				// the duplicate-validator rejection
				inner := body[l[1]:end]
				after := inner[strings.Index(inner, m[0])+len(m[0]):]
				nm := regexp.MustCompile(`(?s)for _, (\w+) := range ` + regexp.QuoteMeta(body[l[2]:l[3]]) + `\.Committees \{\s*if found := \w+\.Found\((\w+)\); found \{\s*return (?:lib\.)?(\w+)\(\)`).FindStringSubmatch(after)
				if nm == nil || nm[1] != nm[2] {
					return "", fmt.Errorf("ValidateGenesisState: no duplicate rejection over a validator's Committees after the duplicate-validator check")
				}
				cid, e := ctor(nm[3])
				if e != nil {
					return "", e
				}
				rows = append(rows, fmt.Sprintf("(%q, %q, %q)", "Validators[i].Committees", nm[2], cid))
			}
		}
		if len(rows) != 4 {
			return "", fmt.Errorf("ValidateGenesisState: expected de-duplication of Validators, Validators[i].Committees, Accounts, Pools, found %d", len(rows))
		}
		b.WriteString("\n/-- `ValidateGenesisState`: (list, key handed to the DeDuplicator, error identity returned on a repeated key) -/\n")
		fmt.Fprintf(&b, "def genesisDedup : List (String × String × String) := [\n  %s]\n", strings.Join(rows, ",\n  "))
	}
	// the order of the state-writing steps of NewStateFromGenesis (C04 `genesis_steps_pinned`): SetPools OVERWRITES a
	// pool, SetOrderBooks ADDS the open orders to the escrow pools, so the pools must be written first
	{
		pf, e := g.ParseFile(filepath.Join(*repo, "fsm/genesis.go"))
		if e != nil {
			return "", e
		}
		fd := pf.FindFunc("StateMachine", "NewStateFromGenesis")
		if fd == nil || fd.Body == nil {
			return "", fmt.Errorf("fsm/genesis.go: NewStateFromGenesis not found")
		}
		var steps []string
		for _, m := range regexp.MustCompile(`s\.(Set\w+)\(`).FindAllStringSubmatch(g.StmtsText(fd.Body.List), -1) {
			steps = append(steps, fmt.Sprintf("%q", m[1]))
		}
		b.WriteString("\n/-- the state-writing calls of `NewStateFromGenesis`, in source order -/\n")
		fmt.Fprintf(&b, "def genesisSteps : List String := [%s]\n", strings.Join(steps, ", "))
	}
	b.WriteString("\nend Canopy.Gen.LedgerFacts\n")
	return b.String(), nil
}
