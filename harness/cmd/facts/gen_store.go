package main

import (
	"fmt"
	"go/ast"
	"os"
	"path/filepath"
	"sort"
	"strings"

	g "verifharness/gotolean"
)

func init() { register("Store", genStore) }

// genStore extracts the structural facts the C09 atomicity theorem rests on: which constructors share
// the store's single pebble batch (`s.writer`), the call sequence of Store.Commit / Store.Flush, where a
// batch is applied to the database, and the order IndexQC / IndexBlock / Commit in the controller.
func genStore() (string, error) {
	var b strings.Builder
	b.WriteString("namespace Canopy.Gen.Store\n\n")
	sf, err := g.ParseFile(filepath.Join(*repo, "store/store.go"))
	if err != nil {
		return "", err
	}
	strList := func(xs []string) string {
		var q []string
		for _, x := range xs {
			q = append(q, fmt.Sprintf("%q", x))
		}
		return "[" + strings.Join(q, ", ") + "]"
	}
	pairList := func(xs [][2]string) string {
		var q []string
		for _, x := range xs {
			q = append(q, fmt.Sprintf("(%q, %q)", x[0], x[1]))
		}
		return "[" + strings.Join(q, ", ") + "]"
	}
	// calls in source order
	calls := func(fd *ast.FuncDecl) (out []*ast.CallExpr) {
		ast.Inspect(fd.Body, func(n ast.Node) bool {
			if c, ok := n.(*ast.CallExpr); ok {
				out = append(out, c)
			}
			return true
		})
		sort.SliceStable(out, func(i, j int) bool { return out[i].Pos() < out[j].Pos() })
		return
	}
	need := func(recv, name string) (*ast.FuncDecl, error) {
		fd := sf.FindFunc(recv, name)
		if fd == nil || fd.Body == nil {
			return nil, fmt.Errorf("store/store.go: %s.%s not found", recv, name)
		}
		return fd, nil
	}
	// 1. constructors: the batch variable, the writers handed to NewVersionedStore, the Store literal's writer
	for _, fn := range []struct{ recv, name string }{{"", "NewStoreWithDB"}, {"Store", "Reset"}} {
		fd, err := need(fn.recv, fn.name)
		if err != nil {
			return "", err
		}
		var batchVars, vsWriters, txnWriters, assigned []string
		var vsVars [][2]string
		ast.Inspect(fd.Body, func(n ast.Node) bool {
			switch v := n.(type) {
			case *ast.AssignStmt:
				if len(v.Lhs) == 1 && len(v.Rhs) == 1 {
					if c, ok := v.Rhs[0].(*ast.CallExpr); ok && g.ExprText(c.Fun) == "NewVersionedStore" && len(c.Args) == 3 {
						vsVars = append(vsVars, [2]string{g.ExprText(v.Lhs[0]), g.ExprText(c.Args[1])})
					}
					if c, ok := v.Rhs[0].(*ast.CallExpr); ok && strings.HasSuffix(g.ExprText(c.Fun), ".NewBatch") {
						batchVars = append(batchVars, g.ExprText(v.Lhs[0]))
					}
					if g.ExprText(v.Lhs[0]) == "s.writer" {
						assigned = append(assigned, g.ExprText(v.Rhs[0]))
					}
				}
			case *ast.KeyValueExpr:
				if g.ExprText(v.Key) == "writer" {
					assigned = append(assigned, g.ExprText(v.Value))
				}
			case *ast.CallExpr:
				switch g.ExprText(v.Fun) {
				case "NewVersionedStore":
					if len(v.Args) == 3 {
						vsWriters = append(vsWriters, g.ExprText(v.Args[1]))
					}
				case "NewTxn":
					if len(v.Args) >= 2 {
						txnWriters = append(txnWriters, g.ExprText(v.Args[1]))
					}
				}
			}
			return true
		})
		fmt.Fprintf(&b, "/-- `%s`: variables assigned from `db.NewBatch()` -/\ndef %s_batchVars : List String := %s\n", fn.name, fn.name, strList(batchVars))
		fmt.Fprintf(&b, "/-- `%s`: the batch argument of every `NewVersionedStore(reader, batch, version)` -/\ndef %s_versionedStoreBatches : List String := %s\n", fn.name, fn.name, strList(vsWriters))
		fmt.Fprintf(&b, "/-- `%s`: `(variable, batch)` of every `v := NewVersionedStore(reader, batch, version)` -/\ndef %s_versionedStoreVars : List (String × String) := %s\n", fn.name, fn.name, pairList(vsVars))
		fmt.Fprintf(&b, "/-- `%s`: the writer argument of every `NewTxn(reader, writer, …)` -/\ndef %s_txnWriters : List String := %s\n", fn.name, fn.name, strList(txnWriters))
		fmt.Fprintf(&b, "/-- `%s`: what is stored into `Store.writer` -/\ndef %s_storeWriter : List String := %s\n\n", fn.name, fn.name, strList(assigned))
	}
	// struct fields of Store / Indexer relevant to Flush
	var fields [][2]string
	for _, file := range []string{"store/store.go", "store/indexer.go"} {
		pf, err := g.ParseFile(filepath.Join(*repo, file))
		if err != nil {
			return "", err
		}
		for _, d := range pf.AST.Decls {
			gd, ok := d.(*ast.GenDecl)
			if !ok {
				continue
			}
			for _, sp := range gd.Specs {
				ts, ok := sp.(*ast.TypeSpec)
				if !ok || (ts.Name.Name != "Store" && ts.Name.Name != "Indexer") {
					continue
				}
				st, ok := ts.Type.(*ast.StructType)
				if !ok {
					continue
				}
				for _, fl := range st.Fields.List {
					ty := g.ExprText(fl.Type)
					if len(fl.Names) == 0 {
						fields = append(fields, [2]string{ts.Name.Name + ".(embedded)", ty})
					}
					for _, n := range fl.Names {
						if n.Name == "ss" || n.Name == "db" || n.Name == "writer" || n.Name == "sc" {
							fields = append(fields, [2]string{ts.Name.Name + "." + n.Name, ty})
						}
					}
				}
			}
		}
	}
	fmt.Fprintf(&b, "/-- field types of `Store` / `Indexer` that `Flush` commits -/\ndef fieldTypes : List (String × String) := %s\n\n", pairList(fields))
	// 2. Commit: the call sequence, and the db.Apply calls with their arguments
	fd, err := need("Store", "Commit")
	if err != nil {
		return "", err
	}
	var seq []string
	var applies [][2]string
	for _, c := range calls(fd) {
		f := g.ExprText(c.Fun)
		if strings.HasPrefix(f, "s.") && !strings.HasPrefix(f, "s.mu.") && !strings.HasPrefix(f, "s.metrics.") {
			seq = append(seq, f)
		}
		if strings.HasSuffix(f, ".Apply") && len(c.Args) == 2 {
			applies = append(applies, [2]string{g.ExprText(c.Args[0]), g.ExprText(c.Args[1])})
		}
	}
	fmt.Fprintf(&b, "/-- `Store.Commit`: calls on the store, in source order -/\ndef commitCalls : List String := %s\n", strList(seq))
	fmt.Fprintf(&b, "/-- `Store.Commit`: every `db.Apply(batch, opts)` -/\ndef commitApplies : List (String × String) := %s\n\n", pairList(applies))
	// 3. Flush: what is flushed into the batch
	fd, err = need("Store", "Flush")
	if err != nil {
		return "", err
	}
	seq = nil
	for _, c := range calls(fd) {
		f := g.ExprText(c.Fun)
		if strings.HasSuffix(f, ".Commit") {
			seq = append(seq, f)
		}
	}
	fmt.Fprintf(&b, "/-- `Store.Flush`: the transactions committed into the shared batch, in order -/\ndef flushCommits : List String := %s\n", strList(seq))
	// the shape of Flush at statement level: each top-level statement is `if <guard> { if e := X.Commit(); e != nil
	// { return Err } }`, `if e := X.Commit(); e != nil { return Err }` (guard ""), or the final `return nil`; anything
	// else (an early success return, a branch on the kind of store) is recorded as such
	var flushShape [][2]string
	var commitOf func(st ast.Stmt) string
	commitOf = func(st ast.Stmt) string {
		is, ok := st.(*ast.IfStmt)
		if !ok || is.Init == nil || is.Else != nil || len(is.Body.List) != 1 {
			return ""
		}
		as, ok := is.Init.(*ast.AssignStmt)
		if !ok || len(as.Rhs) != 1 {
			return ""
		}
		call, ok := as.Rhs[0].(*ast.CallExpr)
		if !ok || !strings.HasSuffix(g.ExprText(call.Fun), ".Commit") {
			return ""
		}
		r, ok := is.Body.List[0].(*ast.ReturnStmt)
		if !ok || len(r.Results) != 1 || g.ExprText(r.Results[0]) == "nil" {
			return ""
		}
		return g.ExprText(call.Fun)
	}
	for _, st := range fd.Body.List {
		if c := commitOf(st); c != "" {
			flushShape = append(flushShape, [2]string{"", c})
			continue
		}
		if is, ok := st.(*ast.IfStmt); ok && is.Init == nil && is.Else == nil && len(is.Body.List) == 1 {
			if c := commitOf(is.Body.List[0]); c != "" {
				flushShape = append(flushShape, [2]string{g.ExprText(is.Cond), c})
				continue
			}
		}
		if r, ok := st.(*ast.ReturnStmt); ok && len(r.Results) == 1 && g.ExprText(r.Results[0]) == "nil" {
			flushShape = append(flushShape, [2]string{"", "return nil"})
			continue
		}
		flushShape = append(flushShape, [2]string{"other", fmt.Sprintf("%T", st)})
	}
	fmt.Fprintf(&b, "/-- `Store.Flush`, statement by statement: (guard, transaction committed into the parent/batch); no other statements -/\ndef flushShape : List (String × String) := %s\n\n", pairList(flushShape))
	// 4. Root: the SMT's transaction
	fd, err = need("Store", "Root")
	if err != nil {
		return "", err
	}
	var rootTxn []string
	for _, c := range calls(fd) {
		if g.ExprText(c.Fun) == "NewTxn" && len(c.Args) >= 2 {
			rootTxn = append(rootTxn, g.ExprText(c.Args[0]), g.ExprText(c.Args[1]))
		}
	}
	fmt.Fprintf(&b, "/-- `Store.Root`: reader and writer of the SMT's `NewTxn` -/\ndef rootTxnReaderWriter : List String := %s\n", strList(rootTxn))
	// 5. setCommitID / purgeLssTombstones: where they write
	fd, err = need("Store", "setCommitID")
	if err != nil {
		return "", err
	}
	var cid []string
	var cidSets []string
	// the version each local VersionedStore is bound to: `v := NewVersionedStore(reader, batch, version)`
	bound := map[string]string{}
	ast.Inspect(fd.Body, func(n ast.Node) bool {
		if as, ok := n.(*ast.AssignStmt); ok && len(as.Lhs) == 1 && len(as.Rhs) == 1 {
			if c, ok := as.Rhs[0].(*ast.CallExpr); ok && g.ExprText(c.Fun) == "NewVersionedStore" && len(c.Args) == 3 {
				bound[g.ExprText(as.Lhs[0])] = g.ExprText(c.Args[2])
			}
		}
		return true
	})
	for _, c := range calls(fd) {
		f := g.ExprText(c.Fun)
		if f == "NewVersionedStore" && len(c.Args) == 3 {
			cid = append(cid, g.ExprText(c.Args[1]))
		}
		// SetAt(key, value, version): explicit version; Set(key, value): the version the store is bound to
		if strings.HasSuffix(f, ".SetAt") && len(c.Args) == 3 {
			cidSets = append(cidSets, g.ExprText(c.Args[0])+"@"+g.ExprText(c.Args[2]))
		}
		if strings.HasSuffix(f, ".Set") && len(c.Args) == 2 {
			recv := strings.TrimSuffix(f, ".Set")
			v, ok := bound[recv]
			if !ok {
				v = "?"
			}
			cidSets = append(cidSets, g.ExprText(c.Args[0])+"@"+v)
		}
	}
	fmt.Fprintf(&b, "/-- `Store.setCommitID`: the batch of its `NewVersionedStore` -/\ndef setCommitIDBatches : List String := %s\n", strList(cid))
	fmt.Fprintf(&b, "/-- `Store.setCommitID`: `key@version` of every write (`SetAt`: its version argument; `Set`: the version its store is bound to) -/\ndef setCommitIDWrites : List String := %s\n", strList(cidSets))
	// Rollback: where it re-points the latest commit id
	fdr, err := need("Store", "Rollback")
	if err != nil {
		return "", err
	}
	var rb []string
	for _, c := range calls(fdr) {
		f := g.ExprText(c.Fun)
		if strings.HasSuffix(f, ".SetAt") && len(c.Args) == 3 && g.ExprText(c.Args[0]) == "lastCommitIDPrefix" {
			rb = append(rb, g.ExprText(c.Args[0])+"@"+g.ExprText(c.Args[2]))
		}
	}
	fmt.Fprintf(&b, "/-- `Store.Rollback`: `key@version` of its write of the latest commit id -/\ndef rollbackPointerWrites : List String := %s\n", strList(rb))
	// getLatestCommitID: the version of the reader it looks the pointer up with
	var glc []string
	for _, d := range sf.AST.Decls {
		if fdd, ok := d.(*ast.FuncDecl); ok && fdd.Name.Name == "getLatestCommitID" && fdd.Body != nil {
			for _, c := range calls(fdd) {
				if g.ExprText(c.Fun) == "NewVersionedStore" && len(c.Args) == 3 {
					glc = append(glc, g.ExprText(c.Args[2]))
				}
				if strings.HasSuffix(g.ExprText(c.Fun), ".Get") && len(c.Args) == 1 {
					glc = append(glc, "Get("+g.ExprText(c.Args[0])+")")
				}
			}
		}
	}
	fmt.Fprintf(&b, "/-- `getLatestCommitID`: reader version and the key it reads -/\ndef latestCommitIDRead : List String := %s\n", strList(glc))
	fd, err = need("Store", "purgeLssTombstones")
	if err != nil {
		return "", err
	}
	var purge []string
	for _, c := range calls(fd) {
		f := g.ExprText(c.Fun)
		if strings.HasSuffix(f, ".Delete") || strings.HasSuffix(f, ".Set") {
			purge = append(purge, f)
		}
	}
	fmt.Fprintf(&b, "/-- `Store.purgeLssTombstones`: the writes it issues -/\ndef purgeWrites : List String := %s\n\n", strList(purge))
	// 6. every place in package store (non-test) where a batch reaches the database
	ents, err := os.ReadDir(filepath.Join(*repo, "store"))
	if err != nil {
		return "", err
	}
	var sites [][2]string
	var vsCommitCallers []string
	for _, e := range ents {
		if !strings.HasSuffix(e.Name(), ".go") || strings.HasSuffix(e.Name(), "_test.go") || strings.HasPrefix(e.Name(), "verif_hooks") {
			continue
		}
		pf, err := g.ParseFile(filepath.Join(*repo, "store", e.Name()))
		if err != nil {
			return "", err
		}
		for _, d := range pf.AST.Decls {
			fdd, ok := d.(*ast.FuncDecl)
			if !ok || fdd.Body == nil {
				continue
			}
			name := fdd.Name.Name
			if fdd.Recv != nil && len(fdd.Recv.List) == 1 {
				name = strings.TrimPrefix(g.ExprText(fdd.Recv.List[0].Type), "*") + "." + name
			}
			ast.Inspect(fdd.Body, func(n ast.Node) bool {
				c, ok := n.(*ast.CallExpr)
				if !ok {
					return true
				}
				f := g.ExprText(c.Fun)
				if strings.HasSuffix(f, ".Apply") && len(c.Args) == 2 {
					sites = append(sites, [2]string{name, f + "(" + g.ExprText(c.Args[0]) + ", " + g.ExprText(c.Args[1]) + ")"})
				}
				if strings.HasSuffix(f, ".Commit") && len(c.Args) == 1 && strings.Contains(g.ExprText(c.Args[0]), "WriteOptions") {
					sites = append(sites, [2]string{name, f + "(" + g.ExprText(c.Args[0]) + ")"})
				}
				return true
			})
		}
	}
	sort.Slice(sites, func(i, j int) bool { return sites[i][0]+sites[i][1] < sites[j][0]+sites[j][1] })
	_ = vsCommitCallers
	fmt.Fprintf(&b, "/-- package `store` (non-test): every `db.Apply(batch, …)` and `batch.Commit(&pebble.WriteOptions…)`, as `(function, call)` -/\ndef applySites : List (String × String) := %s\n\n", pairList(sites))
	// 7. the controller: IndexQC, IndexBlock before Commit, on the same store value
	cf, err := g.ParseFile(filepath.Join(*repo, "controller/block.go"))
	if err != nil {
		return "", err
	}
	var ctrl [][2]string
	for _, d := range cf.AST.Decls {
		fdd, ok := d.(*ast.FuncDecl)
		if !ok || fdd.Body == nil {
			continue
		}
		var local []string
		hasCommit := false
		for _, c := range calls(fdd) {
			f := g.ExprText(c.Fun)
			for _, m := range []string{"IndexQC", "IndexBlock", "Commit"} {
				if strings.HasSuffix(f, "."+m) && !strings.Contains(f, "FSM") {
					local = append(local, f)
					if m == "Commit" {
						hasCommit = true
					}
				}
			}
		}
		if hasCommit {
			for _, l := range local {
				ctrl = append(ctrl, [2]string{fdd.Name.Name, l})
			}
		}
	}
	fmt.Fprintf(&b, "/-- `controller/block.go`: the store calls `IndexQC` / `IndexBlock` / `Commit` in source order, per function -/\ndef controllerCommitPath : List (String × String) := %s\n\n", pairList(ctrl))
	// 8. the process-wide block cache of store/indexer.go: its key type, and in every reader the order of
	//    the view lookup (t.db.Get(heightKey)), the cache calls and getBlock
	ipath := filepath.Join(*repo, "store/indexer.go")
	isrc, err := os.ReadFile(ipath)
	if err != nil {
		return "", err
	}
	ifile, err := g.ParseFile(ipath)
	if err != nil {
		return "", err
	}
	text := func(n ast.Node) string {
		return strings.Join(strings.Fields(string(isrc[ifile.Fset.Position(n.Pos()).Offset:ifile.Fset.Position(n.End()).Offset])), " ")
	}
	cacheDecl := ""
	for _, d := range ifile.AST.Decls {
		gd, ok := d.(*ast.GenDecl)
		if !ok {
			continue
		}
		for _, sp := range gd.Specs {
			vs, ok := sp.(*ast.ValueSpec)
			if !ok || len(vs.Names) == 0 || vs.Names[0].Name != "blockCache" || len(vs.Values) == 0 {
				continue
			}
			cacheDecl = text(vs.Values[0])
		}
	}
	if cacheDecl == "" {
		return "", fmt.Errorf("store/indexer.go: blockCache declaration not found")
	}
	fmt.Fprintf(&b, "/-- `store/indexer.go`: how the process-wide block cache is created (key type!) -/\ndef blockCacheDecl : String := %q\n", cacheDecl)
	var cacheUse [][2]string
	for _, fn := range []string{"IndexBlock", "GetBlockByHeight", "GetBlockHeaderByHeight", "getBlockForPage", "DeleteBlockForHeight", "GetBlockByHash", "GetQCByHeight", "GetBlocks", "setBlocksTook"} {
		fd := ifile.FindFunc("Indexer", fn)
		if fd == nil || fd.Body == nil {
			return "", fmt.Errorf("store/indexer.go: Indexer.%s not found", fn)
		}
		for _, c := range calls(fd) {
			f := g.ExprText(c.Fun)
			if strings.HasPrefix(f, "blockCache.") || f == "t.db.Get" || f == "t.getBlock" || f == "t.GetBlockByHeight" || f == "t.getBlockForPage" {
				cacheUse = append(cacheUse, [2]string{fn, text(c)})
			}
		}
	}
	// the guards (enclosing if-conditions, outermost first) of every blockCache.Add in GetBlockByHeight,
	// and what hasPendingWrites returns
	var guards []string
	if fd := ifile.FindFunc("Indexer", "GetBlockByHeight"); fd != nil {
		var stack []string
		var walk func(n ast.Node)
		walk = func(n ast.Node) {
			switch v := n.(type) {
			case *ast.IfStmt:
				if v.Init != nil {
					walk(v.Init)
				}
				stack = append(stack, text(v.Cond))
				walk(v.Body)
				stack = stack[:len(stack)-1]
				if v.Else != nil {
					stack = append(stack, "!("+text(v.Cond)+")")
					walk(v.Else)
					stack = stack[:len(stack)-1]
				}
				return
			case *ast.CallExpr:
				if g.ExprText(v.Fun) == "blockCache.Add" {
					guards = append(guards, strings.Join(stack, " && "))
				}
			}
			if n == nil {
				return
			}
			ast.Inspect(n, func(c ast.Node) bool {
				if c == n || c == nil {
					return true
				}
				walk(c)
				return false
			})
		}
		walk(fd.Body)
	}
	fmt.Fprintf(&b, "/-- `GetBlockByHeight`: the enclosing conditions of each `blockCache.Add` -/\ndef blockCacheAddGuards : List String := %s\n", strList(guards))
	pending := ""
	if fd := ifile.FindFunc("Indexer", "hasPendingWrites"); fd != nil && fd.Body != nil {
		for _, st := range fd.Body.List {
			if r, ok := st.(*ast.ReturnStmt); ok && len(r.Results) == 1 {
				pending = text(r.Results[0])
			}
		}
	}
	fmt.Fprintf(&b, "/-- what `Indexer.hasPendingWrites` returns -/\ndef hasPendingWritesReturns : String := %q\n", pending)
	fmt.Fprintf(&b, "/-- per function, in source order: the view lookups `t.db.Get(…)`, the cache calls `blockCache.*(…)`, `t.getBlock(…)` -/\ndef blockCacheUse : List (String × String) := %s\n\n", pairList(cacheUse))
	// 8b. every construction site of an indexer Txn in store/store.go: the `sort` argument (5th) of
	//     NewTxn(reader, writer, prefix, state, sort, seek, version...) — only a Txn built with sort=true keeps its
	//     pending operations in the sorted tree its iterators merge with the parent's
	var idxSort [][2]string
	for _, d := range sf.AST.Decls {
		fd, ok := d.(*ast.FuncDecl)
		if !ok || fd.Body == nil {
			continue
		}
		for _, c := range calls(fd) {
			if g.ExprText(c.Fun) != "NewTxn" || len(c.Args) < 6 {
				continue
			}
			if g.ExprText(c.Args[2]) == "indexerPrefix" || g.ExprText(c.Args[0]) == "s.Indexer.db" {
				idxSort = append(idxSort, [2]string{fd.Name.Name, g.ExprText(c.Args[4])})
			}
		}
	}
	fmt.Fprintf(&b, "/-- `store/store.go`: (function, `sort` argument) of every `NewTxn` that builds an indexer transaction -/\ndef indexerTxnSort : List (String × String) := %s\n\n", pairList(idxSort))
	// 9. the block-property collector of store/versioned_store.go: which point keys contribute no version
	//    interval to their sstable block/table (historical readers skip blocks whose interval misses their window)
	vpath := filepath.Join(*repo, "store/versioned_store.go")
	vsrc, err := os.ReadFile(vpath)
	if err != nil {
		return "", err
	}
	vfile, err := g.ParseFile(vpath)
	if err != nil {
		return "", err
	}
	vtext := func(n ast.Node) string {
		return strings.Join(strings.Fields(string(vsrc[vfile.Fset.Position(n.Pos()).Offset:vfile.Fset.Position(n.End()).Offset])), " ")
	}
	mpk := vfile.FindFunc("versionedCollector", "MapPointKey")
	if mpk == nil || mpk.Body == nil {
		return "", fmt.Errorf("store/versioned_store.go: versionedCollector.MapPointKey not found")
	}
	var ignores, shape []string
	interval := ""
	for _, st := range mpk.Body.List {
		switch v := st.(type) {
		case *ast.IfStmt:
			empty := v.Init == nil && v.Else == nil && len(v.Body.List) == 1
			if empty {
				r, ok := v.Body.List[0].(*ast.ReturnStmt)
				empty = ok && len(r.Results) == 2 && vtext(r.Results[0]) == "sstable.BlockInterval{}" && vtext(r.Results[1]) == "nil"
			}
			if !empty {
				return "", fmt.Errorf("store/versioned_store.go: MapPointKey has an if-statement that is not `if c { return sstable.BlockInterval{}, nil }`")
			}
			ignores = append(ignores, vtext(v.Cond))
			shape = append(shape, "ignore-if")
		case *ast.AssignStmt:
			shape = append(shape, vtext(v))
		case *ast.ReturnStmt:
			if len(v.Results) == 2 {
				interval = vtext(v.Results[0])
			}
			shape = append(shape, "return")
		default:
			shape = append(shape, "other: "+vtext(st))
		}
	}
	fmt.Fprintf(&b, "/-- `versionedCollector.MapPointKey`: the conditions under which a point key contributes the EMPTY interval -/\ndef mapPointKeyIgnores : List String := %s\n", strList(ignores))
	fmt.Fprintf(&b, "/-- its statements in order (assignments verbatim) -/\ndef mapPointKeyShape : List String := %s\n", strList(shape))
	fmt.Fprintf(&b, "/-- the interval every other point key contributes -/\ndef mapPointKeyInterval : String := %q\n", interval)
	var filters [][2]string
	for _, file := range []string{"store/store.go", "store/versioned_store.go"} {
		src, err := os.ReadFile(filepath.Join(*repo, file))
		if err != nil {
			return "", err
		}
		pf, err := g.ParseFile(filepath.Join(*repo, file))
		if err != nil {
			return "", err
		}
		ast.Inspect(pf.AST, func(n ast.Node) bool {
			if c, ok := n.(*ast.CallExpr); ok && (g.ExprText(c.Fun) == "newTargetWindowFilter" || g.ExprText(c.Fun) == "sstable.NewBlockIntervalFilter") {
				filters = append(filters, [2]string{file, strings.Join(strings.Fields(string(src[pf.Fset.Position(c.Pos()).Offset:pf.Fset.Position(c.End()).Offset])), " ")})
			}
			return true
		})
	}
	fmt.Fprintf(&b, "/-- the version-window filters readers install, and how the window becomes an interval -/\ndef versionWindowFilters : List (String × String) := %s\n\n", pairList(filters))
	b.WriteString("end Canopy.Gen.Store\n")
	return b.String(), nil
}
