package main

import (
	"fmt"
	"go/ast"
	"go/token"
	"os"
	"path/filepath"
	"regexp"
	"sort"
	"strconv"
	"strings"

	g "verifharness/gotolean"
)

func init() { register("Proto", genProto) }

// ---- .proto reader (the subset used by lib/.proto: proto3, messages, enums, oneof, map) ----

type protoField struct {
	num   int
	name  string
	ty    string
	label string // "", "repeated", "optional", "oneof", "map"
}

type protoMsg struct {
	file   string
	name   string
	fields []protoField
}

var (
	reBlockComment = regexp.MustCompile(`(?s)/\*.*?\*/`)
	reLineComment  = regexp.MustCompile(`//[^\n]*`)
	reField        = regexp.MustCompile(`^(repeated\s+|optional\s+)?(map\s*<[^>]+>|[A-Za-z_][A-Za-z0-9_.]*)\s+([A-Za-z_][A-Za-z0-9_]*)\s*=\s*([0-9]+)\s*(\[[^\]]*\])?$`)
)

// parseProto returns messages and enum names of one file. Nested message/enum declarations are
// hoisted with their plain name (lib/.proto has none; the code handles them for robustness).
type protoEnum struct {
	name   string
	values [][2]string // name, number
}

var reEnumVal = regexp.MustCompile(`^([A-Za-z_][A-Za-z0-9_]*)\s*=\s*(-?[0-9]+)\s*(\[[^\]]*\])?$`)

// enumDecls collects the enum declarations seen by parseProto (filled as a side effect).
var enumDecls []protoEnum

func parseProto(path string) (msgs []protoMsg, enums []string, err error) {
	bz, e := os.ReadFile(path)
	if e != nil {
		return nil, nil, e
	}
	src := reBlockComment.ReplaceAllString(string(bz), "")
	src = reLineComment.ReplaceAllString(src, "")
	// tokenise on { } ; keeping the separators
	var toks []string
	cur := strings.Builder{}
	for _, r := range src {
		switch r {
		case '{', '}', ';':
			if s := strings.TrimSpace(cur.String()); s != "" {
				toks = append(toks, s)
			}
			toks = append(toks, string(r))
			cur.Reset()
		default:
			cur.WriteRune(r)
		}
	}
	type frame struct {
		kind string // message | enum | oneof | other
		msg  *protoMsg
	}
	var stack []frame
	var out []*protoMsg
	file := filepath.Base(path)
	for i := 0; i < len(toks); i++ {
		t := strings.Join(strings.Fields(toks[i]), " ")
		switch t {
		case "{":
			return nil, nil, fmt.Errorf("%s: unexpected '{'", file)
		case "}":
			if len(stack) == 0 {
				return nil, nil, fmt.Errorf("%s: unbalanced '}'", file)
			}
			stack = stack[:len(stack)-1]
			continue
		case ";":
			continue
		}
		next := ""
		if i+1 < len(toks) {
			next = toks[i+1]
		}
		if next == "{" {
			i++
			w := strings.Fields(t)
			switch {
			case len(w) == 2 && w[0] == "message":
				m := &protoMsg{file: file, name: w[1]}
				out = append(out, m)
				stack = append(stack, frame{"message", m})
			case len(w) == 2 && w[0] == "enum":
				enums = append(enums, w[1])
				enumDecls = append(enumDecls, protoEnum{name: w[1]})
				stack = append(stack, frame{"enum", nil})
			case len(w) == 2 && w[0] == "oneof":
				if len(stack) == 0 || stack[len(stack)-1].msg == nil {
					return nil, nil, fmt.Errorf("%s: oneof outside message", file)
				}
				stack = append(stack, frame{"oneof", stack[len(stack)-1].msg})
			default:
				stack = append(stack, frame{"other", nil})
			}
			continue
		}
		if len(stack) == 0 {
			continue // syntax / package / import / option
		}
		top := stack[len(stack)-1]
		if top.kind == "enum" {
			if m := reEnumVal.FindStringSubmatch(t); m != nil && len(enumDecls) > 0 {
				e := &enumDecls[len(enumDecls)-1]
				e.values = append(e.values, [2]string{m[1], m[2]})
			}
			continue
		}
		if top.kind == "other" {
			continue
		}
		if strings.HasPrefix(t, "option ") || strings.HasPrefix(t, "reserved ") {
			continue
		}
		m := reField.FindStringSubmatch(t)
		if m == nil {
			return nil, nil, fmt.Errorf("%s: cannot read field declaration %q in message %s", file, t, top.msg.name)
		}
		n, _ := strconv.Atoi(m[4])
		f := protoField{num: n, name: m[3], ty: strings.ReplaceAll(m[2], " ", ""), label: strings.TrimSpace(m[1])}
		if strings.HasPrefix(f.ty, "map<") {
			f.label = "map"
		}
		if top.kind == "oneof" {
			f.label = "oneof"
		}
		top.msg.fields = append(top.msg.fields, f)
	}
	if len(stack) != 0 {
		return nil, nil, fmt.Errorf("%s: unbalanced '{'", file)
	}
	for _, m := range out {
		msgs = append(msgs, *m)
	}
	return msgs, enums, nil
}

// ---- Go source facts ----

// constInt evaluates an integer constant expression made of literals, * + - << and identifiers
// already evaluated.
func constInt(e ast.Expr, env map[string]int64) (int64, bool) {
	switch x := e.(type) {
	case *ast.BasicLit:
		if x.Kind != token.INT {
			return 0, false
		}
		v, err := strconv.ParseInt(strings.ReplaceAll(x.Value, "_", ""), 0, 64)
		return v, err == nil
	case *ast.Ident:
		v, ok := env[x.Name]
		return v, ok
	case *ast.ParenExpr:
		return constInt(x.X, env)
	case *ast.BinaryExpr:
		a, ok1 := constInt(x.X, env)
		b, ok2 := constInt(x.Y, env)
		if !ok1 || !ok2 {
			return 0, false
		}
		switch x.Op {
		case token.MUL:
			return a * b, true
		case token.ADD:
			return a + b, true
		case token.SUB:
			return a - b, true
		case token.SHL:
			return a << uint(b), true
		}
	}
	return 0, false
}

func intConsts(f *g.File) map[string]int64 {
	env := map[string]int64{}
	for _, d := range f.AST.Decls {
		gd, ok := d.(*ast.GenDecl)
		if !ok || gd.Tok != token.CONST {
			continue
		}
		for _, s := range gd.Specs {
			vs := s.(*ast.ValueSpec)
			for i, n := range vs.Names {
				if i < len(vs.Values) {
					if v, ok := constInt(vs.Values[i], env); ok {
						env[n.Name] = v
					}
				}
			}
		}
	}
	return env
}

// compositeFields lists `Field: value` pairs of the first composite literal of the given type
// name found in the function body (in source order).
func compositeFields(fd *ast.FuncDecl, typeName string) (out [][2]string, found bool) {
	ast.Inspect(fd.Body, func(n ast.Node) bool {
		if found {
			return false
		}
		cl, ok := n.(*ast.CompositeLit)
		if !ok || cl.Type == nil || g.ExprText(cl.Type) != typeName {
			return true
		}
		found = true
		for _, el := range cl.Elts {
			if kv, ok := el.(*ast.KeyValueExpr); ok {
				out = append(out, [2]string{g.ExprText(kv.Key), g.ExprText(kv.Value)})
			}
		}
		return false
	})
	return
}

func pairList(ps [][2]string) string {
	var s []string
	for _, p := range ps {
		s = append(s, fmt.Sprintf("(%q, %q)", p[0], p[1]))
	}
	return "[" + strings.Join(s, ", ") + "]"
}

func strList(ss []string) string {
	var s []string
	for _, p := range ss {
		s = append(s, fmt.Sprintf("%q", p))
	}
	return "[" + strings.Join(s, ", ") + "]"
}

// stmtsFrom returns the normalised text of the statements of fd's body starting at the first
// top-level statement whose text contains marker.
func stmtsFrom(fd *ast.FuncDecl, marker string) (string, bool) {
	for i, s := range fd.Body.List {
		if strings.Contains(g.StmtText(s), marker) {
			return g.StmtsText(fd.Body.List[i:]), true
		}
	}
	return "", false
}

// findStmt returns the text of the first statement (at any depth) whose text starts with prefix.
func findStmt(fd *ast.FuncDecl, prefix string) (string, bool) {
	res, ok := "", false
	ast.Inspect(fd.Body, func(n ast.Node) bool {
		if ok {
			return false
		}
		if s, is := n.(ast.Stmt); is {
			if _, blk := s.(*ast.BlockStmt); !blk {
				t := g.StmtText(s)
				if strings.HasPrefix(t, prefix) {
					res, ok = t, true
					return false
				}
			}
		}
		return true
	})
	return res, ok
}

// hasBytesEqual reports whether fd's body calls bytes.Equal(a, b) with argument texts satisfying ok.
func hasBytesEqual(fd *ast.FuncDecl, ok func(a, b string) bool) bool {
	found := false
	ast.Inspect(fd.Body, func(n ast.Node) bool {
		ce, is := n.(*ast.CallExpr)
		if !is || len(ce.Args) != 2 || g.ExprText(ce.Fun) != "bytes.Equal" {
			return true
		}
		if ok(g.ExprText(ce.Args[0]), g.ExprText(ce.Args[1])) {
			found = true
		}
		return true
	})
	return found
}

// windowExemption finds the early `return nil` guarding the window computation of CheckReplay and
// evaluates its condition to the list of memo values it holds for. Understood forms: `tx.Memo == C`,
// `IsRLPMemo(tx.Memo)` (inlined from lib/rlp.go), and `||` of those; C a string constant of lib/rlp.go.
func windowExemption(cr *ast.FuncDecl) (memos []string, cond string, err error) {
	idx := -1
	for i, s := range cr.Body.List {
		if strings.Contains(g.StmtText(s), "maxHeight, minHeight :=") {
			idx = i
			break
		}
	}
	if idx < 1 {
		return nil, "", fmt.Errorf("fsm/transaction.go: CheckReplay window computation not found")
	}
	ifs, ok := cr.Body.List[idx-1].(*ast.IfStmt)
	if !ok || ifs.Else != nil || ifs.Init != nil || g.StmtsText(ifs.Body.List) != "return nil" {
		// no exemption at all
		return nil, "", nil
	}
	rf, e := g.ParseFile(filepath.Join(*repo, "lib/rlp.go"))
	if e != nil {
		return nil, "", e
	}
	consts := map[string]string{}
	for _, d := range rf.AST.Decls {
		gd, ok := d.(*ast.GenDecl)
		if !ok || gd.Tok != token.CONST {
			continue
		}
		for _, sp := range gd.Specs {
			vs := sp.(*ast.ValueSpec)
			for i, n := range vs.Names {
				if i < len(vs.Values) {
					if bl, ok := vs.Values[i].(*ast.BasicLit); ok && bl.Kind == token.STRING {
						if v, e := strconv.Unquote(bl.Value); e == nil {
							consts[n.Name] = v
						}
					}
				}
			}
		}
	}
	var eval func(e ast.Expr, subject string) ([]string, error)
	eval = func(e ast.Expr, subject string) ([]string, error) {
		switch x := e.(type) {
		case *ast.ParenExpr:
			return eval(x.X, subject)
		case *ast.BinaryExpr:
			if x.Op == token.LOR {
				a, e1 := eval(x.X, subject)
				if e1 != nil {
					return nil, e1
				}
				c, e2 := eval(x.Y, subject)
				if e2 != nil {
					return nil, e2
				}
				return append(a, c...), nil
			}
			if x.Op == token.EQL {
				l, r := g.ExprText(x.X), g.ExprText(x.Y)
				if r == subject {
					l, r = r, l
				}
				if l == subject {
					name := r[strings.LastIndex(r, ".")+1:]
					if v, ok := consts[name]; ok {
						return []string{v}, nil
					}
				}
			}
		case *ast.CallExpr:
			fn := g.ExprText(x.Fun)
			if (fn == "IsRLPMemo" || fn == "lib.IsRLPMemo") && len(x.Args) == 1 && g.ExprText(x.Args[0]) == subject {
				fd := rf.FindFunc("", "IsRLPMemo")
				if fd != nil && len(fd.Body.List) == 1 && len(fd.Type.Params.List) == 1 && len(fd.Type.Params.List[0].Names) == 1 {
					if rs, ok := fd.Body.List[0].(*ast.ReturnStmt); ok && len(rs.Results) == 1 {
						return eval(rs.Results[0], fd.Type.Params.List[0].Names[0].Name)
					}
				}
			}
		}
		return nil, fmt.Errorf("fsm/transaction.go: CheckReplay window exemption %q is outside the understood forms", g.ExprText(e))
	}
	memos, err = eval(ifs.Cond, "tx.Memo")
	sort.Strings(memos)
	return memos, g.ExprText(ifs.Cond), err
}

func genProto() (string, error) {
	var b strings.Builder
	b.WriteString("namespace Canopy.Gen.Proto\n\n")
	// 1. schemas of every message in lib/.proto
	files, err := filepath.Glob(filepath.Join(*repo, "lib/.proto/*.proto"))
	if err != nil {
		return "", err
	}
	sort.Strings(files)
	var all []protoMsg
	var enums []string
	enumDecls = nil
	for _, p := range files {
		ms, es, err := parseProto(p)
		if err != nil {
			return "", err
		}
		all = append(all, ms...)
		enums = append(enums, es...)
	}
	sort.Slice(all, func(i, j int) bool { return all[i].name < all[j].name })
	sort.Strings(enums)
	b.WriteString("/-- (field number, field name, declared type, label) -/\nabbrev FieldDecl := Nat × String × String × String\n\n")
	fmt.Fprintf(&b, "def enums : List String := %s\n\n", strList(enums))
	sort.Slice(enumDecls, func(i, j int) bool { return enumDecls[i].name < enumDecls[j].name })
	b.WriteString("def enumValues : List (String × List (String × Nat)) := [\n")
	for i, e := range enumDecls {
		var vs []string
		for _, v := range e.values {
			vs = append(vs, fmt.Sprintf("(%q, %s)", v[0], v[1]))
		}
		sep := ","
		if i == len(enumDecls)-1 {
			sep = ""
		}
		fmt.Fprintf(&b, "  (%q, [%s])%s\n", e.name, strings.Join(vs, ", "), sep)
	}
	b.WriteString("]\n\n")
	b.WriteString("def messages : List (String × List FieldDecl) := [\n")
	for i, m := range all {
		var fs []string
		for _, f := range m.fields {
			fs = append(fs, fmt.Sprintf("(%d, %q, %q, %q)", f.num, f.name, f.ty, f.label))
		}
		sep := ","
		if i == len(all)-1 {
			sep = ""
		}
		fmt.Fprintf(&b, "  (%q, [%s])%s\n", m.name, strings.Join(fs, ", "), sep)
	}
	b.WriteString("]\n\n")
	b.WriteString("def schema (name : String) : List FieldDecl :=\n  match messages.find? (·.1 == name) with\n  | some m => m.2\n  | none => []\n\n")
	// google.protobuf.Any is a well-known type compiled into the protobuf library
	// (google.golang.org/protobuf/types/known/anypb): type_url = 1 (string), value = 2 (bytes).
	b.WriteString("def anySchema : List FieldDecl := [(1, \"type_url\", \"string\", \"\"), (2, \"value\", \"bytes\", \"\")]\n\n")

	// 2. decoder limits (lib/util.go)
	uf, err := g.ParseFile(filepath.Join(*repo, "lib/util.go"))
	if err != nil {
		return "", err
	}
	uc := intConsts(uf)
	for _, n := range []string{"protoMaxListLen", "protoMaxMapLen", "protoMaxRecursion", "protoMaxFieldBytes", "protoMaxMessageBytes"} {
		v, ok := uc[n]
		if !ok {
			return "", fmt.Errorf("lib/util.go: constant %s not found / not evaluable", n)
		}
		fmt.Fprintf(&b, "def %s : Nat := %d\n", n, v)
	}
	for _, fn := range []string{"preflightProtoBytes", "Unmarshal", "rejectUnknownForCriticalMessages"} {
		fd := uf.FindFunc("", fn)
		if fd == nil {
			return "", fmt.Errorf("lib/util.go: %s not found", fn)
		}
		fmt.Fprintf(&b, "def src_%s : String := %q\n", fn, g.StmtsText(fd.Body.List))
	}
	// the walker behind the critical-message check: does it reach the elements of repeated message fields?
	if fd := uf.FindFunc("", "detectUnknownProtoFields"); fd != nil {
		fmt.Fprintf(&b, "def src_detectUnknownProtoFields : String := %q\n", g.StmtsText(fd.Body.List))
		earlyReturn, recurses := false, false
		ast.Inspect(fd.Body, func(n ast.Node) bool {
			switch x := n.(type) {
			case *ast.IfStmt:
				if g.ExprText(x.Cond) == "fd.IsList()" {
					for _, st := range x.Body.List {
						if _, ok := st.(*ast.ReturnStmt); ok {
							earlyReturn = true // the list-length test leaves the callback before the recursion below
						}
					}
				}
			case *ast.CaseClause:
				if len(x.List) == 1 && g.ExprText(x.List[0]) == "fd.IsList()" && strings.Contains(g.StmtsText(x.Body), "detectUnknownProtoFields(list.Get(i).Message(), depth + 1)") {
					recurses = true
				}
			}
			return true
		})
		fmt.Fprintf(&b, "/-- `detectUnknownProtoFields` inspects every element of a repeated message field (the list-length test does not return first, and the list case recurses) -/\ndef walkerInspectsListElements : Bool := %v\n", recurses && !earlyReturn)
	} else {
		return "", fmt.Errorf("lib/util.go: detectUnknownProtoFields not found")
	}
	// the set of 'critical' message types of Unmarshal (type switch)
	if fd := uf.FindFunc("", "Unmarshal"); fd != nil {
		var crit []string
		ast.Inspect(fd.Body, func(n ast.Node) bool {
			ts, ok := n.(*ast.TypeSwitchStmt)
			if !ok {
				return true
			}
			for _, c := range ts.Body.List {
				cc := c.(*ast.CaseClause)
				for _, e := range cc.List {
					crit = append(crit, strings.TrimPrefix(g.ExprText(e), "*"))
				}
			}
			return false
		})
		fmt.Fprintf(&b, "def criticalMessages : List String := %s\n", strList(crit))
	}
	b.WriteString("\n")

	// 3. transaction identity, sign bytes, basic checks (lib/tx.go, fsm/state.go, fsm/transaction.go)
	tf, err := g.ParseFile(filepath.Join(*repo, "lib/tx.go"))
	if err != nil {
		return "", err
	}
	sb := tf.FindFunc("Transaction", "GetSignBytes")
	if sb == nil {
		return "", fmt.Errorf("lib/tx.go: GetSignBytes not found")
	}
	fields, ok := compositeFields(sb, "Transaction")
	if !ok {
		return "", fmt.Errorf("lib/tx.go: GetSignBytes no longer builds a Transaction literal")
	}
	fmt.Fprintf(&b, "/-- `Transaction.GetSignBytes`: the literal that is marshalled -/\ndef txSignBytesFields : List (String × String) := %s\n", pairList(fields))
	fmt.Fprintf(&b, "def src_GetSignBytes : String := %q\n", g.StmtsText(sb.Body.List))
	for _, fn := range []string{"CheckBasic", "GetHash"} {
		fd := tf.FindFunc("Transaction", fn)
		if fd == nil {
			return "", fmt.Errorf("lib/tx.go: %s not found", fn)
		}
		fmt.Fprintf(&b, "def src_%s : String := %q\n", fn, g.StmtsText(fd.Body.List))
	}
	stf, err := g.ParseFile(filepath.Join(*repo, "fsm/state.go"))
	if err != nil {
		return "", err
	}
	at := stf.FindFunc("StateMachine", "ApplyTransactions")
	if at == nil {
		return "", fmt.Errorf("fsm/state.go: ApplyTransactions not found")
	}
	hs, ok := findStmt(at, "hashString :=")
	if !ok {
		return "", fmt.Errorf("fsm/state.go: ApplyTransactions no longer assigns hashString")
	}
	fmt.Fprintf(&b, "/-- identity of a transaction in `ApplyTransactions` -/\ndef src_txIdentity : String := %q\n", hs)
	dd, ok := findStmt(at, "if found := deDuplicator.Found(hashString)")
	if !ok {
		return "", fmt.Errorf("fsm/state.go: same-block de-duplication statement not found")
	}
	fmt.Fprintf(&b, "def src_sameBlockDedup : String := %q\n", dd)
	xf, err := g.ParseFile(filepath.Join(*repo, "fsm/transaction.go"))
	if err != nil {
		return "", err
	}
	xc := intConsts(xf)
	if v, ok := xc["BlockAcceptanceRange"]; ok {
		fmt.Fprintf(&b, "def BlockAcceptanceRange : Nat := %d\n", v)
	} else {
		return "", fmt.Errorf("fsm/transaction.go: BlockAcceptanceRange not found")
	}
	cr := xf.FindFunc("StateMachine", "CheckReplay")
	if cr == nil {
		return "", fmt.Errorf("fsm/transaction.go: CheckReplay not found")
	}
	fmt.Fprintf(&b, "def src_CheckReplay : String := %q\n", g.StmtsText(cr.Body.List))
	win, ok := stmtsFrom(cr, "maxHeight, minHeight :=")
	if !ok {
		return "", fmt.Errorf("fsm/transaction.go: CheckReplay window computation not found")
	}
	fmt.Fprintf(&b, "/-- the acceptance-window tail of `CheckReplay` -/\ndef src_CheckReplay_window : String := %q\n", win)
	// the memo exemption from the window: the `if <cond> { return nil }` right before the window
	// computation; <cond> is evaluated to the set of memo strings it is true for
	exempt, condText, err := windowExemption(cr)
	if err != nil {
		return "", err
	}
	fmt.Fprintf(&b, "/-- condition of the early return of `CheckReplay` that skips the created-height window -/\ndef src_windowExemption : String := %q\n", condText)
	var ex []string
	for _, m := range exempt {
		var bs []string
		for _, c := range []byte(m) {
			bs = append(bs, strconv.Itoa(int(c)))
		}
		ex = append(ex, "["+strings.Join(bs, ", ")+"]")
	}
	fmt.Fprintf(&b, "/-- the memos (UTF-8 bytes) that condition is true for: %s -/\ndef windowExemptMemos : List (List UInt8) := [%s]\n", strings.Join(exempt, " | "), strings.Join(ex, ", "))
	var head []string
	for _, s := range cr.Body.List {
		t := g.StmtText(s)
		if strings.Contains(t, "txHash != \"\"") {
			break
		}
		head = append(head, t)
	}
	fmt.Fprintf(&b, "/-- the network / chain / height<2 head of `CheckReplay` -/\ndef src_CheckReplay_head : List String := %s\n", strList(head))
	ct := xf.FindFunc("StateMachine", "CheckTx")
	if ct == nil {
		return "", fmt.Errorf("fsm/transaction.go: CheckTx not found")
	}
	fmt.Fprintf(&b, "def src_CheckTx : String := %q\n", g.StmtsText(ct.Body.List))
	nf, ok := findStmt(ct, "if tx.Nonce <")
	if !ok {
		nf = ""
	}
	fmt.Fprintf(&b, "/-- RLP.V2 nonce floor test of `CheckTx` (empty when absent) -/\ndef src_nonceFloor : String := %q\n", nf)
	atx := xf.FindFunc("StateMachine", "ApplyTransaction")
	if atx != nil {
		nb, _ := findStmt(atx, "account.Nonce =")
		fmt.Fprintf(&b, "def src_nonceBump : String := %q\n", nb)
	}
	cs := xf.FindFunc("StateMachine", "CheckSignature")
	if cs == nil {
		return "", fmt.Errorf("fsm/transaction.go: CheckSignature not found")
	}
	fmt.Fprintf(&b, "def src_CheckSignature : String := %q\n", g.StmtsText(cs.Body.List))
	// does the code refuse non-canonical encodings? (F2 repair): CheckTx compares the raw bytes of
	// its first parameter with a re-marshalling (`bytes.Equal(.., transaction)` next to a
	// `lib.Marshal(tx)`), CheckSignature compares the parsed key's Bytes() with the submitted bytes.
	rawParam := ""
	if len(ct.Type.Params.List) > 0 && len(ct.Type.Params.List[0].Names) > 0 {
		rawParam = ct.Type.Params.List[0].Names[0].Name
	}
	txEnf := hasBytesEqual(ct, func(a, c string) bool { return a == rawParam || c == rawParam }) &&
		strings.Contains(g.StmtsText(ct.Body.List), "lib.Marshal(tx)")
	keyEnf := hasBytesEqual(cs, func(a, c string) bool {
		return (a == "publicKey.Bytes()" && c == "tx.Signature.PublicKey") || (c == "publicKey.Bytes()" && a == "tx.Signature.PublicKey")
	})
	fmt.Fprintf(&b, "/-- `CheckTx` refuses bytes that differ from the canonical marshalling of their decoded form -/\ndef canonicalTxEnforced : Bool := %v\n", txEnf)
	fmt.Fprintf(&b, "/-- `CheckSignature` refuses a public key that is not in its canonical encoding -/\ndef canonicalKeyEnforced : Bool := %v\n", keyEnf)
	b.WriteString("\n")

	// every place in fsm/*.go that writes Account.Nonce or builds an Account record (the RLP.V2 nonce
	// floor lives there: a record rebuilt without carrying Nonce over resets the floor)
	fsmFiles, _ := filepath.Glob(filepath.Join(*repo, "fsm/*.go"))
	sort.Strings(fsmFiles)
	var nonceWrites, accountLits []string
	for _, fp := range fsmFiles {
		base := filepath.Base(fp)
		if strings.HasSuffix(base, "_test.go") || strings.HasSuffix(base, ".pb.go") || strings.HasPrefix(base, "verif_hooks") {
			continue
		}
		pf, e := g.ParseFile(fp)
		if e != nil {
			return "", e
		}
		for _, d := range pf.AST.Decls {
			fd, ok := d.(*ast.FuncDecl)
			if !ok || fd.Body == nil {
				continue
			}
			ast.Inspect(fd.Body, func(n ast.Node) bool {
				switch x := n.(type) {
				case *ast.AssignStmt:
					for _, l := range x.Lhs {
						if se, ok := l.(*ast.SelectorExpr); ok && se.Sel.Name == "Nonce" {
							nonceWrites = append(nonceWrites, base+":"+fd.Name.Name+": "+g.StmtText(x))
						}
					}
				case *ast.CompositeLit:
					if x.Type != nil && g.ExprText(x.Type) == "Account" {
						var keys []string
						for _, el := range x.Elts {
							if kv, ok := el.(*ast.KeyValueExpr); ok {
								keys = append(keys, g.ExprText(kv.Key))
							}
						}
						accountLits = append(accountLits, base+":"+fd.Name.Name+": Account{"+strings.Join(keys, ", ")+"}")
					}
				}
				return true
			})
		}
	}
	fmt.Fprintf(&b, "/-- every assignment to a `.Nonce` field in fsm/*.go -/\ndef accountNonceWrites : List String := %s\n", strList(nonceWrites))
	fmt.Fprintf(&b, "/-- every `Account{...}` literal in fsm/*.go with the fields it sets -/\ndef accountLiterals : List String := %s\n\n", strList(accountLits))
	// what VerifyRLPBytes compares to tie the wrapper to the raw Ethereum transaction: the methods called
	// on the rebuilt transaction and on the submitted one (GetHash covers the Signature container,
	// GetSignBytes does not)
	efile, err := g.ParseFile(filepath.Join(*repo, "fsm/ethereum.go"))
	if err != nil {
		return "", err
	}
	vr := efile.FindFunc("StateMachine", "VerifyRLPBytes")
	if vr == nil {
		return "", fmt.Errorf("fsm/ethereum.go: VerifyRLPBytes not found")
	}
	var digests []string
	ast.Inspect(vr.Body, func(n ast.Node) bool {
		if ce, ok := n.(*ast.CallExpr); ok {
			if se, ok := ce.Fun.(*ast.SelectorExpr); ok && len(ce.Args) == 0 {
				if id, ok := se.X.(*ast.Ident); ok && (id.Name == "compare" || id.Name == "tx") {
					digests = append(digests, id.Name+"."+se.Sel.Name)
				}
			}
		}
		return true
	})
	fmt.Fprintf(&b, "/-- the digests `VerifyRLPBytes` takes of the rebuilt and of the submitted transaction -/\ndef rlpBindingDigests : List String := %s\n", strList(digests))
	fmt.Fprintf(&b, "def src_VerifyRLPBytes : String := %q\n\n", g.StmtsText(vr.Body.List))
	// serialized multi-signature keys: does the parser refuse raised padding bits of the signer bitmap?
	blsf, err := g.ParseFile(filepath.Join(*repo, "lib/crypto/bls.go"))
	if err != nil {
		return "", err
	}
	mfn := blsf.FindFunc("", "NewMultiBLSFromPublicKey")
	if mfn == nil {
		return "", fmt.Errorf("lib/crypto/bls.go: NewMultiBLSFromPublicKey not found")
	}
	padChecked := false
	ast.Inspect(mfn.Body, func(n ast.Node) bool {
		if be, ok := n.(*ast.BinaryExpr); ok && be.Op == token.SHR && strings.Contains(g.ExprText(be.X), "mpk.Bitmap") {
			padChecked = true
		}
		return true
	})
	fmt.Fprintf(&b, "/-- `NewMultiBLSFromPublicKey` inspects the bits of the signer bitmap beyond the last key (padding must be zero) -/\ndef multisigPaddingEnforced : Bool := %v\n", padChecked)
	fmt.Fprintf(&b, "def src_NewMultiBLSFromPublicKey : String := %q\n\n", g.StmtsText(mfn.Body.List))
	// the Ethereum-hash alias: what the indexer files an RLP-backed transaction under and what CheckReplay
	// looks up must be the same function of the raw bytes, and one that ignores the envelope (sidecar)
	idxf, err := g.ParseFile(filepath.Join(*repo, "store/indexer.go"))
	if err != nil {
		return "", err
	}
	lastReturn := func(fd *ast.FuncDecl) string {
		out := ""
		for _, st := range fd.Body.List {
			if rs, ok := st.(*ast.ReturnStmt); ok {
				out = g.StmtText(rs)
			}
		}
		return out
	}
	aliasIdx, aliasFsm := "", ""
	if fd := idxf.FindFunc("", "ethTxHash"); fd != nil {
		aliasIdx = lastReturn(fd)
	}
	if fd := efile.FindFunc("", "ethereumTxHashFromRawBytes"); fd != nil {
		aliasFsm = lastReturn(fd)
	}
	if aliasIdx == "" || aliasFsm == "" {
		return "", fmt.Errorf("ethTxHash (store/indexer.go) or ethereumTxHashFromRawBytes (fsm/ethereum.go) not found")
	}
	fmt.Fprintf(&b, "/-- (indexer alias, CheckReplay lookup) of an RLP-backed transaction -/\ndef ethAliasReturns : List String := %s\n\n", strList([]string{aliasIdx, aliasFsm}))
	// the Merkle tree behind TransactionRoot / ConsensusValidators.Root (lib/crypto/hash.go)
	hashf, err := g.ParseFile(filepath.Join(*repo, "lib/crypto/hash.go"))
	if err != nil {
		return "", err
	}
	for _, fn := range []string{"MerkleTree", "nextPowerOfTwo", "concat"} {
		fd := hashf.FindFunc("", fn)
		if fd == nil {
			return "", fmt.Errorf("lib/crypto/hash.go: %s not found", fn)
		}
		fmt.Fprintf(&b, "def src_crypto_%s : String := %q\n", fn, g.StmtsText(fd.Body.List))
	}
	b.WriteString("\n")
	// 4. public-key decoding by length (lib/crypto/key.go)
	kf, err := g.ParseFile(filepath.Join(*repo, "lib/crypto/key.go"))
	if err != nil {
		return "", err
	}
	pk := kf.FindFunc("", "NewPublicKeyFromBytes")
	if pk == nil {
		return "", fmt.Errorf("lib/crypto/key.go: NewPublicKeyFromBytes not found")
	}
	var cases []string
	ast.Inspect(pk.Body, func(n ast.Node) bool {
		sw, ok := n.(*ast.SwitchStmt)
		if !ok {
			return true
		}
		for _, c := range sw.Body.List {
			cc := c.(*ast.CaseClause)
			var ls []string
			for _, e := range cc.List {
				ls = append(ls, g.ExprText(e))
			}
			cases = append(cases, fmt.Sprintf("(%s, %q)", strList(ls), g.StmtsText(cc.Body)))
		}
		return false
	})
	fmt.Fprintf(&b, "/-- `switch len(bz)` of `crypto.NewPublicKeyFromBytes` -/\ndef pubKeySwitch : List (List String × String) := [%s]\n", strings.Join(cases, ", "))
	// key sizes: constants spread over the scheme files
	sizes := map[string]int64{}
	for _, fn := range []string{"ed25519.go", "eth_secp256k1.go", "secp256k1.go", "bls.go"} {
		f, err := g.ParseFile(filepath.Join(*repo, "lib/crypto", fn))
		if err != nil {
			return "", err
		}
		for k, v := range intConsts(f) {
			sizes[k] = v
		}
	}
	// Ed25519 sizes are aliases of the standard library's constants
	if _, ok := sizes["Ed25519PubKeySize"]; !ok {
		sizes["Ed25519PubKeySize"] = 32
	}
	for _, n := range []string{"Ed25519PubKeySize", "ETHSECP256K1PubKeySize", "SECP256K1PubKeySize", "BLS12381PubKeySize"} {
		v, ok := sizes[n]
		if !ok {
			return "", fmt.Errorf("lib/crypto: constant %s not found", n)
		}
		fmt.Fprintf(&b, "def %s : Nat := %d\n", n, v)
	}
	ef, err := g.ParseFile(filepath.Join(*repo, "lib/crypto/eth_secp256k1.go"))
	if err != nil {
		return "", err
	}
	if fd := ef.FindFunc("", "BytesToEthSECP256K1Public"); fd != nil {
		fmt.Fprintf(&b, "def src_BytesToEthSECP256K1Public : String := %q\n", g.StmtsText(fd.Body.List))
	} else {
		return "", fmt.Errorf("lib/crypto/eth_secp256k1.go: BytesToEthSECP256K1Public not found")
	}
	b.WriteString("\n")

	// 5. sign bytes of certificates and consensus messages (C19 b)
	cf, err := g.ParseFile(filepath.Join(*repo, "lib/certificate.go"))
	if err != nil {
		return "", err
	}
	qsb := cf.FindFunc("QuorumCertificate", "SignBytes")
	if qsb == nil {
		return "", fmt.Errorf("lib/certificate.go: QuorumCertificate.SignBytes not found")
	}
	fmt.Fprintf(&b, "def src_QC_SignBytes : String := %q\n", g.StmtsText(qsb.Body.List))
	mini, ok := compositeFields(qsb, "QuorumCertificate")
	if !ok {
		return "", fmt.Errorf("lib/certificate.go: SignBytes no longer builds the minified certificate")
	}
	fmt.Fprintf(&b, "/-- ELECTION_VOTE case of `QuorumCertificate.SignBytes`: the fields that are kept -/\ndef qcElectionVoteFields : List (String × String) := %s\n", pairList(mini))
	niled, ok := findStmt(qsb, "x.Results, x.Block, x.Signature = nil")
	if !ok {
		// any assignment of nils to fields of x
		niled, ok = findStmt(qsb, "x.")
	}
	var stripped []string
	ast.Inspect(qsb.Body, func(n ast.Node) bool {
		as, ok := n.(*ast.AssignStmt)
		if !ok || len(stripped) > 0 {
			return true
		}
		allNil := len(as.Rhs) > 0
		for _, r := range as.Rhs {
			if g.ExprText(r) != "nil" {
				allNil = false
			}
		}
		if allNil {
			for _, l := range as.Lhs {
				stripped = append(stripped, strings.TrimPrefix(g.ExprText(l), "x."))
			}
		}
		return true
	})
	_ = niled
	fmt.Fprintf(&b, "/-- general case of `QuorumCertificate.SignBytes`: the fields set to nil before marshalling -/\ndef qcStrippedFields : List String := %s\n", strList(stripped))
	bf, err := g.ParseFile(filepath.Join(*repo, "bft/msg.go"))
	if err != nil {
		return "", err
	}
	msb := bf.FindFunc("Message", "SignBytes")
	if msb == nil {
		return "", fmt.Errorf("bft/msg.go: Message.SignBytes not found")
	}
	fmt.Fprintf(&b, "def src_Message_SignBytes : String := %q\n", g.StmtsText(msb.Body.List))
	// the composite literals of Message.SignBytes in source order, with the enclosing case
	var lits []string
	ast.Inspect(msb.Body, func(n ast.Node) bool {
		cl, ok := n.(*ast.CompositeLit)
		if !ok || cl.Type == nil {
			return true
		}
		var ps [][2]string
		for _, el := range cl.Elts {
			if kv, ok := el.(*ast.KeyValueExpr); ok {
				v := g.ExprText(kv.Value)
				if inner, ok := kv.Value.(*ast.UnaryExpr); ok {
					if _, isLit := inner.X.(*ast.CompositeLit); isLit {
						v = "<literal>"
					}
				}
				ps = append(ps, [2]string{g.ExprText(kv.Key), v})
			}
		}
		lits = append(lits, fmt.Sprintf("(%q, %s)", g.ExprText(cl.Type), pairList(ps)))
		return true
	})
	fmt.Fprintf(&b, "/-- composite literals built by `bft.Message.SignBytes`, in source order -/\ndef msgSignBytesLiterals : List (String × List (String × String)) := [%s]\n", strings.Join(lits, ", "))
	// the ELECTION branch of CheckProposerMessage: what checkSignatureBasic is applied to before the
	// VRF is dereferenced, and checkSignatureBasic itself (presence and the 48 / 96 element sizes)
	cpm := bf.FindFunc("BFT", "CheckProposerMessage")
	if cpm == nil {
		return "", fmt.Errorf("bft/msg.go: CheckProposerMessage not found")
	}
	var electionChecks []string
	electionBranch := ""
	for _, st := range cpm.Body.List {
		ifs, ok := st.(*ast.IfStmt)
		if !ok || g.ExprText(ifs.Cond) != "x.Header.Phase == Election" {
			continue
		}
		electionBranch = g.StmtsText(ifs.Body.List)
		ast.Inspect(ifs.Body, func(n ast.Node) bool {
			if ce, ok := n.(*ast.CallExpr); ok && g.ExprText(ce.Fun) == "checkSignatureBasic" && len(ce.Args) == 1 {
				electionChecks = append(electionChecks, g.ExprText(ce.Args[0]))
			}
			return true
		})
	}
	if electionBranch == "" {
		return "", fmt.Errorf("bft/msg.go: CheckProposerMessage has no `x.Header.Phase == Election` branch")
	}
	fmt.Fprintf(&b, "/-- arguments of `checkSignatureBasic` in the ELECTION branch of `CheckProposerMessage` -/\ndef electionBasicChecks : List String := %s\n", strList(electionChecks))
	fmt.Fprintf(&b, "def src_electionBranch : String := %q\n", electionBranch)
	if fd := bf.FindFunc("", "checkSignatureBasic"); fd != nil {
		fmt.Fprintf(&b, "def src_checkSignatureBasic : String := %q\n", g.StmtsText(fd.Body.List))
	} else {
		return "", fmt.Errorf("bft/msg.go: checkSignatureBasic not found")
	}
	for _, fn := range []string{"IsReplicaMessage", "IsProposerMessage", "IsPacemakerMessage"} {
		fd := bf.FindFunc("Message", fn)
		if fd == nil {
			return "", fmt.Errorf("bft/msg.go: %s not found", fn)
		}
		fmt.Fprintf(&b, "def src_%s : String := %q\n", fn, g.StmtsText(fd.Body.List))
	}
	b.WriteString("\nend Canopy.Gen.Proto\n")
	return b.String(), nil
}
