package main

import (
	"fmt"
	"go/ast"
	"go/token"
	"path/filepath"
	"strings"

	g "verifharness/gotolean"
)

func init() { register("ErrCodes", genErrCodes) }

// genErrCodes emits every `CodeXxx ErrorCode = n` constant of lib/error.go (the consensus/main/… modules
// share one file) so that models name error kinds symbolically and drivers compare numeric codes.
func genErrCodes() (string, error) {
	var b strings.Builder
	b.WriteString("namespace Canopy.Gen.Err\n\n")
	for _, src := range []struct{ ns, path string }{{"lib", "lib/error.go"}, {"fsm", "fsm/error.go"}, {"bft", "bft/error.go"}, {"store", "store/error.go"}, {"p2p", "p2p/error.go"}} {
		f, err := g.ParseFile(filepath.Join(*repo, src.path))
		if err != nil {
			continue // a package without an error.go simply contributes nothing
		}
		fmt.Fprintf(&b, "namespace %s\n", src.ns)
		n := 0
		for _, d := range f.AST.Decls {
			gd, ok := d.(*ast.GenDecl)
			if !ok || gd.Tok != token.CONST {
				continue
			}
			for _, s := range gd.Specs {
				vs := s.(*ast.ValueSpec)
				if len(vs.Names) != 1 || len(vs.Values) != 1 || !strings.HasPrefix(vs.Names[0].Name, "Code") {
					continue
				}
				bl, ok := vs.Values[0].(*ast.BasicLit)
				if !ok || bl.Kind != token.INT {
					continue
				}
				fmt.Fprintf(&b, "def %s : Nat := %s\n", vs.Names[0].Name, bl.Value)
				n++
			}
		}
		// constructor functions: func ErrXxx(...) ErrorI { return NewError(CodeY, Module, ...) } -> def ErrXxx := value of CodeY
		codes := map[string]string{}
		for _, d := range f.AST.Decls {
			if gd, ok := d.(*ast.GenDecl); ok && gd.Tok == token.CONST {
				for _, s := range gd.Specs {
					vs := s.(*ast.ValueSpec)
					if len(vs.Names) == 1 && len(vs.Values) == 1 {
						if bl, ok := vs.Values[0].(*ast.BasicLit); ok && (bl.Kind == token.INT || bl.Kind == token.STRING) {
							codes[vs.Names[0].Name] = bl.Value
						}
					}
				}
			}
		}
		for _, d := range f.AST.Decls {
			fd, ok := d.(*ast.FuncDecl)
			if !ok || fd.Recv != nil || fd.Body == nil || !strings.HasPrefix(fd.Name.Name, "Err") {
				continue
			}
			ast.Inspect(fd.Body, func(nd ast.Node) bool {
				c, ok := nd.(*ast.CallExpr)
				if !ok || len(c.Args) < 2 {
					return true
				}
				fn := g.ExprText(c.Fun)
				if fn != "NewError" && fn != "lib.NewError" {
					return true
				}
				v, ok := codes[strings.TrimPrefix(g.ExprText(c.Args[0]), "lib.")]
				m, ok2 := codes[strings.TrimPrefix(g.ExprText(c.Args[1]), "lib.")]
				if ok && ok2 {
					// "<module>/<code>": codes are only unique per module
					fmt.Fprintf(&b, "def %s : String := \"%s/%s\"\n", fd.Name.Name, strings.Trim(m, "\""), v)
				}
				return false
			})
		}
		fmt.Fprintf(&b, "def count : Nat := %d\nend %s\n\n", n, src.ns)
	}
	b.WriteString("end Canopy.Gen.Err\n")
	return b.String(), nil
}
