package main

import (
	"fmt"
	"go/ast"
	"path/filepath"
	"strings"

	g "verifharness/gotolean"
)

func init() { register("GateFacts", genGateFacts) }

// genGateFacts pins the shape of controller.HandlePeerBlock that the C02 model transcribes: the ordered
// guards between entry and CommitCertificate (logging dropped). The hand model Gate.admitQC follows this
// order; the correspondence run drives the same library calls in the same order.
func genGateFacts() (string, error) {
	f, err := g.ParseFile(filepath.Join(*repo, "controller/block.go"))
	if err != nil {
		return "", err
	}
	fd := f.FindFunc("Controller", "HandlePeerBlock")
	if fd == nil {
		return "", fmt.Errorf("controller/block.go: HandlePeerBlock not found")
	}
	var steps []string
	var walk func(list []ast.Stmt, prefix string)
	walk = func(list []ast.Stmt, prefix string) {
		for _, s := range list {
			txt := g.StmtText(s)
			if strings.HasPrefix(txt, "c.log.") || strings.HasPrefix(txt, "c.Metrics.") {
				continue
			}
			if is, ok := s.(*ast.IfStmt); ok {
				head := "if "
				if is.Init != nil {
					head += g.StmtText(is.Init) + "; "
				}
				head += g.ExprText(is.Cond)
				// the sync-only branch is outside the property's statement
				if g.ExprText(is.Cond) == "syncing" {
					steps = append(steps, prefix+"if syncing {…fast-sync checkpoint branch…}")
					continue
				}
				steps = append(steps, prefix+head+" {")
				walk(is.Body.List, prefix+"  ")
				steps = append(steps, prefix+"}")
				continue
			}
			steps = append(steps, prefix+txt)
		}
	}
	walk(fd.Body.List, "")
	var b strings.Builder
	b.WriteString("namespace Canopy.Gen.GateFacts\n\n/-- controller.HandlePeerBlock, normalised (comments, logging and metrics dropped) -/\ndef handlePeerBlock : List String := [\n")
	for i, s := range steps {
		sep := ","
		if i == len(steps)-1 {
			sep = ""
		}
		fmt.Fprintf(&b, "  %q%s\n", s, sep)
	}
	b.WriteString("]\n")
	// the library functions the gate calls, normalised the same way: the hand model transcribes their
	// guard sequences; any edit to one of them changes the pinned list
	for _, fn := range []struct{ file, recv, name, lean string }{
		{"lib/certificate.go", "QuorumCertificate", "CheckBasic", "qcCheckBasic"},
		{"lib/certificate.go", "QuorumCertificate", "Check", "qcCheck"},
		{"lib/certificate.go", "QuorumCertificate", "CheckProposalBasic", "qcCheckProposalBasic"},
		{"lib/consensus.go", "AggregateSignature", "CheckBasic", "aggSigCheckBasic"},
		{"lib/consensus.go", "AggregateSignature", "Check", "aggSigCheck"},
		{"lib/consensus.go", "View", "CheckBasic", "viewCheckBasic"},
		{"lib/consensus.go", "View", "Check", "viewCheck"},
		{"lib/block.go", "Block", "Check", "blockCheck"},
		{"lib/block.go", "BlockHeader", "Check", "blockHeaderCheck"},
		{"lib/certificate.go", "CertificateResult", "Hash", "certResultHash"},
	} {
		lines, err := normFunc(fn.file, fn.recv, fn.name)
		if err != nil {
			return "", err
		}
		fmt.Fprintf(&b, "\n/-- %s.%s (%s), normalised -/\ndef %s : List String := [\n", fn.recv, fn.name, fn.file, fn.lean)
		for i, s := range lines {
			sep := ","
			if i == len(lines)-1 {
				sep = ""
			}
			fmt.Fprintf(&b, "  %q%s\n", s, sep)
		}
		b.WriteString("]\n")
	}
	b.WriteString("\nend Canopy.Gen.GateFacts\n")
	return b.String(), nil
}

// normFunc returns the statements of a method, one per line with indentation for nesting, comments and
// logging dropped; functions are searched in the named file and, failing that, in the other files of
// its directory.
func normFunc(file, recv, name string) ([]string, error) {
	var fd *ast.FuncDecl
	paths := []string{filepath.Join(*repo, file)}
	more, _ := filepath.Glob(filepath.Join(*repo, filepath.Dir(file), "*.go"))
	paths = append(paths, more...)
	for _, p := range paths {
		if strings.HasSuffix(p, "_test.go") {
			continue
		}
		f, err := g.ParseFile(p)
		if err != nil {
			continue
		}
		if fd = f.FindFunc(recv, name); fd != nil {
			break
		}
	}
	if fd == nil {
		return nil, fmt.Errorf("%s: %s.%s not found", file, recv, name)
	}
	var out []string
	var walk func(list []ast.Stmt, prefix string)
	walk = func(list []ast.Stmt, prefix string) {
		for _, s := range list {
			txt := g.StmtText(s)
			if strings.Contains(txt, ".log.") || strings.HasPrefix(txt, "log.") {
				continue
			}
			switch v := s.(type) {
			case *ast.IfStmt:
				for cur := v; cur != nil; {
					head := "if "
					if cur != v {
						head = "} else if "
					}
					if cur.Init != nil {
						head += g.StmtText(cur.Init) + "; "
					}
					out = append(out, prefix+head+g.ExprText(cur.Cond)+" {")
					walk(cur.Body.List, prefix+"  ")
					switch e := cur.Else.(type) {
					case *ast.IfStmt:
						cur = e
						continue
					case *ast.BlockStmt:
						out = append(out, prefix+"} else {")
						walk(e.List, prefix+"  ")
					}
					cur = nil
				}
				out = append(out, prefix+"}")
			case *ast.ForStmt, *ast.RangeStmt:
				var body *ast.BlockStmt
				var head string
				if f, ok := v.(*ast.ForStmt); ok {
					body = f.Body
					head = strings.SplitN(txt, "{", 2)[0]
				} else {
					r := v.(*ast.RangeStmt)
					body = r.Body
					head = strings.SplitN(txt, "{", 2)[0]
				}
				out = append(out, prefix+strings.TrimSpace(head)+" {")
				walk(body.List, prefix+"  ")
				out = append(out, prefix+"}")
			default:
				out = append(out, prefix+txt)
			}
		}
	}
	walk(fd.Body.List, "")
	return out, nil
}
