package main

import (
	"fmt"
	"go/ast"
	"path/filepath"
	"strings"

	g "verifharness/gotolean"
)

func init() { register("GateFacts", genGateFacts) }

// genGateFacts pins the shape of controller.HandlePeerBlock that the C02 model transcribes: the ordered
// guards between entry and CommitCertificate (logging dropped). The hand model Gate.admitQC follows this
// order; the correspondence run drives the same library calls in the same order.
func genGateFacts() (string, error) {
	f, err := g.ParseFile(filepath.Join(*repo, "controller/block.go"))
	if err != nil {
		return "", err
	}
	fd := f.FindFunc("Controller", "HandlePeerBlock")
	if fd == nil {
		return "", fmt.Errorf("controller/block.go: HandlePeerBlock not found")
	}
	var steps []string
	var walk func(list []ast.Stmt, prefix string)
	walk = func(list []ast.Stmt, prefix string) {
		for _, s := range list {
			txt := g.StmtText(s)
			if strings.HasPrefix(txt, "c.log.") || strings.HasPrefix(txt, "c.Metrics.") {
				continue
			}
			if is, ok := s.(*ast.IfStmt); ok {
				head := "if "
				if is.Init != nil {
					head += g.StmtText(is.Init) + "; "
				}
				head += g.ExprText(is.Cond)
				// the sync-only branch is outside the property's statement
				if g.ExprText(is.Cond) == "syncing" {
					steps = append(steps, prefix+"if syncing {…fast-sync checkpoint branch…}")
					continue
				}
				steps = append(steps, prefix+head+" {")
				walk(is.Body.List, prefix+"  ")
				steps = append(steps, prefix+"}")
				continue
			}
			steps = append(steps, prefix+txt)
		}
	}
	walk(fd.Body.List, "")
	var b strings.Builder
	b.WriteString("namespace Canopy.Gen.GateFacts\n\n/-- controller.HandlePeerBlock, normalised (comments, logging and metrics dropped) -/\ndef handlePeerBlock : List String := [\n")
	for i, s := range steps {
		sep := ","
		if i == len(steps)-1 {
			sep = ""
		}
		fmt.Fprintf(&b, "  %q%s\n", s, sep)
	}
	b.WriteString("]\n\nend Canopy.Gen.GateFacts\n")
	return b.String(), nil
}
