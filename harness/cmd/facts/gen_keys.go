package main

import (
	"fmt"
	"go/ast"
	"path/filepath"
	"sort"
	"strings"

	g "verifharness/gotolean"
)

func joinRenderer(args []string) (string, error) {
	var keep []string
	for _, a := range args {
		if a != "nil" {
			keep = append(keep, a)
		}
	}
	return "(joinLenPrefix [" + strings.Join(keep, ", ") + "])", nil
}

func init() { register("Keys", genKeys) }

// genKeys translates every key builder of fsm/key.go and store/indexer.go (C10, C19).
func genKeys() (string, error) {
	var b strings.Builder
	b.WriteString("import Canopy.Model.Bytes\nnamespace Canopy.Gen\nopen Canopy\n\n")
	type src struct {
		ns, path, recv string
	}
	for _, s := range []src{{"fsm", "fsm/key.go", ""}, {"indexer", "store/indexer.go", "Indexer"}} {
		f, err := g.ParseFile(filepath.Join(*repo, s.path))
		if err != nil {
			return "", err
		}
		consts := f.ByteConsts()
		fmt.Fprintf(&b, "namespace %s\n", s.ns)
		names := g.SortedKeys(consts)
		// the prefix table: name -> bytes, in source order of value
		sort.Slice(names, func(i, j int) bool { return string(consts[names[i]]) < string(consts[names[j]]) })
		var tbl []string
		for _, n := range names {
			if !strings.HasSuffix(n, "Prefix") {
				continue
			}
			tbl = append(tbl, fmt.Sprintf("(%q, %s)", n, g.BytesLit(consts[n])))
		}
		fmt.Fprintf(&b, "def prefixTable : List (String × Bytes) := [%s]\n", strings.Join(tbl, ", "))
		if s.ns == "fsm" {
			// pool ids are composed as chainId + addend: the addends and the chain-id bound, evaluated from the var block
			consts, cerr := uintConsts(f, map[string]uint64{"math.MaxUint16": 65535, "math.MaxUint32": 4294967295})
			if cerr != nil {
				return "", cerr
			}
			for _, n := range []string{"MaxChainId", "HoldingPoolAddend", "LiquidityPoolAddend", "EscrowPoolAddend"} {
				v, ok := consts[n]
				if !ok {
					return "", fmt.Errorf("fsm/key.go: constant %s not found or not evaluable", n)
				}
				fmt.Fprintf(&b, "def %s : Nat := %d\n", n, v)
			}
		}
		for _, n := range g.SortedKeys(consts) {
			fmt.Fprintf(&b, "def %s : Bytes := %s\n", n, g.BytesLit(consts[n]))
		}
		cfg := g.Config{
			Types: map[string]string{"uint64": "UInt64", "[]byte": "Bytes", "crypto.AddressI": "Bytes"},
			Calls: map[string]func([]string) (string, error){
				"lib.JoinLenPrefix": joinRenderer,
				"formatUint64":      g.App("formatUint64"),
				"t.encodeBigEndian": g.App("formatUint64"),
				"t.key":             joinRenderer, // justified by the src_key fact below
			},
			Idents:                 map[string]string{},
			NullaryMethodsIdentity: map[string]bool{"Bytes": true},
		}
		tr := &g.Translator{Cfg: cfg}
		// collect candidate functions: single-return bodies returning []byte, with translatable params
		var funcs []*ast.FuncDecl
		for _, d := range f.AST.Decls {
			fd, ok := d.(*ast.FuncDecl)
			if !ok || fd.Body == nil || fd.Type.Results == nil || len(fd.Type.Results.List) != 1 {
				continue
			}
			if g.ExprText(fd.Type.Results.List[0].Type) != "[]byte" {
				continue
			}
			recv := ""
			if fd.Recv != nil {
				recv = strings.TrimPrefix(g.ExprText(fd.Recv.List[0].Type), "*")
			}
			if recv != s.recv {
				continue
			}
			if len(fd.Body.List) != 1 || fd.Name.Name == "key" {
				continue
			}
			if _, ok := fd.Body.List[0].(*ast.ReturnStmt); !ok {
				continue
			}
			funcs = append(funcs, fd)
		}
		// callee names resolve to their Lean defs (all emitted in this namespace)
		for _, fd := range funcs {
			callee := fd.Name.Name
			if s.recv != "" {
				callee = "t." + callee
			}
			cfg.Calls[callee] = g.App(fd.Name.Name)
		}
		// emit in dependency order: repeat passes until no progress
		done := map[string]bool{}
		var skipped []string
		var emitted []string
		pending := funcs
		for len(pending) > 0 {
			var next []*ast.FuncDecl
			progress := false
			for _, fd := range pending {
				deps := calledFuncs(fd, funcs, s.recv)
				ready := true
				for _, d := range deps {
					if !done[d] {
						ready = false
					}
				}
				if !ready {
					next = append(next, fd)
					continue
				}
				txt, err := tr.Func(fd, fd.Name.Name)
				if err != nil {
					skipped = append(skipped, fd.Name.Name)
					done[fd.Name.Name] = true // so dependants are attempted (and fail on the call)
					delete(cfg.Calls, fd.Name.Name)
					delete(cfg.Calls, "t."+fd.Name.Name)
					progress = true
					continue
				}
				b.WriteString(txt)
				emitted = append(emitted, fd.Name.Name)
				done[fd.Name.Name] = true
				progress = true
			}
			if !progress {
				for _, fd := range next {
					skipped = append(skipped, fd.Name.Name)
				}
				break
			}
			pending = next
		}
		// dispatcher used by the driver (correspondence): name + typed args -> bytes
		fmt.Fprintf(&b, "def dispatch : String → List Arg → Option Bytes\n")
		for _, fd := range funcs {
			if !done[fd.Name.Name] || contains(skipped, fd.Name.Name) {
				continue
			}
			var pats, args []string
			for _, p := range fd.Type.Params.List {
				for _, n := range p.Names {
					c := ".b"
					if g.ExprText(p.Type) == "uint64" {
						c = ".u"
					}
					pats = append(pats, fmt.Sprintf("%s %s", c, n.Name+"'"))
					args = append(args, n.Name+"'")
				}
			}
			fmt.Fprintf(&b, "  | %q, [%s] => some (%s %s)\n", fd.Name.Name, strings.Join(pats, ", "), fd.Name.Name, strings.Join(args, " "))
		}
		fmt.Fprintf(&b, "  | _, _ => none\n")
		sort.Strings(skipped)
		sort.Strings(emitted)
		fmt.Fprintf(&b, "def skipped : List String := [%s]\n", quoteList(skipped))
		fmt.Fprintf(&b, "def emitted : List String := [%s]\n", quoteList(emitted))
		fmt.Fprintf(&b, "end %s\n\n", s.ns)
	}
	// lib.JoinLenPrefix / DecodeLengthPrefixed: normalised source facts (hand models, tied by R)
	lf, err := g.ParseFile(filepath.Join(*repo, "lib/util.go"))
	if err != nil {
		return "", err
	}
	sf, err := g.ParseFile(filepath.Join(*repo, "store/indexer.go"))
	if err != nil {
		return "", err
	}
	for _, fn := range []string{"key", "encodeBigEndian"} {
		fd := sf.FindFunc("Indexer", fn)
		if fd == nil {
			return "", fmt.Errorf("store/indexer.go: %s not found", fn)
		}
		fmt.Fprintf(&b, "def src_indexer_%s : String := %q\n", fn, g.StmtsText(fd.Body.List))
	}
	kf, err := g.ParseFile(filepath.Join(*repo, "fsm/key.go"))
	if err != nil {
		return "", err
	}
	if fd := kf.FindFunc("", "formatUint64"); fd != nil {
		fmt.Fprintf(&b, "def src_fsm_formatUint64 : String := %q\n", g.StmtsText(fd.Body.List))
	} else {
		return "", fmt.Errorf("fsm/key.go: formatUint64 not found")
	}
	for _, fn := range []string{"JoinLenPrefix", "DecodeLengthPrefixed"} {
		fd := lf.FindFunc("", fn)
		if fd == nil {
			return "", fmt.Errorf("lib/util.go: %s not found", fn)
		}
		fmt.Fprintf(&b, "def src_%s : String := %q\n", fn, g.StmtsText(fd.Body.List))
	}
	// callers that may hold an ABSENT component: JoinLenPrefix drops a nil segment without a marker, so the
	// builders are only injective on present components; the guards live in these two functions
	for _, fn := range []struct{ name, lean string }{{"indexTxByRecipient", "src_store_indexTxByRecipient"}, {"DeleteTxsForHeight", "src_store_DeleteTxsForHeight"}} {
		lines, err := normFunc("store/indexer.go", "Indexer", fn.name)
		if err != nil {
			return "", err
		}
		fmt.Fprintf(&b, "def %s : List String := [\n", fn.lean)
		for i, l := range lines {
			sep := ","
			if i == len(lines)-1 {
				sep = ""
			}
			fmt.Fprintf(&b, "  %q%s\n", l, sep)
		}
		b.WriteString("]\n")
		if fn.name == "DeleteTxsForHeight" {
			// the statements of DeleteTxsForHeight that touch the recipient, with their nesting (indentation)
			var rl []string
			for _, l := range lines {
				if strings.Contains(l, "ecipient") {
					rl = append(rl, l)
				}
			}
			fmt.Fprintf(&b, "def src_store_DeleteTxsForHeight_recipient : List String := [")
			for i, l := range rl {
				if i > 0 {
					b.WriteString(", ")
				}
				fmt.Fprintf(&b, "%q", l)
			}
			b.WriteString("]\n")
		}
	}
	b.WriteString("end Canopy.Gen\n")
	return b.String(), nil
}

func contains(xs []string, x string) bool {
	for _, y := range xs {
		if y == x {
			return true
		}
	}
	return false
}

func quoteList(xs []string) string {
	var q []string
	for _, x := range xs {
		q = append(q, fmt.Sprintf("%q", x))
	}
	return strings.Join(q, ", ")
}

func calledFuncs(fd *ast.FuncDecl, all []*ast.FuncDecl, recv string) []string {
	names := map[string]bool{}
	for _, f := range all {
		names[f.Name.Name] = true
	}
	var out []string
	ast.Inspect(fd.Body, func(n ast.Node) bool {
		c, ok := n.(*ast.CallExpr)
		if !ok {
			return true
		}
		name := g.ExprText(c.Fun)
		name = strings.TrimPrefix(name, "t.")
		if names[name] && name != fd.Name.Name {
			out = append(out, name)
		}
		return true
	})
	return out
}

// uintConsts evaluates package-level `name = uint64(<constant expression>)` declarations (var or const).
func uintConsts(f *g.File, env map[string]uint64) (map[string]uint64, error) {
	out := map[string]uint64{}
	var eval func(e ast.Expr) (uint64, bool)
	eval = func(e ast.Expr) (uint64, bool) {
		switch v := e.(type) {
		case *ast.BasicLit:
			var n uint64
			if _, err := fmt.Sscanf(v.Value, "%d", &n); err != nil {
				return 0, false
			}
			return n, true
		case *ast.ParenExpr:
			return eval(v.X)
		case *ast.Ident, *ast.SelectorExpr:
			if n, ok := env[g.ExprText(e)]; ok {
				return n, true
			}
			if n, ok := out[g.ExprText(e)]; ok {
				return n, true
			}
			return 0, false
		case *ast.CallExpr:
			if g.ExprText(v.Fun) == "uint64" && len(v.Args) == 1 {
				return eval(v.Args[0])
			}
			return 0, false
		case *ast.BinaryExpr:
			x, ok1 := eval(v.X)
			y, ok2 := eval(v.Y)
			if !ok1 || !ok2 {
				return 0, false
			}
			switch v.Op.String() {
			case "+":
				return x + y, true
			case "-":
				return x - y, true
			case "*":
				return x * y, true
			case "/":
				if y == 0 {
					return 0, false
				}
				return x / y, true
			}
		}
		return 0, false
	}
	for _, d := range f.AST.Decls {
		gd, ok := d.(*ast.GenDecl)
		if !ok {
			continue
		}
		for _, sp := range gd.Specs {
			vs, ok := sp.(*ast.ValueSpec)
			if !ok {
				continue
			}
			for i, n := range vs.Names {
				if i < len(vs.Values) {
					if v, ok := eval(vs.Values[i]); ok {
						out[n.Name] = v
					}
				}
			}
		}
	}
	return out, nil
}
