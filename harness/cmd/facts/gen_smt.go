package main

import (
	"fmt"
	"go/ast"
	"go/parser"
	"go/token"
	"path/filepath"
	"sort"
	"strconv"
	"strings"

	g "verifharness/gotolean"
)

func init() { register("SmtFacts", genSmtFacts) }

// genSmtFacts extracts the structural facts the SMT model (C08, C16) depends on but that are not functions:
// the tree constants, the parallel fallback threshold, RootKey, the store prefix table, and WHICH prefix
// Store.Root() writes the commitment tree under versus which one Store.NewReadOnly() builds its tree from.
func genSmtFacts() (string, error) {
	fset := token.NewFileSet()
	smt, err := parser.ParseFile(fset, filepath.Join(*repo, "store/smt.go"), nil, 0)
	if err != nil {
		return "", err
	}
	st, err := parser.ParseFile(fset, filepath.Join(*repo, "store/store.go"), nil, 0)
	if err != nil {
		return "", err
	}
	var b strings.Builder
	b.WriteString("import Canopy.Model.Bytes\nnamespace Canopy.Gen.SmtFacts\nopen Canopy\n\n")

	// integer constants of smt.go
	ints := map[string]int{}
	for _, d := range smt.Decls {
		gd, ok := d.(*ast.GenDecl)
		if !ok || gd.Tok != token.CONST {
			continue
		}
		for _, s := range gd.Specs {
			vs := s.(*ast.ValueSpec)
			for i, n := range vs.Names {
				if i < len(vs.Values) {
					if v, ok := smtEvalInt(vs.Values[i], ints); ok {
						ints[n.Name] = v
					}
				}
			}
		}
	}
	for _, want := range []string{"MaxKeyBitLength", "NumSubtrees", "SubtreePrefixBits"} {
		v, ok := ints[want]
		if !ok {
			return "", fmt.Errorf("store/smt.go: constant %s not found", want)
		}
		fmt.Fprintf(&b, "def %s : Nat := %d\n", smtLowerFirst(want), v)
	}
	// the fallback threshold: first `if len(unsortedOps) < X` of CommitParallel
	cp := smtFindFunc(smt, "SMT", "CommitParallel")
	if cp == nil {
		return "", fmt.Errorf("store/smt.go: (*SMT).CommitParallel not found")
	}
	thr, thrSrc := -1, ""
	ast.Inspect(cp.Body, func(n ast.Node) bool {
		if thr >= 0 {
			return false
		}
		if ifs, ok := n.(*ast.IfStmt); ok {
			if be, ok := ifs.Cond.(*ast.BinaryExpr); ok && be.Op == token.LSS && strings.HasPrefix(g.ExprText(be.X), "len(") {
				if v, ok := smtEvalInt(be.Y, ints); ok {
					thr, thrSrc = v, g.ExprText(be.Y)
				}
			}
		}
		return true
	})
	if thr < 0 {
		return "", fmt.Errorf("CommitParallel: sequential fallback threshold not found")
	}
	fmt.Fprintf(&b, "/-- `if len(unsortedOps) < %s { return s.Commit(unsortedOps) }` -/\ndef parallelFallbackBelow : Nat := %d\n", thrSrc, thr)

	// RootKey
	var rootKey []byte
	for _, d := range smt.Decls {
		gd, ok := d.(*ast.GenDecl)
		if !ok || gd.Tok != token.VAR {
			continue
		}
		for _, s := range gd.Specs {
			vs := s.(*ast.ValueSpec)
			for i, n := range vs.Names {
				if n.Name == "RootKey" && i < len(vs.Values) {
					cl, ok := vs.Values[i].(*ast.CompositeLit)
					if !ok {
						return "", fmt.Errorf("RootKey is not a composite literal")
					}
					for _, e := range cl.Elts {
						v, ok := smtEvalInt(e, ints)
						if !ok {
							return "", fmt.Errorf("RootKey element %s", g.ExprText(e))
						}
						rootKey = append(rootKey, byte(v))
					}
				}
			}
		}
	}
	if rootKey == nil {
		return "", fmt.Errorf("RootKey not found")
	}
	fmt.Fprintf(&b, "def rootKey : Bytes := %s\n", g.BytesLit(rootKey))

	// prefix table of store.go: name = lib.JoinLenPrefix([]byte("x/"))
	prefixes := map[string][]byte{}
	for _, d := range st.Decls {
		gd, ok := d.(*ast.GenDecl)
		if !ok || gd.Tok != token.VAR {
			continue
		}
		for _, s := range gd.Specs {
			vs := s.(*ast.ValueSpec)
			for i, n := range vs.Names {
				if i >= len(vs.Values) || !strings.HasSuffix(n.Name, "Prefix") {
					continue
				}
				call, ok := vs.Values[i].(*ast.CallExpr)
				if !ok || g.ExprText(call.Fun) != "lib.JoinLenPrefix" || len(call.Args) != 1 {
					continue
				}
				conv, ok := call.Args[0].(*ast.CallExpr)
				if !ok || len(conv.Args) != 1 {
					continue
				}
				lit, ok := conv.Args[0].(*ast.BasicLit)
				if !ok || lit.Kind != token.STRING {
					continue
				}
				str, _ := strconv.Unquote(lit.Value)
				prefixes[n.Name] = append([]byte{byte(len(str))}, []byte(str)...)
			}
		}
	}
	names := make([]string, 0, len(prefixes))
	for n := range prefixes {
		names = append(names, n)
	}
	sort.Strings(names)
	var tbl []string
	for _, n := range names {
		tbl = append(tbl, fmt.Sprintf("(%q, %s)", n, g.BytesLit(prefixes[n])))
	}
	fmt.Fprintf(&b, "def prefixTable : List (String × Bytes) := [%s]\n", strings.Join(tbl, ", "))

	// which prefix does the commitment tree live under?  NewDefaultSMT(NewTxn(_, _, PREFIX, …)) in Root() / NewReadOnly()
	treePrefix := func(fn string) (string, error) {
		fd := smtFindFunc(st, "Store", fn)
		if fd == nil {
			return "", fmt.Errorf("store/store.go: (*Store).%s not found", fn)
		}
		found := ""
		ast.Inspect(fd.Body, func(n ast.Node) bool {
			call, ok := n.(*ast.CallExpr)
			if !ok || g.ExprText(call.Fun) != "NewDefaultSMT" || len(call.Args) != 1 {
				return true
			}
			inner, ok := call.Args[0].(*ast.CallExpr)
			if ok && g.ExprText(inner.Fun) == "NewTxn" && len(inner.Args) >= 3 {
				found = g.ExprText(inner.Args[2])
			}
			return true
		})
		if found == "" {
			return "", fmt.Errorf("(*Store).%s: NewDefaultSMT(NewTxn(_, _, prefix, …)) not found", fn)
		}
		if _, ok := prefixes[found]; !ok {
			return "", fmt.Errorf("(*Store).%s: tree prefix %s is not in the prefix table", fn, found)
		}
		return found, nil
	}
	w, err := treePrefix("Root")
	if err != nil {
		return "", err
	}
	r, err := treePrefix("NewReadOnly")
	if err != nil {
		return "", err
	}
	fmt.Fprintf(&b, "/-- `Store.Root()` builds (and `Commit()` persists) the commitment tree under this prefix -/\ndef rootWritesTreeUnder : String := %q\n", w)
	fmt.Fprintf(&b, "/-- `Store.NewReadOnly(v)` builds the tree that serves `GetProof` from this prefix -/\ndef readOnlyReadsTreeFrom : String := %q\n", r)
	// NewReadOnly(): is the `sc` of the returned &Store{…} a fresh NewDefaultSMT(NewTxn(…)) (and nothing else)?
	roFresh, roSc := false, ""
	ast.Inspect(smtFindFunc(st, "Store", "NewReadOnly").Body, func(n ast.Node) bool {
		cl, ok := n.(*ast.CompositeLit)
		if !ok || g.ExprText(cl.Type) != "Store" {
			return true
		}
		for _, e := range cl.Elts {
			if kv, ok := e.(*ast.KeyValueExpr); ok && g.ExprText(kv.Key) == "sc" {
				roSc = g.ExprText(kv.Value)
				if call, ok := kv.Value.(*ast.CallExpr); ok && g.ExprText(call.Fun) == "NewDefaultSMT" && len(call.Args) == 1 {
					inner, ok := call.Args[0].(*ast.CallExpr)
					roFresh = ok && g.ExprText(inner.Fun) == "NewTxn"
				}
			}
		}
		return false
	})
	if roSc == "" {
		return "", fmt.Errorf("(*Store).NewReadOnly: field sc of the &Store{…} literal not found")
	}
	fmt.Fprintf(&b, "/-- `Store.NewReadOnly(v)`: the `sc` of the store it returns is a fresh `NewDefaultSMT(NewTxn(…))` over the database\n(not an object shared with the live store) -/\ndef readOnlyBuildsFreshCommitment : Bool := %v\n", roFresh)
	// does VerifyProof validate the proof's node keys (the repaired algorithm) or reconstruct a throw-away tree?
	vp := smtFindFunc(smt, "SMT", "VerifyProof")
	if vp == nil {
		return "", fmt.Errorf("store/smt.go: (*SMT).VerifyProof not found")
	}
	validates, rebuilds := false, false
	ast.Inspect(vp.Body, func(n ast.Node) bool {
		if call, ok := n.(*ast.CallExpr); ok {
			switch g.ExprText(call.Fun) {
			case "validNodeKey":
				validates = true
			case "NewStoreInMemory", "smt.traverse":
				rebuilds = true
			}
		}
		return true
	})
	if validates == rebuilds {
		return "", fmt.Errorf("VerifyProof: neither the reconstruct-and-traverse algorithm nor the key-validating one (validNodeKey=%v, rebuild=%v)", validates, rebuilds)
	}
	fmt.Fprintf(&b, "/-- `VerifyProof` calls `validNodeKey` on every proof node and no longer rebuilds a throw-away tree -/\ndef verifyProofValidatesKeys : Bool := %v\n", validates)
	// validNodeKey: the bound on untrusted proof-node keys, statement by statement
	boundOK, valueLen := false, false
	if vk := smtFindFunc(smt, "", "validNodeKey"); vk != nil {
		nrm := func(n ast.Node) string {
			switch x := n.(type) {
			case ast.Expr:
				return strings.ReplaceAll(g.ExprText(x), " ", "")
			}
			return ""
		}
		sizeGuard, lastBitsDef, ret := false, false, false
		for _, stt := range vk.Body.List {
			switch x := stt.(type) {
			case *ast.IfStmt:
				if nrm(x.Cond) == "size<2" && len(x.Body.List) == 1 {
					if r, ok := x.Body.List[0].(*ast.ReturnStmt); ok && len(r.Results) == 1 && nrm(r.Results[0]) == "false" {
						sizeGuard = true
					}
				}
			case *ast.AssignStmt:
				if len(x.Lhs) == 1 && len(x.Rhs) == 1 && nrm(x.Lhs[0]) == "lastBits" && nrm(x.Rhs[0]) == "leftPadding+max(bits.Len8(last),1)" {
					lastBitsDef = true
				}
			case *ast.ReturnStmt:
				if len(x.Results) == 1 && nrm(x.Results[0]) == "lastBits<=8&&(size-2)*8+lastBits<=maxBits" {
					ret = true
				}
			}
		}
		boundOK = sizeGuard && lastBitsDef && ret
	}
	ast.Inspect(vp.Body, func(n ast.Node) bool {
		if call, ok := n.(*ast.CallExpr); ok && strings.HasSuffix(g.ExprText(call.Fun), "validNodeValue") {
			valueLen = true
		}
		return true
	})
	// validNodeValue: hash-sized, or 20 bytes for EXACTLY the two reserved leaf keys (byte equality, not a prefix test)
	valueRuleExact := false
	if vv := smtFindFunc(smt, "SMT", "validNodeValue"); vv != nil && len(vv.Body.List) == 2 {
		nrm := func(e ast.Expr) string { return strings.ReplaceAll(g.ExprText(e), " ", "") }
		first, second := false, false
		if ifs, ok := vv.Body.List[0].(*ast.IfStmt); ok && nrm(ifs.Cond) == "len(n.Value)==crypto.HashSize" && len(ifs.Body.List) == 1 {
			if r, ok := ifs.Body.List[0].(*ast.ReturnStmt); ok && len(r.Results) == 1 && nrm(r.Results[0]) == "true" {
				first = true
			}
		}
		if r, ok := vv.Body.List[1].(*ast.ReturnStmt); ok && len(r.Results) == 1 &&
			nrm(r.Results[0]) == "len(n.Value)==20&&(bytes.Equal(n.Key,s.minKey.bytes())||bytes.Equal(n.Key,s.maxKey.bytes()))" {
			second = true
		}
		valueRuleExact = first && second
	}
	fmt.Fprintf(&b, "/-- `validNodeValue`: `if len(n.Value) == crypto.HashSize { return true }` then\n`return len(n.Value) == 20 && (bytes.Equal(n.Key, s.minKey.bytes()) || bytes.Equal(n.Key, s.maxKey.bytes()))` -/\ndef validNodeValueExactReservedKeys : Bool := %v\n", valueRuleExact)
	fmt.Fprintf(&b, "/-- `validNodeKey`: `if size < 2 { return false }`, `lastBits := leftPadding + max(bits.Len8(last), 1)`,\n`return lastBits <= 8 && (size-2)*8+lastBits <= maxBits` — the TOTAL number of key bits is bounded by the tree's key length -/\ndef validNodeKeyBoundsTotalBits : Bool := %v\n", boundOK)
	fmt.Fprintf(&b, "/-- `VerifyProof` also checks the length of every proof node's value (`validNodeValue`) -/\ndef verifyProofChecksValueLength : Bool := %v\n", valueLen)
	fmt.Fprintf(&b, "def rootWritesPrefix : Bytes := %s\ndef readOnlyReadsPrefix : Bytes := %s\n", g.BytesLit(prefixes[w]), g.BytesLit(prefixes[r]))
	// the comparators that order a batch before it is committed, TRANSLATED from their closures:
	//   Commit():                 sort.Slice(s.operations, func(i, j int) bool { return s.operations[i].Key.cmp(s.operations[j].Key) < 0 })
	//   sortOperationsByPrefix(): sort.Slice(groups[i],    func(a, b int) bool { return groups[i][a].Key.cmp(groups[i][b].Key) < 0 })
	// accepted subset: a closure whose body is the single statement `return X.cmp(Y) < 0` with X, Y the two elements
	translateLess := func(fn, slice string) (string, error) {
		fd := smtFindFunc(smt, "SMT", fn)
		if fd == nil {
			return "", fmt.Errorf("store/smt.go: (*SMT).%s not found", fn)
		}
		out, cnt := "", 0
		var terr error
		ast.Inspect(fd.Body, func(n ast.Node) bool {
			call, ok := n.(*ast.CallExpr)
			if !ok || g.ExprText(call.Fun) != "sort.Slice" || len(call.Args) != 2 {
				return true
			}
			if strings.ReplaceAll(g.ExprText(call.Args[0]), " ", "") != slice {
				return true
			}
			cnt++
			lit, ok := call.Args[1].(*ast.FuncLit)
			if !ok || len(lit.Type.Params.List) != 1 || len(lit.Type.Params.List[0].Names) != 2 {
				terr = fmt.Errorf("%s: comparator is not a two-argument closure", fn)
				return false
			}
			x, y := lit.Type.Params.List[0].Names[0].Name, lit.Type.Params.List[0].Names[1].Name
			if len(lit.Body.List) != 1 {
				terr = fmt.Errorf("%s: comparator closure has %d statements; the translator accepts the single statement `return X.cmp(Y) < 0`", fn, len(lit.Body.List))
				return false
			}
			ret, ok := lit.Body.List[0].(*ast.ReturnStmt)
			if !ok || len(ret.Results) != 1 {
				terr = fmt.Errorf("%s: comparator closure is not a single return", fn)
				return false
			}
			be, ok := ret.Results[0].(*ast.BinaryExpr)
			if !ok || be.Op != token.LSS || strings.TrimSpace(g.ExprText(be.Y)) != "0" {
				terr = fmt.Errorf("%s: comparator is not of the form `… < 0`: %s", fn, g.ExprText(ret.Results[0]))
				return false
			}
			cc, ok := be.X.(*ast.CallExpr)
			sel, ok2 := cc.Fun.(*ast.SelectorExpr)
			if !ok || !ok2 || sel.Sel.Name != "cmp" || len(cc.Args) != 1 {
				terr = fmt.Errorf("%s: comparator does not call key.cmp: %s", fn, g.ExprText(be.X))
				return false
			}
			side := func(e ast.Expr) (string, bool) {
				t := strings.ReplaceAll(g.ExprText(e), " ", "")
				switch t {
				case slice + "[" + x + "].Key":
					return "ka", true
				case slice + "[" + y + "].Key":
					return "kb", true
				}
				return "", false
			}
			l, okl := side(sel.X)
			r, okr := side(cc.Args[0])
			if !okl || !okr {
				terr = fmt.Errorf("%s: comparator operands are not the two elements: %s", fn, g.ExprText(be.X))
				return false
			}
			out = fmt.Sprintf("decide (cmp %s %s < 0)", l, r)
			return false
		})
		if terr != nil {
			return "", terr
		}
		if cnt != 1 || out == "" {
			return "", fmt.Errorf("%s: expected exactly one sort.Slice(%s, …)", fn, slice)
		}
		return out, nil
	}
	seqLess, err := translateLess("Commit", "s.operations")
	if err != nil {
		return "", err
	}
	parLess, err := translateLess("sortOperationsByPrefix", "groups[i]")
	if err != nil {
		return "", err
	}
	fmt.Fprintf(&b, "/-- translated from the closure of `sort.Slice(s.operations, …)` in `(*SMT).Commit`; `cmp` is `key.cmp` -/\ndef sequentialSortLess (cmp : List Bool → List Bool → Int) (ka kb : List Bool) : Bool := %s\n", seqLess)
	fmt.Fprintf(&b, "/-- translated from the closure of `sort.Slice(groups[i], …)` in `(*SMT).sortOperationsByPrefix` (what each worker of CommitParallel receives) -/\ndef parallelSortLess (cmp : List Bool → List Bool → Int) (ka kb : List Bool) : Bool := %s\n", parLess)
	// valueOpToSMTNode: the leaf of a set commits to crypto.Hash(value) of the key crypto.Hash(key), whatever the value is
	hashesAlways := false
	if vo := smtFindFunc(smt, "SMT", "valueOpToSMTNode"); vo != nil {
		valueAssigns, good, keyOK := 0, 0, false
		ast.Inspect(vo.Body, func(n ast.Node) bool {
			switch x := n.(type) {
			case *ast.AssignStmt:
				for i, l := range x.Lhs {
					lt := strings.ReplaceAll(g.ExprText(l), " ", "")
					if lt == "n.Node.Value" || lt == "n.Value" {
						valueAssigns++
						if i < len(x.Rhs) && strings.ReplaceAll(g.ExprText(x.Rhs[i]), " ", "") == "crypto.Hash(operation.value)" {
							good++
						}
					}
				}
			case *ast.CallExpr:
				if strings.ReplaceAll(g.ExprText(x), " ", "") == "newNodeKey(crypto.Hash(operation.key),s.keyBitLength)" {
					keyOK = true
				}
			}
			return true
		})
		hashesAlways = valueAssigns == 1 && good == 1 && keyOK
	}
	fmt.Fprintf(&b, "/-- `valueOpToSMTNode`: the only assignment to the leaf value is `crypto.Hash(operation.value)`, the key is `newNodeKey(crypto.Hash(operation.key), s.keyBitLength)` -/\ndef leafCommitsToHashOfValue : Bool := %v\n", hashesAlways)
	// Store.Root(): what is handed to the tree? expected: exactly the pending state operations `s.ss.txn.ops`
	rootArg := ""
	if rf := smtFindFunc(st, "Store", "Root"); rf != nil {
		ast.Inspect(rf.Body, func(n ast.Node) bool {
			if call, ok := n.(*ast.CallExpr); ok && strings.HasSuffix(g.ExprText(call.Fun), ".CommitParallel") && len(call.Args) == 1 {
				rootArg = strings.ReplaceAll(g.ExprText(call.Args[0]), " ", "")
			}
			return true
		})
	}
	if rootArg == "" {
		return "", fmt.Errorf("(*Store).Root: call of CommitParallel not found")
	}
	fmt.Fprintf(&b, "/-- `Store.Root()` commits `s.sc.CommitParallel(%s)`: the tree receives exactly the pending state operations, unfiltered -/\ndef rootCommitsPendingOpsUnfiltered : Bool := %v\n", rootArg, rootArg == "s.ss.txn.ops")
	// Store.Commit(): where does the committed root come from? expected: ONE assignment to `root` in the whole body, a
	// top-level statement `root, err = s.Root()` (unconditional)
	cmFd := smtFindFunc(st, "Store", "Commit")
	if cmFd == nil {
		return "", fmt.Errorf("store/store.go: (*Store).Commit not found")
	}
	rootAssigns, rootTop := 0, false
	ast.Inspect(cmFd.Body, func(n ast.Node) bool {
		as, ok := n.(*ast.AssignStmt)
		if !ok {
			return true
		}
		for _, l := range as.Lhs {
			if g.ExprText(l) == "root" {
				rootAssigns++
			}
		}
		return true
	})
	for _, stmt := range cmFd.Body.List {
		if as, ok := stmt.(*ast.AssignStmt); ok && len(as.Lhs) == 2 && g.ExprText(as.Lhs[0]) == "root" && len(as.Rhs) == 1 &&
			strings.ReplaceAll(g.ExprText(as.Rhs[0]), " ", "") == "s.Root()" {
			rootTop = true
		}
	}
	if rootAssigns == 0 {
		return "", fmt.Errorf("(*Store).Commit: no assignment to root found")
	}
	fmt.Fprintf(&b, "/-- `Store.Commit()`: `root` is assigned %d time(s) in the body; the assignment is the top-level, unconditional\nstatement `root, err = s.Root()` -/\ndef commitTakesRootFromRoot : Bool := %v\n", rootAssigns, rootAssigns == 1 && rootTop)
	// Store.Rollback(): the key-space prefixes pruned above the target height (the `[][]byte{…}` literal ranged over)
	rbFd := smtFindFunc(st, "Store", "Rollback")
	if rbFd == nil {
		return "", fmt.Errorf("store/store.go: (*Store).Rollback not found")
	}
	var pruned []string
	ast.Inspect(rbFd.Body, func(n ast.Node) bool {
		rs, ok := n.(*ast.RangeStmt)
		if !ok {
			return true
		}
		cl, ok := rs.X.(*ast.CompositeLit)
		if !ok || strings.ReplaceAll(g.ExprText(cl.Type), " ", "") != "[][]byte" {
			return true
		}
		callsPrune := false
		ast.Inspect(rs.Body, func(m ast.Node) bool {
			if c, ok := m.(*ast.CallExpr); ok && strings.HasSuffix(g.ExprText(c.Fun), ".pruneVersionWindow") {
				callsPrune = true
			}
			return true
		})
		if callsPrune {
			for _, e := range cl.Elts {
				pruned = append(pruned, g.ExprText(e))
			}
		}
		return true
	})
	if len(pruned) == 0 {
		return "", fmt.Errorf("(*Store).Rollback: the list of pruned prefixes (range over [][]byte{…} calling pruneVersionWindow) not found")
	}
	var prunedLits []string
	for _, name := range pruned {
		pb, ok := prefixes[name]
		if !ok {
			return "", fmt.Errorf("(*Store).Rollback: pruned prefix %s is not in the prefix table", name)
		}
		prunedLits = append(prunedLits, g.BytesLit(pb))
	}
	fmt.Fprintf(&b, "/-- `Store.Rollback(v)` deletes every entry above `v` under these prefixes: %s -/\ndef rollbackPrunedPrefixes : List Bytes := [%s]\n", strings.Join(pruned, ", "), strings.Join(prunedLits, ", "))
	// Store.Copy(): which fields of the clone are taken over from the source store as they are (shared objects)?
	cpFd := smtFindFunc(st, "Store", "Copy")
	if cpFd == nil {
		return "", fmt.Errorf("store/store.go: (*Store).Copy not found")
	}
	var shared, fresh []string
	foundLit := false
	ast.Inspect(cpFd.Body, func(n ast.Node) bool {
		cl, ok := n.(*ast.CompositeLit)
		if !ok || g.ExprText(cl.Type) != "Store" {
			return true
		}
		foundLit = true
		for _, e := range cl.Elts {
			kv, ok := e.(*ast.KeyValueExpr)
			if !ok {
				continue
			}
			name := g.ExprText(kv.Key)
			if strings.ReplaceAll(g.ExprText(kv.Value), " ", "") == "s."+name {
				shared = append(shared, name)
			} else {
				fresh = append(fresh, name)
			}
		}
		return false
	})
	if !foundLit {
		return "", fmt.Errorf("(*Store).Copy: composite literal &Store{…} not found")
	}
	sort.Strings(shared)
	sort.Strings(fresh)
	carries := false
	for _, f := range append(append([]string{}, shared...), fresh...) {
		carries = carries || f == "sc"
	}
	fmt.Fprintf(&b, "/-- `Store.Copy()`: fields the clone shares with the source (`f: s.f`): %s; fields built anew: %s -/\ndef copySharedFieldCount : Nat := %d\n",
		strings.Join(shared, ", "), strings.Join(fresh, ", "), len(shared))
	fmt.Fprintf(&b, "/-- `Store.Copy()` sets the clone's cached state-commitment object `sc` (in any way) -/\ndef copyCarriesCommitment : Bool := %v\n", carries)
	// node cache discipline of setNode / getNode / delNode (C08: cache coherence)
	maxCache, ok := ints["MaxCacheSize"]
	if !ok {
		return "", fmt.Errorf("store/smt.go: constant MaxCacheSize not found")
	}
	norm := func(e ast.Expr) string { return strings.ReplaceAll(g.ExprText(e), " ", "") }
	isCacheIndex := func(e ast.Expr) bool {
		ix, ok := e.(*ast.IndexExpr)
		return ok && norm(ix.X) == "s.nodeCache"
	}
	// cacheWrite classifies where `s.nodeCache[…] = …` happens in a function: "always" (a top-level statement),
	// "below" (inside `if len(s.nodeCache) < MaxCacheSize {…}` without else), "" (absent), or an error for any other shape
	cacheWrite := func(fd *ast.FuncDecl) (string, int, error) {
		found, at := "", -1
		for i, st := range fd.Body.List {
			switch x := st.(type) {
			case *ast.AssignStmt:
				if len(x.Lhs) == 1 && isCacheIndex(x.Lhs[0]) {
					found, at = "always", i
				}
			case *ast.IfStmt:
				writes := false
				ast.Inspect(x, func(n ast.Node) bool {
					if as, ok := n.(*ast.AssignStmt); ok && len(as.Lhs) == 1 && isCacheIndex(as.Lhs[0]) {
						writes = true
					}
					return true
				})
				if writes {
					if norm(x.Cond) != "len(s.nodeCache)<MaxCacheSize" || x.Else != nil {
						return "", 0, fmt.Errorf("%s: cache write under an unrecognised condition `%s`", fd.Name.Name, g.ExprText(x.Cond))
					}
					found, at = "below", i
				}
			}
		}
		return found, at, nil
	}
	setFd, getFd, delFd := smtFindFunc(smt, "SMT", "setNode"), smtFindFunc(smt, "SMT", "getNode"), smtFindFunc(smt, "SMT", "delNode")
	if setFd == nil || getFd == nil || delFd == nil {
		return "", fmt.Errorf("store/smt.go: setNode/getNode/delNode not found")
	}
	setW, setAt, err := cacheWrite(setFd)
	if err != nil {
		return "", err
	}
	if setW == "" {
		return "", fmt.Errorf("setNode: no write to s.nodeCache found")
	}
	// the drop: `if len(s.nodeCache) >= MaxCacheSize { s.nodeCache = make(…) }` before the write
	drops := false
	for i, st := range setFd.Body.List {
		if ifs, ok := st.(*ast.IfStmt); ok && norm(ifs.Cond) == "len(s.nodeCache)>=MaxCacheSize" && i < setAt {
			for _, b2 := range ifs.Body.List {
				if as, ok := b2.(*ast.AssignStmt); ok && len(as.Lhs) == 1 && norm(as.Lhs[0]) == "s.nodeCache" {
					drops = true
				}
			}
		}
	}
	getW, _, err := cacheWrite(getFd)
	if err != nil {
		return "", err
	}
	evicts := false
	for _, st := range delFd.Body.List {
		if es, ok := st.(*ast.ExprStmt); ok {
			if call, ok := es.X.(*ast.CallExpr); ok && norm(call.Fun) == "delete" && len(call.Args) == 2 && norm(call.Args[0]) == "s.nodeCache" {
				evicts = true
			}
		}
	}
	// who else touches individual cache entries? (whole-cache resets `x.nodeCache = make(…)` are harmless drops)
	var writers []string
	for _, d := range smt.Decls {
		fd, ok := d.(*ast.FuncDecl)
		if !ok || fd.Body == nil {
			continue
		}
		touches := false
		ast.Inspect(fd.Body, func(n ast.Node) bool {
			switch x := n.(type) {
			case *ast.AssignStmt:
				for _, l := range x.Lhs {
					if ix, ok := l.(*ast.IndexExpr); ok && strings.HasSuffix(norm(ix.X), ".nodeCache") {
						touches = true
					}
				}
			case *ast.CallExpr:
				if norm(x.Fun) == "delete" && len(x.Args) == 2 && strings.HasSuffix(norm(x.Args[0]), ".nodeCache") {
					touches = true
				}
			}
			return true
		})
		if touches {
			writers = append(writers, fd.Name.Name)
		}
	}
	sort.Strings(writers)
	fmt.Fprintf(&b, "/-- functions of store/smt.go that write or delete individual node-cache entries: %s -/\ndef nodeCacheEntriesTouchedOnlyByGetSetDel : Bool := %v\n",
		strings.Join(writers, ", "), strings.Join(writers, ",") == "delNode,getNode,setNode")
	fmt.Fprintf(&b, "/-- node cache (setNode / getNode / delNode) -/\ndef maxCacheSize : Nat := %d\n", maxCache)
	fmt.Fprintf(&b, "/-- setNode: `if len(s.nodeCache) >= MaxCacheSize { s.nodeCache = make(…) }` before the cache write -/\ndef setNodeDropsAtCapacity : Bool := %v\n", drops)
	fmt.Fprintf(&b, "/-- setNode: `s.nodeCache[key] = n` is an unconditional statement of the function body -/\ndef setNodeWritesCacheAlways : Bool := %v\n", setW == "always")
	fmt.Fprintf(&b, "/-- setNode: the cache write is under `if len(s.nodeCache) < MaxCacheSize` -/\ndef setNodeWritesCacheBelowCapacity : Bool := %v\n", setW == "below")
	fmt.Fprintf(&b, "/-- getNode: a node read from the store is cached unconditionally / only under `len(s.nodeCache) < MaxCacheSize` -/\ndef getNodeAdmitsAlways : Bool := %v\ndef getNodeAdmitsBelowCapacity : Bool := %v\n", getW == "always", getW == "below")
	fmt.Fprintf(&b, "/-- delNode: `delete(s.nodeCache, key)` is an unconditional statement of the function body -/\ndef delNodeEvicts : Bool := %v\n", evicts)
	b.WriteString("\nend Canopy.Gen.SmtFacts\n")
	return b.String(), nil
}

func smtLowerFirst(s string) string { return strings.ToLower(s[:1]) + s[1:] }

func smtFindFunc(f *ast.File, recv, name string) *ast.FuncDecl {
	for _, d := range f.Decls {
		fd, ok := d.(*ast.FuncDecl)
		if !ok || fd.Name.Name != name || fd.Body == nil {
			continue
		}
		r := ""
		if fd.Recv != nil && len(fd.Recv.List) == 1 {
			r = strings.TrimPrefix(g.ExprText(fd.Recv.List[0].Type), "*")
		}
		if r == recv {
			return fd
		}
	}
	return nil
}

// smtEvalInt evaluates integer literals, known constants, and + - * of those.
func smtEvalInt(e ast.Expr, env map[string]int) (int, bool) {
	switch x := e.(type) {
	case *ast.BasicLit:
		if x.Kind == token.INT {
			v, err := strconv.ParseInt(x.Value, 0, 64)
			return int(v), err == nil
		}
	case *ast.Ident:
		v, ok := env[x.Name]
		return v, ok
	case *ast.ParenExpr:
		return smtEvalInt(x.X, env)
	case *ast.BinaryExpr:
		a, ok1 := smtEvalInt(x.X, env)
		c, ok2 := smtEvalInt(x.Y, env)
		if ok1 && ok2 {
			switch x.Op {
			case token.ADD:
				return a + c, true
			case token.SUB:
				return a - c, true
			case token.MUL:
				return a * c, true
			}
		}
	}
	return 0, false
}
