package main

import (
	"verifharness/c19"
	"verifharness/drv"
)

func main() { drv.Main("C19", c19.RunKeys) }
