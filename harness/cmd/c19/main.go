package main

import (
	"verifharness/c19"
	"verifharness/drv"
)

func main() {
	drv.Main("C19", func(o *drv.Out) {
		c19.RunKeys(o)      // (a) store keys, segment codec
		c19.RunIndexUse(o)  // (a) index keys as the real indexer writes and scans them (absent components, alias addresses)
		c19.RunPoolIds(o)   // (a) pool ids = chain id + kind addend
		c19.RunSignBytes(o) // (b) sign bytes of certificates / consensus messages
		c19.RunDecoders(o)  // (c) decoders of untrusted bytes and the handlers behind them
		c19.RunCritical(o)  // (c) unknown fields / oversize lists at every nesting position of the critical messages
		c19.RunWrappers(o)  // (b) RLP-backed transactions: one signed Ethereum payload, one wrapper
		c19.RunMerkle(o)    // (b) Merkle roots: transaction root / validator root, same-length injectivity
		c19.RunHandlers(o)  // (c) signed-but-malformed consensus messages through the real bft.HandleMessage
	})
}
