package main

import (
	"verifharness/c06"
	"verifharness/drv"
)

func main() { drv.Main("C06", c06.Run) }
