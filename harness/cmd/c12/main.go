package main

import (
	"verifharness/c12"
	"verifharness/drv"
)

func main() { drv.Main("C12", c12.Run) }
