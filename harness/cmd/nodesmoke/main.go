// nodesmoke exercises harness/node end to end once: propose on A, validate on B, commit on both by
// different paths, restart B, sync a fresh node C from A's archive; prints heights and equalities.
package main

import (
	"encoding/hex"
	"fmt"
	"os"
	"time"

	"github.com/canopy-network/canopy/lib"
	"verifharness/node"
)

func must(err lib.ErrorI, what string) {
	if err != nil {
		fmt.Println("FAIL", what, err.Error())
		os.Exit(1)
	}
}

func main() {
	t0 := time.Now()
	net := node.NewNetwork(1, 4, []uint64{4e9, 3e9, 2e9, 1e9}, 8)
	defer net.Close()
	a, b := net.NewNode(0), net.NewNode(1)
	fmt.Printf("nodes up in %v, height %d, state %s\n", time.Since(t0), a.Height(), a.StateDigest())
	for h := 0; h < 3; h++ {
		for i := 0; i < 5; i++ {
			must(a.Submit(net.SendTx(net.AcctKeys[i], net.FreshAddr(h*10+i), 1000+uint64(i), 10000, a.Height(), "")), "submit")
		}
		// one failing tx: insufficient funds
		must(a.Submit(net.SendTx(net.AcctKeys[5], net.FreshAddr(99), 1<<62, 10000, a.Height(), "")), "submit")
		block, results, rc, err := a.Propose()
		must(err, "propose")
		vs := a.Committee()
		prop := net.Certify(vs, block, results, net.AllSigners(), lib.Phase_PROPOSE, rc, a.Key)
		_, err = b.Validate(prop, rc)
		must(err, "validate")
		qc := net.Certify(vs, block, results, []int{0, 1, 2}, lib.Phase_PRECOMMIT_VOTE, rc, a.Key)
		must(a.HandlePeerBlock(qc, false), "A commit (replay)")
		must(b.HandlePeerBlock(qc, false), "B commit (cached)")
		hd := a.Header(a.Height() - 1)
		fmt.Printf("height %d: txs=%d hash=%s A==B:%v state A==B:%v mempool=%d\n", hd.Height, hd.NumTxs, hex.EncodeToString(hd.Hash)[:16],
			a.HeaderBytes(hd.Height) == b.HeaderBytes(hd.Height), a.StateDigest() == b.StateDigest(), a.MempoolCount())
	}
	if stage, err := b.Reopen(); err != nil {
		must(err, "reopen: "+stage)
	}
	fmt.Printf("B reopened: height %d state==A:%v\n", b.Height(), a.StateDigest() == b.StateDigest())
	c := net.NewNode(-1)
	for h := uint64(1); h < a.Height(); h++ {
		wire, err := a.Serve(h)
		must(err, "serve")
		c.PurgeProcessCaches()
		must(c.HandlePeerBlockBytes(wire, true), fmt.Sprintf("C sync %d", h))
	}
	fmt.Printf("C synced: height %d state==A:%v header==A:%v\n", c.Height(), a.StateDigest() == c.StateDigest(), a.HeaderBytes(3) == c.HeaderBytes(3))
	fmt.Printf("total %v\n", time.Since(t0))
}
