package main

import (
	"os"

	"verifharness/c16"
	"verifharness/drv"
)

func main() {
	if len(os.Args) > 1 && os.Args[1] == "worker" {
		c16.WorkerMain()
		return
	}
	drv.Main("C16", c16.Run)
}
