package main

import (
	"bytes"
	"encoding/json"
	"fmt"
	"io"
	"os"
	"os/exec"
	"path/filepath"
	"strconv"
	"strings"

	"verifharness/c16"
	"verifharness/drv"
)

func main() {
	if len(os.Args) > 1 && os.Args[1] == "worker" {
		c16.WorkerMain()
		return
	}
	if os.Getenv("C16_CHILD") == "1" {
		drv.Main("C16", c16.Run)
		return
	}
	// supervisor: the driver runs in a child process. An unrecovered panic in a goroutine of the real code (a
	// CommitParallel worker) kills that child; the supervisor then writes the run's stats with the oracle failure
	// C16:process-crash-in-real-code (case, operation in progress, history so far, panic message and stack).
	exe, err := os.Executable()
	if err != nil {
		panic(err)
	}
	cmd := exec.Command(exe, os.Args[1:]...)
	cmd.Env = append(os.Environ(), "C16_CHILD=1")
	var errBuf bytes.Buffer
	cmd.Stdout, cmd.Stderr = os.Stdout, io.MultiWriter(os.Stderr, &errBuf)
	runErr := cmd.Run()
	if runErr == nil {
		return
	}
	out, seed, tier := "", int64(1), "quick"
	for i, a := range os.Args {
		if i+1 < len(os.Args) {
			switch strings.TrimLeft(a, "-") {
			case "out":
				out = os.Args[i+1]
			case "seed":
				seed, _ = strconv.ParseInt(os.Args[i+1], 10, 64)
			case "tier":
				tier = os.Args[i+1]
			}
		}
	}
	if out == "" {
		os.Exit(2)
	}
	if _, e := os.Stat(filepath.Join(out, "stats.json")); e == nil {
		os.Exit(1) // the child finished its run and failed afterwards
	}
	var note c16.ProgressNote
	if bz, e := os.ReadFile(filepath.Join(out, "progress.json")); e == nil {
		json.Unmarshal(bz, &note)
	}
	stderr := errBuf.String()
	first := stderr
	if i := strings.Index(first, "\n"); i >= 0 {
		first = first[:i]
	}
	if len(stderr) > 3000 {
		stderr = stderr[:3000]
	}
	st := map[string]any{
		"seed": seed, "tier": tier, "ops": 0, "cases": 0, "distinct_nontrivial": 0, "histogram": map[string]int{"oracle:C16:process-crash-in-real-code": 1},
		"oracle_failures": append(note.Failures, drv.OracleFailure{
			Signature: "C16:process-crash-in-real-code",
			Desc:      fmt.Sprintf("the driver process died (%v) during %q of case %q: %s", runErr, note.InFlight, note.Case, first),
			Case:      note.Case,
			Replay:    map[string]any{"history": note.History, "op_in_progress": note.InFlight, "stderr": stderr},
		}),
		"samples": []string{}, "extra": map[string]any{},
	}
	bz, _ := json.MarshalIndent(st, "", " ")
	if e := os.WriteFile(filepath.Join(out, "stats.json"), bz, 0o644); e != nil {
		panic(e)
	}
}
