package main

import (
	"verifharness/c11"
	"verifharness/drv"
)

func main() { drv.Main("C11", c11.Run) }
