// drive runs the correspondence driver of one property against the real code (built from /repo's
// working tree with -tags verif) and writes ops.txt / impl.txt / stats.json into -out.
package main

import (
	"flag"
	"fmt"
	"os"

	"verifharness/c19"
	"verifharness/drv"
)

var runners = map[string]func(o *drv.Out){
	"C19": func(o *drv.Out) { c19.RunKeys(o) },
}

func main() {
	seed := flag.Int64("seed", 1, "PRNG seed (VERIF_SEED)")
	tier := flag.String("tier", "quick", "quick|thorough")
	out := flag.String("out", "", "output directory")
	search := flag.Bool("search", false, "an obligation broke: bias generators towards finding a failing input")
	flag.Parse()
	if flag.NArg() != 1 || *out == "" {
		fmt.Fprintln(os.Stderr, "usage: drive -seed N -tier quick|thorough -out DIR <Cxx>")
		os.Exit(2)
	}
	run, ok := runners[flag.Arg(0)]
	if !ok {
		fmt.Fprintln(os.Stderr, "no driver for", flag.Arg(0))
		os.Exit(2)
	}
	o, err := drv.New(*out, *seed, *tier)
	if err != nil {
		panic(err)
	}
	o.Search = *search
	run(o)
	if err := o.Close(); err != nil {
		panic(err)
	}
}
