package main

import (
	"verifharness/c13"
	"verifharness/drv"
)

func main() { drv.Main("C13", c13.Run) }
