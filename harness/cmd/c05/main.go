package main

import (
	"verifharness/c05"
	"verifharness/drv"
)

func main() { drv.Main("C05", c05.Run) }
