package c14

import (
	"fmt"
	"math/rand"
	"strings"

	"github.com/canopy-network/canopy/bft"
	"github.com/canopy-network/canopy/lib"

	"verifharness/drv"
	"verifharness/fsmutil"
)

func Run(o *drv.Out) {
	nEv, nLed := 12, 30
	if o.Tier == "thorough" {
		nEv, nLed = 150, 500
	}
	if o.Search {
		nEv, nLed = nEv*2, nLed*2
	}
	// corpus first: the scenario in which the oracle found expired evidence accepted (repaired in c09f5c7)
	runCorpusExpired(o)
	// certificate results of a nested committee on the root chain (the slash list a proposer supplies there)
	nCr := 3
	if o.Tier == "thorough" {
		nCr = 20
	}
	for i := 0; i < nCr; i++ {
		runCertResultsCase(o, i)
	}
	for i := 0; i < nEv; i++ {
		runEvidenceCase(o, i, i%3 == 2)
	}
	for i := 0; i < nLed; i++ {
		runLedgerCase(o, i)
	}
}

// ---------------------------------------------------------------------------------------------

func pick(r *rand.Rand, n, k int) []int {
	p := r.Perm(n)
	if k > n {
		k = n
	}
	return p[:k]
}

func runEvidenceCase(o *drv.Out, ci int, wired bool) {
	r := o.Rng
	o.Case(fmt.Sprintf("ev%d", ci))
	ec := &evCase{o: o, w: &world{signed: map[string]map[string]map[string]bool{}}, byz: map[*val]bool{}, wired: wired}
	ec.c = &ctrl{committees: map[uint64]*committee{}, mins: map[uint64]uint64{}, slashed: map[string]bool{}}

	// ---- the root chain: in wired mode a REAL state machine several blocks old answers the expiry bound
	ec.unstaking = uint64(2 + r.Intn(3))
	var root *chainFSM
	if wired {
		var gvs []genVal
		for _, v := range vals[:4] {
			gvs = append(gvs, genVal{v, 1000000, []uint64{1}})
		}
		var err error
		root, err = newChain(gvs, true, 15, 10, ec.unstaking, 0)
		if err != nil {
			panic(err)
		}
		defer root.close()
		nblocks := 8 + r.Intn(6)
		for i := 0; i < nblocks; i++ {
			root.endBlock()
		}
		ec.curRoot = root.sm.Height()
		ec.c.minFn = root.minEvidenceAt
	} else {
		ec.curRoot = uint64(12 + r.Intn(6))
	}

	// ---- committees at several root heights: R0 (old), R1, R2 = same keys as R1 in another order, R3 (recent)
	sizes := []int{3, 4, 5, 7, 8, 9}
	nm := sizes[r.Intn(len(sizes))]
	// Byzantine validators (equivocate wherever they can); every committee contains them, most of the time
	nbyz := 1 + r.Intn(2)
	var byzList []*val
	for _, i := range pick(r, len(vals), nbyz) {
		ec.byz[vals[i]] = true
		byzList = append(byzList, vals[i])
	}
	members := func() ([]*val, []uint64) {
		var ms []*val
		var pw []uint64
		in := map[*val]bool{}
		if r.Intn(5) != 0 {
			for _, v := range byzList {
				ms = append(ms, v)
				in[v] = true
			}
		}
		for _, i := range r.Perm(len(vals)) {
			if len(ms) >= nm {
				break
			}
			if !in[vals[i]] {
				ms = append(ms, vals[i])
			}
		}
		r.Shuffle(len(ms), func(i, j int) { ms[i], ms[j] = ms[j], ms[i] })
		for range ms {
			pw = append(pw, uint64(1+r.Intn(20)))
		}
		return ms, pw
	}
	// root heights of the evidence: one expired (long ago, or by one), the boundary, a recent one, the current one
	rhs := []uint64{1 + uint64(r.Intn(2)), ec.curRoot - ec.unstaking, ec.curRoot - 1, ec.curRoot}
	if r.Intn(2) == 0 {
		rhs[0] = ec.curRoot - ec.unstaking - 1
	}
	ms1, pw1 := members()
	for i, rh := range rhs {
		switch i {
		case 2: // same keys as the committee before, other order and powers: the same bitmap selects other members
			p := r.Perm(len(ms1))
			var ms []*val
			var pw []uint64
			for _, j := range p {
				ms = append(ms, ms1[j])
				pw = append(pw, uint64(1+r.Intn(20)))
			}
			ec.c.committees[rh] = newCommittee(ms, pw)
		case 1:
			ec.c.committees[rh] = newCommittee(ms1, pw1)
		default:
			ms, pw := members()
			ec.c.committees[rh] = newCommittee(ms, pw)
		}
	}
	// the expiry bound the controller answers when asked as of the replica's root height (table mode): the
	// property's own bound, with a few deviations
	if !wired {
		switch r.Intn(8) {
		case 0:
			ec.c.mins[ec.curRoot] = 0
		case 1:
			ec.c.mins[ec.curRoot] = rhs[3]
		case 2:
			ec.c.mins[ec.curRoot] = rhs[3] + 1
		case 3: // the controller fails
		default:
			ec.c.mins[ec.curRoot] = ec.curRoot - ec.unstaking
		}
		// what it would answer for other heights must not matter
		for _, rh := range rhs {
			ec.c.mins[rh] = uint64(r.Intn(int(ec.curRoot)))
		}
	}
	// already-slashed (validator, root height) pairs on the root chain: mostly Byzantine members (so that the
	// filter of ProcessDSE has something to filter), sometimes anybody
	for _, rh := range rhs {
		c := ec.c.committees[rh]
		switch r.Intn(4) {
		case 0:
			ec.c.slashed[fmt.Sprintf("%s@%d", drv.Hex(c.ms[r.Intn(len(c.ms))].pub), rh)] = true
		case 1:
			for _, m := range c.ms {
				if ec.byz[m] {
					ec.c.slashed[fmt.Sprintf("%s@%d", drv.Hex(m.pub), rh)] = true
					break
				}
			}
		}
	}

	conf := lib.DefaultConfig()
	conf.NetworkID, conf.ChainId = net, chain
	b, e := bft.New(conf, vals[0].priv, ec.curRoot, 50, ec.c, false, nil, fsmutil.QuietLogger())
	if e != nil {
		panic(e)
	}
	ec.b = b

	if wired {
		// ask the real wiring for every height a replica could ask at, so that the env line carries its answers
		ec.c.LoadMinimumEvidenceHeight(0, ec.curRoot)
		for _, rh := range rhs {
			ec.c.LoadMinimumEvidenceHeight(0, rh)
		}
		for _, h := range append([]uint64{0, ec.curRoot, ec.curRoot + 5, 1, 2}, rhs...) {
			m, _ := root.minEvidenceAt(h)
			ec.op(fmt.Sprintf("wiredmin cur=%d ub=%d h=%d", ec.curRoot, ec.unstaking, h), fmt.Sprint(m))
		}
		o.Count("mode:wired")
	} else {
		o.Count("mode:table")
	}
	ec.op(ec.c.envLine(net, chain, ec.b.RootHeight), "ok")

	// ---- what gets signed: per (root height, height, round, phase) up to two competing payloads
	type slot struct {
		view *lib.View
		com  *committee
	}
	var slots []slot
	phases := []lib.Phase{lib.Phase_ELECTION_VOTE, lib.Phase_PROPOSE_VOTE, lib.Phase_PRECOMMIT_VOTE, lib.Phase_PROPOSE_VOTE, lib.Phase_PRECOMMIT_VOTE}
	for _, rh := range rhs {
		n := 1 + r.Intn(2)
		for k := 0; k < n; k++ {
			slots = append(slots, slot{&lib.View{Height: uint64(50 + r.Intn(2)), Round: uint64(r.Intn(2)), Phase: phases[r.Intn(len(phases))], RootHeight: rh, NetworkId: net, ChainId: chain}, ec.c.committees[rh]})
		}
	}
	mkQC := func(v *lib.View, variant int) *lib.QuorumCertificate {
		q := &lib.QuorumCertificate{Header: v.Copy()}
		if v.Phase == lib.Phase_ELECTION_VOTE {
			q.ProposerKey = vals[variant%len(vals)].pub
		} else {
			q.BlockHash = h32(fmt.Sprintf("block-%d", variant))
			q.ResultsHash = h32(fmt.Sprintf("results-%d", variant%2))
		}
		return q
	}
	for si, s := range slots {
		nPay := 1 + r.Intn(2)
		if si == 0 {
			nPay = 2
		}
		// every honest member chooses at most one payload for this view; Byzantine members sign all of them
		choice := map[*val]int{}
		for _, m := range s.com.ms {
			choice[m] = r.Intn(nPay+1) - 1 // -1 = abstains
		}
		for pv := 0; pv < nPay; pv++ {
			q := mkQC(s.view, si*2+pv)
			var signers []int
			for i, m := range s.com.ms {
				if ec.byz[m] || choice[m] == pv {
					signers = append(signers, i)
				}
			}
			if len(signers) == 0 {
				continue
			}
			// the full aggregate of everybody who signed this payload …
			sig, parts := aggregate(ec.w, s.com, signers, q)
			q.Signature = sig
			ec.addCert(&cert{qc: q, com: s.com, parts: parts, sigLenOK: true, tag: "full"})
			// … and a sub-aggregate an adversary can assemble from the same individual signatures
			if len(signers) > 1 && r.Intn(2) == 0 {
				sub := signers[:1+r.Intn(len(signers)-1)]
				q2 := mkQC(s.view, si*2+pv)
				sig2, parts2 := aggregate(ec.w, s.com, sub, q2)
				q2.Signature = sig2
				ec.addCert(&cert{qc: q2, com: s.com, parts: parts2, sigLenOK: true, tag: "sub"})
			}
		}
	}
	base := append([]*cert{}, ec.certs...)
	if len(base) == 0 {
		return
	}
	// ---- deviated copies (made after signing: the adversary cannot sign for honest validators)
	deviate := func(src *cert, kind int) *cert {
		q := copyQC(src.qc)
		c := &cert{qc: q, com: src.com, parts: src.parts, sigLenOK: true}
		switch kind {
		case 0:
			q.Header.Round++
			c.tag = "retarget-round"
		case 1:
			q.Header.RootHeight = rhs[(indexOf(rhs, q.Header.RootHeight)+1)%len(rhs)]
			c.tag = "retarget-root-height"
		case 2:
			if q.Header.Phase == lib.Phase_ELECTION_VOTE {
				q.ProposerKey = vals[len(vals)-1].pub
			} else {
				q.BlockHash = h32("forged-block")
			}
			c.tag = "retarget-payload"
		case 3: // claim one more signer
			for i := range src.com.ms {
				if q.Signature.Bitmap[i/8]&(1<<uint(i%8)) == 0 {
					q.Signature.Bitmap[i/8] |= 1 << uint(i%8)
					break
				}
			}
			c.tag = "forged-extra-bit"
		case 4:
			blk := &lib.Block{BlockHeader: &lib.BlockHeader{Height: q.Header.Height}}
			q.Block, _ = lib.Marshal(blk)
			c.blkD = fmt.Sprintf("1,0,%d,%s", len(q.Block), drv.Hex(h32("x")))
			c.tag = "with-block"
		case 5:
			q.Results = &lib.CertificateResult{RewardRecipients: &lib.RewardRecipients{PaymentPercents: []*lib.PaymentPercents{{Address: make([]byte, 20), Percent: 100, ChainId: chain}}}}
			c.resD = "1," + drv.Hex(q.Results.Hash())
			c.tag = "with-results"
		case 6:
			q.Header = nil
			c.tag = "nil-header"
		case 7:
			q.Signature.Signature = q.Signature.Signature[:95]
			c.sigLenOK = false
			c.tag = "sig-len"
		case 8:
			q.Header.Phase = lib.Phase_PROPOSE
			c.tag = "retarget-phase"
		case 9:
			q.Header.ChainId = chain + 1
			c.tag = "retarget-chain"
		case 10:
			q.Signature.Bitmap = append(q.Signature.Bitmap, 0)
			c.tag = "bitmap-len"
		case 11:
			q.Signature = nil
			c.tag = "nil-signature"
		}
		return ec.addCert(c)
	}
	var devs []*cert
	for k := 0; k < 6; k++ {
		devs = append(devs, deviate(base[r.Intn(len(base))], r.Intn(12)))
	}
	// a Byzantine validator signing a low phase twice (PROPOSE): evidence must be refused for the phase
	{
		s := slots[r.Intn(len(slots))]
		var bi []int
		for i, m := range s.com.ms {
			if ec.byz[m] {
				bi = append(bi, i)
			}
		}
		if len(bi) > 0 {
			v := s.view.Copy()
			v.Phase = lib.Phase_PROPOSE
			for pv := 0; pv < 2; pv++ {
				q := mkQC(v, 100+pv)
				sig, parts := aggregate(ec.w, s.com, bi, q)
				q.Signature = sig
				devs = append(devs, ec.addCert(&cert{qc: q, com: s.com, parts: parts, sigLenOK: true, tag: "low-phase"}))
			}
		}
	}

	// ---- the assembler: every ordered pair of honest-pool certificates (including a certificate with itself) …
	pairTag := func(a, b *cert) string {
		switch {
		case a == b:
			return "same-certificate"
		case a.qc.Header == nil || b.qc.Header == nil:
			return "nil-header"
		case !a.qc.Header.Equals(b.qc.Header):
			if a.qc.Header.RootHeight != b.qc.Header.RootHeight {
				return "cross-root-height"
			}
			return "cross-view"
		case payDesc(a.qc) == payDesc(b.qc):
			return "same-view-same-payload"
		default:
			return "same-view-other-payload"
		}
	}
	var accepted []ev
	var acceptedDS [][]*lib.DoubleSigner // what ProcessDSE returned for each accepted piece alone
	budget := 70
	if o.Tier == "thorough" {
		budget = 300
	}
	type pr struct{ a, b *cert }
	var pairs []pr
	for _, a := range base {
		for _, b := range base {
			pairs = append(pairs, pr{a, b})
		}
	}
	r.Shuffle(len(pairs), func(i, j int) { pairs[i], pairs[j] = pairs[j], pairs[i] })
	// always keep the same-view pairs (equivocation or not) in the budget; the rest is a sample
	sortStable(pairs, func(p pr) bool { return strings.HasPrefix(pairTag(p.a, p.b), "same-view") })
	if len(pairs) > budget {
		pairs = pairs[:budget]
	}
	for _, p := range pairs {
		e := ev{a: p.a, b: p.b}
		tag := pairTag(p.a, p.b)
		if ec.expired(headerRoot(p.a)) {
			tag += "+expired"
		}
		if ds := ec.process([]ev{e}, tag); len(ds) > 0 {
			accepted = append(accepted, e)
			acceptedDS = append(acceptedDS, ds)
		}
	}
	// … pairs with deviated certificates, nil parts …
	for _, d := range devs {
		other := base[r.Intn(len(base))]
		for _, e := range []ev{{a: d, b: other}, {a: other, b: d}, {a: d, b: d}} {
			ec.process([]ev{e}, "dev:"+d.tag)
		}
	}
	// … FORGED partial certificates (permanent shape): for a genuine certificate, a second certificate of the same
	// view over another payload whose bitmap names a MINORITY of honest signers of the genuine one and whose
	// signature is garbage, the genuine certificate's own signature (replayed), or a Byzantine member's signature
	// alone. Evidence accepts partial certificates, so everything rests on the aggregate being verified even when
	// the bitmap is below +2/3: the honest members named must never come out as double signers …
	nForged := 0
	for _, g := range base {
		if nForged >= 4 {
			break
		}
		hd := g.qc.Header
		if hd == nil || hd.Phase <= lib.Phase_PROPOSE || ec.expired(hd.RootHeight) {
			continue
		}
		// an honest signer of the genuine certificate whose power alone stays below +2/3
		victim := -1
		for _, pt := range g.parts {
			i := g.com.idx(pt.v)
			if i >= 0 && !ec.byz[pt.v] && g.com.powers[i] < g.com.vs.MinimumMaj23 {
				victim = i
				break
			}
		}
		if victim < 0 {
			continue
		}
		nForged++
		for kind := 0; kind < 3; kind++ {
			q := &lib.QuorumCertificate{Header: hd.Copy(), BlockHash: h32(fmt.Sprintf("forged-partial-%d-%d", nForged, kind)), ResultsHash: h32("forged-results")}
			bm := make([]byte, len(g.qc.Signature.Bitmap))
			bm[victim/8] |= 1 << uint(victim%8)
			fc := &cert{qc: q, com: g.com, sigLenOK: true}
			switch kind {
			case 0: // 96 bytes of garbage
				q.Signature = &lib.AggregateSignature{Signature: drv.Bytes(r, 96), Bitmap: bm}
				fc.tag = "forged-partial-garbage-signature"
			case 1: // the genuine certificate's own aggregate, replayed under another payload and bitmap
				q.Signature = &lib.AggregateSignature{Signature: append([]byte{}, g.qc.Signature.Signature...), Bitmap: bm}
				fc.parts = g.parts
				fc.tag = "forged-partial-replayed-signature"
			default: // a real signature over the forged payload — by a Byzantine member, while the bitmap names the honest one
				var bi []int
				for i, m := range g.com.ms {
					if ec.byz[m] {
						bi = append(bi, i)
						break
					}
				}
				if len(bi) == 0 {
					continue
				}
				sg, parts := aggregate(ec.w, g.com, bi, q)
				q.Signature = &lib.AggregateSignature{Signature: sg.Signature, Bitmap: bm}
				fc.parts = parts
				fc.tag = "forged-partial-foreign-signature"
			}
			ec.addCert(fc)
			for _, e := range []ev{{a: g, b: fc}, {a: fc, b: g}} {
				ec.process([]ev{e}, fc.tag)
			}
			// and a proposer's list naming the victim, against that evidence
			claim := []*lib.DoubleSigner{{Id: g.com.ms[victim].pub, Heights: []uint64{hd.RootHeight}}}
			be := []ev{{a: g, b: fc}}
			op := fmt.Sprintf("validate slash=%s be=%s", dsListStr(claim), evsDesc(be))
			res := guard(func() string {
				if err := ec.b.ValidateByzantineEvidence(&lib.SlashRecipients{DoubleSigners: claim}, &bft.ByzantineEvidence{DSE: bft.NewDSE(evsReal(be))}); err != nil {
					return eid(err)
				}
				return "ok"
			})
			ec.op(op, res)
			o.Count("validate:" + fc.tag + ":" + strings.SplitN(res, "/", 2)[0])
			if res == "ok" {
				ec.oracleImplicated("ValidateByzantineEvidence", claim, op)
			}
		}
	}
	o.Hist["forged-partial:genuine-certificates-attacked"] += nForged
	ec.process([]ev{{isNil: true}}, "nil-evidence")
	ec.process([]ev{{a: base[0]}}, "nil-vote")
	ec.process([]ev{{b: base[0]}}, "nil-vote")
	ec.process(nil, "empty-list")

	// … CheckBasic and Check called directly (Check with explicit minimum heights around the evidence's root height)
	for k := 0; k < 12; k++ {
		var e ev
		if len(accepted) > 0 && r.Intn(2) == 0 {
			e = accepted[r.Intn(len(accepted))]
		} else {
			e = ev{a: base[r.Intn(len(base))], b: base[r.Intn(len(base))]}
		}
		x := e.real()
		res := guard(func() string {
			if err := x.CheckBasic(); err != nil {
				return eid(err)
			}
			return "ok"
		})
		ec.op("basic "+e.desc(), res)
		o.Count("basic:" + res)
		if res != "ok" {
			continue
		}
		rh := x.VoteA.Header.RootHeight
		com, ok := ec.c.committees[rh]
		if !ok {
			continue
		}
		for _, m := range []uint64{0, rh, rh + 1, rh - 1} {
			res := guard(func() string {
				if err := x.Check(com.vs, ec.b.View, m); err != nil {
					return eid(err)
				}
				return "ok"
			})
			ec.op(fmt.Sprintf("check %s com=%d min=%d", e.desc(), rh, m), res)
			o.Count("check:" + res)
			if m > rh && res == "ok" {
				fail(o, "C14:check-accepts-below-minimum", "DoubleSignEvidence.Check accepted evidence below the minimum height it was given", map[string]any{"history": tail(ec.hist, 30)})
			}
		}
	}

	// … lists of evidence (accumulation of heights, replays, order) …
	for k := 0; k < 8 && len(accepted) > 0; k++ {
		n := 2 + r.Intn(3)
		var es []ev
		for i := 0; i < n; i++ {
			switch r.Intn(6) {
			case 0: // replayed
				if len(es) > 0 {
					es = append(es, es[r.Intn(len(es))])
					continue
				}
				fallthrough
			case 1: // swapped order of the two votes
				e := accepted[r.Intn(len(accepted))]
				es = append(es, ev{a: e.b, b: e.a})
			case 2: // something that is not evidence
				if r.Intn(3) == 0 {
					es = append(es, ev{a: base[r.Intn(len(base))], b: base[r.Intn(len(base))]})
					continue
				}
				fallthrough
			default:
				es = append(es, accepted[r.Intn(len(accepted))])
			}
		}
		ec.process(es, "list")
	}

	// … AddDSE (what a leader does with evidence replicas send) …
	pool := bft.NewDSE()
	for k := 0; k < 10; k++ {
		var e ev
		switch {
		case len(accepted) > 0 && r.Intn(3) != 0:
			e = accepted[r.Intn(len(accepted))]
		case r.Intn(2) == 0:
			e = ev{a: devs[r.Intn(len(devs))], b: base[r.Intn(len(base))]}
		default:
			e = ev{a: base[r.Intn(len(base))], b: base[r.Intn(len(base))]}
		}
		before := len(pool.Evidence)
		// content identity of the evidence as AddDSE de-duplicates it (block and results stripped)
		key := "-"
		if x := e.real(); x != nil {
			if x.VoteA != nil {
				x.VoteA.Block, x.VoteA.Results = nil, nil
			}
			if x.VoteB != nil {
				x.VoteB.Block, x.VoteB.Results = nil, nil
			}
			bz, _ := lib.Marshal(x)
			key = drv.Hex(h32(string(bz))[:8])
		}
		res := guard(func() string {
			if err := ec.b.AddDSE(&pool, e.real()); err != nil {
				return eid(err)
			}
			if len(pool.Evidence) == before {
				return "duplicate"
			}
			return "added"
		})
		ec.op("add "+e.desc()+" key="+key, res)
		o.Count("add:" + strings.SplitN(res, "/", 2)[0])
	}

	// … GetLocalDSE: evidence a replica derives from a stored partial QC and the conflicting leader message /
	// committed certificate …
	for k := 0; k < 8 && len(accepted) > 0; k++ {
		e := accepted[r.Intn(len(accepted))]
		full, partial := e.a, e.b
		if r.Intn(2) == 0 {
			full, partial = partial, full
		}
		if r.Intn(5) == 0 {
			partial = base[r.Intn(len(base))]
		}
		hd := partial.qc.Header
		savedHeight := ec.b.View.Height
		cur := hd.Height
		propRound, propPhase := hd.Round, int(hd.Phase)+1
		var prop, certC *cert
		mode := r.Intn(6)
		switch mode {
		case 0: // historical: another height is current
			cur = hd.Height + 1
			certC = full
		case 1: // historical, nothing stored
			cur = hd.Height + 1
		case 2: // the leader message sits under another phase
			propPhase = int(hd.Phase) + 2
			prop = full
		case 3: // no message for that round
			propRound = hd.Round + 1
			prop = full
		default:
			prop = full
		}
		ec.b.View.Height = cur
		ec.b.PartialQCs = bft.PartialQCs{"x": copyQC(partial.qc)}
		ec.b.Proposals = bft.ProposalsForHeight{}
		var stored *lib.QuorumCertificate
		if prop != nil {
			stored = copyQC(prop.qc)
			stored.Block = []byte{1, 2, 3} // the leader message carries the block
			ec.b.Proposals[propRound] = map[string][]*bft.Message{fmt.Sprintf("%d_%s", propPhase, lib.Phase_name[int32(propPhase)]): {{Qc: stored}}}
		}
		ec.c.cert = nil
		if certC != nil {
			ec.c.cert = copyQC(certC.qc)
		}
		id := func(c *cert) string {
			if c == nil {
				return "nil"
			}
			return c.id
		}
		op := fmt.Sprintf("local cur=%d pqc=%s prop=%s propAt=%d,%d cert=%s", cur, partial.id, id(prop), propRound, propPhase, id(certC))
		res := guard(func() string {
			d := ec.b.GetLocalDSE()
			return fmt.Sprintf("n=%d", len(d.Evidence))
		})
		ec.op(op, res)
		o.Count("local:" + res)
		o.Count(fmt.Sprintf("local:mode%d", mode))
		if stored != nil && stored.Block == nil {
			// observation outside C14: AddDSE strips Block/Results of the caller's certificate in place — here the
			// certificate stored in b.Proposals (in StartCommitProcessPhase that is the certificate about to be committed)
			o.Count("obs:local-dse-strips-stored-certificate-block")
		}
		ec.b.View.Height = savedHeight
		ec.b.PartialQCs = bft.PartialQCs{}
		ec.b.Proposals = bft.ProposalsForHeight{}
	}

	// … and the replica-side validation of proposer-supplied slash lists against attached evidence
	for k := 0; k < 14; k++ {
		var be []ev
		n := r.Intn(4)
		for i := 0; i < n && len(accepted) > 0; i++ {
			be = append(be, accepted[r.Intn(len(accepted))])
		}
		if r.Intn(6) == 0 {
			be = append(be, ev{a: base[r.Intn(len(base))], b: base[r.Intn(len(base))]})
		}
		var truth []*lib.DoubleSigner
		func() {
			defer func() { recover() }()
			truth, _ = ec.b.ProcessDSE(evsReal(be)...)
		}()
		var claim []*lib.DoubleSigner
		for _, d := range truth {
			claim = append(claim, &lib.DoubleSigner{Id: d.Id, Heights: append([]uint64{}, d.Heights...)})
		}
		kind := "exact"
		isNil := false
		switch r.Intn(10) {
		case 0: // superset: an honest validator added
			var hs []uint64
			hs = append(hs, rhs[r.Intn(len(rhs))])
			for _, v := range vals {
				if !ec.byz[v] {
					claim = append(claim, &lib.DoubleSigner{Id: v.pub, Heights: hs})
					break
				}
			}
			kind = "superset-honest"
		case 1: // wrong height for a real double signer
			if len(claim) > 0 {
				claim[0].Heights = append(claim[0].Heights, claim[0].Heights[0]+1)
				kind = "wrong-height"
			}
		case 2:
			if len(claim) > 0 {
				claim = append(claim, claim[0])
				kind = "repeated-entry"
			}
		case 3:
			if len(claim) > 0 {
				claim[0].Heights = append(claim[0].Heights, claim[0].Heights[0])
				kind = "repeated-height"
			}
		case 4:
			claim = append(claim, nil)
			kind = "nil-entry"
		case 5:
			if len(claim) > 1 {
				claim = claim[:1]
				kind = "subset"
			}
		case 6:
			if len(claim) > 0 {
				claim[0].Heights = nil
				kind = "no-heights"
			}
		case 7:
			isNil = true
			kind = "nil-recipients"
		case 8:
			claim = nil
			kind = "empty-list"
		}
		var sr *lib.SlashRecipients
		slashD := "none"
		if !isNil {
			sr = &lib.SlashRecipients{DoubleSigners: claim}
			slashD = dsListStr(claim)
		}
		op := fmt.Sprintf("validate slash=%s be=%s", slashD, evsDesc(be))
		res := guard(func() string {
			if err := ec.b.ValidateByzantineEvidence(sr, &bft.ByzantineEvidence{DSE: bft.NewDSE(evsReal(be))}); err != nil {
				return eid(err)
			}
			return "ok"
		})
		ec.op(op, res)
		o.Count("validate:" + kind + ":" + strings.SplitN(res, "/", 2)[0])
		o.Nontrivial(op + "|" + ec.c.envLine(net, chain, ec.b.RootHeight))
		if res == "ok" && sr != nil {
			ec.oracleImplicated("ValidateByzantineEvidence", claim, op)
		}
		if res == "panic" {
			fail(o, "C14:validate-panic", "ValidateByzantineEvidence panicked", map[string]any{"op": op, "history": tail(ec.hist, 30)})
		}
	}
	// … replayed evidence inside a batch: the same validator is implicated at two root heights and the root chain has
	// already slashed it for one of them; every order of the fresh and the replayed piece (the filter is per
	// (validator, height) pair, not per validator) …
	func() {
		for i := range accepted {
			for j := range accepted {
				hi, hj := accepted[i].a.qc.Header.RootHeight, accepted[j].a.qc.Header.RootHeight
				if hi == hj {
					continue
				}
				for _, di := range acceptedDS[i] {
					for _, dj := range acceptedDS[j] {
						if string(di.Id) != string(dj.Id) {
							continue
						}
						fresh, replayed, v := accepted[i], accepted[j], di.Id
						ec.c.slashed[fmt.Sprintf("%s@%d", drv.Hex(v), hj)] = true
						ec.op(ec.c.envLine(net, chain, ec.b.RootHeight), "ok")
						for _, batch := range [][]ev{{fresh, replayed}, {replayed, fresh}, {fresh, replayed, fresh}, {replayed}, {fresh, fresh, replayed, replayed}} {
							ec.process(batch, "batch-with-replayed-piece")
						}
						// a proposer's list naming the already slashed pair again, against that batch
						claim := []*lib.DoubleSigner{{Id: v, Heights: []uint64{hi, hj}}}
						for _, be := range [][]ev{{fresh, replayed}, {replayed, fresh}} {
							op := fmt.Sprintf("validate slash=%s be=%s", dsListStr(claim), evsDesc(be))
							res := guard(func() string {
								if err := ec.b.ValidateByzantineEvidence(&lib.SlashRecipients{DoubleSigners: claim}, &bft.ByzantineEvidence{DSE: bft.NewDSE(evsReal(be))}); err != nil {
									return eid(err)
								}
								return "ok"
							})
							ec.op(op, res)
							o.Count("validate:replayed-pair:" + strings.SplitN(res, "/", 2)[0])
							if res == "ok" {
								ec.oracleImplicated("ValidateByzantineEvidence", claim, op)
							}
						}
						o.Count("scenario:batch-with-replayed-piece")
						return
					}
				}
			}
		}
	}()

	// … time passes: the root chain (and the replica's root height) moves on by more than the unstaking period;
	// everything accepted before is expired now and must be refused …
	if len(accepted) > 0 && r.Intn(2) == 0 {
		if wired {
			n := int(ec.unstaking) + int(rhs[3]-rhs[0]) + 1
			for i := 0; i < n; i++ {
				root.endBlock()
			}
			ec.curRoot = root.sm.Height()
		} else {
			ec.curRoot += ec.unstaking + (rhs[3] - rhs[0]) + 1
		}
		ec.b.RootHeight = ec.curRoot
		ec.c.mins = map[uint64]uint64{}
		if wired {
			ec.c.LoadMinimumEvidenceHeight(0, ec.curRoot)
		} else {
			ec.c.mins[ec.curRoot] = ec.curRoot - ec.unstaking
		}
		ec.op(ec.c.envLine(net, chain, ec.b.RootHeight), "ok")
		for _, e := range accepted {
			if ds := ec.process([]ev{e}, "aged"); len(ds) > 0 {
				o.Count("aged:accepted")
			} else {
				o.Count("aged:refused")
			}
		}
		// a proposer's list resting on the aged evidence
		e := accepted[r.Intn(len(accepted))]
		var ids []*lib.DoubleSigner
		for v := range ec.byz {
			ids = append(ids, &lib.DoubleSigner{Id: v.pub, Heights: []uint64{e.a.qc.Header.RootHeight}})
			break
		}
		op := fmt.Sprintf("validate slash=%s be=%s", dsListStr(ids), evsDesc([]ev{e}))
		res := guard(func() string {
			if err := ec.b.ValidateByzantineEvidence(&lib.SlashRecipients{DoubleSigners: ids}, &bft.ByzantineEvidence{DSE: bft.NewDSE(evsReal([]ev{e}))}); err != nil {
				return eid(err)
			}
			return "ok"
		})
		ec.op(op, res)
		o.Count("validate:aged:" + strings.SplitN(res, "/", 2)[0])
		if res == "ok" {
			ec.oracleImplicated("ValidateByzantineEvidence", ids, op)
		}
		o.Count("scenario:time-passes")
	}

	o.Hist["process:already-slashed-filtered"] += ec.c.nFiltered
	if ci == 0 {
		o.Sample(fmt.Sprintf("%d certificates, %d accepted evidence pairs, byzantine=%d", len(ec.certs), len(accepted), nbyz))
	}
}

// runCorpusExpired: root chain (a real state machine) at height 10 with unstaking period 3, so the minimum
// evidence height is 7; a real-BLS equivocation at root height 6 and one at root height 1 must be refused as too
// old by the replica at root height 10 (before c09f5c7 both were accepted: the bound was asked as of the evidence's
// own root height, 6-3 and 0); the same equivocation at root height 8 is the positive control.
func runCorpusExpired(o *drv.Out) {
	o.Case("corpus-expired-6-at-10")
	var gvs []genVal
	for _, v := range vals[:4] {
		gvs = append(gvs, genVal{v, 1000000, []uint64{1}})
	}
	root, err := newChain(gvs, true, 15, 10, 3, 0)
	if err != nil {
		panic(err)
	}
	defer root.close()
	for root.sm.Height() < 10 {
		root.endBlock()
	}
	ec := &evCase{o: o, w: &world{signed: map[string]map[string]map[string]bool{}}, byz: map[*val]bool{vals[0]: true}, wired: true, curRoot: root.sm.Height(), unstaking: 3}
	ec.c = &ctrl{committees: map[uint64]*committee{}, mins: map[uint64]uint64{}, slashed: map[string]bool{}, minFn: root.minEvidenceAt}
	com := newCommittee(vals[:4], []uint64{10, 10, 10, 10})
	for _, rh := range []uint64{1, 6, 8} {
		ec.c.committees[rh] = com
	}
	conf := lib.DefaultConfig()
	conf.NetworkID, conf.ChainId = net, chain
	b, e := bft.New(conf, vals[1].priv, ec.curRoot, 50, ec.c, false, nil, fsmutil.QuietLogger())
	if e != nil {
		panic(e)
	}
	ec.b = b
	for _, h := range []uint64{10, 6, 1, 8} {
		ec.c.LoadMinimumEvidenceHeight(0, h)
		m, _ := root.minEvidenceAt(h)
		ec.op(fmt.Sprintf("wiredmin cur=%d ub=%d h=%d", ec.curRoot, ec.unstaking, h), fmt.Sprint(m))
	}
	ec.op(ec.c.envLine(net, chain, ec.b.RootHeight), "ok")
	for _, rh := range []uint64{6, 1, 8} {
		view := &lib.View{Height: 50, Round: 0, Phase: lib.Phase_PRECOMMIT_VOTE, RootHeight: rh, NetworkId: net, ChainId: chain}
		var pair []*cert
		for i, signers := range [][]int{{0, 1, 2}, {0, 3}} {
			q := &lib.QuorumCertificate{Header: view.Copy(), BlockHash: h32(fmt.Sprintf("corpus-block-%d", i)), ResultsHash: h32("corpus-results")}
			sig, parts := aggregate(ec.w, com, signers, q)
			q.Signature = sig
			pair = append(pair, ec.addCert(&cert{qc: q, com: com, parts: parts, sigLenOK: true, tag: "corpus"}))
		}
		x := ev{a: pair[0], b: pair[1]}
		ds := ec.process([]ev{x}, fmt.Sprintf("corpus-root-height-%d", rh))
		claim := []*lib.DoubleSigner{{Id: vals[0].pub, Heights: []uint64{rh}}}
		op := fmt.Sprintf("validate slash=%s be=%s", dsListStr(claim), evsDesc([]ev{x}))
		res := guard(func() string {
			if err := ec.b.ValidateByzantineEvidence(&lib.SlashRecipients{DoubleSigners: claim}, &bft.ByzantineEvidence{DSE: bft.NewDSE(evsReal([]ev{x}))}); err != nil {
				return eid(err)
			}
			return "ok"
		})
		ec.op(op, res)
		if res == "ok" {
			ec.oracleImplicated("ValidateByzantineEvidence", claim, op)
		}
		switch {
		case rh < 7 && len(ds) == 0 && res != "ok":
			o.Count("corpus:expired-evidence-refused")
		case rh >= 7 && len(ds) == 1 && res == "ok":
			o.Count("corpus:fresh-evidence-accepted")
		case rh >= 7:
			fail(o, "C14:corpus-fresh-evidence-refused", fmt.Sprintf("the positive control at root height %d was not accepted", rh), map[string]any{"history": ec.hist})
		}
	}
	o.Sample("corpus-expired-6-at-10: " + strings.Join(tail(ec.hist, 2), " ;; "))
}

func headerRoot(c *cert) uint64 {
	if c.qc.Header == nil {
		return ^uint64(0)
	}
	return c.qc.Header.RootHeight
}

func indexOf(xs []uint64, x uint64) int {
	for i, y := range xs {
		if y == x {
			return i
		}
	}
	return 0
}

func sortStable[T any](xs []T, first func(T) bool) {
	var a, b []T
	for _, x := range xs {
		if first(x) {
			a = append(a, x)
		} else {
			b = append(b, x)
		}
	}
	copy(xs, append(a, b...))
}

// ---------------------------------------------------------------------------------------------

func runLedgerCase(o *drv.Out, ci int) {
	r := o.Rng
	o.Case(fmt.Sprintf("led%d", ci))
	scoped := r.Intn(5) != 0
	maxSlash := []uint64{15, 15, 10, 25, 1, 100, 50}[r.Intn(7)]
	dsPct := []uint64{10, 10, 5, 20, 0, 100, 33, 15}[r.Intn(8)]
	// every third case: validators near the minimum stake under protocol v2, several slashes of one validator by
	// one committee per block
	nearMin := ci%3 == 1
	if nearMin {
		scoped = true
		maxSlash = []uint64{15, 15, 25, 50}[r.Intn(4)]
		dsPct = []uint64{10, 10, 5, 20}[r.Intn(4)]
		o.Count("ledger:near-minimum-stake")
	}
	nearStake := []uint64{1000, 100000, 12345, 999}[r.Intn(4)]
	chains := []uint64{1, 2, 3}
	nv := 3 + r.Intn(3)
	var gvs []genVal
	lc := &ledgerCase{o: o, scoped: scoped, maxSlash: maxSlash, dsPct: dsPct, chains: chains, accepted: map[string]int{}, heights: map[uint64]bool{}}
	for i := 0; i < nv; i++ {
		var cs []uint64
		for _, ch := range chains {
			if r.Intn(3) != 0 {
				cs = append(cs, ch)
			}
		}
		if len(cs) == 0 {
			cs = []uint64{1}
		}
		stake := []uint64{1000000, 100, 7, 1, 123456789, 1 << 62, 999}[r.Intn(7)]
		if stake == 1<<62 && i > 0 {
			stake = 1 << 40 // the genesis total must stay below 2^64: at most one validator near the top
		}
		if nearMin {
			stake, cs = nearStake, []uint64{1, 2, 3}
		}
		gvs = append(gvs, genVal{vals[i], stake, cs})
		lc.vs = append(lc.vs, vals[i])
	}
	// the minimum stake: mostly 0 (as in every test of the repository); otherwise placed around what the first
	// double-sign slash leaves of a validator's stake, so that slashes force-unstake (an early return of SlashValidator)
	var minStake uint64
	if nearMin || r.Intn(3) == 0 {
		g := gvs[r.Intn(len(gvs))]
		after := g.stake
		if dsPct < 100 {
			after = g.stake/100*(100-dsPct) + g.stake%100*(100-dsPct)/100
		}
		switch r.Intn(4) {
		case 0:
			minStake = after // not below: no force-unstake by the first slash
		case 1:
			minStake = g.stake // exactly at the minimum before, below after any real slash
		default:
			minStake = after + 1 // just below after the first slash
		}
	}
	lc.minStake = minStake
	c, err := newChain(gvs, scoped, maxSlash, dsPct, 2, minStake)
	if err != nil {
		panic(err)
	}
	defer c.close()
	lc.c = c
	var keys, vs []string
	for _, v := range vals {
		keys = append(keys, drv.Hex(v.pub)+"="+drv.Hex(v.addr))
	}
	for _, g := range gvs {
		vs = append(vs, fmt.Sprintf("%s:%d:%s", drv.Hex(g.v.addr), g.stake, u64s(g.committees)))
	}
	sc := 0
	if scoped {
		sc = 1
		o.Count("ledger:protocol-v2")
	} else {
		o.Count("ledger:protocol-v1")
	}
	lc.op(fmt.Sprintf("ledger scoped=%d max=%d pct=%d min=%d keys=%s vals=%s", sc, maxSlash, dsPct, minStake, strings.Join(keys, ","), strings.Join(vs, ",")), "ok")
	lc.heights[3] = true
	lc.dump()
	lc.beginBlock()
	nblocks := 2 + r.Intn(3)
	var past []dsIn      // what earlier blocks were given (replays across blocks)
	fresh := uint64(100) // heights nobody was reported for yet
	for b := 0; b < nblocks; b++ {
		if nearMin {
			// several slashes of one validator by one committee in this block, in one of three shapes
			target, ch := vals[b%nv], chains[r.Intn(len(chains))]
			switch r.Intn(3) {
			case 0: // one entry with several distinct heights
				n := 2 + r.Intn(3)
				var hs []uint64
				for j := 0; j < n; j++ {
					hs = append(hs, fresh)
					fresh++
				}
				lc.hds(ch, []dsIn{{v: target, heights: hs}}, false, r.Intn(2) == 0)
				o.Count("multi-slash:one-entry-several-heights")
			case 1: // a non-sign slash and a double-sign slash
				lc.slash(ch, []uint64{1, 5, 10}[r.Intn(3)], [][]byte{target.addr})
				lc.hds(ch, []dsIn{{v: target, heights: []uint64{fresh, fresh + 1}}}, false, false)
				fresh += 2
				o.Count("multi-slash:non-sign-then-double-sign")
			default: // two certificate results of the same committee
				for j := 0; j < 2+r.Intn(2); j++ {
					lc.hds(ch, []dsIn{{v: target, heights: []uint64{fresh}}}, false, r.Intn(2) == 0)
					fresh++
				}
				o.Count("multi-slash:several-certificate-results")
			}
			if lc.c.unstaking(target.addr) {
				o.Count("multi-slash:target-force-unstaked")
			}
			lc.dump()
		}
		nops := 1 + r.Intn(5)
		for k := 0; k < nops; k++ {
			ch := chains[r.Intn(len(chains))]
			switch r.Intn(8) {
			case 0: // a non-sign style slash of several validators
				var addrs [][]byte
				for _, i := range pick(r, nv+1, 1+r.Intn(3)) {
					addrs = append(addrs, vals[i].addr) // may include a key that is not a validator
				}
				lc.slash(ch, []uint64{1, 5, 10, 14, 15, 16, 50, 100, 0}[r.Intn(9)], addrs)
			case 1:
				lc.hds(ch, nil, true, r.Intn(2) == 0)
			default:
				var in []dsIn
				n := 1 + r.Intn(3)
				for i := 0; i < n; i++ {
					switch r.Intn(30) {
					case 0:
						in = append(in, dsIn{})
					case 1:
						in = append(in, dsIn{rawID: nil, heights: []uint64{3}})
					case 2:
						in = append(in, dsIn{rawID: []byte{1, 2, 3}, heights: []uint64{3}})
					case 3:
						in = append(in, dsIn{v: vals[r.Intn(nv)], heights: []uint64{}})
					case 4, 5, 6, 7, 8: // replay of something an earlier operation was given
						if len(past) > 0 {
							in = append(in, past[r.Intn(len(past))])
							continue
						}
						fallthrough
					default:
						v := vals[r.Intn(nv+1)]
						var hs []uint64
						nh := 1 + r.Intn(3)
						for j := 0; j < nh; j++ {
							hs = append(hs, uint64(3+r.Intn(12)))
						}
						in = append(in, dsIn{v: v, heights: hs})
					}
				}
				lc.hds(ch, in, false, r.Intn(3) == 0)
				past = append(past, in...)
			}
			if r.Intn(4) == 0 {
				lc.dump()
			}
		}
		lc.endBlock()
	}
	if ci < 2 {
		o.Sample(strings.Join(tail(lc.hist, 3), " ;; "))
	}
}
