package c14

import (
	"fmt"
	"math/big"
	"sort"
	"strings"

	"github.com/canopy-network/canopy/fsm"
	"github.com/canopy-network/canopy/lib"
	"github.com/canopy-network/canopy/lib/crypto"

	"verifharness/drv"
	"verifharness/fsmutil"
)

// chainFSM is a REAL fsm.StateMachine on an in-memory store, advanced block by block the way the
// controller does it (commit the store, height+1, fresh slash tracker and caches).
type chainFSM struct {
	sm      *fsm.StateMachine
	db      lib.StoreI
	cleanup func()
	params  *fsm.Params
}

type genVal struct {
	v          *val
	stake      uint64
	committees []uint64
}

func newChain(gvs []genVal, scoped bool, maxSlash, dsPct, unstaking, minStake uint64) (*chainFSM, error) {
	p := fsm.DefaultParams()
	if scoped {
		p.Consensus.ProtocolVersion = fsm.NewProtocolVersion(0, 2)
	} else {
		p.Consensus.ProtocolVersion = fsm.NewProtocolVersion(0, 1)
	}
	p.Validator.MaxSlashPerCommittee = maxSlash
	p.Validator.DoubleSignSlashPercentage = dsPct
	p.Validator.UnstakingBlocks = unstaking
	p.Validator.MinimumStakeForValidators = minStake
	p.Validator.NonSignWindow = 1000000
	p.Validator.MaxNonSign = 1000000
	gs := &fsm.GenesisState{Params: p}
	for _, g := range gvs {
		gs.Validators = append(gs.Validators, &fsm.Validator{Address: g.v.addr, PublicKey: g.v.pub, NetAddress: "tcp://v.example.com", StakedAmount: g.stake,
			Committees: g.committees, Output: g.v.addr})
	}
	sm, db, cleanup, err := fsmutil.NewFSM(gs, 1)
	if err != nil {
		return nil, fmt.Errorf("genesis: %s", err.Error())
	}
	return &chainFSM{sm: sm, db: db, cleanup: cleanup, params: p}, nil
}

func (c *chainFSM) close() {
	c.db.Close()
	c.cleanup()
}

// endBlock: the block boundary (no transactions of its own)
func (c *chainFSM) endBlock() {
	if _, e := c.db.Commit(); e != nil {
		panic(e)
	}
	c.sm.VerifSetHeight(c.sm.Height() + 1)
	c.sm.VerifSetSlashTracker(nil)
	c.sm.ResetCaches()
}

// atomically: what ApplyTransactions / ApplyBlock do around one state transition — flushed on success,
// discarded (caches and slash tracker restored) on error
func (c *chainFSM) atomically(f func() lib.ErrorI) (res string) {
	cur := c.sm.Store().(lib.StoreI)
	tracker := c.sm.VerifSlashTracker()
	txn, e := c.sm.TxnWrap()
	if e != nil {
		return eid(e)
	}
	var err lib.ErrorI
	panicked := false
	func() {
		defer func() {
			if r := recover(); r != nil {
				panicked = true
			}
		}()
		err = f()
	}()
	if err != nil || panicked {
		c.sm.ResetCaches()
		c.sm.VerifSetSlashTracker(tracker)
		txn.Discard()
		c.sm.SetStore(cur)
		if panicked {
			return "panic"
		}
		return eid(err)
	}
	if e = txn.Flush(); e != nil {
		panic(e)
	}
	c.sm.SetStore(cur)
	return "ok"
}

func (c *chainFSM) stake(addr []byte) (uint64, []uint64, bool) {
	v, err := c.sm.GetValidator(crypto.NewAddressFromBytes(addr))
	if err != nil || v == nil {
		return 0, nil, false
	}
	return v.StakedAmount, v.Committees, true
}

func (c *chainFSM) unstaking(addr []byte) bool {
	v, err := c.sm.GetValidator(crypto.NewAddressFromBytes(addr))
	return err == nil && v != nil && v.UnstakingHeight != 0
}

// minEvidenceAt answers LoadMinimumEvidenceHeight(rootChainId, h) the way the node is wired:
// controller -> RCManager -> rpc client MinimumEvidenceHeight(h) -> server heightParams ->
// FSM.TimeMachine(h) -> state.LoadMinimumEvidenceHeight()
func (c *chainFSM) minEvidenceAt(h uint64) (uint64, bool) {
	st, err := c.sm.TimeMachine(h)
	if err != nil {
		return 0, false
	}
	if st != c.sm {
		defer st.Discard()
	}
	m, err := st.LoadMinimumEvidenceHeight()
	if err != nil {
		return 0, false
	}
	return m, true
}

// ---------------------------------------------------------------------------------------------
// the ledger case

type ledgerCase struct {
	o        *drv.Out
	c        *chainFSM
	vs       []*val
	scoped   bool
	maxSlash uint64
	dsPct    uint64
	chains   []uint64
	hist     []string
	// oracle state (independent of the model)
	accepted   map[string]int             // addr@height -> number of successful HandleDoubleSigners that contained it
	blockStart map[string]uint64          // stake at the beginning of the current block
	slashedBy  map[string]map[uint64]bool // addr -> committees that slashed it in this block
	nslashes   map[string]int             // addr -> number of slash applications in this block
	minStake   uint64
	startUnst  map[string]bool              // unstaking at the beginning of the block
	startMem   map[string]map[uint64]bool   // committee membership at the beginning of the block
	pctBy      map[string]map[uint64]uint64 // addr -> committee -> sum of the percentages it asked for in this block
	heights    map[uint64]bool
}

func (lc *ledgerCase) op(op, res string) {
	lc.hist = append(lc.hist, op+"  =>  "+res)
	lc.o.Op(op, res)
}

func u64s(xs []uint64) string {
	var s []string
	for _, x := range xs {
		s = append(s, fmt.Sprint(x))
	}
	return dash(strings.Join(s, "/"))
}

func (lc *ledgerCase) dump() {
	var addrs, pairs, trs, vout []string
	var hs []uint64
	for h := range lc.heights {
		hs = append(hs, h)
	}
	sort.Slice(hs, func(i, j int) bool { return hs[i] < hs[j] })
	idx := ""
	tracker := lc.c.sm.VerifSlashTracker()
	var tout []string
	store := lc.c.sm.Store().(lib.StoreI)
	for _, v := range lc.vs {
		a := drv.Hex(v.addr)
		addrs = append(addrs, a)
		if st, cs, ok := lc.c.stake(v.addr); ok {
			u := "s"
			if lc.c.unstaking(v.addr) {
				u = "u"
			}
			vout = append(vout, fmt.Sprintf("%s:%d:%s:%s", a, st, u64s(cs), u))
		} else {
			vout = append(vout, a+":-")
		}
		for _, h := range hs {
			pairs = append(pairs, fmt.Sprintf("%s@%d", a, h))
			valid, err := store.IsValidDoubleSigner(v.addr, h)
			if err != nil {
				panic(err)
			}
			if valid {
				idx += "0"
			} else {
				idx += "1"
			}
		}
		for _, ch := range lc.chains {
			trs = append(trs, fmt.Sprintf("%s@%d", a, ch))
			t := tracker.GetTotalSlashPercent(v.addr, ch)
			tout = append(tout, fmt.Sprint(t))
			if t == lc.maxSlash {
				lc.o.Count("ledger:dump-with-tracker-at-cap")
			} else if t > 0 {
				lc.o.Count("ledger:dump-with-tracker-below-cap")
			}
		}
	}
	lc.op(fmt.Sprintf("dump addrs=%s pairs=%s tr=%s", dash(strings.Join(addrs, ",")), dash(strings.Join(pairs, ",")), dash(strings.Join(trs, ","))),
		fmt.Sprintf("vals %s idx %s tr %s", strings.Join(vout, " "), dash(idx), dash(strings.Join(tout, ","))))
}

func (lc *ledgerCase) beginBlock() {
	lc.blockStart = map[string]uint64{}
	lc.slashedBy = map[string]map[uint64]bool{}
	lc.nslashes = map[string]int{}
	lc.startUnst = map[string]bool{}
	lc.startMem = map[string]map[uint64]bool{}
	lc.pctBy = map[string]map[uint64]uint64{}
	for _, v := range lc.vs {
		st, cs, _ := lc.c.stake(v.addr)
		lc.blockStart[string(v.addr)] = st
		lc.startUnst[string(v.addr)] = lc.c.unstaking(v.addr)
		lc.startMem[string(v.addr)] = map[uint64]bool{}
		for _, ch := range cs {
			lc.startMem[string(v.addr)][ch] = true
		}
	}
}

// noteSlash: the harness asked the real code to slash addr on behalf of committee ch (whether the code
// then really slashes is the code's business)
func (lc *ledgerCase) noteSlash(addr []byte, ch, pct uint64) {
	k := string(addr)
	if lc.pctBy[k] == nil {
		lc.pctBy[k] = map[uint64]uint64{}
	}
	lc.pctBy[k][ch] += pct
	if lc.slashedBy[k] == nil {
		lc.slashedBy[k] = map[uint64]bool{}
	}
	lc.slashedBy[k][ch] = true
	lc.nslashes[k]++
}

// endBlock: the cap oracle, then the boundary.
// With m committees having slashed a validator k times in this block, the cap allows at most
// stake_end >= stake_start * ((100-cap)/100)^m - k   (one unit of rounding per application)
func (lc *ledgerCase) endBlock() {
	for _, v := range lc.vs {
		k := string(v.addr)
		m := len(lc.slashedBy[k])
		if m == 0 {
			continue
		}
		end, _, _ := lc.c.stake(v.addr)
		lhs := new(big.Int).SetUint64(end)
		lhs.Add(lhs, big.NewInt(int64(lc.nslashes[k])))
		rhs := new(big.Int).SetUint64(lc.blockStart[k])
		for i := 0; i < m; i++ {
			lhs.Mul(lhs, big.NewInt(100))
			rhs.Mul(rhs, big.NewInt(int64(100-lc.maxSlash)))
		}
		if lhs.Cmp(rhs) < 0 {
			sig := "C14:slash-cap-exceeded"
			forced := !lc.startUnst[k] && lc.c.unstaking(v.addr)
			switch {
			case !lc.scoped:
				sig = "C14:slash-cap-not-enforced-protocol-v1"
			case forced:
				// the validator was force-unstaked in this block (a slash left it below the minimum stake)
				sig = "C14:slash-cap-exceeded:force-unstake-path"
			}
			fail(lc.o, sig, fmt.Sprintf("validator %s: stake %d -> %d within one block, slashed by %d committee(s) in %d application(s); cap %d%% per committee; minimum stake %d, force-unstaked in this block: %v", drv.Hex(v.addr)[:12], lc.blockStart[k], end, m, lc.nslashes[k], lc.maxSlash, lc.minStake, forced),
				map[string]any{"scoped": lc.scoped, "history": lc.hist})
			lc.o.Count("oracle:cap-exceeded")
		} else {
			lc.o.Count("oracle:cap-held")
		}
		// the tracker-based ejection: a committee that asked for at least the cap in this block of a validator that
		// was its member at the start has either taken the whole stake or the validator has left the committee
		if lc.scoped {
			_, cs, exists := lc.c.stake(v.addr)
			for ch, sum := range lc.pctBy[k] {
				if !lc.startMem[k][ch] || sum < lc.maxSlash || !exists {
					continue
				}
				still := false
				for _, c := range cs {
					if c == ch {
						still = true
					}
				}
				if still {
					sig := "C14:cap-reached-without-ejection"
					if !lc.startUnst[k] && lc.c.unstaking(v.addr) {
						sig += ":force-unstake-path"
					}
					fail(lc.o, sig, fmt.Sprintf("validator %s: committee %d asked for %d%% >= cap %d%% in one block and the validator is still its member", drv.Hex(v.addr)[:12], ch, sum, lc.maxSlash),
						map[string]any{"history": lc.hist})
				} else {
					lc.o.Count("oracle:ejected-at-cap")
				}
			}
		}
	}
	lc.c.endBlock()
	lc.op("endblock", "ok")
	lc.o.Count("ledger:endblock")
	lc.dump()
	lc.beginBlock()
}

type dsIn struct {
	v       *val // nil = nil entry
	rawID   []byte
	heights []uint64
}

func (lc *ledgerCase) dsArgs(in []dsIn) ([]*lib.DoubleSigner, string) {
	var real []*lib.DoubleSigner
	for _, d := range in {
		if d.v == nil && d.rawID == nil && d.heights == nil {
			real = append(real, nil)
			continue
		}
		id := d.rawID
		if d.v != nil {
			id = d.v.pub
		}
		real = append(real, &lib.DoubleSigner{Id: id, Heights: d.heights})
		for _, h := range d.heights {
			lc.heights[h] = true
		}
	}
	return real, dsListStr(real)
}

// hds drives the real HandleDoubleSigners (viaByzantine: through HandleByzantine with a fully signed certificate)
func (lc *ledgerCase) hds(ch uint64, in []dsIn, nilRecipients, viaByzantine bool) string {
	real, desc := lc.dsArgs(in)
	if nilRecipients {
		desc = "none"
	}
	op := fmt.Sprintf("hds chain=%d ds=%s", ch, desc)
	res := lc.c.atomically(func() lib.ErrorI {
		params, e := lc.c.sm.GetParamsVal()
		if e != nil {
			return e
		}
		if !viaByzantine {
			if nilRecipients {
				return nil
			}
			return lc.c.sm.HandleDoubleSigners(ch, params, real)
		}
		// a certificate of committee `ch` signed by every member: no non-signers
		cv := &lib.ConsensusValidators{}
		for _, v := range lc.vs {
			cv.ValidatorSet = append(cv.ValidatorSet, &lib.ConsensusValidator{PublicKey: v.pub, VotingPower: 1, NetAddress: "tcp://v.example.com"})
		}
		vs, e := lib.NewValidatorSet(cv)
		if e != nil {
			return e
		}
		mk := vs.MultiKey.Copy()
		for i := range lc.vs {
			if er := mk.AddSigner([]byte{1}, i); er != nil {
				panic(er)
			}
		}
		results := &lib.CertificateResult{RewardRecipients: &lib.RewardRecipients{}}
		if !nilRecipients {
			results.SlashRecipients = &lib.SlashRecipients{DoubleSigners: real}
		}
		qc := &lib.QuorumCertificate{Header: &lib.View{NetworkId: 1, ChainId: ch, Height: lc.c.sm.Height(), RootHeight: lc.c.sm.Height()},
			Results: results, Signature: &lib.AggregateSignature{Signature: []byte{1}, Bitmap: mk.Bitmap()}}
		_, e = lc.c.sm.HandleByzantine(qc, &vs)
		return e
	})
	lc.op(op, res)
	lc.o.Count("hds:" + res)
	if viaByzantine {
		lc.o.Count("hds:via-HandleByzantine")
	}
	lc.o.Nontrivial(strings.Join(lc.hist, "\n"))
	if res == "panic" {
		fail(lc.o, "C14:handle-double-signers-panic", "HandleDoubleSigners panicked", map[string]any{"history": lc.hist})
	}
	if res == "ok" && !nilRecipients {
		// oracle: at most once per (validator, height) over the whole history
		for _, d := range real {
			if d == nil {
				continue
			}
			pk, err := crypto.NewPublicKeyFromBytes(d.Id)
			if err != nil {
				continue
			}
			for _, h := range d.Heights {
				k := fmt.Sprintf("%s@%d", drv.Hex(pk.Address().Bytes()), h)
				lc.accepted[k]++
				if lc.accepted[k] > 1 {
					fail(lc.o, "C14:double-slash-same-height", "the pair "+k+" was accepted for slashing "+fmt.Sprint(lc.accepted[k])+" times", map[string]any{"history": lc.hist})
				}
				lc.noteSlash(pk.Address().Bytes(), ch, lc.dsPct)
			}
		}
	}
	return res
}

func (lc *ledgerCase) slash(ch, pct uint64, addrs [][]byte) {
	var as []string
	for _, a := range addrs {
		as = append(as, drv.Hex(a))
	}
	op := fmt.Sprintf("slash chain=%d pct=%d addrs=%s", ch, pct, dash(strings.Join(as, ",")))
	res := lc.c.atomically(func() lib.ErrorI {
		params, e := lc.c.sm.GetParamsVal()
		if e != nil {
			return e
		}
		return lc.c.sm.SlashValidators(addrs, ch, pct, params)
	})
	lc.op(op, res)
	lc.o.Count("slash:" + res)
	if res == "ok" {
		for _, a := range addrs {
			lc.noteSlash(a, ch, pct)
		}
	}
}
