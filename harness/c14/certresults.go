package c14

import (
	"fmt"
	"strings"

	"github.com/canopy-network/canopy/fsm"
	"github.com/canopy-network/canopy/lib"
	"github.com/canopy-network/canopy/lib/crypto"

	"verifharness/drv"
)

// certresults.go: the root-chain side of a nested committee's slash list. A certificate-results transaction
// carries a quorum certificate of the nested committee with Results (reward recipients, SLASH RECIPIENTS, …);
// HandleMessageCertificateResults checks the aggregate signature against the committee and hands the
// results to HandleCertificateResults -> HandleByzantine -> HandleDoubleSigners.
//
// The attack driven here: QuorumCertificate.SignBytes of an ELECTION_VOTE certificate covers only
// {Header, ProposerKey}. The proposer that the committee elected (one Byzantine member suffices) takes the
// genuine +2/3 ELECTION_VOTE certificate naming it, attaches results of its own making (ResultsHash :=
// hash(Results), BlockHash := any 32 bytes) — the aggregate still verifies — and submits it. If the root
// chain accepts it, an honest validator that signed exactly one payload in that view is slashed.

const nestedChain = uint64(2)

type crCase struct {
	o    *drv.Out
	c    *chainFSM
	com  *committee // the nested committee in the root chain's own member order
	hist []string
	w    *world
}

func (cc *crCase) op(op, res string) {
	cc.hist = append(cc.hist, op+"  =>  "+res)
	cc.o.Op(op, res)
}

// submit wraps qc into a certificate-results transaction signed by `signer` and applies it through the real
// ApplyTransaction (CheckTx: stateless Check, authorised signer = the certificate's proposer key, signature,
// fee; then the handler) inside the per-transaction rollback wrapper
func (cc *crCase) submit(signer *val, qc *lib.QuorumCertificate) string {
	tx, err := fsm.NewCertificateResultsTx(signer.priv, qc, 1, uint64(cc.c.sm.NetworkID), 0, cc.c.sm.Height(), "")
	if err != nil {
		return eid(err)
	}
	bz, err := lib.Marshal(tx)
	if err != nil {
		return eid(err)
	}
	return cc.c.atomically(func() lib.ErrorI {
		_, _, er := cc.c.sm.ApplyTransaction(0, bz, crypto.HashString(bz), nil)
		return er
	})
}

func (cc *crCase) results(recipient *val, slash []*lib.DoubleSigner) *lib.CertificateResult {
	r := &lib.CertificateResult{RewardRecipients: &lib.RewardRecipients{PaymentPercents: []*lib.PaymentPercents{{Address: recipient.addr, Percent: 100, ChainId: nestedChain}}}}
	if slash != nil {
		r.SlashRecipients = &lib.SlashRecipients{DoubleSigners: slash}
	}
	return r
}

// line describes the transaction for the model: the certificate (registered like evidence certificates), the
// slash list its results carry, the committee the root chain looks up and who signed the transaction
func (cc *crCase) line(c *cert, slash []*lib.DoubleSigner, hasSlash bool, signer *val, rootHeight uint64) string {
	sl := "none"
	if hasSlash {
		sl = dsListStr(slash)
	}
	return fmt.Sprintf("certres qc=%s slash=%s signer=%s net=%d com=%d=%s", c.id, sl, drv.Hex(signer.pub), uint64(cc.c.sm.NetworkID), rootHeight, cc.com.desc())
}

func runCertResultsCase(o *drv.Out, ci int) {
	r := o.Rng
	o.Case(fmt.Sprintf("certres%d", ci))
	cc := &crCase{o: o, w: &world{signed: map[string]map[string]map[string]bool{}}}
	nv := 4 + r.Intn(3)
	var gvs []genVal
	for i := 0; i < nv; i++ {
		gvs = append(gvs, genVal{vals[i], 1000000, []uint64{1, nestedChain}})
	}
	maxSlash, dsPct := uint64(15), uint64(10)
	c, err := newChain(gvs, true, maxSlash, dsPct, 2, 0)
	if err != nil {
		panic(err)
	}
	defer c.close()
	cc.c = c
	for i := 0; i < 3+r.Intn(3); i++ {
		c.endBlock()
	}
	rootHeight := c.sm.Height() - 1
	vs, e := c.sm.LoadCommittee(nestedChain, rootHeight)
	if e != nil {
		panic(e)
	}
	// the committee in the root chain's order (sorted by stake, then address)
	var ms []*val
	var pw []uint64
	for _, m := range vs.ValidatorSet.ValidatorSet {
		for _, v := range vals {
			if string(v.pub) == string(m.PublicKey) {
				ms = append(ms, v)
				pw = append(pw, m.VotingPower)
			}
		}
	}
	cc.com = newCommittee(ms, pw)
	// ledger line for the model: the same ledger model as the slashing cases
	var keys, vl []string
	for _, v := range vals {
		keys = append(keys, drv.Hex(v.pub)+"="+drv.Hex(v.addr))
	}
	for _, g := range gvs {
		vl = append(vl, fmt.Sprintf("%s:%d:%s", drv.Hex(g.v.addr), g.stake, u64s(g.committees)))
	}
	cc.op(fmt.Sprintf("ledger scoped=1 max=%d pct=%d min=0 keys=%s vals=%s", maxSlash, dsPct, strings.Join(keys, ","), strings.Join(vl, ",")), "ok")
	netID := uint64(c.sm.NetworkID)
	ncert := 0
	reg := func(q *lib.QuorumCertificate, parts []part, res *lib.CertificateResult) *cert {
		ct := &cert{qc: q, com: cc.com, parts: parts, sigLenOK: true, blkD: "nil", resD: "nil", id: fmt.Sprintf("c%d", ncert)}
		ncert++
		if res != nil {
			ct.resD = "1," + drv.Hex(res.Hash())
		}
		cc.op(ct.line(), "ok")
		return ct
	}
	stakes := func() map[string]uint64 {
		m := map[string]uint64{}
		for _, g := range gvs {
			st, _, _ := c.stake(g.v.addr)
			m[string(g.v.addr)] = st
		}
		return m
	}
	dump := func() {
		var addrs, vout []string
		for _, g := range gvs {
			a := drv.Hex(g.v.addr)
			addrs = append(addrs, a)
			if st, cs, ok := c.stake(g.v.addr); ok {
				u := "s"
				if c.unstaking(g.v.addr) {
					u = "u"
				}
				vout = append(vout, fmt.Sprintf("%s:%d:%s:%s", a, st, u64s(cs), u))
			} else {
				vout = append(vout, a+":-")
			}
		}
		cc.op(fmt.Sprintf("dump addrs=%s pairs=- tr=-", strings.Join(addrs, ",")), fmt.Sprintf("vals %s idx - tr -", strings.Join(vout, " ")))
	}
	all := make([]int, len(ms))
	for i := range all {
		all[i] = i
	}
	leader := cc.com.ms[r.Intn(len(ms))] // the elected proposer: the one Byzantine member
	var honest *val
	for _, m := range cc.com.ms {
		if m != leader {
			honest = m
			break
		}
	}
	height := uint64(10)
	// ---- 1. the committee elects `leader`: a genuine +2/3 (here: unanimous) ELECTION_VOTE certificate
	view := &lib.View{Height: height, Round: 0, Phase: lib.Phase_ELECTION_VOTE, RootHeight: rootHeight, NetworkId: netID, ChainId: nestedChain}
	election := &lib.QuorumCertificate{Header: view.Copy(), ProposerKey: leader.pub}
	sig, parts := aggregate(cc.w, cc.com, all, election)
	election.Signature = sig
	// ---- 2. the leader attaches results of its own making: itself as reward recipient, an honest member as double signer
	slash := []*lib.DoubleSigner{{Id: honest.pub, Heights: []uint64{rootHeight}}}
	res := cc.results(leader, slash)
	forged := copyQC(election)
	forged.Results, forged.ResultsHash, forged.BlockHash = res, res.Hash(), h32("no-such-block")
	fc := reg(forged, parts, res)
	// first by somebody who is not the certificate's proposer: the transaction must be signed by the proposer key
	out0 := cc.submit(honest, forged)
	cc.op(cc.line(fc, slash, true, honest, rootHeight), out0)
	o.Count("certres:election-certificate-with-results-by-non-proposer:" + strings.SplitN(out0, "/", 2)[0])
	before := stakes()
	out := cc.submit(leader, forged)
	cc.op(cc.line(fc, slash, true, leader, rootHeight), out)
	o.Count("certres:election-certificate-with-results:" + strings.SplitN(out, "/", 2)[0])
	dump()
	after := stakes()
	if out == "ok" || out0 == "ok" || after[string(honest.addr)] != before[string(honest.addr)] {
		// oracle, independent of the model: the honest member signed exactly one payload in that view
		if !cc.w.equivocated(honest.pub) {
			fail(o, "C14:honest-validator-implicated:election-certificate-carries-slash-list",
				fmt.Sprintf("the root chain accepted certificate results attached to a +2/3 ELECTION_VOTE certificate (its sign bytes cover only header and proposer key); validator %s, which signed one payload in that view, was slashed %d -> %d",
					drv.Hex(honest.addr)[:12], before[string(honest.addr)], after[string(honest.addr)]),
				map[string]any{"history": cc.hist})
		}
	} else {
		o.Count("certres:forged-election-results-refused")
	}
	// ---- 3. controls
	// (b) results changed after a genuine PRECOMMIT_VOTE certificate was signed: the aggregate no longer verifies
	height++
	pv := &lib.View{Height: height, Round: 0, Phase: lib.Phase_PRECOMMIT_VOTE, RootHeight: rootHeight, NetworkId: netID, ChainId: nestedChain}
	good := cc.results(leader, nil)
	final := &lib.QuorumCertificate{Header: pv.Copy(), ProposerKey: leader.pub, Results: good, ResultsHash: good.Hash(), BlockHash: h32("block")}
	sig2, parts2 := aggregate(cc.w, cc.com, all, final)
	final.Signature = sig2
	tampered := copyQC(final)
	tampered.Results, tampered.ResultsHash = res, res.Hash()
	tc := reg(tampered, parts2, res)
	out3 := cc.submit(leader, tampered)
	cc.op(cc.line(tc, slash, true, leader, rootHeight), out3)
	o.Count("certres:results-swapped-after-signing:" + strings.SplitN(out3, "/", 2)[0])
	if out3 == "ok" {
		fail(o, "C14:certificate-results-not-bound-by-signature", "results swapped after the committee signed a PRECOMMIT_VOTE certificate were accepted", map[string]any{"history": cc.hist})
	}
	// (c) the genuine certificate: accepted (the path works), nobody slashed
	gc := reg(final, parts2, good)
	before = stakes()
	out4 := cc.submit(leader, final)
	cc.op(cc.line(gc, nil, false, leader, rootHeight), out4)
	o.Count("certres:genuine:" + strings.SplitN(out4, "/", 2)[0])
	if out4 != "ok" {
		fail(o, "C14:certres-control-refused", "the genuine PRECOMMIT_VOTE certificate results were refused: "+out4, map[string]any{"history": cc.hist})
	}
	// (d) a slash list the committee really signed off (+2/3 PRECOMMIT_VOTE over these very results): applied
	height++
	pv2 := pv.Copy()
	pv2.Height = height
	byzSlash := []*lib.DoubleSigner{{Id: leader.pub, Heights: []uint64{rootHeight}}}
	res2 := cc.results(honest, byzSlash)
	signed := &lib.QuorumCertificate{Header: pv2, ProposerKey: honest.pub, Results: res2, ResultsHash: res2.Hash(), BlockHash: h32("block-2")}
	quorum := all
	if len(all) >= 4 && r.Intn(2) == 0 {
		quorum = all[:len(all)-1]
	}
	sig3, parts3 := aggregate(cc.w, cc.com, quorum, signed)
	signed.Signature = sig3
	sc := reg(signed, parts3, res2)
	out5 := cc.submit(honest, signed)
	cc.op(cc.line(sc, byzSlash, true, honest, rootHeight), out5)
	o.Count("certres:signed-slash-list:" + strings.SplitN(out5, "/", 2)[0])
	dump()
	// (e) a partial certificate (below +2/3) with a slash list
	height++
	pv3 := pv.Copy()
	pv3.Height = height
	res3 := cc.results(leader, slash)
	part3 := &lib.QuorumCertificate{Header: pv3, ProposerKey: leader.pub, Results: res3, ResultsHash: res3.Hash(), BlockHash: h32("block-3")}
	sig4, parts4 := aggregate(cc.w, cc.com, all[:1], part3)
	part3.Signature = sig4
	pc := reg(part3, parts4, res3)
	out6 := cc.submit(leader, part3)
	cc.op(cc.line(pc, slash, true, leader, rootHeight), out6)
	o.Count("certres:partial:" + strings.SplitN(out6, "/", 2)[0])
	dump()
	o.Nontrivial(strings.Join(cc.hist, "\n"))
	if ci == 0 {
		o.Sample("certres: election certificate with attached results -> " + out + "; swapped results -> " + out3 + "; genuine -> " + out4 + "; signed slash list -> " + out5)
	}
}
