// Package c14 drives slashing accountability (C14) on the real code.
//
// evidence.go: real committees with real BLS keys per root height; a pool of certificates that honest
// validators (at most one payload per view each) and equivocating Byzantine validators really signed;
// an adversarial assembler that pairs every certificate with every other (same view / other payload,
// same payload, cross-view, cross-committee, partial, swapped, duplicated, expired, re-targeted, forged
// bits, nil parts) into bft.DoubleSignEvidence and runs the real CheckBasic / Check / ProcessDSE / AddDSE /
// ValidateByzantineEvidence of a real bft.BFT whose controller is answered by this harness.
//
// ledger.go: a real fsm.StateMachine on which HandleByzantine / HandleDoubleSigners / SlashValidators are
// driven with proposer-supplied lists, block after block.
package c14

import (
	"bytes"
	"crypto/sha256"
	"fmt"
	"sort"
	"strings"
	"sync/atomic"

	"github.com/canopy-network/canopy/bft"
	"github.com/canopy-network/canopy/lib"
	"github.com/canopy-network/canopy/lib/crypto"

	"verifharness/drv"
)

// ---------------------------------------------------------------------------------------------
// keys, committees

type val struct {
	priv crypto.PrivateKeyI
	pub  []byte
	addr []byte
}

var vals []*val

func init() {
	for i := 0; i < 12; i++ {
		h := sha256.Sum256([]byte(fmt.Sprintf("verif-c14-bls-%d", i)))
		h[0] &= 0x3f
		k, err := crypto.BytesToBLS12381PrivateKey(h[:])
		if err != nil {
			panic(err)
		}
		vals = append(vals, &val{k, k.PublicKey().Bytes(), k.PublicKey().Address().Bytes()})
	}
}

type committee struct {
	ms     []*val
	powers []uint64
	vs     lib.ValidatorSet
}

func newCommittee(ms []*val, powers []uint64) *committee {
	c := &committee{ms: ms, powers: powers}
	var cv []*lib.ConsensusValidator
	for i, m := range ms {
		cv = append(cv, &lib.ConsensusValidator{PublicKey: m.pub, VotingPower: powers[i]})
	}
	vs, err := lib.NewValidatorSet(&lib.ConsensusValidators{ValidatorSet: cv})
	if err != nil {
		panic(err)
	}
	c.vs = vs
	return c
}

func (c *committee) idx(v *val) int {
	for i, m := range c.ms {
		if m == v {
			return i
		}
	}
	return -1
}

func (c *committee) desc() string {
	var ms []string
	for i, m := range c.ms {
		ms = append(ms, fmt.Sprintf("%s:%d", drv.Hex(m.pub), c.powers[i]))
	}
	return strings.Join(ms, ",")
}

// ---------------------------------------------------------------------------------------------
// the controller the real bft.BFT talks to

var errEnv = lib.NewError(9999, "verif", "controller failure injected by the harness")

type ctrl struct {
	committees map[uint64]*committee
	mins       map[uint64]uint64              // LoadMinimumEvidenceHeight answers (absent = error)
	minFn      func(rh uint64) (uint64, bool) // when set, overrides mins (the wired mode) and records the answer in mins
	slashed    map[string]bool                // pub@height already indexed on the root chain
	cert       *lib.QuorumCertificate         // what LoadCertificate answers
	nFiltered  int                            // IsValidDoubleSigner said no
	syncing    atomic.Bool
}

func (c *ctrl) Lock()                   {}
func (c *ctrl) Unlock()                 {}
func (c *ctrl) ChainHeight() uint64     { return 1 }
func (c *ctrl) RootChainHeight() uint64 { return 1 }
func (c *ctrl) ProduceProposal(*bft.ByzantineEvidence, *crypto.VDF) (uint64, []byte, *lib.CertificateResult, lib.ErrorI) {
	return 0, nil, nil, nil
}
func (c *ctrl) ValidateProposal(uint64, *lib.QuorumCertificate, *bft.ByzantineEvidence) (*lib.BlockResult, lib.ErrorI) {
	return nil, nil
}
func (c *ctrl) LoadCertificate(uint64) (*lib.QuorumCertificate, lib.ErrorI) {
	return c.cert, nil
}
func (c *ctrl) CommitCertificate(*lib.QuorumCertificate, *lib.Block, *lib.BlockResult, uint64) lib.ErrorI {
	return nil
}
func (c *ctrl) GossipBlock(*lib.QuorumCertificate, []byte, uint64)    {}
func (c *ctrl) GossipConsensus(*bft.Message, []byte)                  {}
func (c *ctrl) SelfSendBlock(*lib.QuorumCertificate, uint64)          {}
func (c *ctrl) SendToReplicas(lib.ValidatorSet, lib.Signable)         {}
func (c *ctrl) SendToProposer(lib.Signable)                           {}
func (c *ctrl) LoadRootChainId(uint64) uint64                         { return lib.CanopyChainId }
func (c *ctrl) LoadIsOwnRoot() bool                                   { return false }
func (c *ctrl) Syncing() *atomic.Bool                                 { return &c.syncing }
func (c *ctrl) ResetFSM()                                             {}
func (c *ctrl) SendCertificateResultsTx(*lib.QuorumCertificate)       {}
func (c *ctrl) LoadCommitteeData() (*lib.CommitteeData, lib.ErrorI)   { return &lib.CommitteeData{}, nil }
func (c *ctrl) LoadLastProposers(uint64) (*lib.Proposers, lib.ErrorI) { return &lib.Proposers{}, nil }
func (c *ctrl) LoadMaxBlockSize() int                                 { return lib.GlobalMaxBlockSize }
func (c *ctrl) LoadCommittee(_, rh uint64) (lib.ValidatorSet, lib.ErrorI) {
	if com, ok := c.committees[rh]; ok {
		return com.vs, nil
	}
	return lib.ValidatorSet{}, lib.ErrNoValidators()
}
func (c *ctrl) LoadMinimumEvidenceHeight(_, rh uint64) (*uint64, lib.ErrorI) {
	if c.minFn != nil {
		m, ok := c.minFn(rh)
		if !ok {
			return nil, errEnv
		}
		c.mins[rh] = m
		return &m, nil
	}
	m, ok := c.mins[rh]
	if !ok {
		return nil, errEnv
	}
	return &m, nil
}
func (c *ctrl) IsValidDoubleSigner(_, rh uint64, address []byte) bool {
	for _, v := range vals {
		if bytes.Equal(v.addr, address) {
			if c.slashed[fmt.Sprintf("%s@%d", drv.Hex(v.pub), rh)] {
				c.nFiltered++
				return false
			}
			return true
		}
	}
	return true
}

func (c *ctrl) envLine(net, chain, root uint64) string {
	var coms, mins, sl []string
	var rhs []uint64
	for rh := range c.committees {
		rhs = append(rhs, rh)
	}
	sort.Slice(rhs, func(i, j int) bool { return rhs[i] < rhs[j] })
	for _, rh := range rhs {
		coms = append(coms, fmt.Sprintf("%d=%s", rh, c.committees[rh].desc()))
	}
	rhs = rhs[:0]
	for rh := range c.mins {
		rhs = append(rhs, rh)
	}
	sort.Slice(rhs, func(i, j int) bool { return rhs[i] < rhs[j] })
	for _, rh := range rhs {
		mins = append(mins, fmt.Sprintf("%d:%d", rh, c.mins[rh]))
	}
	for k := range c.slashed {
		sl = append(sl, k)
	}
	sort.Strings(sl)
	return fmt.Sprintf("env net=%d chain=%d root=%d coms=%s mins=%s slashed=%s", net, chain, root, dash(strings.Join(coms, "+")), dash(strings.Join(mins, ",")), dash(strings.Join(sl, ",")))
}

func dash(s string) string {
	if s == "" {
		return "-"
	}
	return s
}

// ---------------------------------------------------------------------------------------------
// certificates and what was really signed

func h32(tag string) []byte { h := sha256.Sum256([]byte(tag)); return h[:] }

func viewStr(v *lib.View) string {
	if v == nil {
		return "nil"
	}
	return fmt.Sprintf("%d,%d,%d,%d,%d,%d", v.Height, v.Round, int(v.Phase), v.RootHeight, v.NetworkId, v.ChainId)
}

// viewKey identifies a view exactly as View.Equals compares it
func viewKey(v *lib.View) string { return viewStr(v) }

func optHex(b []byte) string {
	if b == nil {
		return "nil"
	}
	return drv.Hex(b)
}

// payDesc describes what QuorumCertificate.SignBytes covers
func payDesc(q *lib.QuorumCertificate) string {
	if q.Header != nil && q.Header.Phase == lib.Phase_ELECTION_VOTE {
		return viewStr(q.Header) + "/-/-/" + drv.Hex(q.ProposerKey)
	}
	return viewStr(q.Header) + "/" + drv.Hex(q.BlockHash) + "/" + drv.Hex(q.ResultsHash) + "/" + drv.Hex(q.ProposerKey)
}

func bitsStr(bm []byte) string {
	var sb strings.Builder
	for _, b := range bm {
		for j := 0; j < 8; j++ {
			if b&(1<<uint(j)) != 0 {
				sb.WriteByte('1')
			} else {
				sb.WriteByte('0')
			}
		}
	}
	return dash(sb.String())
}

type part struct {
	v   *val
	pay string
}

type cert struct {
	id       string
	qc       *lib.QuorumCertificate
	com      *committee // the committee whose key list the aggregate was made for
	parts    []part     // the individual signatures inside the aggregate
	sigLenOK bool
	blkD     string
	resD     string
	tag      string
}

// world: everything that was ever signed, for the oracle: pub -> view -> set of payloads
type world struct {
	signed map[string]map[string]map[string]bool
}

func (w *world) record(v *val, q *lib.QuorumCertificate) {
	k := drv.Hex(v.pub)
	if w.signed[k] == nil {
		w.signed[k] = map[string]map[string]bool{}
	}
	vk := viewKey(q.Header)
	if w.signed[k][vk] == nil {
		w.signed[k][vk] = map[string]bool{}
	}
	w.signed[k][vk][payDesc(q)] = true
}

// equivocated: did this key ever sign two different payloads in one view?
func (w *world) equivocated(pub []byte) bool {
	for _, pays := range w.signed[drv.Hex(pub)] {
		if len(pays) > 1 {
			return true
		}
	}
	return false
}

// aggregate builds a real aggregate signature of the given members of com over q's sign bytes
func aggregate(w *world, com *committee, idxs []int, q *lib.QuorumCertificate) (*lib.AggregateSignature, []part) {
	mk := com.vs.MultiKey.Copy()
	sb := q.SignBytes()
	var ps []part
	for _, i := range idxs {
		if err := mk.AddSigner(com.ms[i].priv.Sign(sb), i); err != nil {
			panic(err)
		}
		ps = append(ps, part{com.ms[i], payDesc(q)})
		if w != nil {
			w.record(com.ms[i], q)
		}
	}
	s, err := mk.AggregateSignatures()
	if err != nil {
		panic(err)
	}
	return &lib.AggregateSignature{Signature: s, Bitmap: mk.Bitmap()}, ps
}

func (c *cert) line() string {
	q := c.qc
	sig := "nil"
	if q.Signature != nil {
		var ps, grp []string
		for _, p := range c.parts {
			ps = append(ps, drv.Hex(p.v.pub)+"@"+p.pay)
		}
		for _, m := range c.com.ms {
			grp = append(grp, drv.Hex(m.pub))
		}
		l := 0
		if c.sigLenOK {
			l = 1
		}
		sig = fmt.Sprintf("%d|%s|%s|%s", l, bitsStr(q.Signature.Bitmap), dash(strings.Join(ps, ";")), strings.Join(grp, ","))
	}
	return fmt.Sprintf("qc id=%s hdr=%s bh=%s rh=%s pk=%s blk=%s res=%s sig=%s", c.id, viewStr(q.Header), optHex(q.BlockHash), optHex(q.ResultsHash), optHex(q.ProposerKey), c.blkD, c.resD, sig)
}

func copyQC(q *lib.QuorumCertificate) *lib.QuorumCertificate {
	n := &lib.QuorumCertificate{Block: q.Block, Results: q.Results, BlockHash: q.BlockHash, ResultsHash: q.ResultsHash, ProposerKey: q.ProposerKey}
	if q.Header != nil {
		n.Header = q.Header.Copy()
	}
	if q.Signature != nil {
		n.Signature = &lib.AggregateSignature{Signature: append([]byte{}, q.Signature.Signature...), Bitmap: append([]byte{}, q.Signature.Bitmap...)}
	}
	return n
}

// ---------------------------------------------------------------------------------------------
// results, canonical

func eid(e lib.ErrorI) string {
	if e.Code() == 9999 {
		return "err:env"
	}
	return fmt.Sprintf("err:%s/%d", e.Module(), e.Code())
}

func dsStr(ds []*lib.DoubleSigner) string {
	var out []string
	for _, d := range ds {
		var hs []string
		for _, h := range d.Heights {
			hs = append(hs, fmt.Sprint(h))
		}
		out = append(out, drv.Hex(d.Id)+":"+dash(strings.Join(hs, "/")))
	}
	return dash(strings.Join(out, ","))
}

func dsListStr(ds []*lib.DoubleSigner) string {
	var out []string
	for _, d := range ds {
		if d == nil {
			out = append(out, "nil")
			continue
		}
		var hs []string
		for _, h := range d.Heights {
			hs = append(hs, fmt.Sprint(h))
		}
		out = append(out, drv.Hex(d.Id)+":"+dash(strings.Join(hs, "/")))
	}
	return dash(strings.Join(out, ","))
}

type ev struct {
	a, b  *cert // nil = nil vote
	isNil bool
}

func (e ev) desc() string {
	if e.isNil {
		return "nil"
	}
	n := func(c *cert) string {
		if c == nil {
			return "nil"
		}
		return c.id
	}
	return n(e.a) + "~" + n(e.b)
}

func (e ev) real() *bft.DoubleSignEvidence {
	if e.isNil {
		return nil
	}
	x := &bft.DoubleSignEvidence{}
	if e.a != nil {
		x.VoteA = copyQC(e.a.qc)
	}
	if e.b != nil {
		x.VoteB = copyQC(e.b.qc)
	}
	return x
}

func evsDesc(es []ev) string {
	var out []string
	for _, e := range es {
		out = append(out, e.desc())
	}
	return dash(strings.Join(out, ","))
}

func evsReal(es []ev) []*bft.DoubleSignEvidence {
	var out []*bft.DoubleSignEvidence
	for _, e := range es {
		out = append(out, e.real())
	}
	return out
}

func guard(f func() string) (res string) {
	defer func() {
		if r := recover(); r != nil {
			res = "panic"
		}
	}()
	return f()
}

// ---------------------------------------------------------------------------------------------
// one evidence case

const net, chain = uint64(1), uint64(7)

type evCase struct {
	o     *drv.Out
	c     *ctrl
	b     *bft.BFT
	w     *world
	certs []*cert
	byz   map[*val]bool
	// current root height of the (imagined) root chain and its unstaking period: what "expired" means
	curRoot, unstaking uint64
	wired              bool
	hist               []string
}

func (ec *evCase) op(op, res string) {
	ec.hist = append(ec.hist, op+"  =>  "+res)
	ec.o.Op(op, res)
}

func (ec *evCase) addCert(c *cert) *cert {
	c.id = fmt.Sprintf("q%d", len(ec.certs))
	if c.blkD == "" {
		c.blkD = "nil"
	}
	if c.resD == "" {
		c.resD = "nil"
	}
	ec.certs = append(ec.certs, c)
	ec.op(c.line(), "ok")
	return c
}

// expired (the property's notion): the evidence's root height lies before the unstaking window that
// ends at the root chain's current height
func (ec *evCase) expired(rh uint64) bool {
	return ec.curRoot >= ec.unstaking && rh < ec.curRoot-ec.unstaking
}

// oracle on one accepted result of the real ProcessDSE / ValidateByzantineEvidence
func (ec *evCase) oracleImplicated(what string, ds []*lib.DoubleSigner, opLine string) {
	for _, d := range ds {
		if d == nil {
			continue
		}
		if !ec.w.equivocated(d.Id) {
			fail(ec.o, "C14:honest-validator-implicated", fmt.Sprintf("%s implicates %s, which never signed two payloads in one view", what, drv.Hex(d.Id)[:16]),
				map[string]any{"op": opLine, "history": ec.hist})
		}
		for _, h := range d.Heights {
			// the root chain's index of already slashed (validator, root height) pairs is kept by the harness's
			// controller: such a pair must never be listed again (replayed evidence)
			if ec.c.slashed[fmt.Sprintf("%s@%d", drv.Hex(d.Id), h)] {
				fail(ec.o, "C14:already-slashed-pair-listed-again", fmt.Sprintf("%s lists validator %s for root height %d although the root chain already slashed it for that height", what, drv.Hex(d.Id)[:16], h),
					map[string]any{"op": opLine, "history": tail(ec.hist, 40)})
			}
			// only when the expiry bound comes from the real state machine the way the node is wired
			// (in table mode the harness itself dictates the bound, including wrong ones)
			if ec.wired && ec.expired(h) {
				ec.o.Count("oracle:expired-accepted")
				sig := "C14:expired-evidence-accepted"
				fail(ec.o, sig, fmt.Sprintf("%s accepts evidence of root height %d; the root chain is at %d with unstaking period %d (minimum evidence height %d)", what, h, ec.curRoot, ec.unstaking, ec.curRoot-ec.unstaking),
					map[string]any{"op": opLine, "wired": ec.wired, "history": tail(ec.hist, 40)})
			}
		}
	}
}

// fail records an oracle failure; at most 3 replays per signature and run are kept (all are counted)
var failCount = map[string]int{}

func fail(o *drv.Out, sig, desc string, replay any) {
	o.Count("oracle-failure:" + sig)
	failCount[sig]++
	if failCount[sig] <= 3 {
		o.Fail(sig, desc, replay)
	}
}

func tail(xs []string, n int) []string {
	if len(xs) > n {
		return xs[len(xs)-n:]
	}
	return xs
}

func (ec *evCase) process(es []ev, tag string) []*lib.DoubleSigner {
	op := "process " + evsDesc(es)
	var out []*lib.DoubleSigner
	res := guard(func() string {
		ds, err := ec.b.ProcessDSE(evsReal(es)...)
		if err != nil {
			return eid(err)
		}
		out = ds
		return "ok " + dsStr(ds)
	})
	ec.op(op, res)
	ec.o.Count("process:" + strings.SplitN(res, " ", 2)[0])
	ec.o.Count("pair:" + tag)
	ec.o.Nontrivial(op + "|" + ec.c.envLine(net, chain, ec.b.RootHeight))
	if res == "panic" {
		fail(ec.o, "C14:process-dse-panic", "ProcessDSE panicked", map[string]any{"op": op, "history": tail(ec.hist, 40)})
	}
	if out != nil {
		if len(out) > 0 {
			ec.o.Count("process:implicates")
		}
		ec.oracleImplicated("ProcessDSE", out, op)
	}
	return out
}
