module verifharness

go 1.26.0

require (
	github.com/canopy-network/canopy v0.0.0
	github.com/cockroachdb/pebble/v2 v2.1.6
	github.com/drand/kyber v1.3.2
	github.com/ethereum/go-ethereum v1.17.4
	github.com/holiman/uint256 v1.3.2
	google.golang.org/protobuf v1.36.11
)

require (
	filippo.io/edwards25519 v1.2.0 // indirect
	github.com/DataDog/zstd v1.5.7 // indirect
	github.com/RaduBerinde/axisds v0.1.0 // indirect
	github.com/RaduBerinde/btreemap v0.0.0-20260105202824-d3184786f603 // indirect
	github.com/alecthomas/units v0.0.0-20240927000941-0f3dac36c52b // indirect
	github.com/allegro/bigcache/v3 v3.1.0 // indirect
	github.com/beorn7/perks v1.0.1 // indirect
	github.com/bits-and-blooms/bitset v1.24.5 // indirect
	github.com/cenkalti/backoff/v4 v4.3.0 // indirect
	github.com/cespare/xxhash/v2 v2.3.0 // indirect
	github.com/cockroachdb/crlib v0.0.0-20251122031428-fe658a2dbda1 // indirect
	github.com/cockroachdb/errors v1.14.0 // indirect
	github.com/cockroachdb/logtags v0.0.0-20241215232642-bb51bb14a506 // indirect
	github.com/cockroachdb/redact v1.1.8 // indirect
	github.com/cockroachdb/swiss v0.0.0-20251224182025-b0f6560f979b // indirect
	github.com/cockroachdb/tokenbucket v0.0.0-20250429170803-42689b6311bb // indirect
	github.com/consensys/gnark-crypto v0.20.1 // indirect
	github.com/crate-crypto/go-eth-kzg v1.5.0 // indirect
	github.com/drand/kyber-bls12381 v0.3.4 // indirect
	github.com/fatih/color v1.19.0 // indirect
	github.com/getsentry/sentry-go v0.47.0 // indirect
	github.com/gogo/protobuf v1.3.2 // indirect
	github.com/golang/snappy v1.0.0 // indirect
	github.com/google/btree v1.1.3 // indirect
	github.com/hashicorp/golang-lru/v2 v2.0.7 // indirect
	github.com/kilic/bls12-381 v0.1.0 // indirect
	github.com/klauspost/compress v1.19.0 // indirect
	github.com/kr/pretty v0.3.1 // indirect
	github.com/kr/text v0.2.0 // indirect
	github.com/libp2p/go-buffer-pool v0.1.0 // indirect
	github.com/mattn/go-colorable v0.1.15 // indirect
	github.com/mattn/go-isatty v0.0.22 // indirect
	github.com/minio/minlz v1.1.1 // indirect
	github.com/munnerz/goautoneg v0.0.0-20191010083416-a7dc8b61c822 // indirect
	github.com/mxk/go-flowrate v0.0.0-20140419014527-cca7078d478f // indirect
	github.com/oasisprotocol/curve25519-voi v0.0.0-20251114093237-2ab5a27a1729 // indirect
	github.com/phuslu/iploc v1.0.20260701 // indirect
	github.com/pkg/errors v0.9.1 // indirect
	github.com/prometheus/client_golang v1.23.2 // indirect
	github.com/prometheus/client_model v0.6.2 // indirect
	github.com/prometheus/common v0.69.0 // indirect
	github.com/prometheus/procfs v0.21.1 // indirect
	github.com/rogpeppe/go-internal v1.15.0 // indirect
	golang.org/x/crypto v0.53.0 // indirect
	golang.org/x/exp v0.0.0-20260611194520-c48552f49976 // indirect
	golang.org/x/mod v0.37.0 // indirect
	golang.org/x/net v0.56.0 // indirect
	golang.org/x/sync v0.21.0 // indirect
	golang.org/x/sys v0.46.0 // indirect
	golang.org/x/text v0.38.0 // indirect
	gopkg.in/natefinch/lumberjack.v2 v2.2.1 // indirect
)

replace github.com/canopy-network/canopy => /repo
