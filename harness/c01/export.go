package c01

import (
	"verifharness/bftsim"
	"verifharness/drv"
)

// The op-emitting schedule runner is shared with C15 (same World on the Lean side, more ops).

type (
	Schedule = run
	Sink     = sink
	Recorder = recorder
)

func NewRun(o Sink, name string, cfg bftsim.Config) *Schedule { return newRun(o, name, cfg) }

func (r *run) Phase(i int) bftsim.StepResult     { return r.phase(i) }
func (r *run) Deliver(e *bftsim.Envelope) string { return r.deliver(e) }
func (r *run) Reset(i int, root uint64)          { r.reset(i, root) }
func (r *run) Flush()                            { r.flush() }
func (r *run) End()                              { r.end() }
func (r *run) Sim() *bftsim.Sim                  { return r.s }
func (r *run) Out() Sink                         { return r.o }
func (r *run) Log(f string, a ...any)            { r.log(f, a...) }
func (r *run) Schedule() []string                { return r.sched }
func (r *run) Failed() bool                      { return r.failed }
func (r *run) SetFailed()                        { r.failed = true }
func (r *run) CheckForwardedLock(sig string)     { r.lockSig = sig }
func (r *run) Name() string                      { return r.name }
func (r *recorder) Replay(o *drv.Out)            { r.replay(o) }

func Committed(s *bftsim.Sim, i int) bool { return committed(s, i) }
func CommitsStr(s *bftsim.Sim) string     { return commitsStr(s) }
