package c01

import (
	"fmt"

	"github.com/canopy-network/canopy/bft"
	"github.com/canopy-network/canopy/lib"

	"verifharness/bftsim"
	"verifharness/drv"
)

// findSalt searches a last-proposers seed for which the fallback leader of each listed view satisfies its predicate.
func findSalt(cfg bftsim.Config, want map[bftsim.VR]func(int) bool) uint64 {
	probe := bftsim.New(cfg)
	for salt := uint64(1); salt < 1_000_000; salt++ {
		probe.SetSalt(salt)
		ok := true
		for v, f := range want {
			if !f(probe.FallbackLeader(v.Root, v.Round)) {
				ok = false
				break
			}
		}
		if ok {
			return salt
		}
	}
	panic("c01: no salt with the wanted leader schedule")
}

// elect runs ELECTION (candidate announcements dropped, so every replica falls back to the weighted
// pseudorandom leader of the view) and ELECTION_VOTE, and delivers the votes.
func (r *run) elect(who []int, deliverVotes func(e *bftsim.Envelope) bool) {
	r.phases(who) // ELECTION
	r.dropAll()
	r.phases(who) // ELECTION_VOTE
	r.deliverAll(deliverVotes)
}

// toElection steps the listed replicas until they stand at the ELECTION phase of their next round.
func (r *run) toElection(who []int) {
	for _, i := range who {
		for k := 0; r.s.Nodes[i].B.Phase != bft.Election && k < 12; k++ {
			r.phase(i)
		}
	}
	r.dropAll()
}

func (r *run) byzPropose(i int, hq *lib.QuorumCertificate, what string) []*bftsim.Envelope {
	envs := r.s.ByzProposeWith(i, hq)
	r.s.Nodes[i].B.Phase = bft.ProposeVote
	r.log("byz %d proposes (%s): %d envelopes", i, what, len(envs))
	r.o.Count("byz:propose:" + what)
	r.flush()
	return envs
}

// CorpusStaleLock is the F12 schedule (defect repaired by 9c7b0f6): a Byzantine leader hands the replicas a
// PROPOSE_VOTE certificate of an OLDER round inside its PRECOMMIT message. Before the repair the replicas
// locked at the stale view while precommit-voting in the current one, one replica committed b1, and a
// certificate in between unlocked the others, which committed b2. It must now end with the stale message
// rejected (ErrWrongPhase) and no conflicting commit.
func CorpusStaleLock(o *drv.Out) {
	cfg := bftsim.Config{N: 4, Powers: []uint64{1, 1, 1, 1}, Byz: []int{0}, Root0: 10}
	is0 := func(i int) bool { return i == 0 }
	cfg.Salt = findSalt(cfg, map[bftsim.VR]func(int) bool{{Root: 10, Round: 0}: is0, {Root: 10, Round: 1}: is0, {Root: 10, Round: 2}: is0, {Root: 10, Round: 3}: is0})
	r := newRun(o, "corpus/F12-stale-lock", cfg)
	s := r.s
	A := all(s)
	hon := []int{1, 2, 3}
	// rounds 0 and 1: b1 resp. b2 get a PROPOSE_VOTE certificate; the PRECOMMIT is withheld
	for round := 0; round < 2; round++ {
		r.elect(A, nil)
		r.byzPropose(0, nil, "fresh")
		r.deliverAll(nil)
		r.phases(hon) // PROPOSE (no-op at non-leaders)
		r.phases(A)   // PROPOSE_VOTE
		r.deliverAll(nil)
		r.phase(0) // PRECOMMIT at the leader: the certificate exists now
		r.dropAll()
		r.toElection(A)
	}
	qc0 := s.FindCert(lib.Phase_PROPOSE_VOTE, 1, func(v bftsim.VR) bool { return v == bftsim.VR{Root: 10, Round: 0} })
	qc1 := s.FindCert(lib.Phase_PROPOSE_VOTE, 2, func(v bftsim.VR) bool { return v == bftsim.VR{Root: 10, Round: 1} })
	if qc0 == nil || qc1 == nil {
		o.Fail("C01:corpus-setup", "F12 scenario: the two PROPOSE_VOTE certificates were not produced", r.sched)
		r.end()
		return
	}
	// round 2: b1 again; the PRECOMMIT message carries the round-0 certificate
	r.elect(A, nil)
	r.byzPropose(0, qc0, "repropose-b1")
	r.deliverAll(nil)
	r.phases(hon)
	r.phases(A) // PROPOSE_VOTE
	r.deliverAll(nil)
	r.phase(0) // PRECOMMIT
	envs := s.Take(func(e *bftsim.Envelope) bool { return e.Kind == "PRECOMMIT" })
	s.ByzSwapQC(0, envs, qc0)
	r.log("byz 0 swaps the certificate of its PRECOMMIT message for the round-0 certificate")
	r.o.Count("byz:stale-precommit-certificate")
	rejected := 0
	for _, e := range envs {
		if code := r.deliver(e); code != "" && e.To != 0 {
			rejected++
		}
	}
	r.phases(hon) // PRECOMMIT (no-op)
	r.phases(A)   // PRECOMMIT_VOTE: before 9c7b0f6 everyone locked at (10,0) here
	r.deliverAll(nil)
	r.phase(0) // COMMIT at the leader
	r.deliverAll(func(e *bftsim.Envelope) bool { return e.To == 1 })
	r.dropAll()
	r.toElectionOrCommit(hon)
	// round 3: b2 justified by the round-1 certificate
	live := liveOf(s, A)
	r.toElection(live)
	r.elect(live, nil)
	if s.Nodes[0].B.Phase == bft.Propose {
		r.byzPropose(0, qc1, "repropose-b2-with-round1-certificate")
		s.ByzForgetLock(0)
	}
	r.deliverAll(nil)
	r.runRound(live, 0)
	o.Sample(fmt.Sprintf("F12 corpus: stale PRECOMMIT rejected by %d/3 honest replicas; commits: %s", rejected, commitsStr(s)))
	o.Extra["corpus_F12_stale_precommit_rejected_by"] = rejected
	r.end()
}

// toElectionOrCommit steps replicas forward until they either committed (stay in COMMIT_PROCESS) or reached ELECTION.
func (r *run) toElectionOrCommit(who []int) {
	for _, i := range who {
		for k := 0; k < 12; k++ {
			b := r.s.Nodes[i].B
			if b.Phase == bft.Election {
				break
			}
			res := r.phase(i)
			if res.Before == bft.CommitProcess && res.After == bft.CommitProcess {
				break
			}
		}
	}
}

func liveOf(s *bftsim.Sim, who []int) []int {
	var out []int
	for _, i := range who {
		done := false
		for _, c := range s.Commits {
			if c.Rep == i && c.Accepted {
				done = true
			}
		}
		if !done {
			out = append(out, i)
		}
	}
	return out
}

// runRound runs the listed replicas from PROPOSE (non-leaders) / PROPOSE_VOTE to the end of the round with full delivery.
func (r *run) runRound(who []int, skipProposeFor int) {
	var rest []int
	for _, i := range who {
		if r.s.Nodes[i].B.Phase == bft.Propose {
			rest = append(rest, i)
		}
	}
	r.phases(rest) // PROPOSE
	r.deliverAll(nil)
	for k := 0; k < 5; k++ { // PROPOSE_VOTE, PRECOMMIT, PRECOMMIT_VOTE, COMMIT, COMMIT_PROCESS
		var step []int
		for _, i := range who {
			if p := r.s.Nodes[i].B.Phase; p >= bft.ProposeVote && p <= bft.CommitProcess && !committed(r.s, i) {
				step = append(step, i)
			}
		}
		r.phases(step)
		r.deliverAll(nil)
	}
}

// CorpusRootBump is the F1 schedule (defect repaired by ea0b5df). Stage 1: at (root 10, round 3) B' gets a
// PROPOSE_VOTE certificate and only h1 locks. Root bump to 11 at every replica. Stage 2: at (11,0) a fresh block B is
// certified, validators 0, h2, h3 lock, only h2 commits. Stage 3: at (11,3) the Byzantine leader re-proposes B'
// justified by the (10,3) certificate: h3, locked at (11,0), must refuse (3 > 0 but root 10 < 11).
func CorpusRootBump(o *drv.Out) {
	cfg := bftsim.Config{N: 4, Powers: []uint64{1, 1, 1, 1}, Byz: []int{0}, Root0: 10}
	const byz, h1, h2, h3 = 0, 1, 2, 3
	is0 := func(i int) bool { return i == 0 }
	cfg.Salt = findSalt(cfg, map[bftsim.VR]func(int) bool{
		{Root: 10, Round: 3}: is0,
		{Root: 11, Round: 0}: func(i int) bool { return i == h2 || i == h3 },
		{Root: 11, Round: 3}: is0,
	})
	r := newRun(o, "corpus/F1-root-bump", cfg)
	s := r.s
	A := all(s)
	failRound := func(who []int) {
		r.phases(who) // ELECTION
		r.dropAll()
		r.toElectionNext(who)
	}
	// ---- stage 1
	for s.Nodes[h1].B.Round < 3 {
		failRound(A)
	}
	r.elect(A, nil)
	r.byzPropose(byz, nil, "fresh")
	r.deliverAll(nil)
	r.phases([]int{h1, h2, h3}) // PROPOSE
	r.phases(A)                 // PROPOSE_VOTE: B' certified
	r.deliverAll(nil)
	r.phase(byz) // PRECOMMIT
	r.deliverAll(func(e *bftsim.Envelope) bool { return e.To == h1 })
	r.dropAll()
	r.phase(h1) // PRECOMMIT (no-op)
	r.phase(h1) // PRECOMMIT_VOTE: h1 locks on B' at (10,3)
	r.dropAll()
	lockBPrime := s.FindCert(lib.Phase_PROPOSE_VOTE, 1, func(v bftsim.VR) bool { return v == bftsim.VR{Root: 10, Round: 3} })
	if lockBPrime == nil || s.Nodes[h1].B.HighQC == nil {
		o.Fail("C01:corpus-setup", "F1 scenario: stage 1 did not lock h1", r.sched)
		r.end()
		return
	}
	// ---- root bump: NEW_COMMITTEE reset everywhere (round -> 0, locks kept)
	for _, i := range A {
		r.reset(i, 11)
	}
	// ---- stage 2 at (11,0): leader is h2 or h3; h1's election vote (carrying its lock) is delayed
	r.elect(A, func(e *bftsim.Envelope) bool { return e.From != h1 })
	r.dropAll()
	r.phases(A) // PROPOSE: the leader proposes a fresh block B
	r.deliverAll(nil)
	r.phases(A) // PROPOSE_VOTE: h1 refuses (locked, no justification)
	r.deliverAll(nil)
	r.phases(except(s, h1)) // PRECOMMIT
	r.deliverAll(nil)
	r.phases(except(s, h1)) // PRECOMMIT_VOTE: byz, h2, h3 lock on B
	r.deliverAll(nil)
	r.phases(except(s, h1)) // COMMIT
	r.deliverAll(func(e *bftsim.Envelope) bool { return e.To == h2 })
	r.dropAll()
	r.phase(h2) // COMMIT_PROCESS: h2 commits B
	// ---- everyone else moves on to round 3
	live := []int{byz, h1, h3}
	r.toElection(live)
	for s.Nodes[h3].B.Round < 3 || s.Nodes[h1].B.Round < 3 || s.Nodes[byz].B.Round < 3 {
		var lag []int
		for _, i := range live {
			if s.Nodes[i].B.Round < 3 {
				lag = append(lag, i)
			}
		}
		failRound(lag)
	}
	// ---- stage 3 at (11,3): byz leads and re-proposes B' justified by the (10,3) certificate
	r.elect(live, nil)
	refused := false
	if s.Nodes[byz].B.Phase == bft.Propose {
		r.byzPropose(byz, lockBPrime, "repropose-old-root-certificate")
		s.ByzForgetLock(byz)
		r.deliverAll(nil)
		r.phases([]int{h1, h3}) // PROPOSE
		res1 := r.phase(h1)     // PROPOSE_VOTE: SAFETY (same block as its lock)
		res3 := r.phase(h3)     // PROPOSE_VOTE: must refuse
		r.phase(byz)
		refused = res3.Interrupted && res3.Why == "safenode"
		o.Sample(fmt.Sprintf("F1 corpus stage 3: h1 branch=%s, h3 refused=%v (why=%s)", res1.Branch, refused, res3.Why))
		r.deliverAll(nil)
		r.runRound(live, 0)
	}
	o.Extra["corpus_F1_stage3_refused_by_locked_replica"] = refused
	r.end()
}

// toElectionNext: like toElection but first makes sure the replicas leave the ELECTION phase they stand in.
func (r *run) toElectionNext(who []int) {
	for _, i := range who {
		for k := 0; k < 12; k++ {
			res := r.phase(i)
			if res.After == bft.Election {
				break
			}
		}
	}
	r.dropAll()
}

// CorpusUnlock is the non-vacuity schedule of the LIVENESS branch (the real counterpart of `unlockTrace` in
// Props/C01.lean): h1 alone locks on b1; the others certify and partly lock on b2 one round later without hearing of
// h1's lock; in the third round the leader proposes b2 justified by that certificate and h1 unlocks; b2 commits.
func CorpusUnlock(o *drv.Out) {
	cfg := bftsim.Config{N: 4, Powers: []uint64{1, 1, 1, 1}, Byz: []int{0}, Root0: 10}
	const h1, h2 = 1, 2
	cfg.Salt = findSalt(cfg, map[bftsim.VR]func(int) bool{
		{Root: 10, Round: 1}: func(i int) bool { return i != h1 },
		{Root: 10, Round: 2}: func(i int) bool { return i != h1 },
	})
	r := newRun(o, "corpus/liveness-unlock", cfg)
	s := r.s
	A := all(s)
	// round 0: b1 certified, PRECOMMIT reaches h1 only
	r.elect(A, nil)
	r.phases(A) // PROPOSE
	r.deliverAll(nil)
	r.phases(A) // PROPOSE_VOTE
	r.deliverAll(nil)
	r.phases(A) // PRECOMMIT
	r.deliverAll(func(e *bftsim.Envelope) bool { return e.To == h1 })
	r.dropAll()
	r.phases(A) // PRECOMMIT_VOTE: h1 locks, the others interrupt
	r.dropAll()
	r.toElection(A)
	// round 1: h1's ELECTION_VOTE (carrying its lock) is lost; fresh b2 certified; PRECOMMIT reaches h2 only
	r.elect(A, func(e *bftsim.Envelope) bool { return e.From != h1 })
	r.dropAll()
	r.phases(A) // PROPOSE
	r.deliverAll(nil)
	r.phases(A) // PROPOSE_VOTE: h1 refuses (no justification)
	r.deliverAll(nil)
	r.phases(except(s, h1)) // PRECOMMIT
	r.deliverAll(func(e *bftsim.Envelope) bool { return e.To == h2 })
	r.dropAll()
	r.phases(except(s, h1)) // PRECOMMIT_VOTE: h2 locks on b2
	r.dropAll()
	r.toElection(A)
	// round 2: every lock is reported; the leader picks the highest (b2) and justifies it; h1 unlocks
	r.elect(A, nil)
	r.phases(A) // PROPOSE
	r.deliverAll(nil)
	var br string
	for _, i := range A {
		res := r.phase(i) // PROPOSE_VOTE
		if i == h1 {
			br = res.Branch
		}
	}
	r.deliverAll(nil)
	r.runRound(A, 0)
	o.Sample(fmt.Sprintf("liveness corpus: h1 (locked on b1 at 10.0) voted for b2 with branch %q; commits: %s", br, commitsStr(s)))
	o.Extra["corpus_unlock_branch_of_locked_replica"] = br
	r.end()
}
