package c01

import (
	"fmt"
	"math/rand"

	"github.com/canopy-network/canopy/bft"
	"github.com/canopy-network/canopy/lib"

	"verifharness/bftsim"
)

// relock describes one member of the four-round "re-lock" schedule family (4 equal validators, one Byzantine):
//
//	round r0: block A gets a PROPOSE_VOTE certificate, the PRECOMMIT reaches only X: X locks A@r0
//	round r1: X's lock is not heard; a fresh block B is certified by Byz, Y, Z; the PRECOMMIT reaches only Y: Y locks B@r1
//	round r2: Y's lock is not heard; A is re-proposed justified by A@r0; X (SAFETY), Z and Byz vote; X RE-LOCKS the same
//	          block — its lock must now be the round-r2 certificate —, Z locks A@r2; the COMMIT reaches only Z: Z commits A
//	round r3: B is proposed justified by B@r1 (by the Byzantine leader, or by Y from the locks it hears): X, locked at
//	          A@r2 > B@r1, must refuse. A replica that kept A@r0 as its lock unlocks by LIVENESS and X, Y commit B.
//
// lead[k] is the leader of round r_k (fallback leader; candidate announcements are never delivered), gaps[k] the number
// of failed rounds between r_k and r_{k+1}.
type relock struct {
	byz, X, Y, Z int
	lead         [4]int
	gaps         [3]int
}

func (p relock) rounds() [4]uint64 {
	r0 := uint64(0)
	r1 := r0 + 1 + uint64(p.gaps[0])
	r2 := r1 + 1 + uint64(p.gaps[1])
	r3 := r2 + 1 + uint64(p.gaps[2])
	return [4]uint64{r0, r1, r2, r3}
}

// randomRelock draws roles, leaders (among those for which the stage works) and gaps.
func randomRelock(rng *rand.Rand) relock {
	perm := rng.Perm(4)
	p := relock{byz: perm[0], X: perm[1], Y: perm[2], Z: perm[3]}
	pick := func(xs ...int) int { return xs[rng.Intn(len(xs))] }
	p.lead = [4]int{pick(p.byz, p.X, p.Y, p.Z), pick(p.byz, p.Y, p.Z), pick(p.byz, p.X, p.Z), pick(p.byz, p.Y)}
	for k := range p.gaps {
		if rng.Intn(3) == 0 {
			p.gaps[k] = 1 + rng.Intn(2)
		}
	}
	return p
}

// inRound lists the replicas of `who` that still run round rd (not interrupted, not committed).
func (r *run) inRound(who []int, rd uint64) []int {
	var out []int
	for _, i := range who {
		b := r.s.Nodes[i].B
		if b.Round == rd && b.Phase != bft.Pacemaker && b.Phase != bft.Election && !committed(r.s, i) {
			out = append(out, i)
		}
	}
	return out
}

// proposeStage: ELECTION .. PROPOSE of round rd for `who`; election votes filtered by `hear`; a Byzantine leader proposes
// `hq`'s block justified by hq (nil: fresh), an honest leader runs its own StartProposePhase. Proposals are delivered.
func (r *run) proposeStage(p relock, who []int, leader int, hear func(e *bftsim.Envelope) bool, hq *lib.QuorumCertificate, what string) {
	r.elect(who, hear)
	r.dropAll()
	if leader == p.byz {
		if r.s.Nodes[p.byz].B.Phase == bft.Propose {
			if _, _, err := r.s.Nodes[p.byz].B.GetMajorityVote(); err == nil {
				r.byzPropose(p.byz, hq, what)
			}
		}
	}
	var rest []int
	for _, i := range who {
		if r.s.Nodes[i].B.Phase == bft.Propose {
			rest = append(rest, i)
		}
	}
	r.phases(rest) // PROPOSE (the honest leader proposes here)
	r.deliverAll(nil)
}

// RelockSchedule runs one member of the family on real replicas. The agreement oracle of the runner decides.
func RelockSchedule(o sink, name string, p relock) {
	cfg := bftsim.Config{N: 4, Powers: []uint64{1, 1, 1, 1}, Byz: []int{p.byz}, Root0: 10}
	rd := p.rounds()
	want := map[bftsim.VR]func(int) bool{}
	for k := 0; k < 4; k++ {
		l := p.lead[k]
		want[bftsim.VR{Root: 10, Round: rd[k]}] = func(i int) bool { return i == l }
	}
	cfg.Salt = findSalt(cfg, want)
	r := newRun(o, name, cfg)
	r.sigSuffix = "relock-stale-view"
	s := r.s
	all := all(s)
	r.log("re-lock schedule: byz=%d X=%d Y=%d Z=%d leaders=%v rounds=%v", p.byz, p.X, p.Y, p.Z, p.lead, rd)
	forget := func() { s.ByzForgetLock(p.byz) } // the Byzantine replica votes for whatever is proposed
	failTo := func(who []int, target uint64) {
		for guard := 0; guard < 8; guard++ {
			var lag []int
			for _, i := range who {
				if s.Nodes[i].B.Round < target {
					lag = append(lag, i)
				}
			}
			if len(lag) == 0 {
				return
			}
			r.phases(lag) // ELECTION
			r.dropAll()
			r.toElectionNext(lag)
		}
	}
	endRound := func(who []int) {
		r.dropAll()
		r.toElection(who)
	}
	// ---- r0: A certified, only X locks
	r.proposeStage(p, all, p.lead[0], nil, nil, "fresh-A")
	forget()
	r.phases(r.inRound(all, rd[0])) // PROPOSE_VOTE
	r.deliverAll(nil)
	r.phases(r.inRound(all, rd[0])) // PRECOMMIT
	r.deliverAll(func(e *bftsim.Envelope) bool { return e.To == p.X })
	r.dropAll()
	r.phases(r.inRound(all, rd[0])) // PRECOMMIT_VOTE: X locks A@r0, the others interrupt
	endRound(all)
	certA := s.FindCert(lib.Phase_PROPOSE_VOTE, 1, func(v bftsim.VR) bool { return v.Round == rd[0] })
	if certA == nil || s.Nodes[p.X].B.HighQC == nil {
		r.o.Count("relock:setup-failed:r0")
		r.end()
		return
	}
	failTo(all, rd[1])
	// ---- r1: B certified by Byz, Y, Z without hearing of X's lock; only Y locks
	r.proposeStage(p, all, p.lead[1], func(e *bftsim.Envelope) bool { return e.From != p.X }, nil, "fresh-B")
	forget()
	r.phases(r.inRound(all, rd[1])) // PROPOSE_VOTE: X refuses
	r.deliverAll(nil)
	r.phases(r.inRound(all, rd[1])) // PRECOMMIT
	r.deliverAll(func(e *bftsim.Envelope) bool { return e.To == p.Y })
	r.dropAll()
	r.phases(r.inRound(all, rd[1])) // PRECOMMIT_VOTE: Y locks B@r1
	endRound(all)
	certB := s.FindCert(lib.Phase_PROPOSE_VOTE, 2, func(v bftsim.VR) bool { return v.Round == rd[1] })
	if certB == nil || s.Nodes[p.Y].B.HighQC == nil {
		r.o.Count("relock:setup-failed:r1")
		r.end()
		return
	}
	failTo(all, rd[2])
	// ---- r2: A re-proposed justified by A@r0 without hearing of Y's lock; X re-locks, Z locks, only Z commits
	r.proposeStage(p, all, p.lead[2], func(e *bftsim.Envelope) bool { return e.From != p.Y }, certA, "repropose-A-with-r0-certificate")
	forget()
	r.phases(r.inRound(all, rd[2])) // PROPOSE_VOTE: X SAFETY, Z, Byz vote; Y refuses
	r.deliverAll(nil)
	r.phases(r.inRound(all, rd[2])) // PRECOMMIT
	r.deliverAll(func(e *bftsim.Envelope) bool { return e.To != p.Y })
	r.dropAll()
	r.phases(r.inRound(all, rd[2])) // PRECOMMIT_VOTE: X re-locks the same block
	r.deliverAll(nil)
	lockX := s.State(p.X)
	r.phases(r.inRound(all, rd[2])) // COMMIT
	r.deliverAll(func(e *bftsim.Envelope) bool { return e.To == p.Z })
	r.dropAll()
	r.phases(r.inRound(all, rd[2])) // COMMIT_PROCESS: Z commits A
	if !committed(s, p.Z) {
		r.o.Count("relock:setup-failed:r2")
		r.end()
		return
	}
	live := liveOf(s, all)
	endRound(live)
	failTo(live, rd[3])
	// ---- r3: B proposed justified by B@r1
	r.proposeStage(p, live, p.lead[3], nil, certB, "propose-B-with-r1-certificate")
	forget()
	var xRes bftsim.StepResult
	for _, i := range r.inRound(live, rd[3]) { // PROPOSE_VOTE
		res := r.phase(i)
		if i == p.X {
			xRes = res
		}
	}
	r.deliverAll(nil)
	r.runRound(live, 0)
	r.o.Count("relock:completed")
	r.o.Sample(fmt.Sprintf("%s: X after re-locking in round %d: %s; in round %d X: interrupted=%v why=%s branch=%s; commits: %s",
		name, rd[2], lockX, rd[3], xRes.Interrupted, xRes.Why, xRes.Branch, commitsStr(s)))
	r.end()
}

// CorpusRelock is the base member: the Byzantine validator leads all four rounds.
func CorpusRelock(o sink) {
	RelockSchedule(o, "corpus/relock-stale-view", relock{byz: 0, X: 1, Y: 2, Z: 3, lead: [4]int{0, 0, 0, 0}})
	// the all-honest-leaders member: X's own re-proposal, Y proposes from the locks it hears
	RelockSchedule(o, "corpus/relock-stale-view/honest-leaders", relock{byz: 0, X: 1, Y: 2, Z: 3, lead: [4]int{3, 2, 1, 2}, gaps: [3]int{0, 1, 0}})
}

// CorpusHighQcOneHash: every replica locks on (B, R) in round 0 and only replica 3 commits; in round 1 the Byzantine
// leader attaches the genuine lock certificate of (B, R) as HighQc to a proposal that differs from it in exactly one of
// (block, results). SafeNode's justification check must reject it (ErrMismatchedProposals): a check that demands BOTH
// hashes to differ lets the locked replicas vote through the SAFETY branch, lock and commit the other proposal.
func CorpusHighQcOneHash(o sink, variant string) {
	cfg := bftsim.Config{N: 4, Powers: []uint64{1, 1, 1, 1}, Byz: []int{0}, Root0: 10}
	is0 := func(i int) bool { return i == 0 }
	cfg.Salt = findSalt(cfg, map[bftsim.VR]func(int) bool{{Root: 10, Round: 0}: is0, {Root: 10, Round: 1}: is0})
	r := newRun(o, "corpus/highqc-binds-one-hash/different-"+variant, cfg)
	r.sigSuffix = "highqc-binds-one-hash"
	s := r.s
	A := all(s)
	// round 0: B certified, everybody locks, only replica 3 commits
	r.elect(A, nil)
	r.byzPropose(0, nil, "fresh")
	r.deliverAll(nil)
	r.phases([]int{1, 2, 3}) // PROPOSE
	r.phases(A)              // PROPOSE_VOTE
	r.deliverAll(nil)
	r.phases(A) // PRECOMMIT
	r.deliverAll(nil)
	r.phases(A) // PRECOMMIT_VOTE: all lock on (B, R)
	r.deliverAll(nil)
	r.phases(A) // COMMIT
	r.deliverAll(func(e *bftsim.Envelope) bool { return e.To == 3 })
	r.dropAll()
	r.phases(A) // COMMIT_PROCESS: 3 commits, the others interrupt
	live := liveOf(s, A)
	r.toElection(live)
	cert := s.FindCert(lib.Phase_PROPOSE_VOTE, 1, func(v bftsim.VR) bool { return v.Round == 0 })
	if cert == nil || !committed(s, 3) {
		r.o.Count("highqc-one-hash:setup-failed")
		r.end()
		return
	}
	// round 1: the mismatching proposal justified by the genuine lock certificate
	r.elect(live, nil)
	var res1 bftsim.StepResult
	if s.Nodes[0].B.Phase == bft.Propose {
		envs := r.byzPropose(0, cert, "lock-certificate-with-different-"+variant)
		s.ByzMismatchProposal(0, envs, variant)
		r.flush()
		s.ByzForgetLock(0)
		r.deliverAll(nil)
		r.phases([]int{1, 2}) // PROPOSE
		res1 = r.phase(1)     // PROPOSE_VOTE
		r.phase(2)
		r.phase(0)
		r.deliverAll(nil)
		r.runRound(live, 0)
	}
	r.o.Sample(fmt.Sprintf("%s: locked replica 1 on the mismatching proposal: interrupted=%v why=%s; commits: %s", r.name, res1.Interrupted, res1.Why, commitsStr(s)))
	r.end()
}

// CorpusLockFromOtherPhase: every replica locks on A in round 0 and only replica 3 commits. Then a certificate of ANOTHER
// phase is offered as a lock for a fresh block B: a genuine ELECTION_VOTE certificate (its signature covers only header
// and proposer key) with B's block, results and hashes stapled on. CheckHighQC's phase check must reject it.
//   - variant "propose": the Byzantine leader of round 1 attaches the forged certificate of its own round to its PROPOSE;
//   - variant "election-vote": the Byzantine leader of round 1 keeps its election certificate and, in round 2, hands the
//     correct leader an ELECTION_VOTE whose HighQc is that certificate with B stapled on.
//
// If it passes, replicas locked on A@(10,0) unlock by LIVENESS (round 1 > round 0), lock and commit B.
func CorpusLockFromOtherPhase(o sink, variant string) {
	cfg := bftsim.Config{N: 4, Powers: []uint64{1, 1, 1, 1}, Byz: []int{0}, Root0: 10}
	is0 := func(i int) bool { return i == 0 }
	want := map[bftsim.VR]func(int) bool{{Root: 10, Round: 0}: is0, {Root: 10, Round: 1}: is0}
	if variant == "election-vote" {
		want[bftsim.VR{Root: 10, Round: 2}] = func(i int) bool { return i == 1 }
	}
	cfg.Salt = findSalt(cfg, want)
	r := newRun(o, "corpus/lock-from-other-phase/"+variant, cfg)
	r.sigSuffix = "lock-from-other-phase"
	s := r.s
	A := all(s)
	// round 0: A certified, everybody locks, only replica 3 commits
	r.elect(A, nil)
	r.byzPropose(0, nil, "fresh")
	r.deliverAll(nil)
	r.phases([]int{1, 2, 3}) // PROPOSE
	r.phases(A)              // PROPOSE_VOTE
	r.deliverAll(nil)
	r.phases(A) // PRECOMMIT
	r.deliverAll(nil)
	r.phases(A) // PRECOMMIT_VOTE: all lock on A
	r.deliverAll(nil)
	r.phases(A) // COMMIT
	r.deliverAll(func(e *bftsim.Envelope) bool { return e.To == 3 })
	r.dropAll()
	r.phases(A) // COMMIT_PROCESS: 3 commits, the others interrupt
	live := liveOf(s, A)
	r.toElection(live)
	if !committed(s, 3) || len(live) != 3 {
		r.o.Count("lock-from-other-phase:setup-failed")
		r.end()
		return
	}
	blkB, resB := s.NewBlock("byz-B")
	// round 1: the Byzantine leader holds the ELECTION_VOTE certificate of the round
	r.elect(live, nil)
	ec := s.ElectionCertOfCurrentRound(0)
	if ec == nil {
		r.o.Count("lock-from-other-phase:setup-failed")
		r.end()
		return
	}
	forged := s.ByzForgedLockFromOtherPhase(0, ec, blkB, resB)
	var res1 bftsim.StepResult
	if variant == "propose" {
		r.byzPropose(0, forged, "justified-by-forged-election-certificate")
		s.ByzForgetLock(0)
		r.deliverAll(nil)
		r.phases([]int{1, 2}) // PROPOSE
		res1 = r.phase(1)     // PROPOSE_VOTE
		r.phase(2)
		r.phase(0)
		r.deliverAll(nil)
		r.runRound(live, 0)
	} else {
		r.dropAll() // the Byzantine leader proposes nothing: round 1 fails
		r.toElectionNext(live)
		// round 2, correct leader 1: the Byzantine ELECTION_VOTE carries the forged certificate of round 1
		r.phases(live) // ELECTION
		r.dropAll()
		r.phases(live) // ELECTION_VOTE
		s.Take(func(e *bftsim.Envelope) bool { return e.From == 0 && e.Kind == "ELECTION_VOTE" })
		s.ByzElectionVote(0, bftsim.VR{Root: 10, Round: 2}, 1, forged, 1)
		r.log("byz 0 sends the leader an ELECTION_VOTE whose HighQc is the round-1 ELECTION_VOTE certificate with block B stapled on")
		r.o.Count("byz:election-vote-with-forged-lock")
		r.deliverAll(nil)
		s.ByzForgetLock(0)
		r.phases(live) // PROPOSE
		r.deliverAll(nil)
		res1 = r.phase(2) // PROPOSE_VOTE of the other locked replica
		r.phase(1)
		r.phase(0)
		r.deliverAll(nil)
		r.runRound(live, 0)
	}
	r.o.Sample(fmt.Sprintf("%s: a locked replica on the proposal justified by the forged lock: interrupted=%v why=%s branch=%s; commits: %s", r.name, res1.Interrupted, res1.Why, res1.Branch, commitsStr(s)))
	r.end()
}

// CorpusCommitteeChange: a root-height bump under which the controller lists the same committee in another order (same
// members, same stakes). A certificate formed at root height 10 stays meaningful only under the validator list of root
// height 10.
//   - variant "lock-carried-over": replica 1 alone locks at (10,0); everybody is reset to root height 11; two full rounds
//     follow (the lock is re-proposed with its root-10 certificate). Agreement oracle.
//   - variant "bitmap-for-other-committee": the Byzantine leader of (10,0) aggregates the PROPOSE_VOTEs of {0,1,2} into a
//     certificate whose signer bitmap is laid out for the list of root height 11, and after the bump offers it as HighQc.
//     Under the committee of its own root height the bitmap names {1,2,3} — replica 3 never signed: it must be rejected.
func CorpusCommitteeChange(o sink, variant string) {
	cfg := bftsim.Config{N: 4, Powers: []uint64{1, 1, 1, 1}, Byz: []int{0}, Root0: 10, CommitteeOrder: map[uint64][]int{11: {3, 2, 1, 0}}}
	is0 := func(i int) bool { return i == 0 }
	cfg.Salt = findSalt(cfg, map[bftsim.VR]func(int) bool{{Root: 10, Round: 0}: is0, {Root: 11, Round: 0}: is0})
	r := newRun(o, "corpus/committee-reordered-at-root-bump/"+variant, cfg)
	r.sigSuffix = "certificate-under-wrong-committee"
	s := r.s
	A := all(s)
	r.elect(A, nil)
	r.byzPropose(0, nil, "fresh")
	var forged *lib.QuorumCertificate
	if variant == "lock-carried-over" {
		r.deliverAll(nil)
		r.phases([]int{1, 2, 3}) // PROPOSE
		r.phases(A)              // PROPOSE_VOTE
		r.deliverAll(nil)
		r.phases(A) // PRECOMMIT
		r.deliverAll(func(e *bftsim.Envelope) bool { return e.To == 1 })
		r.dropAll()
		r.phases(r.inRound(A, 0)) // PRECOMMIT_VOTE: replica 1 locks
	} else {
		r.deliverAll(func(e *bftsim.Envelope) bool { return e.To != 3 }) // replica 3 never sees the proposal: it does not vote
		r.phases([]int{1, 2, 3})                                         // PROPOSE
		r.phases(A)                                                      // PROPOSE_VOTE
		var votes []*bft.Message
		for _, e := range s.Queue {
			if e.Kind == "PROPOSE_VOTE" && e.To == 0 {
				votes = append(votes, e.Msg)
			}
		}
		forged = s.ByzCertForCommittee(votes, 11)
		r.log("byz 0 aggregates the PROPOSE_VOTEs of %d replicas into a certificate whose bitmap is laid out for root height 11", len(votes))
	}
	r.dropAll()
	r.toElection(A)
	for _, i := range A {
		r.reset(i, 11)
	}
	for round := 0; round < 2 && len(liveOf(s, A)) == 4; round++ {
		r.elect(A, nil)
		if forged != nil && round == 0 && s.Nodes[0].B.Phase == bft.Propose {
			r.byzPropose(0, forged, "certificate-with-bitmap-of-another-committee")
			r.o.Count("byz:propose:certificate-with-bitmap-of-another-committee")
		}
		if forged != nil {
			s.ByzForgetLock(0)
		}
		r.runRound(A, 0)
		r.dropAll()
		r.toElectionOrCommit(liveOf(s, A))
	}
	r.o.Sample(fmt.Sprintf("%s: commits: %s", r.name, commitsStr(s)))
	r.end()
}

// CorpusLeaderLockDowngraded: BFT.HighQC is both "the highest certificate a leader heard of" and the replica's own lock.
// (1) round 0: Y gets a PROPOSE_VOTE certificate, the Byzantine leader withholds the PRECOMMIT: nobody locks, the
// certificate stays with the Byzantine validator. (2) round 1: X is certified; A (replica 1) and L (replica 2) lock on it,
// the COMMIT reaches only A, which commits X. (3) round 2 is led by L; its own ELECTION_VOTE (carrying the lock X@1) and
// B's arrive first, the Byzantine ELECTION_VOTE carrying the old certificate Y@0 arrives LAST. The replacement test must
// keep the higher certificate: a leader that takes the last valid one re-proposes Y, passes its own SafeNode (its lock IS
// now Y), and L, the never-locked B and the Byzantine validator commit Y while A committed X.
func CorpusLeaderLockDowngraded(o sink) {
	const byz, A, L, B = 0, 1, 2, 3
	cfg := bftsim.Config{N: 4, Powers: []uint64{1, 1, 1, 1}, Byz: []int{byz}, Root0: 10}
	is := func(x int) func(int) bool { return func(i int) bool { return i == x } }
	cfg.Salt = findSalt(cfg, map[bftsim.VR]func(int) bool{{Root: 10, Round: 0}: is(byz), {Root: 10, Round: 1}: is(byz), {Root: 10, Round: 2}: is(L)})
	r := newRun(o, "corpus/leader-lock-downgraded", cfg)
	r.sigSuffix = "leader-lock-downgraded"
	s := r.s
	all := all(s)
	// (1) round 0: Y certified, PRECOMMIT withheld
	r.elect(all, nil)
	r.byzPropose(byz, nil, "fresh-Y")
	r.deliverAll(nil)
	r.phases([]int{A, L, B}) // PROPOSE
	r.phases(all)            // PROPOSE_VOTE
	r.deliverAll(nil)
	r.phase(byz) // PRECOMMIT at the leader: the certificate exists now
	r.dropAll()
	r.toElection(all)
	certY := s.CertWithProposal(s.FindCert(lib.Phase_PROPOSE_VOTE, 1, func(v bftsim.VR) bool { return v.Round == 0 }))
	// (2) round 1: X certified, A and L lock, only A commits
	r.elect(all, nil)
	r.byzPropose(byz, nil, "fresh-X")
	r.deliverAll(nil)
	r.phases([]int{A, L, B}) // PROPOSE
	r.phases(all)            // PROPOSE_VOTE
	r.deliverAll(nil)
	r.phases(r.inRound(all, 1)) // PRECOMMIT
	r.deliverAll(func(e *bftsim.Envelope) bool { return e.To != B })
	r.dropAll()
	r.phases(r.inRound(all, 1)) // PRECOMMIT_VOTE: A, L (and the Byzantine one) lock on X; B interrupts
	r.deliverAll(nil)
	r.phases(r.inRound(all, 1)) // COMMIT
	r.deliverAll(func(e *bftsim.Envelope) bool { return e.To == A })
	r.dropAll()
	r.phases(r.inRound(all, 1)) // COMMIT_PROCESS: A commits X
	if certY == nil || !committed(s, A) || s.Nodes[L].B.HighQC == nil {
		r.o.Count("leader-lock-downgraded:setup-failed")
		r.end()
		return
	}
	live := liveOf(s, all)
	r.toElection(live)
	// (3) round 2, leader L: the replayed certificate arrives last
	r.phases(live) // ELECTION
	r.dropAll()
	r.phases(live) // ELECTION_VOTE
	s.Take(func(e *bftsim.Envelope) bool { return e.From == byz && e.Kind == "ELECTION_VOTE" })
	r.deliverAll(nil) // L's own vote and B's
	before := s.State(L)
	r.deliver(s.ByzElectionVote(byz, bftsim.VR{Root: 10, Round: 2}, L, certY, L))
	s.Take(func(e *bftsim.Envelope) bool { return e.From == byz && e.Kind == "ELECTION_VOTE" })
	r.log("byz %d replays the round-0 certificate of Y in an ELECTION_VOTE to the locked leader %d, delivered last", byz, L)
	r.o.Count("byz:election-vote-replays-older-certificate-last")
	after := s.State(L)
	s.ByzForgetLock(byz)
	r.runRound(live, 0)
	r.o.Sample(fmt.Sprintf("%s: leader before the replayed vote: %s; after: %s; commits: %s", r.name, before, after, commitsStr(s)))
	r.end()
}

// CorpusLeaderCertFromEarlierRoot: a committee-preserving root-chain update mid-height; the Byzantine validator leads four
// views and only withholds and replays genuine certificates. (1) (10,0): X certified (QC_A), PRECOMMIT withheld.
// (2) (10,1): Y certified (QC_B), PRECOMMIT withheld. Everybody is reset to root height 11. (3) (11,0): X is proposed
// again; the PRECOMMIT message carries the PRE-update QC_A — same round number, right phase, earlier root height. It must
// be rejected (a certificate justifying a live leader message is from the replica's own root height): a replica that
// accepts it locks with rank (10,0) while it precommit-votes in (11,0); the COMMIT is shown to replica 3, which commits X.
// (4) (11,1): Y proposed with HighQc = QC_B (10,1): the replicas locked at rank (10,0) unlock by LIVENESS and commit Y.
func CorpusLeaderCertFromEarlierRoot(o sink) {
	cfg := bftsim.Config{N: 4, Powers: []uint64{1, 1, 1, 1}, Byz: []int{0}, Root0: 10}
	is0 := func(i int) bool { return i == 0 }
	cfg.Salt = findSalt(cfg, map[bftsim.VR]func(int) bool{{Root: 10, Round: 0}: is0, {Root: 10, Round: 1}: is0, {Root: 11, Round: 0}: is0, {Root: 11, Round: 1}: is0})
	r := newRun(o, "corpus/leader-cert-from-earlier-root-height", cfg)
	r.sigSuffix = "leader-cert-from-earlier-root-height"
	s := r.s
	A := all(s)
	hon := []int{1, 2, 3}
	certify := func(hq *lib.QuorumCertificate, what string) { // a round in which the proposal is certified and the PRECOMMIT withheld
		r.elect(A, nil)
		r.byzPropose(0, hq, what)
		s.ByzForgetLock(0)
		r.deliverAll(nil)
		r.phases(hon) // PROPOSE
		r.phases(A)   // PROPOSE_VOTE
		r.deliverAll(nil)
	}
	certify(nil, "fresh-X")
	r.phase(0) // PRECOMMIT at the leader: QC_A exists
	r.dropAll()
	r.toElection(A)
	certify(nil, "fresh-Y")
	r.phase(0)
	r.dropAll()
	r.toElection(A)
	qcA := s.CertWithProposal(s.FindCert(lib.Phase_PROPOSE_VOTE, 1, func(v bftsim.VR) bool { return v == bftsim.VR{Root: 10, Round: 0} }))
	qcB := s.CertWithProposal(s.FindCert(lib.Phase_PROPOSE_VOTE, 2, func(v bftsim.VR) bool { return v == bftsim.VR{Root: 10, Round: 1} }))
	if qcA == nil || qcB == nil {
		r.o.Count("leader-cert-from-earlier-root:setup-failed")
		r.end()
		return
	}
	for _, i := range A {
		r.reset(i, 11)
	}
	// (3) (11,0): X again, PRECOMMIT justified by the pre-update certificate
	certify(qcA, "repropose-X-after-root-update")
	r.phase(0) // PRECOMMIT
	envs := s.Take(func(e *bftsim.Envelope) bool { return e.Kind == "PRECOMMIT" })
	s.ByzSwapQC(0, envs, qcA)
	r.log("byz 0 swaps the certificate of its PRECOMMIT message at (11,0) for the certificate formed at (10,0)")
	r.o.Count("byz:precommit-certificate-from-earlier-root-height")
	accepted := 0
	for _, e := range envs {
		if r.deliver(e) == "" && e.To != 0 {
			accepted++
		}
	}
	r.phases(hon) // PRECOMMIT (no-op)
	r.phases(A)   // PRECOMMIT_VOTE
	lock1 := s.State(1)
	r.deliverAll(nil)
	r.phase(0) // COMMIT at the leader
	r.deliverAll(func(e *bftsim.Envelope) bool { return e.To == 3 })
	r.dropAll()
	r.toElectionOrCommit(hon)
	live := liveOf(s, A)
	r.toElection(live)
	// (4) (11,1): Y justified by QC_B
	r.elect(live, nil)
	if s.Nodes[0].B.Phase == bft.Propose {
		r.byzPropose(0, qcB, "propose-Y-with-pre-update-certificate")
		s.ByzForgetLock(0)
	}
	r.deliverAll(nil)
	r.runRound(live, 0)
	r.o.Sample(fmt.Sprintf("%s: PRECOMMIT with the (10,0) certificate accepted by %d/3 honest replicas; replica 1 then: %s; commits: %s", r.name, accepted, lock1, commitsStr(s)))
	r.end()
}

// CorpusProposalWithoutJustification: every replica locks on A in round 0 and only replica 3 commits. In round 1 the
// Byzantine leader proposes a fresh block B and simply attaches no HighQc. A locked replica must run SafeNode on every
// proposal (it fails with ErrNoSafeNodeJustification): a replica that skips the predicate when the message carries no
// HighQc votes for B, and with the Byzantine vote B is certified, locked and committed next to A.
func CorpusProposalWithoutJustification(o sink) {
	cfg := bftsim.Config{N: 4, Powers: []uint64{1, 1, 1, 1}, Byz: []int{0}, Root0: 10}
	is0 := func(i int) bool { return i == 0 }
	cfg.Salt = findSalt(cfg, map[bftsim.VR]func(int) bool{{Root: 10, Round: 0}: is0, {Root: 10, Round: 1}: is0})
	r := newRun(o, "corpus/locked-replica-proposal-without-highqc", cfg)
	r.sigSuffix = "proposal-without-justification"
	s := r.s
	A := all(s)
	r.elect(A, nil)
	r.byzPropose(0, nil, "fresh")
	r.deliverAll(nil)
	r.phases([]int{1, 2, 3}) // PROPOSE
	r.phases(A)              // PROPOSE_VOTE
	r.deliverAll(nil)
	r.phases(A) // PRECOMMIT
	r.deliverAll(nil)
	r.phases(A) // PRECOMMIT_VOTE: all lock on A
	r.deliverAll(nil)
	r.phases(A) // COMMIT
	r.deliverAll(func(e *bftsim.Envelope) bool { return e.To == 3 })
	r.dropAll()
	r.phases(A) // COMMIT_PROCESS: 3 commits, the others interrupt
	live := liveOf(s, A)
	r.toElection(live)
	if !committed(s, 3) || len(live) != 3 {
		r.o.Count("proposal-without-justification:setup-failed")
		r.end()
		return
	}
	r.elect(live, nil)
	var res1 bftsim.StepResult
	if s.Nodes[0].B.Phase == bft.Propose {
		r.byzPropose(0, nil, "fresh-without-highqc-to-locked-replicas")
		s.ByzForgetLock(0)
		r.deliverAll(nil)
		r.phases([]int{1, 2}) // PROPOSE
		res1 = r.phase(1)     // PROPOSE_VOTE
		r.phase(2)
		r.phase(0)
		r.deliverAll(nil)
		r.runRound(live, 0)
	}
	r.o.Sample(fmt.Sprintf("%s: locked replica 1 on the unjustified proposal: interrupted=%v why=%s; commits: %s", r.name, res1.Interrupted, res1.Why, commitsStr(s)))
	r.end()
}

// CorpusUndersizedCertificates: a committee whose total power is 2 mod 3 (where 2*(T/3)+1 is one unit below the +2/3
// threshold 2T/3+1). The Byzantine leader equivocates — block X to one half of the correct replicas, block Y to the other —
// every Byzantine validator signs on both sides, and the leader hand-assembles, for each block, the certificate of exactly
// that half plus the Byzantine signers: its power is one unit below +2/3. Replicas must treat such certificates as partial
// (evidence, never a justification): nobody locks, nobody commits. A replica-side threshold that is one unit too low lets
// both halves lock and commit their block.
func CorpusUndersizedCertificates(o sink, powers []uint64, byz, half1, half2 []int) {
	n := len(powers)
	cfg := bftsim.Config{N: n, Powers: powers, Byz: byz, Root0: 10}
	leader := byz[0]
	cfg.Salt = findSalt(cfg, map[bftsim.VR]func(int) bool{{Root: 10, Round: 0}: func(i int) bool { return i == leader }})
	r := newRun(o, fmt.Sprintf("corpus/undersized-certificates/powers%v-byz%v", powers, byz), cfg)
	r.sigSuffix = "undersized-certificate"
	s := r.s
	A := all(s)
	view := bftsim.VR{Root: 10, Round: 0}
	in := func(set []int, x int) bool {
		for _, y := range set {
			if y == x {
				return true
			}
		}
		return false
	}
	r.elect(A, nil)
	if _, _, err := s.Nodes[leader].B.GetMajorityVote(); err != nil || s.Nodes[leader].B.Phase != bft.Propose {
		r.o.Count("undersized-certificates:setup-failed")
		r.end()
		return
	}
	// two proposals, one per half
	e1 := s.ByzProposeWith(leader, nil)
	e2 := s.ByzProposeWith(leader, nil)
	s.Nodes[leader].B.Phase = bft.ProposeVote
	r.log("byz %d equivocates: block X to %v, block Y to %v", leader, half1, half2)
	r.o.Count("byz:propose:equivocate-to-halves")
	r.flush()
	keep := map[*bftsim.Envelope]bool{}
	for _, e := range e1 {
		keep[e] = in(half1, e.To)
	}
	for _, e := range e2 {
		keep[e] = in(half2, e.To)
	}
	r.deliverAll(func(e *bftsim.Envelope) bool { return keep[e] })
	r.dropAll()
	var correct []int
	for _, i := range A {
		if !in(byz, i) {
			correct = append(correct, i)
		}
	}
	r.phases(correct) // PROPOSE
	r.phases(correct) // PROPOSE_VOTE: each half votes for its block
	blkOf := func(half []int) int {
		b := s.Nodes[half[0]].B
		return s.BlockID(b.GetBlockHash(), b.Results.Hash())
	}
	// assemble, per half, the certificate of that half's votes plus the Byzantine signatures; hand it out; repeat for COMMIT
	collect := func(kind string, half []int) []*bft.Message {
		var out []*bft.Message
		for _, e := range s.Queue {
			if e.Kind == kind && e.To == leader && in(half, e.From) {
				out = append(out, e.Msg)
			}
		}
		return out
	}
	stage := func(votePhase, msgPhase lib.Phase, kind string) {
		type side struct {
			half []int
			qc   *lib.QuorumCertificate
		}
		var sides []side
		for _, half := range [][]int{half1, half2} {
			votes := collect(kind, half)
			blk := blkOf(half)
			for _, bz := range byz {
				e := s.ByzVote(bz, votePhase, view, blk, leader, leader)
				votes = append(votes, e.Msg)
			}
			sides = append(sides, side{half, s.ByzCertForCommittee(votes, view.Root)})
		}
		r.flush()
		r.dropAll()
		for _, sd := range sides {
			if sd.qc == nil {
				continue
			}
			for _, e := range s.ByzLeaderMsg(leader, msgPhase, view, sd.qc, sd.half) {
				r.deliver(e)
			}
			s.Take(func(*bftsim.Envelope) bool { return true })
		}
		r.log("byz %d hands each half a %s message whose certificate is signed by that half and the Byzantine validators only", leader, bftsim.PhaseName(msgPhase))
		r.o.Count("byz:undersized-certificate:" + bftsim.PhaseName(msgPhase))
	}
	stage(lib.Phase_PROPOSE_VOTE, lib.Phase_PRECOMMIT, "PROPOSE_VOTE")
	r.phases(r.inRound(correct, 0)) // PRECOMMIT (no-op)
	r.phases(r.inRound(correct, 0)) // PRECOMMIT_VOTE
	locked := 0
	for _, i := range correct {
		if s.Nodes[i].B.HighQC != nil {
			locked++
		}
	}
	if len(r.inRound(correct, 0)) > 0 {
		stage(lib.Phase_PRECOMMIT_VOTE, lib.Phase_COMMIT, "PRECOMMIT_VOTE")
		r.phases(r.inRound(correct, 0)) // COMMIT (no-op)
		r.phases(r.inRound(correct, 0)) // COMMIT_PROCESS
	}
	r.o.Sample(fmt.Sprintf("%s: total %d, +2/3 threshold %d, certificates of power below it handed to both halves: %d correct replicas locked; commits: %s",
		r.name, s.ValSet.TotalPower, s.ValSet.MinimumMaj23, locked, commitsStr(s)))
	r.end()
}
