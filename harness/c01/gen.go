package c01

import (
	"fmt"
	"math/rand"
	"os"
	"runtime"
	"sync"
	"sync/atomic"

	"github.com/canopy-network/canopy/bft"
	"github.com/canopy-network/canopy/lib"

	"verifharness/bftsim"
	"verifharness/drv"
)

// Run is the entry point of the C01 driver: corpus first, then seeded schedules (computed in parallel, emitted in order).
func Run(o *drv.Out) {
	CorpusRootBump(o)
	CorpusStaleLock(o)
	CorpusUnlock(o)
	CorpusRelock(o)
	CorpusHighQcOneHash(o, "block")
	CorpusHighQcOneHash(o, "results")
	CorpusLockFromOtherPhase(o, "propose")
	CorpusLockFromOtherPhase(o, "election-vote")
	CorpusProposalWithoutJustification(o)
	CorpusUndersizedCertificates(o, []uint64{1, 1, 1, 1, 1}, []int{0}, []int{1, 2}, []int{3, 4})
	CorpusUndersizedCertificates(o, []uint64{1, 1, 1, 1, 1, 1, 1, 1}, []int{0, 1}, []int{2, 3, 4}, []int{5, 6, 7})
	CorpusUndersizedCertificates(o, []uint64{2, 3, 3}, []int{0}, []int{1}, []int{2})
	CorpusLeaderLockDowngraded(o)
	CorpusLeaderCertFromEarlierRoot(o)
	CorpusCommitteeChange(o, "lock-carried-over")
	CorpusCommitteeChange(o, "bitmap-for-other-committee")
	// randomised members of the re-lock family (roles, leaders, gaps); many more when an obligation broke
	nRelock := 6
	if o.Tier == "thorough" {
		nRelock = 40
	}
	if o.Search {
		nRelock = 30
	}
	for k := 0; k < nRelock; k++ {
		p := randomRelock(o.Rng)
		RelockSchedule(o, fmt.Sprintf("relock/%d/byz%d-X%d-Y%d-Z%d/leaders%v/gaps%v", k, p.byz, p.X, p.Y, p.Z, p.lead, p.gaps), p)
	}
	nCases := 150
	if o.Tier == "thorough" {
		nCases = 1500
	}
	if o.Search { // an obligation broke and the corpus found nothing: a bounded hunt (the check runs it once per search seed)
		nCases = 500
	}
	seeds := make([]int64, nCases)
	for k := range seeds {
		seeds[k] = o.Rng.Int63()
	}
	recs := make([]*recorder, nCases)
	workers := runtime.GOMAXPROCS(0)
	if workers > 14 {
		workers = 14
	}
	var wg sync.WaitGroup
	next := int64(-1)
	for w := 0; w < workers; w++ {
		wg.Add(1)
		go func() {
			defer wg.Done()
			for {
				k := int(atomic.AddInt64(&next, 1))
				if k >= nCases {
					return
				}
				rec := &recorder{}
				randomCase(rec, rand.New(rand.NewSource(seeds[k])), o.Tier, o.Search, k)
				recs[k] = rec
			}
		}()
	}
	wg.Wait()
	for _, rec := range recs {
		rec.replay(o)
	}
	o.Extra["bls_signatures"] = atomic.LoadInt64(&totalSign)
	o.Extra["messages_handled"] = atomic.LoadInt64(&totalHandle)
}

var totalSign, totalHandle int64

type chaos struct {
	name                string
	pSkip               float64 // a replica's timer does not fire in this step (it lags one phase)
	pDrop, pDup, pDelay float64
	maxBumps            int     // root-height bumps during the case
	pByz                float64 // the Byzantine replica deviates when it can
	pCandidates         float64 // ELECTION candidate announcements are delivered at all
	partition           bool
}

var levels = []chaos{
	{name: "calm", pSkip: 0.01, pDrop: 0.01, pDup: 0.02, pDelay: 0.02, maxBumps: 0, pByz: 0.6, pCandidates: 0.5},
	{name: "calm", pSkip: 0.01, pDrop: 0.01, pDup: 0.02, pDelay: 0.02, maxBumps: 0, pByz: 0.9, pCandidates: 0.2},
	{name: "bumpy", pSkip: 0.02, pDrop: 0.02, pDup: 0.02, pDelay: 0.03, maxBumps: 3, pByz: 0.8, pCandidates: 0.3},
	{name: "bumpy", pSkip: 0.02, pDrop: 0.02, pDup: 0.02, pDelay: 0.03, maxBumps: 2, pByz: 0.8, pCandidates: 0.3},
	{name: "lossy", pSkip: 0.06, pDrop: 0.10, pDup: 0.05, pDelay: 0.08, maxBumps: 1, pByz: 0.8, pCandidates: 0.3},
	{name: "partition", pSkip: 0.03, pDrop: 0.03, pDup: 0.02, pDelay: 0.03, maxBumps: 1, pByz: 1.0, pCandidates: 0.2, partition: true},
}

// ahead reports whether replica a's (root, round, phase) is strictly ahead of replica b's.
func viewKey(b *bft.BFT) [3]uint64 { return [3]uint64{b.RootHeight, b.Round, uint64(b.Phase)} }
func less3(a, b [3]uint64) bool {
	for i := 0; i < 3; i++ {
		if a[i] != b[i] {
			return a[i] < b[i]
		}
	}
	return false
}

func randomCase(o sink, rng *rand.Rand, tier string, search bool, k int) {
	n := 4
	switch rng.Intn(10) {
	case 0, 1:
		n = 5
	case 2:
		n = 6
	case 3:
		n = 7
	case 4:
		n = 8
	}
	if tier == "thorough" && rng.Intn(8) == 0 {
		n = 8 + rng.Intn(3)
	}
	powers := make([]uint64, n)
	weighted := rng.Intn(3) == 0
	var total uint64
	for i := range powers {
		powers[i] = 1
		if weighted {
			powers[i] = uint64(1 + rng.Intn(5))
		}
		total += powers[i]
	}
	// Byzantine set: greedily add random replicas while 3*power(B) < T
	var byz []int
	var bp uint64
	for _, i := range rng.Perm(n) {
		if 3*(bp+powers[i]) < total && (len(byz) == 0 || rng.Intn(3) == 0) {
			byz = append(byz, i)
			bp += powers[i]
		}
	}
	lvl := levels[rng.Intn(len(levels))]
	if search {
		lvl = levels[2+rng.Intn(len(levels)-2)]
	}
	cfg := bftsim.Config{N: n, Powers: powers, Byz: byz, Root0: uint64(10 + rng.Intn(3)), Salt: rng.Uint64() % 1_000_000, KeySeed: 0}
	if rng.Intn(2) == 0 { // every later root height lists the same committee in another order
		cfg.CommitteeOrder = map[uint64][]int{}
		for h := cfg.Root0 + 1; h < cfg.Root0+6; h++ {
			cfg.CommitteeOrder[h] = rng.Perm(n)
		}
	}
	r := newRun(o, fmt.Sprintf("rand/%d/%s/n%d/byz%v", k, lvl.name, n, byz), cfg)
	defer func() {
		atomic.AddInt64(&totalSign, int64(r.s.NSign))
		atomic.AddInt64(&totalHandle, int64(r.s.NHandle))
	}()
	o.Count("level:" + lvl.name)
	o.Count(fmt.Sprintf("n:%d", n))
	if weighted {
		o.Count("stake:weighted")
	} else {
		o.Count("stake:equal")
	}
	s := r.s
	maxSteps := 60 + rng.Intn(70)
	targetRoot := cfg.Root0
	bumpAt := map[int]bool{}
	if lvl.maxBumps > 0 {
		for j := rng.Intn(lvl.maxBumps + 1); j > 0; j-- {
			bumpAt[2+rng.Intn(45)] = true
		}
	}
	pending := map[int]uint64{}        // replica -> root height it has not been reset to yet
	sameRootClass := rng.Intn(25) == 0 // the F11 schedule class: a reset that does not raise the root height
	if sameRootClass {
		o.Count("class:same-root-reset")
	}
	candDecision := map[[3]uint64]bool{}
	var part []bool // partition: messages across the cut are delayed until it heals
	partUntil := 0
	// minority-lock plan: in round `lockRound` the PRECOMMIT message reaches only the replicas in `minority`; for the next
	// `hideFor` rounds their ELECTION_VOTEs (which carry the lock) are lost — the pattern that makes SafeNode matter
	lockRound, hideFor := uint64(1000), uint64(0)
	minority := map[int]bool{}
	if rng.Intn(5) < 3 {
		lockRound, hideFor = uint64(rng.Intn(3)), uint64(1+rng.Intn(2))
		for _, i := range rng.Perm(n)[:1+rng.Intn(max(1, (n-1)/3))] {
			minority[i] = true
		}
		o.Count("plan:minority-lock")
	}
	// variant: in the following round the PRECOMMIT reaches a single replica outside the minority, so that nobody
	// commits and a later leader that hears of both locks proposes the newer block with a justification
	second := -1
	if len(minority) > 0 && rng.Intn(2) == 0 {
		for _, i := range rng.Perm(n) {
			if !minority[i] {
				second = i
				break
			}
		}
		hideFor = 1
		o.Count("plan:second-lock")
	}
	for step := 0; step < maxSteps; step++ {
		// root-chain update: every replica learns the new root height, each at its own time
		if bumpAt[step] {
			targetRoot++
			for i := 0; i < n; i++ {
				pending[i] = targetRoot
			}
		}
		for i := 0; i < n; i++ {
			if root, ok := pending[i]; ok && rng.Intn(3) == 0 {
				r.reset(i, root)
				delete(pending, i)
			}
		}
		if sameRootClass && rng.Intn(15) == 0 {
			i := rng.Intn(n)
			r.reset(i, s.Nodes[i].B.RootHeight)
		}
		if lvl.partition {
			if part == nil && rng.Intn(10) == 0 {
				part = make([]bool, n)
				for i := range part {
					part[i] = rng.Intn(2) == 0
				}
				partUntil = step + 4 + rng.Intn(12)
				o.Count("net:partition-start")
			} else if part != nil && step >= partUntil {
				part = nil
			}
		}
		// timers
		var front [3]uint64
		for i := 0; i < n; i++ {
			if !committed(s, i) && less3(front, viewKey(s.Nodes[i].B)) {
				front = viewKey(s.Nodes[i].B)
			}
		}
		for _, i := range rng.Perm(n) {
			if committed(s, i) || rng.Float64() < lvl.pSkip {
				continue
			}
			// RoundInterrupt waits for what is left of the round (msLeftInRound): replicas start the next round together
			if b := s.Nodes[i].B; b.Phase == bft.Pacemaker && rng.Intn(10) != 0 {
				wait := false
				for j := 0; j < n; j++ {
					if bj := s.Nodes[j].B; j != i && !committed(s, j) && bj.RootHeight == b.RootHeight && bj.Round <= b.Round && bj.Phase != bft.Pacemaker {
						wait = true
					}
				}
				if wait {
					o.Count("timer:wait-for-round-end")
					continue
				}
			}
			steps := 1
			// a replica that fell behind catches up (its timers are shorter than the front-runners' round)
			// (only a replica that is a whole round behind: within a round the barrier at the round's end re-aligns)
			if me := viewKey(s.Nodes[i].B); me[0] < front[0] || (me[0] == front[0] && me[1] < front[1]) {
				steps += rng.Intn(3)
			}
			for ; steps > 0 && !committed(s, i); steps-- {
				if s.IsByz[i] {
					byzPhase(r, rng, i, lvl)
				} else {
					r.phase(i)
				}
			}
		}
		// network
		q := s.Take(func(e *bftsim.Envelope) bool { return true })
		rng.Shuffle(len(q), func(a, b int) { q[a], q[b] = q[b], q[a] })
		var keep []*bftsim.Envelope
		for _, e := range q {
			if committed(s, e.To) && !s.IsByz[e.To] {
				continue
			}
			if e.Kind == "ELECTION" {
				// a candidate's announcement reaches (nearly) everybody or nobody: split announcements split the vote
				k := [3]uint64{uint64(e.From), e.Msg.Header.RootHeight, e.Msg.Header.Round}
				d, ok := candDecision[k]
				if !ok {
					d = rng.Float64() < lvl.pCandidates
					candDecision[k] = d
				}
				if !d || rng.Float64() < lvl.pDrop {
					o.Count("net:drop-candidate")
					continue
				}
			}
			if e.Kind == "PACEMAKER" && rng.Intn(2) == 0 {
				o.Count("net:drop-pacemaker")
				continue
			}
			if hr := envRound(e); e.Kind == "PRECOMMIT" && second >= 0 && hr == lockRound+1 && e.To != second {
				o.Count("net:plan-withhold-precommit")
				continue
			} else if e.Kind == "PRECOMMIT" && hr == lockRound && !minority[e.To] {
				o.Count("net:plan-withhold-precommit")
				continue
			} else if e.Kind == "ELECTION_VOTE" && minority[e.From] && hr > lockRound && hr <= lockRound+hideFor {
				o.Count("net:plan-hide-lock")
				continue
			}
			if part != nil && part[e.From] != part[e.To] {
				keep = append(keep, e)
				o.Count("net:partition-delay")
				continue
			}
			x := rng.Float64()
			switch {
			case x < lvl.pDrop:
				o.Count("net:drop")
			case x < lvl.pDrop+lvl.pDelay:
				keep = append(keep, e)
				o.Count("net:delay")
			case x < lvl.pDrop+lvl.pDelay+lvl.pDup:
				r.deliver(e)
				keep = append(keep, e)
				o.Count("net:duplicate")
			default:
				r.deliver(e)
			}
		}
		s.Queue = append(keep, s.Queue...)
		if len(s.Queue) > 300 {
			s.Queue = s.Queue[len(s.Queue)-300:]
		}
		if r.failed {
			break
		}
		// stop when every honest replica committed
		done := true
		for i := 0; i < n; i++ {
			if !s.IsByz[i] && !committed(s, i) {
				done = false
			}
		}
		if done {
			o.Count("case:all-honest-committed")
			break
		}
		// replicas that committed leave consensus (the others would catch up by block sync, which is not consensus):
		// when the replicas still running cannot form a quorum any more nothing further can be signed at this height
		var livePower uint64
		for i := 0; i < n; i++ {
			if s.IsByz[i] || !committed(s, i) {
				livePower += powers[i]
			}
		}
		if livePower < s.ValSet.MinimumMaj23 {
			o.Count("case:stopped-no-quorum-left")
			break
		}
	}
	nCommitted, nHonest := 0, 0
	for i := 0; i < n; i++ {
		if !s.IsByz[i] {
			nHonest++
			if committed(s, i) {
				nCommitted++
			}
		}
	}
	switch {
	case nCommitted == 0:
		o.Count("case:honest-commits:none")
		if os.Getenv("C01_DEBUG") != "" {
			fmt.Fprintf(os.Stderr, "NONE %s steps=%d votes=%d views:", r.name, maxSteps, len(s.Votes))
			for i := 0; i < n; i++ {
				fmt.Fprintf(os.Stderr, " %d:%s", i, s.State(i))
			}
			fmt.Fprintln(os.Stderr)
			if os.Getenv("C01_DEBUG") == fmt.Sprint(k) {
				for _, l := range r.sched {
					fmt.Fprintln(os.Stderr, "   ", l)
				}
			}
		}
	case nCommitted == nHonest:
		o.Count("case:honest-commits:all")
	default:
		o.Count("case:honest-commits:some")
	}
	if k < 6 {
		o.Sample(fmt.Sprintf("%s: %d votes, %d commits (%s), branches %v, adopts %d, refusals %d", r.name, len(s.Votes), len(s.Commits), commitsStr(s), r.branches, r.nAdopt, r.nRefuse))
	}
	r.end()
}

// envRound is the round a message belongs to (header of a leader message, certificate header of a vote).
func envRound(e *bftsim.Envelope) uint64 {
	if e.Msg.Header != nil {
		return e.Msg.Header.Round
	}
	if e.Msg.Qc != nil && e.Msg.Qc.Header != nil {
		return e.Msg.Qc.Header.Round
	}
	return 0
}

func committed(s *bftsim.Sim, i int) bool {
	for _, c := range s.Commits {
		if c.Rep == i && c.Accepted {
			return true
		}
	}
	return false
}

// byzPhase runs one phase of a Byzantine replica: the real handler, with a deviation when one applies.
func byzPhase(r *run, rng *rand.Rand, i int, lvl chaos) {
	s := r.s
	b := s.Nodes[i].B
	deviate := rng.Float64() < lvl.pByz
	if deviate && rng.Intn(6) == 0 {
		// an ELECTION_VOTE carrying some real PROPOSE_VOTE certificate as HighQc, to a replica that is not collecting votes
		var cands []*lib.QuorumCertificate
		for _, c := range s.Certs {
			if c.Header.Phase == lib.Phase_PROPOSE_VOTE {
				cands = append(cands, c)
			}
		}
		if len(cands) > 0 {
			to := rng.Intn(len(s.Nodes))
			tb := s.Nodes[to].B
			hq := s.CertWithProposal(cands[rng.Intn(len(cands))])
			if rng.Intn(3) == 0 { // a certificate of another phase dressed up as a lock, naming the recipient as candidate
				var other []*lib.QuorumCertificate
				for _, c := range s.Certs {
					if c.Header.Phase != lib.Phase_PROPOSE_VOTE {
						other = append(other, c)
					}
				}
				if len(other) > 0 {
					blk, res := s.NewBlock(fmt.Sprintf("byz-forged-%d", i))
					hq = s.ByzForgedLockFromOtherPhase(i, other[rng.Intn(len(other))], blk, res)
					s.ByzElectionVote(i, bftsim.VR{Root: tb.RootHeight, Round: tb.Round}, to, hq, to)
					r.log("byz %d sends %d an ELECTION_VOTE with a forged lock from phase %s", i, to, lib.Phase_name[int32(hq.Header.Phase)])
					r.o.Count("byz:election-vote-with-forged-lock")
					r.flush()
					hq = nil
				}
			}
			if hq != nil {
				named := to // the recipient processes the payload when it collects election votes as the named candidate
				if rng.Intn(4) == 0 {
					named = i
				}
				s.ByzElectionVote(i, bftsim.VR{Root: tb.RootHeight, Round: tb.Round}, named, hq, to)
				r.log("byz %d sends an ELECTION_VOTE naming %d with an older genuine certificate as HighQc to %d", i, named, to)
				r.o.Count("byz:election-vote-with-highqc")
				r.flush()
			}
		}
	}
	switch b.Phase {
	case bft.Propose:
		if _, _, err := b.GetMajorityVote(); err == nil && deviate {
			switch rng.Intn(4) {
			case 0: // equivocate: two different fresh blocks to two halves
				e1 := s.ByzProposeWith(i, nil)
				e2 := s.ByzProposeWith(i, nil)
				split := rng.Intn(len(s.Nodes) + 1)
				s.Take(func(e *bftsim.Envelope) bool {
					for _, x := range e1 {
						if x == e && e.To >= split {
							return true
						}
					}
					for _, x := range e2 {
						if x == e && e.To < split {
							return true
						}
					}
					return false
				})
				b.Phase = bft.ProposeVote
				r.log("byz %d equivocates: two proposals, split at %d", i, split)
				r.o.Count("byz:propose:equivocate")
				r.flush()
				return
			case 1, 2: // re-propose an old certificate (any PROPOSE_VOTE certificate that ever travelled)
				var cands []*lib.QuorumCertificate
				for _, c := range s.Certs {
					if c.Header.Phase == lib.Phase_PROPOSE_VOTE {
						cands = append(cands, c)
					}
				}
				if len(cands) > 0 {
					envs := r.byzPropose(i, cands[rng.Intn(len(cands))], "old-certificate")
					if rng.Intn(2) == 0 { // ... with a proposal that differs from the certificate in one of (block, results)
						variant := []string{"block", "results"}[rng.Intn(2)]
						s.ByzMismatchProposal(i, envs, variant)
						r.o.Count("byz:propose:certificate-with-different-" + variant)
						r.flush()
					}
					return
				}
			case 3: // ignore the locks reported by the replicas: fresh block
				if ec := s.ElectionCertOfCurrentRound(i); ec != nil && rng.Intn(2) == 0 {
					// ... justified by a certificate of another phase with the fresh block stapled on
					src := ec
					if rng.Intn(3) == 0 && len(s.Certs) > 0 {
						src = s.Certs[rng.Intn(len(s.Certs))]
					}
					blk, res := s.NewBlock(fmt.Sprintf("byz-forged-%d", i))
					r.byzPropose(i, s.ByzForgedLockFromOtherPhase(i, src, blk, res), "forged-lock-from-phase-"+lib.Phase_name[int32(src.Header.Phase)])
					return
				}
				r.byzPropose(i, nil, "fresh-ignoring-locks")
				return
			}
		}
		r.phase(i)
	case bft.ProposeVote:
		if deviate {
			s.ByzForgetLock(i) // votes for whatever is proposed
		}
		r.phase(i)
	case bft.Precommit, bft.Commit:
		before := len(s.Queue)
		kind := "PRECOMMIT"
		if b.Phase == bft.Commit {
			kind = "COMMIT"
		}
		r.phase(i)
		if !deviate || len(s.Queue) == before {
			return
		}
		mine := func(e *bftsim.Envelope) bool { return e.From == i && e.Kind == kind }
		switch rng.Intn(3) {
		case 0: // withhold from a random subset
			keepFor := rng.Intn(len(s.Nodes))
			s.Take(func(e *bftsim.Envelope) bool { return mine(e) && e.To != keepFor && rng.Intn(2) == 0 })
			r.log("byz %d withholds its %s message from some replicas", i, kind)
			r.o.Count("byz:withhold:" + kind)
		case 2: // hand-assemble the certificate from the smallest signer set of power >= 2*(T/3)+1 (below +2/3 when T = 2 mod 3)
			var envs []*bftsim.Envelope
			for _, e := range s.Queue {
				if mine(e) {
					envs = append(envs, e)
				}
			}
			if len(envs) > 0 && envs[0].Msg.Qc != nil {
				cur := envs[0].Msg.Qc
				var votes []*bft.Message
				var pw uint64
				target := 2*(s.ValSet.TotalPower/3) + 1
				seen := map[int]bool{}
				for _, v := range r.byzVotes[i] {
					h := v.Qc.Header
					from := s.IdxOf(v.Signature.PublicKey)
					if pw >= target || seen[from] || h.RootHeight != cur.Header.RootHeight || h.Round != cur.Header.Round || h.Phase != cur.Header.Phase ||
						string(v.Qc.BlockHash) != string(cur.BlockHash) || string(v.Qc.ResultsHash) != string(cur.ResultsHash) {
						continue
					}
					seen[from] = true
					votes = append(votes, v)
					pw += s.Cfg.Powers[from]
				}
				if qc := s.ByzCertForCommittee(votes, cur.Header.RootHeight); qc != nil && pw >= target {
					s.ByzSwapQC(i, envs, qc)
					r.log("byz %d replaces the certificate of its %s message by one assembled from signers of power %d (threshold %d)", i, kind, pw, s.ValSet.MinimumMaj23)
					if pw < s.ValSet.MinimumMaj23 {
						r.o.Count("byz:minimal-certificate-below-two-thirds:" + kind)
					} else {
						r.o.Count("byz:minimal-certificate:" + kind)
					}
				}
			}
		case 1: // swap the certificate for another real one for the same block (older round / other phase)
			var envs []*bftsim.Envelope
			for _, e := range s.Queue {
				if mine(e) {
					envs = append(envs, e)
				}
			}
			if len(envs) > 0 && envs[0].Msg.Qc != nil {
				blk := s.BlockID(envs[0].Msg.Qc.BlockHash, envs[0].Msg.Qc.ResultsHash)
				cur := envs[0].Msg.Qc.Header
				var cands []*lib.QuorumCertificate
				for _, c := range s.Certs {
					if s.BlockID(c.BlockHash, c.ResultsHash) == blk && (c.Header.Round != cur.Round || c.Header.Phase != cur.Phase || c.Header.RootHeight != cur.RootHeight) {
						cands = append(cands, c)
					}
				}
				if len(cands) > 0 {
					pick := cands[rng.Intn(len(cands))]
					// prefer a certificate of the same round number and phase from an earlier root height, when one travelled
					for _, c := range cands {
						if c.Header.Round == cur.Round && c.Header.Phase == cur.Phase && c.Header.RootHeight < cur.RootHeight && rng.Intn(2) == 0 {
							pick = c
							r.o.Count("byz:leader-certificate-same-round-earlier-root:" + kind)
						}
					}
					s.ByzSwapQC(i, envs, pick)
					r.log("byz %d swaps the certificate of its %s message for a stale one", i, kind)
					r.o.Count("byz:stale-certificate:" + kind)
				}
			}
		}
	default:
		r.phase(i)
	}
}
