// Package c01 drives real bft.BFT replicas (harness/bftsim) through seeded schedules and emits, per
// scheduled step, the op lines the Lean driver (lean/Driver/C01.lean) replays on the model.
//
// Event level (M-bft-abs): every PROPOSE_VOTE / PRECOMMIT_VOTE any key holder signs, every lock a replica
// adopts from an ELECTION_VOTE's HighQc, every commit. The model answers `ok` when the entry satisfies the
// guards of the proved model (or is Byzantine), `guard-violated:<which>` otherwise; the implementation side
// of the line is `ok` because the real code did produce the entry (except for the view-order assumption, which
// is evaluated on the implementation's own record: see voteAssumption).
//
// Step level (M-bft-exec, honest replicas, replica side): `ph r <phase> <input>` per phase-handler call (the input is
// what the real replica's proposal table / leader role hands the handler), `dl` per PROPOSE/PRECOMMIT/COMMIT message,
// `ev` per HighQc-carrying ELECTION_VOTE, `reset` per NEW_COMMITTEE reset; the result is what the real code did and
// the replica's canonical state (view, phase, lock header + block, block of the round).
//
// The oracles are independent of the model: two honest commits with different (blockHash, resultsHash); an
// honest replica signing two different payloads in one (view, phase); an honest replica voting in a lower view
// than before (the latter two are tolerated, and counted, only after a reset that did not raise the root height).
package c01

import (
	"bytes"
	"fmt"
	"sort"
	"strings"

	"github.com/canopy-network/canopy/bft"
	"github.com/canopy-network/canopy/lib"

	"verifharness/bftsim"
	"verifharness/drv"
)

// sink is the part of drv.Out a case writes to; cases computed in parallel write to a recorder that is replayed in order.
type sink interface {
	Case(id string)
	Op(op, result string)
	Count(kind string)
	Nontrivial(desc string)
	Sample(s string)
	Fail(sig, desc string, replay any)
}

type recorder struct {
	calls []func(o *drv.Out)
}

func (r *recorder) Case(id string)    { r.calls = append(r.calls, func(o *drv.Out) { o.Case(id) }) }
func (r *recorder) Op(op, res string) { r.calls = append(r.calls, func(o *drv.Out) { o.Op(op, res) }) }
func (r *recorder) Count(kind string) { r.calls = append(r.calls, func(o *drv.Out) { o.Count(kind) }) }
func (r *recorder) Nontrivial(desc string) {
	r.calls = append(r.calls, func(o *drv.Out) { o.Nontrivial(desc) })
}
func (r *recorder) Sample(s string) { r.calls = append(r.calls, func(o *drv.Out) { o.Sample(s) }) }
func (r *recorder) Fail(sig, desc string, replay any) {
	r.calls = append(r.calls, func(o *drv.Out) { o.Fail(sig, desc, replay) })
}
func (r *recorder) replay(o *drv.Out) {
	for _, c := range r.calls {
		c(o)
	}
}

type run struct {
	o               sink
	s               *bftsim.Sim
	sched           []string // the schedule so far (replay)
	nv, nc          int      // votes / commits already emitted
	name            string
	resetSameRoot   bool
	branches        map[string]int
	nAdopt, nRefuse int
	failed          bool
	cast            map[int][]castVote
	byzVotes        map[int][]*bft.Message // replica votes that reached a Byzantine replica (it may assemble its own certificates)
	lockSig         string                 // signature of the forwarded-lock oracle ("" = off): see checkForwardedLock
	sigSuffix       string                 // appended to the two-commits signature by schedule families that name their mechanism
}

func newRun(o sink, name string, cfg bftsim.Config) *run {
	r := &run{o: o, s: bftsim.New(cfg), name: name, branches: map[string]int{}}
	o.Case(name)
	pw := make([]string, cfg.N)
	for i, p := range cfg.Powers {
		pw[i] = fmt.Sprint(p)
	}
	byz := "-"
	if len(cfg.Byz) > 0 {
		var bs []string
		for _, b := range cfg.Byz {
			bs = append(bs, fmt.Sprint(b))
		}
		byz = strings.Join(bs, ",")
	}
	line := fmt.Sprintf("cfg %d %s %s %d", cfg.N, byz, strings.Join(pw, ","), cfg.Root0)
	if cfg.LastRootHeightUpdated != 0 {
		line += fmt.Sprintf(" %d", cfg.LastRootHeightUpdated)
	}
	r.sched = append(r.sched, fmt.Sprintf("%s salt=%d keyseed=%d", line, cfg.Salt, cfg.KeySeed))
	o.Op(line, fmt.Sprintf("ok total=%d maj=%d", r.s.ValSet.TotalPower, r.s.ValSet.MinimumMaj23))
	return r
}

func (r *run) log(f string, a ...any) { r.sched = append(r.sched, fmt.Sprintf(f, a...)) }

func justStr(v *bftsim.VR) string {
	if v == nil {
		return "-"
	}
	return v.String()
}

// flush emits the entries recorded since the last call, in the order they happened.
func (r *run) flush() {
	s := r.s
	type item struct {
		seq  int
		line string
		kind string
	}
	var items []item
	for ; r.nv < len(s.Votes); r.nv++ {
		v := s.Votes[r.nv]
		switch v.Phase {
		case bft.ProposeVote:
			items = append(items, item{v.Seq, fmt.Sprintf("vote propose %d %s %s %s", v.Rep, v.View, s.BlkName(v.Blk), justStr(v.Just)), "vote"})
			if !v.Byz {
				r.branches[v.Branch]++
				r.o.Count("propose-vote:" + v.Branch)
			} else {
				r.o.Count("propose-vote:byzantine")
			}
		case bft.PrecommitVote:
			q, ph := v.View, lib.Phase_PROPOSE_VOTE
			if v.Just != nil {
				q, ph = *v.Just, v.JustPh
			}
			items = append(items, item{v.Seq, fmt.Sprintf("vote precommit %d %s %s %s %d", v.Rep, v.View, s.BlkName(v.Blk), q, int(ph)), "vote"})
			if !v.Byz {
				r.o.Count("precommit-vote:honest")
			} else {
				r.o.Count("precommit-vote:byzantine")
			}
		}
	}
	for ; r.nc < len(s.Commits); r.nc++ {
		c := s.Commits[r.nc]
		if !c.Accepted {
			who := "honest"
			if s.IsByz[c.Rep] {
				who = "byzantine"
			}
			r.o.Count("commit-gate-rejected:" + c.Reason + ":" + who)
			continue
		}
		if s.IsByz[c.Rep] {
			r.o.Count("commit:byzantine")
			continue
		}
		items = append(items, item{c.Seq, fmt.Sprintf("commit %d %s %s", c.Rep, c.View, s.BlkName(c.Blk)), "commit"})
		r.o.Count("commit:honest")
	}
	sort.Slice(items, func(i, j int) bool { return items[i].seq < items[j].seq })
	for _, it := range items {
		r.o.Op(it.line, r.voteAssumption(it.line))
	}
	r.oracle()
}

// voteAssumption evaluates, on the implementation's own record, the assumption the model makes about honest replicas
// (votes are cast in non-decreasing views, once per view and phase). It can only fail after a reset that did not raise the
// root height (F11, counted as its own schedule class); anywhere else it is a failure of the implementation.
func (r *run) voteAssumption(line string) string {
	var kind, view string
	var rep int
	var rest string
	if n, _ := fmt.Sscanf(line, "vote %s %d %s %s", &kind, &rep, &view, &rest); n < 3 || r.s.IsByz[rep] {
		return "ok"
	}
	var root, round uint64
	fmt.Sscanf(view, "%d.%d", &root, &round)
	res := "ok"
	for _, p := range r.cast[rep] {
		if p.root > root || (p.root == root && p.round > round) {
			res = "guard-violated:view-regress"
			break
		}
	}
	if res == "ok" {
		for _, p := range r.cast[rep] {
			if p.kind == kind && p.root == root && p.round == round {
				res = "guard-violated:double-vote"
			}
		}
	}
	if r.cast == nil {
		r.cast = map[int][]castVote{}
	}
	r.cast[rep] = append(r.cast[rep], castVote{kind, root, round})
	if res != "ok" {
		r.o.Count("assumption:" + res)
		if r.s.SameRootResets == 0 && !r.failed {
			r.failed = true
			r.o.Fail("C01:honest-vote-order", fmt.Sprintf("case %s: honest replica %d: %s at %s without any same-root reset", r.name, rep, res, view),
				map[string]any{"schedule": r.sched})
		}
	}
	return res
}

type castVote struct {
	kind        string
	root, round uint64
}

// oracle: the property itself, evaluated on what the real replicas did.
func (r *run) oracle() {
	if r.failed {
		return
	}
	s := r.s
	first := -1
	for _, c := range s.Commits {
		if !c.Accepted || s.IsByz[c.Rep] {
			continue
		}
		if first < 0 {
			first = c.Blk
		} else if c.Blk != first {
			r.failed = true
			sig := "C01:two-commits-one-height"
			if r.sigSuffix != "" {
				sig += ":" + r.sigSuffix
			}
			r.o.Fail(sig, fmt.Sprintf("case %s: honest replicas committed two different (blockHash, resultsHash) at height %d: %s", r.name, bftsim.Height, commitsStr(s)),
				map[string]any{"schedule": r.sched, "commits": commitsStr(s)})
			return
		}
	}
	seen := map[string]string{}
	for _, v := range s.Votes {
		if v.Byz {
			continue
		}
		k := fmt.Sprintf("%d/%s/%d", v.Rep, v.View, v.Phase)
		if p, ok := seen[k]; ok && p != v.Payload {
			if s.SameRootResets > 0 {
				r.o.Count("honest-double-vote-after-same-root-reset")
				continue
			}
			r.failed = true
			r.o.Fail("C01:honest-double-vote", fmt.Sprintf("case %s: honest replica %d signed two different %s payloads in view %s", r.name, v.Rep, bftsim.PhaseName(v.Phase), v.View),
				map[string]any{"schedule": r.sched})
			return
		}
		seen[k] = v.Payload
	}
}

func commitsStr(s *bftsim.Sim) string {
	var out []string
	for _, c := range s.Commits {
		if c.Accepted {
			out = append(out, fmt.Sprintf("r%d:b%s@%s", c.Rep, s.BlkName(c.Blk), c.View))
		}
	}
	return strings.Join(out, " ")
}

// ---- scheduled actions (each is logged for replay and followed by a flush)

func (r *run) phase(i int) bftsim.StepResult {
	s := r.s
	b := s.Nodes[i].B
	honest := !s.IsByz[i]
	before := b.Phase
	// the handler's input as the real replica sees it (read before the handler runs)
	in := ""
	if honest {
		switch before {
		case bft.ProposeVote:
			in = "-"
			if p := b.GetProposal(); p != nil && p.Qc != nil && p.Signature != nil {
				in = fmt.Sprintf("%d %s %s", s.IdxOf(p.Signature.PublicKey), s.BlkName(s.BlockID(p.Qc.BlockHash, p.Qc.ResultsHash)), s.CertDesc(p.HighQc))
			}
		case bft.PrecommitVote, bft.CommitProcess:
			in = "-"
			if p := b.GetProposal(); p != nil && p.Qc != nil && p.Signature != nil {
				in = fmt.Sprintf("%d %s", s.IdxOf(p.Signature.PublicKey), s.CertDesc(p.Qc))
			}
		}
	}
	mark, lockBefore := s.EnvMark(), lockOf(s, i)
	res := s.Phase(i)
	if honest && before == bft.ElectionVote && r.lockSig != "" {
		r.checkForwardedLock(i, mark, lockBefore)
	}
	r.log("phase %d %s->%s sent=%v why=%s", i, bftsim.PhaseName(res.Before), bftsim.PhaseName(res.After), res.Sent, res.Why)
	r.o.Count("phase:" + bftsim.PhaseName(res.Before))
	if res.Interrupted {
		r.o.Count("interrupt:" + bftsim.PhaseName(res.Before) + ":" + res.Why)
		if res.Why == "safenode" || res.Why == "nojustification" || res.Why == "mismatch" {
			r.nRefuse++
		}
	}
	if honest {
		out := ""
		switch before {
		case bft.Propose:
			in = s.RoundBlock(i) // leader side is input: the block the replica holds after PROPOSE
		case bft.ProposeVote:
			if res.Interrupted {
				out = "interrupt:" + res.Why
			} else {
				out = "vote:" + res.Branch
			}
		case bft.Precommit, bft.Commit:
			in = "ok" // leader side is input: a leader without a +2/3 vote set interrupts
			if res.Interrupted {
				in, out = "fail", "interrupt:nomaj"
			}
		case bft.PrecommitVote:
			if res.Interrupted {
				out = "interrupt:" + res.Why
			} else {
				out = "vote"
			}
		case bft.CommitProcess:
			switch {
			case res.Interrupted:
				out = "interrupt:" + res.Why
			case res.Committed:
				c := s.Commits[len(s.Commits)-1]
				out = "commit:accepted"
				if !c.Accepted {
					out = "commit:rejected:" + c.Reason
				}
			}
		case bft.Pacemaker:
			in = fmt.Sprint(b.Round) // pacemaker side is input: the round the replica moved to
		}
		op := fmt.Sprintf("ph %d %d", i, int(before))
		if in != "" {
			op += " " + in
		}
		st := s.State(i)
		if out != "" {
			st = out + " " + st
		}
		r.o.Op(op, st)
	}
	r.flush()
	return res
}

// checkForwardedLock: the ELECTION_VOTE of a locked honest replica carries its lock — the certificate it locked on,
// with the block and the results that certificate certifies (a leader drops a vote whose HighQc lacks either).
func (r *run) checkForwardedLock(i, mark int, lockBefore string) {
	s := r.s
	if lockBefore == "-" || r.failed {
		return
	}
	for _, e := range s.Queue {
		if e.ID <= mark || e.From != i || e.Kind != "ELECTION_VOTE" {
			continue
		}
		why, hq := "", e.Msg.HighQc
		switch {
		case hq == nil || hq.Header == nil:
			why = "no HighQc at all"
		case fmt.Sprintf("%d.%d/%x/%x", hq.Header.RootHeight, hq.Header.Round, hq.BlockHash, hq.ResultsHash) != lockBefore:
			why = "a HighQc that is not its lock"
		case hq.Block == nil:
			why = "its lock without the block"
		case hq.Results == nil:
			why = "its lock without the results"
		case !bytes.Equal(s.Nodes[i].B.BlockToHash(hq.Block), hq.BlockHash) || !bytes.Equal(hq.Results.Hash(), hq.ResultsHash):
			why = "its lock with another block or other results than certified"
		}
		if why != "" {
			r.failed = true
			r.o.Fail(r.lockSig, fmt.Sprintf("case %s: honest replica %d, locked on %s, sends an ELECTION_VOTE (round %d) carrying %s", r.name, i, s.CertDesc(s.Nodes[i].B.HighQC), e.Msg.Qc.Header.Round, why),
				map[string]any{"schedule": r.sched})
			return
		}
	}
}

func (r *run) phases(who []int) {
	for _, i := range who {
		r.phase(i)
	}
}

func lockOf(s *bftsim.Sim, i int) string {
	b := s.Nodes[i].B
	if b.HighQC == nil || b.HighQC.Header == nil {
		return "-"
	}
	return fmt.Sprintf("%d.%d/%x/%x", b.HighQC.Header.RootHeight, b.HighQC.Header.Round, b.HighQC.BlockHash, b.HighQC.ResultsHash)
}

// errName maps the errors the model knows to their constructor names (module and code identify them).
var errNames = func() map[string]string {
	m := map[string]string{}
	for name, e := range map[string]lib.ErrorI{
		"ErrWrongRootHeight": lib.ErrWrongRootHeight(), "ErrWrongCertHeight": lib.ErrWrongCertHeight(0, 0),
		"ErrInvalidQCCommitteeHeight": lib.ErrInvalidQCCommitteeHeight(), "ErrWrongPhase": lib.ErrWrongPhase(),
		"ErrNoSavedBlockOrResults": lib.ErrNoSavedBlockOrResults(), "ErrMismatchConsBlockHash": lib.ErrMismatchConsBlockHash(),
		"ErrMismatchResultsHash": lib.ErrMismatchResultsHash(), "ErrNoMaj23": lib.ErrNoMaj23(),
		"ErrWrongHighQCRootHeight": lib.ErrWrongHighQCRootHeight(), "ErrWrongHighQCHeight": lib.ErrWrongHighQCHeight(),
		"ErrInvalidAggrSignature": lib.ErrInvalidAggrSignature(), "ErrNilBlock": lib.ErrNilBlock(), "ErrNilCertResults": lib.ErrNilCertResults(),
		"ErrInvalidSigner": lib.ErrInvalidSigner(), "ErrInvalidProposerPubKey": lib.ErrInvalidProposerPubKey(nil),
	} {
		m[fmt.Sprintf("%s/%d", e.Module(), e.Code())] = name
	}
	return m
}()

func bit(b bool) string {
	if b {
		return "1"
	}
	return "0"
}

func errName(e lib.ErrorI) string {
	k := fmt.Sprintf("%s/%d", e.Module(), e.Code())
	if n, ok := errNames[k]; ok {
		return n
	}
	return "?" + k
}

func (r *run) deliver(e *bftsim.Envelope) string {
	s := r.s
	before := lockOf(s, e.To)
	honest := !s.IsByz[e.To]
	m, err := s.DeliverMsg(e)
	if !honest && (e.Kind == "PROPOSE_VOTE" || e.Kind == "PRECOMMIT_VOTE") {
		if r.byzVotes == nil {
			r.byzVotes = map[int][]*bft.Message{}
		}
		r.byzVotes[e.To] = append(r.byzVotes[e.To], e.Msg)
	}
	code := ""
	if err != nil {
		code = fmt.Sprint(err.Code())
	}
	r.log("deliver #%d %s %d->%d => %q", e.ID, e.Kind, e.From, e.To, code)
	if code == "" {
		r.o.Count("deliver:" + e.Kind + ":ok")
	} else {
		r.o.Count("deliver:" + e.Kind + ":" + errName(err))
	}
	adopted := false
	if after := lockOf(s, e.To); after != before && after != "-" {
		adopted = true
	}
	if honest {
		switch e.Kind {
		case "PROPOSE", "PRECOMMIT", "COMMIT":
			// the model covers CheckProposerMessage for structurally well-formed messages (QuorumCertificate.CheckBasic):
			// e.g. an honest leader whose lock was replaced by a block-less certificate proposes a nil block
			if m.Qc.CheckBasic() != nil || (m.HighQc != nil && m.HighQc.CheckBasic() != nil) {
				r.o.Count("dl:skipped-malformed-certificate")
				break
			}
			res := "ok"
			switch {
			case err != nil:
				res = "err:" + errName(err)
			case !s.Stored(e.To, m):
				res = "partial"
			}
			qcp := "-"
			if i := s.IdxOf(m.Qc.ProposerKey); i >= 0 {
				qcp = fmt.Sprint(i)
			}
			r.o.Op(fmt.Sprintf("dl %d %d %d.%d %d %s %s %s %s %s", e.To, e.From, m.Header.RootHeight, m.Header.Round, int(m.Header.Phase),
				s.CertDesc(m.Qc), s.CertDesc(m.HighQc), qcp, bit(m.Qc.Block != nil), bit(m.Qc.Results != nil)), res)
		case "ELECTION_VOTE":
			if m.HighQc != nil && m.HighQc.Header != nil {
				res := "keep"
				switch {
				case adopted:
					res = "adopt"
				case err != nil && errNames[fmt.Sprintf("%s/%d", err.Module(), err.Code())] != "":
					res = "err:" + errName(err)
				}
				named := "-"
				if i := s.IdxOf(m.Qc.ProposerKey); i >= 0 {
					named = fmt.Sprint(i)
				}
				r.o.Op(fmt.Sprintf("ev %d %d.%d %s %s %s %s", e.To, m.Qc.Header.RootHeight, m.Qc.Header.Round, named, s.CertDesc(m.HighQc),
					bit(m.HighQc.Block != nil), bit(m.HighQc.Results != nil)), res+" "+s.State(e.To))
			}
		}
	}
	if adopted {
		b := s.Nodes[e.To].B
		r.nAdopt++
		if honest {
			r.o.Count("adopt:honest")
			r.o.Op(fmt.Sprintf("adopt %d %d.%d %s", e.To, b.HighQC.Header.RootHeight, b.HighQC.Header.Round,
				s.BlkName(s.BlockID(b.HighQC.BlockHash, b.HighQC.ResultsHash))), "ok")
		}
	}
	r.flush()
	return code
}

func (r *run) deliverAll(f func(e *bftsim.Envelope) bool) {
	for _, e := range r.s.Take(func(e *bftsim.Envelope) bool { return f == nil || f(e) }) {
		r.deliver(e)
	}
}

func (r *run) dropAll() {
	n := len(r.s.Queue)
	r.s.DropAll()
	r.log("drop-all %d", n)
	r.o.Count("drop-all")
}

func (r *run) reset(i int, root uint64) {
	if root == r.s.Nodes[i].B.RootHeight {
		r.o.Count("reset:same-root")
	} else {
		r.o.Count("reset:root-bump")
	}
	r.s.Reset(i, root)
	r.log("reset %d root=%d", i, root)
	if !r.s.IsByz[i] {
		r.o.Op(fmt.Sprintf("reset %d %d", i, root), r.s.State(i))
	}
	r.flush()
}

func (r *run) end() {
	r.flush()
	agree := "agree"
	first := -1
	for _, c := range r.s.Commits {
		if !c.Accepted || r.s.IsByz[c.Rep] {
			continue
		}
		if first < 0 {
			first = c.Blk
		} else if c.Blk != first {
			agree = "disagree"
		}
	}
	if agree == "agree" {
		r.o.Op("agree?", "agree")
	} else {
		// the model prints the conflicting blocks; the line differs only if it sees a different set
		var bs []string
		seen := map[int]bool{}
		for _, c := range r.s.Commits {
			if c.Accepted && !seen[c.Blk] {
				seen[c.Blk] = true
				bs = append(bs, r.s.BlkName(c.Blk))
			}
		}
		r.o.Op("agree?", "disagree:"+strings.Join(bs, ","))
	}
	// non-trivial: SafeNode was evaluated by a locked honest replica, or a lock was adopted
	if r.branches["same"]+r.branches["unlock"]+r.nRefuse+r.nAdopt > 0 {
		var sb strings.Builder
		for _, v := range r.s.Votes {
			fmt.Fprintf(&sb, "%d/%d/%s/%d/%s;", v.Rep, v.Phase, v.View, v.Blk, justStr(v.Just))
		}
		r.o.Nontrivial(sb.String())
	}
}

func all(s *bftsim.Sim) []int {
	var o []int
	for i := range s.Nodes {
		o = append(o, i)
	}
	return o
}

func except(s *bftsim.Sim, skip ...int) []int {
	var o []int
	for i := range s.Nodes {
		ok := true
		for _, k := range skip {
			ok = ok && k != i
		}
		if ok {
			o = append(o, i)
		}
	}
	return o
}

func samePub(a, b []byte) bool { return bytes.Equal(a, b) }
