package c08

import (
	"crypto/sha256"
	"encoding/binary"
	"math/rand"
	"sort"

	"github.com/canopy-network/canopy/lib"
)

// UKey is one user key together with where it lands in the tree.
type UKey struct {
	User []byte // length-prefixed user key (valid for the state store too)
	Bits string // first n bits of SHA-256(User)
}

// Universe is a pool of user keys whose *hash images* were chosen: for small key lengths every n-bit
// string has (at most) one preimage in the pool, so prefix collisions are as dense as possible and two pool
// keys never collide on the same leaf; for n=160 the pool holds clusters of keys sharing 16 leading hash
// bits, keys whose hashes start with the 16 leading bits of the 14 synthetic border keys / the sentinels /
// the root key, and uniformly random keys.
type Universe struct {
	N      int
	Keys   []UKey
	ByBits map[string]int
	Border map[string]bool // bit strings equal to one of the 14 synthetic borders
	Min    string
	Max    string
	Root   string
	// indices of special keys (may be empty when no preimage exists in the pool)
	Special []int
}

func userKey(i uint32) []byte {
	var b [4]byte
	binary.BigEndian.PutUint32(b[:], i)
	return lib.JoinLenPrefix([]byte{0xC8}, b[:])
}

func rep(c byte, n int) string {
	b := make([]byte, n)
	for i := range b {
		b[i] = c
	}
	return string(b)
}

func bits3(i int) string {
	return string([]byte{'0' + byte(i>>2&1), '0' + byte(i>>1&1), '0' + byte(i&1)})
}

// BorderBits lists the 14 synthetic border keys for key length n (n >= 3), as generatePrefixRange defines them.
func BorderBits(n int) []string {
	var out []string
	for i := 0; i < 8; i++ {
		if i != 0 {
			out = append(out, (bits3(i) + rep('0', n))[:n])
		}
		if i != 7 {
			out = append(out, (bits3(i) + rep('1', n))[:n])
		}
	}
	return out
}

var universes = map[int]*Universe{}

// NewUniverse builds (and caches) the pool for key length n. Deterministic: independent of the seed.
func NewUniverse(n int, thorough bool) *Universe {
	if u, ok := universes[n]; ok {
		return u
	}
	u := &Universe{N: n, ByBits: map[string]int{}, Border: map[string]bool{}, Min: rep('0', n), Max: rep('1', n), Root: ("0" + rep('1', n))[:n]}
	if n >= 3 {
		for _, b := range BorderBits(n) {
			u.Border[b] = true
		}
	}
	add := func(i uint32, bits string) {
		if _, dup := u.ByBits[bits]; dup {
			return
		}
		u.ByBits[bits] = len(u.Keys)
		u.Keys = append(u.Keys, UKey{User: userKey(i), Bits: bits})
	}
	if n <= 16 {
		want := 1 << uint(n)
		tries := uint32(40 * want)
		if tries > 400000 {
			tries = 400000
		}
		for i := uint32(0); i < tries && len(u.Keys) < want; i++ {
			h := sha256.Sum256(userKey(i))
			add(i, BitsOf(h[:], n))
		}
	} else {
		cand := uint32(1 << 19)
		if thorough {
			cand = 1 << 21
		}
		buckets := map[uint16][]uint32{}
		for i := uint32(0); i < cand; i++ {
			h := sha256.Sum256(userKey(i))
			p := binary.BigEndian.Uint16(h[:2])
			buckets[p] = append(buckets[p], i)
		}
		take := func(p uint16, max int) {
			for j, i := range buckets[p] {
				if j >= max {
					break
				}
				h := sha256.Sum256(userKey(i))
				add(i, BitsOf(h[:], n))
			}
		}
		// keys next to the borders, the sentinels and the root key: same 16 leading bits
		special := []string{u.Min, u.Max, u.Root}
		special = append(special, BorderBits(n)...)
		for _, s := range special {
			take(uint16(num(s[:8]))<<8|uint16(num(s[8:16])), 12)
		}
		// clusters sharing 16 bits, spread over the 8 subtrees
		ps := make([]int, 0, len(buckets))
		for p := range buckets {
			ps = append(ps, int(p))
		}
		sort.Ints(ps)
		r := rand.New(rand.NewSource(160))
		for c := 0; c < 120; c++ {
			take(uint16(ps[r.Intn(len(ps))]), 12)
		}
		// uniformly random keys
		for c := 0; c < 3000; c++ {
			i := uint32(r.Intn(int(cand)))
			h := sha256.Sum256(userKey(i))
			add(i, BitsOf(h[:], n))
		}
	}
	for _, s := range append([]string{u.Min, u.Max, u.Root}, BorderBits(max(n, 3))...) {
		if i, ok := u.ByBits[s]; ok && len(s) == n {
			u.Special = append(u.Special, i)
		}
	}
	universes[n] = u
	return u
}

// Reserved reports whether bits is a key the tree reserves (sentinels, root storage key).
func (u *Universe) Reserved(bits string) bool {
	return bits == u.Min || bits == u.Max || bits == u.Root
}

// bitsOfUser is where a user key lands in a tree of key length n.
func bitsOfUser(user []byte, n int) string {
	h := sha256.Sum256(user)
	return BitsOf(h[:], n)
}
