package c08

import (
	"bytes"
	"crypto/sha256"
	"fmt"

	"github.com/canopy-network/canopy/lib"
	"github.com/canopy-network/canopy/store"

	"verifharness/drv"
)

// ---------------------------------------------------------------------------------------------
// PERMANENT CORPUS (runs first): `overwrite-with-full-node-cache`.
//
// The node-cache discipline of setNode/getNode/delNode only shows once ONE SMT instance holds MaxCacheSize cached
// nodes (about half a million keys through the same instance). The scenario brings a real SMT's cache to (or next to)
// capacity with placeholder entries (store.VerifPadNodeCache: invisible to the tree and to the model), then works on
// keys whose leaves were cached before: value-changing overwrites, a delete, a re-insert and fresh keys, all through
// the sequential commit path (batches below the parallel threshold), and checks after every commit
//   - root == canonical commitment of the state (independent reference)        C08:root-not-canonical:full-node-cache
//   - node table == canonical node table                                       C08:node-table-not-canonical:full-node-cache
//   - same state reached by a fresh tree in one commit gives the same root     C08:history-dependence:full-node-cache
// The op lines go through the Lean driver as any other history (the padding is not an operation).

// cacheCases: how full the cache is when the overwrites start, relative to the capacity.
var cacheCases = []int{0, -1, -7}

// cacheCaseCount is the number of corpus cases of a tier (thorough adds the organic one).
func cacheCaseCount(thorough bool) int {
	if thorough {
		return len(cacheCases) + 4
	}
	return len(cacheCases) + 3 // + the digest-valued states + the empty-valued keys + the empty blocks
}

func runCacheCase(o *emitter, u *Universe, ci int) {
	if ci == len(cacheCases) {
		runDigestValueCase(o, u)
		return
	}
	if ci == len(cacheCases)+1 {
		runEmptyValueCase(o, u)
		return
	}
	if ci == len(cacheCases)+2 {
		runEmptyBlockCase(o, u)
		return
	}
	if ci > len(cacheCases)+2 {
		runCacheOrganic(o)
		return
	}
	r := o.Rng
	h := history{N: 160}
	defer func() {
		if p := recover(); p != nil {
			o.Fail("C08:panic-in-real-code", fmt.Sprintf("full-node-cache: %v | %s", p, shortStack()), h)
		}
	}()
	t, err := newTree(160, true) // ONE SMT instance for the whole history
	if err != nil {
		panic(err)
	}
	defer t.close()
	capacity := store.VerifMaxNodeCacheSize()
	o.Case(fmt.Sprintf("corpus overwrite-with-full-node-cache #%d (pad to capacity%+d)", ci, cacheCases[ci]))
	o.Op("new 160", fmt.Sprintf("root %s nodes 3 l0 same", drv.Hex(t.smt.Root())))
	// pool keys that are neither reserved nor borders
	var keys []UKey
	for i := r.Intn(1000); len(keys) < 48; i++ {
		if k := u.Keys[i%len(u.Keys)]; !u.Reserved(k.Bits) && !u.Border[k.Bits] {
			keys = append(keys, k)
		}
	}
	val := func(tag string, i int) []byte { return []byte(fmt.Sprintf("%s-%d", tag, i)) }
	// check commits one sequential batch and runs the three oracles
	ok := true
	check := func(what string, ops []op) {
		if !ok {
			return
		}
		line := opLine("seq", ops)
		h.Steps = append(h.Steps, line)
		o.Try(line)
		res := t.commit(false, ops)
		o.Count("cache:" + what + ":" + res)
		if res != "ok" {
			o.Op(line, res)
			o.Fail("C08:commit-failed", "full-node-cache: "+what+" returned "+res, h)
			ok = false
			return
		}
		applyOracle(t.m, ops)
		h.applied = append(h.applied, line)
		got := t.smt.Root()
		tab, serr := t.scan()
		if serr != nil {
			panic(serr)
		}
		refT, _ := RefTrie(t.m)
		l0 := "differs"
		if bytes.Equal(got, refVal(refT)) {
			l0 = "same"
		}
		o.Op(line, fmt.Sprintf("root %s nodes %d l0 %s", drv.Hex(got), len(tab), l0))
		o.Nontrivial(fmt.Sprintf("cache|%d|%s", ci, line))
		if l0 != "same" {
			o.Fail("C08:root-not-canonical:full-node-cache",
				fmt.Sprintf("%s with %d of %d node-cache entries: root %x, canonical commitment of the state %x", what, t.smt.VerifNodeCacheLen(), capacity, got, refVal(refT)), h)
			ok = false
			return
		}
		if d := tableDiff(tab, RefTable(refT, EncBits(u.Root))); d != "" {
			o.Fail("C08:node-table-not-canonical:full-node-cache", what+": "+d, h)
			ok = false
		}
	}
	// 1. ordinary writes: their leaves and parents are cached while there is room
	var first []op
	for i, k := range keys[:40] {
		first = append(first, op{k: k, val: val("balance", i)})
	}
	check("fill", first)
	// 2. the instance keeps working until its node cache is (almost) at capacity
	added := t.smt.VerifPadNodeCache(capacity + cacheCases[ci])
	o.Count(fmt.Sprintf("cache:padded-to-capacity%+d", cacheCases[ci]))
	if added == 0 {
		panic("node cache was not padded")
	}
	// 3. value-changing overwrites of cached leaves, one small sequential batch each
	check("overwrite", []op{{k: keys[7], val: val("updated", 7)}})
	check("overwrite", []op{{k: keys[8], val: val("updated", 8)}, {k: keys[9], val: val("updated", 9)}})
	// 4. delete a cached leaf, re-insert it with another value, add fresh keys (crosses the capacity: the drop path)
	check("delete", []op{{k: keys[10]}})
	check("reinsert", []op{{k: keys[10], val: val("again", 10)}, {k: keys[7], val: val("third", 7)}})
	var fresh []op
	for i, k := range keys[40:] {
		fresh = append(fresh, op{k: k, val: val("fresh", i)})
	}
	check("fresh-keys", fresh)
	check("overwrite-after-fresh", []op{{k: keys[3], val: val("late", 3)}, {k: keys[41], val: val("late", 41)}})
	// 5. same state, two histories: a fresh tree that writes the final pairs in one commit
	if ok {
		last := map[string][]byte{}
		for _, line := range h.applied {
			for _, tok := range fieldsFrom(line, 2) {
				if tok[0] == "d" {
					delete(last, tok[1])
				} else {
					last[tok[1]] = unhex(tok[2])
				}
			}
		}
		var final []op
		for _, k := range keys {
			if v, present := last[drv.Hex(k.User)]; present {
				final = append(final, op{k: k, val: v})
			}
		}
		t2, err := newTree(160, false)
		if err != nil {
			panic(err)
		}
		defer t2.close()
		o.Count("cache:two-histories")
		if res := t2.commit(false, final); res != "ok" || !bytes.Equal(t2.smt.Root(), t.smt.Root()) {
			o.Fail("C08:history-dependence:full-node-cache",
				fmt.Sprintf("same final state: the long-lived instance has root %x, a fresh tree %x (%s)", t.smt.Root(), t2.smt.Root(), res),
				map[string]any{"first": h, "second": []string{opLine("seq", final)}})
		}
	}
}

// runCacheOrganic (thorough tier) reaches the capacity through the public commit path only: ~520k keys through one
// SMT instance, then overwrites of keys cached long ago. Oracle only (the history is too long for the Lean driver's
// list-based model; the padded scenario above is the one that is mirrored).
func runCacheOrganic(o *emitter) {
	var steps []string
	defer func() {
		if p := recover(); p != nil {
			o.Fail("C08:panic-in-real-code", fmt.Sprintf("full-node-cache organic: %v | %s", p, shortStack()), steps)
		}
	}()
	t, err := newTree(160, true)
	if err != nil {
		panic(err)
	}
	defer t.close()
	o.Case("corpus overwrite-with-full-node-cache organic (520k keys through one SMT instance)")
	const total, chunk = 520_000, 20_000
	ukey := func(i int) UKey {
		k := userKey(uint32(1<<24 + i))
		return UKey{User: k, Bits: bitsOfUser(k, 160)}
	}
	for done := 0; done < total; done += chunk {
		ops := make([]op, 0, chunk)
		for i := done; i < done+chunk; i++ {
			ops = append(ops, op{k: ukey(i), val: []byte(fmt.Sprintf("balance-%d", i))})
		}
		if res := t.commit(false, ops); res != "ok" {
			panic("organic fill: " + res)
		}
		applyOracle(t.m, ops)
	}
	steps = append(steps, fmt.Sprintf("%d sets of userKey(2^24+i) = balance-i in sequential commits of %d", total, chunk))
	o.Count(fmt.Sprintf("cache:organic-cached-nodes-after-fill=%d", t.smt.VerifNodeCacheLen()))
	for _, i := range []int{3, 77, 4242} {
		ops := []op{{k: ukey(i), val: []byte(fmt.Sprintf("balance-%d-updated", i))}}
		steps = append(steps, opLine("seq", ops))
		if res := t.commit(false, ops); res != "ok" {
			panic("organic overwrite: " + res)
		}
		applyOracle(t.m, ops)
		want, _ := RefRoot(t.m)
		o.Count("cache:organic-overwrite")
		if got := t.smt.Root(); !bytes.Equal(got, want) {
			o.Fail("C08:root-not-canonical:full-node-cache",
				fmt.Sprintf("organic: overwrite of key %d with %d cached nodes: root %x, canonical commitment %x", i, t.smt.VerifNodeCacheLen(), got, want), steps)
			return
		}
	}
}

// runDigestValueCase (permanent corpus `digest-valued-states`): a stored value may itself be 32 bytes long, e.g. a
// digest. The leaf always commits to the HASH of the value, so the states {k: w} and {k: sha256(w)} are different states
// with different roots, each the canonical commitment of its own set.
//
//	C08:root-not-canonical:digest-sized-value     root of a state holding a 32-byte value != reference
//	C08:root-collision:value-vs-its-digest        {k: w} and {k: sha256(w)} commit to the same root
func runDigestValueCase(o *emitter, u *Universe) {
	h := history{N: 160}
	defer func() {
		if p := recover(); p != nil {
			o.Fail("C08:panic-in-real-code", fmt.Sprintf("digest-valued-states: %v | %s", p, shortStack()), h)
		}
	}()
	o.Case("corpus digest-valued-states")
	var keys []UKey
	for i := 0; len(keys) < 6; i++ {
		if k := u.Keys[i]; !u.Reserved(k.Bits) && !u.Border[k.Bits] {
			keys = append(keys, k)
		}
	}
	w := []byte("an ordinary value of some length")
	if len(w) != 32 {
		w = append(w, make([]byte, 32)...)[:32]
	}
	dw := sha256.Sum256(w)
	ddw := sha256.Sum256(dw[:])
	var roots [][]byte
	for _, val := range [][]byte{w, dw[:], ddw[:]} {
		t, err := newTree(160, false)
		if err != nil {
			panic(err)
		}
		o.Op("new 160", fmt.Sprintf("root %s nodes 3 l0 same", drv.Hex(t.smt.Root())))
		ops := []op{{k: keys[0], val: val}, {k: keys[1], val: []byte("short")}, {k: keys[2], val: dw[:]}}
		line := opLine("seq", ops)
		h.Steps = append(h.Steps, line)
		o.Try(line)
		if res := t.commit(false, ops); res != "ok" {
			o.Op(line, res)
			o.Fail("C08:commit-failed", "digest-valued-states: "+res, h)
			t.close()
			return
		}
		applyOracle(t.m, ops)
		got := t.smt.Root()
		tab, _ := t.scan()
		want, _ := RefRoot(t.m)
		l0 := "same"
		if !bytes.Equal(got, want) {
			l0 = "differs"
			o.Fail("C08:root-not-canonical:digest-sized-value",
				fmt.Sprintf("state with a 32-byte value %x: root %x, canonical commitment %x (the leaf must commit to the hash of the value)", val, got, want), h)
		}
		o.Op(line, fmt.Sprintf("root %s nodes %d l0 %s", drv.Hex(got), len(tab), l0))
		o.Count("cache:digest-valued-state")
		roots = append(roots, got)
		t.close()
	}
	for i := 0; i+1 < len(roots); i++ {
		if bytes.Equal(roots[i], roots[i+1]) {
			o.Fail("C08:root-collision:value-vs-its-digest",
				fmt.Sprintf("the states {k: w} and {k: sha256(w)} (w = %x) commit to the same root %x", w, roots[i]), h)
		}
	}
}

// runEmptyValueCase (permanent corpus `empty-valued-keys`): a key may be set to an EMPTY value (nil or []byte{}; the FSM
// does it: Set(KeyForCommittee(..), nil)). Such a key is PRESENT — its leaf commits to hash("") — until it is deleted,
// and absent afterwards: "joined then left" and "never joined" are the same state and must have the same root.
//
//	C08:root-not-canonical:delete-of-empty-valued-key   root != canonical commitment after deleting a committed empty-valued key
//	C08:root-not-canonical:empty-valued-key             ... at any other point of the history
//	C08:history-dependence:empty-valued-key             the two histories end in different roots
//
// Through the real Store (blocks) and the real SMT (commits).
func runEmptyValueCase(o *emitter, u *Universe) {
	var hist []string
	defer func() {
		if p := recover(); p != nil {
			o.Fail("C08:panic-in-real-code", fmt.Sprintf("empty-valued-keys: %v | %s", p, shortStack()), hist)
		}
	}()
	o.Case("corpus empty-valued-keys")
	var k []UKey
	for i := 100; len(k) < 8; i++ {
		if x := u.Keys[i]; !u.Reserved(x.Bits) && !u.Border[x.Bits] {
			k = append(k, x)
		}
	}
	type w struct {
		k   UKey
		val []byte
		del bool
	}
	empty := []byte{}
	blocks := [][]w{
		{{k[0], nil, false}, {k[1], empty, false}, {k[2], []byte("x"), false}, {k[6], nil, false}},
		// later block: delete committed empty-valued keys, overwrite to empty, set+delete an empty-valued key in one block
		{{k[0], nil, true}, {k[1], nil, true}, {k[2], nil, false}, {k[3], []byte("y"), false}, {k[4], empty, false}, {k[4], nil, true}},
		{{k[2], []byte("z"), false}, {k[5], nil, false}, {k[6], nil, true}, {k[7], nil, true}},
	}
	refOf := func(state map[string][]byte) []byte {
		m := Sentinels(160)
		for b, v := range state {
			h := sha256.Sum256(v)
			m[b] = h[:]
		}
		r, _ := RefRoot(m)
		return r
	}
	tag := func(a, b []byte) string {
		if bytes.Equal(a, b) {
			return "same"
		}
		return "differs"
	}
	// ---- the real Store
	runStore := func(bl [][]w, label string) []byte {
		sti, err := store.NewStoreInMemory(lib.NewNullLogger())
		if err != nil {
			panic(err)
		}
		st := sti.(*store.Store)
		defer st.DB().Close()
		hist = append(hist, "store   # "+label)
		o.Op("store", "ok")
		state := map[string][]byte{}
		var root []byte
		for bi, blk := range bl {
			deletesCommittedEmpty := false
			for _, x := range blk {
				if x.del {
					if v, ok := state[x.k.Bits]; ok && len(v) == 0 {
						deletesCommittedEmpty = true
					}
					if e := st.Delete(x.k.User); e != nil {
						panic(e)
					}
					delete(state, x.k.Bits)
					hist = append(hist, "del "+drv.Hex(x.k.User))
					o.Op("del "+drv.Hex(x.k.User), "ok")
				} else {
					if e := st.Set(x.k.User, x.val); e != nil {
						panic(e)
					}
					state[x.k.Bits] = x.val
					line := "set " + drv.Hex(x.k.User) + " " + drv.Hex(x.val)
					hist = append(hist, line)
					o.Op(line, "ok")
				}
			}
			o.Try("commit")
			r, e := st.Commit()
			if e != nil {
				panic(e)
			}
			root = r
			want := refOf(state)
			hist = append(hist, "commit")
			o.Op("commit", fmt.Sprintf("root %s l0 %s version %d", drv.Hex(r), tag(r, want), st.Version()))
			o.Count("empty:store-block")
			if !bytes.Equal(r, want) {
				sig := "C08:root-not-canonical:empty-valued-key"
				if deletesCommittedEmpty {
					sig = "C08:root-not-canonical:delete-of-empty-valued-key"
				}
				o.Fail(sig, fmt.Sprintf("Store, %s, block %d: root %x, canonical commitment of the state %x", label, bi+1, r, want), hist)
			}
		}
		return root
	}
	joined := runStore(blocks, "joined then left")
	// the final state written directly: k2 = z, k3 = y, k5 = empty
	never := runStore([][]w{{{k[2], []byte("z"), false}, {k[3], []byte("y"), false}, {k[5], empty, false}}}, "never joined")
	if !bytes.Equal(joined, never) {
		o.Fail("C08:history-dependence:empty-valued-key",
			fmt.Sprintf("Store: the same key/value set reached with and without empty-valued keys that were deleted again: roots %x and %x", joined, never), hist)
	}
	// ---- the real SMT
	t, err := newTree(160, false)
	if err != nil {
		panic(err)
	}
	defer t.close()
	o.Op("new 160", fmt.Sprintf("root %s nodes 3 l0 same", drv.Hex(t.smt.Root())))
	for bi, blk := range blocks {
		last := map[string]op{}
		var order []string
		deletesCommittedEmpty := false
		for _, x := range blk {
			if _, seen := last[x.k.Bits]; !seen {
				order = append(order, x.k.Bits)
			}
			if x.del {
				if v, ok := t.m[x.k.Bits]; ok && bytes.Equal(v, func() []byte { h := sha256.Sum256(nil); return h[:] }()) {
					deletesCommittedEmpty = true
				}
				last[x.k.Bits] = op{k: x.k}
			} else {
				v := x.val
				if v == nil {
					v = empty
				}
				last[x.k.Bits] = op{k: x.k, val: v}
			}
		}
		var ops []op
		for _, b := range order {
			ops = append(ops, last[b])
		}
		line := opLine("seq", ops)
		hist = append(hist, line)
		o.Try(line)
		if res := t.commit(false, ops); res != "ok" {
			o.Op(line, res)
			o.Fail("C08:commit-failed", "empty-valued-keys: "+res, hist)
			return
		}
		applyOracle(t.m, ops)
		got := t.smt.Root()
		tab, _ := t.scan()
		want, _ := RefRoot(t.m)
		o.Op(line, fmt.Sprintf("root %s nodes %d l0 %s", drv.Hex(got), len(tab), tag(got, want)))
		o.Count("empty:smt-commit")
		if !bytes.Equal(got, want) {
			sig := "C08:root-not-canonical:empty-valued-key"
			if deletesCommittedEmpty {
				sig = "C08:root-not-canonical:delete-of-empty-valued-key"
			}
			o.Fail(sig, fmt.Sprintf("SMT, commit %d: root %x, canonical commitment %x", bi+1, got, want), hist)
		}
	}
}

// runEmptyBlockCase (permanent corpus `empty-blocks`): a block may carry no state operation at all; Commit() of such a
// block commits the root of the unchanged tree — on a fresh database the root of the canonical EMPTY tree (the two
// sentinels), with or without a Root() call before the Commit(), exactly like every other history that ends in the empty
// state (insert then delete in two blocks / in one block).
//
//	C08:root-not-canonical:empty-block      root committed for an empty block != canonical commitment of the state
//	C08:history-dependence:empty-block      histories ending in the same state, one of them through empty blocks, differ
//
// Through the real Store, and through the real SMT (Commit / CommitParallel of an empty batch).
func runEmptyBlockCase(o *emitter, u *Universe) {
	var hist []string
	defer func() {
		if p := recover(); p != nil {
			o.Fail("C08:panic-in-real-code", fmt.Sprintf("empty-blocks: %v | %s", p, shortStack()), hist)
		}
	}()
	o.Case("corpus empty-blocks")
	var k []UKey
	for i := 200; len(k) < 3; i++ {
		if x := u.Keys[i]; !u.Reserved(x.Bits) && !u.Border[x.Bits] {
			k = append(k, x)
		}
	}
	tag := func(a, b []byte) string {
		if bytes.Equal(a, b) {
			return "same"
		}
		return "differs"
	}
	// a history = blocks of steps: "s<i>" set k[i], "d<i>" delete k[i], "root" Root() before the Commit(), "reopen"
	run := func(label string, blocks [][]string) []byte {
		sti, err := store.NewStoreInMemory(lib.NewNullLogger())
		if err != nil {
			panic(err)
		}
		st := sti.(*store.Store)
		defer func() { st.DB().Close() }()
		hist = append(hist, "store   # "+label)
		o.Op("store", "ok")
		state := map[string][]byte{}
		var root []byte
		for bi, blk := range blocks {
			writes := 0
			for _, step := range blk {
				switch {
				case step == "root":
					o.Try("root")
					got, e := st.Root()
					if e != nil {
						panic(e)
					}
					want, _ := RefRoot(refMap(state))
					hist = append(hist, "root")
					o.Op("root", "root "+drv.Hex(got)+" l0 "+tag(got, want))
				case step == "reopen":
					st.Discard()
					st2, e := store.NewStoreWithDB(lib.DefaultConfig(), st.DB(), nil, lib.NewNullLogger())
					if e != nil {
						panic(e)
					}
					st = st2
					hist = append(hist, "reopen")
					o.Op("reopen", fmt.Sprintf("version %d", st.Version()))
				case step[0] == 's':
					x := k[int(step[1]-'0')]
					val := []byte("v" + step[1:])
					if e := st.Set(x.User, val); e != nil {
						panic(e)
					}
					state[x.Bits] = val
					writes++
					line := "set " + drv.Hex(x.User) + " " + drv.Hex(val)
					hist = append(hist, line)
					o.Op(line, "ok")
				default:
					x := k[int(step[1]-'0')]
					if e := st.Delete(x.User); e != nil {
						panic(e)
					}
					delete(state, x.Bits)
					writes++
					hist = append(hist, "del "+drv.Hex(x.User))
					o.Op("del "+drv.Hex(x.User), "ok")
				}
			}
			if len(blk) > 0 && blk[len(blk)-1] == "reopen" {
				continue // a pseudo block: only re-opens the store
			}
			o.Try("commit")
			r, e := st.Commit()
			if e != nil {
				panic(e)
			}
			root = r
			want, _ := RefRoot(refMap(state))
			hist = append(hist, "commit")
			o.Op("commit", fmt.Sprintf("root %s l0 %s version %d", drv.Hex(r), tag(r, want), st.Version()))
			o.Count("emptyblock:store-block")
			if !bytes.Equal(r, want) {
				sig := "C08:root-not-canonical"
				if writes == 0 {
					sig += ":empty-block"
				}
				o.Fail(sig, fmt.Sprintf("Store, %s, block %d (%d writes): committed root %x, canonical commitment of the state %x", label, bi+1, writes, r, want), hist)
			}
		}
		return root
	}
	histories := []struct {
		label  string
		blocks [][]string
	}{
		{"empty first blocks", [][]string{{}, {}, {}}},
		{"Root() then Commit() of empty first blocks", [][]string{{"root"}, {"root"}, {}}},
		{"insert, delete in the next block, empty blocks", [][]string{{"s0"}, {"d0"}, {}, {"root"}}},
		{"insert and delete in one block", [][]string{{"s0", "s1", "d0", "d1"}, {}}},
		{"empty first blocks, re-opened, insert, delete", [][]string{{}, {"reopen"}, {}, {"s2"}, {}, {"d2"}, {"reopen"}, {}}},
		{"delete of an absent key only", [][]string{{"d1"}, {}}},
	}
	var first []byte
	for i, h := range histories {
		got := run(h.label, h.blocks)
		if i == 0 {
			first = got
		} else if !bytes.Equal(got, first) {
			o.Fail("C08:history-dependence:empty-block",
				fmt.Sprintf("Store: two histories ending in the empty state: %q commits %x, %q commits %x", histories[0].label, first, h.label, got), hist)
		}
	}
	// empty blocks between non-empty states: the root does not move
	run("empty blocks on a non-empty state", [][]string{{"s0", "s1"}, {}, {"root"}, {"d0"}, {}, {"reopen"}, {}})
	// ---- the real SMT: Commit / CommitParallel of an empty batch, on the fresh tree and on a non-empty one
	t, err := newTree(160, false)
	if err != nil {
		panic(err)
	}
	defer t.close()
	o.Op("new 160", fmt.Sprintf("root %s nodes 3 l0 same", drv.Hex(t.smt.Root())))
	for i, ops := range [][]op{nil, nil, {{k: k[0], val: []byte("v0")}}, nil, nil, {{k: k[0]}}, nil, nil} {
		parallel := i%2 == 1
		mode := "seq"
		if parallel {
			mode = "par"
		}
		line := opLine(mode, ops)
		hist = append(hist, line)
		o.Try(line)
		if res := t.commit(parallel, ops); res != "ok" {
			o.Op(line, res)
			o.Fail("C08:commit-failed", "empty-blocks: "+res, hist)
			return
		}
		applyOracle(t.m, ops)
		got := t.smt.Root()
		tab, _ := t.scan()
		want, _ := RefRoot(t.m)
		o.Op(line, fmt.Sprintf("root %s nodes %d l0 %s", drv.Hex(got), len(tab), tag(got, want)))
		o.Count("emptyblock:smt-commit")
		if !bytes.Equal(got, want) {
			sig := "C08:root-not-canonical"
			if len(ops) == 0 {
				sig += ":empty-block"
			}
			o.Fail(sig, fmt.Sprintf("SMT, commit %d (%s, %d ops): root %x, canonical commitment %x", i+1, mode, len(ops), got, want), hist)
		}
	}
}

// refMap: the reference's view (tree key bits -> leaf value) of a state given as tree key bits -> stored value.
func refMap(state map[string][]byte) map[string][]byte {
	m := Sentinels(160)
	for b, v := range state {
		h := sha256.Sum256(v)
		m[b] = h[:]
	}
	return m
}
