package c08

import (
	"bufio"
	"bytes"
	"encoding/json"
	"flag"
	"fmt"
	"hash/fnv"
	"io"
	"math/rand"
	"os"
	"os/exec"
	"runtime/debug"
	"strings"
	"time"

	"verifharness/drv"
)

// The real SMT / Store can panic in a worker goroutine of CommitParallel (fatal for the whole process, no recover
// possible) or spin. The cases therefore run in child processes (this binary with the argument "child"), one child per
// chunk of cases, which stream their events to the parent; the parent owns ops.txt / impl.txt / stats.json, turns a
// dead or silent child into an oracle failure with the history so far as replay, and restarts after the lost case.

type event struct {
	T      string          `json:"t"` // case | try | op | count | nontrivial | sample | fail | casedone
	A      string          `json:"a,omitempty"`
	B      string          `json:"b,omitempty"`
	I      int             `json:"i,omitempty"`
	Replay json.RawMessage `json:"replay,omitempty"`
}

// emitter is what a case talks to (the same calls as drv.Out); it streams events to the parent.
type emitter struct {
	Rng  *rand.Rand
	Tier string
	w    *bufio.Writer
	cur  string
}

func (e *emitter) send(ev event) {
	b, _ := json.Marshal(ev)
	e.w.Write(b)
	e.w.WriteByte('\n')
	e.w.Flush()
}

func (e *emitter) Case(id string)      { e.cur = id; e.send(event{T: "case", A: id}) }
func (e *emitter) CurCase() string     { return e.cur }
func (e *emitter) Try(op string)       { e.send(event{T: "try", A: op}) } // announced BEFORE the real code is called
func (e *emitter) Op(op, res string)   { e.send(event{T: "op", A: op, B: res}) }
func (e *emitter) Count(k string)      { e.send(event{T: "count", A: k}) }
func (e *emitter) Nontrivial(d string) { e.send(event{T: "nontrivial", A: d}) }
func (e *emitter) Sample(s string)     { e.send(event{T: "sample", A: s}) }
func (e *emitter) Fail(sig, desc string, replay any) {
	b, _ := json.Marshal(replay)
	e.send(event{T: "fail", A: sig, B: desc, Replay: b})
}

func shortStack() string {
	var keep []string
	for _, l := range strings.Split(string(debug.Stack()), "\n") {
		if strings.Contains(l, "/store/") || strings.Contains(l, "store.(") {
			keep = append(keep, strings.TrimSpace(l))
		}
	}
	if len(keep) > 8 {
		keep = keep[:8]
	}
	return strings.Join(keep, " <- ")
}

func caseSeed(seed int64, grain string, n, ci int) int64 {
	h := fnv.New64a()
	fmt.Fprintf(h, "%d|%s|%d|%d", seed, grain, n, ci)
	return int64(h.Sum64() >> 1)
}

// ChildMain runs cases [from, to) of one chunk and streams their events on stdout.
func ChildMain(args []string) {
	fs := flag.NewFlagSet("child", flag.ExitOnError)
	grain := fs.String("grain", "smt", "smt|store")
	n := fs.Int("n", 160, "key bits (smt)")
	from := fs.Int("from", 0, "first case")
	to := fs.Int("to", 0, "one past the last case")
	seed := fs.Int64("seed", 1, "")
	tier := fs.String("tier", "quick", "")
	fs.Parse(args)
	thorough := *tier == "thorough"
	out := bufio.NewWriterSize(os.Stdout, 1<<16)
	devnull, _ := os.OpenFile(os.DevNull, os.O_WRONLY, 0)
	os.Stdout = devnull // nothing but events on the pipe
	u := NewUniverse(*n, thorough)
	for ci := *from; ci < *to; ci++ {
		e := &emitter{Rng: rand.New(rand.NewSource(caseSeed(*seed, *grain, *n, ci))), Tier: *tier, w: out}
		e.send(event{T: "casestart", I: ci})
		if os.Getenv("C08_SELFTEST_CRASH") == fmt.Sprintf("%s:%d:%d", *grain, *n, ci) {
			// self-test of the harness: die the way an unrecovered panic in a worker goroutine of CommitParallel does
			e.Case("selftest")
			e.Try("commit par (selftest)")
			go func() { panic("selftest: panic in a goroutine") }()
			time.Sleep(time.Second)
		}
		switch *grain {
		case "smt":
			for _, c := range smtConfigs(thorough) {
				if c.n == *n {
					runSMTCase(e, u, c, ci)
				}
			}
		case "cache":
			runCacheCase(e, u, ci)
		case "tie":
			runTieCase(e, ci)
		case "store":
			_, blocks, maxBig := storeParams(thorough)
			runStoreCase(e, u, ci, blocks, maxBig)
		}
		e.send(event{T: "casedone", I: ci})
	}
}

// runChunk runs cases [0, total) of one chunk in child processes and replays their events into o.
func runChunk(o *drv.Out, grain string, n, total int) {
	exe, _ := os.Executable()
	idle := 5 * time.Minute
	for from := 0; from < total; {
		cmd := exec.Command(exe, "child", "-grain", grain, "-n", fmt.Sprint(n), "-from", fmt.Sprint(from), "-to", fmt.Sprint(total),
			"-seed", fmt.Sprint(o.Seed), "-tier", o.Tier)
		var stderr bytes.Buffer
		cmd.Stderr = &stderr
		stdout, err := cmd.StdoutPipe()
		if err != nil {
			panic(err)
		}
		if err := cmd.Start(); err != nil {
			panic(err)
		}
		lines := make(chan []byte, 1024)
		go func() {
			rd := bufio.NewReaderSize(stdout, 1<<20)
			for {
				l, e := rd.ReadBytes('\n')
				if len(l) > 0 {
					lines <- l
				}
				if e != nil {
					close(lines)
					return
				}
			}
		}()
		started, done := from-1, from-1
		var hist []string
		attempted := ""
		hung := false
	loop:
		for {
			select {
			case l, ok := <-lines:
				if !ok {
					break loop
				}
				var ev event
				if json.Unmarshal(l, &ev) != nil {
					continue
				}
				switch ev.T {
				case "casestart":
					started, hist, attempted = ev.I, nil, ""
				case "case":
					o.Case(ev.A)
				case "try":
					attempted = ev.A
				case "op":
					o.Op(ev.A, ev.B)
					hist = append(hist, ev.A)
					attempted = ""
				case "count":
					o.Count(ev.A)
				case "nontrivial":
					o.Nontrivial(ev.A)
				case "sample":
					o.Sample(ev.A)
				case "fail":
					var rp any
					json.Unmarshal(ev.Replay, &rp)
					o.Fail(ev.A, ev.B, rp)
				case "casedone":
					done = ev.I
				}
			case <-time.After(idle):
				hung = true
				cmd.Process.Kill()
				break loop
			}
		}
		io.Copy(io.Discard, stdout)
		werr := cmd.Wait()
		if done >= total-1 && werr == nil {
			return
		}
		// the child died (fatal error / unrecovered panic in a goroutine of the real code) or went silent
		lost := started
		if lost < from {
			lost = from
		}
		msg := stderr.String()
		if len(msg) > 3000 {
			msg = msg[:3000]
		}
		first := strings.SplitN(strings.TrimSpace(msg), "\n", 2)[0]
		sig, what := "C08:process-crash-in-real-code", "the process running the real code died: "+first
		if hung {
			sig, what = "C08:hang-in-real-code", fmt.Sprintf("no progress for %s", idle)
		}
		if len(hist) > 60 {
			hist = append([]string{fmt.Sprintf("… %d earlier ops of this case omitted", len(hist)-60)}, hist[len(hist)-60:]...)
		}
		o.Count("driver:child-lost")
		o.Fail(sig, fmt.Sprintf("%s n=%d case %d: %s", grain, n, lost, what),
			map[string]any{"grain": grain, "key_bits": n, "case": lost, "case_seed": caseSeed(o.Seed, grain, n, lost),
				"ops_before": hist, "op_in_progress": attempted, "stderr": msg})
		from = lost + 1
	}
}

// Run is the C08 driver: grain (a) the SMT at many key lengths, grain (b) the real Store.
func Run(o *drv.Out) {
	thorough := o.Tier == "thorough"
	runChunk(o, "cache", 160, cacheCaseCount(thorough)) // permanent corpus first
	runChunk(o, "tie", 160, tieCaseCount())
	for _, c := range smtConfigs(thorough) {
		runChunk(o, "smt", c.n, c.cases)
	}
	cases, _, _ := storeParams(thorough)
	runChunk(o, "store", 160, cases)
}
