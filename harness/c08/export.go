package c08

import "github.com/canopy-network/canopy/store"

// Exported handles for the C16 driver, which builds its trees the same way.

// Tree is a real SMT over a real *store.Txn.
type Tree = tree

// Write is one deferred operation on a pool key (Val == nil: delete).
type Write struct {
	K   UKey
	Val []byte
}

func NewTree(n int) (*Tree, error) { return newTree(n, false) }

func toOps(ws []Write) []op {
	ops := make([]op, len(ws))
	for i, w := range ws {
		ops[i] = op{k: w.K, val: w.Val}
	}
	return ops
}

// Commit runs one batch ("ok", "err:…" or "panic").
func (t *tree) Commit(parallel bool, ws []Write) string { return t.commit(parallel, toOps(ws)) }

// OpLine is the op line the Lean drivers understand for that batch.
func OpLine(parallel bool, ws []Write) string {
	mode := "seq"
	if parallel {
		mode = "par"
	}
	return opLine(mode, toOps(ws))
}

func (t *tree) SMT() *store.SMT { return t.smt }
func (t *tree) Close()          { t.close() }

// NodeCount scans the node table.
func (t *tree) NodeCount() int {
	tab, err := t.scan()
	if err != nil {
		panic(err)
	}
	return len(tab)
}
