package c08

import "verifharness/drv"

// Run is the C08 driver: grain (a) the SMT at many key lengths, grain (b) the real Store.
func Run(o *drv.Out) {
	RunSMT(o)
	RunStore(o)
}
