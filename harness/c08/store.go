package c08

import (
	"bytes"
	"crypto/sha256"
	"fmt"

	"github.com/canopy-network/canopy/lib"
	"github.com/canopy-network/canopy/store"

	"verifharness/drv"
)

// ---------------------------------------------------------------------------------------------
// grain (b): the real store.Store — Set/Delete on the state store, speculative Root(), Reset(), nested
// transactions, Commit(), re-opening the store object over the same database.

// scanRoot is the oracle at store level: iterate the WHOLE state store (pending writes merged, as the
// store's own iterator presents them), hash every key and value, and compute the canonical commitment.
func scanRoot(st lib.StoreI) ([]byte, int, error) {
	it, err := st.Iterator(nil)
	if err != nil {
		return nil, 0, err
	}
	defer it.Close()
	m := Sentinels(160)
	cnt := 0
	for ; it.Valid(); it.Next() {
		hk, hv := sha256.Sum256(it.Key()), sha256.Sum256(it.Value())
		m[BitsOf(hk[:], 160)] = hv[:]
		cnt++
	}
	r, ok := RefRoot(m)
	if !ok {
		return nil, cnt, fmt.Errorf("reference undefined")
	}
	return r, cnt, nil
}

// storeParams: cases, blocks per case, largest block.
func storeParams(thorough bool) (cases, blocks, maxBig int) {
	if thorough {
		return 24, 8, 2500
	}
	return 14, 6, 500
}

// runStoreCase drives one random block history through the real Store. Every call into the real code of this
// case is under the recover below (see runSMTCase).
func runStoreCase(o *emitter, u *Universe, ci, blocks, maxBig int) {
	r := o.Rng
	var hist []string
	defer func() {
		if p := recover(); p != nil {
			o.Fail("C08:panic-in-real-code", fmt.Sprintf("store: %v | %s", p, shortStack()), hist)
		}
	}()
	{
		sti, err := store.NewStoreInMemory(lib.NewNullLogger())
		if err != nil {
			panic(err)
		}
		st := sti.(*store.Store)
		o.Case(fmt.Sprintf("store #%d", ci))
		o.Op("store", "ok")
		rec := func(op, res string) {
			hist = append(hist, op)
			o.Op(op, res)
		}
		state := map[int][]byte{} // ORACLE's own view of the committed+pending state: pool index -> value
		committed := map[int][]byte{}
		var hot []int
		for j, base := 0, r.Intn(len(u.Keys)); j < 8; j++ {
			hot = append(hot, (base+j)%len(u.Keys))
		}
		pick := func() int {
			switch x := r.Intn(10); {
			case x < 3 && len(state) > 0:
				// an existing key (map order is random: pick by scanning pool indices from a random start)
				start := r.Intn(len(u.Keys))
				for d := 0; d < len(u.Keys); d++ {
					if _, ok := state[(start+d)%len(u.Keys)]; ok {
						return (start + d) % len(u.Keys)
					}
				}
			case x < 5:
				return hot[r.Intn(len(hot))]
			}
			for {
				i := r.Intn(len(u.Keys))
				if !u.Reserved(u.Keys[i].Bits) && !u.Border[u.Keys[i].Bits] {
					return i
				}
			}
		}
		opPrefix := "" // "c" while the writes go to the clone
		write := func(w lib.RWStoreI, view map[int][]byte) {
			i := pick()
			k := u.Keys[i]
			if r.Intn(100) < 30 {
				if e := w.Delete(k.User); e != nil {
					panic(e)
				}
				delete(view, i)
				rec(opPrefix+"del "+drv.Hex(k.User), "ok")
				o.Count("store:del")
			} else {
				v := make([]byte, 1+r.Intn(40))
				if r.Intn(8) == 0 {
					v = make([]byte, 32) // digest-sized values
				}
				r.Read(v)
				switch r.Intn(12) {
				case 0:
					v = nil // EMPTY value (the FSM writes such keys: Set(KeyForCommittee(..), nil)): present, leaf = hash("")
				case 1:
					v = []byte{}
				}
				if e := w.Set(k.User, v); e != nil {
					panic(e)
				}
				view[i] = v
				rec(opPrefix+"set "+drv.Hex(k.User)+" "+drv.Hex(v), "ok")
				o.Count("store:set")
			}
		}
		// l0: does the root equal the canonical commitment of the oracle's own record of the writes?
		l0 := func(got []byte) string {
			m := Sentinels(160)
			for i, v := range state {
				h := sha256.Sum256(v)
				m[u.Keys[i].Bits] = h[:]
			}
			if want, _ := RefRoot(m); bytes.Equal(got, want) {
				return "same"
			}
			return "differs"
		}
		sigSuffix := "" // ":empty-block" / ":after-rollback": which part of the history the root at hand closes
		checkRoot := func(got []byte, what string, stale bool) {
			want, _, err := scanRoot(st)
			if err != nil {
				panic(err)
			}
			// second, scan-independent reference: the oracle's own bookkeeping of the writes
			m := Sentinels(160)
			for i, v := range state {
				h := sha256.Sum256(v)
				m[u.Keys[i].Bits] = h[:]
			}
			want2, _ := RefRoot(m)
			if !bytes.Equal(want, want2) {
				o.Fail("C08:state-scan-differs-from-writes", what+": the state iterator does not show the written key/value set", hist)
			}
			if !bytes.Equal(got, want2) {
				if stale {
					o.Count("store:stale-cached-root-observed")
					return
				}
				o.Fail("C08:root-not-canonical"+sigSuffix, fmt.Sprintf("%s: root %x, canonical commitment of the scanned state %x", what, got, want2), hist)
			}
		}
		// copyAndCheck: Store.Copy() is a second store with the same content; whatever is written to the clone, its Root()
		// must be the canonical commitment of the CLONE's key/value set (also when the source's root was already computed)
		copyAndCheck := func(afterRoot bool) {
			o.Try("copy")
			cpI, e := st.Copy()
			if e != nil {
				panic(e)
			}
			cp := cpI.(*store.Store)
			rec("copy", "ok")
			cstate := map[int][]byte{}
			for k, v := range state {
				cstate[k] = v
			}
			opPrefix = "c"
			nw := 1 + r.Intn(12)
			if r.Intn(3) == 0 {
				nw = 16 + r.Intn(60)
			}
			for j := 0; j < nw; j++ {
				write(cp, cstate)
			}
			opPrefix = ""
			o.Try("croot")
			got, e := cp.Root()
			if e != nil {
				panic(e)
			}
			m := Sentinels(160)
			for i, v := range cstate {
				h := sha256.Sum256(v)
				m[u.Keys[i].Bits] = h[:]
			}
			want, _ := RefRoot(m)
			tag, kind := "same", "copy"
			if afterRoot {
				kind = "copy-after-root"
			}
			if !bytes.Equal(got, want) {
				tag = "differs"
				o.Fail("C08:root-not-canonical:"+kind,
					fmt.Sprintf("Root() of a Store.Copy() after %d writes to the clone: %x, canonical commitment of the clone's state %x", nw, got, want), hist)
			}
			rec("croot", "root "+drv.Hex(got)+" l0 "+tag)
			o.Count("store:" + kind)
			cp.Discard()
			rec("cdiscard", "ok")
		}
		snaps := map[uint64]map[int][]byte{} // the oracle's record of the state committed for every height
		afterRollback, extended := false, false
		for b := 0; b < blocks; b++ {
			size := 1 + r.Intn(15)
			if r.Intn(2) == 0 {
				size = 16 + r.Intn(maxBig-15)
			}
			// EMPTY blocks (Commit with no pending operation) at every position, incl. the very first commits of a
			// fresh database, with and without a Root() before the Commit()
			if (b < 2 && ci%3 == 0) || r.Intn(7) == 0 {
				size = 0
				o.Count("store:empty-block")
			}
			sigSuffix = ""
			if size == 0 {
				sigSuffix = ":empty-block"
			}
			if afterRollback {
				sigSuffix = ":after-rollback"
			}
			rootCached := false
			dirtyAfterRoot := false
			for w := 0; w < size; w++ {
				// sometimes group writes in a nested transaction that is flushed or discarded
				if r.Intn(12) == 0 {
					tx := st.NewTxn()
					rec("tbegin", "ok")
					view := map[int][]byte{}
					for k, v := range state {
						view[k] = v
					}
					for j := 0; j < 1+r.Intn(6); j++ {
						write(tx, view)
					}
					if r.Intn(3) == 0 {
						tx.Discard()
						rec("tdiscard", "ok")
						o.Count("store:txn-discard")
					} else {
						if e := tx.Flush(); e != nil {
							panic(e)
						}
						state = view
						rec("tflush", "ok")
						o.Count("store:txn-flush")
						dirtyAfterRoot = dirtyAfterRoot || rootCached
					}
					continue
				}
				write(st, state)
				dirtyAfterRoot = dirtyAfterRoot || rootCached
				if !rootCached && r.Intn(90) == 0 {
					copyAndCheck(false)
				}
				// speculative root in the middle of a block
				if r.Intn(60) == 0 {
					o.Try("root")
					o.Try("root")
					got, e := st.Root()
					if e != nil {
						panic(e)
					}
					rec("root", "root "+drv.Hex(got)+" l0 "+l0(got))
					o.Count("store:speculative-root")
					checkRoot(got, "speculative Root()", dirtyAfterRoot)
					rootCached = true
					if r.Intn(2) == 0 {
						copyAndCheck(true)
					}
					if r.Intn(100) < 85 {
						// discard the speculation: drop the block's writes and start over
						st.Reset()
						rec("reset", "ok")
						o.Count("store:reset")
						state = map[int][]byte{}
						for k, v := range committed {
							state[k] = v
						}
						rootCached, dirtyAfterRoot = false, false
					}
				}
			}
			if r.Intn(3) == 0 {
				o.Try("root")
				got, e := st.Root()
				if e != nil {
					panic(e)
				}
				rec("root", "root "+drv.Hex(got)+" l0 "+l0(got))
				checkRoot(got, "Root() before Commit()", dirtyAfterRoot)
				rootCached = true
				if r.Intn(2) == 0 {
					copyAndCheck(true)
				}
			}
			o.Try("commit")
			got, e := st.Commit()
			if e != nil {
				panic(e)
			}
			rec("commit", fmt.Sprintf("root %s l0 %s version %d", drv.Hex(got), l0(got), st.Version()))
			o.Count("store:commit")
			if size >= 16 {
				o.Count("store:commit-big-block")
			}
			if rootCached && dirtyAfterRoot {
				o.Count("store:commit-with-stale-cached-root")
				// the committed root does not cover the writes made after the speculative Root(); the tree the
				// next block starts from is that stale tree, so the case ends here
				checkRoot(got, "Commit()", true)
				break
			}
			checkRoot(got, "Commit()", false)
			o.Nontrivial(fmt.Sprintf("store|%d|%x", ci, got))
			committed = map[int][]byte{}
			for k, v := range state {
				committed[k] = v
			}
			snaps[st.Version()] = committed
			// re-open: a new Store object over the same database must continue from the committed tree
			if r.Intn(3) == 0 {
				st.Discard()
				st2, e := store.NewStoreWithDB(lib.DefaultConfig(), st.DB(), nil, lib.NewNullLogger())
				if e != nil {
					panic(e)
				}
				st = st2
				rec("reopen", fmt.Sprintf("version %d", st.Version()))
				o.Count("store:reopen")
			}
			// ROLLBACK below the tip (a fork is abandoned), then further heights with other keys: the tree the next
			// heights are built on must be the tree committed for the target, not the abandoned fork's
			if v := st.Version(); v >= 2 && r.Intn(4) == 0 {
				target := 1 + uint64(r.Intn(int(v-1)))
				o.Try(fmt.Sprintf("rollback %d", target))
				if e := st.Rollback(target); e != nil {
					panic(e)
				}
				rec(fmt.Sprintf("rollback %d", target), fmt.Sprintf("version %d", st.Version()))
				o.Count("store:rollback")
				state, committed = map[int][]byte{}, map[int][]byte{}
				for k, val := range snaps[target] {
					state[k], committed[k] = val, val
				}
				for h := range snaps {
					if h > target {
						delete(snaps, h)
					}
				}
				afterRollback = true
				if r.Intn(2) == 0 {
					// the root of the rolled-back store before anything is written
					sigSuffix = ":after-rollback"
					got, e := st.Root()
					if e != nil {
						panic(e)
					}
					rec("root", "root "+drv.Hex(got)+" l0 "+l0(got))
					checkRoot(got, "Root() after Rollback()", false)
					st.Reset()
					rec("reset", "ok")
				}
				if b == blocks-1 && !extended {
					blocks, extended = blocks+1, true // at least one new height on top of the target
				}
			}
		}
		if ci < 2 {
			o.Sample(fmt.Sprintf("store: %d ops, first %v", len(hist), hist[:min(len(hist), 4)]))
		}
		st.DB().Close()
	}
}
