// Package c08 drives the real sparse Merkle tree (store.SMT) and the real store.Store for C08.
//
// ref.go is the ORACLE: the L0 definition of the state root re-implemented independently of both the
// Go tree code and the Lean model, straight from the prose of store/smt.go — "a compressed binary trie
// over the key bits; every inner node is the greatest common prefix of the keys below it; node value =
// SHA-256(left key bytes ‖ left value ‖ right key bytes ‖ right value)" — computed from a full scan of
// the key/value set, never incrementally.
package c08

import (
	"crypto/sha256"
	"sort"
)

// BitsOf returns the first n bits of data as a '0'/'1' string (what newNodeKey keeps).
func BitsOf(data []byte, n int) string {
	b := make([]byte, n)
	for i := 0; i < n; i++ {
		b[i] = '0'
		if i/8 < len(data) && data[i/8]>>(7-uint(i%8))&1 == 1 {
			b[i] = '1'
		}
	}
	return string(b)
}

// EncBits is the node-key byte encoding described in the comment block "Understanding Node Keys":
// whole bytes, then the last 1..8 bits as a number in one byte, then a meta byte holding the count of
// leading zero bits of that last group (an all-zero group of j bits has j-1).
func EncBits(bits string) []byte {
	if len(bits) == 0 {
		return nil
	}
	var out []byte
	i := 0
	for ; len(bits)-i > 8; i += 8 {
		out = append(out, num(bits[i:i+8]))
	}
	last := bits[i:]
	v := num(last)
	lz := 0
	for lz < len(last) && last[lz] == '0' {
		lz++
	}
	if v == 0 {
		lz = len(last) - 1
	}
	return append(out, v, byte(lz))
}

func num(bits string) (v byte) {
	for _, c := range bits {
		v = v<<1 | byte(c-'0')
	}
	return
}

// RefNode is one node of the canonical trie.
type RefNode struct {
	Bits string // full key of a leaf, common prefix of an inner node
	Val  []byte
	L, R *RefNode
}

type kv struct {
	bits string
	val  []byte
}

func refBuild(s []kv) *RefNode {
	if len(s) == 1 {
		return &RefNode{Bits: s[0].bits, Val: s[0].val}
	}
	// sorted, distinct: the common prefix of all keys is that of the first and the last
	a, b := s[0].bits, s[len(s)-1].bits
	p := 0
	for p < len(a) && p < len(b) && a[p] == b[p] {
		p++
	}
	cut := sort.Search(len(s), func(i int) bool { return s[i].bits[p] == '1' })
	l, r := refBuild(s[:cut]), refBuild(s[cut:])
	h := sha256.New()
	h.Write(EncBits(l.Bits))
	h.Write(l.Val)
	h.Write(EncBits(r.Bits))
	h.Write(r.Val)
	return &RefNode{Bits: a[:p], Val: h.Sum(nil), L: l, R: r}
}

// RefTrie builds the canonical trie of a key set (bit strings of one length) from scratch.
// ok=false when the set does not span both halves of the key space (the top node would not be the root).
func RefTrie(m map[string][]byte) (*RefNode, bool) {
	s := make([]kv, 0, len(m))
	for k, v := range m {
		s = append(s, kv{k, v})
	}
	sort.Slice(s, func(i, j int) bool { return s[i].bits < s[j].bits })
	if len(s) < 2 || s[0].bits[0] != '0' || s[len(s)-1].bits[0] != '1' {
		return nil, false
	}
	return refBuild(s), true
}

// RefRoot is the canonical Merkle commitment of the set.
func RefRoot(m map[string][]byte) ([]byte, bool) {
	t, ok := RefTrie(m)
	if !ok {
		return nil, false
	}
	return t.Val, true
}

// TableEntry is what the node store must hold for one node of the canonical trie.
type TableEntry struct{ Val, L, R []byte }

// RefTable lists every node the store must contain (and nothing else): storage key -> entry.
// The root is stored under rootKeyEnc instead of the encoding of its (empty) prefix.
func RefTable(t *RefNode, rootKeyEnc []byte) map[string]TableEntry {
	out := map[string]TableEntry{}
	var walk func(x *RefNode, top bool)
	walk = func(x *RefNode, top bool) {
		k := EncBits(x.Bits)
		if top {
			k = rootKeyEnc
		}
		e := TableEntry{Val: x.Val}
		if x.L != nil {
			e.L, e.R = EncBits(x.L.Bits), EncBits(x.R.Bits)
			walk(x.L, false)
			walk(x.R, false)
		}
		out[string(k)] = e
	}
	walk(t, true)
	return out
}

// Sentinels returns the two reserved leaves initializeTree creates.
func Sentinels(n int) map[string][]byte {
	mn, mx := make([]byte, n), make([]byte, n)
	for i := range mn {
		mn[i], mx[i] = '0', '1'
	}
	z, f := make([]byte, 20), make([]byte, 20)
	for i := range f {
		f[i] = 0xFF
	}
	return map[string][]byte{string(mn): z, string(mx): f}
}
