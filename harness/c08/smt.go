package c08

import (
	"bytes"
	"crypto/sha256"
	"fmt"
	"os"
	"sort"
	"strings"

	"github.com/canopy-network/canopy/lib"
	"github.com/canopy-network/canopy/store"
	"github.com/cockroachdb/pebble/v2"
	"github.com/cockroachdb/pebble/v2/vfs"

	"verifharness/drv"
)

// ---------------------------------------------------------------------------------------------
// grain (a): the real store.SMT over a real *store.Txn, arbitrary key bit lengths

var scPrefix = lib.JoinLenPrefix([]byte("c/"))

// tree is one real SMT node store plus what the oracle knows about it.
type tree struct {
	n     int
	db    *pebble.DB
	txn   *store.Txn
	smt   *store.SMT        // the SMT object of the last commit (a fresh one per commit unless reuse)
	m     map[string][]byte // ORACLE state: bits -> value as stored in the leaf
	reuse bool
}

func newTree(n int, reuse bool) (*tree, error) {
	db, err := pebble.Open("", &pebble.Options{FS: vfs.NewMem(), FormatMajorVersion: pebble.FormatNewest, Logger: nullPebbleLogger{}})
	if err != nil {
		return nil, err
	}
	vs := store.NewVersionedStore(db.NewSnapshot(), db.NewBatch(), 1)
	// sort=true only adds the in-memory key index so that the node table can be scanned
	txn := store.NewTxn(vs, vs, scPrefix, false, true, true, 1)
	t := &tree{n: n, db: db, txn: txn, m: Sentinels(n), reuse: reuse}
	t.smt = store.NewSMT(store.RootKey, n, txn)
	return t, nil
}

type nullPebbleLogger struct{}

func (nullPebbleLogger) Infof(string, ...interface{})  {}
func (nullPebbleLogger) Errorf(string, ...interface{}) {}
func (nullPebbleLogger) Fatalf(string, ...interface{}) {}

func (t *tree) close() { t.db.Close() }

// op is one deferred operation on a pool key.
type op struct {
	k   UKey
	val []byte // nil = delete
}

func (o op) token() string {
	if o.val == nil {
		return "d:" + drv.Hex(o.k.User)
	}
	return "s:" + drv.Hex(o.k.User) + ":" + drv.Hex(o.val)
}

func opLine(mode string, ops []op) string {
	var sb strings.Builder
	sb.WriteString("commit ")
	sb.WriteString(mode)
	for _, o := range ops {
		sb.WriteByte(' ')
		sb.WriteString(o.token())
	}
	return sb.String()
}

// commit runs one batch through the real tree. res is "ok", "err:<kind>" or "panic".
func (t *tree) commit(parallel bool, ops []op) (res string) {
	vops := make([]store.VerifSMTOp, len(ops))
	for i, o := range ops {
		vops[i] = store.VerifSMTOp{Key: o.k.User, Value: o.val, Delete: o.val == nil}
	}
	if !t.reuse {
		// what Store.Root() does: a fresh SMT object (fresh node cache) over the persistent node store
		t.smt = store.NewSMT(store.RootKey, t.n, t.txn)
	}
	defer func() {
		if r := recover(); r != nil {
			res = "panic"
		}
	}()
	var err lib.ErrorI
	if parallel {
		err = t.smt.VerifCommitParallel(vops)
	} else {
		err = t.smt.VerifCommit(vops)
	}
	if err != nil {
		if strings.Contains(err.Error(), "reserve") {
			return "err:reserved"
		}
		return fmt.Sprintf("err:%d", err.Code())
	}
	return "ok"
}

// scan reads the whole node table back from the store.
func (t *tree) scan() (map[string]TableEntry, error) {
	it, err := t.txn.Iterator(nil)
	if err != nil {
		return nil, err
	}
	defer it.Close()
	out := map[string]TableEntry{}
	for ; it.Valid(); it.Next() {
		k := it.Key()
		if len(k) == 0 || int(k[0]) != len(k)-1 {
			return nil, fmt.Errorf("node key not one length-prefixed segment: %x", k)
		}
		nd := new(lib.Node)
		if e := lib.Unmarshal(it.Value(), nd); e != nil {
			return nil, e
		}
		out[string(bytes.Clone(k[1:]))] = TableEntry{Val: bytes.Clone(nd.Value), L: bytes.Clone(nd.LeftChildKey), R: bytes.Clone(nd.RightChildKey)}
	}
	return out, nil
}

func tableDiff(got, want map[string]TableEntry) string {
	var d []string
	for k, w := range want {
		g, ok := got[k]
		switch {
		case !ok:
			d = append(d, fmt.Sprintf("missing node %x", k))
		case !bytes.Equal(g.Val, w.Val):
			d = append(d, fmt.Sprintf("node %x value %x want %x", k, g.Val, w.Val))
		case !bytes.Equal(g.L, w.L) || !bytes.Equal(g.R, w.R):
			d = append(d, fmt.Sprintf("node %x children %x/%x want %x/%x", k, g.L, g.R, w.L, w.R))
		}
	}
	for k := range got {
		if _, ok := want[k]; !ok {
			d = append(d, fmt.Sprintf("leftover node %x", k))
		}
	}
	sort.Strings(d)
	if len(d) > 6 {
		d = append(d[:6], fmt.Sprintf("… %d more", len(d)-6))
	}
	return strings.Join(d, "; ")
}

// applyOracle updates the oracle's key/value set (plain map semantics, nothing else).
func applyOracle(m map[string][]byte, ops []op) {
	for _, o := range ops {
		if o.val == nil {
			delete(m, o.k.Bits)
		} else {
			h := sha256.Sum256(o.val)
			m[o.k.Bits] = h[:]
		}
	}
}

type history struct {
	N       int      `json:"key_bits"`
	Steps   []string `json:"steps"`
	applied []string // the steps that committed (what the final set is made of)
}

// genBatch draws one batch of operations on distinct pool keys.
func genBatch(o *emitter, u *Universe, present []int, size int, parallel bool, hot []int) []op {
	r := o.Rng
	seen := map[int]bool{}
	var ops []op
	willBeParallel := parallel && size >= 16
	for tries := 0; len(ops) < size && tries < size*20; tries++ {
		var i int
		switch x := r.Intn(10); {
		case x < 3 && len(present) > 0: // a key that is in the tree: overwrite or delete
			i = present[r.Intn(len(present))]
		case x < 5 && len(hot) > 0: // the hot cluster of this case (shared prefixes, insert-then-delete)
			i = hot[r.Intn(len(hot))]
		case x == 5 && len(u.Special) > 0 && r.Intn(4) == 0: // borders / sentinels / root key
			i = u.Special[r.Intn(len(u.Special))]
		default:
			i = r.Intn(len(u.Keys))
		}
		if seen[i] {
			continue
		}
		k := u.Keys[i]
		del := r.Intn(100) < 35
		switch {
		case k.Bits == u.Root && !willBeParallel:
			continue // sequential Commit would overwrite the root node itself (root storage key lives in the leaf key space)
		case (u.Reserved(k.Bits) || (u.N >= 8 && u.Border[k.Bits])) && r.Intn(10+2*size) != 0:
			continue // keep reserved-key and border-key cases rare
		case willBeParallel && del && u.Border[k.Bits]:
			continue // a worker goroutine would panic (unrecoverable): deleting a border leaf below a subtree root
		}
		seen[i] = true
		if del {
			ops = append(ops, op{k: k})
		} else {
			v := make([]byte, 1+r.Intn(6))
			if r.Intn(8) == 0 {
				v = make([]byte, 32) // digest-sized values (a value may itself be a hash)
			}
			r.Read(v)
			if r.Intn(7) == 0 {
				v = []byte{} // EMPTY value: the key is present, its leaf commits to hash("")
			}
			ops = append(ops, op{k: k, val: v})
		}
	}
	if parallel && len(ops) < 16 {
		// the batch falls back to the sequential Commit: the root storage key must not be in it
		keep := ops[:0]
		for _, x := range ops {
			if x.k.Bits != u.Root {
				keep = append(keep, x)
			}
		}
		ops = keep
	}
	return ops
}

func presentIdx(u *Universe, m map[string][]byte) []int {
	out := make([]int, 0, len(m))
	for b := range m {
		if i, ok := u.ByBits[b]; ok {
			out = append(out, i)
		}
	}
	sort.Ints(out)
	return out
}

type smtCfg struct {
	n, cases, commits, maxBig int
}

// smtConfigs lists the key lengths of grain (a) with their case counts.
func smtConfigs(thorough bool) []smtCfg {
	cfgs := []smtCfg{{3, 30, 8, 0}, {4, 30, 10, 0}, {5, 30, 10, 0}, {6, 30, 10, 0}, {8, 40, 10, 120}, {9, 40, 10, 200}, {12, 30, 8, 400}, {16, 20, 8, 600}, {160, 24, 6, 500}}
	if thorough {
		for i := range cfgs {
			cfgs[i].cases *= 4
			cfgs[i].commits *= 2
			if cfgs[i].maxBig > 0 {
				cfgs[i].maxBig *= 3
			}
		}
	}
	return cfgs
}

// runSMTCase drives one random history of set/delete/commit through the real SMT at key length c.n.
// Every call into the real code of this case is under the recover below: a panic (or an error where none may
// occur) becomes an oracle failure with the history as replay, and the run goes on with the next case.
func runSMTCase(o *emitter, u *Universe, c smtCfg, ci int) {
	r := o.Rng
	h := history{N: c.n}
	defer func() {
		if p := recover(); p != nil {
			o.Fail("C08:panic-in-real-code", fmt.Sprintf("n=%d: %v | %s", c.n, p, shortStack()), h)
		}
	}()
	{
		{
			reuse := c.maxBig == 0 && r.Intn(3) == 0 // one SMT object across sequential commits, as smt_test.go does
			t, err := newTree(c.n, reuse)
			if err != nil {
				panic(err)
			}
			o.Case(fmt.Sprintf("smt n=%d #%d reuse=%v", c.n, ci, reuse))
			// initial root
			root0 := t.smt.Root()
			ref0, _ := RefRoot(t.m)
			o.Op(fmt.Sprintf("new %d", c.n), fmt.Sprintf("root %s nodes 3 l0 same", drv.Hex(root0)))
			if !bytes.Equal(root0, ref0) {
				o.Fail("C08:root-not-canonical", "initial root differs from the reference", h)
			}
			// a hot cluster: a handful of pool keys that keep being inserted and deleted
			var hot []int
			for j, base := 0, r.Intn(len(u.Keys)); j < 6; j++ {
				hot = append(hot, (base+j)%len(u.Keys)) // neighbours in the pool = same 16-bit cluster at n=160
			}
			oracleValid := true // false once a reserved key was written: outside the property's domain
			for step := 0; step < c.commits; step++ {
				parallel := c.maxBig > 0 && r.Intn(2) == 0
				size := 1 + r.Intn(15)
				if c.maxBig > 0 && r.Intn(2) == 0 {
					size = 16 + r.Intn(c.maxBig-15)
				}
				if lim := len(u.Keys) * 3 / 4; size > lim {
					size = lim
				}
				if r.Intn(12) == 0 || (step == 0 && ci%4 == 0) {
					size = 0 // EMPTY batch (an empty block): the tree and its root stay what they are
				}
				ops := genBatch(o, u, presentIdx(u, t.m), size, parallel, hot)
				if len(ops) == 0 && size != 0 {
					continue
				}
				if size == 0 {
					o.Count("smt:empty-batch")
				}
				mode := "seq"
				if parallel {
					mode = "par"
				}
				line := opLine(mode, ops)
				h.Steps = append(h.Steps, line)
				wentParallel := parallel && len(ops) >= 16
				touchesReserved, touchesBorder := false, false
				for _, x := range ops {
					touchesReserved = touchesReserved || u.Reserved(x.k.Bits)
					touchesBorder = touchesBorder || u.Border[x.k.Bits]
				}
				if wentParallel {
					for b := range t.m {
						touchesBorder = touchesBorder || u.Border[b]
					}
				}
				if os.Getenv("C08_TRACE") != "" {
					fmt.Fprintf(os.Stderr, "TRACE %s | present=%d | %s\n", o.CurCase(), len(t.m), line)
					var pb, ob []string
					for b := range t.m {
						pb = append(pb, b)
					}
					sort.Strings(pb)
					for _, x := range ops {
						if x.val == nil {
							ob = append(ob, "d"+x.k.Bits)
						} else {
							ob = append(ob, "s"+x.k.Bits)
						}
					}
					fmt.Fprintf(os.Stderr, "TRACEBITS present=%v ops=%v\n", pb, ob)
				}
				o.Try(line)
				res := t.commit(parallel, ops)
				o.Count("smt:" + mode + ":" + res)
				if wentParallel {
					o.Count("smt:parallel-path")
				}
				if res != "ok" {
					o.Op(line, res)
					if res == "err:reserved" && touchesReserved && wentParallel {
						continue // rejected before any mutation; the tree goes on
					}
					if res == "panic" && touchesReserved {
						o.Count("smt:panic-on-reserved-key")
						break
					}
					o.Fail("C08:commit-failed", "commit returned "+res+" on a batch without reserved keys", h)
					break
				}
				applyOracle(t.m, ops)
				h.applied = append(h.applied, line)
				if touchesReserved {
					oracleValid = false
				}
				got := t.smt.Root()
				tab, serr := t.scan()
				if serr != nil {
					panic(serr)
				}
				l0 := "n/a"
				refT, ok := RefTrie(t.m)
				if ok {
					l0 = "differs"
					if bytes.Equal(got, refT.Val) {
						l0 = "same"
					}
				}
				o.Op(line, fmt.Sprintf("root %s nodes %d l0 %s", drv.Hex(got), len(tab), l0))
				o.Nontrivial(fmt.Sprintf("%d|%s", c.n, line))
				if wentParallel && touchesBorder {
					o.Count("smt:parallel-with-border-key")
				}
				if l0 != "same" {
					// the property's oracle: root == canonical commitment of the set
					if oracleValid && !(wentParallel && touchesBorder) {
						o.Fail("C08:root-not-canonical", fmt.Sprintf("n=%d mode=%s: root %x, reference %x", c.n, mode, got, refVal(refT)), h)
					} else {
						o.Count("smt:diverged-on-reserved-or-border-key")
					}
					break // the oracle's set no longer describes the tree
				}
				if d := tableDiff(tab, RefTable(refT, EncBits(u.Root))); d != "" {
					if oracleValid {
						o.Fail("C08:node-table-not-canonical", fmt.Sprintf("n=%d mode=%s: %s", c.n, mode, d), h)
					}
					break
				}
				if _, ok := t.m[u.Min]; !ok {
					break // a sentinel was deleted: the tree has left the domain the code is written for
				}
				if _, ok := t.m[u.Max]; !ok {
					break
				}
			}
			// metamorphic: the same final set reached by another history gives the same root
			if oracleValid {
				if want, ok := RefRoot(t.m); ok && bytes.Equal(want, t.smt.Root()) {
					metamorphic(o, u, t, h)
				}
			}
			if ci < 2 && len(h.Steps) > 0 {
				o.Sample(fmt.Sprintf("n=%d: %s", c.n, h.Steps[0]))
			}
			t.close()
		}
	}
}

func refVal(t *RefNode) []byte {
	if t == nil {
		return nil
	}
	return t.Val
}

// metamorphic rebuilds the final key/value set of t in a fresh tree by a different history: random order,
// random batch boundaries, decoy keys that are inserted and deleted again, sequential and parallel commits.
// This oracle does not use the reference at all: it compares two runs of the real code.
func metamorphic(o *emitter, u *Universe, t *tree, h history) {
	r := o.Rng
	// the final values are hashes already; to reproduce them we need preimages, so re-derive from history:
	// collect the last written user value per key from the op lines
	last := map[string][]byte{}
	for _, line := range h.applied {
		for _, tok := range strings.Fields(line)[2:] {
			p := strings.Split(tok, ":")
			if p[0] == "d" {
				delete(last, p[1])
			} else {
				last[p[1]] = unhex(p[2])
			}
		}
	}
	byUser := map[string]UKey{}
	for _, k := range u.Keys {
		byUser[drv.Hex(k.User)] = k
	}
	var final []op
	for uk, v := range last {
		final = append(final, op{k: byUser[uk], val: v})
	}
	sort.Slice(final, func(i, j int) bool { return final[i].k.Bits < final[j].k.Bits })
	r.Shuffle(len(final), func(i, j int) { final[i], final[j] = final[j], final[i] })
	t2, err := newTree(t.n, false)
	if err != nil {
		panic(err)
	}
	defer t2.close()
	parallelOK := t.n >= 8
	for _, x := range final {
		parallelOK = parallelOK && !u.Border[x.k.Bits] // a parallel commit removes keys equal to a synthetic border
	}
	// decoys
	var decoys []op
	for j := 0; j < 5; j++ {
		k := u.Keys[r.Intn(len(u.Keys))]
		if _, used := last[drv.Hex(k.User)]; used || u.Reserved(k.Bits) || u.Border[k.Bits] {
			continue
		}
		decoys = append(decoys, op{k: k, val: []byte{0xDE, byte(j)}})
	}
	var steps []string
	run := func(parallel bool, ops []op) bool {
		if len(ops) == 0 {
			return true
		}
		seen := map[string]bool{}
		var uniq []op
		for _, x := range ops {
			if !seen[x.k.Bits] {
				seen[x.k.Bits] = true
				uniq = append(uniq, x)
			}
		}
		mode := "seq"
		if parallel {
			mode = "par"
		}
		steps = append(steps, opLine(mode, uniq))
		return t2.commit(parallel, uniq) == "ok"
	}
	ok := run(false, decoys)
	for i := 0; i < len(final) && ok; {
		sz := 1 + r.Intn(20)
		if r.Intn(3) == 0 {
			sz = 16 + r.Intn(200)
		}
		j := min(i+sz, len(final))
		ok = run(parallelOK && r.Intn(2) == 0, final[i:j])
		i = j
	}
	var dd []op
	for _, d := range decoys {
		dd = append(dd, op{k: d.k})
	}
	ok = ok && run(false, dd)
	o.Count("smt:metamorphic")
	if !ok {
		o.Fail("C08:commit-failed", "replayed history failed to commit", map[string]any{"first": h, "second": steps})
		return
	}
	if !bytes.Equal(t2.smt.Root(), t.smt.Root()) {
		o.Fail("C08:history-dependence", fmt.Sprintf("n=%d: two histories ending in the same key/value set give roots %x and %x", t.n, t.smt.Root(), t2.smt.Root()),
			map[string]any{"first": h, "second": steps})
	}
}

func unhex(s string) []byte {
	if s == "-" {
		return []byte{}
	}
	b := make([]byte, len(s)/2)
	for i := range b {
		fmt.Sscanf(s[2*i:2*i+2], "%02x", &b[i])
	}
	return b
}

// fieldsFrom splits the tokens of an op line from position `from` on ':'.
func fieldsFrom(line string, from int) [][]string {
	var out [][]string
	for _, tok := range strings.Fields(line)[from:] {
		out = append(out, strings.Split(tok, ":"))
	}
	return out
}
