package c08

import (
	"bytes"
	"crypto/sha256"
	"fmt"

	"github.com/canopy-network/canopy/lib"
	"github.com/canopy-network/canopy/store"

	"verifharness/drv"
)

// ---------------------------------------------------------------------------------------------
// PERMANENT CORPUS `parallel-order-tie`: state keys whose SHA-256-derived tree keys share 32 and more leading bits.
//
// The workers of CommitParallel get their groups sorted by key; commit()/rehash() rely on ASCENDING order. A comparator
// that decides on a leading-bytes fast path and mis-orders ties only shows on keys sharing at least those bytes (4 bytes
// = 32 bits in the seeded change pending5-C08), which random keys never do and which the small-n grain cannot show
// (a 3..16-bit tree has at most 2 key bytes). The keys below were brute-forced OFFLINE (16.7M candidates
// `lib.JoinLenPrefix("c08-tie-<id>")`, plus the three triples of the seed's demo `lib.JoinLenPrefix("seed5-c08-<id>")`)
// and are constants: nothing is searched at run time.

// tieTriples: three ids whose tree keys share >= 32 leading bits, ascending by tree key (two of them share >= 33).
var tieTriples = [][3]int{
	{6727735, 7878884, 6516246},   // 05731690 0f.. 54.. 7b..
	{10752453, 2294178, 1513601},  // 0b5f3d46 6a.. 7f.. a7..
	{3085804, 6905864, 4942015},   // 1134e197 86.. c6.. f7..
	{5039767, 12977388, 4925055},  // 1231afd7 12.. 72.. a7..
	{3165695, 8027301, 699582},    // 181e0edd 0b.. 30.. 5c..
	{1306041, 9360607, 8823177},   // 18fd970b 5e.. c3.. f6..
	{3632515, 15158405, 12788862}, // 22d7a147 0c.. 1e.. 60..
	{5751795, 14665858, 950224},   // 264b6249 71.. a5.. c5..
}

// demoTriples: the triples of seeded/pending5-C08/demo_test.go.txt (key format "seed5-c08-<id>").
var demoTriples = [][3]int{{5600880, 2128513, 6190394}, {3405141, 11788240, 5703122}, {1491778, 6484226, 300878}}

// tiePairs: two ids sharing 36 .. 46 leading bits.
var tiePairs = [][2]int{{14953061, 6441521}, {2603780, 7516052}, {3256289, 5260853}, {5503969, 6166790}, {4931977, 12289636},
	{1547215, 3396593}, {7691058, 10966388}, {13827852, 15984955}, {1067243, 14633445}, {5786297, 15094637}, {4530138, 6552322}}

func tieKey(format string, id int) UKey {
	k := lib.JoinLenPrefix([]byte(fmt.Sprintf(format, id)))
	return UKey{User: k, Bits: bitsOfUser(k, 160)}
}

func tieCaseCount() int { return len(tieTriples) + len(demoTriples) + 1 }

func runTieCase(o *emitter, ci int) {
	var hist []string
	defer func() {
		if p := recover(); p != nil {
			o.Fail("C08:panic-in-real-code", fmt.Sprintf("parallel-order-tie: %v | %s", p, shortStack()), hist)
		}
	}()
	var special []UKey
	name := ""
	switch {
	case ci < len(tieTriples):
		for _, id := range tieTriples[ci] {
			special = append(special, tieKey("c08-tie-%d", id))
		}
		name = fmt.Sprintf("triple %v", tieTriples[ci])
	case ci < len(tieTriples)+len(demoTriples):
		tr := demoTriples[ci-len(tieTriples)]
		for _, id := range tr {
			special = append(special, tieKey("seed5-c08-%d", id))
		}
		name = fmt.Sprintf("demo triple %v", tr)
	default:
		for _, p := range tiePairs {
			special = append(special, tieKey("c08-tie-%d", p[0]), tieKey("c08-tie-%d", p[1]))
		}
		name = "all pairs sharing 36..46 bits"
	}
	var fillers []UKey
	for i := 0; i < 20; i++ {
		fillers = append(fillers, tieKey("c08-filler-%d", i))
	}
	val := func(k UKey) []byte { return append([]byte("value-of-"), k.User...) }
	o.Case("corpus parallel-order-tie " + name)
	ref := func(keys []UKey) []byte {
		m := Sentinels(160)
		for _, k := range keys {
			h := sha256.Sum256(val(k))
			m[k.Bits] = h[:]
		}
		r, _ := RefRoot(m)
		return r
	}
	all := append(append([]UKey{}, fillers...), special...)
	want := ref(all)
	fail := func(shape string, got []byte) {
		o.Fail("C08:root-not-canonical:parallel-order-tie",
			fmt.Sprintf("%s, %s: root %x, canonical commitment of the state %x", name, shape, got, want), hist)
	}
	tag := func(got, w []byte) string {
		if bytes.Equal(got, w) {
			return "same"
		}
		return "differs"
	}
	// --- the real Store: batches of (fillers and/or special keys) committed as blocks
	storeShape := func(shape string, blocks ...[]UKey) []byte {
		sti, err := store.NewStoreInMemory(lib.NewNullLogger())
		if err != nil {
			panic(err)
		}
		st := sti.(*store.Store)
		defer st.DB().Close()
		hist = append(hist, "store   # "+shape)
		o.Op("store", "ok")
		var have []UKey
		var root []byte
		for _, blk := range blocks {
			for _, k := range blk {
				if e := st.Set(k.User, val(k)); e != nil {
					panic(e)
				}
				line := "set " + drv.Hex(k.User) + " " + drv.Hex(val(k))
				hist = append(hist, line)
				o.Op(line, "ok")
			}
			have = append(have, blk...)
			o.Try("commit")
			r, e := st.Commit()
			if e != nil {
				panic(e)
			}
			root = r
			hist = append(hist, "commit")
			o.Op("commit", fmt.Sprintf("root %s l0 %s version %d", drv.Hex(r), tag(r, ref(have)), st.Version()))
		}
		o.Count("tie:store:" + shape)
		if !bytes.Equal(root, want) {
			fail("Store, "+shape, root)
		}
		return root
	}
	storeShape("one batch", all)
	heights := [][]UKey{fillers}
	for _, k := range special {
		heights = append(heights, []UKey{k})
	}
	storeShape("same writes over several heights", heights...)
	for i := 0; i < len(special) && i < 3; i++ {
		rest := append([]UKey{}, fillers...)
		for j, k := range special {
			if j != i {
				rest = append(rest, k)
			}
		}
		storeShape(fmt.Sprintf("key %d first, the others later in one large batch", i), []UKey{special[i]}, rest)
	}
	// --- the real SMT: the same batch through CommitParallel and through Commit
	for _, parallel := range []bool{true, false} {
		t, err := newTree(160, false)
		if err != nil {
			panic(err)
		}
		o.Op("new 160", fmt.Sprintf("root %s nodes 3 l0 same", drv.Hex(t.smt.Root())))
		var ops []op
		for _, k := range all {
			ops = append(ops, op{k: k, val: val(k)})
		}
		mode := "seq"
		if parallel {
			mode = "par"
		}
		line := opLine(mode, ops)
		hist = append(hist, "new 160", line)
		o.Try(line)
		res := t.commit(parallel, ops)
		if res != "ok" {
			o.Op(line, res)
			o.Fail("C08:commit-failed", name+": "+mode+" commit returned "+res, hist)
			t.close()
			continue
		}
		got := t.smt.Root()
		tab, _ := t.scan()
		o.Op(line, fmt.Sprintf("root %s nodes %d l0 %s", drv.Hex(got), len(tab), tag(got, want)))
		o.Count("tie:smt:" + mode)
		if !bytes.Equal(got, want) {
			fail("SMT "+mode+" commit of one batch", got)
		}
		t.close()
	}
}
