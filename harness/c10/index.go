package c10

import (
	"bytes"
	"fmt"
	"strings"

	"github.com/canopy-network/canopy/lib"
	"github.com/canopy-network/canopy/lib/crypto"
	"github.com/canopy-network/canopy/store"

	"verifharness/drv"
)

// The indexer partition and the process-wide block cache (store/indexer.go): IndexBlock / IndexQC
// before Commit, GetBlockByHeight / GetBlockHeaderByHeight / GetBlockByHash / GetQCByHeight /
// GetTxByHash / GetTxsByHeight on the store object ("live") and on read-only views ("ro:v"), in the same
// histories as the state operations. Reference: the committed blocks as a plain versioned map.

const sigCache = "C10:block-cache-serves-uncommitted-or-stale-block"

// every index read on the store object — point or iterating — sees the index writes pending in the current block
const sigPending = "C10:index-iteration-misses-pending-writes-of-the-block"

// liveBlockAt: the block at height h as the store object must see it: the one pending in the current block,
// else the committed one
func (c *kase) liveBlockAt(h uint64) (b *refBlock, pending bool) {
	for i := len(c.pendIdx) - 1; i >= 0; i-- {
		if e := &c.pendIdx[i]; e.hasBlk && e.h == h {
			return e, true
		}
	}
	return c.refBlockAt(c.ref.version, h, false), false
}

type refBlock struct {
	ver    uint64 // version it was committed at
	h      uint64
	hash   []byte
	txs    [][]byte
	qcHash []byte
	hasBlk bool
	hasQC  bool
}

type blockObs struct {
	h    uint64
	hash []byte
	txs  [][]byte
}

func (b blockObs) String() string {
	var sb strings.Builder
	fmt.Fprintf(&sb, "blk %d %s n %d", b.h, drv.Hex(b.hash), len(b.txs))
	for _, t := range b.txs {
		sb.WriteString(" " + drv.Hex(t))
	}
	return sb.String()
}

func obsOf(b *lib.BlockResult) blockObs {
	var o blockObs
	if b == nil {
		return o
	}
	if b.BlockHeader != nil {
		o.h, o.hash = b.BlockHeader.Height, b.BlockHeader.Hash
	}
	for _, t := range b.Transactions {
		bz, _ := lib.StringToBytes(t.TxHash)
		o.txs = append(o.txs, bz)
	}
	return o
}

func h32(tag string) []byte { return crypto.Hash([]byte(tag)) }

func mkTx(h uint64, i int, hash []byte) *lib.TxResult {
	return &lib.TxResult{Sender: hash[:20], Recipient: hash[12:32], MessageType: "send", Height: h, Index: uint64(i),
		Transaction: &lib.Transaction{MessageType: "send", Signature: &lib.Signature{PublicKey: hash, Signature: hash}, CreatedHeight: h, Time: 1, Fee: 1, NetworkId: 1, ChainId: 1},
		TxHash:      lib.BytesToString(hash)}
}

// view returns the indexer to read ("live" or "ro:v") and a closer
func (c *kase) view(name string) (lib.RIndexerI, func()) {
	if name == "live" {
		return c.base, func() {}
	}
	var v uint64
	fmt.Sscanf(name, "ro:%d", &v)
	ro, err := c.base.NewReadOnly(v)
	if err != nil {
		return nil, func() {}
	}
	return ro, func() { ro.Discard() }
}

func (c *kase) viewVersion(name string) uint64 {
	if name == "live" {
		return c.ref.version
	}
	var v uint64
	fmt.Sscanf(name, "ro:%d", &v)
	return v
}

// expected: the newest committed block at height h visible at version v
func (c *kase) refBlockAt(v, h uint64, qc bool) *refBlock {
	var best *refBlock
	for i := range c.idx {
		e := &c.idx[i]
		if e.h == h && e.ver <= v && ((qc && e.hasQC) || (!qc && e.hasBlk)) && (best == nil || e.ver > best.ver) {
			best = e
		}
	}
	return best
}

func (c *kase) indexBlock(h uint64, hash []byte, txs [][]byte) {
	var trs []*lib.TxResult
	for i, t := range txs {
		trs = append(trs, mkTx(h, i, t))
	}
	line := fmt.Sprintf("iblk %d %s", h, drv.Hex(hash))
	for _, t := range txs {
		line += " " + drv.Hex(t)
	}
	res := drv.Recover(func() string {
		if err := c.base.IndexBlock(&lib.BlockResult{BlockHeader: &lib.BlockHeader{Height: h, Hash: hash, NetworkId: 1}, Transactions: trs}); err != nil {
			return "err"
		}
		return "ok"
	})
	c.op(line, res)
	c.pendIdx = append(c.pendIdx, refBlock{h: h, hash: hash, txs: txs, hasBlk: true})
}

func (c *kase) indexQC(h uint64, hash []byte) {
	res := drv.Recover(func() string {
		if err := c.base.IndexQC(&lib.QuorumCertificate{Header: &lib.View{Height: h, NetworkId: 1, ChainId: 1}, BlockHash: hash, ResultsHash: hash}); err != nil {
			return "err"
		}
		return "ok"
	})
	c.op(fmt.Sprintf("iqc %d %s", h, drv.Hex(hash)), res)
	c.pendIdx = append(c.pendIdx, refBlock{h: h, qcHash: hash, hasQC: true})
}

// reset abandons the pending block: Store.Reset() (what controller.resetFSM / a failed Commit do)
func (c *kase) reset() {
	if len(c.stack) != 0 {
		return
	}
	c.base.Reset()
	c.ref.main = []refLayer{{}}
	c.pendIdx = nil
	c.op("reset", "ok")
}

// cacheSig: a stale block served from the cache after a page query went through it
func (c *kase) cacheSig() string {
	if c.pageSince {
		return sigCache + ":page-query"
	}
	return sigCache
}

func (c *kase) purgeCache() {
	c.pageSince = false
	store.VerifPurgeBlockCache()
	c.op("purge", "ok")
}

func sameBlock(a blockObs, e *refBlock, withTxs bool) bool {
	if e == nil {
		return a.h == 0 && len(a.hash) == 0 && len(a.txs) == 0
	}
	if a.h != e.h || !bytes.Equal(a.hash, e.hash) {
		return false
	}
	if !withTxs {
		return true
	}
	if len(a.txs) != len(e.txs) {
		return false
	}
	for i := range a.txs {
		if !bytes.Equal(a.txs[i], e.txs[i]) {
			return false
		}
	}
	return true
}

// getBlockByHeight reads through the cache; on a mismatch with the committed history the cache is
// purged and the read repeated to attribute the mismatch to the cache (both steps go to the model too)
func (c *kase) getBlockByHeight(vw string, h uint64, headerOnly bool) blockObs {
	op := "gbh"
	if headerOnly {
		op = "gbhh"
	}
	read := func() blockObs {
		s, done := c.view(vw)
		defer done()
		if s == nil {
			return blockObs{}
		}
		var b *lib.BlockResult
		func() {
			defer func() { _ = recover() }()
			if headerOnly {
				b, _ = s.GetBlockHeaderByHeight(h)
			} else {
				b, _ = s.GetBlockByHeight(h)
			}
		}()
		return obsOf(b)
	}
	got := read()
	line := fmt.Sprintf("%s %s %d", op, vw, h)
	c.op(line, got.String())
	c.o.Count("oracle:block-read")
	want := c.refBlockAt(c.viewVersion(vw), h, false)
	if len(c.pendIdx) != 0 && vw == "live" {
		// the store object sees its own pending index operations
		w, pending := c.liveBlockAt(h)
		if !sameBlock(got, w, !headerOnly) {
			c.purgeCache()
			again := read()
			c.op(line, again.String())
			sig := "C10:block-read-differs-from-committed-history"
			if pending && sameBlock(blockObs{h: again.h, hash: again.hash}, w, false) {
				sig = sigPending // the pending block is found (point reads) but its transactions (iteration) are not
			}
			c.fail(sig, fmt.Sprintf("%s answered %q (and %q with the cache purged); the store has indexed, pending in the current block, %s", line, got.String(), again.String(), showRef(w)))
		}
		return got
	}
	if !sameBlock(got, want, !headerOnly) {
		sigStale := c.cacheSig()
		c.purgeCache()
		again := read()
		c.op(line, again.String())
		if sameBlock(again, want, !headerOnly) {
			c.fail(sigStale, fmt.Sprintf("%s answered %q; the committed history as of that view says %s; with the cache purged the same call answers %q", line, got.String(), showRef(want), again.String()))
		} else {
			sig := "C10:block-read-differs-from-committed-history"
			extra := c.abandonedBlock(again.hash) && (want == nil || !bytes.Equal(want.hash, again.hash))
			for _, t := range again.txs {
				if c.abandonedBlock(t) && (want == nil || !containsHash(want.txs, t)) {
					extra = true
				}
			}
			if extra && vw != "live" {
				sig = sigRolledBack
			}
			c.fail(sig, fmt.Sprintf("%s answered %q (and %q with the cache purged); committed history says %s", line, got.String(), again.String(), showRef(want)))
		}
	}
	return got
}

func containsHash(l [][]byte, h []byte) bool {
	for _, x := range l {
		if bytes.Equal(x, h) {
			return true
		}
	}
	return false
}

func showRef(e *refBlock) string {
	if e == nil {
		return "no block"
	}
	return blockObs{h: e.h, hash: e.hash, txs: e.txs}.String()
}

func (c *kase) getBlockByHash(vw string, hash []byte) {
	s, done := c.view(vw)
	defer done()
	if s == nil {
		return
	}
	var b *lib.BlockResult
	func() {
		defer func() { _ = recover() }()
		b, _ = s.GetBlockByHash(hash)
	}()
	got := obsOf(b)
	c.op(fmt.Sprintf("gbx %s %s", vw, drv.Hex(hash)), got.String())
	if len(c.pendIdx) != 0 && vw == "live" {
		return
	}
	// expected: the newest committed block with that hash visible at the view
	var want *refBlock
	v := c.viewVersion(vw)
	for i := range c.idx {
		e := &c.idx[i]
		if e.hasBlk && bytes.Equal(e.hash, hash) && e.ver <= v && (want == nil || e.ver > want.ver) {
			want = e
		}
	}
	if want != nil {
		// its transactions are whatever is indexed at that height as of the view
		want = &refBlock{h: want.h, hash: want.hash, txs: nil, hasBlk: true}
		if cur := c.refBlockAt(v, want.h, false); cur != nil {
			want.txs = cur.txs
		}
	}
	if !sameBlock(got, want, true) {
		sig := "C10:block-by-hash-differs-from-committed-history"
		if want == nil && c.abandonedBlock(got.hash) {
			sig = sigRolledBack
		}
		for _, t := range got.txs {
			if c.abandonedBlock(t) && (want == nil || !containsHash(want.txs, t)) {
				sig = sigRolledBack
			}
		}
		c.fail(sig, fmt.Sprintf("gbx %s %x answered %q, committed history says %s", vw, hash, got.String(), showRef(want)))
	}
	c.o.Count("oracle:block-by-hash")
}

func (c *kase) getQC(vw string, h uint64) {
	s, done := c.view(vw)
	defer done()
	if s == nil {
		return
	}
	var qh uint64
	var qbh []byte
	var blk blockObs
	var ntx int
	func() {
		defer func() { _ = recover() }()
		qc, err := s.GetQCByHeight(h)
		if err != nil || qc == nil {
			return
		}
		if qc.Header != nil {
			qh = qc.Header.Height
		}
		qbh = qc.BlockHash
		b := new(lib.Block)
		if lib.Unmarshal(qc.Block, b) == nil && b.BlockHeader != nil {
			blk.h, blk.hash = b.BlockHeader.Height, b.BlockHeader.Hash
			ntx = len(b.Transactions)
		}
	}()
	line := fmt.Sprintf("gqc %s %d", vw, h)
	c.op(line, fmt.Sprintf("qc %d %s blk %d %s %d", qh, drv.Hex(qbh), blk.h, drv.Hex(blk.hash), ntx))
	if len(c.pendIdx) != 0 && vw == "live" {
		return
	}
	v := c.viewVersion(vw)
	wq := c.refBlockAt(v, h, true)
	if (wq == nil && (qh != 0 || len(qbh) != 0)) || (wq != nil && (qh != h || !bytes.Equal(qbh, wq.qcHash))) {
		c.fail("C10:qc-differs-from-committed-history", fmt.Sprintf("%s answered qc %d %x", line, qh, qbh))
	}
	wb := c.refBlockAt(v, h, false)
	if !sameBlock(blockObs{h: blk.h, hash: blk.hash}, wb, false) || (wb != nil && ntx != len(wb.txs)) {
		c.fail(c.cacheSig(), fmt.Sprintf("%s attached block %d %x (%d txs); the committed history as of that view says %s", line, blk.h, blk.hash, ntx, showRef(wb)))
	}
	c.o.Count("oracle:qc-read")
}

func (c *kase) getTx(vw string, hash []byte) {
	s, done := c.view(vw)
	defer done()
	if s == nil {
		return
	}
	var got []byte
	func() {
		defer func() { _ = recover() }()
		tx, err := s.GetTxByHash(hash)
		if err == nil && tx != nil {
			got, _ = lib.StringToBytes(tx.TxHash)
		}
	}()
	c.op(fmt.Sprintf("gtx %s %s", vw, drv.Hex(hash)), "v "+drv.Hex(got))
	if len(c.pendIdx) != 0 && vw == "live" {
		return
	}
	v := c.viewVersion(vw)
	found := false
	for _, e := range c.idx {
		if e.hasBlk && e.ver <= v {
			for _, t := range e.txs {
				if bytes.Equal(t, hash) {
					found = true
				}
			}
		}
	}
	if found != (len(got) != 0) {
		c.fail("C10:tx-differs-from-committed-history", fmt.Sprintf("gtx %s %x answered %x, committed=%v", vw, hash, got, found))
	}
}

func (c *kase) getTxs(vw string, h uint64) {
	s, done := c.view(vw)
	defer done()
	if s == nil {
		return
	}
	var got [][]byte
	func() {
		defer func() { _ = recover() }()
		np, ok := s.(interface {
			GetTxsByHeightNonPaginated(uint64, bool) ([]*lib.TxResult, lib.ErrorI)
		})
		if !ok {
			return
		}
		txs, err := np.GetTxsByHeightNonPaginated(h, false)
		if err == nil {
			for _, t := range txs {
				bz, _ := lib.StringToBytes(t.TxHash)
				got = append(got, bz)
			}
		}
	}()
	res := fmt.Sprintf("n %d", len(got))
	for _, t := range got {
		res += " " + drv.Hex(t)
	}
	c.op(fmt.Sprintf("gtxs %s %d", vw, h), res)
	if vw == "live" && len(c.pendIdx) != 0 {
		if w, pending := c.liveBlockAt(h); pending {
			same := len(got) == len(w.txs)
			for i := 0; same && i < len(got); i++ {
				same = bytes.Equal(got[i], w.txs[i])
			}
			if !same {
				c.fail(sigPending, fmt.Sprintf("gtxs live %d answered %s; the block indexed for that height, pending in the current block, has %d txs", h, res, len(w.txs)))
			}
			c.o.Count("oracle:pending-txs-by-height")
		}
		return
	}
	var want [][]byte
	if e := c.refBlockAt(c.viewVersion(vw), h, false); e != nil {
		want = e.txs
	}
	for _, t := range got {
		if c.abandonedBlock(t) && !containsHash(want, t) {
			c.fail(sigRolledBack, fmt.Sprintf("gtxs %s %d answered %s; tx %x belongs to a block that was rolled back, the committed history at that height has %d txs", vw, h, res, t, len(want)))
			break
		}
	}
}

// getBlocks: Store.GetBlocks(PageParams) — a page of blocks, newest first — on the store object or a read-only
// view. The page itself is compared with the committed history (plus, on the store object, the block pending in
// the current block); what the query leaves in the process-wide cache is judged by the block reads that follow.
func (c *kase) getBlocks(vw string, pn, pp int) {
	s, done := c.view(vw)
	defer done()
	if s == nil {
		return
	}
	var got []blockObs
	total := 0
	ok := false
	func() {
		defer func() { _ = recover() }()
		page, err := s.GetBlocks(lib.PageParams{PageNumber: pn, PerPage: pp})
		if err != nil || page == nil {
			return
		}
		total = page.TotalCount
		if brs, is := page.Results.(*lib.BlockResults); is && brs != nil {
			for _, b := range *brs {
				got = append(got, obsOf(b))
			}
		}
		ok = true
	}()
	line := fmt.Sprintf("gblocks %s %d %d", vw, pn, pp)
	if !ok {
		c.op(line, "err")
		return
	}
	var parts []string
	for _, b := range got {
		parts = append(parts, b.String())
	}
	res := fmt.Sprintf("n %d total %d", len(got), total)
	if len(parts) > 0 {
		res += " | " + strings.Join(parts, " | ")
	}
	c.op(line, res)
	c.pageSince = true
	c.o.Count("oracle:page-query")
	// reference: the heights that have a block as of the view
	v := c.viewVersion(vw)
	blockAt := func(h uint64) *refBlock {
		if vw == "live" {
			b, _ := c.liveBlockAt(h)
			return b
		}
		return c.refBlockAt(v, h, false)
	}
	var oldest, newest uint64
	found := false
	note := func(e *refBlock) {
		if !e.hasBlk {
			return
		}
		if !found || e.h < oldest {
			oldest = e.h
		}
		if !found || e.h > newest {
			newest = e.h
		}
		found = true
	}
	for i := range c.idx {
		if c.idx[i].ver <= v {
			note(&c.idx[i])
		}
	}
	if vw == "live" {
		for i := range c.pendIdx {
			note(&c.pendIdx[i])
		}
	}
	wantTotal := 0
	var want []*refBlock
	if found {
		wantTotal = int(newest - oldest + 1)
		per, num := pp, pn
		if per == 0 {
			per = 10
		}
		if num == 0 {
			num = 1
		}
		for i := (num - 1) * per; i < (num-1)*per+per && i < wantTotal; i++ {
			want = append(want, blockAt(newest-uint64(i)))
		}
	}
	same := total == wantTotal && len(got) == len(want)
	for i := 0; same && i < len(got); i++ {
		same = sameBlock(got[i], want[i], true)
	}
	if !same {
		var w []string
		for _, b := range want {
			w = append(w, showRef(b))
		}
		c.fail(sigCache+":page-query", fmt.Sprintf("%s answered %q; the committed history as of that view has total %d and the page [%s]", line, res, wantTotal, strings.Join(w, " | ")))
	}
	c.o.Nontrivial(fmt.Sprintf("gblocks view=%v pn=%d pp=%d n=%d total=%d", vw == "live", pn, pp, len(got), total))
}

// pageQuery: a page query — half the time on a cold cache (purged, as after a restart) — followed by reads of
// the blocks around the bottom of the page, on the store and on read-only views
func (c *kase) pageQuery() {
	r := c.o.Rng
	if r.Intn(2) == 0 {
		c.purgeCache()
	}
	pp := 1 + r.Intn(10)
	if r.Intn(12) == 0 {
		pp = 0
	}
	total := int(c.ref.version) + 1
	pn := r.Intn(total/max(pp, 1) + 2)
	vw := c.rview()
	c.getBlocks(vw, pn, pp)
	// the block below the page, the last of the page, and a random one
	per, num := pp, pn
	if per == 0 {
		per = 10
	}
	if num == 0 {
		num = 1
	}
	top := int64(c.viewVersion(vw))
	if vw == "live" && len(c.pendIdx) != 0 {
		top++
	}
	below := top - int64(num*per)
	for _, h := range []int64{below, below + 1, int64(c.rheight())} {
		if h < 0 {
			continue
		}
		switch r.Intn(4) {
		case 0:
			c.getBlockByHeight(c.rview(), uint64(h), true)
		case 1:
			c.getQC(c.rview(), uint64(h))
		default:
			c.getBlockByHeight(c.rview(), uint64(h), false)
		}
		c.getBlockByHeight("live", uint64(h), false)
	}
}

// rview picks a view: the store itself or a read-only view at some version
func (c *kase) rview() string {
	r := c.o.Rng
	if r.Intn(2) == 0 {
		return "live"
	}
	return fmt.Sprintf("ro:%d", c.rver())
}

func (c *kase) rheight() uint64 {
	return uint64(c.o.Rng.Intn(int(c.ref.version) + 3))
}

// indexPending indexes QC and block for the next height, as the controller does before Commit
func (c *kase) indexPending() {
	r := c.o.Rng
	h := c.ref.version + 1
	c.blockSeq++
	hash := h32(fmt.Sprintf("%s/blk/%d/%d", c.name, h, c.blockSeq))
	var txs [][]byte
	for i := 0; i < r.Intn(4); i++ {
		txs = append(txs, h32(fmt.Sprintf("%s/tx/%d/%d/%d", c.name, h, c.blockSeq, i)))
	}
	c.indexQC(h, hash)
	c.indexBlock(h, hash, txs)
}

func (c *kase) randomIndexRead() {
	r := c.o.Rng
	vw, h := c.rview(), c.rheight()
	switch r.Intn(9) {
	case 7, 8:
		c.pageQuery()
	case 0, 1, 2:
		c.getBlockByHeight(vw, h, false)
	case 3:
		c.getBlockByHeight(vw, h, true)
	case 4:
		c.getQC(vw, h)
	case 5:
		if len(c.idx) > 0 {
			e := c.idx[r.Intn(len(c.idx))]
			if e.hasBlk {
				c.getBlockByHash(vw, e.hash)
				if len(e.txs) > 0 {
					c.getTx(vw, e.txs[r.Intn(len(e.txs))])
				}
			}
		}
	default:
		c.getTxs(vw, h)
	}
}

// commitIndex moves the pending index entries into the committed reference (called after Commit)
func (c *kase) commitIndex() {
	for _, e := range c.pendIdx {
		e.ver = c.ref.version
		c.idx = append(c.idx, e)
	}
	c.pendIdx = nil
}

// abandonedBlock: hash is the hash of a block (or of one of its txs) that a Rollback erased
func (c *kase) abandonedBlock(hash []byte) bool {
	if len(hash) == 0 {
		return false
	}
	for _, e := range c.abandonedIdx {
		if bytes.Equal(e.hash, hash) {
			return true
		}
		for _, t := range e.txs {
			if bytes.Equal(t, hash) {
				return true
			}
		}
	}
	return false
}

func (c *kase) rollbackIndex() {
	var keep []refBlock
	for _, e := range c.idx {
		if e.ver <= c.ref.version {
			keep = append(keep, e)
		} else {
			c.abandonedIdx = append(c.abandonedIdx, e)
		}
	}
	c.idx = keep
	c.pendIdx = nil
}

// ---- the fixed sequences of the block-cache finding ------------------------------------------------

// pendingIndexWitness: the fixed sequences of the finding "iteration through the block store's indexer does not
// show the index writes pending in the current block" (the block-level indexer Txn was built with sort=false).
// Part A is in the model's vocabulary (block + txs, then the per-height tx list and the block, cache purged);
// parts B and C use the checkpoint / double-signer API exactly as the FSM does — through per-transaction nested
// stores, flushed into the block's store — and are checked by the oracle only.
func pendingIndexWitness(o *drv.Out) {
	store.VerifPurgeBlockCache()
	c := newCase(o, "witness-index-iteration-sees-pending-writes", [][]byte{{1, 'a'}}, [][]byte{nil})
	defer c.close()
	fail := func(desc string) {
		c.o.Fail(sigPending, desc, map[string]any{"case": c.name, "ops": append([]string{}, c.history...)})
	}
	// A: a block is being applied: QC and block with two txs indexed, not committed
	c.set([]byte{1, 'a'}, []byte{1})
	hash, t1, t2 := h32("pend/blk/1"), h32("pend/tx/1"), h32("pend/tx/2")
	c.indexQC(1, hash)
	c.indexBlock(1, hash, [][]byte{t1, t2})
	c.purgeCache()
	c.getTxs("live", 1)
	c.getBlockByHeight("live", 1, false)
	c.getTx("live", t1)
	// B: transactions of the same block index a checkpoint and a double signer through their nested stores
	s := c.base
	step := func(what string, ok bool) {
		c.history = append(c.history, what)
		c.o.Count("oracle:pending-index-iteration")
		if !ok {
			fail(what + ": not so")
		}
	}
	cps := func(r lib.RIndexerI, chain uint64) (hs []uint64) {
		l, _ := r.GetAllCheckpoints(chain)
		for _, x := range l {
			hs = append(hs, x.Height)
		}
		return
	}
	eq := func(a []uint64, b ...uint64) bool {
		if len(a) != len(b) {
			return false
		}
		for i := range a {
			if a[i] != b[i] {
				return false
			}
		}
		return true
	}
	addr := bytes.Repeat([]byte{0xD7}, 20)
	hasDS := func(r lib.RIndexerI) bool {
		l, _ := r.GetDoubleSigners()
		for _, d := range l {
			if bytes.Equal(d.Id, addr) {
				return true
			}
		}
		return false
	}
	n := s.NewTxn()
	_ = n.IndexCheckpoint(2, &lib.Checkpoint{Height: 10, BlockHash: h32("cp10")})
	_ = n.IndexDoubleSigner(addr, 1)
	step("tx1 in NewTxn(): IndexCheckpoint(2,10) IndexDoubleSigner; its own GetAllCheckpoints(2) = [10]", eq(cps(n, 2), 10))
	_ = n.Flush()
	step("after tx1.Flush(): the block store's GetAllCheckpoints(2) = [10]", eq(cps(s, 2), 10))
	mr, _ := s.GetMostRecentCheckpoint(2)
	step("the block store's GetMostRecentCheckpoint(2).Height = 10 (the ordering check of the next certificate result)", mr != nil && mr.Height == 10)
	step("the block store's GetDoubleSigners() lists the double signer", hasDS(s))
	n2 := s.NewTxn()
	step("tx2 in NewTxn(): its GetAllCheckpoints(2) = [10]", eq(cps(n2, 2), 10))
	_ = n2.DeleteCheckpointsForChain(2)
	_ = n2.Flush()
	step("after tx2: DeleteCheckpointsForChain(2), Flush(): the block store's GetAllCheckpoints(2) = []", eq(cps(s, 2)))
	n3 := s.NewTxn()
	_ = n3.IndexCheckpoint(2, &lib.Checkpoint{Height: 20, BlockHash: h32("cp20")})
	_ = n3.IndexCheckpoint(2, &lib.Checkpoint{Height: 30, BlockHash: h32("cp30")})
	_ = n3.Flush()
	c.commit()
	step("after Commit: GetAllCheckpoints(2) = [20 30], the double signer is listed", eq(cps(s, 2), 20, 30) && hasDS(s))
	// C: pending entries over committed ones: order, no duplicates, overwrites, deletes
	c.set([]byte{1, 'a'}, []byte{2})
	n4 := s.NewTxn()
	_ = n4.IndexCheckpoint(2, &lib.Checkpoint{Height: 25, BlockHash: h32("cp25")})
	_ = n4.IndexCheckpoint(2, &lib.Checkpoint{Height: 30, BlockHash: h32("cp30'")})
	_ = n4.IndexCheckpoint(2, &lib.Checkpoint{Height: 5, BlockHash: h32("cp5")})
	_ = n4.Flush()
	step("next block, tx: IndexCheckpoint(2,25) (2,30)' (2,5), Flush(): the block store's GetAllCheckpoints(2) = [5 20 25 30], each once, in order", eq(cps(s, 2), 5, 20, 25, 30))
	h30, _ := s.GetCheckpoint(2, 30)
	l30, _ := s.GetAllCheckpoints(2)
	step("… and (2,30) reads the pending hash, by Get and by iteration", bytes.Equal(h30, h32("cp30'")) && len(l30) == 4 && bytes.Equal(l30[3].BlockHash, h32("cp30'")))
	mr, _ = s.GetMostRecentCheckpoint(2)
	step("GetMostRecentCheckpoint(2).Height = 30", mr != nil && mr.Height == 30)
	step("a read-only view of the committed version still has [20 30]", func() bool {
		ro, e := s.NewReadOnly(1)
		if e != nil {
			return false
		}
		defer ro.Discard()
		return eq(cps(ro, 2), 20, 30)
	}())
	n5 := s.NewTxn()
	_ = n5.DeleteCheckpointsForChain(2)
	step("tx: DeleteCheckpointsForChain(2): its own GetAllCheckpoints(2) = []", eq(cps(n5, 2)))
	_ = n5.Flush()
	mr, _ = s.GetMostRecentCheckpoint(2)
	step("after Flush(): the block store's GetAllCheckpoints(2) = [] (pending deletes hide the committed entries), most recent height 0", eq(cps(s, 2)) && mr != nil && mr.Height == 0)
	c.commit()
	step("after Commit: GetAllCheckpoints(2) = []", eq(cps(s, 2)))
}

func cacheWitnesses(o *drv.Out) {
	mk := func(name string) *kase {
		store.VerifPurgeBlockCache()
		return newCase(o, name, [][]byte{{1, 'a'}}, [][]byte{nil})
	}
	commit := func(c *kase, txs ...[]byte) {
		c.set([]byte{1, 'a'}, []byte{byte(c.ref.version + 1)})
		h := c.ref.version + 1
		c.blockSeq++
		hash := h32(fmt.Sprintf("%s/%d/%d", c.name, h, c.blockSeq))
		c.indexQC(h, hash)
		c.indexBlock(h, hash, txs)
		c.commit()
	}
	// (a) a historical view's miss poisons the cache for a committed height
	c := mk("blockcache-a-historical-miss-poisons-committed-height")
	commit(c)
	commit(c)
	for i := uint64(1000); i < 1064; i++ { // evict height 2 (misses are cached too); a restart does the same
		c.getBlockByHeight("live", i, false)
	}
	c.getBlockByHeight("ro:1", 2, false)
	c.getBlockByHeight("live", 2, false) // the store's LoadBlock(height-1): empty block for committed height 2
	c.close()
	// (b) a read-only view at v sees a block above v
	c = mk("blockcache-b-view-sees-block-above-its-version")
	commit(c)
	commit(c)
	c.getBlockByHeight("ro:1", 2, false)
	c.close()
	// (c) IndexBlock, then the commit is abandoned
	c = mk("blockcache-c-abandoned-commit-block-is-served")
	commit(c)
	c.indexBlock(2, h32("abandoned"), nil)
	c.reset()
	c.getBlockByHeight("live", 2, false)
	c.getBlockByHeight("ro:1", 2, false)
	c.close()
	// (d) a header-only read replaces the block by one without transactions
	c = mk("blockcache-d-header-read-drops-transactions")
	commit(c, h32("tx-d-0"), h32("tx-d-1"))
	c.purgeCache()
	c.getBlockByHeight("live", 1, true)
	c.getBlockByHeight("live", 1, false)
	c.close()
	// (f) two stores (two databases) in one process share the cache: oracle only
	c = mk("blockcache-f-two-stores-share-the-cache")
	commit(c)
	other, err := store.NewStoreInMemory(lib.NewNullLogger())
	if err == nil {
		b, _ := other.(*store.Store).GetBlockByHeight(1)
		if got := obsOf(b); got.h != 0 || len(got.hash) != 0 {
			c.fail(sigCache, fmt.Sprintf("a second Store on an EMPTY database answers GetBlockByHeight(1) = %q (the first store's block)", got.String()))
		}
		store.VerifPurgeBlockCache()
		_ = other.Close()
	}
	c.op("purge", "ok")
	c.close()
	// (g) the store object reads its own PENDING height (IndexBlock done, Commit not yet) after the
	// IndexBlock entry left the cache: the indexer txn has sort=false, so the per-height tx iteration does
	// not see the pending txs; the block is cached without them and served after the commit
	c = mk("blockcache-g-live-read-of-pending-height")
	c.set([]byte{1, 'a'}, []byte{1})
	c.indexQC(1, h32("g1"))
	c.indexBlock(1, h32("g1"), [][]byte{h32("tx-g-0")})
	c.purgeCache()
	c.getBlockByHeight("live", 1, false)
	c.commit()
	c.getBlockByHeight("live", 1, false)
	c.getBlockByHeight("ro:1", 1, false)
	c.close()
	// rollback then a different block at the same height: fine (Rollback purges the cache)
	c = mk("blockcache-rollback-recommit")
	commit(c)
	commit(c)
	c.rollback(1)
	c.getBlockByHeight("live", 2, false)
	commit(c)
	c.getBlockByHeight("live", 2, false)
	c.getBlockByHeight("ro:1", 1, false)
	c.close()
	// (h) page queries: the block just below a page is loaded header-only by setBlocksTook; on a cold cache
	// (restart, or block older than the 64 entries) nothing of that may end up under the block's hash key
	c = mk("blockcache-h-page-query-on-cold-cache")
	commit(c, h32("tx-h-1a"), h32("tx-h-1b"))
	commit(c, h32("tx-h-2"))
	commit(c)
	c.purgeCache()
	c.getBlocks("live", 1, 1) // page = block 3; the block below the page is block 2
	c.getBlockByHeight("live", 2, false)
	c.getBlockByHeight("ro:2", 2, false)
	c.getQC("live", 2)
	c.purgeCache()
	c.getBlocks("ro:2", 1, 1) // page = block 2; below: block 1
	c.getBlockByHeight("live", 1, false)
	c.getBlocks("live", 2, 2) // page 2 of size 2 = block 1
	c.getBlocks("live", 0, 0)
	for i := 0; i < 70; i++ { // age the first blocks out of the cache
		commit(c)
	}
	c.getBlocks("live", 36, 2) // bottom of the page is block 2, below it block 1: both cold
	c.getBlockByHeight("live", 1, false)
	c.getBlockByHeight("live", 2, false)
	c.close()
}
