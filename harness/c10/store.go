// Package c10 drives the real store.Store (in-memory pebble) through op sequences
// set/del/get/iter/nest/flush/discard/pop/copy/commit/rollback/readat/iterat/hold and records every
// answer for the line-by-line comparison with the Lean model (lean/Driver/C10.lean). Independently of
// the model, every answer is checked against a plain Go versioned map (ref.go): the property's oracle.
package c10

import (
	"bytes"
	"encoding/binary"
	"encoding/hex"
	"fmt"
	"sort"
	"strings"

	"github.com/canopy-network/canopy/fsm"
	"github.com/canopy-network/canopy/lib"
	"github.com/canopy-network/canopy/lib/crypto"
	"github.com/canopy-network/canopy/store"

	"verifharness/drv"
)

type kv struct{ k, v []byte }

func showIter(kvs []kv) string {
	var sb strings.Builder
	fmt.Fprintf(&sb, "n %d", len(kvs))
	for _, e := range kvs {
		sb.WriteString(" " + drv.Hex(e.k) + "=" + drv.Hex(e.v))
	}
	return sb.String()
}

// ---- the real code -------------------------------------------------------------------------------

func realGet(s lib.RStoreI, k []byte) (res string, val []byte, panicked bool) {
	defer func() {
		if r := recover(); r != nil {
			res, val, panicked = "panic", nil, true
		}
	}()
	v, err := s.Get(k)
	if err != nil {
		return "err", nil, false
	}
	return "v " + drv.Hex(v), v, false
}

func realIter(s lib.RStoreI, p []byte, rev bool) (res string, out []kv, panicked bool) {
	defer func() {
		if r := recover(); r != nil {
			res, out, panicked = "panic", nil, true
		}
	}()
	var it lib.IteratorI
	var err lib.ErrorI
	if rev {
		it, err = s.RevIterator(p)
	} else {
		it, err = s.Iterator(p)
	}
	if err != nil {
		return "err", nil, false
	}
	defer it.Close()
	for ; it.Valid(); it.Next() {
		out = append(out, kv{bytes.Clone(it.Key()), bytes.Clone(it.Value())})
		if len(out) > 100000 {
			return "runaway", out, false
		}
	}
	return showIter(out), out, false
}

// ---- case driver -----------------------------------------------------------------------------------

type kase struct {
	o       *drv.Out
	name    string
	wf      bool // WFKeys: every key ever written is non-empty, ≤ 245 bytes, and no key is a proper byte-prefix of another
	base    *store.Store
	stack   []lib.StoreI // nested NewTxn() stores above base (last = innermost)
	copies  []lib.StoreI
	held    []lib.StoreI
	ref     *ref
	keys    [][]byte // key pool
	pfxs    [][]byte // iteration prefixes
	written map[string]bool
	rec     map[uint64][]kv // full forward scan as of v, taken when v was the latest committed version
	history []string
	dead    bool
	// indexer partition (index.go)
	idx          []refBlock // committed index entries
	pendIdx      []refBlock // indexed on the store object, not yet committed
	blockSeq     int
	abandonedIdx []refBlock // index entries erased by a Rollback
	histV        *uint64    // set while a historical (NewReadOnly(v)) read is being checked
	pageSince    bool       // a GetBlocks page query went through the block cache since it was last purged
	longKeys     bool       // the case's keys may exceed the 245-byte bound of WFKeys (ff-run cases: see ffRunPool)
}

const sigRolledBack = "C10:rolled-back-entry-visible-in-history"

// rolledBack: (k, val) — or, with present=false, the absence of k — is what a write erased by a Rollback
// would show to a reader at version v if it came back
func (c *kase) rolledBack(k, val []byte, present bool, v uint64) bool {
	for _, e := range c.ref.abandoned[string(k)] {
		if e.v <= v && ((present && !e.del && bytes.Equal(e.val, val)) || (!present && e.del)) {
			return true
		}
	}
	return false
}

// histSig refines the signature of a mismatch of a historical read: does the answer contain an entry that was
// rolled back (and the versioned map, i.e. the history after rollback + recommit, does not)?
func (c *kase) histSig(def string, got, exp []kv, keys ...[]byte) string {
	if c.histV == nil {
		return def
	}
	has := func(l []kv, e kv, withVal bool) bool {
		for _, x := range l {
			if bytes.Equal(x.k, e.k) && (!withVal || bytes.Equal(x.v, e.v)) {
				return true
			}
		}
		return false
	}
	for _, g := range got {
		if !has(exp, g, true) && c.rolledBack(g.k, g.v, true, *c.histV) {
			return sigRolledBack
		}
	}
	for _, e := range exp {
		if !has(got, e, false) && c.rolledBack(e.k, nil, false, *c.histV) {
			return sigRolledBack
		}
	}
	return def
}

func newCase(o *drv.Out, name string, keys, pfxs [][]byte) *kase {
	cfg := lib.DefaultConfig()
	cfg.StoreConfig.LSSCompactionInterval = 0 // compaction is triggered explicitly (and synchronously) by the driver
	cfg.StoreConfig.IndexByAccount = false    // sender/recipient indexes are not modelled
	store.VerifPurgeBlockCache()              // the block cache is process-wide: a case starts like a fresh process
	sI, err := store.NewStoreInMemory(lib.NewNullLogger(), cfg)
	if err != nil {
		panic(err)
	}
	o.Case(name)
	return &kase{o: o, name: name, wf: true, base: sI.(*store.Store), ref: newRef(), keys: keys, pfxs: pfxs,
		written: map[string]bool{}, rec: map[uint64][]kv{}}
}

func (c *kase) close() {
	for _, h := range c.held {
		h.Discard()
	}
	for _, h := range c.copies {
		h.Discard()
	}
	func() {
		defer func() { _ = recover() }()
		_ = c.base.Close()
	}()
}

func (c *kase) top() lib.StoreI {
	if len(c.stack) == 0 {
		return c.base
	}
	return c.stack[len(c.stack)-1]
}

func (c *kase) op(line, result string) {
	c.o.Op(line, result)
	c.history = append(c.history, line+" -> "+result)
	c.o.Count("op:" + strings.SplitN(line, " ", 2)[0])
}

func (c *kase) fail(sig, desc string) {
	h := c.history
	if len(h) > 400 {
		h = h[len(h)-400:]
	}
	c.o.Fail(sig, desc, map[string]any{"case": c.name, "ops": append([]string{}, h...)})
}

// keyMax: the key length up to which the oracle applies. WFKeys bounds keys by 245 bytes so that key ++ version
// stays below prefixEnd(prefix) = prefix ++ 257×0xFF whatever the key's bytes are; the ff-run cases use keys of up
// to 258 bytes that stay below it because a byte < 0xFF comes before position 257.
func (c *kase) keyMax() int {
	if c.longKeys {
		return 260
	}
	return 245
}

// ffRun: k has a component of length 255 (length byte 0xFF) that starts with at least 8 0xFF bytes
func ffRun(k []byte) bool {
	for i := 0; i < len(k); {
		l := int(k[i])
		if i+1+l > len(k) {
			return false
		}
		if l == 255 && bytes.HasPrefix(k[i+1:], bytes.Repeat([]byte{0xFF}, 8)) {
			return true
		}
		i += 1 + l
	}
	return false
}

// iterSig refines the signature of an iteration mismatch: is a key with such a component missing or extra?
func (c *kase) iterSig(def string, got, exp []kv) string {
	def = c.histSig(def, got, exp)
	if def == sigRolledBack {
		return def
	}
	in := func(l []kv, k []byte) bool {
		for _, x := range l {
			if bytes.Equal(x.k, k) {
				return true
			}
		}
		return false
	}
	for _, e := range exp {
		if !in(got, e.k) && ffRun(e.k) {
			return def + ":ff-run-component"
		}
	}
	for _, g := range got {
		if !in(exp, g.k) && ffRun(g.k) {
			return def + ":ff-run-component"
		}
	}
	return def
}

// ffRunPool: length-prefixed, prefix-free key tuples whose last component is 255 bytes long — its length byte is
// 0xFF — and starts with a run of 8, 9, 17, 18, 100 or 254 0xFF bytes, directly under the empty prefix and under a
// parent segment, next to ordinary siblings. Such a key begins, right after the scanned prefix, with 9 … 255 0xFF
// bytes: it sorts after prefix ++ 9×0xFF and before prefixEnd(prefix) = prefix ++ 257×0xFF.
func ffRunPool(o *drv.Out) (keys, pfxs [][]byte) {
	r := o.Rng
	comp := func(run int) []byte {
		b := append([]byte{0xFF}, bytes.Repeat([]byte{0xFF}, run)...)
		for len(b) < 256 {
			b = append(b, byte(r.Intn(255))) // < 0xFF
		}
		return b
	}
	parents := [][]byte{{}, {1, 'p'}, {2, 0xFF, 0xFF}}
	for _, par := range parents {
		for _, run := range []int{8, 9, 17, 18, 100, 254} {
			if r.Intn(3) > 0 {
				keys = append(keys, append(append([]byte{}, par...), comp(run)...))
			}
		}
		if len(par) > 0 {
			for i := 0; i < 3; i++ {
				keys = append(keys, append(append([]byte{}, par...), 1, byte(r.Intn(256))))
			}
			keys = append(keys, append(append([]byte{}, par...), 9, 0xFF, 0xFF, 0xFF, 0xFF, 0xFF, 0xFF, 0xFF, 0xFF, 0xFF))
			pfxs = append(pfxs, par)
		}
	}
	keys = append(keys, []byte{1, 'q'}, []byte{3, 0xFF, 0xFF, 0xFE})
	keys = dedup(keys)
	pfxs = append(pfxs, nil, nil, []byte{1, 'q'})
	for _, k := range keys {
		if ffRun(k) && r.Intn(3) == 0 {
			pfxs = append(pfxs, k) // a prefix that is itself a key
		}
	}
	return
}

// noteKey maintains the WFKeys flag (decidable on the concrete key set)
func (c *kase) noteKey(k []byte) {
	if c.written[string(k)] {
		return
	}
	if len(k) > c.keyMax() || len(k) == 0 {
		c.wf = false
	}
	for o := range c.written {
		if strings.HasPrefix(o, string(k)) || strings.HasPrefix(string(k), o) {
			c.wf = false
		}
	}
	c.written[string(k)] = true
}

func keyOK(k []byte) bool {
	for i := 0; i < len(k); {
		l := int(k[i])
		i++
		if i+l > len(k) {
			return false
		}
		i += l
	}
	return true
}

func (c *kase) checkGet(what string, line, got string, exp *[]byte, panicked bool, k []byte, foundInLayer bool) {
	if panicked {
		c.o.Count("res:panic")
		if keyOK(k) {
			c.fail("C10:panic-on-wellformed-key", what+" panicked on a length-prefixed key: "+line)
		}
		return
	}
	if !c.wf {
		c.o.Count("oracle:skipped-not-WFKeys")
		return
	}
	want := "v -"
	if exp != nil {
		want = "v " + drv.Hex(*exp)
	}
	if got != want {
		var g, e []kv
		if got != "v -" {
			bz, _ := hex.DecodeString(strings.TrimPrefix(got, "v "))
			g = []kv{{k, bz}}
		} else if c.histV != nil && c.rolledBack(k, nil, true, *c.histV) {
			g = []kv{{k, nil}} // "-" is also what a rolled-back write of the empty value reads as
		}
		if exp != nil {
			e = []kv{{k, *exp}}
		}
		c.fail(c.histSig("C10:get-differs-from-versioned-map", g, e), fmt.Sprintf("%s: %s answered %q, versioned map says %q", what, line, got, want))
	}
	c.o.Count("oracle:get-checked")
}

// dbClean: the key set is not WFKeys as a whole, but the keys STORED in the database (committed, not rolled
// back) that an iteration over prefix p can meet are: non-empty, at most 245 bytes, none of them a proper
// byte-prefix of another, none a proper byte-prefix of p. The recorded iterator finding is about stored keys only (the VersionedIterator's seek
// past prefixEnd(userKey)); pending, uncommitted keys go through the TxnIterator merge, which must be exact
// whatever their prefix relations — in particular when a pending key equals the iteration prefix.
func (c *kase) dbClean(p []byte) bool {
	// pending keys may have any shape but the degenerate ones WFKeys also excludes: the empty key (it ends a
	// transaction's forward run at once) and keys longer than 245 bytes
	layers := append([]refLayer{}, c.ref.main...)
	for _, h := range c.ref.copies {
		layers = append(layers, h.layers...)
	}
	for _, l := range layers {
		for k := range l {
			if len(k) == 0 || len(k) > c.keyMax() {
				return false
			}
		}
	}
	var under []string
	stored := map[string]bool{}
	for k := range c.ref.hist {
		stored[k] = true
	}
	for k := range c.ref.abandoned { // a rollback does not reach entries of over-long keys: count them as stored
		stored[k] = true
	}
	for k := range stored {
		if strings.HasPrefix(k, string(p)) {
			if len(k) == 0 || len(k) > c.keyMax() {
				return false // the other clauses of WFKeys: non-empty, at most 245 bytes
			}
			under = append(under, k)
		} else if strings.HasPrefix(string(p), k) {
			return false // a stored key is a proper prefix of the iteration prefix
		}
	}
	for _, h := range append(append([]*refHandle{}, c.ref.copies...), c.ref.held...) {
		for k := range h.hist {
			if _, ok := c.ref.hist[k]; !ok && (strings.HasPrefix(k, string(p)) || strings.HasPrefix(string(p), k)) {
				return false // a snapshot still holds keys the store has rolled back: keep to the simple case
			}
		}
	}
	sort.Strings(under)
	for i := 1; i < len(under); i++ {
		if strings.HasPrefix(under[i], under[i-1]) { // sorted: a proper prefix is followed by its extensions
			return false
		}
	}
	return true
}

func (c *kase) checkIter(what string, line string, got []kv, exp []kv, panicked bool, p []byte, rev bool) {
	if panicked {
		c.o.Count("res:panic")
		if keyOK(p) {
			c.fail("C10:panic-on-wellformed-key", what+" panicked on a length-prefixed prefix: "+line)
		}
		return
	}
	if !c.wf && !c.dbClean(p) {
		c.o.Count("oracle:skipped-not-WFKeys")
		return
	}
	if !c.wf {
		c.o.Count("oracle:iter-checked-stored-keys-prefix-free-under-prefix")
	}
	c.o.Count("oracle:iter-checked")
	// ordered, duplicate-free
	for i := 1; i < len(got); i++ {
		cmp := bytes.Compare(got[i-1].k, got[i].k)
		if cmp == 0 {
			c.fail("C10:iter-duplicate-key", fmt.Sprintf("%s: %s yields %x twice", what, line, got[i].k))
			return
		}
		if (cmp > 0) != rev {
			c.fail("C10:iter-out-of-order", fmt.Sprintf("%s: %s yields %x before %x", what, line, got[i-1].k, got[i].k))
			return
		}
	}
	// complete and exact
	if len(got) != len(exp) {
		c.fail(c.iterSig("C10:iter-incomplete-or-extra", got, exp), fmt.Sprintf("%s: %s yields %d entries, versioned map has %d: got %s want %s", what, line, len(got), len(exp), showIter(got), showIter(exp)))
		return
	}
	for i := range got {
		if !bytes.Equal(got[i].k, exp[i].k) {
			c.fail(c.iterSig("C10:iter-incomplete-or-extra", got, exp), fmt.Sprintf("%s: %s entry %d is %x, versioned map has %x", what, line, i, got[i].k, exp[i].k))
			return
		}
		if !bytes.Equal(got[i].v, exp[i].v) {
			c.fail(c.iterSig("C10:iter-wrong-value", got, exp), fmt.Sprintf("%s: %s key %x has value %x, versioned map has %x", what, line, got[i].k, got[i].v, exp[i].v))
			return
		}
	}
}

func b2s(b bool) string {
	if b {
		return "1"
	}
	return "0"
}

// ---- operations ------------------------------------------------------------------------------------

func (c *kase) set(k, v []byte) {
	c.noteKey(k)
	if err := c.top().Set(bytes.Clone(k), bytes.Clone(v)); err != nil {
		c.op(fmt.Sprintf("set %s %s", drv.Hex(k), drv.Hex(v)), "err")
		return
	}
	c.ref.main[len(c.ref.main)-1][string(k)] = refOp{val: bytes.Clone(v)}
	c.op(fmt.Sprintf("set %s %s", drv.Hex(k), drv.Hex(v)), "ok")
}

func (c *kase) del(k []byte) {
	c.noteKey(k)
	if err := c.top().Delete(bytes.Clone(k)); err != nil {
		c.op("del "+drv.Hex(k), "err")
		return
	}
	c.ref.main[len(c.ref.main)-1][string(k)] = refOp{del: true}
	c.op("del "+drv.Hex(k), "ok")
}

func (c *kase) get(k []byte) {
	line := "get " + drv.Hex(k)
	res, _, p := realGet(c.top(), k)
	c.op(line, res)
	exp, found := c.ref.get(c.ref.main, c.ref.hist, maxVer, k)
	c.checkGet("Get", line, res, exp, p, k, found)
	c.o.Nontrivial(fmt.Sprintf("get depth=%d hit=%v ver=%d", len(c.stack), exp != nil, c.ref.nver(k)))
}

func (c *kase) iter(p []byte, rev bool) {
	line := fmt.Sprintf("iter %s %s", drv.Hex(p), b2s(rev))
	res, out, pn := realIter(c.top(), p, rev)
	c.op(line, res)
	c.checkIter("Iterator", line, out, c.ref.iter(c.ref.main, c.ref.hist, maxVer, p, rev), pn, p, rev)
	c.o.Nontrivial(fmt.Sprintf("iter depth=%d rev=%v n=%d pend=%d ver=%d", len(c.stack), rev, len(out), c.ref.pending(), c.ref.version))
}

func (c *kase) nest() {
	c.stack = append(c.stack, c.top().NewTxn())
	c.ref.main = append(c.ref.main, refLayer{})
	c.op("nest", fmt.Sprintf("ok %d", len(c.stack)+1))
}

func (c *kase) flush() {
	if len(c.stack) == 0 {
		return
	}
	if err := c.top().Flush(); err != nil {
		c.op("flush", "err")
		return
	}
	n := len(c.ref.main)
	for k, op := range c.ref.main[n-1] {
		c.ref.main[n-2][k] = op
	}
	c.ref.main[n-1] = refLayer{}
	c.op("flush", "ok")
}

func (c *kase) discard() {
	if len(c.stack) == 0 {
		return
	}
	c.top().Discard()
	c.ref.main[len(c.ref.main)-1] = refLayer{}
	c.op("discard", "ok")
}

func (c *kase) pop() {
	if len(c.stack) == 0 {
		return
	}
	c.stack = c.stack[:len(c.stack)-1]
	c.ref.main = c.ref.main[:len(c.ref.main)-1]
	c.op("pop", fmt.Sprintf("ok %d", len(c.stack)+1))
}

func (c *kase) commit() {
	if len(c.stack) != 0 {
		return
	}
	res := drv.Recover(func() string {
		if _, err := c.base.Commit(); err != nil {
			return "err"
		}
		return fmt.Sprintf("ok %d", c.base.Version())
	})
	c.op("commit", res)
	if res == "panic" {
		c.dead = true
		return
	}
	c.ref.commit()
	c.commitIndex()
	if res != fmt.Sprintf("ok %d", c.ref.version) {
		c.fail("C10:commit-version", fmt.Sprintf("Commit answered %q, expected version %d", res, c.ref.version))
	}
	// record the view as of the new version while it is the latest (LSS path of NewReadOnly)
	v := c.ref.version
	ro, err := c.base.NewReadOnly(v)
	if err == nil {
		_, out, _ := realIter(ro, nil, false)
		c.rec[v] = out
		ro.Discard()
	}
}

func (c *kase) rollback(t uint64) {
	if len(c.stack) != 0 {
		return
	}
	res := drv.Recover(func() string {
		if err := c.base.Rollback(t); err != nil {
			return "err"
		}
		return fmt.Sprintf("ok %d", c.base.Version())
	})
	c.op(fmt.Sprintf("rollback %d", t), res)
	if res == "panic" {
		c.dead = true
		c.fail("C10:rollback-panic", fmt.Sprintf("Rollback(%d) panicked", t))
		return
	}
	old := c.ref.version
	want := c.ref.rollback(t)
	if res != want {
		c.fail("C10:rollback-result", fmt.Sprintf("Rollback(%d) answered %q, expected %q", t, res, want))
	}
	for v := range c.rec {
		if v > c.ref.version {
			delete(c.rec, v)
		}
	}
	if res == want && res != "err" && t < old {
		c.rollbackIndex() // a real rollback drops the later index entries and the pending ones
	}
}

func (c *kase) copyStore() {
	cp, err := c.base.Copy()
	if err != nil {
		c.op("copy", "err")
		return
	}
	c.copies = append(c.copies, cp)
	c.ref.copies = append(c.ref.copies, &refHandle{hist: c.ref.cloneHist(), v: maxVer, layers: []refLayer{cloneLayer(c.ref.main[0])}})
	c.op("copy", fmt.Sprintf("ok %d", len(c.copies)-1))
}

func (c *kase) cset(i int, k, v []byte) {
	c.noteKey(k)
	_ = c.copies[i].Set(bytes.Clone(k), bytes.Clone(v))
	c.ref.copies[i].layers[0][string(k)] = refOp{val: bytes.Clone(v)}
	c.op(fmt.Sprintf("cset %d %s %s", i, drv.Hex(k), drv.Hex(v)), "ok")
}

func (c *kase) cdel(i int, k []byte) {
	c.noteKey(k)
	_ = c.copies[i].Delete(bytes.Clone(k))
	c.ref.copies[i].layers[0][string(k)] = refOp{del: true}
	c.op(fmt.Sprintf("cdel %d %s", i, drv.Hex(k)), "ok")
}

func (c *kase) cget(i int, k []byte) {
	line := fmt.Sprintf("cget %d %s", i, drv.Hex(k))
	res, _, p := realGet(c.copies[i], k)
	c.op(line, res)
	h := c.ref.copies[i]
	exp, found := c.ref.get(h.layers, h.hist, h.v, k)
	c.checkGet("copy.Get", line, res, exp, p, k, found)
}

func (c *kase) citer(i int, p []byte, rev bool) {
	line := fmt.Sprintf("citer %d %s %s", i, drv.Hex(p), b2s(rev))
	res, out, pn := realIter(c.copies[i], p, rev)
	c.op(line, res)
	h := c.ref.copies[i]
	c.checkIter("copy.Iterator", line, out, c.ref.iter(h.layers, h.hist, h.v, p, rev), pn, p, rev)
	c.o.Nontrivial(fmt.Sprintf("citer rev=%v n=%d behind=%d", rev, len(out), c.ref.version))
}

func (c *kase) readAt(v uint64, k []byte) {
	line := fmt.Sprintf("readat %d %s", v, drv.Hex(k))
	ro, err := c.base.NewReadOnly(v)
	if err != nil {
		c.op(line, "err")
		return
	}
	res, _, p := realGet(ro, k)
	ro.Discard()
	c.op(line, res)
	exp, _ := c.ref.get(nil, c.ref.hist, v, k)
	c.histV = &v
	c.checkGet("NewReadOnly.Get", line, res, exp, p, k, false)
	c.histV = nil
	c.o.Nontrivial(fmt.Sprintf("readat back=%d hit=%v nver=%d", int64(c.ref.version)-int64(v), exp != nil, c.ref.nver(k)))
}

func (c *kase) iterAt(v uint64, p []byte, rev bool) []kv {
	line := fmt.Sprintf("iterat %d %s %s", v, drv.Hex(p), b2s(rev))
	ro, err := c.base.NewReadOnly(v)
	if err != nil {
		c.op(line, "err")
		return nil
	}
	res, out, pn := realIter(ro, p, rev)
	ro.Discard()
	c.op(line, res)
	c.histV = &v
	c.checkIter("NewReadOnly.Iterator", line, out, c.ref.iter(nil, c.ref.hist, v, p, rev), pn, p, rev)
	c.histV = nil
	c.o.Nontrivial(fmt.Sprintf("iterat back=%d rev=%v n=%d", int64(c.ref.version)-int64(v), rev, len(out)))
	return out
}

func (c *kase) hold(v uint64) {
	ro, err := c.base.NewReadOnly(v)
	if err != nil {
		c.op(fmt.Sprintf("hold %d", v), "err")
		return
	}
	c.held = append(c.held, ro)
	c.ref.held = append(c.ref.held, &refHandle{hist: c.ref.cloneHist(), v: v})
	c.op(fmt.Sprintf("hold %d", v), fmt.Sprintf("ok %d", len(c.held)-1))
}

func (c *kase) hget(i int, k []byte) {
	line := fmt.Sprintf("hget %d %s", i, drv.Hex(k))
	res, _, p := realGet(c.held[i], k)
	c.op(line, res)
	h := c.ref.held[i]
	exp, _ := c.ref.get(nil, h.hist, h.v, k)
	c.checkGet("held NewReadOnly.Get", line, res, exp, p, k, false)
}

func (c *kase) hiter(i int, p []byte, rev bool) {
	line := fmt.Sprintf("hiter %d %s %s", i, drv.Hex(p), b2s(rev))
	res, out, pn := realIter(c.held[i], p, rev)
	c.op(line, res)
	h := c.ref.held[i]
	c.checkIter("held NewReadOnly.Iterator", line, out, c.ref.iter(nil, h.hist, h.v, p, rev), pn, p, rev)
}

// compact forces memtable flush + range compaction so that historical reads go through SSTs and the
// block-property version filter; invisible to the model (the `version` op keeps the streams aligned).
func (c *kase) compact() {
	if len(c.stack) != 0 {
		return
	}
	_ = c.base.DB().Flush()
	if c.o.Rng.Intn(2) == 0 {
		_ = c.base.CompactAll(c.base.Version())
	}
	c.o.Count("db:flush+compact")
	c.op("version", fmt.Sprintf("ok %d", c.base.Version()))
}

// flushOnly moves the memtable into an sstable of its own WITHOUT compacting: what was written since the last
// flush (e.g. the physical deletions of a Rollback) then sits in a different sstable from what it covers.
func (c *kase) flushOnly() {
	_ = c.base.DB().Flush()
	c.o.Count("db:flush-only")
	c.op("version", fmt.Sprintf("ok %d", c.base.Version()))
}

// block commits one block the way the node does: a few state writes, QC + block indexed, Commit. Keys in
// `avoid` are not written. Returns the keys it set or deleted.
func (c *kase) block(avoid map[string]bool) (touched [][]byte) {
	r := c.o.Rng
	for i, n := 0, 1+r.Intn(5); i < n; i++ {
		k := c.rkey()
		if avoid[string(k)] {
			continue
		}
		if r.Intn(4) == 0 {
			c.del(k)
		} else {
			c.set(k, c.rval())
		}
		touched = append(touched, k)
	}
	if r.Intn(5) > 0 {
		c.indexPending()
	}
	c.commit()
	return
}

// pendingPrefixKey: pending (uncommitted) writes where one key IS the iteration prefix and others extend it —
// a fresh key family, nothing of it stored — iterated forward and in reverse through one or two nested
// transactions, then discarded. Iteration over pending operations must be exact for any key shape.
func (c *kase) pendingPrefixKey() {
	if c.dead {
		return
	}
	r := c.o.Rng
	c.o.Count("scenario:pending-key-equals-iteration-prefix")
	seg := drv.Bytes(r, 3+r.Intn(3))
	K := append([]byte{byte(len(seg))}, seg...)
	for k := range c.ref.hist { // fresh: nothing stored under or above it
		if strings.HasPrefix(k, string(K)) || strings.HasPrefix(string(K), k) {
			return
		}
	}
	depth := len(c.stack)
	savedWF, before := c.wf, map[string]bool{}
	for k := range c.written {
		before[k] = true
	}
	c.nest()
	c.set(K, c.rval())
	ext := [][]byte{append(append([]byte{}, K...), 1, byte(r.Intn(256))), append(append([]byte{}, K...), 2, 0, byte(r.Intn(256))), append(append([]byte{}, K...), 1, 0xff)}
	for i, e := range ext {
		if i == 0 || r.Intn(3) > 0 {
			c.set(e, c.rval())
		}
	}
	if r.Intn(2) == 0 {
		c.nest()
		c.set(append(append([]byte{}, K...), 1, byte(r.Intn(256))), c.rval())
		if r.Intn(3) == 0 {
			c.del(ext[0])
		}
	}
	for _, rev := range []bool{true, false} {
		c.iter(K, rev)
		c.iter(ext[0], rev)
		c.iter(K[:0], rev)
	}
	for len(c.stack) > depth {
		c.discard()
		c.pop()
	}
	// the keys never reached the store: the key set of the case is what it was
	c.wf, c.written = savedWF, before
}

// rewind is the offline-rollback interleaving: some heights committed and flushed into an sstable —
// Rollback(t) — flush again, no compaction (the rollback's deletions now sit in their own sstable) — the
// abandoned heights re-committed with a DIFFERENT key set (some keys of the abandoned blocks are not written
// again) and different blocks — then every version, including the re-committed ones, is read back through
// NewReadOnly: point reads of the keys the abandoned blocks wrote, full and prefix scans in both directions,
// blocks by height and by hash (the abandoned hashes too), QCs and txs by height. The history after
// rollback + recommit is the new history: nothing of the abandoned heights may be visible at any version.
func (c *kase) rewind() {
	if len(c.stack) != 0 || len(c.held) != 0 || len(c.copies) != 0 || c.dead {
		return
	}
	r := c.o.Rng
	c.o.Count("scenario:flush-rollback-flush-recommit")
	for i, n := 0, 2+r.Intn(3); i < n; i++ {
		c.block(nil)
	}
	c.flushOnly()
	tip := c.ref.version
	k := 1 + r.Intn(min(3, int(tip)-1))
	t := tip - uint64(k)
	// what the heights to be abandoned wrote
	var lost [][]byte
	for key, vs := range c.ref.hist {
		for _, e := range vs {
			if e.v > t {
				lost = append(lost, []byte(key))
				break
			}
		}
	}
	sort.Slice(lost, func(i, j int) bool { return bytes.Compare(lost[i], lost[j]) < 0 })
	var lostBlocks []refBlock
	for _, e := range c.idx {
		if e.ver > t && e.hasBlk {
			lostBlocks = append(lostBlocks, e)
		}
	}
	c.rollback(t)
	if c.dead || c.ref.version != t {
		return
	}
	c.flushOnly()
	// recommit: never rewrite a (non-empty) random part of what the abandoned heights wrote
	avoid := map[string]bool{}
	for i, key := range lost {
		if i == 0 || r.Intn(2) == 0 {
			avoid[string(key)] = true
		}
	}
	for i := 0; i < k+1 && !c.dead; i++ {
		c.block(avoid)
		if r.Intn(3) == 0 {
			c.flushOnly()
		}
	}
	if c.dead {
		return
	}
	// read everything back, at every version
	for v := uint64(1); v <= c.ref.version; v++ {
		for _, key := range lost {
			c.readAt(v, key)
		}
		c.iterAt(v, nil, false)
		c.iterAt(v, c.rpfx(), r.Intn(2) == 0)
		vw := fmt.Sprintf("ro:%d", v)
		for h := t; h <= c.ref.version; h++ {
			c.getBlockByHeight(vw, h, false)
			c.getQC(vw, h)
			c.getTxs(vw, h)
		}
		for _, b := range lostBlocks {
			c.getBlockByHash(vw, b.hash)
			for _, tx := range b.txs {
				c.getTx(vw, tx)
			}
		}
	}
	for _, b := range lostBlocks {
		c.getBlockByHash("live", b.hash)
		c.getBlockByHeight("live", b.h, false)
	}
	c.checkHistory()
}

// checkHistory re-reads every recorded committed version through NewReadOnly (now the HSS path for all
// but the latest) and compares with what was observed when that version was the latest.
func (c *kase) checkHistory() {
	vs := make([]uint64, 0, len(c.rec))
	for v := range c.rec {
		vs = append(vs, v)
	}
	sort.Slice(vs, func(i, j int) bool { return vs[i] < vs[j] })
	for _, v := range vs {
		if v > c.ref.version {
			continue
		}
		now := c.iterAt(v, nil, false)
		was := c.rec[v]
		same := len(now) == len(was)
		for i := 0; same && i < len(now); i++ {
			same = bytes.Equal(now[i].k, was[i].k) && bytes.Equal(now[i].v, was[i].v)
		}
		if !same && c.wf {
			vv := v
			c.histV = &vv
			sig := c.histSig("C10:history-changed", now, was)
			c.histV = nil
			c.fail(sig, fmt.Sprintf("view as of committed version %d changed (now at version %d): was %s, now %s", v, c.ref.version, showIter(was), showIter(now)))
		}
		c.o.Count("oracle:history-rechecked")
	}
}

// ---- generators ------------------------------------------------------------------------------------

func be8(u uint64) []byte { b := make([]byte, 8); binary.BigEndian.PutUint64(b, u); return b }

func addr(b []byte) crypto.AddressI { return crypto.NewAddressFromBytes(b) }

// fsmPool builds a pool of real FSM keys with heavily shared prefixes, and the prefixes the FSM iterates.
func fsmPool(o *drv.Out) (keys, pfxs [][]byte) {
	r := o.Rng
	nAddr := 2 + r.Intn(5)
	addrs := make([][]byte, nAddr)
	stem := drv.Bytes(r, 20)
	for i := range addrs {
		a := bytes.Clone(stem)
		// differ only in the last few bytes, sometimes by 0x00/0xFF
		for j := 17 + r.Intn(3); j < 20; j++ {
			a[j] = []byte{0, 1, 0xFE, 0xFF, byte(r.Intn(256))}[r.Intn(5)]
		}
		addrs[i] = a
	}
	ids := []uint64{0, 1, 2, 255, 256, 1 << 32, ^uint64(0)}
	pick := func() uint64 { return ids[r.Intn(len(ids))] }
	pfxs = [][]byte{nil, fsm.AccountPrefix(), fsm.ValidatorPrefix(), fsm.PoolPrefix(), fsm.SupplyPrefix(),
		lib.JoinLenPrefix([]byte{4}), lib.JoinLenPrefix([]byte{5}), lib.JoinLenPrefix([]byte{11})}
	for _, a := range addrs {
		keys = append(keys, fsm.KeyForAccount(addr(a)))
		if r.Intn(2) == 0 {
			keys = append(keys, fsm.KeyForValidator(addr(a)))
		}
		if r.Intn(2) == 0 {
			id, st := pick(), pick()
			keys = append(keys, fsm.KeyForCommittee(id, addr(a), st), fsm.KeyForDelegate(id, addr(a), st))
			pfxs = append(pfxs, fsm.CommitteePrefix(id), fsm.DelegatePrefix(id))
		}
		if r.Intn(3) == 0 {
			h := pick()
			keys = append(keys, fsm.KeyForUnstaking(h, addr(a)), fsm.KeyForPaused(h, addr(a)))
			pfxs = append(pfxs, fsm.UnstakingPrefix(h), fsm.PausedPrefix(h))
		}
		if r.Intn(3) == 0 {
			keys = append(keys, fsm.KeyForNonSigner(a))
		}
	}
	for i := 0; i < 3; i++ {
		keys = append(keys, fsm.KeyForPool(pick()))
	}
	keys = append(keys, fsm.SupplyPrefix(), fsm.KeyForParams("val"), fsm.KeyForParams("fee"), fsm.KeyForLockedBatch(pick()), fsm.KeyForNextBatch(pick()))
	pfxs = append(pfxs, fsm.NonSignerPrefix(), lib.JoinLenPrefix([]byte{15}), lib.JoinLenPrefix([]byte{15}, []byte{1}))
	return dedup(keys), dedup(pfxs)
}

func dedup(in [][]byte) (out [][]byte) {
	seen := map[string]bool{}
	for _, k := range in {
		if !seen[string(k)] {
			seen[string(k)] = true
			out = append(out, k)
		}
	}
	return
}

// rawPool builds adversarial keys out of raw segments. fixedArity=true keeps the key set prefix-free
// (every key has the same number of segments under a given first segment), otherwise keys that are
// byte-prefixes of each other are produced on purpose.
func rawPool(o *drv.Out, fixedArity bool) (keys, pfxs [][]byte) {
	r := o.Rng
	seg := func() []byte {
		switch r.Intn(8) {
		case 0:
			return []byte{}
		case 1:
			return []byte{0xFF}
		case 2:
			return bytes.Repeat([]byte{0xFF}, 1+r.Intn(9))
		case 3:
			return []byte{0}
		case 4:
			if fixedArity {
				return drv.Bytes(r, 60+r.Intn(20)) // long segments, still within the 245-byte key bound
			}
			return drv.Bytes(r, 254+r.Intn(2)) // 254/255-byte segments: length byte 0xFE/0xFF
		default:
			return []byte{byte('a' + r.Intn(3))}
		}
	}
	firsts := [][]byte{{1}, {2}, {0xFF}, {}}
	arity := map[string]int{}
	n := 6 + r.Intn(10)
	for i := 0; i < n; i++ {
		f := firsts[r.Intn(len(firsts))]
		k := 1 + r.Intn(3)
		if fixedArity {
			if a, ok := arity[string(f)]; ok {
				k = a
			} else {
				arity[string(f)] = k
			}
		}
		segs := [][]byte{f}
		for j := 0; j < k; j++ {
			segs = append(segs, seg())
		}
		key := lib.JoinLenPrefix(segs...)
		if len(key) > 245 && fixedArity {
			continue
		}
		keys = append(keys, key)
		pfxs = append(pfxs, lib.JoinLenPrefix(segs[:1+r.Intn(len(segs))]...))
	}
	if !fixedArity {
		keys = append(keys, []byte{}, lib.JoinLenPrefix([]byte{1}), bytes.Repeat([]byte{0xFF}, 256))
	}
	pfxs = append(pfxs, nil, lib.JoinLenPrefix([]byte{1}), lib.JoinLenPrefix([]byte{0xFF}))
	return dedup(keys), dedup(pfxs)
}

func (c *kase) rkey() []byte { return c.keys[c.o.Rng.Intn(len(c.keys))] }
func (c *kase) rpfx() []byte { return c.pfxs[c.o.Rng.Intn(len(c.pfxs))] }
func (c *kase) rval() []byte {
	r := c.o.Rng
	switch r.Intn(6) {
	case 0:
		return nil
	case 1:
		return []byte{0}
	case 2:
		return []byte{1}
	default:
		return drv.Bytes(r, 1+r.Intn(5))
	}
}

func (c *kase) rver() uint64 {
	r := c.o.Rng
	v := c.ref.version
	switch r.Intn(8) {
	case 0:
		return v
	case 1:
		return v + 1 + uint64(r.Intn(3))
	case 2:
		return 0
	default:
		if v == 0 {
			return 0
		}
		return 1 + uint64(r.Intn(int(v)))
	}
}

// run executes `n` random ops.
func (c *kase) run(n int, malformed bool) {
	r := c.o.Rng
	rewindAt := -1
	if r.Intn(3) == 0 {
		rewindAt = r.Intn(n/2 + 1)
	}
	for i := 0; i < n && !c.dead; i++ {
		if i == rewindAt {
			// close what is open, then the rollback interleaving
			for len(c.stack) > 0 {
				c.pop()
			}
			c.rewind()
		}
		x := r.Intn(1000)
		switch {
		case x < 270:
			c.set(c.rkey(), c.rval())
		case x < 370:
			c.del(c.rkey())
		case x < 470:
			c.get(c.rkey())
		case x < 600:
			c.iter(c.rpfx(), r.Intn(2) == 0)
		case x < 625:
			if len(c.stack) < 3 {
				c.nest()
			}
		case x < 650:
			c.flush()
		case x < 662:
			c.discard()
		case x < 690:
			if r.Intn(2) == 0 {
				c.flush()
			}
			c.pop()
		case x < 790:
			for len(c.stack) > 0 {
				if r.Intn(3) > 0 {
					c.flush()
				}
				c.pop()
			}
			switch r.Intn(10) {
			case 0: // a block is indexed and the commit abandoned (resetFSM / failed Commit)
				c.indexPending()
				c.reset()
			case 1, 2: // state-only commit
			default:
				c.indexPending()
			}
			c.commit()
			if r.Intn(6) == 0 {
				c.checkHistory()
			}
		case x < 815:
			c.randomIndexRead()
		case x < 820:
			if malformed && len(c.stack) < 2 {
				c.pendingPrefixKey()
			} else {
				c.randomIndexRead()
			}
		case x < 850:
			c.readAt(c.rver(), c.rkey())
		case x < 910:
			c.iterAt(c.rver(), c.rpfx(), r.Intn(2) == 0)
		case x < 925:
			if len(c.copies) < 3 {
				c.copyStore()
			}
		case x < 955:
			if len(c.copies) > 0 {
				j := r.Intn(len(c.copies))
				switch r.Intn(4) {
				case 0:
					c.cset(j, c.rkey(), c.rval())
				case 1:
					c.cdel(j, c.rkey())
				case 2:
					c.cget(j, c.rkey())
				default:
					c.citer(j, c.rpfx(), r.Intn(2) == 0)
				}
			}
		case x < 965:
			if len(c.held) < 3 {
				c.hold(c.rver())
			}
		case x < 980:
			if len(c.held) > 0 {
				j := r.Intn(len(c.held))
				if r.Intn(2) == 0 {
					c.hget(j, c.rkey())
				} else {
					c.hiter(j, c.rpfx(), r.Intn(2) == 0)
				}
			}
		case x < 990:
			c.compact()
		default:
			if len(c.stack) == 0 && len(c.held) == 0 && len(c.copies) == 0 {
				if r.Intn(3) == 0 {
					c.rewind()
					continue
				}
				t := c.rver()
				c.rollback(t)
				c.checkHistory()
			} else if malformed {
				// malformed (not length-prefixed) key or prefix: the real code panics, the model says so
				bad := []byte{5, 1, 2}
				if r.Intn(2) == 0 {
					c.get(bad)
				} else {
					c.iter(bad, r.Intn(2) == 0)
				}
			}
		}
	}
	if !c.dead {
		for len(c.stack) > 0 {
			c.pop()
		}
		c.checkHistory()
	}
}

// witness replays, on the real code, the concrete input on which iteration is wrong when WFKeys does
// not hold: one stored key is a proper byte-prefix of another (Props/C10.lean: iter_wrong_without_WFKeys).
func witness(o *drv.Out) {
	K, B, C := []byte{1, 'a'}, []byte{1, 'a', 1, 'b'}, []byte{1, 'a', 1, 'c'}
	c := newCase(o, "witness-key-is-prefix-of-key", [][]byte{K, B, C}, [][]byte{K})
	defer c.close()
	c.set(K, []byte{0x11})
	c.set(B, []byte{0x22})
	c.set(C, []byte{0x33})
	c.iter(K, false)
	c.commit()
	line := "iter 0161 0"
	res, out, _ := realIter(c.base, K, false)
	c.op(line, res)
	exp := c.ref.iter(c.ref.main, c.ref.hist, maxVer, K, false)
	c.get(B)
	c.iter(K, true)
	c.set(K, []byte{0x12})
	c.commit()
	c.iterAt(1, K, false)
	c.iterAt(1, K, true)
	o.Extra["wfkeys_witness"] = map[string]any{
		"keys":         []string{drv.Hex(K), drv.Hex(B), drv.Hex(C)},
		"observed":     showIter(out),
		"versionedmap": showIter(exp),
	}
	if len(out) != len(exp) {
		c.o.Fail("C10:iter-drops-keys-when-a-stored-key-is-a-byte-prefix-of-another",
			fmt.Sprintf("after Set(%x) Set(%x) Set(%x) Commit, Iterator(%x) yields %s; a versioned map yields %s (forward seek skips to prefixEnd(%x), past every key that extends it)", K, B, C, K, showIter(out), showIter(exp), K),
			map[string]any{"case": c.name, "ops": c.history})
	}
}

// Run is the C10 driver entry point.
func Run(o *drv.Out) {
	nFsm, nRaw, nAdv, ops := 90, 40, 40, 90
	if o.Tier == "thorough" || o.Search {
		nFsm, nRaw, nAdv, ops = 500, 250, 200, 260
	}
	witness(o)
	cacheWitnesses(o)
	pendingIndexWitness(o)
	for i := 0; i < nFsm; i++ {
		keys, pfxs := fsmPool(o)
		c := newCase(o, fmt.Sprintf("fsm-%d", i), keys, pfxs)
		c.run(ops/2+o.Rng.Intn(ops), false)
		if i < 2 {
			o.Sample(strings.Join(c.history[:min(len(c.history), 6)], " ; "))
		}
		c.close()
	}
	for i := 0; i < max(6, nRaw/6); i++ {
		keys, pfxs := ffRunPool(o)
		c := newCase(o, fmt.Sprintf("ffrun-%d", i), keys, pfxs)
		c.longKeys = true
		c.run(ops/2+o.Rng.Intn(ops), false)
		if !c.wf {
			o.Count("case:ffrun-not-WFKeys")
		}
		c.close()
	}
	for i := 0; i < nRaw; i++ {
		keys, pfxs := rawPool(o, true)
		c := newCase(o, fmt.Sprintf("rawfixed-%d", i), keys, pfxs)
		c.run(ops/2+o.Rng.Intn(ops), true)
		c.close()
	}
	for i := 0; i < nAdv; i++ {
		keys, pfxs := rawPool(o, false)
		c := newCase(o, fmt.Sprintf("rawadv-%d", i), keys, pfxs)
		c.run(ops/2+o.Rng.Intn(ops), true)
		if !c.wf {
			o.Count("case:not-WFKeys")
		}
		c.close()
	}
}
