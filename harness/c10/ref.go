package c10

import (
	"bytes"
	"fmt"
	"sort"
	"strings"
)

// ref is the oracle: a simple versioned map written with plain Go maps and sort, independent of the
// Lean model and of the store's own data structures.

const maxVer = ^uint64(0)

type refVer struct {
	v   uint64
	val []byte
	del bool
}

type refOp struct {
	val []byte
	del bool
}

type refLayer map[string]refOp

type refHandle struct {
	hist   map[string][]refVer
	v      uint64
	layers []refLayer
}

type ref struct {
	abandoned map[string][]refVer // committed writes erased by a Rollback (never to be seen again)
	hist      map[string][]refVer // committed writes per key, ascending version
	version   uint64
	main      []refLayer // main[0] = the store's own pending writes, last = innermost nested txn
	copies    []*refHandle
	held      []*refHandle
}

func newRef() *ref {
	return &ref{hist: map[string][]refVer{}, abandoned: map[string][]refVer{}, main: []refLayer{{}}}
}

func cloneLayer(l refLayer) refLayer {
	o := refLayer{}
	for k, v := range l {
		o[k] = v
	}
	return o
}

func (r *ref) cloneHist() map[string][]refVer {
	o := map[string][]refVer{}
	for k, v := range r.hist {
		o[k] = append([]refVer{}, v...)
	}
	return o
}

func (r *ref) nver(k []byte) int { return len(r.hist[string(k)]) }

func (r *ref) pending() (n int) {
	for _, l := range r.main {
		n += len(l)
	}
	return
}

// base: value of k as of version v (nil = absent or deleted)
func base(hist map[string][]refVer, v uint64, k string) *[]byte {
	var best *refVer
	for i := range hist[k] {
		e := &hist[k][i]
		if e.v <= v && (best == nil || e.v > best.v) {
			best = e
		}
	}
	if best == nil || best.del {
		return nil
	}
	val := best.val
	if val == nil {
		val = []byte{}
	}
	return &val
}

// get: innermost layer first; found reports whether some layer decided
func (r *ref) get(layers []refLayer, hist map[string][]refVer, v uint64, k []byte) (val *[]byte, found bool) {
	for i := len(layers) - 1; i >= 0; i-- {
		if op, ok := layers[i][string(k)]; ok {
			if op.del {
				return nil, true
			}
			x := op.val
			if x == nil {
				x = []byte{}
			}
			return &x, true
		}
	}
	return base(hist, v, string(k)), false
}

func (r *ref) iter(layers []refLayer, hist map[string][]refVer, v uint64, p []byte, rev bool) (out []kv) {
	keys := map[string]bool{}
	for k := range hist {
		keys[k] = true
	}
	for _, l := range layers {
		for k := range l {
			keys[k] = true
		}
	}
	for k := range keys {
		if !strings.HasPrefix(k, string(p)) {
			continue
		}
		if val, _ := r.get(layers, hist, v, []byte(k)); val != nil {
			out = append(out, kv{[]byte(k), *val})
		}
	}
	sort.Slice(out, func(i, j int) bool {
		if rev {
			return bytes.Compare(out[i].k, out[j].k) > 0
		}
		return bytes.Compare(out[i].k, out[j].k) < 0
	})
	return
}

func (r *ref) commit() {
	r.version++
	for k, op := range r.main[0] {
		r.hist[k] = append(r.hist[k], refVer{v: r.version, val: op.val, del: op.del})
	}
	r.main = []refLayer{{}}
}

func (r *ref) rollback(t uint64) string {
	if t == 0 || t > r.version {
		return "err"
	}
	if t == r.version {
		return fmt.Sprintf("ok %d", r.version)
	}
	for k, vs := range r.hist {
		var keep []refVer
		for _, e := range vs {
			if e.v <= t {
				keep = append(keep, e)
			} else {
				r.abandoned[k] = append(r.abandoned[k], e)
			}
		}
		if len(keep) == 0 {
			delete(r.hist, k)
		} else {
			r.hist[k] = keep
		}
	}
	r.version = t
	r.main = []refLayer{{}}
	return fmt.Sprintf("ok %d", t)
}
