// Package c09 samples the pebble assumption of the C09 model by fault enumeration: the real
// store.Store runs a chain of block commits (state writes + IndexQC + IndexBlock + Commit) on pebble
// opened on a crashable in-memory file system; at many file-system operation boundaries — during and
// between commits, with several fractions of unsynced data surviving — the file system is cloned as
// after a crash, reopened with pebble.Open + store.NewStoreWithDB, compared with the uncrashed run at
// the height it reopens at (Version, Root, full state scan, historical scans, indexed blocks and QCs),
// and the chain is continued from there. Every observation also goes through the Lean model
// (lean/Driver/C09.lean): the database as a list of applied batches, a crash as a prefix.
package c09

import (
	"bytes"
	"encoding/binary"
	"fmt"
	"math/rand"
	randv2 "math/rand/v2"
	"sort"
	"strings"
	"sync"

	"github.com/canopy-network/canopy/fsm"
	"github.com/canopy-network/canopy/lib"
	"github.com/canopy-network/canopy/lib/crypto"
	"github.com/canopy-network/canopy/store"
	"github.com/cockroachdb/pebble/v2"
	"github.com/cockroachdb/pebble/v2/vfs"
	"github.com/cockroachdb/pebble/v2/vfs/errorfs"

	"verifharness/drv"
)

type kv struct{ k, v []byte }

func kindName(k errorfs.OpKind) string {
	switch k {
	case errorfs.OpCreate:
		return "create"
	case errorfs.OpLink:
		return "link"
	case errorfs.OpRemove, errorfs.OpRemoveAll:
		return "remove"
	case errorfs.OpRename:
		return "rename"
	case errorfs.OpReuseForWrite:
		return "reuse"
	case errorfs.OpMkdirAll:
		return "mkdir"
	case errorfs.OpFileWrite, errorfs.OpFileWriteAt:
		return "write"
	case errorfs.OpFileSync, errorfs.OpFileSyncData, errorfs.OpFileSyncTo:
		return "sync"
	case errorfs.OpFileFlush:
		return "flush"
	case errorfs.OpFilePreallocate:
		return "preallocate"
	case errorfs.OpFileClose:
		return "close"
	}
	return fmt.Sprintf("op%d", int(k))
}

func showScan(kvs []kv) string {
	var sb strings.Builder
	fmt.Fprintf(&sb, "n %d", len(kvs))
	for _, e := range kvs {
		sb.WriteString(" " + drv.Hex(e.k) + "=" + drv.Hex(e.v))
	}
	return sb.String()
}

func be8(u uint64) []byte { b := make([]byte, 8); binary.BigEndian.PutUint64(b, u); return b }

// pebbleOpts mirrors store.NewStore's options (same format version, block-property collector and
// level options), on the given FS, with a small memtable so that flushes, WAL rotations and manifest
// edits happen within a short chain.
func pebbleOpts(fs vfs.FS) *pebble.Options {
	lvl := pebble.LevelOptions{BlockSize: 4 << 10, IndexBlockSize: 4 << 10}
	return &pebble.Options{
		FS:                      fs,
		MemTableSize:            96 << 10,
		L0CompactionThreshold:   2,
		L0StopWritesThreshold:   12,
		FormatMajorVersion:      pebble.FormatColumnarBlocks,
		Levels:                  [7]pebble.LevelOptions{lvl, lvl, lvl, lvl, lvl, lvl, lvl},
		BlockPropertyCollectors: store.VerifBlockPropertyCollectors(),
		Logger:                  lib.NewNullLogger(),
	}
}

// block describes the deterministic content of block h of a case
type block struct {
	h    uint64
	sets []kv
	dels [][]byte
	hash []byte
}

func mkBlock(caseSeed int64, h uint64, keys [][]byte) block {
	r := rand.New(rand.NewSource(caseSeed*1000003 + int64(h)))
	b := block{h: h, hash: crypto.Hash(append([]byte("blk"), be8(uint64(caseSeed)*7919+h)...))}
	n := 3 + r.Intn(12)
	seen := map[string]bool{}
	for i := 0; i < n; i++ {
		k := keys[r.Intn(len(keys))]
		if seen[string(k)] {
			continue
		}
		seen[string(k)] = true
		if r.Intn(5) == 0 {
			b.dels = append(b.dels, k)
		} else {
			v := make([]byte, 1+r.Intn(160))
			r.Read(v)
			b.sets = append(b.sets, kv{k, v})
		}
	}
	return b
}

func (b block) opLine(root []byte) string {
	var sb strings.Builder
	sb.WriteString("blk")
	for _, e := range b.sets {
		sb.WriteString(" set:" + drv.Hex(e.k) + "=" + drv.Hex(e.v))
	}
	for _, k := range b.dels {
		sb.WriteString(" del:" + drv.Hex(k))
	}
	// the model's indexer entries: block-by-height -> hash, qc-by-height -> block hash
	sb.WriteString(" idx:" + drv.Hex(be8(b.h)) + "=" + drv.Hex(b.hash))
	sb.WriteString(" idx:" + drv.Hex(append([]byte{'q'}, be8(b.h)...)) + "=" + drv.Hex(b.hash))
	sb.WriteString(" root=" + drv.Hex(root))
	return sb.String()
}

// commit applies block b to the real store exactly as controller.CommitCertificate does on the store:
// state writes, IndexQC, IndexBlock, Commit.
func commit(s *store.Store, b block) (root []byte, err error) {
	defer func() {
		if r := recover(); r != nil {
			err = fmt.Errorf("panic: %v", r)
		}
	}()
	for _, e := range b.sets {
		if e := s.Set(e.k, e.v); e != nil {
			return nil, e
		}
	}
	for _, k := range b.dels {
		if e := s.Delete(k); e != nil {
			return nil, e
		}
	}
	qc := &lib.QuorumCertificate{Header: &lib.View{Height: b.h, NetworkId: 1, ChainId: 1}, BlockHash: b.hash, ResultsHash: b.hash}
	if e := s.IndexQC(qc); e != nil {
		return nil, e
	}
	br := &lib.BlockResult{BlockHeader: &lib.BlockHeader{Height: b.h, Hash: b.hash, NetworkId: 1}}
	if e := s.IndexBlock(br); e != nil {
		return nil, e
	}
	root, e := s.Commit()
	if e != nil {
		return nil, e
	}
	return root, nil
}

func scan(s lib.RStoreI) (out []kv, err error) {
	defer func() {
		if r := recover(); r != nil {
			err = fmt.Errorf("panic: %v", r)
		}
	}()
	it, e := s.Iterator(nil)
	if e != nil {
		return nil, e
	}
	defer it.Close()
	for ; it.Valid(); it.Next() {
		out = append(out, kv{bytes.Clone(it.Key()), bytes.Clone(it.Value())})
	}
	return
}

func sameScan(a, b []kv) bool {
	if len(a) != len(b) {
		return false
	}
	for i := range a {
		if !bytes.Equal(a[i].k, b[i].k) || !bytes.Equal(a[i].v, b[i].v) {
			return false
		}
	}
	return true
}

type clone struct {
	fs      *vfs.MemFS
	started int    // blocks whose commit had started when the clone was taken
	done    int    // blocks whose Commit() had returned
	op      string // the file-system operation the crash precedes
	pct     int
}

// recorded uncrashed run
type record struct {
	roots  [][]byte // roots[h] for h>=1
	states [][]kv   // states[h] = full state scan after block h (states[0] = empty)
}

func runCase(o *drv.Out, ci int, nBlocks int, maxClones int) {
	caseSeed := o.Seed*131 + int64(ci)
	r := o.Rng
	// key pool: real FSM keys
	var keys [][]byte
	for i := 0; i < 10+r.Intn(10); i++ {
		a := make([]byte, 20)
		r.Read(a)
		keys = append(keys, fsm.KeyForAccount(crypto.NewAddressFromBytes(a)))
		if i%3 == 0 {
			keys = append(keys, fsm.KeyForValidator(crypto.NewAddressFromBytes(a)), fsm.KeyForCommittee(uint64(i%2+1), crypto.NewAddressFromBytes(a), uint64(1000+i)))
		}
	}
	keys = append(keys, fsm.SupplyPrefix(), fsm.KeyForPool(1), fsm.KeyForPool(2))
	blocks := make([]block, nBlocks+1)
	for h := 1; h <= nBlocks; h++ {
		blocks[h] = mkBlock(caseSeed, uint64(h), keys)
	}

	mem := vfs.NewCrashableMem()
	var mu sync.Mutex
	started, done := 0, 0
	var clones []clone
	opCount := 0
	stride := 1 + r.Intn(4)
	pcts := []int{0, 0, 30, 60, 100}
	crng := rand.New(rand.NewSource(caseSeed))
	armed := false
	inj := errorfs.InjectorFunc(func(op errorfs.Op) error {
		if op.Kind.ReadOrWrite() != errorfs.OpIsWrite {
			return nil
		}
		mu.Lock()
		defer mu.Unlock()
		if !armed {
			return nil
		}
		opCount++
		if opCount%stride != 0 || len(clones) >= maxClones {
			return nil
		}
		pct := pcts[crng.Intn(len(pcts))]
		cfg := vfs.CrashCloneCfg{UnsyncedDataPercent: pct}
		if pct > 0 {
			cfg.RNG = randv2.New(randv2.NewPCG(uint64(caseSeed), uint64(opCount)))
		}
		clones = append(clones, clone{fs: mem.CrashClone(cfg), started: started, done: done, op: kindName(op.Kind), pct: pct})
		return nil
	})
	fs := errorfs.Wrap(mem, inj)
	db, err := pebble.Open("db", pebbleOpts(fs))
	if err != nil {
		o.Fail("C09:open-failed", err.Error(), nil)
		return
	}
	cfg := lib.DefaultConfig()
	cfg.StoreConfig.LSSCompactionInterval = 0
	s, e := store.NewStoreWithDB(cfg, db, nil, lib.NewNullLogger())
	if e != nil {
		o.Fail("C09:open-failed", e.Error(), nil)
		return
	}
	rec := record{roots: make([][]byte, nBlocks+1), states: make([][]kv, nBlocks+1)}
	mu.Lock()
	armed = true
	mu.Unlock()
	for h := 1; h <= nBlocks; h++ {
		mu.Lock()
		started = h
		mu.Unlock()
		root, err := commit(s, blocks[h])
		if err != nil {
			o.Fail("C09:commit-failed", fmt.Sprintf("block %d: %v", h, err), nil)
			return
		}
		mu.Lock()
		done = h
		mu.Unlock()
		rec.roots[h] = root
		st, err := scan(s)
		if err != nil {
			o.Fail("C09:scan-failed", err.Error(), nil)
			return
		}
		rec.states[h] = st
		// between commits: sometimes force a memtable flush (SST + manifest + WAL rotation)
		if r.Intn(4) == 0 {
			_ = db.Flush()
			o.Count("between:db.Flush")
		}
		// a crash exactly between commits, nothing in flight
		mu.Lock()
		if len(clones) < maxClones+nBlocks {
			clones = append(clones, clone{fs: mem.CrashClone(vfs.CrashCloneCfg{UnsyncedDataPercent: 100, RNG: randv2.New(randv2.NewPCG(uint64(caseSeed), uint64(h)))}), started: h, done: h, op: "between-commits", pct: 100})
		}
		mu.Unlock()
	}
	mu.Lock()
	armed = false
	cl := append([]clone{}, clones...)
	mu.Unlock()
	_ = s.Close()
	o.Extra["c09_fs_write_ops_last_case"] = opCount

	for i, c := range cl {
		checkClone(o, fmt.Sprintf("crash-%d-%d@%s/started%d/done%d/unsynced%d%%", ci, i, c.op, c.started, c.done, c.pct), c, blocks, rec, cfg, nBlocks)
	}
}

func checkClone(o *drv.Out, name string, c clone, blocks []block, rec record, cfg lib.Config, nBlocks int) {
	o.Case(name)
	replay := map[string]any{"case": name}
	fail := func(sig, desc string) { o.Fail(sig, desc, replay) }
	// the model sees the uncrashed run up to the blocks started at clone time
	for h := 1; h <= c.started; h++ {
		o.Op(blocks[h].opLine(rec.roots[h]), fmt.Sprintf("ok %d", h))
	}
	var db *pebble.DB
	var err error
	func() {
		defer func() {
			if r := recover(); r != nil {
				err = fmt.Errorf("panic: %v", r)
			}
		}()
		db, err = pebble.Open("db", pebbleOpts(c.fs))
	}()
	if err != nil {
		o.Count("reopen:pebble-open-error")
		fail("C09:reopen-failed", "pebble.Open on the crashed file system: "+err.Error())
		return
	}
	store.VerifPurgeBlockCache()
	s, e := store.NewStoreWithDB(cfg, db, nil, lib.NewNullLogger())
	if e != nil {
		fail("C09:reopen-failed", "NewStoreWithDB: "+e.Error())
		return
	}
	defer func() {
		defer func() { _ = recover() }()
		_ = s.Close()
	}()
	h := int(s.Version())
	o.Count(fmt.Sprintf("reopen:height=done%+d", h-c.done))
	o.Count("crash-before:" + c.op)
	o.Count(fmt.Sprintf("unsynced-survives:%d%%", c.pct))
	o.Nontrivial(fmt.Sprintf("%s pct=%d lag=%d h=%d", c.op, c.pct, c.started-h, h))
	if h > c.started {
		fail("C09:reopened-at-uncommitted-height", fmt.Sprintf("reopened at %d but only %d block commits had started", h, c.started))
		return
	}
	o.Op(fmt.Sprintf("crash %d", h), fmt.Sprintf("ok %d", h))
	// state
	st, err := scan(s)
	if err != nil {
		fail("C09:reopened-state-unreadable", err.Error())
		return
	}
	o.Op("state", showScan(st))
	if !sameScan(st, rec.states[h]) {
		fail("C09:state-differs-from-committed-height", fmt.Sprintf("reopened at %d: state %s, uncrashed run had %s", h, showScan(st), showScan(rec.states[h])))
	}
	// root
	if h >= 1 {
		root, e := s.Root()
		if e != nil {
			fail("C09:root-unreadable", e.Error())
		} else {
			o.Op("root", "v "+drv.Hex(root))
			if !bytes.Equal(root, rec.roots[h]) {
				fail("C09:root-differs-from-committed-height", fmt.Sprintf("reopened at %d: Root()=%x, committed root %x", h, root, rec.roots[h]))
			}
		}
		// Root() caches the SMT on the store object (IsRootCached); drop it before writing further,
		// as the node does by only calling Root() at the end of a block
		s.Reset()
	}
	// earlier heights
	for i := 1; i <= h; i++ {
		if i != h && i != 1 && o.Rng.Intn(3) != 0 {
			continue
		}
		ro, e := s.NewReadOnly(uint64(i))
		if e != nil {
			fail("C09:history-unreadable", e.Error())
			continue
		}
		hs, err := scan(ro)
		ro.Discard()
		if err != nil {
			fail("C09:history-unreadable", err.Error())
			continue
		}
		o.Op(fmt.Sprintf("stateat %d", i), showScan(hs))
		if !sameScan(hs, rec.states[i]) {
			fail("C09:earlier-height-changed", fmt.Sprintf("reopened at %d: state as of %d differs from what was committed", h, i))
		}
	}
	// indexed blocks and QCs: present exactly for 1..h
	for i := 1; i <= c.started; i++ {
		blk, e := s.GetBlockByHeight(uint64(i))
		var hash []byte
		if e == nil && blk != nil && blk.BlockHeader != nil {
			hash = blk.BlockHeader.Hash
		}
		o.Op("idx "+drv.Hex(be8(uint64(i))), "v "+drv.Hex(hash))
		var qcHash []byte
		func() {
			defer func() { _ = recover() }()
			qc, e := s.GetQCByHeight(uint64(i))
			if e == nil && qc != nil {
				qcHash = qc.BlockHash
			}
		}()
		o.Op("idx "+drv.Hex(append([]byte{'q'}, be8(uint64(i))...)), "v "+drv.Hex(qcHash))
		want := []byte(nil)
		if i <= h {
			want = blocks[i].hash
		}
		if !bytes.Equal(hash, want) || !bytes.Equal(qcHash, want) {
			fail("C09:index-differs-from-committed-height", fmt.Sprintf("reopened at %d: block %d hash %x qc %x, expected %x", h, i, hash, qcHash, want))
		}
	}
	// continue the chain from h
	for i := h + 1; i <= nBlocks; i++ {
		root, err := commit(s, blocks[i])
		if err != nil {
			fail("C09:cannot-continue", fmt.Sprintf("reopened at %d, block %d: %v", h, i, err))
			return
		}
		o.Op(blocks[i].opLine(root), fmt.Sprintf("ok %d", i))
		if !bytes.Equal(root, rec.roots[i]) {
			fail("C09:continued-root-differs", fmt.Sprintf("reopened at %d, block %d: root %x, uncrashed %x", h, i, root, rec.roots[i]))
			return
		}
	}
	st, err = scan(s)
	if err == nil {
		o.Op("state", showScan(st))
		if !sameScan(st, rec.states[nBlocks]) {
			fail("C09:continued-state-differs", fmt.Sprintf("reopened at %d and continued to %d: final state differs from the uncrashed run", h, nBlocks))
		}
	}
	o.Count("clone:checked")
}

// Run is the C09 driver entry point.
func Run(o *drv.Out) {
	cases, nBlocks, maxClones := 5, 9, 28
	if o.Tier == "thorough" || o.Search {
		cases, nBlocks, maxClones = 24, 16, 90
	}
	for ci := 0; ci < cases; ci++ {
		runCase(o, ci, nBlocks, maxClones)
	}
	keys := make([]string, 0)
	for k := range o.Hist {
		if strings.HasPrefix(k, "reopen:height") {
			keys = append(keys, fmt.Sprintf("%s=%d", k, o.Hist[k]))
		}
	}
	sort.Strings(keys)
	o.Sample("reopened height relative to the last acknowledged commit: " + strings.Join(keys, " "))
}
