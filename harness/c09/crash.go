// Package c09 samples the pebble assumption of the C09 model by fault enumeration: the real
// store.Store runs a chain of block commits (state writes + IndexQC + IndexBlock + Commit) on pebble
// opened on a crashable in-memory file system; at many file-system operation boundaries — during and
// between commits, with several fractions of unsynced data surviving — the file system is cloned as
// after a crash, reopened with pebble.Open + store.NewStoreWithDB, compared with the uncrashed run at
// the height it reopens at (Version, Root, full state scan, historical scans, indexed blocks and QCs),
// and the chain is continued from there. Histories contain Store.Rollback(target) in the middle (followed
// by at least one further commit) and graceful close/reopen steps; the reopened store must be one of the
// states the uncrashed run passed through no earlier than the last synced batch (Rollback applies with
// pebble.Sync), and after a graceful stop exactly the last one. Every observation also goes through the Lean model
// (lean/Driver/C09.lean): the database as a list of applied batches, a crash as a prefix.
package c09

import (
	"bytes"
	"encoding/binary"
	"fmt"
	"math/rand"
	randv2 "math/rand/v2"
	"sort"
	"strings"
	"sync"

	"github.com/canopy-network/canopy/fsm"
	"github.com/canopy-network/canopy/lib"
	"github.com/canopy-network/canopy/lib/crypto"
	"github.com/canopy-network/canopy/store"
	"github.com/cockroachdb/pebble/v2"
	"github.com/cockroachdb/pebble/v2/vfs"
	"github.com/cockroachdb/pebble/v2/vfs/errorfs"

	"verifharness/drv"
)

type kv struct{ k, v []byte }

func kindName(k errorfs.OpKind) string {
	switch k {
	case errorfs.OpCreate:
		return "create"
	case errorfs.OpLink:
		return "link"
	case errorfs.OpRemove, errorfs.OpRemoveAll:
		return "remove"
	case errorfs.OpRename:
		return "rename"
	case errorfs.OpReuseForWrite:
		return "reuse"
	case errorfs.OpMkdirAll:
		return "mkdir"
	case errorfs.OpFileWrite, errorfs.OpFileWriteAt:
		return "write"
	case errorfs.OpFileSync, errorfs.OpFileSyncData, errorfs.OpFileSyncTo:
		return "sync"
	case errorfs.OpFileFlush:
		return "flush"
	case errorfs.OpFilePreallocate:
		return "preallocate"
	case errorfs.OpFileClose:
		return "close"
	}
	return fmt.Sprintf("op%d", int(k))
}

func showScan(kvs []kv) string {
	var sb strings.Builder
	fmt.Fprintf(&sb, "n %d", len(kvs))
	for _, e := range kvs {
		sb.WriteString(" " + drv.Hex(e.k) + "=" + drv.Hex(e.v))
	}
	return sb.String()
}

func be8(u uint64) []byte { b := make([]byte, 8); binary.BigEndian.PutUint64(b, u); return b }

// pebbleOpts mirrors store.NewStore's options (same format version, block-property collector and
// level options), on the given FS, with a small memtable so that flushes, WAL rotations and manifest
// edits happen within a short chain.
func pebbleOpts(fs vfs.FS) *pebble.Options {
	lvl := pebble.LevelOptions{BlockSize: 4 << 10, IndexBlockSize: 4 << 10}
	return &pebble.Options{
		FS:                      fs,
		MemTableSize:            96 << 10,
		L0CompactionThreshold:   2,
		L0StopWritesThreshold:   12,
		FormatMajorVersion:      pebble.FormatColumnarBlocks,
		Levels:                  [7]pebble.LevelOptions{lvl, lvl, lvl, lvl, lvl, lvl, lvl},
		BlockPropertyCollectors: store.VerifBlockPropertyCollectors(),
		Logger:                  lib.NewNullLogger(),
	}
}

// index writes a transaction makes through its nested store (the public Indexer API)
type cp struct {
	chain, height uint64
	hash          []byte
}
type dsig struct {
	addr   []byte
	height uint64
}

// tx is one transaction of a block: it runs in its own Store.NewTxn() — as fsm.ApplyTransactions does —
// writes state AND indexes through it (checkpoints and double signers of certificate results,
// DeleteCheckpointsForChain of a committee reset), and is flushed into the block's store or discarded
type tx struct {
	sets     []kv
	dels     [][]byte
	cps      []cp
	dss      []dsig
	delChain uint64 // 0 = none
	discard  bool
}

// block describes the deterministic content of block h of a case: the block's own state writes (begin-block),
// its transactions, and the block's own index writes (QC, block)
type block struct {
	h    uint64
	sets []kv
	dels [][]byte
	txs  []tx
	hash []byte
	txh  [][]byte // hashes of the transactions indexed with the block (IndexBlock)
}

var dsAddrs = [][]byte{bytes.Repeat([]byte{0xD1}, 20), bytes.Repeat([]byte{0xD2}, 20), bytes.Repeat([]byte{0xD3}, 20)}

func mkBlock(caseSeed int64, salt, h uint64, keys [][]byte) block {
	r := rand.New(rand.NewSource(caseSeed*1000003 + int64(salt)))
	b := block{h: h, hash: crypto.Hash(append([]byte("blk"), be8(uint64(caseSeed)*7919+salt)...))}
	writes := func(n int) (sets []kv, dels [][]byte) {
		seen := map[string]bool{}
		for i := 0; i < n; i++ {
			k := keys[r.Intn(len(keys))]
			if seen[string(k)] {
				continue
			}
			seen[string(k)] = true
			if r.Intn(5) == 0 {
				dels = append(dels, k)
			} else {
				// one write in five is a key-only record (Set(key, nil): how the fsm stores committee / delegate
				// membership): live, with an empty value — present in every scan although Get answers nil
				var v []byte
				if r.Intn(5) > 0 {
					v = make([]byte, 1+r.Intn(160))
					r.Read(v)
				}
				sets = append(sets, kv{k, v})
			}
		}
		return
	}
	b.sets, b.dels = writes(1 + r.Intn(6))
	for i, n := 0, 1+r.Intn(2); i < n; i++ {
		b.txh = append(b.txh, crypto.Hash(append([]byte("tx"), be8(uint64(caseSeed)*7919+salt*4+uint64(i))...)))
	}
	for i, n := 0, r.Intn(5); i < n; i++ {
		var t tx
		t.sets, t.dels = writes(1 + r.Intn(5))
		switch r.Intn(6) {
		case 0, 1: // certificate results with a checkpoint
			t.cps = append(t.cps, cp{chain: uint64(1 + r.Intn(2)), height: salt*8 + uint64(i), hash: crypto.Hash(be8(salt*8 + uint64(i)))})
		case 2: // … with double-sign evidence
			t.dss = append(t.dss, dsig{addr: dsAddrs[r.Intn(len(dsAddrs))], height: 1 + uint64(r.Intn(int(h)))})
		case 3: // … with both
			t.cps = append(t.cps, cp{chain: uint64(1 + r.Intn(2)), height: salt*8 + uint64(i), hash: crypto.Hash(be8(salt*8 + uint64(i)))})
			t.dss = append(t.dss, dsig{addr: dsAddrs[r.Intn(len(dsAddrs))], height: 1 + uint64(r.Intn(int(h)))})
		case 4: // committee reset (also of a chain an earlier transaction of this block indexed a checkpoint for)
			if r.Intn(3) == 0 {
				t.delChain = uint64(1 + r.Intn(2))
			}
		}
		t.discard = r.Intn(5) == 0 // a failed transaction
		b.txs = append(b.txs, t)
	}
	return b
}

// idxRef is the reference content of the checkpoint and double-signer indexes (plain maps)
type idxRef struct {
	cps map[[2]uint64][]byte
	dss map[string]bool
}

func newIdxRef() *idxRef { return &idxRef{cps: map[[2]uint64][]byte{}, dss: map[string]bool{}} }

func (x *idxRef) clone() *idxRef {
	o := newIdxRef()
	for k, v := range x.cps {
		o.cps[k] = v
	}
	for k := range x.dss {
		o.dss[k] = true
	}
	return o
}

func dsName(d dsig) string { return string(d.addr) + string(be8(d.height)) }

func (x *idxRef) equal(y *idxRef) bool {
	if len(x.cps) != len(y.cps) || len(x.dss) != len(y.dss) {
		return false
	}
	for k, v := range x.cps {
		if w, ok := y.cps[k]; !ok || !bytes.Equal(v, w) {
			return false
		}
	}
	for k := range x.dss {
		if !y.dss[k] {
			return false
		}
	}
	return true
}

func (x *idxRef) String() string {
	var parts []string
	for k, v := range x.cps {
		parts = append(parts, fmt.Sprintf("checkpoint(chain %d, height %d)=%x", k[0], k[1], v[:4]))
	}
	for k := range x.dss {
		parts = append(parts, fmt.Sprintf("doublesigner(%x@%d)", k[:2], binary.BigEndian.Uint64([]byte(k[20:]))))
	}
	sort.Strings(parts)
	return "{" + strings.Join(parts, " ") + "}"
}

func cpKey(chain, height uint64) []byte {
	return append(append([]byte{'c'}, be8(chain)...), be8(height)...)
}
func dsKey(d dsig) []byte { return append(append([]byte{'d'}, d.addr...), be8(d.height)...) }

// effect computes, independently of the store, what committing b on top of the index content `prev` leaves:
// the new index content and the block's NET writes (state and index; the last operation on a key wins,
// discarded transactions contribute nothing), which is what the model is given as the block
func (b block) effect(prev *idxRef) (next *idxRef, line func(root []byte) string) {
	next = prev.clone()
	type sop struct {
		v   []byte
		del bool
	}
	state := map[string]sop{}
	var order []string
	put := func(k []byte, o sop) {
		if _, ok := state[string(k)]; !ok {
			order = append(order, string(k))
		}
		state[string(k)] = o
	}
	idx := map[string]sop{}
	var iorder []string
	iput := func(k []byte, o sop) {
		if _, ok := idx[string(k)]; !ok {
			iorder = append(iorder, string(k))
		}
		idx[string(k)] = o
	}
	for _, e := range b.sets {
		put(e.k, sop{v: e.v})
	}
	for _, k := range b.dels {
		put(k, sop{del: true})
	}
	for _, t := range b.txs {
		if t.discard {
			continue
		}
		for _, e := range t.sets {
			put(e.k, sop{v: e.v})
		}
		for _, k := range t.dels {
			put(k, sop{del: true})
		}
		if t.delChain != 0 {
			for k := range next.cps {
				if k[0] == t.delChain {
					delete(next.cps, k)
					iput(cpKey(k[0], k[1]), sop{del: true})
				}
			}
		}
		for _, c := range t.cps {
			next.cps[[2]uint64{c.chain, c.height}] = c.hash
			iput(cpKey(c.chain, c.height), sop{v: c.hash})
		}
		for _, d := range t.dss {
			next.dss[dsName(d)] = true
			iput(dsKey(d), sop{v: []byte{1}})
		}
	}
	sort.Strings(iorder) // map iteration above: make the line deterministic
	line = func(root []byte) string {
		var sb strings.Builder
		sb.WriteString("blk")
		for _, k := range order {
			if o := state[k]; o.del {
				sb.WriteString(" del:" + drv.Hex([]byte(k)))
			} else {
				sb.WriteString(" set:" + drv.Hex([]byte(k)) + "=" + drv.Hex(o.v))
			}
		}
		// the model's indexer entries: block-by-height -> hash, qc-by-height -> block hash, and the net
		// checkpoint / double-signer writes of the flushed transactions
		sb.WriteString(" idx:" + drv.Hex(be8(b.h)) + "=" + drv.Hex(b.hash))
		sb.WriteString(" idx:" + drv.Hex(append([]byte{'q'}, be8(b.h)...)) + "=" + drv.Hex(b.hash))
		for _, k := range iorder {
			if o := idx[k]; o.del {
				sb.WriteString(" idxdel:" + drv.Hex([]byte(k)))
			} else {
				sb.WriteString(" idx:" + drv.Hex([]byte(k)) + "=" + drv.Hex(o.v))
			}
		}
		sb.WriteString(" root=" + drv.Hex(root))
		return sb.String()
	}
	return
}

// commit applies block b to the real store the way the node does: the block's own state writes, every
// transaction in its own nested store (state and index writes through it, then Flush or Discard) as
// fsm.ApplyTransactions does, then IndexQC, IndexBlock, Commit as controller.CommitCertificate does.
func commit(s *store.Store, b block) (root []byte, err error) {
	defer func() {
		if r := recover(); r != nil {
			err = fmt.Errorf("panic: %v", r)
		}
	}()
	write := func(w lib.StoreI, sets []kv, dels [][]byte) lib.ErrorI {
		for _, e := range sets {
			if e := w.Set(e.k, e.v); e != nil {
				return e
			}
		}
		for _, k := range dels {
			if e := w.Delete(k); e != nil {
				return e
			}
		}
		return nil
	}
	if e := write(s, b.sets, b.dels); e != nil {
		return nil, e
	}
	for _, t := range b.txs {
		n := s.NewTxn()
		if e := write(n, t.sets, t.dels); e != nil {
			return nil, e
		}
		if t.delChain != 0 {
			if e := n.DeleteCheckpointsForChain(t.delChain); e != nil {
				return nil, e
			}
		}
		for _, c := range t.cps {
			if e := n.IndexCheckpoint(c.chain, &lib.Checkpoint{Height: c.height, BlockHash: c.hash}); e != nil {
				return nil, e
			}
		}
		for _, d := range t.dss {
			if e := n.IndexDoubleSigner(d.addr, d.height); e != nil {
				return nil, e
			}
		}
		if t.discard {
			n.Discard()
			continue
		}
		if e := n.Flush(); e != nil {
			return nil, e
		}
		n.Discard()
	}
	qc := &lib.QuorumCertificate{Header: &lib.View{Height: b.h, NetworkId: 1, ChainId: 1}, BlockHash: b.hash, ResultsHash: b.hash}
	if e := s.IndexQC(qc); e != nil {
		return nil, e
	}
	br := &lib.BlockResult{BlockHeader: &lib.BlockHeader{Height: b.h, Hash: b.hash, NetworkId: 1}}
	for i, th := range b.txh {
		br.Transactions = append(br.Transactions, &lib.TxResult{Sender: th[:20], Recipient: th[12:32], MessageType: "send", Height: b.h, Index: uint64(i),
			Transaction: &lib.Transaction{MessageType: "send", Signature: &lib.Signature{PublicKey: th, Signature: th}, CreatedHeight: b.h, Time: 1, Fee: 1, NetworkId: 1, ChainId: 1},
			TxHash:      lib.BytesToString(th)})
	}
	if e := s.IndexBlock(br); e != nil {
		return nil, e
	}
	root, e := s.Commit()
	if e != nil {
		return nil, e
	}
	return root, nil
}

// readIdx reads the checkpoint and double-signer indexes of a store through the iterating readers
func readIdx(s lib.RIndexerI) (x *idxRef, err error) {
	defer func() {
		if r := recover(); r != nil {
			err = fmt.Errorf("panic: %v", r)
		}
	}()
	x = newIdxRef()
	for chain := uint64(1); chain <= 2; chain++ {
		cps, e := s.GetAllCheckpoints(chain)
		if e != nil {
			return nil, e
		}
		for _, c := range cps {
			x.cps[[2]uint64{chain, c.Height}] = c.BlockHash
		}
	}
	dss, e := s.GetDoubleSigners()
	if e != nil {
		return nil, e
	}
	for _, d := range dss {
		for _, h := range d.Heights {
			x.dss[dsName(dsig{addr: d.Id, height: h})] = true
		}
	}
	return x, nil
}

func scan(s lib.RStoreI) (out []kv, err error) {
	defer func() {
		if r := recover(); r != nil {
			err = fmt.Errorf("panic: %v", r)
		}
	}()
	it, e := s.Iterator(nil)
	if e != nil {
		return nil, e
	}
	defer it.Close()
	for ; it.Valid(); it.Next() {
		out = append(out, kv{bytes.Clone(it.Key()), bytes.Clone(it.Value())})
	}
	return
}

func sameScan(a, b []kv) bool {
	if len(a) != len(b) {
		return false
	}
	for i := range a {
		if !bytes.Equal(a[i].k, b[i].k) || !bytes.Equal(a[i].v, b[i].v) {
			return false
		}
	}
	return true
}

// one step of a history
type event struct {
	kind   string // "blk", "rollback", "reopen"
	blk    block
	target uint64
}

// snap is what the uncrashed run looked like after a number of applied batches (one per block commit,
// one per effective rollback)
type snap struct {
	version    int
	chain      []int   // chain[i-1] = index (into evs) of the block event that is height i in this snapshot
	idx        *idxRef // checkpoint / double-signer indexes as of this snapshot (reference)
	line       string  // the model's op line of the event that produced this snapshot
	lineRes    string
	isRollback bool
}

type clone struct {
	fs       *vfs.MemFS
	started  int    // batches whose application had started when the clone was taken
	done     int    // batches whose application had returned
	floor    int    // batches applied up to and including the last pebble.Sync apply (Rollback)
	op       string // the file-system operation the crash precedes
	pct      int
	graceful bool // taken after Store.Close(): nothing may be lost
}

// recorded uncrashed run
type record struct {
	evs    []event
	snaps  []snap   // snaps[b] after b batches
	evOf   []int    // evOf[b] = index of the event that applied batch b (b>=1)
	roots  [][]byte // roots[e] = root returned by the block event e
	states [][]kv   // states[e] = full state scan after block event e
	snapOf []int    // snapOf[e] = the snapshot block event e produced
}

// idxSig classifies an index content that is not the reference of snapshot b
func (rec *record) idxSig(b int, got *idxRef) string {
	for q := b - 1; q >= 0; q-- {
		if got.equal(rec.snaps[q].idx) {
			return "C09:index-lags-state"
		}
	}
	return "C09:state-and-index-from-different-heights"
}

// checkIdx compares the index content of a store with the reference of snapshot b
func (rec *record) checkIdx(s lib.RIndexerI, b int, where string, fail func(sig, desc string)) bool {
	got, err := readIdx(s)
	if err != nil {
		fail("C09:index-unreadable", where+": "+err.Error())
		return false
	}
	want := rec.snaps[b].idx
	if !got.equal(want) {
		fail(rec.idxSig(b, got), fmt.Sprintf("%s: state is that of height %d (after %d batches) but the checkpoint/double-signer indexes are %s; the transactions committed up to that height indexed %s", where, rec.snaps[b].version, b, got, want))
		return false
	}
	return true
}

func (rec *record) stateAt(b, height int) []kv {
	if height == 0 {
		return nil
	}
	return rec.states[rec.snaps[b].chain[height-1]]
}
func (rec *record) rootOf(b int) []byte {
	sn := rec.snaps[b]
	if sn.version == 0 {
		return nil
	}
	return rec.roots[sn.chain[sn.version-1]]
}

// staleAfterRollback: h is the target of a rollback among the first `upto` batches that is followed, within
// those batches, by at least one block commit — the height a store reopens at when the pointer written by
// the rollback shadows the pointers of the later commits
func (rec *record) staleAfterRollback(h, upto int) (bool, int) {
	for b := 1; b < upto; b++ {
		if rec.snaps[b].isRollback && rec.snaps[b].version == h {
			return true, b
		}
	}
	return false, 0
}

func genEvents(r *rand.Rand, caseSeed int64, nBlocks int, keys [][]byte, withRollback bool) []event {
	var evs []event
	version, blocksMade, rollbacks, sinceRollback := 0, 0, 0, 2
	for blocksMade < nBlocks {
		if withRollback && rollbacks < 2 && version >= 2 && sinceRollback >= 1 && blocksMade <= nBlocks-2 && r.Intn(3) == 0 {
			t := 1 + r.Intn(version-1)
			evs = append(evs, event{kind: "rollback", target: uint64(t)})
			version = t
			rollbacks++
			sinceRollback = 0
			if r.Intn(2) == 0 {
				evs = append(evs, event{kind: "reopen"})
			}
			continue
		}
		version++
		blocksMade++
		sinceRollback++
		evs = append(evs, event{kind: "blk", blk: mkBlock(caseSeed, uint64(len(evs))*1000+uint64(version), uint64(version), keys)})
		if rollbacks > 0 && sinceRollback >= 1 && r.Intn(5) == 0 {
			evs = append(evs, event{kind: "reopen"})
		}
	}
	if withRollback && rollbacks == 0 && len(evs) >= 4 {
		// force the scenario: rewind in the middle, then the remaining blocks on top
		cut := 2 + r.Intn(len(evs)-3)
		t := 1 + r.Intn(cut-1)
		tail := nBlocks - cut
		evs = append(evs[:cut:cut], event{kind: "rollback", target: uint64(t)})
		for i := 0; i < tail+1; i++ {
			evs = append(evs, event{kind: "blk", blk: mkBlock(caseSeed, uint64(len(evs))*1000+uint64(t+i+1), uint64(t+i+1), keys)})
		}
	}
	return evs
}

type node struct {
	db *pebble.DB
	s  *store.Store
}

func openNode(fs vfs.FS, cfg lib.Config) (n node, err error) {
	defer func() {
		if r := recover(); r != nil {
			err = fmt.Errorf("panic: %v", r)
		}
	}()
	n.db, err = pebble.Open("db", pebbleOpts(fs))
	if err != nil {
		return n, fmt.Errorf("pebble.Open: %w", err)
	}
	store.VerifPurgeBlockCache()
	s, e := store.NewStoreWithDB(cfg, n.db, nil, lib.NewNullLogger())
	if e != nil {
		return n, fmt.Errorf("NewStoreWithDB: %s", e.Error())
	}
	n.s = s
	return n, nil
}

func rollback(s *store.Store, t uint64) (err error) {
	defer func() {
		if r := recover(); r != nil {
			err = fmt.Errorf("panic: %v", r)
		}
	}()
	if e := s.Rollback(t); e != nil {
		return e
	}
	return nil
}

func runCase(o *drv.Out, ci int, nBlocks int, maxClones int) {
	caseSeed := o.Seed*131 + int64(ci)
	r := o.Rng
	// key pool: real FSM keys
	var keys [][]byte
	for i := 0; i < 10+r.Intn(10); i++ {
		a := make([]byte, 20)
		r.Read(a)
		keys = append(keys, fsm.KeyForAccount(crypto.NewAddressFromBytes(a)))
		if i%3 == 0 {
			keys = append(keys, fsm.KeyForValidator(crypto.NewAddressFromBytes(a)), fsm.KeyForCommittee(uint64(i%2+1), crypto.NewAddressFromBytes(a), uint64(1000+i)))
		}
	}
	keys = append(keys, fsm.SupplyPrefix(), fsm.KeyForPool(1), fsm.KeyForPool(2))
	withRollback := ci%4 != 3 // three cases in four rewind in the middle
	evs := genEvents(r, caseSeed, nBlocks, keys, withRollback)
	caseName := fmt.Sprintf("history-%d", ci)
	replay := map[string]any{"case": caseName, "history": describe(evs)}

	mem := vfs.NewCrashableMem()
	var mu sync.Mutex
	started, done, floor := 0, 0, 0
	var clones []clone
	opCount := 0
	stride := 1 + r.Intn(4)
	pcts := []int{0, 0, 30, 60, 100}
	crng := rand.New(rand.NewSource(caseSeed))
	armed := false
	inj := errorfs.InjectorFunc(func(op errorfs.Op) error {
		if op.Kind.ReadOrWrite() != errorfs.OpIsWrite {
			return nil
		}
		mu.Lock()
		defer mu.Unlock()
		if !armed {
			return nil
		}
		opCount++
		if opCount%stride != 0 || len(clones) >= maxClones {
			return nil
		}
		pct := pcts[crng.Intn(len(pcts))]
		cfg := vfs.CrashCloneCfg{UnsyncedDataPercent: pct}
		if pct > 0 {
			cfg.RNG = randv2.New(randv2.NewPCG(uint64(caseSeed), uint64(opCount)))
		}
		clones = append(clones, clone{fs: mem.CrashClone(cfg), started: started, done: done, floor: floor, op: kindName(op.Kind), pct: pct})
		return nil
	})
	fs := errorfs.Wrap(mem, inj)
	cfg := lib.DefaultConfig()
	cfg.StoreConfig.LSSCompactionInterval = 0
	n, err := openNode(fs, cfg)
	if err != nil {
		o.Fail("C09:open-failed", err.Error(), replay)
		return
	}
	rec := &record{evs: evs, snaps: []snap{{idx: newIdxRef()}}, evOf: []int{-1}, roots: make([][]byte, len(evs)), states: make([][]kv, len(evs)), snapOf: make([]int, len(evs))}
	failCase := func(sig, desc string) { o.Fail(sig, desc, replay) }
	mu.Lock()
	armed = true
	mu.Unlock()
	extra := 0
	for ei, ev := range evs {
		cur := rec.snaps[len(rec.snaps)-1]
		switch ev.kind {
		case "blk":
			mu.Lock()
			started = len(rec.snaps)
			mu.Unlock()
			root, err := commit(n.s, ev.blk)
			if err != nil {
				o.Fail("C09:commit-failed", fmt.Sprintf("event %d (block %d): %v", ei, ev.blk.h, err), replay)
				return
			}
			if int(n.s.Version()) != cur.version+1 {
				o.Fail("C09:commit-failed", fmt.Sprintf("event %d: Version()=%d after committing block %d", ei, n.s.Version(), cur.version+1), replay)
				return
			}
			rec.roots[ei] = root
			st, err := scan(n.s)
			if err != nil {
				o.Fail("C09:scan-failed", err.Error(), replay)
				return
			}
			rec.states[ei] = st
			nextIdx, line := ev.blk.effect(cur.idx)
			rec.snaps = append(rec.snaps, snap{version: cur.version + 1, chain: append(append([]int{}, cur.chain...), ei), idx: nextIdx,
				line: line(root), lineRes: fmt.Sprintf("ok %d", cur.version+1)})
			rec.evOf = append(rec.evOf, ei)
			rec.snapOf[ei] = len(rec.snaps) - 1
			// all-or-nothing across state and indexes, already in the running process
			if !rec.checkIdx(n.s, len(rec.snaps)-1, fmt.Sprintf("after Commit of block %d", cur.version+1), failCase) {
				return
			}
			mu.Lock()
			done = len(rec.snaps) - 1
			mu.Unlock()
		case "rollback":
			mu.Lock()
			started = len(rec.snaps)
			mu.Unlock()
			if err := rollback(n.s, ev.target); err != nil {
				o.Fail("C09:rollback-failed", fmt.Sprintf("event %d: Rollback(%d) at height %d: %v", ei, ev.target, cur.version, err), replay)
				return
			}
			t := int(ev.target)
			if int(n.s.Version()) != t {
				o.Fail("C09:rollback-failed", fmt.Sprintf("event %d: Version()=%d after Rollback(%d)", ei, n.s.Version(), t), replay)
				return
			}
			st, err := scan(n.s)
			if err != nil {
				o.Fail("C09:scan-failed", err.Error(), replay)
				return
			}
			if !sameScan(st, rec.states[cur.chain[t-1]]) {
				sig := "C09:rollback-state-differs-from-target-height"
				have := map[string]bool{}
				for _, e := range st {
					have[string(e.k)] = true
				}
				for _, e := range rec.states[cur.chain[t-1]] {
					if !have[string(e.k)] && len(e.v) == 0 {
						// a live key-only record (empty value) of the target height is gone from latest state
						sig = "C09:rollback-drops-live-key-only-record-from-latest-state"
					}
				}
				o.Fail(sig, fmt.Sprintf("event %d: after Rollback(%d) the latest state is %s, block %d had left %s", ei, t, showScan(st), t, showScan(rec.states[cur.chain[t-1]])), replay)
				return
			}
			rec.snaps = append(rec.snaps, snap{version: t, chain: append([]int{}, cur.chain[:t]...), isRollback: true, idx: rec.snaps[rec.snapOf[cur.chain[t-1]]].idx,
				line: fmt.Sprintf("rollback %d", t), lineRes: fmt.Sprintf("ok %d %d", t, len(rec.snaps))})
			rec.evOf = append(rec.evOf, ei)
			mu.Lock()
			done = len(rec.snaps) - 1
			floor = done // applied with pebble.Sync: this batch and everything before it is durable
			mu.Unlock()
			o.Count("history:rollback")
			if !rec.checkIdx(n.s, len(rec.snaps)-1, fmt.Sprintf("after Rollback(%d)", t), failCase) {
				return
			}
		case "reopen":
			// graceful stop and start on the same file system. No crash clones are taken while the database
			// is being closed and opened: a crash inside pebble's own shutdown/start-up sequence (manifest
			// rotation) is pebble's recovery, not the block commit this harness samples.
			mu.Lock()
			armed = false
			mu.Unlock()
			if e := n.s.Close(); e != nil {
				o.Fail("C09:close-failed", e.Error(), replay)
				return
			}
			mu.Lock()
			floor = done // Close flushes: everything acknowledged is durable
			mu.Unlock()
			n, err = openNode(fs, cfg)
			if err != nil {
				o.Fail("C09:reopen-failed", "graceful restart: "+err.Error(), replay)
				return
			}
			o.Count("history:graceful-restart")
			mu.Lock()
			armed = true
			mu.Unlock()
			if got := int(n.s.Version()); got != cur.version {
				b := len(rec.snaps) - 1
				if stale, rb := rec.staleAfterRollback(got, b); stale {
					o.Fail("C09:reopens-at-stale-height:after-rollback", fmt.Sprintf("graceful restart after %d batches: the store opens at height %d — the target of the rollback that was batch %d — but %d further block(s) were committed since; last committed height is %d", b, got, rb, b-rb, cur.version), replay)
				} else {
					o.Fail("C09:reopened-at-height-of-no-prefix", fmt.Sprintf("graceful restart after %d batches: the store opens at height %d, last committed height is %d", b, got, cur.version), replay)
				}
				return
			}
			continue
		}
		// between events: sometimes force a memtable flush (SST + manifest + WAL rotation)
		if r.Intn(4) == 0 {
			_ = n.db.Flush()
			o.Count("between:db.Flush")
		}
		// a crash exactly between events, nothing in flight
		mu.Lock()
		if extra < len(evs) {
			extra++
			clones = append(clones, clone{fs: mem.CrashClone(vfs.CrashCloneCfg{UnsyncedDataPercent: 100, RNG: randv2.New(randv2.NewPCG(uint64(caseSeed), uint64(ei)))}), started: done, done: done, floor: floor, op: "between-commits", pct: 100})
		}
		mu.Unlock()
	}
	mu.Lock()
	armed = false
	cl := append([]clone{}, clones...)
	mu.Unlock()
	_ = n.s.Close()
	// graceful stop at the end of the history: nothing may be lost
	last := len(rec.snaps) - 1
	cl = append(cl, clone{fs: mem.CrashClone(vfs.CrashCloneCfg{UnsyncedDataPercent: 0}), started: last, done: last, floor: last, op: "after-close", pct: 0, graceful: true})
	o.Extra["c09_fs_write_ops_last_case"] = opCount

	for i, c := range cl {
		checkClone(o, fmt.Sprintf("crash-%d-%d@%s/started%d/done%d/synced%d/unsynced%d%%", ci, i, c.op, c.started, c.done, c.floor, c.pct), c, rec, cfg)
	}
}

// stateSig refines the signature of a latest-state mismatch: a key that some block of the history deleted is
// present although the committed state it is compared with does not have it (a purged latest-state entry is back)
func (rec *record) stateSig(def string, got, want []kv) string {
	in := map[string]bool{}
	for _, e := range want {
		in[string(e.k)] = true
	}
	for _, g := range got {
		if in[string(g.k)] {
			continue
		}
		for _, ev := range rec.evs {
			if ev.kind != "blk" {
				continue
			}
			dels := append([][]byte{}, ev.blk.dels...)
			for _, t := range ev.blk.txs {
				dels = append(dels, t.dels...)
			}
			for _, d := range dels {
				if bytes.Equal(d, g.k) {
					return "C09:deleted-key-back-in-latest-state"
				}
			}
		}
	}
	return def
}

func describe(evs []event) []string {
	var out []string
	for _, e := range evs {
		switch e.kind {
		case "blk":
			d := fmt.Sprintf("commit block %d (%d sets, %d deletes", e.blk.h, len(e.blk.sets), len(e.blk.dels))
			for _, t := range e.blk.txs {
				d += fmt.Sprintf("; tx in NewTxn(): %d sets %d deletes", len(t.sets), len(t.dels))
				for _, c := range t.cps {
					d += fmt.Sprintf(" IndexCheckpoint(%d,%d)", c.chain, c.height)
				}
				for _, x := range t.dss {
					d += fmt.Sprintf(" IndexDoubleSigner(%x..,%d)", x.addr[:2], x.height)
				}
				if t.delChain != 0 {
					d += fmt.Sprintf(" DeleteCheckpointsForChain(%d)", t.delChain)
				}
				if t.discard {
					d += " Discard()"
				} else {
					d += " Flush()"
				}
			}
			out = append(out, d+")")
		case "rollback":
			out = append(out, fmt.Sprintf("Rollback(%d)", e.target))
		default:
			out = append(out, "close+reopen")
		}
	}
	return out
}

func checkClone(o *drv.Out, name string, c clone, rec *record, cfg lib.Config) {
	o.Case(name)
	replay := map[string]any{"case": name, "history": describe(rec.evs), "batches_started": c.started, "batches_acknowledged": c.done, "batches_synced": c.floor}
	fail := func(sig, desc string) { o.Fail(sig, desc, replay) }
	// the model sees the uncrashed run up to the batches started at clone time
	for b := 1; b <= c.started; b++ {
		o.Op(rec.snaps[b].line, rec.snaps[b].lineRes)
	}
	n, err := openNode(c.fs, cfg)
	if err != nil {
		o.Count("reopen:open-error")
		fail("C09:reopen-failed", "on the crashed file system: "+err.Error())
		return
	}
	s := n.s
	defer func() {
		defer func() { _ = recover() }()
		_ = s.Close()
	}()
	h := int(s.Version())
	st, err := scan(s)
	if err != nil {
		fail("C09:reopened-state-unreadable", err.Error())
		return
	}
	var root []byte
	if h >= 1 {
		rt, e := s.Root()
		if e != nil {
			fail("C09:root-unreadable", e.Error())
			return
		}
		root = rt
		// Root() caches the SMT on the store object (IsRootCached); drop it before writing further,
		// as the node does by only calling Root() at the end of a block
		s.Reset()
	}
	// which state of the uncrashed run is this? the surviving batches are a prefix no shorter than the
	// last synced one (after a graceful stop: all of them)
	p, heightMatch := -1, -1
	for b := c.started; b >= c.floor; b-- {
		if rec.snaps[b].version != h {
			continue
		}
		if heightMatch < 0 {
			heightMatch = b
		}
		if sameScan(st, rec.stateAt(b, h)) && (h == 0 || bytes.Equal(root, rec.rootOf(b))) {
			p = b
			break
		}
	}
	if p < 0 {
		lastH := rec.snaps[c.done].version
		if stale, rb := rec.staleAfterRollback(h, c.done); stale && h != lastH {
			fail("C09:reopens-at-stale-height:after-rollback", fmt.Sprintf("reopened at height %d — the target of the rollback that was batch %d — although %d further batch(es) had been applied and acknowledged since (last committed height %d, last synced batch %d); Root()=%x, state %s", h, rb, c.done-rb, lastH, c.floor, root, showScan(st)))
			return
		}
		if heightMatch < 0 {
			fail("C09:reopened-at-uncommitted-height", fmt.Sprintf("reopened at %d: no state between the last synced batch %d and the last started batch %d has that height", h, c.floor, c.started))
			return
		}
		// right height, wrong content: go on with the comparisons against that prefix
		p = heightMatch
	}
	o.Count(fmt.Sprintf("reopen:batches=acknowledged%+d", p-c.done))
	o.Count("crash-before:" + c.op)
	o.Count(fmt.Sprintf("unsynced-survives:%d%%", c.pct))
	for b := 1; b < p; b++ {
		if rec.snaps[b].isRollback {
			o.Count("reopen:after-rollback-and-further-commits")
			break
		}
	}
	o.Nontrivial(fmt.Sprintf("%s pct=%d lag=%d h=%d rb=%v", c.op, c.pct, c.started-p, h, rec.snaps[p].isRollback))
	if c.graceful && p != c.done {
		fail("C09:acknowledged-commit-lost-after-graceful-stop", fmt.Sprintf("after Close() the store reopens at the state after %d batches, %d were acknowledged", p, c.done))
		return
	}
	o.Op(fmt.Sprintf("crash %d", p), fmt.Sprintf("ok %d", h))
	o.Op("state", showScan(st))
	if !sameScan(st, rec.stateAt(p, h)) {
		fail(rec.stateSig("C09:state-differs-from-committed-height", st, rec.stateAt(p, h)), fmt.Sprintf("reopened at %d: state %s, uncrashed run had %s", h, showScan(st), showScan(rec.stateAt(p, h))))
	}
	if h >= 1 {
		o.Op("root", "v "+drv.Hex(root))
		if !bytes.Equal(root, rec.rootOf(p)) {
			fail("C09:root-differs-from-committed-height", fmt.Sprintf("reopened at %d: Root()=%x, committed root %x", h, root, rec.rootOf(p)))
		}
	}
	// earlier heights
	for i := 1; i <= h; i++ {
		if i != h && i != 1 && o.Rng.Intn(3) != 0 {
			continue
		}
		ro, e := s.NewReadOnly(uint64(i))
		if e != nil {
			fail("C09:history-unreadable", e.Error())
			continue
		}
		hs, err := scan(ro)
		ro.Discard()
		if err != nil {
			fail("C09:history-unreadable", err.Error())
			continue
		}
		o.Op(fmt.Sprintf("stateat %d", i), showScan(hs))
		if !sameScan(hs, rec.stateAt(p, i)) {
			fail("C09:earlier-height-changed", fmt.Sprintf("reopened at %d: state as of %d differs from what was committed", h, i))
		}
	}
	// a page query right after the restart (cold block cache): explorers and peers ask for pages of blocks; the
	// header-only read of the block below the page must leave nothing behind that the reads below would be served
	paged := false
	if h >= 2 && o.Rng.Intn(2) == 0 {
		func() {
			defer func() { _ = recover() }()
			_, _ = s.GetBlocks(lib.PageParams{PageNumber: 1 + o.Rng.Intn(2), PerPage: 1 + o.Rng.Intn(3)})
			paged = true
		}()
		o.Count("reopen:page-query-before-block-reads")
	}
	// indexed blocks and QCs: present exactly for 1..h
	maxH := 0
	for b := 0; b <= c.started; b++ {
		if rec.snaps[b].version > maxH {
			maxH = rec.snaps[b].version
		}
	}
	for i := 1; i <= maxH; i++ {
		blk, e := s.GetBlockByHeight(uint64(i))
		var hash []byte
		if e == nil && blk != nil && blk.BlockHeader != nil {
			hash = blk.BlockHeader.Hash
		}
		o.Op("idx "+drv.Hex(be8(uint64(i))), "v "+drv.Hex(hash))
		var qcHash []byte
		func() {
			defer func() { _ = recover() }()
			qc, e := s.GetQCByHeight(uint64(i))
			if e == nil && qc != nil {
				qcHash = qc.BlockHash
			}
		}()
		o.Op("idx "+drv.Hex(append([]byte{'q'}, be8(uint64(i))...)), "v "+drv.Hex(qcHash))
		want := []byte(nil)
		if i <= h {
			want = rec.evs[rec.snaps[p].chain[i-1]].blk.hash
		}
		if !bytes.Equal(hash, want) || !bytes.Equal(qcHash, want) {
			fail("C09:index-differs-from-committed-height", fmt.Sprintf("reopened at %d: block %d hash %x qc %x, expected %x", h, i, hash, qcHash, want))
		} else if i <= h {
			// the block comes with the transactions it was indexed with
			wantTx := rec.evs[rec.snaps[p].chain[i-1]].blk.txh
			same := blk != nil && len(blk.Transactions) == len(wantTx)
			for j := 0; same && j < len(wantTx); j++ {
				got, _ := lib.StringToBytes(blk.Transactions[j].TxHash)
				same = bytes.Equal(got, wantTx[j])
			}
			if !same {
				sig := "C09:index-differs-from-committed-height"
				if paged {
					sig = "C09:reopened-block-without-its-transactions:after-page-query"
				}
				n := 0
				if blk != nil {
					n = len(blk.Transactions)
				}
				fail(sig, fmt.Sprintf("reopened at %d: GetBlockByHeight(%d) has %d transactions, the block was indexed with %d", h, i, n, len(wantTx)))
			}
		}
	}
	// checkpoints and double signers indexed by the transactions (through their nested stores): point reads
	// (also through the model) and the iterating readers, against the reference of the SAME snapshot
	seenCp, seenDs := map[[2]uint64]bool{}, map[string]dsig{}
	for b := 1; b <= c.started; b++ {
		ev := rec.evs[rec.evOf[b]]
		if ev.kind != "blk" {
			continue
		}
		for _, t := range ev.blk.txs {
			for _, x := range t.cps {
				seenCp[[2]uint64{x.chain, x.height}] = true
			}
			for _, d := range t.dss {
				seenDs[dsName(d)] = d
			}
		}
	}
	var cpl [][2]uint64
	for k := range seenCp {
		cpl = append(cpl, k)
	}
	sort.Slice(cpl, func(i, j int) bool { return cpl[i][0] < cpl[j][0] || (cpl[i][0] == cpl[j][0] && cpl[i][1] < cpl[j][1]) })
	var dsl []string
	for k := range seenDs {
		dsl = append(dsl, k)
	}
	sort.Strings(dsl)
	wantIdx := rec.snaps[p].idx
	pointOK := true
	for _, k := range cpl {
		var got []byte
		func() {
			defer func() { _ = recover() }()
			got, _ = s.GetCheckpoint(k[0], k[1])
		}()
		o.Op("idx "+drv.Hex(cpKey(k[0], k[1])), "v "+drv.Hex(got))
		if !bytes.Equal(got, wantIdx.cps[k]) {
			pointOK = false
		}
	}
	for _, k := range dsl {
		d := seenDs[k]
		indexed := false
		func() {
			defer func() { _ = recover() }()
			valid, e := s.IsValidDoubleSigner(d.addr, d.height)
			indexed = e == nil && !valid
		}()
		res := "v -"
		if indexed {
			res = "v 01"
		}
		o.Op("idx "+drv.Hex(dsKey(d)), res)
		if indexed != wantIdx.dss[k] {
			pointOK = false
		}
	}
	if rec.checkIdx(s, p, fmt.Sprintf("reopened at %d", h), fail) && !pointOK {
		fail("C09:state-and-index-from-different-heights", fmt.Sprintf("reopened at %d: GetCheckpoint / IsValidDoubleSigner disagree with the indexes the transactions committed up to that height wrote (%s)", h, wantIdx))
	}
	o.Count("oracle:nested-tx-indexes-checked")
	// continue the history from batch p
	last := len(rec.snaps) - 1
	for b := p + 1; b <= last; b++ {
		ev := rec.evs[rec.evOf[b]]
		if ev.kind == "rollback" {
			if err := rollback(s, ev.target); err != nil {
				fail("C09:cannot-continue", fmt.Sprintf("reopened at %d, Rollback(%d): %v", h, ev.target, err))
				return
			}
			o.Op(rec.snaps[b].line, rec.snaps[b].lineRes)
			continue
		}
		root, err := commit(s, ev.blk)
		if err != nil {
			fail("C09:cannot-continue", fmt.Sprintf("reopened at %d, block %d: %v", h, ev.blk.h, err))
			return
		}
		_, line := ev.blk.effect(rec.snaps[b-1].idx)
		o.Op(line(root), rec.snaps[b].lineRes)
		if !bytes.Equal(root, rec.roots[rec.evOf[b]]) {
			fail("C09:continued-root-differs", fmt.Sprintf("reopened at %d, block %d: root %x, uncrashed %x", h, ev.blk.h, root, rec.roots[rec.evOf[b]]))
			return
		}
	}
	st, err = scan(s)
	if err == nil {
		o.Op("state", showScan(st))
		rec.checkIdx(s, last, "continued to the end of the history", fail)
		if !sameScan(st, rec.stateAt(last, rec.snaps[last].version)) {
			want := rec.stateAt(last, rec.snaps[last].version)
			fail(rec.stateSig("C09:continued-state-differs", st, want), fmt.Sprintf("reopened at %d and continued to the end of the history: final state %s differs from the uncrashed run's %s", h, showScan(st), showScan(want)))
		}
	}
	o.Count("clone:checked")
}

// Run is the C09 driver entry point.
func Run(o *drv.Out) {
	cases, nBlocks, maxClones := 5, 9, 28
	if o.Tier == "thorough" || o.Search {
		cases, nBlocks, maxClones = 24, 16, 90
	}
	for ci := 0; ci < cases; ci++ {
		runCase(o, ci, nBlocks, maxClones)
	}
	keys := make([]string, 0)
	for k := range o.Hist {
		if strings.HasPrefix(k, "reopen:batches") {
			keys = append(keys, fmt.Sprintf("%s=%d", k, o.Hist[k]))
		}
	}
	sort.Strings(keys)
	o.Sample("reopened state relative to the last acknowledged batch: " + strings.Join(keys, " "))
}
