package node

import (
	"bytes"
	"slices"

	"github.com/canopy-network/canopy/controller"
	"github.com/canopy-network/canopy/fsm"
	"github.com/canopy-network/canopy/lib"
	"github.com/canopy-network/canopy/lib/crypto"
	"github.com/canopy-network/canopy/store"
)

// selfRC is the in-process lib.RCManagerI of a chain that is its own root: every query is answered
// from the node's own FSM/store with the calls cmd/rpc/query.go makes for the same route.
// It has no subscribers (ChainIds is empty), so CommitCertificate publishes nothing and starts no
// goroutine.
type selfRC struct{ c *controller.Controller }

var _ lib.RCManagerI = (*selfRC)(nil)

func (r *selfRC) at(height uint64, f func(sm *fsm.StateMachine) lib.ErrorI) lib.ErrorI {
	sm, err := r.c.FSM.TimeMachine(height)
	if err != nil {
		return lib.ErrTimeMachine(err)
	}
	if sm != r.c.FSM {
		defer sm.Discard()
	}
	return f(sm)
}

func (r *selfRC) withStore(f func(st lib.StoreI) lib.ErrorI) lib.ErrorI {
	st, err := store.NewStoreWithDB(r.c.Config, r.c.FSM.Store().(lib.StoreI).DB(), nil, lib.NewNullLogger())
	if err != nil {
		return err
	}
	defer st.Discard()
	return f(st)
}

func (r *selfRC) Publish(uint64, *lib.RootChainInfo) {}
func (r *selfRC) ChainIds() []uint64                 { return nil }
func (r *selfRC) GetHeight(uint64) uint64            { return r.c.FSM.Height() }

func (r *selfRC) GetRootChainInfo(_, chainId uint64) (*lib.RootChainInfo, lib.ErrorI) {
	return r.c.FSM.LoadRootChainInfo(chainId, 0)
}

func (r *selfRC) GetValidatorSet(_, id, rootHeight uint64) (vs lib.ValidatorSet, err lib.ErrorI) {
	err = r.at(rootHeight, func(sm *fsm.StateMachine) (e lib.ErrorI) {
		vs, e = sm.GetCommitteeMembers(id)
		return
	})
	return
}

func (r *selfRC) GetLotteryWinner(_, height, id uint64) (p *lib.LotteryWinner, err lib.ErrorI) {
	err = r.at(height, func(sm *fsm.StateMachine) (e lib.ErrorI) {
		p, e = sm.LotteryWinner(id)
		return
	})
	return
}

func (r *selfRC) GetOrders(_, rootHeight, id uint64) (b *lib.OrderBook, err lib.ErrorI) {
	err = r.at(rootHeight, func(sm *fsm.StateMachine) (e lib.ErrorI) {
		b, e = sm.GetOrderBook(id)
		return
	})
	return
}

func (r *selfRC) GetOrder(_, height uint64, orderId string, chainId uint64) (o *lib.SellOrder, err lib.ErrorI) {
	id, err := lib.StringToBytes(orderId)
	if err != nil {
		return nil, err
	}
	err = r.at(height, func(sm *fsm.StateMachine) (e lib.ErrorI) {
		o, e = sm.GetOrder(id, chainId)
		return
	})
	return
}

func (r *selfRC) GetDexBatch(_, height, committee uint64, withPoints bool) (b *lib.DexBatch, err lib.ErrorI) {
	err = r.at(height, func(sm *fsm.StateMachine) (e lib.ErrorI) {
		b, e = sm.GetDexBatch(committee, true, withPoints)
		return
	})
	return
}

func (r *selfRC) IsValidDoubleSigner(_, height uint64, address string) (p *bool, err lib.ErrorI) {
	a, err := lib.StringToBytes(address)
	if err != nil {
		return nil, err
	}
	err = r.withStore(func(st lib.StoreI) lib.ErrorI {
		qc, e := st.GetQCByHeight(st.Version() - 1)
		if e != nil {
			return e
		}
		if qc.Results != nil && qc.Results.SlashRecipients != nil {
			for _, ds := range qc.Results.SlashRecipients.DoubleSigners {
				pk, e2 := crypto.NewPublicKeyFromBytes(ds.Id)
				if e2 != nil {
					continue
				}
				if bytes.Equal(pk.Address().Bytes(), a) && slices.Contains(ds.Heights, height) {
					v := false
					p = &v
					return nil
				}
			}
		}
		v, e := st.IsValidDoubleSigner(a, height)
		p = &v
		return e
	})
	return
}

func (r *selfRC) GetMinimumEvidenceHeight(_, rootHeight uint64) (p *uint64, err lib.ErrorI) {
	err = r.at(rootHeight, func(sm *fsm.StateMachine) lib.ErrorI {
		v, e := sm.LoadMinimumEvidenceHeight()
		p = &v
		return e
	})
	return
}

func (r *selfRC) GetCheckpoint(_, height, id uint64) (h lib.HexBytes, err lib.ErrorI) {
	err = r.withStore(func(st lib.StoreI) (e lib.ErrorI) {
		h, e = st.GetCheckpoint(id, height)
		return
	})
	return
}

func (r *selfRC) Transaction(uint64, lib.TransactionI) (*string, lib.ErrorI) {
	return nil, lib.ErrNotSubscribed()
}
