package node

import (
	"math/rand"

	"github.com/canopy-network/canopy/fsm"
	"github.com/canopy-network/canopy/lib"
	"github.com/canopy-network/canopy/lib/crypto"
)

// MixTx is one generated transaction with what the generator intends it to be.
type MixTx struct {
	Kind   string // e.g. "send", "stake", "fail:insufficient", "fail:lowfee", "conflict:a", "conflict:b", "dup"
	Bytes  []byte
	Expect bool // generator's intent: true = should be included in a block built on the given prefix
}

// MixOpts sizes a mempool content.
type MixOpts struct {
	Height    uint64   // height of the block to be built (FSM height)
	Sends     int      // valid sends to fresh addresses
	Failing   int      // failing transactions of rotating kinds
	Conflicts int      // pairs of conflicting sends (only one of each pair can succeed)
	ValOps    bool     // include one validator operation (pause/unpause/edit-stake/stake/unstake) when possible
	Replay    [][]byte // transactions already included in earlier blocks, resubmitted
	// ResubmitForged: every forged-signature transaction generated so far is submitted again
	ResubmitForged bool
}

// Mixer produces mempool contents for successive heights of one chain. It tracks which reserved
// accounts were used so that intents stay correct along the chain.
type Mixer struct {
	Net      *Network
	Rng      *rand.Rand
	fresh    int
	conflict int          // next reserved account for conflict pairs (taken from the end of AcctKeys)
	paused   map[int]bool // validator index -> paused
	unstaked map[int]bool
	staked   map[int]bool // account index -> staked as a new validator
	failKind int
	Forged   [][]byte // every forged-signature transaction handed out so far
}

func (n *Network) NewMixer(rng *rand.Rand) *Mixer {
	return &Mixer{Net: n, Rng: rng, paused: map[int]bool{}, unstaked: map[int]bool{}, staked: map[int]bool{}}
}

const minFee = 10000

// Mix returns a mempool content in submission order.
func (m *Mixer) Mix(o MixOpts) []MixTx {
	n := m.Net
	var out []MixTx
	nSenders := len(n.AcctKeys) - 8 // the last 8 accounts are reserved for conflict pairs
	if nSenders < 1 {
		nSenders = 1
	}
	// all funded ordinary senders: ed25519 and BLS accounts, plus the secp256k1 and Ethereum-style
	// accounts when the network has them (Options.SchemeAccounts): blocks mix the signature schemes
	senders := append(append(append([]crypto.PrivateKeyI{}, n.AcctKeys[:nSenders]...), n.SecpKeys...), n.EthKeys...)
	for i := 0; i < o.Sends; i++ {
		from := senders[m.Rng.Intn(len(senders))]
		fee := uint64(minFee + m.Rng.Intn(3)*1000)
		m.fresh++
		out = append(out, MixTx{"send", n.SendTx(from, n.FreshAddr(m.fresh), uint64(1+m.Rng.Intn(100000)), fee, o.Height, ""), true})
	}
	for i := 0; i < o.Failing; i++ {
		from := n.AcctKeys[m.Rng.Intn(nSenders)]
		other := n.AcctKeys[(m.Rng.Intn(nSenders)+1)%len(n.AcctKeys)]
		m.fresh++
		to := n.FreshAddr(m.fresh)
		k := m.failKind % 9
		m.failKind++
		switch k {
		case 0:
			out = append(out, MixTx{"fail:insufficient", n.SendTx(from, to, 1<<62, minFee, o.Height, ""), false})
		case 1:
			out = append(out, MixTx{"fail:lowfee", n.SendTx(from, to, 5, 1, o.Height, ""), false})
		case 2:
			if string(Addr(other)) == string(Addr(from)) {
				other = n.ValKeys[0]
			}
			out = append(out, MixTx{"fail:unauthorized", n.SendTxFrom(from, Addr(other), to, 5, minFee, o.Height), false})
		case 3:
			// a forged signature of any scheme; remembered, to be submitted again at later heights
			from = senders[m.Rng.Intn(len(senders))]
			forged := CorruptSignature(n.SendTx(from, to, 5, minFee+uint64(m.Rng.Intn(3))*1000, o.Height, ""))
			m.Forged = append(m.Forged, forged)
			out = append(out, MixTx{"fail:badsig", forged, false})
		case 4:
			out = append(out, MixTx{"fail:farheight", n.SendTx(from, to, 5, minFee, o.Height+10000, ""), false})
		case 5:
			out = append(out, MixTx{"fail:unstake-unknown", n.UnstakeTx(from, Addr(from), minFee, o.Height), false})
		case 6:
			out = append(out, MixTx{"fail:wrongchain", WithChainId(n, from, to, 2, o.Height), false})
		case 8:
			// a valid signed send whose bytes are re-encoded with the same content and the same length but the
			// top-level fields in another order: not the canonical encoding, never to be included
			modes := []string{"swap-last-two", "reverse", "rotate"}
			if raw := ReencodePermuted(n.SendTx(from, to, 5, minFee+uint64(m.Rng.Intn(3))*1000, o.Height, ""), modes[m.Rng.Intn(3)]); raw != nil {
				out = append(out, MixTx{"fail:noncanon-permuted", raw, false})
			}
		case 7:
			out = append(out, MixTx{"fail:stake-insufficient", n.StakeTx(n.ValKeys[0], detBLS(n.Seed, "ghost", m.fresh).PublicKey().Bytes(), Addr(n.ValKeys[0]), 1<<61, minFee, o.Height, false), false})
		}
	}
	for i := 0; i < o.Conflicts && m.conflict < 8; i++ {
		k := n.AcctKeys[len(n.AcctKeys)-1-m.conflict]
		m.conflict++
		bal := n.accountBalance()
		m.fresh += 2
		// the higher fee is ordered first by the mempool and succeeds; the other then lacks funds
		out = append(out, MixTx{"conflict:lose", n.SendTx(k, n.FreshAddr(m.fresh), bal*6/10, minFee, o.Height, ""), false})
		out = append(out, MixTx{"conflict:win", n.SendTx(k, n.FreshAddr(m.fresh-1), bal*6/10, minFee+5000, o.Height, ""), true})
	}
	if o.ValOps && len(n.ValKeys) >= 4 {
		v := 2 + m.Rng.Intn(len(n.ValKeys)-2) // never touch validators 0 and 1
		vk := n.ValKeys[v]
		switch {
		case m.unstaked[v]:
		case m.paused[v]:
			out = append(out, MixTx{"unpause", n.UnpauseTx(vk, Addr(vk), minFee, o.Height), true})
			m.paused[v] = false
		default:
			switch m.Rng.Intn(3) {
			case 0:
				out = append(out, MixTx{"pause", n.PauseTx(vk, Addr(vk), minFee, o.Height), true})
				m.paused[v] = true
			case 1:
				n.Stakes[v] += 1000
				out = append(out, MixTx{"editstake", n.EditStakeTx(vk, Addr(vk), Addr(vk), n.Stakes[v], minFee, o.Height), true})
			case 2:
				out = append(out, MixTx{"unstake", n.UnstakeTx(vk, Addr(vk), minFee, o.Height), true})
				m.unstaked[v] = true
			}
		}
		// a new validator from a BLS account
		for i := 3; i < nSenders; i += 4 {
			if !m.staked[i] {
				m.staked[i] = true
				k := n.AcctKeys[i]
				out = append(out, MixTx{"stake", n.StakeTx(k, k.PublicKey().Bytes(), Addr(k), 500_000_000+uint64(i), minFee, o.Height, false), true})
				break
			}
		}
	}
	// forged-signature transactions every node has already rejected once come back (a peer gossips
	// them again): their earlier rejection must not have made them acceptable
	if o.ResubmitForged {
		for _, tx := range m.Forged {
			out = append(out, MixTx{"fail:badsig-resubmitted", tx, false})
		}
	}
	for _, tx := range o.Replay {
		out = append(out, MixTx{"dup", tx, o.Height < 2})
	}
	m.Rng.Shuffle(len(out), func(i, j int) { out[i], out[j] = out[j], out[i] })
	return out
}

func (n *Network) accountBalance() uint64 {
	for _, a := range n.Genesis.Accounts {
		if string(a.Address) == string(Addr(n.AcctKeys[len(n.AcctKeys)-1])) {
			return a.Amount
		}
	}
	return 0
}

// CorruptSignature flips one bit of the signature of a marshalled transaction.
func CorruptSignature(txBytes []byte) []byte {
	tx := new(lib.Transaction)
	if err := lib.Unmarshal(txBytes, tx); err != nil {
		panic(err)
	}
	tx.Signature.Signature[len(tx.Signature.Signature)/2] ^= 0x01
	bz, err := lib.Marshal(tx)
	if err != nil {
		panic(err)
	}
	return bz
}

// WithChainId builds a correctly signed send for another chain id.
func WithChainId(n *Network, from crypto.PrivateKeyI, to []byte, chainId, createdHeight uint64) []byte {
	return n.txFor(from, &fsm.MessageSend{FromAddress: Addr(from), ToAddress: to, Amount: 5}, minFee, createdHeight, "", chainId)
}
