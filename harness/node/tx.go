package node

import (
	"bytes"
	"github.com/canopy-network/canopy/fsm"
	"github.com/canopy-network/canopy/lib"
	"github.com/canopy-network/canopy/lib/crypto"
	"google.golang.org/protobuf/encoding/protowire"
)

// Transaction builders. They mirror fsm.NewTransaction / fsm.New*Tx (same message construction,
// real signatures) but take the `time` entropy field from a per-network counter so that a seeded
// run is reproducible byte for byte.

var txClock = uint64(1_700_000_000_000_000)

// Tx signs msg into a transaction and returns its canonical bytes.
func (n *Network) Tx(pk crypto.PrivateKeyI, msg lib.MessageI, fee, createdHeight uint64, memo string) []byte {
	return n.txFor(pk, msg, fee, createdHeight, memo, ChainId)
}

func (n *Network) txFor(pk crypto.PrivateKeyI, msg lib.MessageI, fee, createdHeight uint64, memo string, chainId uint64) []byte {
	a, err := lib.NewAny(msg)
	if err != nil {
		panic(err)
	}
	txClock++
	tx := &lib.Transaction{
		MessageType: msg.Name(), Msg: a, CreatedHeight: createdHeight, Time: txClock, Fee: fee, Memo: memo,
		NetworkId: NetworkId, ChainId: chainId,
	}
	if err = tx.Sign(pk); err != nil {
		panic(err)
	}
	bz, err := lib.Marshal(tx)
	if err != nil {
		panic(err)
	}
	return bz
}

func addr(pk crypto.PrivateKeyI) []byte { return pk.PublicKey().Address().Bytes() }

// Addr is the address of a key.
func Addr(pk crypto.PrivateKeyI) []byte { return addr(pk) }

// GhostBLSPublicKey is a deterministic BLS public key that belongs to nobody in the genesis.
func (n *Network) GhostBLSPublicKey(i int) []byte {
	return detBLS(n.Seed, "ghost", i).PublicKey().Bytes()
}

// FreshAddr is a deterministic address nobody holds the key of (a "fresh" recipient).
func (n *Network) FreshAddr(i int) []byte {
	return detKeyBytes(n.Seed, "fresh", i)[:crypto.AddressSize]
}

func (n *Network) SendTx(from crypto.PrivateKeyI, to []byte, amount, fee, createdHeight uint64, memo string) []byte {
	return n.Tx(from, &fsm.MessageSend{FromAddress: addr(from), ToAddress: to, Amount: amount}, fee, createdHeight, memo)
}

// SendTxFrom lets the message's from-address differ from the signer (an unauthorized send).
func (n *Network) SendTxFrom(signer crypto.PrivateKeyI, fromAddr, to []byte, amount, fee, createdHeight uint64) []byte {
	return n.Tx(signer, &fsm.MessageSend{FromAddress: fromAddr, ToAddress: to, Amount: amount}, fee, createdHeight, "")
}

func (n *Network) StakeTx(signer crypto.PrivateKeyI, pubKey, output []byte, amount, fee, createdHeight uint64, delegate bool) []byte {
	return n.Tx(signer, &fsm.MessageStake{
		PublicKey: pubKey, Amount: amount, Committees: []uint64{ChainId}, NetAddress: "tcp://new",
		OutputAddress: output, Delegate: delegate, Compound: true,
	}, fee, createdHeight, "")
}

func (n *Network) EditStakeTx(signer crypto.PrivateKeyI, valAddr, output []byte, amount, fee, createdHeight uint64) []byte {
	return n.Tx(signer, &fsm.MessageEditStake{
		Address: valAddr, Amount: amount, Committees: []uint64{ChainId}, NetAddress: "tcp://edited",
		OutputAddress: output, Compound: true,
	}, fee, createdHeight, "")
}

func (n *Network) UnstakeTx(signer crypto.PrivateKeyI, valAddr []byte, fee, createdHeight uint64) []byte {
	return n.Tx(signer, &fsm.MessageUnstake{Address: valAddr}, fee, createdHeight, "")
}

func (n *Network) PauseTx(signer crypto.PrivateKeyI, valAddr []byte, fee, createdHeight uint64) []byte {
	return n.Tx(signer, &fsm.MessagePause{Address: valAddr}, fee, createdHeight, "")
}

func (n *Network) UnpauseTx(signer crypto.PrivateKeyI, valAddr []byte, fee, createdHeight uint64) []byte {
	return n.Tx(signer, &fsm.MessageUnpause{Address: valAddr}, fee, createdHeight, "")
}

// ---- non-canonical re-encodings of a valid transaction (same content, different bytes) --------

// ReencodeExplicitZeroNonce appends field 10 (nonce) with an explicit zero: `0x50 0x00`.
func ReencodeExplicitZeroNonce(tx []byte) []byte { return append(append([]byte{}, tx...), 0x50, 0x00) }

// ReencodeRepeatedCreatedHeight appends field 4 (created_height) again with the same value as a
// non-minimal (padded) varint; proto3 scalar "last one wins" keeps the content identical.
func ReencodeRepeatedCreatedHeight(tx []byte, createdHeight uint64) []byte {
	out := append([]byte{}, tx...)
	out = append(out, 0x20)
	v := createdHeight
	for i := 0; i < 2; i++ { // at least two continuation groups => non-minimal for small values
		out = append(out, byte(v&0x7f)|0x80)
		v >>= 7
	}
	for v >= 0x80 {
		out = append(out, byte(v&0x7f)|0x80)
		v >>= 7
	}
	return append(out, byte(v))
}

// ReencodePermuted re-encodes a marshalled transaction with the SAME content and the SAME length but
// its top-level fields in another order (proto3 decoders accept fields in any order; the canonical
// encoding writes them in field-number order). mode: "swap-last-two" exchanges the last two fields
// (network_id and chain_id of an ordinary transaction), "reverse" writes all fields backwards,
// "rotate" moves the first field to the end. Returns nil when the transaction has fewer than two fields.
func ReencodePermuted(tx []byte, mode string) []byte {
	var fields [][]byte
	for rest := tx; len(rest) > 0; {
		num, typ, n := protowire.ConsumeTag(rest)
		if n < 0 {
			panic("harness: cannot split the transaction bytes it built itself")
		}
		m := protowire.ConsumeFieldValue(num, typ, rest[n:])
		if m < 0 {
			panic("harness: cannot split the transaction bytes it built itself")
		}
		fields = append(fields, rest[:n+m])
		rest = rest[n+m:]
	}
	if len(fields) < 2 {
		return nil
	}
	switch mode {
	case "swap-last-two":
		k := len(fields)
		fields[k-1], fields[k-2] = fields[k-2], fields[k-1]
	case "reverse":
		for i, j := 0, len(fields)-1; i < j; i, j = i+1, j-1 {
			fields[i], fields[j] = fields[j], fields[i]
		}
	default: // rotate
		fields = append(fields[1:], fields[0])
	}
	var out []byte
	for _, f := range fields {
		out = append(out, f...)
	}
	if len(out) != len(tx) || bytes.Equal(out, tx) {
		return nil
	}
	return out
}

// IsCanonicalTx: the bytes are what marshalling the decoded transaction gives.
func IsCanonicalTx(raw []byte) bool {
	tx := new(lib.Transaction)
	if err := lib.Unmarshal(raw, tx); err != nil {
		return false
	}
	bz, err := lib.Marshal(tx)
	return err == nil && bytes.Equal(bz, raw)
}

// CertificateResultsTx builds the transaction with which a nested chain reports a certificate to the
// root chain: a QuorumCertificate for (chainId, nestedHeight, rootHeight) without block, signed over
// its real SignBytes by the chosen members (see signerKey) of the nested committee as the node nd
// derives it at rootHeight, wrapped in MessageCertificateResults and signed by the proposer (whose
// address is the only authorized signer). Fee 0 is the default certificateResults fee.
func (n *Network) CertificateResultsTx(nd *Node, chainId, nestedHeight, rootHeight uint64, proposer int, signers []int, results *lib.CertificateResult, createdHeight uint64) []byte {
	nd.enter()
	vs, err := nd.C.FSM.LoadCommittee(chainId, rootHeight)
	realCode("LoadCommittee of the nested chain", err)
	pk := n.signerKey(proposer)
	qc := &lib.QuorumCertificate{
		Header:  &lib.View{Height: nestedHeight, RootHeight: rootHeight, NetworkId: NetworkId, ChainId: chainId},
		Results: results, ResultsHash: results.Hash(), BlockHash: detKeyBytes(n.Seed, "nested-block", int(nestedHeight)),
		ProposerKey: pk.PublicKey().Bytes(),
	}
	qc.Signature = n.Aggregate(vs, qc.SignBytes(), signers)
	return n.Tx(pk, &fsm.MessageCertificateResults{Qc: qc}, 0, createdHeight, "")
}

// CreateOrderTx lists a sell order on the root chain's order book of committee chainId; the order id is
// the first 20 bytes of the transaction hash (OrderId).
func (n *Network) CreateOrderTx(seller crypto.PrivateKeyI, chainId, amountForSale, requested uint64, receive []byte, fee, createdHeight uint64) []byte {
	return n.Tx(seller, &fsm.MessageCreateOrder{ChainId: chainId, AmountForSale: amountForSale, RequestedAmount: requested,
		SellerReceiveAddress: receive, SellersSendAddress: addr(seller)}, fee, createdHeight, "")
}

// OrderId of a create-order transaction.
func OrderId(createOrderTx []byte) []byte { return crypto.Hash(createOrderTx)[:20] }

// ChangeParamTx builds a governance changeParameter transaction (uint64 value) valid for heights
// [start, end], signed by (and naming as signer) the given key.
func (n *Network) ChangeParamTx(signer crypto.PrivateKeyI, space, key string, value, start, end, fee, createdHeight uint64) []byte {
	a, err := lib.NewAny(&lib.UInt64Wrapper{Value: value})
	if err != nil {
		panic(err)
	}
	return n.Tx(signer, &fsm.MessageChangeParameter{ParameterSpace: space, ParameterKey: key, ParameterValue: a,
		StartHeight: start, EndHeight: end, Signer: addr(signer)}, fee, createdHeight, "")
}
